/-
  Proofs.C09Proto — the invariant of the interleaving model under the discipline `Disc`.
-/
import GoluaVerif.Model.CoProto
namespace GoluaVerif.Proofs.C09Proto
open GoluaVerif.Spec.Co (upd upd_same upd_other)
open GoluaVerif.Model.CoProto

theorem seg_lock {a : Bool} {h : List Nat} {m : Nat} {r : List Ev} {f : Ph}
    (hs : seg (a, h) (.lock m :: r) = some f) : a = true ∧ m ∉ h ∧ seg (a, m :: h) r = some f := by
  simp only [seg, segStep] at hs
  split at hs
  · rename_i hc; exact ⟨hc.1, hc.2, by simpa using hs⟩
  · simp at hs

theorem seg_unlock {a : Bool} {h : List Nat} {m : Nat} {r : List Ev} {f : Ph}
    (hs : seg (a, h) (.unlock m :: r) = some f) : m ∈ h ∧ seg (a, h.erase m) r = some f := by
  simp only [seg, segStep] at hs
  split at hs
  · rename_i hc; exact ⟨hc, by simpa using hs⟩
  · simp at hs

theorem seg_send {a : Bool} {h : List Nat} {c : Nat} {r : List Ev} {f : Ph}
    (hs : seg (a, h) (.send c :: r) = some f) : a = true ∧ seg (false, h) r = some f := by
  simp only [seg, segStep] at hs
  split at hs
  · rename_i hc; exact ⟨hc, by simpa using hs⟩
  · simp at hs

theorem seg_recv {a : Bool} {h : List Nat} {c : Nat} {r : List Ev} {f : Ph}
    (hs : seg (a, h) (.recv c :: r) = some f) : a = false ∧ h = [] ∧ seg (true, []) r = some f := by
  simp only [seg, segStep] at hs
  split at hs
  · rename_i hc; exact ⟨hc.1, hc.2, by simpa using hs⟩
  · simp at hs

/-- an event that is neither a mutex nor a channel operation needs the baton and keeps the phase -/
theorem seg_local {a : Bool} {h : List Nat} {e : Ev} {r : List Ev} {f : Ph}
    (h1 : ∀ m, e ≠ .lock m) (h2 : ∀ m, e ≠ .unlock m) (h3 : ∀ c, e ≠ .send c) (h4 : ∀ c, e ≠ .recv c)
    (hs : seg (a, h) (e :: r) = some f) : a = true ∧ seg (a, h) r = some f := by
  cases e with
  | lock m => exact absurd rfl (h1 m)
  | unlock m => exact absurd rfl (h2 m)
  | send c => exact absurd rfl (h3 c)
  | recv c => exact absurd rfl (h4 c)
  | run =>
    simp only [seg, segStep] at hs
    split at hs
    · rename_i hc; exact ⟨hc.1, by simpa using hs⟩
    · simp at hs
  | closeCh _ | set _ | touch | spawn =>
    simp only [seg, segStep] at hs
    split at hs
    · rename_i hc; exact ⟨hc, by simpa using hs⟩
    · simp at hs

theorem seg_run {a : Bool} {h : List Nat} {r : List Ev} {f : Ph}
    (hs : seg (a, h) (.run :: r) = some f) : a = true ∧ h = [] := by
  simp only [seg, segStep] at hs
  split at hs
  · rename_i hc; exact hc
  · simp at hs

/-- the invariant: every goroutine's remaining program obeys the discipline from its current
    phase (baton flag, set of mutexes it holds), and at most one goroutine has the baton -/
structure InvF (fin : Nat → Bool) (s : St) : Prop where
  ex : ∃ H : Nat → List Nat,
      (∀ g m, m ∈ H g ↔ s.holder m = some g) ∧ (∀ g, (H g).Nodup) ∧
      (∀ g, seg (s.act g, H g) (s.prog g) = some (fin g, []))
  baton : ∀ g h, s.act g = true → s.act h = true → g = h
  some_active : ∃ g, s.act g = true

/-- the invariant for static families: the main goroutine ends with the baton, the others without -/
abbrev Inv (s : St) : Prop := InvF (fun g => g == 0) s

theorem inv_init {fam : Nat → List Ev} (hd : Disc fam) : Inv (initSt fam) := by
  refine ⟨⟨fun _ => [], ?_, ?_, ?_⟩, ?_, ?_⟩
  · intro g m; simp [initSt]
  · intro g; simp
  · intro g
    have := hd g
    simpa [disc, initSt] using this
  · intro g h hg hh
    simp [initSt] at hg hh
    rw [hg, hh]
  · exact ⟨0, by simp [initSt]⟩


theorem inv_lock {fin : Nat → Bool} {s : St} {g m : Nat} {r : List Ev} (hI : InvF fin s) (hp : s.prog g = .lock m :: r)
    (hfree : s.holder m = none) :
    InvF fin { s with prog := upd s.prog g r, holder := upd s.holder m (some g) } := by
  obtain ⟨⟨H, hH, hnd, hseg⟩, hb, hsa⟩ := hI
  have hs := hseg g
  rw [hp] at hs
  obtain ⟨ha, hm, hs'⟩ := seg_lock hs
  refine ⟨⟨upd H g (m :: H g), ?_, ?_, ?_⟩, hb, hsa⟩
  · intro g' m'
    by_cases hg : g' = g
    · subst hg
      by_cases hmm : m' = m
      · subst hmm; simp
      · simp [hmm, hH]
    · by_cases hmm : m' = m
      · subst hmm
        have : m' ∉ H g' := fun hin => by have := (hH g' m').1 hin; simp [hfree] at this
        simp [hg, this]; exact fun e => hg e.symm
      · simp [hg, hmm, hH]
  · intro g'
    by_cases hg : g' = g
    · subst hg; simp [hm, hnd]
    · simp [hg, hnd]
  · intro g'
    by_cases hg : g' = g
    · subst hg; simpa using hs'
    · simpa [hg] using hseg g'

theorem inv_unlock {fin : Nat → Bool} {s : St} {g m : Nat} {r : List Ev} (hI : InvF fin s) (hp : s.prog g = .unlock m :: r) :
    InvF fin { s with prog := upd s.prog g r, holder := upd s.holder m none } := by
  obtain ⟨⟨H, hH, hnd, hseg⟩, hb, hsa⟩ := hI
  have hs := hseg g
  rw [hp] at hs
  obtain ⟨hm, hs'⟩ := seg_unlock hs
  have hown : s.holder m = some g := (hH g m).1 hm
  refine ⟨⟨upd H g ((H g).erase m), ?_, ?_, ?_⟩, hb, hsa⟩
  · intro g' m'
    by_cases hg : g' = g
    · subst hg
      by_cases hmm : m' = m
      · subst hmm; simp [(hnd g').mem_erase_iff]
      · simp [hmm, (hnd g').mem_erase_iff, hH]
    · by_cases hmm : m' = m
      · subst hmm
        have : m' ∉ H g' := fun hin => by
          have := (hH g' m').1 hin; rw [hown] at this; exact hg (Option.some.inj this).symm
        simp [hg, this]
      · simp [hg, hmm, hH]
  · intro g'
    by_cases hg : g' = g
    · subst hg; simp [(hnd g').erase]
    · simp [hg, hnd]
  · intro g'
    by_cases hg : g' = g
    · subst hg; simpa using hs'
    · simpa [hg] using hseg g'

theorem inv_local {fin : Nat → Bool} {s : St} {g : Nat} {e : Ev} {r : List Ev} (hI : InvF fin s) (hp : s.prog g = e :: r)
    (h1 : ∀ m, e ≠ .lock m) (h2 : ∀ m, e ≠ .unlock m) (h3 : ∀ c, e ≠ .send c) (h4 : ∀ c, e ≠ .recv c) :
    InvF fin { s with prog := upd s.prog g r } := by
  obtain ⟨⟨H, hH, hnd, hseg⟩, hb, hsa⟩ := hI
  have hs := hseg g
  rw [hp] at hs
  obtain ⟨_, hs'⟩ := seg_local h1 h2 h3 h4 hs
  refine ⟨⟨H, hH, hnd, ?_⟩, hb, hsa⟩
  intro g'
  by_cases hg : g' = g
  · subst hg; simpa using hs'
  · simpa [hg] using hseg g'

theorem inv_sync {fin : Nat → Bool} {s : St} {g h c : Nat} {rg rh : List Ev} (hI : InvF fin s) (hgh : g ≠ h)
    (hpg : s.prog g = .send c :: rg) (hph : s.prog h = .recv c :: rh) :
    InvF fin { s with prog := upd (upd s.prog g rg) h rh, act := upd (upd s.act g false) h true } := by
  obtain ⟨⟨H, hH, hnd, hseg⟩, hb, hsa⟩ := hI
  have hsg := hseg g
  rw [hpg] at hsg
  obtain ⟨hag, hsg'⟩ := seg_send hsg
  have hsh := hseg h
  rw [hph] at hsh
  obtain ⟨hah, hhe, hsh'⟩ := seg_recv hsh
  refine ⟨⟨H, hH, hnd, ?_⟩, ?_, ⟨h, by simp⟩⟩
  · intro g'
    by_cases h1 : g' = h
    · subst h1; simpa [hhe] using hsh'
    · by_cases h2 : g' = g
      · subst h2; simpa [h1] using hsg'
      · simpa [h1, h2] using hseg g'
  · intro a b ha hb'
    have key : ∀ x, upd (upd s.act g false) h true x = true → x = h := by
      intro x hx
      by_cases h1 : x = h
      · exact h1
      · by_cases h2 : x = g
        · subst h2; simp [h1] at hx
        · simp [h1, h2] at hx
          exact absurd (hb x g hx hag) h2
    rw [key a ha, key b hb']

theorem inv_fire {fin : Nat → Bool} {s s' : St} {a : Act} (hI : InvF fin s) (hf : fire s a = some s') : InvF fin s' := by
  cases a with
  | one g =>
    simp only [fire] at hf
    split at hf
    · cases hf
    · rename_i m r hp
      split at hf
      · rename_i hfree
        cases hf
        exact inv_lock hI hp hfree
      · cases hf
    · rename_i m r hp
      cases hf
      exact inv_unlock hI hp
    · cases hf
    · cases hf
    · rename_i e r h1 h2 h3 h4 hp
      cases hf
      exact inv_local hI hp h1 h2 h3 h4
  | sync g h =>
    simp only [fire] at hf
    split at hf
    · cases hf
    · rename_i hgh
      split at hf
      · rename_i c rg hpg
        split at hf
        · rename_i c' rh hph
          split at hf
          · rename_i hcc
            cases hf
            subst hcc
            exact inv_sync hI hgh hpg hph
          · cases hf
        · cases hf
      · cases hf

theorem inv_reach {fam : Nat → List Ev} (hd : Disc fam) {s : St} (hr : Reach fam s) : Inv s := by
  induction hr with
  | init => exact inv_init hd
  | step a _ hf ih => exact inv_fire ih hf


/-- a goroutine about to touch shared state holds the baton -/
theorem atTouch_act {fin : Nat → Bool} {s : St} (hI : InvF fin s) {g : Nat} (ht : atTouch s g = true) : s.act g = true := by
  obtain ⟨⟨H, _, _, hseg⟩, _, _⟩ := hI
  have hs := hseg g
  unfold atTouch at ht
  split at ht
  · rename_i r hp; rw [hp] at hs
    exact (seg_local (by intros; simp) (by intros; simp) (by intros; simp) (by intros; simp) hs).1
  · rename_i r hp; rw [hp] at hs
    exact (seg_local (by intros; simp) (by intros; simp) (by intros; simp) (by intros; simp) hs).1
  · cases ht

theorem busy_act {fin : Nat → Bool} {s : St} (hI : InvF fin s) {g : Nat} (hb : busy s g = true) : s.act g = true := by
  unfold busy at hb
  cases ha : s.act g with
  | true => rfl
  | false => rw [ha] at hb; simp at hb; exact absurd (atTouch_act hI hb) (by simp [ha])

/-- whoever holds a mutex another goroutine is waiting for can take a step (it is unlocking) -/
theorem holder_can_step {fin : Nat → Bool} {s : St} (hI : InvF fin s) {g g' m : Nat} {r : List Ev}
    (hp : s.prog g = .lock m :: r) (hh : s.holder m = some g') : ∃ s', fire s (.one g') = some s' := by
  obtain ⟨⟨H, hH, hnd, hseg⟩, hb, hsa⟩ := hI
  have hs := hseg g
  rw [hp] at hs
  obtain ⟨hag, hmg, _⟩ := seg_lock hs
  have hm' : m ∈ H g' := (hH g' m).2 hh
  have hne : g' ≠ g := fun e => hmg (e ▸ hm')
  have hag' : s.act g' = false := by
    cases h : s.act g' with
    | false => rfl
    | true => exact absurd (hb g' g h hag) hne
  have hs' := hseg g'
  rw [hag'] at hs'
  cases hp' : s.prog g' with
  | nil =>
    rw [hp'] at hs'
    simp [seg] at hs'
    rw [hs'.2] at hm'; cases hm'
  | cons e r' =>
    rw [hp'] at hs'
    cases e with
    | lock m' => exact absurd (seg_lock hs').1 (by simp)
    | unlock m' => exact ⟨{ s with prog := upd s.prog g' r', holder := upd s.holder m' none }, by simp [fire, hp']⟩
    | send c => exact absurd (seg_send hs').1 (by simp)
    | recv c => have := (seg_recv hs').2.1; rw [this] at hm'; cases hm'
    | closeCh _ | set _ | touch | run | spawn =>
      exact absurd (seg_local (by intros; simp) (by intros; simp) (by intros; simp) (by intros; simp) hs').1 (by simp)

/-- in a state where nothing can move, every goroutine has terminated or is parked in a receive,
    except possibly the baton holder, which is then blocked in a send nobody receives -/
theorem stuck_shape {s : St} (hI : Inv s) (hst : Stuck s) (g : Nat) :
    s.prog g = [] ∨ (∃ c r, s.prog g = .recv c :: r) ∨
    (∃ c r, s.prog g = .send c :: r ∧ s.act g = true ∧ ∀ h r', h ≠ g → s.prog h ≠ .recv c :: r') := by
  cases hp : s.prog g with
  | nil => exact Or.inl rfl
  | cons e r =>
    have h1 := hst (.one g)
    cases e with
    | lock m =>
      simp only [fire, hp] at h1
      split at h1
      · cases h1
      · rename_i hne
        cases hh : s.holder m with
        | none => exact absurd hh hne
        | some g' =>
          obtain ⟨s', hs'⟩ := holder_can_step hI hp hh
          rw [hst (.one g')] at hs'; cases hs'
    | unlock m => simp [fire, hp] at h1
    | recv c => exact Or.inr (Or.inl ⟨c, r, rfl⟩)
    | send c =>
      refine Or.inr (Or.inr ⟨c, r, rfl, ?_, ?_⟩)
      · obtain ⟨⟨H, _, _, hseg⟩, _, _⟩ := hI
        have hs := hseg g; rw [hp] at hs; exact (seg_send hs).1
      · intro h r' hne hph
        have h2 := hst (.sync g h)
        have hgh : g ≠ h := fun e => hne e.symm
        simp [fire, hp, hph, hgh] at h2
    | closeCh _ | set _ | touch | run | spawn => simp [fire, hp] at h1

/-- the unique baton holder in a stuck state: the main goroutine, finished — or a sender nobody listens to -/
theorem stuck_main_done_or_unmatched {s : St} (hI : Inv s) (hst : Stuck s) :
    s.prog 0 = [] ∨ ∃ g c r, s.act g = true ∧ s.prog g = .send c :: r ∧
      ∀ h r', h ≠ g → s.prog h ≠ .recv c :: r' := by
  obtain ⟨g, hg⟩ := hI.some_active
  rcases stuck_shape hI hst g with h0 | ⟨c, r, hr⟩ | ⟨c, r, hs, ha, hno⟩
  · left
    obtain ⟨⟨H, _, _, hseg⟩, _, _⟩ := hI
    have hs := hseg g
    rw [h0, hg] at hs
    simp [seg] at hs
    have : g = 0 := by have := hs.1; omega
    rw [← this]; exact h0
  · exfalso
    obtain ⟨⟨H, _, _, hseg⟩, _, _⟩ := hI
    have hs := hseg g
    rw [hr] at hs
    have := (seg_recv hs).1
    rw [hg] at this; cases this
  · exact Or.inr ⟨g, c, r, ha, hs, hno⟩


/-! ### concrete schedules -/

theorem reach_of_runSched {fam : Nat → List Ev} {s0 s : St} (h0 : Reach fam s0) :
    ∀ (sched : List Act), runSched s0 sched = some s → Reach fam s := by
  intro sched
  induction sched generalizing s0 with
  | nil => intro h; simp [runSched] at h; exact h ▸ h0
  | cons a as ih =>
    intro h
    simp only [runSched] at h
    cases hf : fire s0 a with
    | none => simp [hf] at h
    | some s1 => simp [hf] at h; exact ih (Reach.step a h0 hf) h

/-- a goroutine whose program is exhausted never moves again -/
theorem prog_nil_stable {s s' : St} {a : Act} (hf : fire s a = some s') {g : Nat} (hg : s.prog g = []) :
    s'.prog g = [] := by
  cases a with
  | one k =>
    have hk : k ≠ g := fun e => by subst e; simp [fire, hg] at hf
    have hgk : g ≠ k := fun e => hk e.symm
    simp only [fire] at hf
    split at hf
    · cases hf
    · split at hf
      · cases hf; simp [hgk, hg]
      · cases hf
    · cases hf; simp [hgk, hg]
    · cases hf
    · cases hf
    · cases hf; simp [hgk, hg]
  | sync k h =>
    simp only [fire] at hf
    split at hf
    · cases hf
    · split at hf
      · rename_i c rg hpk
        split at hf
        · rename_i c' rh hph
          split at hf
          · cases hf
            have h1 : g ≠ k := fun e => by subst e; rw [hg] at hpk; cases hpk
            have h2 : g ≠ h := fun e => by subst e; rw [hg] at hph; cases hph
            simp [h1, h2, hg]
          · cases hf
        · cases hf
      · cases hf

theorem nil_beyond {l : List (List Ev)} {s : St} (hr : Reach (famOfList l) s) :
    ∀ g, l.length ≤ g → s.prog g = [] := by
  induction hr with
  | init => intro g hg; simp [initSt, famOfList, List.getD, List.getElem?_eq_none hg]
  | step a _ hf ih => intro g hg; exact prog_nil_stable hf (ih g hg)

/-- the bounded check decides `Stuck` for families given as finite lists -/
theorem stuck_of_stuckBelow {l : List (List Ev)} {s : St} (hr : Reach (famOfList l) s)
    (hb : stuckBelow l.length s = true) : Stuck s := by
  have hn := nil_beyond hr
  simp only [stuckBelow, List.all_eq_true, List.mem_range, Bool.and_eq_true, Option.isNone_iff_eq_none] at hb
  intro a
  cases a with
  | one g =>
    by_cases hg : g < l.length
    · exact (hb g hg).1
    · simp [fire, hn g (Nat.le_of_not_lt hg)]
  | sync g h =>
    by_cases hg : g < l.length
    · by_cases hh : h < l.length
      · exact (hb g hg).2 h hh
      · simp only [fire]
        split
        · rfl
        · split
          · simp [hn h (Nat.le_of_not_lt hh)]
          · rfl
    · simp only [fire]
      split
      · rfl
      · simp [hn g (Nat.le_of_not_lt hg)]


/-! ### channel ownership -/

/-- programs only shrink: each goroutine's remaining program is a suffix of its original one -/
theorem prog_suffix {fam : Nat → List Ev} {s : St} (hr : Reach fam s) : ∀ g, s.prog g <:+ fam g := by
  induction hr with
  | init => intro g; exact List.suffix_refl _
  | @step s s' a _ hf ih =>
    have tail_suffix : ∀ {g : Nat} {e : Ev} {r : List Ev}, s.prog g = e :: r → r <:+ fam g := by
      intro g e r hp
      exact List.IsSuffix.trans (hp ▸ List.suffix_cons e r) (ih g)
    intro g
    cases a with
    | one k =>
      simp only [fire] at hf
      by_cases hk : g = k
      · subst hk
        split at hf
        · cases hf
        · rename_i m r hp
          split at hf
          · cases hf; simpa using tail_suffix hp
          · cases hf
        · rename_i m r hp; cases hf; simpa using tail_suffix hp
        · cases hf
        · cases hf
        · rename_i e r _ _ _ _ hp; cases hf; simpa using tail_suffix hp
      · split at hf
        · cases hf
        · split at hf
          · cases hf; simpa [hk] using ih g
          · cases hf
        · cases hf; simpa [hk] using ih g
        · cases hf
        · cases hf
        · cases hf; simpa [hk] using ih g
    | sync k h =>
      simp only [fire] at hf
      split at hf
      · cases hf
      · split at hf
        · rename_i c rg hpk
          split at hf
          · rename_i c' rh hph
            split at hf
            · cases hf
              by_cases h1 : g = h
              · subst h1; simpa using tail_suffix hph
              · by_cases h2 : g = k
                · subst h2; simpa [h1] using tail_suffix hpk
                · simpa [h1, h2] using ih g
            · cases hf
          · cases hf
        · cases hf

/-- with channel ownership, the only way to be stuck before main finishes: the baton holder sends
    to a goroutine that has terminated -/
theorem stuck_main_done_or_dead_target {fam : Nat → List Ev} (ho : OwnRecv fam) {s : St}
    (hr : Reach fam s) (hI : Inv s) (hst : Stuck s) :
    s.prog 0 = [] ∨ ∃ g c r, s.act g = true ∧ s.prog g = .send c :: r ∧ (c = g ∨ s.prog c = []) := by
  rcases stuck_main_done_or_unmatched hI hst with h | ⟨g, c, r, ha, hp, hno⟩
  · exact Or.inl h
  · refine Or.inr ⟨g, c, r, ha, hp, ?_⟩
    by_cases hcg : c = g
    · exact Or.inl hcg
    · right
      rcases stuck_shape hI hst c with h0 | ⟨c', r', hr'⟩ | ⟨c', r', hs', ha', _⟩
      · exact h0
      · exfalso
        have hmem : Ev.recv c' ∈ fam c := (prog_suffix hr c).subset (by rw [hr']; simp)
        have : c' = c := by
          have := List.all_eq_true.1 (ho c) _ hmem
          simpa using this
        subst this
        exact hno c' r' hcg hr'
      · exact absurd (hI.baton c g ha' ha) hcg

end GoluaVerif.Proofs.C09Proto
