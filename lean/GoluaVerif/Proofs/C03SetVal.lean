/-
  Proofs.C03SetVal — changing only the value of a non-empty slot preserves the invariant of the
  hash part (remove keeps the key as a tombstone; reset / update of an existing key).
-/
import GoluaVerif.Proofs.C03Hash
namespace GoluaVerif.Model.Table
open GoluaVerif.Spec (Key Val Map)

/-- everything of a slot but its value -/
def Slot.shape (s : Slot) : Option Key × Nat × Bool × Bool := (s.key, s.next, s.hasNext, s.chained)

theorem shape_getElem? {slots slots' : List Slot} (h : slots'.map Slot.shape = slots.map Slot.shape) (j : Nat) :
    (slots'[j]?).map Slot.shape = (slots[j]?).map Slot.shape := by
  rw [← List.getElem?_map, ← List.getElem?_map, h]

theorem shape_length {slots slots' : List Slot} (h : slots'.map Slot.shape = slots.map Slot.shape) :
    slots'.length = slots.length := by
  have := congrArg List.length h
  simpa using this

theorem shape_getElem {slots slots' : List Slot} (h : slots'.map Slot.shape = slots.map Slot.shape) (j : Nat)
    (hj : j < slots.length) (hj' : j < slots'.length) : slots'[j].shape = slots[j].shape := by
  have := shape_getElem? h j
  rw [List.getElem?_eq_getElem hj, List.getElem?_eq_getElem hj'] at this
  simpa using this

theorem chain_congr {slots slots' : List Slot} (h : slots'.map Slot.shape = slots.map Slot.shape)
    (f i : Nat) : chain slots' f i = chain slots f i := by
  induction f generalizing i with
  | zero => rfl
  | succ f ih =>
    rw [chain, chain]
    have := shape_getElem? h i
    cases hs : slots[i]? with
    | none =>
      rw [hs] at this
      cases hs' : slots'[i]? with
      | none => rfl
      | some s' => rw [hs'] at this; simp at this
    | some s =>
      rw [hs] at this
      cases hs' : slots'[i]? with
      | none => rw [hs'] at this; simp at this
      | some s' =>
        rw [hs'] at this
        simp only [Option.map_some, Option.some.injEq, Slot.shape, Prod.mk.injEq] at this
        obtain ⟨_, e2, e3, _⟩ := this
        simp only [e2, e3, ih]

theorem cnt_congr {slots slots' : List Slot} (h : slots'.map Slot.shape = slots.map Slot.shape) :
    cnt slots' = cnt slots := by
  have e : ∀ l : List Slot, cnt l = List.countP (fun (x : Option Key × Nat × Bool × Bool) => x.1.isSome) (l.map Slot.shape) := by
    intro l; unfold cnt; rw [List.countP_map]; rfl
  rw [e, e, h]

theorem chainInv_congr (hash : Key → Nat) {slots slots' : List Slot} (mask : Nat)
    (h : slots'.map Slot.shape = slots.map Slot.shape) (ci : ChainInv hash slots mask) :
    ChainInv hash slots' mask := by
  have hl := shape_length h
  have key : ∀ j (hj' : j < slots'.length), slots'[j].key = (slots[j]'(hl ▸ hj')).key ∧
      slots'[j].next = (slots[j]'(hl ▸ hj')).next ∧ slots'[j].hasNext = (slots[j]'(hl ▸ hj')).hasNext ∧
      slots'[j].chained = (slots[j]'(hl ▸ hj')).chained := by
    intro j hj'
    have := shape_getElem h j (hl ▸ hj') hj'
    simp only [Slot.shape, Prod.mk.injEq] at this
    exact this
  constructor
  · intro i hi k hk hc
    have := key i hi
    exact ci.unchained_primary i (hl ▸ hi) k (this.1 ▸ hk) (this.2.2.2 ▸ hc)
  · intro i hi k hk
    have ki := key i hi
    have := ci.on_chain i (hl ▸ hi) k (ki.1 ▸ hk)
    unfold onChain at this ⊢
    rw [chain_congr h, cnt_congr h]
    have hp := shape_getElem? h (prim hash mask k)
    cases hs : slots[prim hash mask k]? with
    | none => simp [hs] at this
    | some s =>
      rw [hs] at hp
      cases hs' : slots'[prim hash mask k]? with
      | none => rw [hs'] at hp; simp at hp
      | some s' =>
        rw [hs'] at hp
        simp only [Option.map_some, Option.some.injEq, Slot.shape, Prod.mk.injEq] at hp
        rw [hs] at this
        cases hc : chain slots (cnt slots) (prim hash mask k) with
        | none => simp [hc] at this
        | some l =>
          simp only [hc] at this ⊢
          rw [hp.2.2.2]
          exact this
  · intro j hj hn
    have kj := key j hj
    obtain ⟨h', hc, k, k', e1, e2, e3⟩ := ci.next_ok j (hl ▸ hj) (kj.2.2.1 ▸ hn)
    have hnx : slots'[j].next < slots'.length := by have := kj.2.1; omega
    have eidx : ∀ (a b : Nat) (e : a = b) (ha : a < slots.length), slots[a] = slots[b]'(e ▸ ha) := by
      intro a b e ha; subst e; rfl
    have e4 := eidx _ _ kj.2.1 (hl ▸ hnx)
    refine ⟨hnx, ?_, k, k', ?_, ?_, e3⟩
    · have := key _ hnx
      rw [this.2.2.2, e4]; exact hc
    · rw [kj.1]; exact e1
    · have := key _ hnx
      rw [this.1, e4]; exact e2

/-- `slots[i].val := v` -/
def setVal (slots : List Slot) (i : Nat) (hi : i < slots.length) (v : Option Val) : List Slot :=
  slots.set i { slots[i] with val := v }

theorem setVal_shape (slots : List Slot) (i : Nat) (hi : i < slots.length) (v : Option Val) :
    (setVal slots i hi v).map Slot.shape = slots.map Slot.shape := by
  unfold setVal
  rw [List.map_set]
  have : Slot.shape { slots[i] with val := v } = (slots.map Slot.shape)[i]'(by simpa using hi) := by
    simp [Slot.shape]
  rw [this, List.set_getElem_self]

theorem setVal_length (slots : List Slot) (i : Nat) (hi : i < slots.length) (v : Option Val) :
    (setVal slots i hi v).length = slots.length := by simp [setVal]

theorem setVal_getElem (slots : List Slot) (i : Nat) (hi : i < slots.length) (v : Option Val) (j : Nat)
    (hj : j < slots.length) :
    (setVal slots i hi v)[j]'(by rw [setVal_length]; exact hj) =
      if i = j then { slots[i] with val := v } else slots[j] := by
  simp only [setVal, List.getElem_set]

theorem hashInv_setVal (hash : Key → Nat) (t : HashTable) (asize : Nat) (inv : HashInv hash t asize)
    (i : Nat) (hi : i < t.slots.length) (hne : t.slots[i].key ≠ none) (v : Option Val) :
    HashInv hash { t with slots := setVal t.slots i hi v } asize := by
  have hsh := setVal_shape t.slots i hi v
  have hl : (setVal t.slots i hi v).length = t.slots.length := by simp [setVal]
  have key : ∀ j (hj : j < (setVal t.slots i hi v).length),
      (setVal t.slots i hi v)[j].key = (t.slots[j]'(hl ▸ hj)).key := by
    intro j hj
    rw [setVal_getElem]
    split
    · rename_i e; subst e; rfl
    · rfl
  constructor
  · show (setVal t.slots i hi v).length = 2 ^ t.base
    rw [hl]; exact inv.size
  · show NextFreeOk (setVal t.slots i hi v) t.nextFree
    have := inv.next_free
    cases hnf : t.nextFree with
    | none =>
      rw [hnf] at this
      intro j hj
      rw [key]; exact this j (hl ▸ hj)
    | some f =>
      rw [hnf] at this
      obtain ⟨hf, h1, h2⟩ := this
      refine ⟨hl ▸ hf, ?_, ?_⟩
      · rw [key]; exact h1
      · intro j hj hfj; rw [key]; exact h2 j (hl ▸ hj) hfj
  · show ∀ j (h : j < (setVal t.slots i hi v).length), (setVal t.slots i hi v)[j].key = none →
      (setVal t.slots i hi v)[j] = Slot.zero
    intro j hj hk
    rw [key] at hk
    rw [setVal_getElem]
    split
    · rename_i e; subst e; exact absurd hk hne
    · exact inv.empty_zero j (hl ▸ hj) hk
  · show ∀ a (ha : a < (setVal t.slots i hi v).length) b (hb : b < (setVal t.slots i hi v).length),
      (setVal t.slots i hi v)[a].key ≠ none → (setVal t.slots i hi v)[a].key = (setVal t.slots i hi v)[b].key → a = b
    intro a ha b hb h1 h2
    rw [key] at h1 h2
    rw [key] at h2
    exact inv.nodup a (hl ▸ ha) b (hl ▸ hb) h1 h2
  · show ∀ j (h : j < (setVal t.slots i hi v).length) (z : Int), (setVal t.slots i hi v)[j].key = some (.int z) → _
    intro j hj z hz
    rw [key] at hz
    exact inv.disjoint j (hl ▸ hj) z hz
  · show ∀ j (h : j < (setVal t.slots i hi v).length) k, (setVal t.slots i hi v)[j].key = some k → k.norm = k
    intro j hj k hk
    rw [key] at hk
    exact inv.normal j (hl ▸ hj) k hk
  · intro hm
    exact chainInv_congr hash _ hsh (inv.chains hm)

/-- the abstraction after `slots[i].val := v` -/
theorem hashLookup_setVal (slots : List Slot) (nd : NoDup slots) (i : Nat) (hi : i < slots.length) (k : Key)
    (hk : slots[i].key = some k) (v : Option Val) (k' : Key) :
    hashLookup (setVal slots i hi v) k' = if k' = k then v else hashLookup slots k' := by
  have hl : (setVal slots i hi v).length = slots.length := by simp [setVal]
  have key : ∀ j (hj : j < (setVal slots i hi v).length),
      (setVal slots i hi v)[j].key = (slots[j]'(hl ▸ hj)).key := by
    intro j hj
    rw [setVal_getElem]
    split
    · rename_i e; subst e; rfl
    · rfl
  have nd' : NoDup (setVal slots i hi v) := by
    intro a ha b hb h1 h2
    rw [key] at h1 h2
    rw [key] at h2
    exact nd a (hl ▸ ha) b (hl ▸ hb) h1 h2
  by_cases e : k' = k
  · subst e
    rw [hashLookup_found _ nd' i (hl ▸ hi) k' (by rw [key]; exact hk)]
    rw [setVal_getElem _ _ _ _ _ hi]
    simp
  · simp only [e, if_false]
    by_cases hex : ∃ j, ∃ (hj : j < slots.length), slots[j].key = some k'
    · obtain ⟨j, hj, hkj⟩ := hex
      have hij : ¬ i = j := by
        intro e'; subst e'; rw [hk] at hkj; exact e (Option.some.inj hkj).symm
      rw [hashLookup_found _ nd' j (hl ▸ hj) k' (by rw [key]; exact hkj), hashLookup_found _ nd j hj k' hkj]
      rw [setVal_getElem _ _ _ _ _ hj]
      simp [hij]
    · have habs : ∀ j (hj : j < slots.length), slots[j].key ≠ some k' := fun j hj h => hex ⟨j, hj, h⟩
      rw [hashLookup_absent _ _ habs, hashLookup_absent]
      intro j hj
      rw [key]; exact habs j (hl ▸ hj)

end GoluaVerif.Model.Table
