/-
  Proofs.PatMono — more machine fuel never changes a result other than `outOfFuel`.
-/
import GoluaVerif.Proofs.PatRefineTop
namespace GoluaVerif.Model.PatMatch
open GoluaVerif.Model

variable (P : Pattern) (s : Subject)

theorem run_mono : ∀ (f : Nat) (m : M) (r : R (Bool × M)), run P s f m = r → r ≠ .error .outOfFuel →
    run P s (f + 1) m = r := by
  intro f
  induction f with
  | zero => intro m r h hne; rw [run] at h; exact absurd h.symm hne
  | succ f ih =>
    intro m r h hne
    rw [run_succ] at h ⊢
    cases hs : step P s m with
    | error e => rw [hs] at h; exact h
    | ok v =>
      obtain ⟨st, m'⟩ := v
      rw [hs] at h
      cases st with
      | running =>
        simp only [Except.bind] at h ⊢
        exact ih m' r h hne
      | matched => exact h
      | failed => exact h

theorem run_mono_le {f f' : Nat} {m : M} {r : R (Bool × M)} (h : run P s f m = r) (hne : r ≠ .error .outOfFuel)
    (hle : f ≤ f') : run P s f' m = r := by
  obtain ⟨k, rfl⟩ : ∃ k, f' = f + k := ⟨f' - f, by omega⟩
  induction k with
  | zero => exact h
  | succ k ih => exact run_mono P s (f + k) m r (ih (by omega)) hne

theorem matchToEnd_mono {f f' : Nat} {m : M} {r : R (Option (List Capture) × M)} (h : matchToEnd P s f m = r)
    (hne : r ≠ .error .outOfFuel) (hle : f ≤ f') : matchToEnd P s f' m = r := by
  unfold matchToEnd at h ⊢
  cases hc : capAt m.caps 0 with
  | error e => rw [hc] at h; exact h
  | ok c =>
    rw [hc] at h
    simp only [bind, Except.bind] at h ⊢
    cases hcs : capSet m.caps 0 { c with start := m.si } with
    | error e => rw [hcs] at h; exact h
    | ok caps =>
      rw [hcs] at h
      simp only at h ⊢
      cases hr : run P s f { m with caps := caps } with
      | error e =>
        rw [hr] at h
        have hne' : (Except.error e : R (Bool × M)) ≠ .error .outOfFuel := by
          intro heq; injection heq with heq; subst heq; exact hne h.symm
        rw [run_mono_le P s hr hne' hle]; exact h
      | ok v =>
        rw [hr] at h
        rw [run_mono_le P s hr (by intro heq; cases heq) hle]; exact h

theorem findLoop_mono {f f' : Nat} (hle : f ≤ f') : ∀ (cnt : Nat) (si : Int) (m : M) (r : R (Option (List Capture) × M)),
    findLoop P s f cnt si m = r → r ≠ .error .outOfFuel → findLoop P s f' cnt si m = r := by
  intro cnt
  induction cnt with
  | zero => intro si m r h _; exact h
  | succ c ih =>
    intro si m r h hne
    rw [findLoop] at h ⊢
    by_cases hsi : si ≤ s.size
    · simp only [hsi, if_true, bind, Except.bind] at h ⊢
      cases hm : matchToEnd P s f (reset m si) with
      | error e =>
        rw [hm] at h
        have hne' : (Except.error e : R (Option (List Capture) × M)) ≠ .error .outOfFuel := by
          intro heq; injection heq with heq; subst heq; exact hne h.symm
        rw [matchToEnd_mono P s hm hne' hle]; exact h
      | ok v =>
        rw [hm] at h
        rw [matchToEnd_mono P s hm (by intro heq; cases heq) hle]
        obtain ⟨o, m'⟩ := v
        cases o with
        | some caps => exact h
        | none => exact ih (si + 1) m' r h hne
    · simp only [hsi, if_false] at h ⊢; exact h

theorem findFromStart_mono {f f' : Nat} (hle : f ≤ f') (m : M) (r : R (Option (List Capture) × M))
    (h : findFromStart P s f m = r) (hne : r ≠ .error .outOfFuel) : findFromStart P s f' m = r := by
  unfold findFromStart at h ⊢
  split at h
  · rename_i hA; simp only [hA, if_true]; exact matchToEnd_mono P s h hne hle
  · rename_i hA; simp only [hA, if_false]; unfold find at h ⊢; exact findLoop_mono P s hle _ _ _ _ h hne

/-- for a pattern tied to a parsed `Pat` (`PatRel`), `MatchFromStart` never recovers an index panic, whatever
    the machine fuel -/
theorem matchFromStart_no_panic (pat : Spec.LuaPattern.Pat) (hp : PatRel P pat) (init : Nat) (hinit : init ≤ s.size)
    (fuel : Nat) : (matchFromStart P s fuel init 0).escapedPanic = none := by
  obtain ⟨N, hN⟩ := matchFromStart_refines P s pat hp init hinit
  cases hr : findFromStart P s fuel (initM init 0) with
  | ok v => unfold matchFromStart; rw [hr]; rfl
  | error e =>
    cases e with
    | budgetConsumed => unfold matchFromStart; rw [hr]; rfl
    | outOfFuel => unfold matchFromStart; rw [hr]; rfl
    | goPanic w =>
      have := findFromStart_mono P s (Nat.le_max_left fuel N) _ _ hr (by intro heq; cases heq)
      have h2 := (hN (max fuel N) (Nat.le_max_right fuel N)).2.1
      unfold matchFromStart at h2
      rw [this] at h2
      simp [recoverWrap] at h2

end GoluaVerif.Model.PatMatch
