/-
  Proofs.C18Sort — the model's `sortDesc` (mirror of sort.Sort with Less = markOrder descending)
  is a permutation of its input and is sorted by descending markOrder; plus the list algebra of
  the trace projections used by Props.C18.
-/
import GoluaVerif.Model.ClonePool
namespace GoluaVerif.Proofs.C18
open GoluaVerif.Spec.Gc GoluaVerif.Model.ClonePool

def ords (l : List Entry) : List Nat := l.map (·.order)

theorem insertDesc_perm (e : Entry) (l : List Entry) : (insertDesc e l).Perm (e :: l) := by
  induction l with
  | nil => exact List.Perm.refl _
  | cons x xs ih =>
    unfold insertDesc
    split
    · exact List.Perm.refl _
    · exact (List.Perm.cons x ih).trans (List.Perm.swap e x xs)

theorem sortDesc_perm (l : List Entry) : (sortDesc l).Perm l := by
  induction l with
  | nil => exact List.Perm.refl _
  | cons x xs ih =>
    show (insertDesc x (sortDesc xs)).Perm (x :: xs)
    exact (insertDesc_perm x _).trans (List.Perm.cons x ih)

theorem mem_sortDesc {l : List Entry} {e : Entry} : e ∈ sortDesc l ↔ e ∈ l :=
  (sortDesc_perm l).mem_iff

theorem ords_sortDesc_perm (l : List Entry) : (ords (sortDesc l)).Perm (ords l) :=
  (sortDesc_perm l).map _

theorem insertDesc_sorted (e : Entry) (l : List Entry)
    (h : l.Pairwise (fun a b => b.order ≤ a.order)) :
    (insertDesc e l).Pairwise (fun a b => b.order ≤ a.order) := by
  induction l with
  | nil => simp [insertDesc]
  | cons x xs ih =>
    unfold insertDesc
    split
    · rename_i hle
      refine List.Pairwise.cons ?_ h
      intro b hb
      rcases List.mem_cons.mp hb with rfl | hb
      · exact hle
      · exact Nat.le_trans ((List.pairwise_cons.mp h).1 b hb) hle
    · rename_i hnle
      have hx := List.pairwise_cons.mp h
      refine List.Pairwise.cons ?_ (ih hx.2)
      intro b hb
      have : b ∈ e :: xs := (insertDesc_perm e xs).mem_iff.mp hb
      rcases List.mem_cons.mp this with rfl | hb
      · omega
      · exact hx.1 b hb

theorem sortDesc_sorted (l : List Entry) : (sortDesc l).Pairwise (fun a b => b.order ≤ a.order) := by
  induction l with
  | nil => exact List.Pairwise.nil
  | cons x xs ih => exact insertDesc_sorted x _ ih

/-- with pairwise distinct markOrders the result is STRICTLY descending -/
theorem sortDesc_strict (l : List Entry) (hn : (ords l).Nodup) :
    (ords (sortDesc l)).Pairwise (fun a b => b < a) := by
  have hs := sortDesc_sorted l
  have hn' : (ords (sortDesc l)).Nodup := (ords_sortDesc_perm l).nodup_iff.mpr hn
  unfold ords at *
  rw [List.pairwise_map]
  rw [List.Nodup, List.pairwise_map] at hn'
  exact (hs.and hn').imp (fun ⟨h1, h2⟩ => Nat.lt_of_le_of_ne h1 (fun h => h2 h.symm))

theorem descB_iff (l : List Nat) : descB l = true ↔ l.Pairwise (fun a b => b < a) := by
  induction l with
  | nil => simp [descB]
  | cons x t ih =>
    cases t with
    | nil => simp [descB]
    | cons y t' =>
      simp only [descB, Bool.and_eq_true, decide_eq_true_eq, ih]
      constructor
      · intro ⟨hxy, hp⟩
        refine List.Pairwise.cons ?_ hp
        intro b hb
        rcases List.mem_cons.mp hb with rfl | hb
        · exact hxy
        · exact Nat.lt_trans ((List.pairwise_cons.mp hp).1 b hb) hxy
      · intro hp
        have := List.pairwise_cons.mp hp
        exact ⟨this.1 y (List.mem_cons_self), this.2⟩

theorem nodupB_iff (l : List Nat) : nodupB l = true ↔ l.Nodup := by
  induction l with
  | nil => simp [nodupB]
  | cons x t ih => simp [nodupB, ih, List.nodup_cons]

/-! trace projections distribute over append -/

theorem finOrders_append (a b : List TEv) : finOrders (a ++ b) = finOrders a ++ finOrders b := by
  induction a with
  | nil => rfl
  | cons e t ih => cases e <;> simp [finOrders, ih]

theorem relOrders_append (a b : List TEv) : relOrders (a ++ b) = relOrders a ++ relOrders b := by
  induction a with
  | nil => rfl
  | cons e t ih => cases e <;> simp [relOrders, ih]

theorem finOrders_finEvs (k : Kind) (l : List Entry) : finOrders (finEvs k l) = ords l := by
  induction l with
  | nil => rfl
  | cons e t ih => simp_all [finEvs, finOrders, ords]

theorem relOrders_relEvs (k : Kind) (l : List Entry) : relOrders (relEvs k l) = ords l := by
  induction l with
  | nil => rfl
  | cons e t ih => simp_all [relEvs, relOrders, ords]

theorem finOrders_relEvs (k : Kind) (l : List Entry) : finOrders (relEvs k l) = [] := by
  induction l with
  | nil => rfl
  | cons e t ih => simp_all [relEvs, finOrders]

theorem relOrders_finEvs (k : Kind) (l : List Entry) : relOrders (finEvs k l) = [] := by
  induction l with
  | nil => rfl
  | cons e t ih => simp_all [finEvs, relOrders]

theorem finOrders_skipEvs (l : List Entry) : finOrders (skipEvs l) = [] := by
  induction l with
  | nil => rfl
  | cons e t ih => simp_all [skipEvs, finOrders]

theorem relOrders_skipEvs (l : List Entry) : relOrders (skipEvs l) = [] := by
  induction l with
  | nil => rfl
  | cons e t ih => simp_all [skipEvs, relOrders]

end GoluaVerif.Proofs.C18
