/-
  Proofs.C17Loop — the round trip of the whole format, by induction over the
  options, carrying (offset, byte order, maxAlign, align-only flag).
-/
import GoluaVerif.Proofs.C17Reader
namespace GoluaVerif.Model.Pack
open GoluaVerif

/-- the invariant of the format reader under `noDanglingX` -/
def Inv (ao : Bool) (fmt : Bytes) : Prop :=
  noDanglingX fmt = true ∧ (ao = true → ∃ d t, fmt = d :: t ∧ alignable d = true)

theorem inv_head (ao : Bool) (c : UInt8) (rest : Bytes) (h : Inv ao (c :: rest)) :
    ao = false ∨ alignable c = true := by
  cases ao with
  | false => exact .inl rfl
  | true =>
    obtain ⟨d, t, he, ha⟩ := h.2 rfl
    injection he with h1 h2
    subst h1
    exact .inr ha

theorem inv_step (rd rd' : Rd) (c : UInt8) (rest rest' : Bytes) (opt : Opt)
    (hi : Inv rd.alignOnly (c :: rest)) (h : readOpt .pack rd c rest = .ok (opt, rd', rest')) :
    Inv rd'.alignOnly rest' := by
  refine ⟨readOpt_ndx _ _ _ _ _ _ _ h (noDanglingX_tail c rest hi.1), ?_⟩
  intro hao
  rcases readOpt_ao rd rd' c rest rest' opt h hao with ⟨hk, hr⟩ | ⟨h1, h2⟩
  · have h0 := hi.1
    simp only [noDanglingX, hk, if_true, Bool.and_eq_true] at h0
    subst hr
    cases rest' with
    | nil => simp at h0
    | cons d t => exact ⟨d, t, rfl, by simpa using h0.1⟩
  · rcases inv_head _ _ _ hi with h3 | h3
    · rw [h1] at h3; exact absurd h3 (by simp)
    · rw [h2] at h3; exact absurd h3 (by simp)

theorem consOut_ok (w bs : Bytes) (vs : List Val) (r : Except Err (Bytes × List Val))
    (h : consOut w r = .ok (bs, vs)) : ∃ bs1, r = .ok (bs1, vs) ∧ bs = w ++ bs1 := by
  cases r with
  | error e => simp [consOut] at h
  | ok p =>
    obtain ⟨b1, v1⟩ := p
    simp only [consOut, Except.ok.injEq, Prod.mk.injEq] at h
    exact ⟨b1, by rw [h.2], h.1.symm⟩

/-- the whole loop: what `packLoop` writes from offset `len` on, `unpackLoop` reads back from index `len` -/
theorem loop_rt : ∀ (fuel : Nat) (rd : Rd) (fmt : Bytes) (len : Nat) (vs : List Val) (bs : Bytes) (vs' : List Val),
    Inv rd.alignOnly fmt → exactLoop fuel rd fmt vs = true → packLoop fuel rd fmt len vs = .ok (bs, vs') →
    ∀ post, unpackLoop fuel rd fmt len (bs ++ post) = .ok (vs, len + bs.length, post) := by
  intro fuel
  induction fuel with
  | zero => intro rd fmt len vs bs vs' _ hx; simp [exactLoop] at hx
  | succ fuel ih =>
    intro rd fmt len vs bs vs' hi hx hp post
    cases fmt with
    | nil =>
      have hao : rd.alignOnly = false := by
        cases h : rd.alignOnly with
        | false => rfl
        | true => obtain ⟨d, t, he, _⟩ := hi.2 h; simp at he
      simp only [packLoop, hao, Bool.false_eq_true, if_false, Except.ok.injEq, Prod.mk.injEq] at hp
      simp only [exactLoop, List.isEmpty_iff] at hx
      subst hx
      rw [← hp.1]
      simp [unpackLoop, hao]
    | cons c rest =>
      have hu := readOpt_unpack_eq rd c rest (inv_head _ _ _ hi)
      unfold packLoop at hp
      unfold exactLoop at hx
      unfold unpackLoop
      rw [hu]
      cases hr : readOpt .pack rd c rest with
      | error e => simp [hr] at hp
      | ok r =>
        obtain ⟨opt, rd', rest'⟩ := r
        have hi' := inv_step rd rd' c rest rest' opt hi hr
        simp only [hr] at hp hx ⊢
        cases opt with
        | nop => exact ih rd' rest' len vs bs vs' hi' hx hp post
        | item al ao body =>
          simp only at hp hx ⊢
          cases ha : alignPad rd true al len with
          | error e => simp [ha] at hp
          | ok pad =>
            simp only [ha] at hp
            rw [alignPad_nocheck rd al len pad ha]
            simp only
            cases ao with
            | true =>
              simp only [if_true, Bool.true_or] at hp hx
              obtain ⟨bs1, hb1, hbs⟩ := consOut_ok _ _ _ _ hp
              subst hbs
              rw [List.append_assoc, takeN_append _ _ _ (zeros_length pad)]
              simp only [if_true]
              have := ih rd' rest' (len + pad) vs bs1 vs' hi' hx hb1 post
              rw [this]
              simp [zeros_length]; omega
            | false =>
              simp only [Bool.false_eq_true, if_false, Bool.false_or] at hp hx
              cases hb : packBody rd.endian body vs with
              | error e => simp [hb] at hp
              | ok r2 =>
                obtain ⟨w, vs1⟩ := r2
                simp only [hb] at hp
                obtain ⟨bs1, hb1, hbs⟩ := consOut_ok _ _ _ _ hp
                subst hbs
                rw [List.append_assoc, List.append_assoc, takeN_append _ _ _ (zeros_length pad)]
                simp only [Bool.false_eq_true, if_false]
                by_cases hpb : body = .padByte
                · subst hpb
                  simp only [beq_self_eq_true, if_true] at hx
                  simp only [packBody, Except.ok.injEq, Prod.mk.injEq] at hb
                  obtain ⟨hw, hv⟩ := hb
                  subst hw; subst hv
                  have := ih rd' rest' (len + pad + 1) vs bs1 vs' hi' hx (by simpa using hb1) post
                  simp only [unpackBody, List.cons_append, List.nil_append, takeN, List.length_cons]
                  simp only [show ¬ ((bs1 ++ post).length + 1 < 1) by omega, if_false, List.take, List.drop]
                  simp only [show len + pad + ((bs1 ++ post).length + 1 - (bs1 ++ post).length) = len + pad + 1 by omega]
                  rw [this]
                  simp [zeros_length]; omega
                · have hne : (body == Body.padByte) = false := by simpa using hpb
                  simp only [hne, Bool.false_eq_true, if_false] at hx
                  cases vs with
                  | nil => simp at hx
                  | cons v vt =>
                    simp only [Bool.and_eq_true] at hx
                    obtain ⟨hv1, hub⟩ := unpackBody_packBody rd.endian body v vt vs1 w (bs1 ++ post) hb hx.1
                    subst hv1
                    rw [hub]
                    simp only
                    have := ih rd' rest' (len + pad + w.length) vs1 bs1 vs' hi' hx.2 hb1 post
                    simp only [show len + pad + ((w ++ (bs1 ++ post)).length - (bs1 ++ post).length) = len + pad + w.length by
                      simp [List.length_append]]
                    rw [this]
                    simp [zeros_length]; omega

end GoluaVerif.Model.Pack
