/-
  Proofs.C17Loop — the round trip of the whole format, by induction over the
  options, carrying (offset, byte order, maxAlign, align-only flag).
-/
import GoluaVerif.Proofs.C17Reader
namespace GoluaVerif.Model.Pack
open GoluaVerif

theorem consOut_ok (w bs : Bytes) (vs : List Val) (r : Except Err (Bytes × List Val))
    (h : consOut w r = .ok (bs, vs)) : ∃ bs1, r = .ok (bs1, vs) ∧ bs = w ++ bs1 := by
  cases r with
  | error e => simp [consOut] at h
  | ok p =>
    obtain ⟨b1, v1⟩ := p
    simp only [consOut, Except.ok.injEq, Prod.mk.injEq] at h
    exact ⟨b1, by rw [h.2], h.1.symm⟩

/-- the whole loop: what `packLoop` writes from offset `len` on, `unpackLoop` reads back from index `len` -/
theorem loop_rt : ∀ (fuel : Nat) (rd : Rd) (fmt : Bytes) (len : Nat) (vs : List Val) (bs : Bytes) (vs' : List Val),
    exactLoop fuel rd fmt vs = true → packLoop fuel rd fmt len vs = .ok (bs, vs') →
    ∀ post, unpackLoop fuel rd fmt len (bs ++ post) = .ok (vs, len + bs.length, post) := by
  intro fuel
  induction fuel with
  | zero => intro rd fmt len vs bs vs' hx; simp [exactLoop] at hx
  | succ fuel ih =>
    intro rd fmt len vs bs vs' hx hp post
    cases fmt with
    | nil =>
      simp only [packLoop] at hp
      split at hp
      · simp at hp
      · rename_i hao
        simp only [Except.ok.injEq, Prod.mk.injEq] at hp
        simp only [exactLoop, List.isEmpty_iff] at hx
        subst hx
        rw [← hp.1]
        simp [unpackLoop, hao]
    | cons c rest =>
      have hu := readOpt_unpack_eq rd c rest
      unfold packLoop at hp
      unfold exactLoop at hx
      unfold unpackLoop
      rw [hu]
      cases hr : readOpt .pack rd c rest with
      | error e => simp [hr] at hp
      | ok r =>
        obtain ⟨opt, rd', rest'⟩ := r
        simp only [hr] at hp hx ⊢
        cases opt with
        | nop => exact ih rd' rest' len vs bs vs' hx hp post
        | item al ao body =>
          simp only at hp hx ⊢
          cases ha : alignPad rd true al len with
          | error e => simp [ha] at hp
          | ok pad =>
            simp only [ha] at hp
            simp only
            cases ao with
            | true =>
              simp only [if_true, Bool.true_or] at hp hx
              obtain ⟨bs1, hb1, hbs⟩ := consOut_ok _ _ _ _ hp
              subst hbs
              rw [List.append_assoc, takeN_append _ _ _ (zeros_length pad)]
              simp only [if_true]
              have := ih rd' rest' (len + pad) vs bs1 vs' hx hb1 post
              rw [this]
              simp [zeros_length]; omega
            | false =>
              simp only [Bool.false_eq_true, if_false, Bool.false_or] at hp hx
              cases hb : packBody rd.endian body vs with
              | error e => simp [hb] at hp
              | ok r2 =>
                obtain ⟨w, vs1⟩ := r2
                simp only [hb] at hp
                obtain ⟨bs1, hb1, hbs⟩ := consOut_ok _ _ _ _ hp
                subst hbs
                rw [List.append_assoc, List.append_assoc, takeN_append _ _ _ (zeros_length pad)]
                simp only [Bool.false_eq_true, if_false]
                by_cases hpb : body = .padByte
                · subst hpb
                  simp only [beq_self_eq_true, if_true] at hx
                  simp only [packBody, Except.ok.injEq, Prod.mk.injEq] at hb
                  obtain ⟨hw, hv⟩ := hb
                  subst hw; subst hv
                  have := ih rd' rest' (len + pad + 1) vs bs1 vs' hx (by simpa using hb1) post
                  simp only [unpackBody, List.cons_append, List.nil_append, takeN, List.length_cons]
                  simp only [show ¬ ((bs1 ++ post).length + 1 < 1) by omega, if_false, List.take, List.drop]
                  simp only [show len + pad + ((bs1 ++ post).length + 1 - (bs1 ++ post).length) = len + pad + 1 by omega]
                  rw [this]
                  simp [zeros_length]; omega
                · have hne : (body == Body.padByte) = false := by simpa using hpb
                  simp only [hne, Bool.false_eq_true, if_false] at hx
                  cases vs with
                  | nil => simp at hx
                  | cons v vt =>
                    simp only [Bool.and_eq_true] at hx
                    obtain ⟨hv1, hub⟩ := unpackBody_packBody rd.endian body v vt vs1 w (bs1 ++ post) hb hx.1
                    subst hv1
                    rw [hub]
                    simp only
                    have := ih rd' rest' (len + pad + w.length) vs1 bs1 vs' hx.2 hb1 post
                    simp only [show len + pad + ((w ++ (bs1 ++ post)).length - (bs1 ++ post).length) = len + pad + w.length by
                      simp [List.length_append]]
                    rw [this]
                    simp [zeros_length]; omega

end GoluaVerif.Model.Pack
