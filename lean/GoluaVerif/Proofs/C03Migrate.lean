/-
  Proofs.C03Migrate — the array-migration branch of `mixedTable.grow` (`ArrayMigrationOK`).
-/
import GoluaVerif.Proofs.C03Counts
import GoluaVerif.Proofs.C03InsertMixed
import GoluaVerif.Proofs.C03Reloc
namespace GoluaVerif.Model.Table
open GoluaVerif.Spec (Key Val Map)

theorem cntAt_replicate (n l : Nat) : cntAt (List.replicate n 0) l = 0 := by
  unfold cntAt
  by_cases h : l < n
  · simp [List.getElem?_replicate, h]
  · simp [List.getElem?_replicate, h]

/-! ### array.grow -/

theorem arrGrow_spec (a : Option Arr) (hinv : ∀ x, a = some x → ArrInv x) (sz : Nat) (hsz : arrSize a < sz) :
    ArrInv (arrGrow a sz) ∧ (arrGrow a sz).values.length = sz ∧
      ∀ z : Int, 1 ≤ z → arrAt (some (arrGrow a sz)) z = if inArr a z then arrAt a z else none := by
  cases a with
  | none =>
    refine ⟨⟨by simp [arrGrow], Or.inl rfl, ?_⟩, by simp [arrGrow], ?_⟩
    · intro j hj _
      rw [live_eq_isSome]
      simp only [arrGrow, List.length_replicate] at hj
      simp [arrGrow, List.getElem?_replicate, hj]
    · intro z _
      have : ¬ inArr none z := not_inArr_none z
      simp only [this, if_false, arrAt, arrGrow, List.getElem?_replicate]
      split <;> rfl
  | some a =>
    have ainv := hinv a rfl
    simp only [arrSize] at hsz
    have htake : a.values.take sz = a.values := List.take_of_length_le (by omega)
    have hvals : (arrGrow (some a) sz).values = a.values ++ List.replicate (sz - a.values.length) none := by
      simp [arrGrow, htake]
    have hlen : (arrGrow (some a) sz).values.length = sz := by rw [hvals]; simp; omega
    have hget : ∀ j, (arrGrow (some a) sz).values[j]? =
        if j < a.values.length then a.values[j]? else if j < sz then some none else none := by
      intro j
      rw [hvals]
      by_cases h1 : j < a.values.length
      · simp [h1, List.getElem?_append_left h1]
      · rw [List.getElem?_append_right (Nat.le_of_not_lt h1)]
        simp only [h1, if_false, List.getElem?_replicate]
        by_cases h2 : j < sz
        · have : j - a.values.length < sz - a.values.length := by omega
          simp [this, h2]
        · have : ¬ j - a.values.length < sz - a.values.length := by omega
          simp [this, h2]
    have hlive : ∀ j, live (arrGrow (some a) sz).values j = if j < a.values.length then live a.values j else false := by
      intro j
      rw [live_eq_isSome, live_eq_isSome, hget]
      by_cases h1 : j < a.values.length
      · simp [h1]
      · simp only [h1, if_false]
        split <;> rfl
    refine ⟨⟨?_, ?_, ?_⟩, hlen, ?_⟩
    · show a.len ≤ _
      rw [hlen]; have := ainv.len_le; omega
    · show a.len = 0 ∨ live _ (a.len - 1) = true
      rcases ainv.len_live with h0 | hl
      · exact Or.inl h0
      · right
        rw [hlive]
        have := ainv.len_le
        have h1 : a.len - 1 < a.values.length := by
          apply Decidable.byContradiction
          intro hh
          rw [live_eq_isSome, List.getElem?_eq_none (Nat.le_of_not_lt hh)] at hl
          simp at hl
        simp [h1, hl]
    · intro j hj hle
      rw [hlive]
      by_cases h1 : j < a.values.length
      · simp only [h1, if_true]; exact ainv.above_nil j h1 hle
      · simp [h1]
    · intro z hz1
      simp only [arrAt, hget, inArr, arrSize]
      by_cases hin : 1 ≤ z ∧ z ≤ (a.values.length : Int)
      · have : z.toNat - 1 < a.values.length := by omega
        simp [hin, this]
      · simp only [hin, if_false]
        by_cases h1 : z.toNat - 1 < a.values.length
        · exfalso; omega
        · simp only [h1, if_false]
          split <;> rfl

/-! ### the migration loop -/

/-- the key is an integer inside the range of the (new) array -/
def migrates (arr : Arr) (k : Key) : Bool :=
  match k with
  | .int z => decide (inArr (some arr) z)
  | _ => false

theorem inArr_same_len (a b : Arr) (h : b.values.length = a.values.length) (z : Int) :
    inArr (some b) z ↔ inArr (some a) z := by
  simp [inArr, arrSize, h]

theorem migrates_same_len (a b : Arr) (h : b.values.length = a.values.length) (k : Key) :
    migrates b k = migrates a k := by
  cases k with
  | int z => simp only [migrates]; exact decide_eq_decide.2 (inArr_same_len a b h z)
  | _ => rfl

theorem liveLookup_none_of_pairwise (s : Slot) (rest : List Slot) (k : Key) (hk : s.key = some k) (hv : s.val.isSome = true)
    (hpw : (s :: rest).Pairwise (fun a b => a.val.isSome = true → b.val.isSome = true → a.key ≠ b.key)) :
    liveLookup rest k = none := by
  unfold liveLookup
  have : rest.find? (fun x => decide (x.key = some k) && x.val.isSome) = none := by
    rw [List.find?_eq_none]
    intro x hx
    simp only [Bool.and_eq_true, decide_eq_true_eq, not_and, Bool.not_eq_true,
      Option.isSome_eq_false_iff, Option.isNone_iff_eq_none]
    intro hxk
    cases hxv : x.val with
    | none => rfl
    | some w =>
      have := (List.pairwise_cons.1 hpw).1 x hx hv (by simp [hxv])
      exact absurd (by rw [hk, hxk]) this
  simp [this]

theorem migrate_spec (slots : List Slot) :
    ∀ (arr : Arr), ArrInv arr →
      slots.Pairwise (fun a b => a.val.isSome = true → b.val.isSome = true → a.key ≠ b.key) →
      ∃ slots' arr', migrate slots arr = some (slots', arr') ∧ ArrInv arr' ∧
        arr'.values.length = arr.values.length ∧
        slots'.map Slot.shape = slots.map Slot.shape ∧
        (∀ k, liveLookup slots' k = if migrates arr k then none else liveLookup slots k) ∧
        (∀ z, inArr (some arr) z → arrAt (some arr') z =
          match liveLookup slots (.int z) with
          | some v => some v
          | none => arrAt (some arr) z) ∧
        liveCount slots' ≤ liveCount slots ∧
        ((∃ s ∈ slots, ∃ v i, s.val = some v ∧ s.key = some (.int i) ∧ inArr (some arr) i) →
          liveCount slots' < liveCount slots) ∧
        (∀ s' ∈ slots', s'.val.isSome = true → ∀ z, s'.key = some (.int z) → ¬ inArr (some arr) z) ∧
        (∀ idx (h' : idx < slots'.length) (h0 : idx < slots.length),
          slots'[idx].val = slots[idx].val ∨ slots'[idx].val = none) := by
  induction slots with
  | nil =>
    intro arr ainv _
    exact ⟨[], arr, rfl, ainv, rfl, rfl, fun k => by simp [liveLookup], fun z _ => by simp [liveLookup],
      Nat.le_refl _, fun ⟨s, hs, _⟩ => by simp at hs, fun s' hs' => by simp at hs',
      fun idx h' => by simp at h'⟩
  | cons s rest ih =>
    intro arr ainv hpw
    have hpw' := List.Pairwise.of_cons hpw
    -- a slot that is kept as it is
    have keep : (∀ v i, s.val = some v → s.key = some (.int i) → ¬ inArr (some arr) i) →
        (migrate (s :: rest) arr = (migrate rest arr).bind (fun r => some (s :: r.1, r.2))) →
        ∃ slots' arr', migrate (s :: rest) arr = some (slots', arr') ∧ ArrInv arr' ∧
        arr'.values.length = arr.values.length ∧
        slots'.map Slot.shape = (s :: rest).map Slot.shape ∧
        (∀ k, liveLookup slots' k = if migrates arr k then none else liveLookup (s :: rest) k) ∧
        (∀ z, inArr (some arr) z → arrAt (some arr') z =
          match liveLookup (s :: rest) (.int z) with
          | some v => some v
          | none => arrAt (some arr) z) ∧
        liveCount slots' ≤ liveCount (s :: rest) ∧
        ((∃ x ∈ s :: rest, ∃ v i, x.val = some v ∧ x.key = some (.int i) ∧ inArr (some arr) i) →
          liveCount slots' < liveCount (s :: rest)) ∧
        (∀ s' ∈ slots', s'.val.isSome = true → ∀ z, s'.key = some (.int z) → ¬ inArr (some arr) z) ∧
        (∀ idx (h' : idx < slots'.length) (h0 : idx < (s :: rest).length),
          slots'[idx].val = (s :: rest)[idx].val ∨ slots'[idx].val = none) := by
      intro hout heq
      obtain ⟨r', a', e, ai', hl', hsh, hlk, hat, hlc, hlt, hrem, hval⟩ := ih arr ainv hpw'
      refine ⟨s :: r', a', by rw [heq, e]; rfl, ai', hl', by simp [hsh], ?_, ?_, ?_, ?_, ?_, ?_⟩
      · intro k
        cases hv : s.val with
        | none => rw [liveLookup_cons_dead s r' k hv, liveLookup_cons_dead s rest k hv]; exact hlk k
        | some v =>
          cases hk : s.key with
          | none =>
            -- a live slot without a key contributes to no lookup
            have e1 : ∀ l : List Slot, liveLookup (s :: l) k = liveLookup l k := by
              intro l; simp [liveLookup, List.find?_cons, hk]
            rw [e1, e1]; exact hlk k
          | some k0 =>
            rw [liveLookup_cons_live s r' k0 k v hk hv, liveLookup_cons_live s rest k0 k v hk hv, hlk k]
            by_cases ek : k = k0
            · subst ek
              have : migrates arr k = false := by
                cases k with
                | int z => simp only [migrates, decide_eq_false_iff_not]; exact hout v z hv hk
                | _ => rfl
              simp [this]
            · simp [ek]
      · intro z hz
        rw [hat z hz]
        cases hv : s.val with
        | none => rw [liveLookup_cons_dead s rest _ hv]
        | some v =>
          cases hk : s.key with
          | none =>
            have e1 : liveLookup (s :: rest) (.int z) = liveLookup rest (.int z) := by
              simp [liveLookup, List.find?_cons, hk]
            rw [e1]
          | some k0 =>
            rw [liveLookup_cons_live s rest k0 (.int z) v hk hv]
            have : ¬ Key.int z = k0 := by
              intro e'; subst e'; exact hout v z hv hk hz
            simp [this]
      · simp only [liveCount, List.countP_cons] at hlc ⊢; omega
      · rintro ⟨x, hx, v, i, hxv, hxk, hin⟩
        rcases List.mem_cons.1 hx with e' | hx'
        · subst e'; exact absurd hin (hout v i hxv hxk)
        · have := hlt ⟨x, hx', v, i, hxv, hxk, hin⟩
          simp only [liveCount, List.countP_cons] at this ⊢; omega
      · intro s' hs' hsv z hsk
        rcases List.mem_cons.1 hs' with e' | hs2
        · subst e'
          cases hv : s'.val with
          | none => rw [hv] at hsv; simp at hsv
          | some v => exact hout v z hv hsk
        · exact hrem s' hs2 hsv z hsk
      · intro idx h' h0
        cases idx with
        | zero => left; rfl
        | succ idx => simpa using hval idx (by simpa using h') (by simpa using h0)
    cases hv : s.val with
    | none =>
      apply keep
      · intro v i h; rw [hv] at h; cases h
      · rw [migrate]; simp only [hv]
        cases migrate rest arr <;> rfl
    | some v =>
      cases hk : s.key with
      | none =>
        apply keep
        · intro v' i _ h; rw [hk] at h; cases h
        · rw [migrate]; simp only [hv, hk]
          cases migrate rest arr <;> rfl
      | some k0 =>
        cases k0 with
        | int j =>
          by_cases hin : inArr (some arr) j
          · -- the slot moves into the array
            obtain ⟨arr1, e1, ai1, hl1, hat1⟩ := arrSetValue_in arr j v hin ainv
            obtain ⟨r', a', e, ai', hl', hsh, hlk, hat, hlc, hlt, hrem, hval⟩ := ih arr1 ai1 hpw'
            have hrest_j : liveLookup rest (.int j) = none :=
              liveLookup_none_of_pairwise s rest (.int j) hk (by simp [hv]) hpw
            refine ⟨{ s with val := none } :: r', a', ?_, ai', by rw [hl', hl1], ?_, ?_, ?_, ?_, ?_, ?_, ?_⟩
            · rw [migrate]; simp only [hv, hk, e1, Option.bind_eq_bind, Option.bind_some, e]
              simp
            · simp [hsh, Slot.shape]
            · intro k
              rw [liveLookup_cons_dead _ r' k rfl, hlk k, migrates_same_len arr arr1 hl1,
                liveLookup_cons_live s rest (.int j) k v hk hv]
              by_cases ek : k = .int j
              · subst ek
                have : migrates arr (.int j) = true := by simp [migrates, hin]
                simp [this]
              · simp [ek]
            · intro z hz
              rw [hat z ((inArr_same_len arr arr1 hl1 z).2 hz), liveLookup_cons_live s rest (.int j) (.int z) v hk hv]
              by_cases ez : z = j
              · subst ez
                rw [hrest_j]
                simp only [if_true]
                rw [hat1 z]; simp
              · have : ¬ Key.int z = Key.int j := by simpa using ez
                simp only [this, if_false]
                cases hll : liveLookup rest (.int z) with
                | some w => rfl
                | none =>
                  simp only
                  rw [hat1 z]
                  have := int_idx_eq (some arr) z j hz hin
                  simp [this, ez]
            · simp only [liveCount, List.countP_cons, hv] at hlc ⊢
              simp; omega
            · intro _
              simp only [liveCount, List.countP_cons, hv] at hlc ⊢
              simp; omega
            · intro s' hs' hsv z hsk
              rcases List.mem_cons.1 hs' with e' | hs2
              · subst e'; simp at hsv
              · exact fun h => hrem s' hs2 hsv z hsk ((inArr_same_len arr arr1 hl1 z).2 h)
            · intro idx h' h0
              cases idx with
              | zero => right; rfl
              | succ idx => simpa using hval idx (by simpa using h') (by simpa using h0)
          · apply keep
            · intro v' i h1 h2
              rw [hk] at h2; cases h2; exact hin
            · rw [migrate]; simp only [hv, hk, arrSetValue_out (some arr) j v hin, Option.bind_eq_bind, Option.bind_some]
              cases migrate rest arr <;> simp
        | flt f =>
          apply keep
          · intro v' i _ h; rw [hk] at h; cases h
          · rw [migrate]; simp only [hv, hk]
            cases migrate rest arr <;> rfl
        | str f =>
          apply keep
          · intro v' i _ h; rw [hk] at h; cases h
          · rw [migrate]; simp only [hv, hk]
            cases migrate rest arr <;> rfl
        | bool f =>
          apply keep
          · intro v' i _ h; rw [hk] at h; cases h
          · rw [migrate]; simp only [hv, hk]
            cases migrate rest arr <;> rfl
        | ref f =>
          apply keep
          · intro v' i _ h; rw [hk] at h; cases h
          · rw [migrate]; simp only [hv, hk]
            cases migrate rest arr <;> rfl

section
variable (hash : Key → Nat)

/-- when `grow` decides to enlarge the array to `arrSz`, `arrSz` is a power of two above the old size
    and some live integer key of the hash part lies in `[1, arrSz]` -/
theorem grow_array_witness (t : Mixed) (inv : Inv hash t) (hc : growCase t = GrowCase.array) :
    ∃ h counts idx, t.hash = some h ∧ hClassify t.hash (List.replicate 64 0) = (counts, idx) ∧ idx ≠ 0 ∧
      arrSize t.arr < calculateArraySize (arrClassify t.arr counts) ∧
      (∃ b, calculateArraySize (arrClassify t.arr counts) = 2 ^ b) ∧
      ∃ s ∈ h.slots, ∃ v i, s.val = some v ∧ s.key = some (.int i) ∧ 1 ≤ i ∧
        i ≤ (calculateArraySize (arrClassify t.arr counts) : Int) := by
  unfold growCase at hc
  cases hcl : hClassify t.hash (List.replicate 64 0) with
  | mk counts idx =>
    simp only [hcl] at hc
    by_cases h0 : idx = 0
    · simp [h0] at hc
    · simp only [h0, if_false] at hc
      by_cases h1 : calculateArraySize (arrClassify t.arr counts) ≤ arrSize t.arr
      · simp [h1] at hc
      · have hgt : arrSize t.arr < calculateArraySize (arrClassify t.arr counts) := Nat.lt_of_not_le h1
        cases hh : t.hash with
        | none => rw [hh] at hcl; simp [hClassify] at hcl; exact absurd hcl.2.symm h0
        | some h =>
          obtain ⟨b, eb, hcnt⟩ := calculateArraySize_spec (arrClassify t.arr counts) _ rfl (by omega)
          refine ⟨h, counts, idx, rfl, rfl, h0, hgt, ⟨b, eb⟩, ?_⟩
          -- the counter for b was raised by the hash part or by the array part
          have hcounts : counts = (h.slots.foldl hStep (List.replicate 64 0, 0)).1 := by
            rw [hh, hClassify_eq] at hcl; rw [hcl]
          obtain ⟨hge, hcontrib⟩ := hfold_spec h.slots (List.replicate 64 0, 0) b
          rw [← hcounts] at hge hcontrib
          simp only [cntAt_replicate] at hge hcontrib
          by_cases hpos : 0 < cntAt counts b
          · obtain ⟨s, hs, v, i, hv, hk, hi, hb⟩ := hcontrib hpos
            refine ⟨s, hs, v, i, hv, hk, by omega, ?_⟩
            have := bitsLen_lt (i.toNat - 1)
            rw [hb] at this
            rw [eb]
            have h2 : i.toNat ≤ 2 ^ b := by omega
            have : (i : Int) = (i.toNat : Int) := by omega
            rw [this]
            exact_mod_cast h2
          · -- otherwise a live array cell has bit length b: impossible, the array is 2^m < 2^b long
            exfalso
            have hz : cntAt counts b = 0 := by omega
            cases ha : t.arr with
            | none =>
              rw [ha] at hcnt
              simp only [arrClassify] at hcnt
              exact hcnt hz
            | some a =>
              rw [ha] at hcnt hgt eb
              simp only [arrClassify] at hcnt
              obtain ⟨_, hac⟩ := arrGo_spec (a.values.take a.len) 0 counts b
              have : cntAt counts b < cntAt (arrClassify.go (a.values.take a.len) 0 counts) b := by omega
              obtain ⟨idx', hidx, _, hbl⟩ := hac this
              have hlen := (inv.arr a ha).len_le
              have hp2 := inv.pow2 a ha
              simp only [List.length_take] at hidx
              have hidx2 : idx' < a.values.length := by omega
              simp only [Nat.zero_add] at hbl
              simp only [arrSize] at hgt
              rw [eb] at hgt
              -- a.values.length = 2^m < 2^b
              have hmb : Nat.log2 a.values.length < b := by
                rw [hp2] at hgt
                exact (Nat.pow_lt_pow_iff_right (by omega)).1 hgt
              have hb1 : 1 ≤ bitsLen idx' := by omega
              have := bitsLen_ge idx' hb1
              rw [hbl] at this
              have h3 : 2 ^ Nat.log2 a.values.length ≤ 2 ^ (b - 1) := Nat.pow_le_pow_right (by omega) (by omega)
              omega

/-- the array-migration branch of `mixedTable.grow`: no panic, `Inv` is kept (the new array size is a
    power of two, migrated keys leave the hash part, `cleanup` rebuilds it), the abstract map is
    unchanged and the hash part has a free slot afterwards -/
theorem arrayMigrationOK : ArrayMigrationOK hash := by
  intro t inv hc
  obtain ⟨h, counts, idx, hh, hcl, hidx, hgt, ⟨b, eb⟩, s0, hs0, v0, i0, hv0, hk0, hi1, hi2⟩ :=
    grow_array_witness hash t inv hc
  generalize hsz : calculateArraySize (arrClassify t.arr counts) = arrSz at hgt eb hi2
  have hinv := inv.hash h hh
  obtain ⟨ai0, hl0, hat0⟩ := arrGrow_spec t.arr inv.arr arrSz hgt
  obtain ⟨hok, hpw⟩ := src_ok_of_inv hash h _ hinv
  obtain ⟨slots', a1, em, ai1, hl1, hsh, hlk, hat, hlc, hlt, hrem, hval⟩ :=
    migrate_spec h.slots (arrGrow t.arr arrSz) ai0 hpw
  have hlen' : slots'.length = h.slots.length := shape_length hsh
  have hin0 : ∀ z : Int, inArr (some (arrGrow t.arr arrSz)) z ↔ (1 ≤ z ∧ z ≤ (arrSz : Int)) := by
    intro z; simp [inArr, arrSize, hl0]
  have ha1len : a1.values.length = arrSz := by rw [hl1, hl0]
  -- capacity: at least one key moved
  have hcap : liveCount slots' < 2 ^ h.base := by
    have h1 := hlt ⟨s0, hs0, v0, i0, hv0, hk0, (hin0 i0).2 ⟨hi1, hi2⟩⟩
    have h2 := liveCount_le h.slots
    rw [hinv.size] at h2
    omega
  -- what is left in the hash part is outside the new array range, normal and duplicate-free
  have hkey : ∀ idx (h' : idx < slots'.length), slots'[idx].key = (h.slots[idx]'(hlen' ▸ h')).key := by
    intro idx h'
    have := shape_getElem hsh idx (hlen' ▸ h') h'
    simp only [Slot.shape, Prod.mk.injEq] at this
    exact this.1
  have hlive : ∀ idx (h' : idx < slots'.length), slots'[idx].val.isSome = true →
      (h.slots[idx]'(hlen' ▸ h')).val.isSome = true := by
    intro idx h' hv
    rcases hval idx h' (hlen' ▸ h') with e | e
    · rw [← e]; exact hv
    · rw [e] at hv; simp at hv
  have hok' : ∀ s ∈ slots', SrcSlotOK arrSz s := by
    intro s hs hv
    obtain ⟨idx, hidx', e⟩ := List.getElem_of_mem hs
    have hv0' := hlive idx hidx' (by rw [e]; exact hv)
    obtain ⟨k, hk, hn, _⟩ := hok _ (List.getElem_mem (hlen' ▸ hidx')) hv0'
    refine ⟨k, by rw [← e, hkey]; exact hk, hn, ?_⟩
    intro z ez
    subst ez
    have := hrem s hs hv z (by rw [← e, hkey]; exact hk)
    rw [hin0] at this
    exact this
  have hpw' : slots'.Pairwise (fun a b => a.val.isSome = true → b.val.isSome = true → a.key ≠ b.key) := by
    rw [List.pairwise_iff_getElem]
    intro i j hi hj hij hvi hvj
    rw [hkey i hi, hkey j hj]
    have := (List.pairwise_iff_getElem.1 hpw) i j (hlen' ▸ hi) (hlen' ▸ hj) hij
    exact this (hlive i hi hvi) (hlive j hj hvj)
  obtain ⟨items, nf, ec, hinv', hlook, hnf⟩ :=
    rebuild_spec hash (hashedInsertOK hash) arrSz slots' h.base hok' hpw' hcap
  refine ⟨⟨some ⟨items, nf, h.base⟩, some a1⟩, ?_, ?_, ?_, ?_, ?_⟩
  · -- the model computes exactly this
    unfold grow
    rw [hh] at hcl
    simp only [hh, hcl, hidx, if_false, hsz, Nat.not_le.2 hgt, Option.bind_eq_bind, Option.bind_some, em, hCleanup,
      hlen', hinv.size, ec, pure]
  · -- Inv
    refine ⟨?_, ?_, ?_⟩
    · intro x hx; cases hx; exact ai1
    · intro x hx; cases hx
      show HashInv hash _ (arrSize (some a1))
      simp only [arrSize, ha1len]
      exact hinv'
    · intro x hx; cases hx
      rw [ha1len, eb, Nat.log2_two_pow]
  · -- the abstract map is unchanged
    have hll : ∀ k, liveLookup h.slots k = hashLookup h.slots k := liveLookup_eq_hashLookup h.slots hinv.nodup
    have hnew : ∀ k, hashAbs (some ⟨items, nf, h.base⟩) k = if migrates (arrGrow t.arr arrSz) k then none else hashLookup h.slots k := by
      intro k
      simp only [hashAbs]
      rw [hlook k, hlk k, hll k]
    have hmono : ∀ z, inArr t.arr z → inArr (some a1) z := by
      intro z hz
      have e9 : arrSize (some a1) = arrSz := by simp [arrSize, ha1len]
      simp only [inArr, e9] at hz ⊢
      exact ⟨hz.1, by have := hz.2; omega⟩
    intro k
    have nonint : (∀ z, k ≠ .int z) → abs ⟨some ⟨items, nf, h.base⟩, some a1⟩ k = abs t k := by
      intro hni
      rw [abs_nonint _ k hni, abs_nonint t k hni, hnew k]
      have : migrates (arrGrow t.arr arrSz) k = false := by
        cases k with
        | int z => exact absurd rfl (hni z)
        | _ => rfl
      simp [this, hashAbs, hh]
    cases k with
    | int z =>
      by_cases hin1 : inArr (some a1) z
      · have hz1 : 1 ≤ z := hin1.1
        have hin0' : inArr (some (arrGrow t.arr arrSz)) z := by
          simp only [inArr, arrSize, ha1len, hl0] at hin1 ⊢; exact hin1
        have e1 : abs ⟨some ⟨items, nf, h.base⟩, some a1⟩ (.int z) = arrAt (some a1) z :=
          abs_int_in ⟨some ⟨items, nf, h.base⟩, some a1⟩ z hin1
        rw [e1, hat z hin0', hll, hat0 z hz1]
        by_cases hin : inArr t.arr z
        · rw [abs_int_in t z hin]
          have : hashLookup h.slots (.int z) = none := by
            apply hashLookup_absent
            intro i hi hk
            exact hinv.disjoint i hi z hk hin
          simp [this, hin]
        · rw [abs_int_out t z hin]
          simp only [hashAbs, hh, hin, if_false]
          cases hashLookup h.slots (.int z) <;> rfl
      · have hin : ¬ inArr t.arr z := fun hz => hin1 (hmono z hz)
        have e1 : abs ⟨some ⟨items, nf, h.base⟩, some a1⟩ (.int z) = hashAbs (some ⟨items, nf, h.base⟩) (.int z) :=
          abs_int_out ⟨some ⟨items, nf, h.base⟩, some a1⟩ z hin1
        rw [e1, abs_int_out t z hin, hnew]
        have : migrates (arrGrow t.arr arrSz) (.int z) = false := by
          simp only [migrates, decide_eq_false_iff_not]
          simp only [inArr, arrSize, ha1len, hl0] at hin1 ⊢; exact hin1
        simp [this, hashAbs, hh]
    | flt f => exact nonint (fun z => by simp)
    | str f => exact nonint (fun z => by simp)
    | bool f => exact nonint (fun z => by simp)
    | ref f => exact nonint (fun z => by simp)
  · -- room for one more key
    simp only [hFull]
    cases nf with
    | none => exact absurd rfl hnf
    | some _ => rfl
  · intro i hi
    have e9 : arrSize (some a1) = arrSz := by simp [arrSize, ha1len]
    simp only [inArr, e9] at hi ⊢
    exact ⟨hi.1, by have := hi.2; omega⟩

end
end GoluaVerif.Model.Table
