/-
  Proofs.C18Owner — one owner per value: after `markingPool`, a key is in the register of at most
  one live pool; a new registration never makes runtime.SetFinalizer throw.
-/
import GoluaVerif.Proofs.C18Close
namespace GoluaVerif.Proofs.C18
open GoluaVerif.Spec.Gc GoluaVerif.Model.ClonePool GoluaVerif.Model.GcRuntime GoluaVerif.Model

theorem marked_iff {p : Pool} {k : Nat} : marked p k = true ↔ ∃ e ∈ regL p, e.val.key = k := by
  unfold marked regL
  cases h : p.reg with
  | none => simp
  | some rg =>
    simp only [Option.getD_some, regLookup, List.find?_isSome]
    constructor
    · rintro ⟨e, he, hk⟩; exact ⟨e, he, by simpa using hk⟩
    · rintro ⟨e, he, hk⟩; exact ⟨e, he, by simpa using hk⟩

/-- what a pool operation other than `Mark` does to the set of marked keys: it can only shrink -/
theorem regL_keys_use {p : Pool} {u : Use} (hu : ∀ o f r, u ≠ .mark o f r) {k : Nat}
    (h : marked (ClonePool.use p u) k = true) : marked p k = true := by
  by_cases hf : p.fatal = true
  · rwa [use_fatal hf] at h
  have hf' : p.fatal = false := by simpa using hf
  rw [use_of_not_fatal hf'] at h
  rw [marked_iff] at h ⊢
  obtain ⟨e, he, hk⟩ := h
  -- every entry of the new register has the key of an entry of the old one
  have keyOf : ∀ {q : Pool}, (∀ x ∈ regL q, ∃ y ∈ regL p, x.val.key = y.val.key) → e ∈ regL q →
      ∃ y ∈ regL p, y.val.key = k := fun hq heq => by
    obtain ⟨y, hy, hxy⟩ := hq e heq; exact ⟨y, hy, hxy ▸ hk⟩
  have hfire : ∀ o x, x ∈ regL (ClonePool.fire p o) → ∃ y ∈ regL p, x.val.key = y.val.key := by
    intro o x hx
    unfold ClonePool.fire at hx
    split at hx
    · exact ⟨x, hx, rfl⟩
    · split at hx
      · exact ⟨x, hx, rfl⟩
      · rename_i rg hreg
        have hr : regL p = rg := regL_of_some hreg
        split at hx
        · exact ⟨x, hx, rfl⟩
        · split at hx
          · have hx' : x ∈ setFin rg o.key := hx
            unfold setFin at hx'
            obtain ⟨y, hy, rfl⟩ := List.mem_map.mp hx'
            exact ⟨y, hr ▸ hy, by split <;> rfl⟩
          · exact ⟨x, hr ▸ (mem_regErase (show x ∈ regErase rg o.key from hx)).1, rfl⟩
  have hxPF : ∀ q : Pool, regL (ClonePool.xPF q) = regL q := by
    intro q; unfold regL ClonePool.xPF
    rw [(foldl_register_core q.pf { q with pf := [] }).1]
  have hxPR : ∀ q : Pool, regL (ClonePool.xPR q) = regL q := fun q => rfl
  have haf : ∀ q : Pool, ∀ x ∈ setFinAll (regL q), ∃ y ∈ regL q, x.val.key = y.val.key := by
    intro q x hx; unfold setFinAll at hx
    obtain ⟨y, hy, rfl⟩ := List.mem_map.mp hx
    exact ⟨y, hy, rfl⟩
  cases u with
  | mark o f r => exact absurd rfl (hu o f r)
  | fire o => exact keyOf (hfire o) he
  | xPF => exact ⟨e, (hxPF p) ▸ he, hk⟩
  | xPR => exact ⟨e, he, hk⟩
  | xAF => exact keyOf (fun x hx => haf p x ((regL_afState p) ▸ hx)) he
  | xAR => simp [ClonePool.xAR, regL] at he
  | step => exact ⟨e, (hxPF p) ▸ ((hxPR (ClonePool.xPF p)) ▸ he), hk⟩
  | finAll => exact keyOf (fun x hx => haf p x ((regL_afState p) ▸ hx)) he
  | popRel => simp [ClonePool.xAR, regL] at he

theorem regL_keys_mark {p : Pool} {o : Obj} {f r : Bool} {k : Nat}
    (h : marked (ClonePool.use p (.mark o f r)) k = true) : marked p k = true ∨ k = o.key := by
  by_cases hf : p.fatal = true
  · left; rwa [use_fatal hf] at h
  have hf' : p.fatal = false := by simpa using hf
  rw [use_of_not_fatal hf'] at h
  rw [marked_iff] at h
  obtain ⟨e, he, hk⟩ := h
  simp only at he
  unfold ClonePool.mark at he
  split at he
  · split at he
    · left; exact marked_iff.mpr ⟨e, he, hk⟩
    · rename_i rg hreg
      split at he
      · left; exact marked_iff.mpr ⟨e, he, hk⟩
      · left
        exact marked_iff.mpr ⟨e, (regL_of_some hreg) ▸ (mem_regErase (show e ∈ regErase rg o.key from he)).1, hk⟩
  · split at he
    · rename_i hreg
      simp [regL, hreg] at he
    · rename_i rg hreg
      have he' : e ∈ regErase rg o.key ++ [_] := he
      rcases List.mem_append.mp he' with h1 | h1
      · left; exact marked_iff.mpr ⟨e, (regL_of_some hreg) ▸ (mem_regErase h1).1, hk⟩
      · right; rw [← hk, List.mem_singleton.mp h1]

theorem marked_clearFinalizer (p : Pool) (o : Obj) (k : Nat) : marked (clearFinalizer p o) k = marked p k := rfl

/-- `Mark` itself never makes runtime.SetFinalizer throw (clear, then set) -/
theorem mark_fatal (p : Pool) (o : Obj) (f r : Bool) : (ClonePool.mark p o f r).fatal = p.fatal := by
  unfold ClonePool.mark
  split
  · split
    · rfl
    · split <;> rfl
  · split
    · exact registerNew_fatal p o
    · show (if (regLookup _ o.key).isNone = true then registerNew p o else p).fatal = p.fatal
      split
      · exact registerNew_fatal p o
      · rfl

theorem use_mark_fatal (p : Pool) (o : Obj) (f r : Bool) : (ClonePool.use p (.mark o f r)).fatal = p.fatal := by
  by_cases hf : p.fatal = true
  · rw [use_fatal hf]
  · rw [use_of_not_fatal (by simpa using hf)]; exact mark_fatal p o f r


/-! ### a key is marked in at most one live pool -/

/-- no key is marked in two different pools of the list -/
def Disj (l : List Pool) : Prop :=
  ∀ (a b : Nat) (x y : Pool), a ≠ b → l[a]? = some x → l[b]? = some y → ∀ k, marked x k = true → marked y k = false

theorem Disj.nil : Disj [] := by intro a b x y _ hx; simp at hx

theorem Disj.single (p : Pool) : Disj [p] := by
  intro a b x y hab hx hy
  cases a <;> cases b <;> simp at hx hy hab

/-- replacing every pool by one with no more keys keeps the list disjoint -/
theorem Disj.map {l : List Pool} (h : Disj l) (g : Pool → Pool) (hg : ∀ q k, marked (g q) k = true → marked q k = true) :
    Disj (l.map g) := by
  intro a b x y hab hx hy k hk
  rw [List.getElem?_map] at hx hy
  cases hxa : l[a]? with
  | none => simp [hxa] at hx
  | some x0 =>
    cases hyb : l[b]? with
    | none => simp [hyb] at hy
    | some y0 =>
      simp [hxa] at hx; simp [hyb] at hy
      subst hx; subst hy
      have := h a b x0 y0 hab hxa hyb k (hg x0 k hk)
      cases hm : marked (g y0) k with
      | false => rfl
      | true => rw [hg y0 k hm] at this; cases this

theorem Disj.tail {p : Pool} {l : List Pool} (h : Disj (p :: l)) : Disj l := by
  intro a b x y hab hx hy
  exact h (a + 1) (b + 1) x y (by omega) (by simpa using hx) (by simpa using hy)

/-- a pool without any key can be put in front -/
theorem Disj.cons_empty {l : List Pool} (h : Disj l) (p : Pool) (hp : ∀ k, marked p k = false) : Disj (p :: l) := by
  intro a b x y hab hx hy k hk
  cases a with
  | zero => simp at hx; subst hx; rw [hp k] at hk; cases hk
  | succ a =>
    cases b with
    | zero => simp at hy; subst hy; exact hp k
    | succ b => exact h a b x y (by omega) (by simpa using hx) (by simpa using hy) k hk

/-- the head may be replaced by a pool with no more keys -/
theorem Disj.head {p p' : Pool} {l : List Pool} (h : Disj (p :: l)) (hp : ∀ k, marked p' k = true → marked p k = true) :
    Disj (p' :: l) := by
  intro a b x y hab hx hy k hk
  cases a with
  | zero =>
    simp at hx; subst hx
    cases b with
    | zero => exact absurd rfl hab
    | succ b => exact h 0 (b + 1) p y (by omega) (by simp) (by simpa using hy) k (hp k hk)
  | succ a =>
    cases b with
    | zero =>
      simp at hy; subst hy
      have := h (a + 1) 0 x p (by omega) (by simpa using hx) (by simp) k hk
      cases hm : marked p' k with
      | false => rfl
      | true => rw [hp k hm] at this; cases this
    | succ b => exact h (a + 1) (b + 1) x y (by omega) (by simpa using hx) (by simpa using hy) k hk

theorem getElem?_applyAt (f : Pool → Pool) (i : Nat) (l : List Pool) (j : Nat) :
    (applyAt f i l)[j]? = if j = i then (l[j]?).map f else l[j]? := by
  induction l generalizing i j with
  | nil => simp [applyAt]
  | cons p t ih =>
    cases i with
    | zero => cases j <;> simp [applyAt]
    | succ i =>
      cases j with
      | zero => simp [applyAt]
      | succ j => simp [applyAt, ih]

/-- marking key `k0` in the `i`-th pool keeps the list disjoint if no other pool has `k0` -/
theorem Disj.applyAt {l : List Pool} (h : Disj l) (f : Pool → Pool) (i k0 : Nat)
    (hf : ∀ q k, marked (f q) k = true → marked q k = true ∨ k = k0)
    (hfresh : ∀ j q, j ≠ i → l[j]? = some q → marked q k0 = false) :
    Disj (GcRuntime.applyAt f i l) := by
  intro a b x y hab hx hy k hk
  rw [getElem?_applyAt] at hx hy
  by_cases hai : a = i
  · -- x is the marked pool
    have hbi : b ≠ i := fun hb => hab (hai.trans hb.symm)
    rw [if_pos hai] at hx; rw [if_neg hbi] at hy
    cases hxa : l[a]? with
    | none => simp [hxa] at hx
    | some x0 =>
      simp [hxa] at hx; subst hx
      rcases hf x0 k hk with h1 | h1
      · exact h a b x0 y hab hxa hy k h1
      · rw [h1]; exact hfresh b y hbi hy
  · rw [if_neg hai] at hx
    by_cases hbi : b = i
    · rw [if_pos hbi] at hy
      cases hyb : l[b]? with
      | none => simp [hyb] at hy
      | some y0 =>
        simp [hyb] at hy; subst hy
        cases hm : marked (f y0) k with
        | false => rfl
        | true =>
          rcases hf y0 k hm with h1 | h1
          · have := h a b x y0 hab hx hyb k hk; rw [h1] at this; cases this
          · have := hfresh a x hai hx; rw [h1] at hk; rw [hk] at this; cases this
    · rw [if_neg hbi] at hy
      exact h a b x y hab hx hy k hk

/-- `markingPool` finds THE pool that has the key: every other pool of `cur :: enclosing` does not have it -/
theorem markingIdx_fresh (cur : Pool) (enclosing : List Pool) (k : Nat) (h : Disj (cur :: enclosing)) :
    ∀ j q, j ≠ markingIdx enclosing k → (cur :: enclosing)[j]? = some q → marked q k = false := by
  -- first: what markingIdx returns
  have spec : ∀ (l : List Pool), (markingIdx l k = 0 ∧ ∀ q ∈ l, marked q k = false) ∨
      (∃ j q, markingIdx l k = j + 1 ∧ l[j]? = some q ∧ marked q k = true) := by
    intro l
    induction l with
    | nil => left; simp [markingIdx]
    | cons q t ih =>
      by_cases hq : marked q k = true
      · right; exact ⟨0, q, by simp [markingIdx, hq], by simp, hq⟩
      · have hq' : marked q k = false := by simpa using hq
        rcases ih with ⟨h0, hall⟩ | ⟨j, q', hj, hget, hm⟩
        · left; refine ⟨by simp [markingIdx, hq', h0], ?_⟩
          intro x hx; rcases List.mem_cons.mp hx with rfl | hx
          · exact hq'
          · exact hall x hx
        · right; exact ⟨j + 1, q', by simp [markingIdx, hq', hj], by simpa using hget, hm⟩
  intro j q hj hget
  rcases spec enclosing with ⟨h0, hall⟩ | ⟨j0, q0, hj0, hget0, hm0⟩
  · rw [h0] at hj
    cases j with
    | zero => exact absurd rfl hj
    | succ j =>
      have : q ∈ enclosing := List.mem_of_getElem? (by simpa using hget)
      exact hall q this
  · rw [hj0] at hj
    have := h (j0 + 1) j q0 q (fun e => hj e.symm) (by simpa using hget0) hget k hm0
    exact this

theorem markRt_disj {s : Rt} (h : Disj s.live) (o : Obj) (f r : Bool) : Disj (markRt s o f r).live := by
  unfold GcRuntime.markRt
  split
  · exact h
  · rename_i p rest hl
    rw [hl] at h
    simp only
    generalize wouldRegister ((p :: rest)[markingIdx rest o.key]?.getD p) o = c
    generalize (c && (List.map (fun q => if c = true then clearFinalizer q o else q) (p :: rest) ++
      List.map (fun q => if c = true then clearFinalizer q o else q) s.dead).any fun q => q.goReg.contains o) = cond
    cases cond
    case true => simp only [if_true]; rw [hl]; exact h
    case false =>
      simp only [Bool.false_eq_true, if_false]
      have hclr : ∀ q k, marked (if c = true then clearFinalizer q o else q) k = marked q k := by
        intro q k; cases c <;> rfl
      have h1 : Disj (List.map (fun q => if c = true then clearFinalizer q o else q) (p :: rest)) :=
        h.map _ (fun q k hk => by rwa [hclr] at hk)
      refine h1.applyAt _ _ o.key (fun q k hk => regL_keys_mark hk) ?_
      intro j q hj hget
      rw [List.getElem?_map] at hget
      cases hq : (p :: rest)[j]? with
      | none => simp [hq] at hget
      | some q0 =>
        simp [hq] at hget; subst hget
        rw [hclr]; exact markingIdx_fresh p rest o.key h j q0 hj hq

theorem onCurrent_disj {s : Rt} (h : Disj s.live) (u : Use) (hu : ∀ o f r, u ≠ .mark o f r) (d : Nat) :
    Disj (onCurrent s u d).live := by
  unfold GcRuntime.onCurrent
  split
  · exact h
  · rename_i p rest hl
    rw [hl] at h
    exact h.head (fun k hk => regL_keys_use hu hk)

theorem prim_disj {s : Rt} (h : Disj s.live) (e : Prim) : Disj (GcRuntime.prim s e).live := by
  unfold GcRuntime.prim
  split
  · exact h
  · cases e with
    | mark o f r =>
      simp only
      split
      · exact h
      · exact markRt_disj h o f r
    | fire o => exact h.map _ (fun q k hk => regL_keys_use (by intro _ _ _ hc; cases hc) hk)
    | step => exact onCurrent_disj h _ (by intro _ _ _ hc; cases hc) _
    | push => exact h.cons_empty _ (fun k => rfl)
    | finAll => exact onCurrent_disj h _ (by intro _ _ _ hc; cases hc) _
    | popRel =>
      have h1 := onCurrent_disj h Use.popRel (by intro _ _ _ hc; cases hc) (List.dropWhile (fun b => b == false) s.frames).length
      simp only
      generalize GcRuntime.onCurrent s Use.popRel (List.dropWhile (fun b => b == false) s.frames).length = s1 at h1
      split
      · rename_i p q rest hl
        have hl' : s1.live = p :: q :: rest := hl
        rw [hl'] at h1
        exact h1.tail
      · exact h1
    | pushShare => exact h
    | popShare =>
      simp only
      split <;> exact h
    | setRaise k =>
      simp only
      split
      · split <;> exact h
      · exact h

theorem closeN_disj {s : Rt} (h : Disj s.live) (n : Nat) : Disj (closeN n s).live := by
  induction n generalizing s with
  | zero => exact h
  | succ n ih => exact ih (prim_disj (prim_disj h _) _)

theorem rstep_disj {s : Rt} (h : Disj s.live) (e : REv) : Disj (rstep s e).live := by
  cases e with
  | prim e => exact prim_disj h e
  | pushCtx d => exact prim_disj h _
  | callDone => exact prim_disj (prim_disj h _) _
  | callKilled => exact prim_disj h _
  | close => exact closeN_disj h _

theorem run_disj (es : List REv) : Disj (GcRuntime.run es).live := by
  unfold GcRuntime.run
  have h0 : Disj ({} : Rt).live := Disj.single _
  generalize ({} : Rt) = s at h0
  induction es generalizing s with
  | nil => exact h0
  | cons e t ih => exact ih _ (rstep_disj h0 e)

end GoluaVerif.Proofs.C18
