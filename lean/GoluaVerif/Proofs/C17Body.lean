/-
  Proofs.C17Body — one option: what `packBody` writes, `unpackBody` reads back.
-/
import GoluaVerif.Proofs.C17Int
namespace GoluaVerif.Model.Pack
open GoluaVerif

theorem splitZero_append (s post : Bytes) (h : s.contains 0 = false) :
    splitZero (s ++ 0 :: post) = some (s, post) := by
  induction s with
  | nil => simp [splitZero]
  | cons b t ih =>
    simp only [List.contains_cons, Bool.or_eq_false_iff] at h
    have hb : b ≠ 0 := by
      intro hb; subst hb; simp at h
    simp [splitZero, hb, ih h.2]

theorem ofNat_len_toInt (k : Nat) (h : k < 2 ^ 63) :
    ¬ ((BitVec.ofNat 64 k).toInt < 0) ∧ (BitVec.ofNat 64 k).toNat = k := by
  have h1 : (BitVec.ofNat 64 k).toNat = k := by simp; omega
  rcases toInt_cases (BitVec.ofNat 64 k) with ⟨hc, ht⟩ | ⟨hc, ht⟩
  · rw [h1] at ht; omega
  · rw [h1] at hc; omega

theorem unpackBody_packBody (e : Endian) (body : Body) (v : Val) (vt vs1 : List Val) (w post : Bytes)
    (hp : packBody e body (v :: vt) = .ok (w, vs1)) (hx : exactVal body v = true) :
    vs1 = vt ∧ unpackBody e body (w ++ post) = .ok (some v, post) := by
  cases body with
  | int signed n =>
    cases v with
    | int x =>
      simp only [exactVal, decide_eq_true_eq] at hx
      simp only [packBody, nextInt] at hp
      split at hp
      · exact absurd hp (by simp)
      · rename_i w' hw
        injection hp with hp; injection hp with h1 h2
        subst h1; subst h2
        simp [unpackBody, unpackInt_packInt e signed n x _ post hx hw]
    | flt _ => simp [exactVal] at hx
    | str _ => simp [exactVal] at hx
    | bad => simp [exactVal] at hx
  | f32 =>
    cases v with
    | flt x =>
      simp only [exactVal, beq_iff_eq] at hx
      simp only [packBody, nextFloat] at hp
      split at hp
      · injection hp with hp; injection hp with h1 h2
        subst h1; subst h2
        simp only [unpackBody]
        rw [takeN_append _ _ _ (by simp [ord_length, leBytes_length])]
        simp [ord_ord, ofLE_leBytes, hx]
      · exact absurd hp (by simp)
    | int _ => simp [exactVal] at hx
    | str _ => simp [exactVal] at hx
    | bad => simp [exactVal] at hx
  | f64 =>
    cases v with
    | flt x =>
      simp only [packBody, nextFloat] at hp
      injection hp with hp; injection hp with h1 h2
      subst h1; subst h2
      simp only [unpackBody]
      rw [takeN_append _ _ _ (by simp [ord_length, leBytes_length])]
      have : x.toNat % 256 ^ 8 = x.toNat := by have := x.isLt; omega
      simp [ord_ord, ofLE_leBytes, this]
    | int _ => simp [exactVal] at hx
    | str _ => simp [exactVal] at hx
    | bad => simp [exactVal] at hx
  | fixstr n =>
    cases v with
    | str s =>
      simp only [exactVal, beq_iff_eq] at hx
      simp only [packBody, nextStr] at hp
      split at hp
      · exact absurd hp (by simp)
      · injection hp with hp; injection hp with h1 h2
        subst h1; subst h2
        have : n - s.length = 0 := by omega
        simp only [this, zeros, List.replicate_zero, List.append_nil, unpackBody]
        rw [takeN_append _ _ _ hx]
        simp
    | int _ => simp [exactVal] at hx
    | flt _ => simp [exactVal] at hx
    | bad => simp [exactVal] at hx
  | zstr =>
    cases v with
    | str s =>
      simp only [packBody, nextStr] at hp
      split at hp
      · exact absurd hp (by simp)
      · rename_i hz
        injection hp with hp; injection hp with h1 h2
        subst h1; subst h2
        have hz' : s.contains 0 = false := by simpa using hz
        simp [unpackBody, splitZero_append s post hz']
    | int _ => simp [exactVal] at hx
    | flt _ => simp [exactVal] at hx
    | bad => simp [exactVal] at hx
  | lstr n =>
    cases v with
    | str s =>
      simp only [exactVal, decide_eq_true_eq] at hx
      simp only [packBody, nextStr] at hp
      split at hp
      · exact absurd hp (by simp)
      · exact absurd hp (by simp)
      · rename_i w' hw
        injection hp with hp; injection hp with h1 h2
        subst h1; subst h2
        have hl := ofNat_len_toInt s.length hx.2
        simp only [unpackBody, List.append_assoc]
        rw [unpackInt_packInt e false n _ w' (s ++ post) hx.1 hw]
        simp only
        rw [if_neg hl.1, hl.2, takeN_append _ _ _ rfl]
        simp
    | int _ => simp [exactVal] at hx
    | flt _ => simp [exactVal] at hx
    | bad => simp [exactVal] at hx
  | padByte => cases v <;> simp [exactVal] at hx

end GoluaVerif.Model.Pack
