/-
  Proofs.C03Trav — traversal with `next` while existing fields are assigned or cleared: on the
  flat view positions never move, `next` returns the first live position after the cursor, hence
  every key that stays present is visited exactly once and no absent key is visited.
-/
import GoluaVerif.Proofs.C03Flat
namespace GoluaVerif.Model.Table
open GoluaVerif.Spec (Key Val Map NextRes)

/-- a cell that `next` can return -/
def cellLive (c : Cell) : Prop := c.1.isSome = true ∧ c.2.isSome = true

theorem scan_item (cells : List Cell) (k : Key) (v : Val) (h : scan cells = .item k v) :
    ∃ q, ∃ (hq : q < cells.length), cells[q] = (some k, some v) ∧
      ∀ j (hj : j < q), ¬ cellLive (cells[j]'(Nat.lt_trans hj hq)) := by
  induction cells with
  | nil => simp [scan] at h
  | cons c rest ih =>
    obtain ⟨ck, cv⟩ := c
    have dead : (ck = none ∨ cv = none) → scan rest = .item k v →
        ∃ q, ∃ (hq : q < ((ck, cv) :: rest).length), ((ck, cv) :: rest)[q] = (some k, some v) ∧
          ∀ j (hj : j < q), ¬ cellLive (((ck, cv) :: rest)[j]'(Nat.lt_trans hj hq)) := by
      intro hd hr
      obtain ⟨q, hq, e, hbefore⟩ := ih hr
      refine ⟨q + 1, by simp; omega, by simpa using e, ?_⟩
      intro j hj
      cases j with
      | zero =>
        simp only [List.getElem_cons_zero, cellLive]
        rcases hd with hd | hd <;> simp [hd]
      | succ j => simpa using hbefore j (by omega)
    cases ck with
    | none => exact dead (Or.inl rfl) (by simpa [scan] using h)
    | some k' =>
      cases cv with
      | none => exact dead (Or.inr rfl) (by simpa [scan] using h)
      | some v' =>
        simp only [scan, NextRes.item.injEq] at h
        obtain ⟨e1, e2⟩ := h
        subst e1; subst e2
        exact ⟨0, by simp, rfl, fun j hj => absurd hj (Nat.not_lt_zero _)⟩

theorem scan_done (cells : List Cell) (h : scan cells = .done) : ∀ c ∈ cells, ¬ cellLive c := by
  induction cells with
  | nil => intro c hc; simp at hc
  | cons c rest ih =>
    obtain ⟨ck, cv⟩ := c
    intro x hx
    cases ck with
    | none =>
      rcases List.mem_cons.1 hx with e | hx'
      · subst e; simp [cellLive]
      · exact ih (by simpa [scan] using h) x hx'
    | some k' =>
      cases cv with
      | none =>
        rcases List.mem_cons.1 hx with e | hx'
        · subst e; simp [cellLive]
        · exact ih (by simpa [scan] using h) x hx'
      | some v' => simp [scan] at h

/-- the first live position at or after `s` -/
theorem scan_drop_item (cells : List Cell) (s : Nat) (k : Key) (v : Val) (h : scan (cells.drop s) = .item k v) :
    ∃ q, ∃ (hq : q < cells.length), s ≤ q ∧ cells[q] = (some k, some v) ∧
      ∀ j (hj : j < cells.length), s ≤ j → j < q → ¬ cellLive cells[j] := by
  obtain ⟨q, hq, e, hb⟩ := scan_item _ k v h
  have hq' : s + q < cells.length := by simp at hq; omega
  refine ⟨s + q, hq', by omega, by simpa using e, ?_⟩
  intro j hj hsj hjq
  have := hb (j - s) (by omega)
  simp only [List.getElem_drop] at this
  have e2 : s + (j - s) = j := by omega
  simpa [e2] using this

theorem scan_drop_done (cells : List Cell) (s : Nat) (h : scan (cells.drop s) = .done) :
    ∀ j (hj : j < cells.length), s ≤ j → ¬ cellLive cells[j] := by
  intro j hj hsj
  have := scan_done _ h (cells[j]) (by
    rw [List.mem_iff_getElem]
    refine ⟨j - s, by simp; omega, ?_⟩
    simp only [List.getElem_drop]
    congr 1; omega)
  exact this

/-- the keys of the positions are pairwise different (where there is a key) -/
def KeysDistinct (ks : List (Option Key)) : Prop :=
  ∀ i (hi : i < ks.length) j (hj : j < ks.length), ks[i] ≠ none → ks[i] = ks[j] → i = j

/-- a traversal on the flat view: `states` are the cell lists at the successive calls of `next`
    (all with the keys `ks`), `s` is the position after the cursor -/
inductive FlatRun (ks : List (Option Key)) : Nat → List (List Cell) → List (Key × Val) → Prop
  | done (s : Nat) (cells : List Cell) (hk : cells.map (·.1) = ks) (h : scan (cells.drop s) = .done) :
      FlatRun ks s [cells] []
  | step (s : Nat) (cells : List Cell) (rest : List (List Cell)) (k : Key) (v : Val) (q : Nat)
      (visited : List (Key × Val)) (hk : cells.map (·.1) = ks)
      (h : scan (cells.drop s) = .item k v) (hq : q < ks.length) (hkq : ks[q]'hq = some k)
      (hr : FlatRun ks (q + 1) rest visited) : FlatRun ks s (cells :: rest) ((k, v) :: visited)

theorem keys_getElem (cells : List Cell) (ks : List (Option Key)) (hk : cells.map (·.1) = ks) (j : Nat)
    (hj : j < cells.length) : ks[j]'(by rw [← hk]; simpa using hj) = cells[j].1 := by
  subst hk; simp

/-- positions returned by a run lie at or after the start and only go up; a position whose cell is
    live in every state is returned -/
theorem flatRun_spec (ks : List (Option Key)) (hd : KeysDistinct ks) (s : Nat) (states : List (List Cell))
    (visited : List (Key × Val)) (run : FlatRun ks s states visited) :
    (∀ kv ∈ visited, ∃ p, ∃ (hp : p < ks.length), s ≤ p ∧ ks[p] = some kv.1) ∧
    (visited.map (·.1)).Nodup ∧
    (∀ p (hp : p < ks.length) kk, s ≤ p → ks[p] = some kk →
      (∀ st ∈ states, ∀ (h : p < st.length), st[p].2.isSome = true) → kk ∈ visited.map (·.1)) := by
  induction run with
  | done s cells hk h =>
    refine ⟨by simp, by simp, ?_⟩
    intro p hp kk hsp hkp hall
    have hpl : p < cells.length := by rw [← hk] at hp; simpa using hp
    have hlive := hall cells (by simp) hpl
    have hkey := keys_getElem cells ks hk p hpl
    exact absurd ⟨by rw [← hkey, hkp]; rfl, hlive⟩ (scan_drop_done cells s h p hpl hsp)
  | step s cells rest k v q visited hk h hq hkq hr ih =>
    obtain ⟨ih1, ih2, ih3⟩ := ih
    obtain ⟨q', hq', hsq', ecell, hbefore⟩ := scan_drop_item cells s k v h
    have hkey' := keys_getElem cells ks hk q' hq'
    have hq'k : q' < ks.length := by rw [← hk]; simpa using hq'
    have eqq : q = q' := hd q hq q' hq'k (by rw [hkq]; simp) (by rw [hkq, hkey', ecell])
    subst eqq
    refine ⟨?_, ?_, ?_⟩
    · intro kv hkv
      rcases List.mem_cons.1 hkv with e | hkv'
      · subst e; exact ⟨q, hq, hsq', hkq⟩
      · obtain ⟨p, hp, hle, e⟩ := ih1 kv hkv'
        exact ⟨p, hp, by omega, e⟩
    · simp only [List.map_cons, List.nodup_cons]
      refine ⟨?_, ih2⟩
      intro hmem
      obtain ⟨kv, hkv, e⟩ := List.mem_map.1 hmem
      obtain ⟨p, hp, hle, e'⟩ := ih1 kv hkv
      have : p = q := hd p hp q hq (by rw [e']; simp) (by rw [e', hkq, e])
      omega
    · intro p hp kk hsp hkp hall
      have hpl : p < cells.length := by rw [← hk] at hp; simpa using hp
      by_cases hpq : p < q
      · have hlive := hall cells (by simp) hpl
        have hkey := keys_getElem cells ks hk p hpl
        exact absurd ⟨by rw [← hkey, hkp]; rfl, hlive⟩ (hbefore p hpl hsp hpq)
      · by_cases epq : p = q
        · subst epq
          rw [hkq] at hkp
          simp only [Option.some.injEq] at hkp
          subst hkp
          simp
        · have := ih3 p hp kk (by omega) hkp (fun st hst h => hall st (List.mem_cons_of_mem _ hst) h)
          simp only [List.map_cons, List.mem_cons]
          exact Or.inr this

end GoluaVerif.Model.Table
