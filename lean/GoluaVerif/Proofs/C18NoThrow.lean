/-
  Proofs.C18NoThrow — runtime.SetFinalizer never throws.  `Mark` clears before it sets, so the only
  plain `SetFinalizer` left is the one `ExtractPendingFinalize` does on the clones it hands out; it would
  throw only for a clone that already carries a finaliser, i.e. one the program marked BEFORE the pool
  handed it out (`OkUse`: the program cannot name such an object).
-/
import GoluaVerif.Proofs.C18Owner
namespace GoluaVerif.Proofs.C18
open GoluaVerif.Spec.Gc GoluaVerif.Model.ClonePool GoluaVerif.Model.GcRuntime GoluaVerif.Model

/-- every clone the pool keeps is ITS clone of that marking epoch -/
def Shape (p : Pool) : Prop :=
  ∀ e, (e ∈ regL p ∨ e ∈ p.pf ∨ e ∈ p.pr) → e.val.id = e.order ∧ e.val.clone = true ∧ e.val.pool = p.pid

/-- a clone of this pool carries this pool's Go finaliser only if the pool has handed it out -/
def HandedOut (p : Pool) : Prop :=
  ∀ c ∈ p.goReg, c.clone = true → c.pool = p.pid → c.id ∈ finOrders p.tr

/-- the usage assumption: the program marks a pool's own clone only after the pool handed it out
    (it has no other way to get hold of it) -/
def OkUse (p : Pool) : Use → Prop
  | .mark o _ _ => o.clone = true → o.pool = p.pid → o.id ∈ finOrders p.tr
  | _ => True

structure NF (p : Pool) : Prop where
  nofatal : p.fatal = false
  shape : Shape p
  handed : HandedOut p
  inv : Inv p

theorem NF.init (pid : Nat) : NF { pid := pid } :=
  ⟨rfl, by intro e he; simp [regL] at he, by intro c hc; simp at hc, Inv.init pid⟩

theorem NF.clear {p : Pool} (h : NF p) (o : Obj) : NF (clearFinalizer p o) :=
  ⟨h.nofatal, h.shape, fun c hc => h.handed c (List.mem_filter.mp hc).1,
    Inv.congr (p := p) (q := clearFinalizer p o) rfl rfl rfl rfl rfl h.inv⟩

theorem mark_entries (p : Pool) (o : Obj) (f r : Bool) {x : Entry} (hx : x ∈ regL (ClonePool.mark p o f r)) :
    x ∈ regL p ∨ (x.val.id = x.order ∧ x.val.clone = true ∧ x.val.pool = p.pid) := by
  unfold ClonePool.mark at hx
  split at hx
  · split at hx
    · exact Or.inl hx
    · rename_i rg hreg
      split at hx
      · exact Or.inl hx
      · exact Or.inl ((regL_of_some hreg) ▸ (mem_regErase (show x ∈ regErase rg o.key from hx)).1)
  · split at hx
    · rename_i hreg; simp [regL, hreg] at hx
    · rename_i rg hreg
      have hx' : x ∈ regErase rg o.key ++ [_] := hx
      rcases List.mem_append.mp hx' with h1 | h1
      · exact Or.inl ((regL_of_some hreg) ▸ (mem_regErase h1).1)
      · right; rw [List.mem_singleton.mp h1]; exact ⟨rfl, rfl, rfl⟩

theorem mark_pr_pid (p : Pool) (o : Obj) (f r : Bool) :
    (ClonePool.mark p o f r).pr = p.pr ∧ (ClonePool.mark p o f r).pid = p.pid := by
  unfold ClonePool.mark
  split
  · split
    · exact ⟨rfl, rfl⟩
    · split <;> exact ⟨rfl, rfl⟩
  · split
    · exact ⟨by simp, by simp⟩
    · constructor
      · show (if (regLookup _ o.key).isNone = true then registerNew p o else p).pr = p.pr; split <;> simp
      · show (if (regLookup _ o.key).isNone = true then registerNew p o else p).pid = p.pid; split <;> simp

theorem fire_entries (p : Pool) (o : Obj) {x : Entry} :
    (x ∈ regL (ClonePool.fire p o) → ∃ y ∈ regL p, x.val = y.val ∧ x.order = y.order) ∧
    (x ∈ (ClonePool.fire p o).pr → x ∈ p.pr ∨ x ∈ regL p) ∧
    (ClonePool.fire p o).pid = p.pid ∧ (ClonePool.fire p o).fatal = p.fatal ∧
    (∀ c ∈ (ClonePool.fire p o).goReg, c ∈ p.goReg) := by
  unfold ClonePool.fire
  split
  · exact ⟨fun h => ⟨x, h, rfl, rfl⟩, Or.inl, rfl, rfl, fun c hc => hc⟩
  · split
    · exact ⟨fun h => ⟨x, h, rfl, rfl⟩, Or.inl, rfl, rfl, fun c hc => List.mem_of_mem_erase hc⟩
    · rename_i rg hreg
      have hr : regL p = rg := regL_of_some hreg
      split
      · exact ⟨fun h => ⟨x, h, rfl, rfl⟩, Or.inl, rfl, rfl, fun c hc => List.mem_of_mem_erase hc⟩
      · rename_i e hlook
        have hemem : e ∈ regL p := hr ▸ (regLookup_mem hlook).1
        split
        · refine ⟨fun h => ?_, Or.inl, rfl, rfl, fun c hc => List.mem_of_mem_erase hc⟩
          have h' : x ∈ setFin rg o.key := h
          unfold setFin at h'
          obtain ⟨y, hy, rfl⟩ := List.mem_map.mp h'
          exact ⟨y, hr ▸ hy, by split <;> rfl, by split <;> rfl⟩
        · refine ⟨fun h => ⟨x, hr ▸ (mem_regErase (show x ∈ regErase rg o.key from h)).1, rfl, rfl⟩, fun h => ?_, rfl, rfl,
            fun c hc => List.mem_of_mem_erase hc⟩
          have h' : x ∈ (if e.rel = false then p.pr ++ [e] else p.pr) := h
          split at h'
          · rcases List.mem_append.mp h' with h1 | h1
            · exact Or.inl h1
            · exact Or.inr ((List.mem_singleton.mp h1) ▸ hemem)
          · exact Or.inl h'

/-- registering objects none of which carries a finaliser yet: no throw, all registered -/
theorem foldl_register_fresh (l : List Entry) (q : Pool) (hf : q.fatal = false)
    (hfresh : ∀ e ∈ l, e.val ∉ q.goReg) (hnd : (l.map (·.val)).Nodup) :
    (l.foldl (fun q e => register q e.val) q).fatal = false ∧
    (∀ c, c ∈ (l.foldl (fun q e => register q e.val) q).goReg ↔ c ∈ q.goReg ∨ ∃ e ∈ l, c = e.val) := by
  induction l generalizing q with
  | nil => exact ⟨hf, fun c => by simp⟩
  | cons e t ih =>
    have he : e.val ∉ q.goReg := hfresh e (by simp)
    have hreg : register q e.val = { q with goReg := e.val :: q.goReg } := by
      unfold register; simp [he]
    have hnd' : e.val ∉ t.map (·.val) ∧ (t.map (·.val)).Nodup := List.nodup_cons.mp hnd
    simp only [List.foldl_cons]
    rw [hreg]
    obtain ⟨h1, h2⟩ := ih { q with goReg := e.val :: q.goReg } hf
      (by
        intro x hx hc
        rcases List.mem_cons.mp hc with h | h
        · exact hnd'.1 (List.mem_map.mpr ⟨x, hx, h⟩)
        · exact hfresh x (by simp [hx]) h)
      hnd'.2
    refine ⟨h1, fun c => ?_⟩
    rw [h2]
    constructor
    · rintro (h | ⟨x, hx, rfl⟩)
      · rcases List.mem_cons.mp h with h | h
        · exact Or.inr ⟨e, by simp, h⟩
        · exact Or.inl h
      · exact Or.inr ⟨x, by simp [hx], rfl⟩
    · rintro (h | ⟨x, hx, rfl⟩)
      · exact Or.inl (by simp [h])
      · rcases List.mem_cons.mp hx with rfl | hx
        · exact Or.inl (by simp)
        · exact Or.inr ⟨x, hx, rfl⟩

theorem NF.xPF {p : Pool} (h : NF p) : NF (ClonePool.xPF p) := by
  obtain ⟨htr, hpf, hpr⟩ := xPF_tr p
  have hcore := foldl_register_core p.pf { p with pf := [] }
  -- no queued clone carries a finaliser yet, and they are pairwise different objects
  have hfresh : ∀ e ∈ p.pf, e.val ∉ ({ p with pf := [] } : Pool).goReg := by
    intro e he hc
    obtain ⟨hid, hcl, hpool⟩ := h.shape e (Or.inr (Or.inl he))
    have := h.handed e.val hc hcl hpool
    rw [hid] at this
    exact h.inv.pfFresh e he this
  have hnd : (p.pf.map (·.val)).Nodup := by
    have := h.inv.pfNodup
    unfold ords at this
    rw [List.Nodup, List.pairwise_map] at this ⊢
    refine this.imp_of_mem ?_
    intro a b ha hb hab hv
    apply hab
    rw [← (h.shape a (Or.inr (Or.inl ha))).1, ← (h.shape b (Or.inr (Or.inl hb))).1, hv]
  obtain ⟨hfat, hgo⟩ := foldl_register_fresh p.pf { p with pf := [] } h.nofatal hfresh hnd
  have hxfat : (ClonePool.xPF p).fatal = false := by unfold ClonePool.xPF; exact hfat
  have hxgo : ∀ c, c ∈ (ClonePool.xPF p).goReg ↔ c ∈ p.goReg ∨ ∃ e ∈ p.pf, c = e.val := by
    intro c; unfold ClonePool.xPF; exact hgo c
  have hxpid : (ClonePool.xPF p).pid = p.pid := by unfold ClonePool.xPF; exact hcore.2.2.2.2.2.2
  have hxreg : regL (ClonePool.xPF p) = regL p := by unfold regL ClonePool.xPF; rw [hcore.1]
  refine ⟨hxfat, ?_, ?_, h.inv.xPF⟩
  · intro e he
    rw [hxpid]
    rw [hxreg, hpf, hpr] at he
    rcases he with he | he | he
    · exact h.shape e (Or.inl he)
    · cases he
    · exact h.shape e (Or.inr (Or.inr he))
  · intro c hc hcl hpool
    rw [htr, finOrders_append, finOrders_finEvs]
    rcases (hxgo c).mp hc with h1 | ⟨e, he, rfl⟩
    · exact List.mem_append_left _ (h.handed c h1 hcl (hxpid ▸ hpool))
    · refine List.mem_append_right _ (mem_ords_sortDesc.mpr (mem_ords.mpr ⟨e, he, ?_⟩))
      exact ((h.shape e (Or.inr (Or.inl he))).1).symm


theorem NF.mark {p : Pool} (h : NF p) (o : Obj) (f r : Bool) (hok : OkUse p (.mark o f r)) : NF (ClonePool.mark p o f r) := by
  obtain ⟨ext, htr, hfo, _, hpf⟩ := mark_ext p o f r
  obtain ⟨hpr, hpid⟩ := mark_pr_pid p o f r
  refine ⟨(mark_fatal p o f r).trans h.nofatal, ?_, ?_, h.inv.mark o f r⟩
  · intro e he
    rw [hpf, hpr, hpid] at *
    rcases he with he | he | he
    · rcases mark_entries p o f r he with h1 | h1
      · exact h.shape e (Or.inl h1)
      · exact h1
    · exact h.shape e (Or.inr (Or.inl he))
    · exact h.shape e (Or.inr (Or.inr he))
  · intro c hc hcl hpool
    rw [hpid] at hpool
    rw [htr, finOrders_append, hfo, List.append_nil]
    rcases (mark_goReg p o f r).1 c hc with h1 | rfl
    · exact h.handed c h1 hcl hpool
    · exact hok hcl hpool

theorem NF.fire {p : Pool} (h : NF p) (o : Obj) : NF (ClonePool.fire p o) := by
  obtain ⟨ext, htr, hfo, _, hpfm⟩ := fire_ext p o
  have hent := fun x => fire_entries p o (x := x)
  have hpid := (hent default).2.2.1
  refine ⟨(hent default).2.2.2.1.trans h.nofatal, ?_, ?_, h.inv.fire o⟩
  · intro e he
    rw [hpid]
    rcases he with he | he | he
    · obtain ⟨y, hy, hv, ho⟩ := (hent e).1 he
      rw [hv, ho]; exact h.shape y (Or.inl hy)
    · rcases hpfm e he with h1 | h1
      · exact h.shape e (Or.inr (Or.inl h1))
      · exact h.shape e (Or.inl h1)
    · rcases (hent e).2.1 he with h1 | h1
      · exact h.shape e (Or.inr (Or.inr h1))
      · exact h.shape e (Or.inl h1)
  · intro c hc hcl hpool
    rw [hpid] at hpool
    rw [htr, finOrders_append, hfo, List.append_nil]
    exact h.handed c ((hent default).2.2.2.2 c hc) hcl hpool

/-- operations that leave the Go finaliser table alone, only extend the trace, and keep every entry's clone -/
theorem NF.quiet {p q : Pool} (h : NF p) (hinv : Inv q) (hfat : q.fatal = false) (hgo : q.goReg = p.goReg) (hpid : q.pid = p.pid)
    (htr : ∃ ext, q.tr = p.tr ++ ext)
    (hent : ∀ e, (e ∈ regL q ∨ e ∈ q.pf ∨ e ∈ q.pr) → ∃ y, (y ∈ regL p ∨ y ∈ p.pf ∨ y ∈ p.pr) ∧ e.val = y.val ∧ e.order = y.order) :
    NF q := by
  refine ⟨hfat, ?_, ?_, hinv⟩
  · intro e he
    obtain ⟨y, hy, hv, ho⟩ := hent e he
    rw [hv, ho, hpid]; exact h.shape y hy
  · intro c hc hcl hpool
    obtain ⟨ext, he⟩ := htr
    rw [he, finOrders_append]
    exact List.mem_append_left _ (h.handed c (hgo ▸ hc) hcl (hpid ▸ hpool))

theorem NF.xPR {p : Pool} (h : NF p) : NF (ClonePool.xPR p) :=
  h.quiet h.inv.xPR h.nofatal rfl rfl ⟨_, rfl⟩ (by
    intro e he
    rcases he with he | he | he
    · exact ⟨e, Or.inl he, rfl, rfl⟩
    · exact ⟨e, Or.inr (Or.inl he), rfl, rfl⟩
    · cases he)

theorem NF.xAR {p : Pool} (h : NF p) : NF (ClonePool.xAR p) :=
  h.quiet h.inv.xAR h.nofatal rfl rfl ⟨_, rfl⟩ (by
    intro e he
    rcases he with he | he | he
    · simp [regL, ClonePool.xAR] at he
    · exact ⟨e, Or.inr (Or.inl he), rfl, rfl⟩
    · cases he)

theorem afState_entries (p : Pool) (e : Entry) (he : e ∈ regL (afState p) ∨ e ∈ (afState p).pf ∨ e ∈ (afState p).pr) :
    ∃ y, (y ∈ regL p ∨ y ∈ p.pf ∨ y ∈ p.pr) ∧ e.val = y.val ∧ e.order = y.order := by
  rcases he with he | he | he
  · rw [regL_afState] at he
    unfold setFinAll at he
    obtain ⟨y, hy, rfl⟩ := List.mem_map.mp he
    exact ⟨y, Or.inl hy, rfl, rfl⟩
  · cases he
  · exact ⟨e, Or.inr (Or.inr he), rfl, rfl⟩

theorem NF.xAF {p : Pool} (h : NF p) : NF (ClonePool.xAF p) :=
  h.quiet h.inv.xAF h.nofatal rfl rfl ⟨_, rfl⟩ (afState_entries p)

theorem NF.skipAF {p : Pool} (h : NF p) : NF (ClonePool.skipAF p) :=
  h.quiet h.inv.skipAF h.nofatal rfl rfl ⟨_, rfl⟩ (afState_entries p)

theorem NF.use {p : Pool} (h : NF p) (u : Use) (hok : OkUse p u) : NF (ClonePool.use p u) := by
  rw [use_of_not_fatal h.nofatal]
  cases u with
  | mark o f r => exact h.mark o f r hok
  | fire o => exact h.fire o
  | xPF => exact h.xPF
  | xPR => exact h.xPR
  | xAF => exact h.xAF
  | xAR => exact h.xAR
  | step => exact h.xPF.xPR
  | finAll => exact h.xAF
  | popRel => exact h.skipAF.xAR


/-! ### all pools of the runtime -/

/-- the runtime has not been killed by runtime.SetFinalizer, and every pool it ever made is in order -/
structure NFall (s : Rt) : Prop where
  nofatal : s.fatal = false
  pools : ∀ p ∈ s.pools, NF p

/-- the usage assumption for one runtime event: a clone is marked in the pool that made it only after that
    pool handed it out -/
def OkEv (s : Rt) : REv → Prop
  | .prim (.mark o f r) =>
    match s.live with
    | [] => True
    | p :: rest => OkUse (((p :: rest)[markingIdx rest o.key]?).getD p) (.mark o f r)
  | _ => True

def OkRun (s : Rt) : List REv → Prop
  | [] => True
  | e :: es => OkEv s e ∧ OkRun (rstep s e) es

/-- marking an ORIGINAL (not a clone) always satisfies the usage assumption -/
theorem okEv_of_original (s : Rt) (o : Obj) (f r : Bool) (ho : o.clone = false) : OkEv s (.prim (.mark o f r)) := by
  show (match s.live with
    | [] => True
    | p :: rest => OkUse (((p :: rest)[markingIdx rest o.key]?).getD p) (.mark o f r))
  cases s.live with
  | nil => trivial
  | cons p rest => intro hc; rw [ho] at hc; cases hc

theorem NFall.init : NFall {} := ⟨rfl, by intro p hp; unfold Rt.pools at hp; simp at hp; rw [hp]; exact NF.init 0⟩

theorem NFall.onCurrent {s : Rt} (h : NFall s) (u : Use) (hu : ∀ o f r, u ≠ .mark o f r) (d : Nat) :
    NFall (onCurrent s u d) := by
  have hok : ∀ q, OkUse q u := by intro q; cases u <;> first | trivial | exact absurd rfl (hu _ _ _)
  unfold GcRuntime.onCurrent
  split
  · exact h
  · rename_i p rest hl
    have hp : NF p := h.pools p (by unfold Rt.pools; rw [hl]; simp)
    refine ⟨?_, ?_⟩
    · show (s.fatal || (ClonePool.use p u).fatal) = false
      rw [h.nofatal, (hp.use u (hok p)).nofatal]; rfl
    · intro q hq
      unfold Rt.pools at hq
      simp only [List.cons_append, List.mem_cons, List.mem_append] at hq
      rcases hq with rfl | hq | hq
      · exact hp.use u (hok p)
      · exact h.pools q (by unfold Rt.pools; rw [hl]; simp [hq])
      · exact h.pools q (by unfold Rt.pools; simp [hq])

theorem NFall.markRt {s : Rt} (h : NFall s) (o : Obj) (f r : Bool) (hok : OkEv s (.prim (.mark o f r))) :
    NFall (markRt s o f r) := by
  unfold GcRuntime.markRt
  split
  · exact h
  · rename_i p rest hl
    have hall : ∀ q ∈ p :: rest, NF q := fun q hq => h.pools q (by unfold Rt.pools; rw [hl]; exact List.mem_append_left _ hq)
    have hdead : ∀ q ∈ s.dead, NF q := fun q hq => h.pools q (by unfold Rt.pools; exact List.mem_append_right _ hq)
    have hok' : OkUse (((p :: rest)[markingIdx rest o.key]?).getD p) (.mark o f r) := by
      unfold OkEv at hok; rw [hl] at hok; exact hok
    simp only
    generalize hc : wouldRegister ((p :: rest)[markingIdx rest o.key]?.getD p) o = c
    have hclr : ∀ (q : Pool), NF q → NF (if c = true then clearFinalizer q o else q) := by
      intro q hq; cases c
      · simpa using hq
      · simpa using hq.clear o
    -- after the clearing nobody carries a finaliser for `o`: the double-set check cannot fire
    have hnone : (c && (List.map (fun q => if c = true then clearFinalizer q o else q) (p :: rest) ++
        List.map (fun q => if c = true then clearFinalizer q o else q) s.dead).any fun q => q.goReg.contains o) = false := by
      cases c
      · rfl
      · simp only [Bool.true_and, if_true, List.any_eq_false, List.mem_append, List.mem_map]
        rintro x (⟨q, _, rfl⟩ | ⟨q, _, rfl⟩) <;> simp [clearFinalizer]
    rw [hnone]
    simp only [Bool.false_eq_true, if_false]
    -- the pools afterwards
    have hpools : ∀ x ∈ GcRuntime.applyAt (fun q => ClonePool.use q (Use.mark o f r)) (markingIdx rest o.key)
        (List.map (fun q => if c = true then clearFinalizer q o else q) (p :: rest)), NF x := by
      intro x hx
      obtain ⟨j, hj⟩ := List.mem_iff_getElem?.mp hx
      rw [getElem?_applyAt, List.getElem?_map] at hj
      cases hq : (p :: rest)[j]? with
      | none => simp [hq] at hj
      | some q0 =>
        have hq0 : NF q0 := hall q0 (List.mem_of_getElem? hq)
        by_cases hji : j = markingIdx rest o.key
        · rw [if_pos hji, hq] at hj
          simp only [Option.map_some, Option.some.injEq] at hj
          rw [← hj]
          refine (hclr q0 hq0).use _ ?_
          -- the marked pool is the target of the usage assumption (clearing a Go finaliser changes nothing of it)
          have : ((p :: rest)[markingIdx rest o.key]?).getD p = q0 := by rw [← hji, hq]; rfl
          rw [this] at hok'
          cases c <;> exact hok'
        · rw [if_neg hji, hq] at hj
          simp only [Option.map_some, Option.some.injEq] at hj
          rw [← hj]
          exact hclr q0 hq0
    refine ⟨?_, ?_⟩
    · simp only [h.nofatal, Bool.false_or, List.any_eq_false]
      intro x hx
      simp [(hpools x hx).nofatal]
    · intro x hx
      unfold Rt.pools at hx
      simp only [List.mem_append] at hx
      rcases hx with hx | hx
      · exact hpools x hx
      · obtain ⟨q, hq, rfl⟩ := List.mem_map.mp hx
        exact hclr q (hdead q hq)

theorem NFall.prim {s : Rt} (h : NFall s) (e : Prim) (hok : OkEv s (.prim e)) : NFall (GcRuntime.prim s e) := by
  have hnf : ¬ (s.fatal = true) := by rw [h.nofatal]; simp
  cases e with
  | mark o f r =>
    unfold GcRuntime.prim; rw [if_neg hnf]
    simp only
    split
    · exact h
    · exact h.markRt o f r hok
  | fire o =>
    unfold GcRuntime.prim; rw [if_neg hnf]
    refine ⟨h.nofatal, ?_⟩
    intro q hq
    unfold Rt.pools at hq
    simp only [List.mem_append, List.mem_map] at hq
    rcases hq with ⟨p, hp, rfl⟩ | ⟨p, hp, rfl⟩
    · exact (h.pools p (by unfold Rt.pools; simp [hp])).use _ trivial
    · exact (h.pools p (by unfold Rt.pools; simp [hp])).use _ trivial
  | step => unfold GcRuntime.prim; rw [if_neg hnf]; exact h.onCurrent _ (by intro _ _ _ hc; cases hc) _
  | push =>
    unfold GcRuntime.prim; rw [if_neg hnf]
    refine ⟨h.nofatal, ?_⟩
    intro q hq
    unfold Rt.pools at hq
    simp only [List.cons_append, List.mem_cons, List.mem_append] at hq
    rcases hq with rfl | hq | hq
    · exact NF.init _
    · exact h.pools q (by unfold Rt.pools; simp [hq])
    · exact h.pools q (by unfold Rt.pools; simp [hq])
  | finAll => unfold GcRuntime.prim; rw [if_neg hnf]; exact h.onCurrent _ (by intro _ _ _ hc; cases hc) _
  | popRel =>
    unfold GcRuntime.prim; rw [if_neg hnf]
    have h1 := h.onCurrent Use.popRel (by intro _ _ _ hc; cases hc) (List.dropWhile (fun b => b == false) s.frames).length
    simp only
    generalize GcRuntime.onCurrent s Use.popRel (List.dropWhile (fun b => b == false) s.frames).length = s1 at h1
    split
    · rename_i p q rest hl
      have hl' : s1.live = p :: q :: rest := hl
      refine ⟨h1.nofatal, ?_⟩
      intro x hx
      unfold Rt.pools at hx
      simp only [List.cons_append, List.mem_cons, List.mem_append] at hx
      apply h1.pools x
      unfold Rt.pools
      rw [hl']
      simp only [List.cons_append, List.mem_cons, List.mem_append]
      rcases hx with rfl | hx | rfl | hx
      · right; left; rfl
      · right; right; left; exact hx
      · left; rfl
      · right; right; right; exact hx
    · exact ⟨h1.nofatal, h1.pools⟩
  | pushShare => unfold GcRuntime.prim; rw [if_neg hnf]; exact ⟨h.nofatal, h.pools⟩
  | popShare =>
    unfold GcRuntime.prim; rw [if_neg hnf]
    simp only
    split
    · exact ⟨h.nofatal, h.pools⟩
    · exact h
  | setRaise k =>
    unfold GcRuntime.prim; rw [if_neg hnf]
    simp only
    split
    · split
      · exact ⟨h.nofatal, h.pools⟩
      · exact h
    · exact h

theorem NFall.closeN {s : Rt} (h : NFall s) (n : Nat) : NFall (GcRuntime.closeN n s) := by
  induction n generalizing s with
  | zero => exact h
  | succ n ih => exact ih ((h.prim .finAll trivial).prim .popRel trivial)

theorem NFall.rstep {s : Rt} (h : NFall s) (e : REv) (hok : OkEv s e) : NFall (GcRuntime.rstep s e) := by
  cases e with
  | prim e => exact h.prim e hok
  | pushCtx d =>
    show NFall (GcRuntime.prim s _)
    cases isolates d
    · exact h.prim .pushShare trivial
    · exact h.prim .push trivial
  | callDone => exact (h.prim .finAll trivial).prim .popRel trivial
  | callKilled => exact h.prim .popRel trivial
  | close => exact h.closeN _

theorem NFall.run_from {s : Rt} (h : NFall s) (es : List REv) (hok : OkRun s es) :
    NFall (es.foldl GcRuntime.rstep s) := by
  induction es generalizing s with
  | nil => exact h
  | cons e t ih => exact ih (h.rstep e hok.1) hok.2


theorem any_applyAt (f : Pool → Pool) (g : Pool → Bool) (hg : ∀ q, g (f q) = g q) (i : Nat) (l : List Pool) :
    (GcRuntime.applyAt f i l).any g = l.any g := by
  induction l generalizing i with
  | nil => simp [GcRuntime.applyAt]
  | cons p t ih =>
    cases i with
    | zero => simp [GcRuntime.applyAt, hg]
    | succ i => simp [GcRuntime.applyAt, ih]

/-- UNCONDITIONALLY: marking (`addFinalizer` → `markingPool(ref).Mark`) never makes runtime.SetFinalizer throw,
    in whatever state, for whatever object, in whichever context -/
theorem markRt_fatal (s : Rt) (o : Obj) (f r : Bool) :
    (markRt s o f r).fatal = (s.fatal || s.live.any (fun q => q.fatal)) := by
  unfold GcRuntime.markRt
  split
  · rename_i hl; simp [hl]
  · rename_i p rest hl
    simp only
    generalize wouldRegister ((p :: rest)[markingIdx rest o.key]?.getD p) o = c
    have hnone : (c && (List.map (fun q => if c = true then clearFinalizer q o else q) (p :: rest) ++
        List.map (fun q => if c = true then clearFinalizer q o else q) s.dead).any fun q => q.goReg.contains o) = false := by
      cases c
      · rfl
      · simp only [Bool.true_and, if_true, List.any_eq_false, List.mem_append, List.mem_map]
        rintro x (⟨q, _, rfl⟩ | ⟨q, _, rfl⟩) <;> simp [clearFinalizer]
    rw [hnone]
    simp only [Bool.false_eq_true, if_false]
    rw [any_applyAt _ _ (fun q => use_mark_fatal q o f r), hl, List.any_map]
    congr 1
    cases c <;> rfl

end GoluaVerif.Proofs.C18
