/-
  Proofs.C17Size — string.packsize(fmt) = #string.pack(fmt, …) for fixed-size formats.
-/
import GoluaVerif.Proofs.C17Loop
namespace GoluaVerif.Model.Pack
open GoluaVerif

/-- packsize reads an option exactly as pack does (or fails: `s`, `z`) -/
theorem readOpt_size_eq (rd : Rd) (c : UInt8) (rest : Bytes) (r : Opt × Rd × Bytes)
    (h : readOpt .size rd c rest = .ok r) : readOpt .pack rd c rest = .ok r := by
  unfold readOpt at *
  cases hk : optKind c <;> simp only [hk] at h ⊢ <;> first
    | exact h
    | (simp at h)

/-- …and never yields a variable-length body -/
theorem readOpt_size_body (rd rd' : Rd) (c : UInt8) (rest rest' : Bytes) (al : Nat) (ao : Bool) (body : Body)
    (h : readOpt .size rd c rest = .ok (.item al ao body, rd', rest')) : body ≠ .zstr ∧ ∀ n, body ≠ .lstr n := by
  unfold readOpt mkItem at h
  cases hk : optKind c <;> simp only [hk] at h
  case bang => split at h <;> simp at h
  case varInt =>
    split at h
    · simp at h
    · simp at h; rw [← h.1.2.2]; simp
  case fixstr =>
    split at h
    · simp at h; rw [← h.1.2.2]; simp
    · split at h
      · simp at h
      · simp at h; rw [← h.1.2.2]; simp
  case alignNext => split at h <;> (try split at h) <;> simp at h
  all_goals first
    | (simp at h; done)
    | (simp at h; rw [← h.1.2.2]; simp)

theorem intBytes_length (e : Endian) (signed : Bool) (n : Nat) (v : I64) : (intBytes e signed n v).length = n := by
  unfold intBytes
  split
  · simp [ord_length, leBytes_length]
  · cases e <;> simp [leBytes_length] <;> omega

/-- a fixed-size option writes exactly `bodySize` bytes -/
theorem packBody_length (e : Endian) (body : Body) (vs vs1 : List Val) (w : Bytes)
    (hp : packBody e body vs = .ok (w, vs1)) (hz : body ≠ .zstr) (hl : ∀ n, body ≠ .lstr n)
    (hx : body = .padByte ∨ ∃ v vt, vs = v :: vt ∧ exactVal body v = true) : w.length = bodySize body := by
  cases body with
  | padByte => simp [packBody] at hp; rw [← hp.1]; rfl
  | zstr => exact absurd rfl hz
  | lstr n => exact absurd rfl (hl n)
  | int signed n =>
    rcases hx with hx | ⟨v, vt, hv, _⟩
    · simp at hx
    · subst hv
      simp only [packBody] at hp
      split at hp
      · simp at hp
      · split at hp
        · simp at hp
        · rename_i w' hw
          simp only [Except.ok.injEq, Prod.mk.injEq] at hp
          rw [← hp.1]
          unfold packInt at hw
          split at hw
          · simp only [Except.ok.injEq] at hw; rw [← hw]; exact intBytes_length ..
          · simp at hw
  | f32 =>
    rcases hx with hx | ⟨v, vt, hv, _⟩
    · simp at hx
    · subst hv
      simp only [packBody] at hp
      split at hp
      · simp at hp
      · split at hp
        · simp only [Except.ok.injEq, Prod.mk.injEq] at hp
          rw [← hp.1]; simp [ord_length, leBytes_length, bodySize]
        · simp at hp
  | f64 =>
    rcases hx with hx | ⟨v, vt, hv, _⟩
    · simp at hx
    · subst hv
      simp only [packBody] at hp
      split at hp
      · simp at hp
      · simp only [Except.ok.injEq, Prod.mk.injEq] at hp
        rw [← hp.1]; simp [ord_length, leBytes_length, bodySize]
  | fixstr n =>
    rcases hx with hx | ⟨v, vt, hv, he⟩
    · simp at hx
    · subst hv
      cases v with
      | str s =>
        simp only [exactVal, beq_iff_eq] at he
        simp only [packBody, nextStr] at hp
        split at hp
        · simp at hp
        · simp only [Except.ok.injEq, Prod.mk.injEq] at hp
          rw [← hp.1]
          have : n - s.length = 0 := by omega
          simp [this, zeros, bodySize, he]
      | int _ => simp [exactVal] at he
      | flt _ => simp [exactVal] at he
      | bad => simp [exactVal] at he

theorem consOut_ok' (w bs : Bytes) (vs : List Val) (r : Except Err (Bytes × List Val))
    (h : consOut w r = .ok (bs, vs)) : ∃ bs1, r = .ok (bs1, vs) ∧ bs = w ++ bs1 := consOut_ok w bs vs r h

theorem sizeInc_ok (size n m : Nat) (h : sizeInc size n = .ok m) : m = size + n := by
  unfold sizeInc at h
  split at h
  · simp at h
  · simp at h; exact h.symm

theorem loop_size : ∀ (fuel : Nat) (rd : Rd) (fmt : Bytes) (len : Nat) (vs : List Val) (bs : Bytes) (vs' : List Val) (n : Nat),
    exactLoop fuel rd fmt vs = true → packLoop fuel rd fmt len vs = .ok (bs, vs') →
    sizeLoop fuel rd fmt len = .ok n → n = len + bs.length := by
  intro fuel
  induction fuel with
  | zero => intro rd fmt len vs bs vs' n hx; simp [exactLoop] at hx
  | succ fuel ih =>
    intro rd fmt len vs bs vs' n hx hp hs
    cases fmt with
    | nil =>
      simp only [sizeLoop, Except.ok.injEq] at hs
      simp only [packLoop] at hp
      split at hp
      · simp at hp
      · simp only [Except.ok.injEq, Prod.mk.injEq] at hp
        rw [← hp.1, ← hs]; simp
    | cons c rest =>
      unfold sizeLoop at hs
      unfold packLoop at hp
      unfold exactLoop at hx
      cases hr : readOpt .size rd c rest with
      | error e => simp [hr] at hs
      | ok r =>
        obtain ⟨opt, rd', rest'⟩ := r
        have hpk := readOpt_size_eq rd c rest _ hr
        simp only [hr] at hs
        simp only [hpk] at hp hx
        cases opt with
        | nop => exact ih rd' rest' len vs bs vs' n hx hp hs
        | item al ao body =>
          obtain ⟨hz, hl⟩ := readOpt_size_body rd rd' c rest rest' al ao body hr
          simp only at hp hx hs
          cases ha : alignPad rd true al len with
          | error e => simp [ha] at hp
          | ok pad =>
            simp only [ha] at hp hs
            cases h1 : sizeInc len pad with
            | error e => simp [h1] at hs
            | ok size1 =>
              have e1 := sizeInc_ok _ _ _ h1
              subst e1
              simp only [h1] at hs
              cases ao with
              | true =>
                simp only [if_true, Bool.true_or] at hp hx hs
                obtain ⟨bs1, hb1, hbs⟩ := consOut_ok _ _ _ _ hp
                subst hbs
                simp only [List.length_append, zeros_length]
                have := ih rd' rest' (len + pad) vs bs1 vs' n hx hb1 hs
                omega
              | false =>
                simp only [Bool.false_eq_true, if_false, Bool.false_or] at hp hx hs
                cases hb : packBody rd.endian body vs with
                | error e => simp [hb] at hp
                | ok r2 =>
                  obtain ⟨w, vs1⟩ := r2
                  simp only [hb] at hp
                  obtain ⟨bs1, hb1, hbs⟩ := consOut_ok _ _ _ _ hp
                  subst hbs
                  simp only [List.length_append, zeros_length]
                  cases h2 : sizeInc (len + pad) (bodySize body) with
                  | error e => simp [h2] at hs
                  | ok size2 =>
                    have e2 := sizeInc_ok _ _ _ h2
                    subst e2
                    simp only [h2] at hs
                    by_cases hpb : body = .padByte
                    · subst hpb
                      simp only [beq_self_eq_true, if_true] at hx
                      have hw := packBody_length rd.endian .padByte vs vs1 w hb hz hl (.inl rfl)
                      simp only [packBody, Except.ok.injEq, Prod.mk.injEq] at hb
                      rw [← hb.2] at hb1
                      rw [← hw] at hs
                      have := ih rd' rest' (len + pad + w.length) vs bs1 vs' n hx hb1 hs
                      omega
                    · have hne : (body == Body.padByte) = false := by simpa using hpb
                      simp only [hne, Bool.false_eq_true, if_false] at hx
                      cases vs with
                      | nil => simp at hx
                      | cons v vt =>
                        simp only [Bool.and_eq_true] at hx
                        have hw := packBody_length rd.endian body (v :: vt) vs1 w hb hz hl (.inr ⟨v, vt, rfl, hx.1⟩)
                        obtain ⟨hv1, _⟩ := unpackBody_packBody rd.endian body v vt vs1 w [] hb hx.1
                        subst hv1
                        rw [← hw] at hs
                        have := ih rd' rest' (len + pad + w.length) vs1 bs1 vs' n hx.2 hb1 hs
                        omega

end GoluaVerif.Model.Pack
