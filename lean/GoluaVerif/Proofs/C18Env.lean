/-
  Proofs.C18Env — relative to the environment assumption (`Disciplined`): while only the
  pending path is used, no object sharing a key with a value queued for finalisation is still
  referenced by the program.
-/
import GoluaVerif.Proofs.C18Owed
namespace GoluaVerif.Proofs.C18
open GoluaVerif.Spec.Gc GoluaVerif.Model.ClonePool GoluaVerif.Model

theorem handedOut_append (a b : List TEv) : handedOut (a ++ b) = handedOut a ++ handedOut b := by
  induction a with
  | nil => rfl
  | cons e t ih => cases e <;> simp [handedOut, ih]

theorem handedOut_finEvs (k : Kind) (l : List Entry) : handedOut (finEvs k l) = l.map (·.val) := by
  induction l with
  | nil => rfl
  | cons e t ih => simp_all [finEvs, handedOut]

theorem handedOut_relEvs (k : Kind) (l : List Entry) : handedOut (relEvs k l) = [] := by
  induction l with
  | nil => rfl
  | cons e t ih => simp_all [relEvs, handedOut]

theorem handedOut_skipEvs (l : List Entry) : handedOut (skipEvs l) = [] := by
  induction l with
  | nil => rfl
  | cons e t ih => simp_all [skipEvs, handedOut]

theorem handedOut_of_nofin {ext : List TEv} (h : finOrders ext = []) : handedOut ext = [] := by
  induction ext with
  | nil => rfl
  | cons e t ih =>
    cases e with
    | fin _ _ _ => simp [finOrders] at h
    | mark _ _ _ _ => exact ih (by simpa [finOrders] using h)
    | unmark _ => exact ih (by simpa [finOrders] using h)
    | fired _ => exact ih (by simpa [finOrders] using h)
    | rel _ _ _ => exact ih (by simpa [finOrders] using h)
    | skip _ _ => exact ih (by simpa [finOrders] using h)

theorem register_goReg (p : Pool) (o : Obj) :
    (∀ x ∈ (register p o).goReg, x ∈ p.goReg ∨ x = o) ∧ (p.goReg.Nodup → (register p o).goReg.Nodup) := by
  unfold register
  split
  · exact ⟨fun x hx => Or.inl hx, id⟩
  · rename_i hc
    refine ⟨fun x hx => ?_, fun hn => ?_⟩
    · rcases List.mem_cons.mp hx with h | h
      · exact Or.inr h
      · exact Or.inl h
    · exact List.nodup_cons.mpr ⟨by simpa using hc, hn⟩

theorem registerNew_goReg (p : Pool) (o : Obj) :
    (∀ x ∈ (registerNew p o).goReg, x ∈ p.goReg ∨ x = o) ∧ (p.goReg.Nodup → (registerNew p o).goReg.Nodup) := by
  obtain ⟨h1, h2⟩ := register_goReg (clearFinalizer p o) o
  refine ⟨fun x hx => ?_, fun hn => h2 (hn.filter _)⟩
  rcases h1 x hx with h | h
  · exact Or.inl (List.mem_filter.mp h).1
  · exact Or.inr h

theorem mark_goReg (p : Pool) (o : Obj) (f r : Bool) :
    (∀ x ∈ (ClonePool.mark p o f r).goReg, x ∈ p.goReg ∨ x = o) ∧
    (p.goReg.Nodup → (ClonePool.mark p o f r).goReg.Nodup) := by
  unfold ClonePool.mark
  split
  · split
    · exact ⟨fun x hx => Or.inl hx, id⟩
    · split
      · exact ⟨fun x hx => Or.inl hx, id⟩
      · exact ⟨fun x hx => Or.inl (List.mem_of_mem_erase hx), fun hn => hn.erase o⟩
  · split
    · exact registerNew_goReg p o
    · show (∀ x ∈ (if (regLookup _ o.key).isNone = true then registerNew p o else p).goReg, _) ∧
        (_ → (if (regLookup _ o.key).isNone = true then registerNew p o else p).goReg.Nodup)
      split
      · exact registerNew_goReg p o
      · exact ⟨fun x hx => Or.inl hx, id⟩

theorem fire_goReg (p : Pool) (o : Obj) (ho : o ∈ p.goReg) : (ClonePool.fire p o).goReg = p.goReg.erase o := by
  have hc : p.goReg.contains o = true := by simpa using ho
  unfold ClonePool.fire
  simp only [hc, Bool.true_eq_false, if_false]
  split
  · rfl
  · split
    · rfl
    · split <;> rfl

theorem fire_noop (p : Pool) (o : Obj) (ho : o ∉ p.goReg) : ClonePool.fire p o = p := by
  unfold ClonePool.fire
  simp only [List.contains_eq_mem]
  rw [if_pos (by simpa using ho)]

theorem fire_pf (p : Pool) (o : Obj) :
    (ClonePool.fire p o).pf = p.pf ∨ ∃ e, (ClonePool.fire p o).pf = p.pf ++ [e] ∧ e.val.key = o.key := by
  unfold ClonePool.fire
  split
  · exact Or.inl rfl
  · split
    · exact Or.inl rfl
    · split
      · exact Or.inl rfl
      · rename_i e hlook
        split
        · exact Or.inr ⟨e, rfl, (regLookup_mem hlook).2⟩
        · exact Or.inl rfl

theorem foldl_register_goReg (l : List Entry) (p : Pool) :
    (∀ x ∈ (l.foldl (fun q e => register q e.val) p).goReg, x ∈ p.goReg ∨ ∃ e ∈ l, x = e.val) ∧
    (p.goReg.Nodup → (l.foldl (fun q e => register q e.val) p).goReg.Nodup) := by
  induction l generalizing p with
  | nil => exact ⟨fun x hx => Or.inl hx, id⟩
  | cons e t ih =>
    obtain ⟨h1, h2⟩ := ih (register p e.val)
    obtain ⟨r1, r2⟩ := register_goReg p e.val
    refine ⟨fun x hx => ?_, fun hn => h2 (r2 hn)⟩
    rcases h1 x hx with h | ⟨e', he', hx'⟩
    · rcases r1 x h with h | h
      · exact Or.inl h
      · exact Or.inr ⟨e, by simp, h⟩
    · exact Or.inr ⟨e', by simp [he'], hx'⟩

theorem xPF_goReg (p : Pool) :
    (∀ x ∈ (ClonePool.xPF p).goReg, x ∈ p.goReg ∨ ∃ e ∈ p.pf, x = e.val) ∧
    (p.goReg.Nodup → (ClonePool.xPF p).goReg.Nodup) := by
  unfold ClonePool.xPF
  exact foldl_register_goReg p.pf { p with pf := [] }

/-- the environment invariant -/
structure J (w : World) : Prop where
  refsKey : ∀ x ∈ w.refs, ∀ y ∈ w.refs, x.key = y.key → x = y
  pfRefs : ∀ e ∈ w.pool.pf, ∀ x ∈ w.refs, x.key ≠ e.val.key
  regRefs : ∀ o ∈ w.pool.goReg, ∀ x ∈ w.refs, o.key = x.key → o = x
  pfReg : ∀ e ∈ w.pool.pf, ∀ o ∈ w.pool.goReg, o.key ≠ e.val.key
  regKey : ∀ x ∈ w.pool.goReg, ∀ y ∈ w.pool.goReg, x.key = y.key → x = y
  regNodup : w.pool.goReg.Nodup
  pfKeys : w.pool.pf.Pairwise (fun a b => a.val.key ≠ b.val.key)

theorem J.init : J {} := by
  constructor <;> simp

/-- a pool step that hands nothing out, queues nothing new and registers nothing new -/
theorem J.quiet {w : World} (h : J w) (q : Pool) (ext : List TEv)
    (htr : q.tr = w.pool.tr ++ ext) (hf : finOrders ext = [])
    (hpf : ∀ e ∈ q.pf, e ∈ w.pool.pf) (hpfs : q.pf.Sublist w.pool.pf) (hgo : q.goReg = w.pool.goReg) :
    J { pool := q, refs := handedOut (q.tr.drop w.pool.tr.length) ++ w.refs } := by
  have hh : handedOut (q.tr.drop w.pool.tr.length) = [] := by
    rw [htr, List.drop_left]; exact handedOut_of_nofin hf
  rw [hh, List.nil_append]
  exact ⟨h.refsKey, fun e he => h.pfRefs e (hpf e he), by rw [hgo]; exact h.regRefs,
    fun e he => by rw [hgo]; exact h.pfReg e (hpf e he), by rw [hgo]; exact h.regKey, by rw [hgo]; exact h.regNodup,
    h.pfKeys.sublist hpfs⟩


theorem use_fatal {p : Pool} (h : p.fatal = true) (u : Use) : ClonePool.use p u = p := by
  unfold ClonePool.use; simp [h]

theorem pfKeys_inj {l : List Entry} (h : l.Pairwise (fun a b => a.val.key ≠ b.val.key)) {x y : Entry}
    (hx : x ∈ l) (hy : y ∈ l) (hxy : x.val.key = y.val.key) : x = y := keys_inj h hx hy hxy

/-- marking: the program holds `o` already, or `o` is a brand-new value -/
theorem J.mark {w : World} (h : J w) (o : Obj) (f r : Bool)
    (hd : w.refs.contains o = true ∨ keyFresh w o.key = true) :
    J (w.step (.use (.mark o f r))) := by
  -- facts about the pool step, whether or not the pool is already dead
  have facts : ∃ ext, (ClonePool.use w.pool (.mark o f r)).tr = w.pool.tr ++ ext ∧ finOrders ext = [] ∧
      (ClonePool.use w.pool (.mark o f r)).pf = w.pool.pf ∧
      (∀ x ∈ (ClonePool.use w.pool (.mark o f r)).goReg, x ∈ w.pool.goReg ∨ x = o) ∧
      (ClonePool.use w.pool (.mark o f r)).goReg.Nodup := by
    by_cases hf : w.pool.fatal = true
    · rw [use_fatal hf]; exact ⟨[], by simp, rfl, rfl, fun x hx => Or.inl hx, h.regNodup⟩
    · have hf' : w.pool.fatal = false := by simpa using hf
      rw [use_of_not_fatal hf']
      obtain ⟨ext, he, hfo, _, hpf⟩ := mark_ext w.pool o f r
      exact ⟨ext, he, hfo, hpf, (mark_goReg w.pool o f r).1, (mark_goReg w.pool o f r).2 h.regNodup⟩
  obtain ⟨ext, htr, hfo, hpf, hgo, hnd⟩ := facts
  have hh : handedOut ((ClonePool.use w.pool (.mark o f r)).tr.drop w.pool.tr.length) = [] := by
    rw [htr, List.drop_left]; exact handedOut_of_nofin hfo
  -- the new reference set
  have hrefs : ∀ x, x ∈ (if w.refs.contains o then w.refs else o :: w.refs) ↔ x = o ∨ x ∈ w.refs := by
    intro x
    split
    · rename_i hc
      have : o ∈ w.refs := by simpa using hc
      constructor
      · exact Or.inr
      · rintro (rfl | hx)
        · exact this
        · exact hx
    · exact List.mem_cons
  have hfreshR : ¬ (w.refs.contains o = true) → ∀ x ∈ w.refs, x.key ≠ o.key := by
    intro hn x hx
    rcases hd with hd | hd
    · exact absurd hd hn
    · unfold keyFresh at hd
      simp only [Bool.and_eq_true, List.all_eq_true, bne_iff_ne, ne_eq] at hd
      exact hd.1.1 x hx
  have hfreshG : ¬ (w.refs.contains o = true) → ∀ x ∈ w.pool.goReg, x.key ≠ o.key := by
    intro hn x hx
    rcases hd with hd | hd
    · exact absurd hd hn
    · unfold keyFresh at hd
      simp only [Bool.and_eq_true, List.all_eq_true, bne_iff_ne, ne_eq] at hd
      exact hd.1.2 x hx
  have hfreshP : ¬ (w.refs.contains o = true) → ∀ e ∈ w.pool.pf, e.val.key ≠ o.key := by
    intro hn x hx
    rcases hd with hd | hd
    · exact absurd hd hn
    · unfold keyFresh at hd
      simp only [Bool.and_eq_true, List.all_eq_true, bne_iff_ne, ne_eq] at hd
      exact hd.2 x hx
  have hheld : w.refs.contains o = true → o ∈ w.refs := by intro hc; simpa using hc
  show J { pool := ClonePool.use w.pool (.mark o f r),
           refs := handedOut ((ClonePool.use w.pool (.mark o f r)).tr.drop w.pool.tr.length) ++
             (if w.refs.contains o then w.refs else o :: w.refs) }
  rw [hh, List.nil_append]
  have hrk : ∀ x, (x = o ∨ x ∈ w.refs) → ∀ y, (y = o ∨ y ∈ w.refs) → x.key = y.key → x = y := by
    intro x hx y hy hxy
    by_cases hc : w.refs.contains o = true
    · have ho := hheld hc
      exact h.refsKey x (hx.elim (fun e => e ▸ ho) id) y (hy.elim (fun e => e ▸ ho) id) hxy
    · rcases hx with rfl | hx <;> rcases hy with rfl | hy
      · rfl
      · exact absurd hxy.symm (hfreshR hc y hy)
      · exact absurd hxy (hfreshR hc x hx)
      · exact h.refsKey x hx y hy hxy
  constructor
  · intro x hx y hy; exact hrk x ((hrefs x).mp hx) y ((hrefs y).mp hy)
  · intro e he x hx
    rw [hpf] at he
    rcases (hrefs x).mp hx with rfl | hx
    · by_cases hc : w.refs.contains x = true
      · exact h.pfRefs e he x (hheld hc)
      · exact fun hk => hfreshP hc e he hk.symm
    · exact h.pfRefs e he x hx
  · intro o' ho' x hx hk
    have hx' := (hrefs x).mp hx
    rcases hgo o' ho' with hg | rfl
    · rcases hx' with rfl | hx'
      · by_cases hc : w.refs.contains x = true
        · exact h.regRefs o' hg x (hheld hc) hk
        · exact absurd hk (hfreshG hc o' hg)
      · exact h.regRefs o' hg x hx' hk
    · exact hrk o' (Or.inl rfl) x hx' hk
  · intro e he o' ho'
    rw [hpf] at he
    rcases hgo o' ho' with hg | rfl
    · exact h.pfReg e he o' hg
    · by_cases hc : w.refs.contains o' = true
      · exact h.pfRefs e he o' (hheld hc)
      · exact fun hk => hfreshP hc e he hk.symm
  · intro x hx y hy hk
    rcases hgo x hx with hgx | rfl <;> rcases hgo y hy with hgy | rfl
    · exact h.regKey x hgx y hgy hk
    · by_cases hc : w.refs.contains y = true
      · exact h.regRefs x hgx y (hheld hc) hk
      · exact absurd hk (hfreshG hc x hgx)
    · by_cases hc : w.refs.contains x = true
      · exact (h.regRefs y hgy x (hheld hc) hk.symm).symm
      · exact absurd hk.symm (hfreshG hc y hgy)
    · rfl
  · exact hnd
  · rw [hpf]; exact h.pfKeys


theorem J.drop {w : World} (h : J w) (o : Obj) : J (w.step (.drop o)) := by
  have hsub : ∀ x ∈ w.refs.filter (fun x => x != o), x ∈ w.refs := fun x hx => (List.mem_filter.mp hx).1
  show J { w with refs := w.refs.filter (fun x => x != o) }
  exact ⟨fun x hx y hy => h.refsKey x (hsub x hx) y (hsub y hy), fun e he x hx => h.pfRefs e he x (hsub x hx),
    fun o' ho' x hx => h.regRefs o' ho' x (hsub x hx), h.pfReg, h.regKey, h.regNodup, h.pfKeys⟩

theorem J.fire {w : World} (h : J w) (o : Obj) (hd : w.refs.contains o = false) :
    J (w.step (.use (.fire o))) := by
  have hno : o ∉ w.refs := by simpa using hd
  by_cases hq : ClonePool.use w.pool (.fire o) = w.pool
  · -- dead pool, or `o` carries no finaliser: nothing happens
    have := h.quiet w.pool [] (by simp) rfl (fun e he => he) (List.Sublist.refl _) rfl
    show J { pool := ClonePool.use w.pool (.fire o), refs := handedOut ((ClonePool.use w.pool (.fire o)).tr.drop w.pool.tr.length) ++ w.refs }
    rw [hq]; exact this
  · have hf' : w.pool.fatal = false := by
      by_cases hf : w.pool.fatal = true
      · exact absurd (use_fatal hf _) hq
      · simpa using hf
    have huse : ClonePool.use w.pool (.fire o) = ClonePool.fire w.pool o := by rw [use_of_not_fatal hf']
    have hog : o ∈ w.pool.goReg := by
      apply Classical.byContradiction
      intro hn; exact hq (huse.trans (fire_noop w.pool o hn))
    obtain ⟨ext, htr, hfo, _, _⟩ := fire_ext w.pool o
    have hgo := fire_goReg w.pool o hog
    have hh : handedOut ((ClonePool.fire w.pool o).tr.drop w.pool.tr.length) = [] := by
      rw [htr, List.drop_left]; exact handedOut_of_nofin hfo
    show J { pool := ClonePool.use w.pool (.fire o), refs := handedOut ((ClonePool.use w.pool (.fire o)).tr.drop w.pool.tr.length) ++ w.refs }
    rw [huse, hh, List.nil_append]
    have hsub : ∀ x ∈ (ClonePool.fire w.pool o).goReg, x ∈ w.pool.goReg ∧ x ≠ o := by
      intro x hx; rw [hgo] at hx
      exact ⟨List.mem_of_mem_erase hx, ((List.Nodup.mem_erase_iff h.regNodup).mp hx).1⟩
    -- no referenced object shares o's key
    have hkey : ∀ x ∈ w.refs, x.key ≠ o.key := fun x hx hk => hno ((h.regRefs o hog x hx hk.symm) ▸ hx)
    have hpfmem : ∀ e ∈ (ClonePool.fire w.pool o).pf, e ∈ w.pool.pf ∨ e.val.key = o.key := by
      intro e he
      rcases fire_pf w.pool o with hp | ⟨e', hp, hk⟩
      · rw [hp] at he; exact Or.inl he
      · rw [hp] at he
        rcases List.mem_append.mp he with h1 | h1
        · exact Or.inl h1
        · exact Or.inr ((List.mem_singleton.mp h1) ▸ hk)
    constructor
    · exact h.refsKey
    · intro e he x hx
      rcases hpfmem e he with h1 | h1
      · exact h.pfRefs e h1 x hx
      · rw [h1]; exact hkey x hx
    · intro o' ho' x hx; exact h.regRefs o' (hsub o' ho').1 x hx
    · intro e he o' ho'
      rcases hpfmem e he with h1 | h1
      · exact h.pfReg e h1 o' (hsub o' ho').1
      · rw [h1]; intro hk
        exact (hsub o' ho').2 (h.regKey o' (hsub o' ho').1 o hog hk)
    · intro x hx y hy; exact h.regKey x (hsub x hx).1 y (hsub y hy).1
    · rw [hgo]; exact h.regNodup.erase o
    · rcases fire_pf w.pool o with hp | ⟨e', hp, hk⟩
      · rw [hp]; exact h.pfKeys
      · rw [hp, List.pairwise_append]
        refine ⟨h.pfKeys, List.pairwise_singleton _ _, ?_⟩
        intro a ha b hb
        rw [List.mem_singleton.mp hb, hk]
        exact fun hk' => h.pfReg a ha o hog hk'.symm

/-- `ExtractPendingFinalize` (alone, or followed by `ExtractPendingRelease` as in `runPendingFinalizers`) -/
theorem J.pending {w : World} (h : J w) (q : Pool) (rels : List TEv) (hr : finOrders rels = [])
    (htr : q.tr = w.pool.tr ++ (finEvs .pf (sortDesc w.pool.pf) ++ rels)) (hpf : q.pf = [])
    (hgo : ∀ x ∈ q.goReg, x ∈ w.pool.goReg ∨ ∃ e ∈ w.pool.pf, x = e.val) (hnd : q.goReg.Nodup) :
    J { pool := q, refs := handedOut (q.tr.drop w.pool.tr.length) ++ w.refs } := by
  have hh : handedOut (q.tr.drop w.pool.tr.length) = (sortDesc w.pool.pf).map (·.val) := by
    rw [htr, List.drop_left, handedOut_append, handedOut_finEvs, handedOut_of_nofin hr, List.append_nil]
  rw [hh]
  have hmem : ∀ x, x ∈ (sortDesc w.pool.pf).map (·.val) ++ w.refs ↔ (∃ e ∈ w.pool.pf, x = e.val) ∨ x ∈ w.refs := by
    intro x
    rw [List.mem_append, List.mem_map]
    constructor
    · rintro (⟨e, he, rfl⟩ | hx)
      · exact Or.inl ⟨e, mem_sortDesc.mp he, rfl⟩
      · exact Or.inr hx
    · rintro (⟨e, he, rfl⟩ | hx)
      · exact Or.inl ⟨e, mem_sortDesc.mpr he, rfl⟩
      · exact Or.inr hx
  -- two objects among (handed-out clones ∪ old refs ∪ old registrations) with the same key coincide
  have clash : ∀ x y, ((∃ e ∈ w.pool.pf, x = e.val) ∨ x ∈ w.refs ∨ x ∈ w.pool.goReg) →
      ((∃ e ∈ w.pool.pf, y = e.val) ∨ y ∈ w.refs) → x.key = y.key → x = y := by
    intro x y hx hy hk
    rcases hx with ⟨e1, he1, rfl⟩ | hx | hx <;> rcases hy with ⟨e2, he2, rfl⟩ | hy
    · rw [pfKeys_inj h.pfKeys he1 he2 hk]
    · exact absurd hk.symm (h.pfRefs e1 he1 y hy)
    · exact absurd hk (h.pfRefs e2 he2 x hx)
    · exact h.refsKey x hx y hy hk
    · exact absurd hk (h.pfReg e2 he2 x hx)
    · exact h.regRefs x hx y hy hk
  constructor
  · intro x hx y hy hk
    rcases (hmem x).mp hx with h1 | h1
    · exact clash x y (Or.inl h1) ((hmem y).mp hy) hk
    · exact clash x y (Or.inr (Or.inl h1)) ((hmem y).mp hy) hk
  · intro e he; rw [hpf] at he; cases he
  · intro o' ho' x hx hk
    rcases hgo o' ho' with h1 | h1
    · exact clash o' x (Or.inr (Or.inr h1)) ((hmem x).mp hx) hk
    · exact clash o' x (Or.inl h1) ((hmem x).mp hx) hk
  · intro e he; rw [hpf] at he; cases he
  · intro x hx y hy hk
    rcases hgo y hy with h2 | h2
    · rcases hgo x hx with h1 | ⟨e1, he1, rfl⟩
      · exact h.regKey x h1 y h2 hk
      · exact absurd hk.symm (h.pfReg e1 he1 y h2)
    · rcases hgo x hx with h1 | h1
      · exact clash x y (Or.inr (Or.inr h1)) (Or.inl h2) hk
      · exact clash x y (Or.inl h1) (Or.inl h2) hk
  · exact hnd
  · rw [hpf]; exact List.Pairwise.nil

theorem J.step {w : World} (h : J w) (e : WEv) (hd : discEv w e = true) : J (w.step e) := by
  cases e with
  | drop o => exact h.drop o
  | use u =>
    by_cases hf : w.pool.fatal = true
    · -- a dead pool does nothing; only the reference set can change (mark)
      cases u with
      | mark o f r =>
        refine h.mark o f r ?_
        have hd' : o ∈ w.refs ∨ o.clone = false ∧ keyFresh w o.key = true := by simpa [discEv] using hd
        rcases hd' with h1 | h1
        · exact Or.inl (by simpa using h1)
        · exact Or.inr h1.2
      | fire o => exact h.fire o (by simpa [discEv] using hd)
      | xAF => simp [discEv] at hd
      | finAll => simp [discEv] at hd
      | xPF => have := h.quiet w.pool [] (by simp) rfl (fun e he => he) (List.Sublist.refl _) rfl
               show J { pool := ClonePool.use w.pool .xPF, refs := _ ++ w.refs }; rw [use_fatal hf]; exact this
      | xPR => have := h.quiet w.pool [] (by simp) rfl (fun e he => he) (List.Sublist.refl _) rfl
               show J { pool := ClonePool.use w.pool .xPR, refs := _ ++ w.refs }; rw [use_fatal hf]; exact this
      | xAR => have := h.quiet w.pool [] (by simp) rfl (fun e he => he) (List.Sublist.refl _) rfl
               show J { pool := ClonePool.use w.pool .xAR, refs := _ ++ w.refs }; rw [use_fatal hf]; exact this
      | step => have := h.quiet w.pool [] (by simp) rfl (fun e he => he) (List.Sublist.refl _) rfl
                show J { pool := ClonePool.use w.pool .step, refs := _ ++ w.refs }; rw [use_fatal hf]; exact this
      | popRel => have := h.quiet w.pool [] (by simp) rfl (fun e he => he) (List.Sublist.refl _) rfl
                  show J { pool := ClonePool.use w.pool .popRel, refs := _ ++ w.refs }; rw [use_fatal hf]; exact this
    · have hf' : w.pool.fatal = false := by simpa using hf
      cases u with
      | mark o f r =>
        refine h.mark o f r ?_
        have hd' : o ∈ w.refs ∨ o.clone = false ∧ keyFresh w o.key = true := by simpa [discEv] using hd
        rcases hd' with h1 | h1
        · exact Or.inl (by simpa using h1)
        · exact Or.inr h1.2
      | fire o => exact h.fire o (by simpa [discEv] using hd)
      | xAF => simp [discEv] at hd
      | finAll => simp [discEv] at hd
      | xPF =>
        obtain ⟨h1, h2, _⟩ := xPF_tr w.pool
        have := h.pending (ClonePool.xPF w.pool) [] rfl (by simpa using h1) h2 (xPF_goReg w.pool).1
          ((xPF_goReg w.pool).2 h.regNodup)
        show J { pool := ClonePool.use w.pool .xPF, refs := _ ++ w.refs }
        rw [use_of_not_fatal hf']; exact this
      | step =>
        obtain ⟨h1, h2, _⟩ := xPF_tr w.pool
        have := h.pending (ClonePool.xPR (ClonePool.xPF w.pool)) (relEvs .pr (sortDesc (ClonePool.xPF w.pool).pr))
          (finOrders_relEvs _ _)
          (by show (ClonePool.xPF w.pool).tr ++ _ = _; rw [h1, List.append_assoc])
          (by show (ClonePool.xPF w.pool).pf = []; exact h2) (xPF_goReg w.pool).1 ((xPF_goReg w.pool).2 h.regNodup)
        show J { pool := ClonePool.use w.pool .step, refs := _ ++ w.refs }
        rw [use_of_not_fatal hf']; exact this
      | xPR =>
        have := h.quiet (ClonePool.xPR w.pool) (relEvs .pr (sortDesc w.pool.pr)) rfl (finOrders_relEvs _ _)
          (fun e he => he) (List.Sublist.refl _) rfl
        show J { pool := ClonePool.use w.pool .xPR, refs := _ ++ w.refs }
        rw [use_of_not_fatal hf']; exact this
      | xAR =>
        have := h.quiet (ClonePool.xAR w.pool) (relEvs .ar (arOut w.pool)) rfl (finOrders_relEvs _ _)
          (fun e he => he) (List.Sublist.refl _) rfl
        show J { pool := ClonePool.use w.pool .xAR, refs := _ ++ w.refs }
        rw [use_of_not_fatal hf']; exact this
      | popRel =>
        have htr := popRel_tr hf'
        have := h.quiet (ClonePool.use w.pool .popRel) _ htr
          (by rw [finOrders_append, finOrders_skipEvs, finOrders_relEvs]; rfl)
          (fun e he => by rw [use_of_not_fatal hf'] at he; simp [ClonePool.xAR, ClonePool.skipAF, afState] at he)
          (by rw [use_of_not_fatal hf']; simp [ClonePool.xAR, ClonePool.skipAF, afState])
          (by rw [use_of_not_fatal hf']; simp [ClonePool.xAR, ClonePool.skipAF, afState])
        exact this

theorem J.run_from {w : World} (h : J w) (es : List WEv) (hd : discFrom w es = true) : J (es.foldl World.step w) := by
  induction es generalizing w with
  | nil => exact h
  | cons e t ih =>
    simp only [discFrom, Bool.and_eq_true] at hd
    exact ih (h.step e hd.1) hd.2

theorem J.run (es : List WEv) (hd : Disciplined es = true) : J (World.run es) := J.init.run_from es hd

end GoluaVerif.Proofs.C18
