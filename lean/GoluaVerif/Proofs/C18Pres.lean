/-
  Proofs.C18Pres — every pool operation preserves `Inv`.
-/
import GoluaVerif.Proofs.C18Inv
namespace GoluaVerif.Proofs.C18
open GoluaVerif.Spec.Gc GoluaVerif.Model.ClonePool

theorem Inv.of_sub {p q : Pool} (hi : Inv p)
    (hreg : (regL q).Sublist (regL p)) (hlast : q.last = p.last) (hpf : q.pf = p.pf) (hpr : q.pr = p.pr)
    (hfin : finOrders q.tr = finOrders p.tr) (hrel : relOrders q.tr = relOrders p.tr) : Inv q := by
  have hs := hreg.subset
  constructor
  · intro e he; rw [hlast]; exact hi.regLe e (hs he)
  · exact hi.regAsc.sublist hreg
  · intro e he; rw [hlast]; rw [hpf] at he; exact hi.pfLe e he
  · intro e he; rw [hlast]; rw [hpr] at he; exact hi.prLe e he
  · intro n hn; rw [hlast]; rw [hfin] at hn; exact hi.finLe n hn
  · intro n hn; rw [hlast]; rw [hrel] at hn; exact hi.relLe n hn
  · rw [hfin]; exact hi.finNodup
  · rw [hpf]; exact hi.pfNodup
  · intro e he; rw [hfin]; rw [hpf] at he; exact hi.pfFresh e he
  · intro e he hf; rw [hfin, hpf]; exact hi.regFresh e (hs he) hf
  · rw [hrel]; exact hi.relNodup
  · rw [hpr]; exact hi.prNodup
  · intro e he; rw [hrel]; rw [hpr] at he; exact hi.prFresh e he
  · intro e he; rw [hrel, hpr]; exact hi.regRel e (hs he)

theorem finOrders_snoc_other {tr : List TEv} {e : TEv} (h : finOrders [e] = []) :
    finOrders (tr ++ [e]) = finOrders tr := by
  rw [finOrders_append, h, List.append_nil]

theorem relOrders_snoc_other {tr : List TEv} {e : TEv} (h : relOrders [e] = []) :
    relOrders (tr ++ [e]) = relOrders tr := by
  rw [relOrders_append, h, List.append_nil]

theorem regL_of_some {p : Pool} {rg : List Entry} (h : p.reg = some rg) : regL p = rg := by
  unfold regL; rw [h]; rfl

theorem regL_of_none {p : Pool} (h : p.reg = none) : regL p = [] := by
  unfold regL; rw [h]; rfl

theorem Inv.mark {p : Pool} (hi : Inv p) (o : Obj) (f r : Bool) : Inv (mark p o f r) := by
  unfold GoluaVerif.Model.ClonePool.mark
  split
  · -- unmark
    split
    · exact hi
    · rename_i rg hreg
      split
      · exact hi
      · refine hi.of_sub ?_ rfl rfl rfl ?_ ?_
        · show (regErase rg o.key).Sublist (regL p)
          rw [regL_of_some hreg]; exact List.filter_sublist
        · exact finOrders_snoc_other rfl
        · exact relOrders_snoc_other rfl
  · split
    · -- nil register: the assignment panics after lastMarkOrder++
      rename_i hreg
      have hr : regL p = [] := regL_of_none hreg
      constructor
      · intro e he; simp [regL, hreg] at he
      · simp [regL, hreg]
      · intro e he; have := hi.pfLe e (by simpa using he); simp; omega
      · intro e he; have := hi.prLe e (by simpa using he); simp; omega
      · intro n hn; have := hi.finLe n (by simpa using hn); simp; omega
      · intro n hn; have := hi.relLe n (by simpa using hn); simp; omega
      · simpa using hi.finNodup
      · simpa using hi.pfNodup
      · intro e he; simpa using hi.pfFresh e (by simpa using he)
      · intro e he; simp [regL, hreg] at he
      · simpa using hi.relNodup
      · simpa using hi.prNodup
      · intro e he; simpa using hi.prFresh e (by simpa using he)
      · intro e he; simp [regL, hreg] at he
    · rename_i rg hreg
      have hr : regL p = rg := regL_of_some hreg
      -- the pool the new entry is written into: only the Go finaliser table may differ from p
      generalize hp1 : (if (regLookup rg o.key).isNone = true then registerNew p o else p) = p1
      have hc : p1.reg = p.reg ∧ p1.last = p.last ∧ p1.pf = p.pf ∧ p1.pr = p.pr ∧ p1.tr = p.tr := by
        rw [← hp1]; split <;> simp
      obtain ⟨_, _, hpf, hpr, htr⟩ := hc
      have hfin : finOrders (p1.tr ++ [TEv.mark o.key (p.last + 1) f r]) = finOrders p.tr := by
        rw [htr]; exact finOrders_snoc_other rfl
      have hrel : relOrders (p1.tr ++ [TEv.mark o.key (p.last + 1) f r]) = relOrders p.tr := by
        rw [htr]; exact relOrders_snoc_other rfl
      have hmem : ∀ x, x ∈ regErase rg o.key ++ [({ val := { key := o.key, id := p.last + 1, clone := true, pool := p.pid }, order := p.last + 1, fin := !f, rel := !r } : Entry)] →
          (x ∈ regL p) ∨ x.order = p.last + 1 := by
        intro x hx
        rcases List.mem_append.mp hx with hx | hx
        · left; rw [hr]; exact (mem_regErase hx).1
        · right; rw [List.mem_singleton.mp hx]
      constructor
      · intro e he
        rcases hmem e he with h | h
        · have := hi.regLe e h; show e.order ≤ p.last + 1; omega
        · show e.order ≤ p.last + 1; omega
      · show (regErase rg o.key ++ [_]).Pairwise _
        rw [List.pairwise_append]
        refine ⟨regErase_asc _ (hr ▸ hi.regAsc), List.pairwise_singleton _ _, ?_⟩
        intro a ha b hb
        rw [List.mem_singleton.mp hb]
        have := hi.regLe a (hr ▸ (mem_regErase ha).1)
        show a.order < p.last + 1; omega
      · intro e he; rw [hpf] at he; have := hi.pfLe e he; show e.order ≤ p.last + 1; omega
      · intro e he; rw [hpr] at he; have := hi.prLe e he; show e.order ≤ p.last + 1; omega
      · intro n hn; rw [hfin] at hn; have := hi.finLe n hn; show n ≤ p.last + 1; omega
      · intro n hn; rw [hrel] at hn; have := hi.relLe n hn; show n ≤ p.last + 1; omega
      · rw [hfin]; exact hi.finNodup
      · rw [hpf]; exact hi.pfNodup
      · intro e he; rw [hfin]; rw [hpf] at he; exact hi.pfFresh e he
      · intro e he hf
        rw [hfin, hpf]
        rcases hmem e he with h | h
        · exact hi.regFresh e h hf
        · constructor
          · intro hn; have := hi.finLe _ hn; omega
          · intro hn; obtain ⟨x, hx, hxo⟩ := mem_ords.mp hn; have := hi.pfLe x hx; omega
      · rw [hrel]; exact hi.relNodup
      · rw [hpr]; exact hi.prNodup
      · intro e he; rw [hrel]; rw [hpr] at he; exact hi.prFresh e he
      · intro e he
        rw [hrel, hpr]
        rcases hmem e he with h | h
        · exact hi.regRel e h
        · constructor
          · intro hn; have := hi.relLe _ hn; omega
          · intro hn; obtain ⟨x, hx, hxo⟩ := mem_ords.mp hn; have := hi.prLe x hx; omega


theorem Inv.fire {p : Pool} (hi : Inv p) (o : Obj) : Inv (fire p o) := by
  unfold GoluaVerif.Model.ClonePool.fire
  split
  · exact hi
  · have hf1 : finOrders (p.tr ++ [TEv.fired o]) = finOrders p.tr := finOrders_snoc_other rfl
    have hr1 : relOrders (p.tr ++ [TEv.fired o]) = relOrders p.tr := relOrders_snoc_other rfl
    split
    · exact hi.of_sub (List.Sublist.refl _) rfl rfl rfl hf1 hr1
    · rename_i rg hreg
      have hr : regL p = rg := regL_of_some hreg
      split
      · refine hi.of_sub ?_ rfl rfl rfl hf1 hr1
        show (regL { p with goReg := p.goReg.erase o, tr := p.tr ++ [TEv.fired o] }).Sublist (regL p)
        exact List.Sublist.refl _
      · rename_i e hlook
        obtain ⟨hemem, hekey⟩ := regLookup_mem hlook
        have he : e ∈ regL p := hr ▸ hemem
        split
        · -- not yet finalised: queue it and flag it
          rename_i hfin
          have hfresh := hi.regFresh e he hfin
          constructor
          · intro x hx
            obtain ⟨y, hy, hxy, _⟩ := mem_setFin (show x ∈ setFin rg o.key from hx)
            rw [hxy]; exact hi.regLe y (hr ▸ hy)
          · exact setFin_asc _ (hr ▸ hi.regAsc)
          · intro x hx
            rcases List.mem_append.mp (show x ∈ p.pf ++ [e] from hx) with hx | hx
            · exact hi.pfLe x hx
            · rw [List.mem_singleton.mp hx]; exact hi.regLe e he
          · exact hi.prLe
          · intro n hn; exact hi.finLe n (hf1 ▸ hn)
          · intro n hn; exact hi.relLe n (hr1 ▸ hn)
          · show (finOrders (p.tr ++ [TEv.fired o])).Nodup
            rw [hf1]; exact hi.finNodup
          · show (ords (p.pf ++ [e])).Nodup
            unfold ords; rw [List.map_append, List.nodup_append]
            refine ⟨hi.pfNodup, by simp, ?_⟩
            intro a ha b hb
            simp only [List.map_cons, List.map_nil, List.mem_singleton] at hb
            rw [hb]; intro hab; exact hfresh.2 (hab ▸ ha)
          · intro x hx
            show x.order ∉ finOrders (p.tr ++ [TEv.fired o])
            rw [hf1]
            rcases List.mem_append.mp (show x ∈ p.pf ++ [e] from hx) with hx | hx
            · exact hi.pfFresh x hx
            · rw [List.mem_singleton.mp hx]; exact hfresh.1
          · intro x hx hxf
            obtain ⟨y, hy, _, hsame⟩ := mem_setFin (show x ∈ setFin rg o.key from hx)
            obtain ⟨hxy, hyk⟩ := hsame hxf
            have hy' : y ∈ regL p := hr ▸ hy
            have hold := hi.regFresh y hy' (hxy ▸ hxf)
            show x.order ∉ finOrders (p.tr ++ [TEv.fired o]) ∧ x.order ∉ ords (p.pf ++ [e])
            rw [hf1, hxy]
            refine ⟨hold.1, ?_⟩
            intro hn
            obtain ⟨z, hz, hzo⟩ := mem_ords.mp hn
            rcases List.mem_append.mp hz with hz | hz
            · exact hold.2 (mem_ords.mpr ⟨z, hz, hzo⟩)
            · rw [List.mem_singleton.mp hz] at hzo
              have : e = y := asc_inj hi.regAsc he hy' hzo
              exact hyk (this ▸ hekey)
          · show (relOrders (p.tr ++ [TEv.fired o])).Nodup
            rw [hr1]; exact hi.relNodup
          · exact hi.prNodup
          · intro x hx
            show x.order ∉ relOrders (p.tr ++ [TEv.fired o])
            rw [hr1]; exact hi.prFresh x hx
          · intro x hx
            obtain ⟨y, hy, hxy, _⟩ := mem_setFin (show x ∈ setFin rg o.key from hx)
            show x.order ∉ relOrders (p.tr ++ [TEv.fired o]) ∧ x.order ∉ ords p.pr
            rw [hr1, hxy]; exact hi.regRel y (hr ▸ hy)
        · -- already finalised (or not wanted): queue for release if wanted, forget the entry
          have hrelr := hi.regRel e he
          have hsubl : (regErase rg o.key).Sublist (regL p) := hr ▸ List.filter_sublist
          have hprmem : ∀ x, x ∈ (if e.rel = false then p.pr ++ [e] else p.pr) → x ∈ p.pr ∨ x = e := by
            intro x hx
            split at hx
            · rcases List.mem_append.mp hx with h | h
              · exact Or.inl h
              · exact Or.inr (List.mem_singleton.mp h)
            · exact Or.inl hx
          constructor
          · intro x hx; exact hi.regLe x (hsubl.subset hx)
          · exact hi.regAsc.sublist hsubl
          · exact hi.pfLe
          · intro x hx
            rcases hprmem x hx with h | h
            · exact hi.prLe x h
            · rw [h]; exact hi.regLe e he
          · intro n hn; exact hi.finLe n (hf1 ▸ hn)
          · intro n hn; exact hi.relLe n (hr1 ▸ hn)
          · show (finOrders (p.tr ++ [TEv.fired o])).Nodup
            rw [hf1]; exact hi.finNodup
          · exact hi.pfNodup
          · intro x hx
            show x.order ∉ finOrders (p.tr ++ [TEv.fired o])
            rw [hf1]; exact hi.pfFresh x hx
          · intro x hx hxf
            show x.order ∉ finOrders (p.tr ++ [TEv.fired o]) ∧ x.order ∉ ords p.pf
            rw [hf1]; exact hi.regFresh x (hsubl.subset hx) hxf
          · show (relOrders (p.tr ++ [TEv.fired o])).Nodup
            rw [hr1]; exact hi.relNodup
          · show (ords (if e.rel = false then p.pr ++ [e] else p.pr)).Nodup
            split
            · unfold ords; rw [List.map_append, List.nodup_append]
              refine ⟨hi.prNodup, by simp, ?_⟩
              intro a ha b hb
              simp only [List.map_cons, List.map_nil, List.mem_singleton] at hb
              rw [hb]; intro hab; exact hrelr.2 (hab ▸ ha)
            · exact hi.prNodup
          · intro x hx
            show x.order ∉ relOrders (p.tr ++ [TEv.fired o])
            rw [hr1]
            rcases hprmem x hx with h | h
            · exact hi.prFresh x h
            · rw [h]; exact hrelr.1
          · intro x hx
            have hxm := mem_regErase (show x ∈ regErase rg o.key from hx)
            have hx' : x ∈ regL p := hr ▸ hxm.1
            show x.order ∉ relOrders (p.tr ++ [TEv.fired o]) ∧ x.order ∉ ords (if e.rel = false then p.pr ++ [e] else p.pr)
            rw [hr1]
            refine ⟨(hi.regRel x hx').1, ?_⟩
            intro hn
            obtain ⟨z, hz, hzo⟩ := mem_ords.mp hn
            rcases hprmem z hz with h | h
            · exact (hi.regRel x hx').2 (mem_ords.mpr ⟨z, h, hzo⟩)
            · rw [h] at hzo
              have : e = x := asc_inj hi.regAsc he hx' hzo
              exact hxm.2 (this ▸ hekey)


theorem nodup_append_of {a b : List Nat} (ha : a.Nodup) (hb : b.Nodup) (hd : ∀ n ∈ b, n ∉ a) :
    (a ++ b).Nodup := by
  rw [List.nodup_append]
  refine ⟨ha, hb, ?_⟩
  intro x hx y hy hxy
  exact hd y hy (hxy ▸ hx)

theorem mem_ords_sortDesc {l : List Entry} {n : Nat} : n ∈ ords (sortDesc l) ↔ n ∈ ords l :=
  (ords_sortDesc_perm l).mem_iff

theorem nodup_ords_sortDesc {l : List Entry} : (ords (sortDesc l)).Nodup ↔ (ords l).Nodup :=
  (ords_sortDesc_perm l).nodup_iff

theorem Inv.xPF {p : Pool} (hi : Inv p) : Inv (xPF p) := by
  unfold GoluaVerif.Model.ClonePool.xPF
  obtain ⟨h1, h2, h3, h4, h5, _, _⟩ := foldl_register_core p.pf { p with pf := [] }
  generalize (p.pf.foldl (fun q e => register q e.val) { p with pf := [] }) = p1 at *
  simp only at h1 h2 h3 h4 h5
  have hrl : regL { p1 with tr := p1.tr ++ finEvs .pf (sortDesc p.pf) } = regL p := by
    unfold regL; simp [h1]
  have hfin : finOrders (p1.tr ++ finEvs .pf (sortDesc p.pf)) = finOrders p.tr ++ ords (sortDesc p.pf) := by
    rw [finOrders_append, finOrders_finEvs, h5]
  have hrel : relOrders (p1.tr ++ finEvs .pf (sortDesc p.pf)) = relOrders p.tr := by
    rw [relOrders_append, relOrders_finEvs, h5, List.append_nil]
  constructor
  · intro e he; rw [hrl] at he; show e.order ≤ p1.last; rw [h2]; exact hi.regLe e he
  · rw [hrl]; exact hi.regAsc
  · intro e he; rw [show ({ p1 with tr := _ } : Pool).pf = p1.pf from rfl, h3] at he; cases he
  · intro e he; rw [show ({ p1 with tr := _ } : Pool).pr = p1.pr from rfl, h4] at he
    show e.order ≤ p1.last; rw [h2]; exact hi.prLe e he
  · intro n hn
    show n ≤ p1.last; rw [h2]
    rw [show ({ p1 with tr := p1.tr ++ finEvs .pf (sortDesc p.pf) } : Pool).tr = _ from rfl, hfin] at hn
    rcases List.mem_append.mp hn with h | h
    · exact hi.finLe n h
    · obtain ⟨x, hx, hxo⟩ := mem_ords.mp (mem_ords_sortDesc.mp h)
      rw [← hxo]; exact hi.pfLe x hx
  · intro n hn
    show n ≤ p1.last; rw [h2]
    rw [show ({ p1 with tr := p1.tr ++ finEvs .pf (sortDesc p.pf) } : Pool).tr = _ from rfl, hrel] at hn
    exact hi.relLe n hn
  · show (finOrders (p1.tr ++ finEvs .pf (sortDesc p.pf))).Nodup
    rw [hfin]
    refine nodup_append_of hi.finNodup (nodup_ords_sortDesc.mpr hi.pfNodup) ?_
    intro n hn
    obtain ⟨x, hx, hxo⟩ := mem_ords.mp (mem_ords_sortDesc.mp hn)
    rw [← hxo]; exact hi.pfFresh x hx
  · show (ords p1.pf).Nodup; rw [h3]; exact List.nodup_nil
  · intro e he; rw [show ({ p1 with tr := _ } : Pool).pf = p1.pf from rfl, h3] at he; cases he
  · intro e he hf
    rw [hrl] at he
    have := hi.regFresh e he hf
    show e.order ∉ finOrders (p1.tr ++ finEvs .pf (sortDesc p.pf)) ∧ e.order ∉ ords p1.pf
    rw [hfin, h3]
    refine ⟨?_, by simp [ords]⟩
    intro hn
    rcases List.mem_append.mp hn with h | h
    · exact this.1 h
    · exact this.2 (mem_ords_sortDesc.mp h)
  · show (relOrders (p1.tr ++ finEvs .pf (sortDesc p.pf))).Nodup
    rw [hrel]; exact hi.relNodup
  · show (ords p1.pr).Nodup; rw [h4]; exact hi.prNodup
  · intro e he; rw [show ({ p1 with tr := _ } : Pool).pr = p1.pr from rfl, h4] at he
    show e.order ∉ relOrders (p1.tr ++ finEvs .pf (sortDesc p.pf))
    rw [hrel]; exact hi.prFresh e he
  · intro e he
    rw [hrl] at he
    show e.order ∉ relOrders (p1.tr ++ finEvs .pf (sortDesc p.pf)) ∧ e.order ∉ ords p1.pr
    rw [hrel, h4]; exact hi.regRel e he

theorem Inv.xPR {p : Pool} (hi : Inv p) : Inv (xPR p) := by
  unfold GoluaVerif.Model.ClonePool.xPR
  have hfin : finOrders (p.tr ++ relEvs .pr (sortDesc p.pr)) = finOrders p.tr := by
    rw [finOrders_append, finOrders_relEvs, List.append_nil]
  have hrel : relOrders (p.tr ++ relEvs .pr (sortDesc p.pr)) = relOrders p.tr ++ ords (sortDesc p.pr) := by
    rw [relOrders_append, relOrders_relEvs]
  constructor
  · exact hi.regLe
  · exact hi.regAsc
  · exact hi.pfLe
  · intro e he; cases he
  · intro n hn; exact hi.finLe n (hfin ▸ hn)
  · intro n hn
    rw [show ({ p with pr := [], tr := p.tr ++ relEvs .pr (sortDesc p.pr) } : Pool).tr = _ from rfl, hrel] at hn
    rcases List.mem_append.mp hn with h | h
    · exact hi.relLe n h
    · obtain ⟨x, hx, hxo⟩ := mem_ords.mp (mem_ords_sortDesc.mp h)
      rw [← hxo]; exact hi.prLe x hx
  · show (finOrders (p.tr ++ relEvs .pr (sortDesc p.pr))).Nodup
    rw [hfin]; exact hi.finNodup
  · exact hi.pfNodup
  · intro e he
    show e.order ∉ finOrders (p.tr ++ relEvs .pr (sortDesc p.pr))
    rw [hfin]; exact hi.pfFresh e he
  · intro e he hf
    show e.order ∉ finOrders (p.tr ++ relEvs .pr (sortDesc p.pr)) ∧ e.order ∉ ords p.pf
    rw [hfin]; exact hi.regFresh e he hf
  · show (relOrders (p.tr ++ relEvs .pr (sortDesc p.pr))).Nodup
    rw [hrel]
    refine nodup_append_of hi.relNodup (nodup_ords_sortDesc.mpr hi.prNodup) ?_
    intro n hn
    obtain ⟨x, hx, hxo⟩ := mem_ords.mp (mem_ords_sortDesc.mp hn)
    rw [← hxo]; exact hi.prFresh x hx
  · exact List.nodup_nil
  · intro e he; cases he
  · intro e he
    have := hi.regRel e he
    show e.order ∉ relOrders (p.tr ++ relEvs .pr (sortDesc p.pr)) ∧ e.order ∉ ords []
    rw [hrel]
    refine ⟨?_, by simp [ords]⟩
    intro hn
    rcases List.mem_append.mp hn with h | h
    · exact this.1 h
    · exact this.2 (mem_ords_sortDesc.mp h)


theorem regL_afState (p : Pool) : regL (afState p) = setFinAll (regL p) := by
  unfold regL afState
  cases h : p.reg <;> simp [setFinAll]

theorem afOut_eq (p : Pool) : afOut p = sortDesc (p.pf ++ (regL p).filter (fun e => e.fin = false)) := rfl

theorem filter_ords_nodup {l : List Entry} (h : l.Pairwise (fun a b => a.order < b.order)) (q : Entry → Bool) :
    (ords (l.filter q)).Nodup :=
  asc_nodup (h.sublist List.filter_sublist)

/-- the markOrders `ExtractAllMarkedFinalize` hands out are pairwise distinct -/
theorem afOut_nodup {p : Pool} (hi : Inv p) : (ords (afOut p)).Nodup := by
  rw [afOut_eq]
  refine nodup_ords_sortDesc.mpr ?_
  unfold ords; rw [List.map_append]
  refine nodup_append_of hi.pfNodup (filter_ords_nodup hi.regAsc _) ?_
  intro n hn hn'
  obtain ⟨e, he, heo⟩ := mem_ords.mp hn
  have hm := List.mem_filter.mp he
  exact (hi.regFresh e hm.1 (by simpa using hm.2)).2 (heo ▸ hn')

theorem mem_afOut {p : Pool} {n : Nat} (hn : n ∈ ords (afOut p)) :
    (∃ e ∈ regL p, e.fin = false ∧ e.order = n) ∨ n ∈ ords p.pf := by
  rw [afOut_eq] at hn
  obtain ⟨e, he, heo⟩ := mem_ords.mp (mem_ords_sortDesc.mp hn)
  rcases List.mem_append.mp he with h | h
  · exact Or.inr (mem_ords.mpr ⟨e, h, heo⟩)
  · have := List.mem_filter.mp h
    exact Or.inl ⟨e, this.1, by simpa using this.2, heo⟩

theorem Inv.af {p : Pool} (hi : Inv p) (tr' : List TEv) (X : List Nat)
    (hfin : finOrders tr' = finOrders p.tr ++ X) (hrel : relOrders tr' = relOrders p.tr)
    (hXn : X.Nodup) (hX : ∀ n ∈ X, (∃ e ∈ regL p, e.fin = false ∧ e.order = n) ∨ n ∈ ords p.pf) :
    Inv { afState p with tr := tr' } := by
  have hrl : regL { afState p with tr := tr' } = setFinAll (regL p) := regL_afState p
  have hmem : ∀ x ∈ setFinAll (regL p), ∃ y ∈ regL p, x.order = y.order := fun x hx => (mem_setFinAll hx).1
  constructor
  · intro e he; rw [hrl] at he
    obtain ⟨y, hy, hxy⟩ := hmem e he
    rw [hxy]; exact hi.regLe y hy
  · rw [hrl]; exact setFinAll_asc hi.regAsc
  · intro e he; cases he
  · exact hi.prLe
  · intro n hn
    rw [show ({ afState p with tr := tr' } : Pool).tr = tr' from rfl, hfin] at hn
    rcases List.mem_append.mp hn with h | h
    · exact hi.finLe n h
    · rcases hX n h with ⟨e, he, _, heo⟩ | h'
      · rw [← heo]; exact hi.regLe e he
      · obtain ⟨e, he, heo⟩ := mem_ords.mp h'
        rw [← heo]; exact hi.pfLe e he
  · intro n hn
    rw [show ({ afState p with tr := tr' } : Pool).tr = tr' from rfl, hrel] at hn
    exact hi.relLe n hn
  · show (finOrders tr').Nodup
    rw [hfin]
    refine nodup_append_of hi.finNodup hXn ?_
    intro n hn
    rcases hX n hn with ⟨e, he, hef, heo⟩ | h'
    · rw [← heo]; exact (hi.regFresh e he hef).1
    · obtain ⟨e, he, heo⟩ := mem_ords.mp h'
      rw [← heo]; exact hi.pfFresh e he
  · exact List.nodup_nil
  · intro e he; cases he
  · intro e he hf
    rw [hrl] at he
    have := (mem_setFinAll he).2
    rw [this] at hf; cases hf
  · show (relOrders tr').Nodup
    rw [hrel]; exact hi.relNodup
  · exact hi.prNodup
  · intro e he
    show e.order ∉ relOrders tr'
    rw [hrel]; exact hi.prFresh e he
  · intro e he
    rw [hrl] at he
    obtain ⟨y, hy, hxy⟩ := hmem e he
    show e.order ∉ relOrders tr' ∧ e.order ∉ ords p.pr
    rw [hrel, hxy]; exact hi.regRel y hy

theorem Inv.xAF {p : Pool} (hi : Inv p) : Inv (xAF p) := by
  unfold GoluaVerif.Model.ClonePool.xAF
  refine hi.af _ (ords (afOut p)) ?_ ?_ (afOut_nodup hi) (fun n hn => mem_afOut hn)
  · show finOrders ((afState p).tr ++ finEvs .af (afOut p)) = _
    rw [finOrders_append, finOrders_finEvs]; rfl
  · show relOrders ((afState p).tr ++ finEvs .af (afOut p)) = _
    rw [relOrders_append, relOrders_finEvs, List.append_nil]; rfl

theorem Inv.skipAF {p : Pool} (hi : Inv p) : Inv (skipAF p) := by
  unfold GoluaVerif.Model.ClonePool.skipAF
  refine hi.af _ [] ?_ ?_ List.nodup_nil ?_
  · show finOrders ((afState p).tr ++ skipEvs (afOut p)) = _
    rw [finOrders_append, finOrders_skipEvs]; rfl
  · show relOrders ((afState p).tr ++ skipEvs (afOut p)) = _
    rw [relOrders_append, relOrders_skipEvs, List.append_nil]; rfl
  · intro n hn; cases hn

theorem arOut_eq (p : Pool) : arOut p = sortDesc (p.pr ++ (regL p).filter (fun e => e.rel = false)) := rfl

theorem Inv.xAR {p : Pool} (hi : Inv p) : Inv (xAR p) := by
  unfold GoluaVerif.Model.ClonePool.xAR
  have hfin : finOrders (p.tr ++ relEvs .ar (arOut p)) = finOrders p.tr := by
    rw [finOrders_append, finOrders_relEvs, List.append_nil]
  have hrel : relOrders (p.tr ++ relEvs .ar (arOut p)) = relOrders p.tr ++ ords (arOut p) := by
    rw [relOrders_append, relOrders_relEvs]
  have hmem : ∀ n ∈ ords (arOut p), (∃ e ∈ p.pr, e.order = n) ∨ (∃ e ∈ regL p, e.order = n) := by
    intro n hn
    rw [arOut_eq] at hn
    obtain ⟨e, he, heo⟩ := mem_ords.mp (mem_ords_sortDesc.mp hn)
    rcases List.mem_append.mp he with h | h
    · exact Or.inl ⟨e, h, heo⟩
    · exact Or.inr ⟨e, (List.mem_filter.mp h).1, heo⟩
  constructor
  · intro e he; cases he
  · exact List.Pairwise.nil
  · exact hi.pfLe
  · intro e he; cases he
  · intro n hn; exact hi.finLe n (hfin ▸ hn)
  · intro n hn
    rw [show ({ p with pr := [], reg := none, tr := p.tr ++ relEvs .ar (arOut p) } : Pool).tr = _ from rfl, hrel] at hn
    rcases List.mem_append.mp hn with h | h
    · exact hi.relLe n h
    · rcases hmem n h with ⟨e, he, heo⟩ | ⟨e, he, heo⟩
      · rw [← heo]; exact hi.prLe e he
      · rw [← heo]; exact hi.regLe e he
  · show (finOrders (p.tr ++ relEvs .ar (arOut p))).Nodup
    rw [hfin]; exact hi.finNodup
  · exact hi.pfNodup
  · intro e he
    show e.order ∉ finOrders (p.tr ++ relEvs .ar (arOut p))
    rw [hfin]; exact hi.pfFresh e he
  · intro e he; cases he
  · show (relOrders (p.tr ++ relEvs .ar (arOut p))).Nodup
    rw [hrel]
    refine nodup_append_of hi.relNodup ?_ ?_
    · rw [arOut_eq]
      refine nodup_ords_sortDesc.mpr ?_
      unfold ords; rw [List.map_append]
      refine nodup_append_of hi.prNodup (filter_ords_nodup hi.regAsc _) ?_
      intro n hn hn'
      obtain ⟨e, he, heo⟩ := mem_ords.mp hn
      exact (hi.regRel e (List.mem_filter.mp he).1).2 (heo ▸ hn')
    · intro n hn
      rcases hmem n hn with ⟨e, he, heo⟩ | ⟨e, he, heo⟩
      · rw [← heo]; exact hi.prFresh e he
      · rw [← heo]; exact (hi.regRel e he).1
  · exact List.nodup_nil
  · intro e he; cases he
  · intro e he; cases he

theorem Inv.use {p : Pool} (hi : Inv p) (u : Use) : Inv (use p u) := by
  unfold GoluaVerif.Model.ClonePool.use
  split
  · exact hi
  · cases u with
    | mark o f r => exact hi.mark o f r
    | fire o => exact hi.fire o
    | xPF => exact hi.xPF
    | xPR => exact hi.xPR
    | xAF => exact hi.xAF
    | xAR => exact hi.xAR
    | step => exact hi.xPF.xPR
    | finAll => exact hi.xAF
    | popRel => exact hi.skipAF.xAR

theorem Inv.foldl {p : Pool} (hi : Inv p) (us : List Use) : Inv (us.foldl GoluaVerif.Model.ClonePool.use p) := by
  induction us generalizing p with
  | nil => exact hi
  | cons u t ih => exact ih (hi.use u)

theorem Inv.run (us : List Use) : Inv (GoluaVerif.Model.ClonePool.run us) := (Inv.init 0).foldl us

end GoluaVerif.Proofs.C18
