/-
  Proofs.C03Flat — the table as one sequence of positions (array cells, then hash slots) and
  `mixedTable.next` as "the first live position after the position of the key".
-/
import GoluaVerif.Proofs.C03Mixed
namespace GoluaVerif.Model.Table
open GoluaVerif.Spec (Key Val Map NextRes)

abbrev Cell := Option Key × Option Val

/-- array cells `i+1, i+2, …` -/
def cellsFrom : List (Option Val) → Nat → List Cell
  | [], _ => []
  | v :: rest, i => (some (.int ((i : Int) + 1)), v) :: cellsFrom rest (i + 1)

def arrCells : Option Arr → List Cell
  | none => []
  | some a => cellsFrom a.values 0

def hashCells : Option HashTable → List Cell
  | none => []
  | some h => h.slots.map (fun s => (s.key, s.val))

/-- all positions of the table, in traversal order -/
def flat (t : Mixed) : List Cell := arrCells t.arr ++ hashCells t.hash

/-- the first live cell -/
def scan : List Cell → NextRes
  | [] => .done
  | (some k, some v) :: _ => .item k v
  | (none, _) :: rest => scan rest
  | (some _, none) :: rest => scan rest

/-- `next` on the flat view -/
def flatNext (cells : List Cell) : Option Key → NextRes
  | none => scan cells
  | some k =>
    match cells.findIdx? (fun c => decide (c.1 = some k)) with
    | none => .invalid
    | some p => scan (cells.drop (p + 1))

theorem scan_append_done (a b : List Cell) (h : scan a = .done) : scan (a ++ b) = scan b := by
  induction a with
  | nil => rfl
  | cons c rest ih =>
    obtain ⟨k, v⟩ := c
    cases k with
    | none => simp only [List.cons_append, scan] at h ⊢; exact ih h
    | some k =>
      cases v with
      | none => simp only [List.cons_append, scan] at h ⊢; exact ih h
      | some v => simp [scan] at h

theorem scan_append_item (a b : List Cell) (k : Key) (v : Val) (h : scan a = .item k v) :
    scan (a ++ b) = .item k v := by
  induction a with
  | nil => simp [scan] at h
  | cons c rest ih =>
    obtain ⟨k', v'⟩ := c
    cases k' with
    | none => simp only [List.cons_append, scan] at h ⊢; exact ih h
    | some k' =>
      cases v' with
      | none => simp only [List.cons_append, scan] at h ⊢; exact ih h
      | some v' => simpa [scan] using h

theorem scan_ne_invalid (a : List Cell) : scan a ≠ .invalid := by
  induction a with
  | nil => simp [scan]
  | cons c rest ih =>
    obtain ⟨k, v⟩ := c
    cases k <;> cases v <;> simp [scan, ih]

/-! ### the hash part -/

theorem hashScan_eq (slots : List Slot) (h : ∀ s ∈ slots, s.key = none → s.val = none) :
    hashScan slots = scan (slots.map (fun s => (s.key, s.val))) := by
  induction slots with
  | nil => rfl
  | cons s rest ih =>
    have ih' := ih (fun x hx => h x (List.mem_cons_of_mem _ hx))
    simp only [hashScan, List.map_cons]
    cases hv : s.val with
    | none =>
      cases hk : s.key <;> simp [scan, ih']
    | some v =>
      cases hk : s.key with
      | none => have := h s List.mem_cons_self hk; rw [hv] at this; simp at this
      | some k => simp [scan]

/-! ### the array part -/

theorem cellsFrom_length (vs : List (Option Val)) (i : Nat) : (cellsFrom vs i).length = vs.length := by
  induction vs generalizing i with
  | nil => rfl
  | cons v rest ih => simp [cellsFrom, ih]

theorem cellsFrom_drop (vs : List (Option Val)) (i n : Nat) :
    (cellsFrom vs i).drop n = cellsFrom (vs.drop n) (i + n) := by
  induction n generalizing vs i with
  | zero => rfl
  | succ n ih =>
    cases vs with
    | nil => simp [cellsFrom]
    | cons v rest =>
      simp only [cellsFrom, List.drop_succ_cons]
      rw [ih]
      congr 1; omega

theorem cellsFrom_getElem (vs : List (Option Val)) (i j : Nat) (h : j < (cellsFrom vs i).length) :
    (cellsFrom vs i)[j] = (some (.int ((i : Int) + (j : Int) + 1)), vs[j]'(by rw [cellsFrom_length] at h; exact h)) := by
  induction vs generalizing i j with
  | nil => simp [cellsFrom] at h
  | cons v rest ih =>
    cases j with
    | zero => simp [cellsFrom]
    | succ j =>
      simp only [cellsFrom, List.getElem_cons_succ]
      rw [ih]
      simp only [Prod.mk.injEq, Option.some.injEq, Key.int.injEq, and_true]
      omega

theorem scan_dead (cells : List Cell) (h : ∀ c ∈ cells, c.2 = none) : scan cells = .done := by
  induction cells with
  | nil => rfl
  | cons c rest ih =>
    obtain ⟨k, v⟩ := c
    have hv : v = none := h (k, v) List.mem_cons_self
    subst hv
    cases k <;> simp only [scan] <;> exact ih (fun x hx => h x (List.mem_cons_of_mem _ hx))

theorem cellsFrom_mem_val (vs : List (Option Val)) (i : Nat) (c : Cell) (h : c ∈ cellsFrom vs i) : c.2 ∈ vs := by
  induction vs generalizing i with
  | nil => simp [cellsFrom] at h
  | cons v rest ih =>
    simp only [cellsFrom, List.mem_cons] at h
    rcases h with e | h
    · subst e; simp
    · exact List.mem_cons_of_mem _ (ih _ h)

/-- the loop of `array.next` against the scan of the array cells (from any position of the array,
    also above `len`) -/
theorem arrNextLoop_spec (values : List (Option Val)) (len : Nat) (hlen : len ≤ values.length)
    (habove : ∀ j, j < values.length → len ≤ j → live values j = false) :
    ∀ (fuel i : Nat), i ≤ values.length → len - i + 1 ≤ fuel →
      ∃ r, arrNextLoop values len fuel i = some r ∧
        ((scan (cellsFrom (values.drop i) i) = .done ∧ r = (0, none)) ∨
         (∃ (j : Nat) (v : Val), 0 < j ∧ scan (cellsFrom (values.drop i) i) = .item (.int (j : Int)) v ∧ r = (j, some v))) := by
  intro fuel
  induction fuel with
  | zero => intro i _ h; omega
  | succ fuel ih =>
    intro i hi hf
    rw [arrNextLoop]
    by_cases e : i ≥ len
    · refine ⟨(0, none), by simp [e], Or.inl ⟨?_, rfl⟩⟩
      apply scan_dead
      intro c hc
      have hm := cellsFrom_mem_val _ _ c hc
      obtain ⟨j, hj, ej⟩ := List.getElem_of_mem hm
      rw [List.getElem_drop] at ej
      have hj' : i + j < values.length := by simp at hj; omega
      have := habove (i + j) hj' (by omega)
      rw [live_eq_isSome, List.getElem?_eq_getElem hj'] at this
      rw [← ej]
      cases hv : values[i + j] with
      | none => rfl
      | some x => simp [hv] at this
    · simp only [e, if_false]
      have hil : i < values.length := by omega
      simp only [List.getElem?_eq_getElem hil, Option.bind_eq_bind, Option.bind_some]
      have hd : values.drop i = values[i] :: values.drop (i + 1) := by
        rw [List.drop_eq_getElem_cons hil]
      cases hv : values[i] with
      | none =>
        obtain ⟨r, er, hr⟩ := ih (i + 1) (by omega) (by omega)
        refine ⟨r, by simp [er], ?_⟩
        rw [hd, hv]
        simp only [cellsFrom, scan]
        exact hr
      | some v =>
        refine ⟨(i + 1, some v), by simp, Or.inr ⟨i + 1, v, by omega, ?_, rfl⟩⟩
        rw [hd, hv]
        simp only [cellsFrom, scan]
        have : ((i : Int) + 1) = ((i + 1 : Nat) : Int) := by omega
        rw [this]

/-! ### positions of keys -/

theorem arrCells_key (a : Option Arr) (c : Cell) (hc : c ∈ arrCells a) :
    ∃ z : Int, c.1 = some (.int z) ∧ inArr a z := by
  cases a with
  | none => simp [arrCells] at hc
  | some a =>
    simp only [arrCells] at hc
    obtain ⟨j, hj, e⟩ := List.getElem_of_mem hc
    rw [cellsFrom_getElem] at e
    rw [cellsFrom_length] at hj
    refine ⟨(j : Int) + 1, by rw [← e]; simp, ?_⟩
    simp only [inArr, arrSize]; omega

theorem arrCells_length (a : Option Arr) : (arrCells a).length = arrSize a := by
  cases a with
  | none => rfl
  | some a => simp [arrCells, arrSize, cellsFrom_length]

/-- a key outside the array range is found where the hash part has it -/
theorem flat_findIdx_out (t : Mixed) (k : Key) (hout : ∀ z, k = .int z → ¬ inArr t.arr z) :
    (flat t).findIdx? (fun c => decide (c.1 = some k)) =
      ((hashCells t.hash).findIdx? (fun c => decide (c.1 = some k))).map (fun i => i + arrSize t.arr) := by
  unfold flat
  rw [List.findIdx?_append]
  have : (arrCells t.arr).findIdx? (fun c => decide (c.1 = some k)) = none := by
    rw [List.findIdx?_eq_none_iff]
    intro c hc
    obtain ⟨z, hz, hin⟩ := arrCells_key t.arr c hc
    simp only [decide_eq_false_iff_not, hz, Option.some.injEq]
    intro e
    exact hout z e.symm hin
  rw [this, arrCells_length]
  simp

theorem cells_findIdx (vs : List (Option Val)) (z : Int) (h : 1 ≤ z ∧ z ≤ (vs.length : Int)) :
    (cellsFrom vs 0).findIdx? (fun c => decide (c.1 = some (.int z))) = some (z.toNat - 1) := by
  have hlt : z.toNat - 1 < (cellsFrom vs 0).length := by rw [cellsFrom_length]; omega
  rw [List.findIdx?_eq_some_iff_getElem]
  refine ⟨hlt, ?_, ?_⟩
  · simp only [cellsFrom_getElem, decide_eq_true_eq, Option.some.injEq, Key.int.injEq]
    omega
  · intro j hj
    simp only [cellsFrom_getElem, decide_eq_true_eq, Option.some.injEq, Key.int.injEq]
    omega

/-- an integer key inside the array range is found at its index -/
theorem flat_findIdx_in (t : Mixed) (z : Int) (hin : inArr t.arr z) :
    (flat t).findIdx? (fun c => decide (c.1 = some (.int z))) = some (z.toNat - 1) := by
  cases ha : t.arr with
  | none => rw [ha] at hin; exact absurd hin (not_inArr_none z)
  | some a =>
    rw [ha] at hin
    simp only [inArr, arrSize] at hin
    unfold flat
    rw [ha, List.findIdx?_append]
    show ((cellsFrom a.values 0).findIdx? _).or _ = _
    rw [cells_findIdx a.values z hin]
    rfl

section
variable (hash : Key → Nat)

theorem hashCells_scan (h : Option HashTable) (asize : Nat) (inv : HashInvO hash h asize) :
    hNext hash h none = some (scan (hashCells h)) := by
  cases h with
  | none => rfl
  | some t =>
    have inv' := inv t rfl
    simp only [hNext, hashCells]
    rw [hashScan_eq]
    intro s hs hk
    obtain ⟨i, hi, e⟩ := List.getElem_of_mem hs
    have := inv'.empty_zero i hi (by rw [e]; exact hk)
    rw [← e, this]; rfl

theorem hNext_eq (h : Option HashTable) (asize : Nat) (inv : HashInvO hash h asize) (k : Key) :
    hNext hash h (some k) = some (match (hashCells h).findIdx? (fun c => decide (c.1 = some k)) with
      | none => .invalid
      | some p => scan ((hashCells h).drop (p + 1))) := by
  cases h with
  | none => rfl
  | some t =>
    have inv' := inv t rfl
    obtain ⟨r, hr, h1, h2⟩ := findSlot_spec hash t asize inv' k
    simp only [hNext, hr, Option.bind_eq_bind, Option.bind_some, hashCells]
    cases r with
    | none =>
      have : (t.slots.map (fun s => (s.key, s.val))).findIdx? (fun c => decide (c.1 = some k)) = none := by
        rw [List.findIdx?_eq_none_iff]
        intro c hc
        obtain ⟨s, hs, e⟩ := List.mem_map.1 hc
        obtain ⟨i, hi, ei⟩ := List.getElem_of_mem hs
        have := h2 rfl i hi
        rw [← e, ← ei]
        simpa using this
      simp [this]
    | some i =>
      obtain ⟨hi, hk⟩ := h1 i rfl
      have : (t.slots.map (fun s => (s.key, s.val))).findIdx? (fun c => decide (c.1 = some k)) = some i := by
        rw [List.findIdx?_eq_some_iff_getElem]
        refine ⟨by simpa using hi, by simp [hk], ?_⟩
        intro j hj
        simp only [List.getElem_map, decide_eq_true_eq]
        intro hkj
        have := inv'.nodup j (by omega) i hi (by simp [hkj]) (by rw [hkj, hk])
        omega
      simp only [this]
      congr 1
      rw [← List.map_drop]
      apply hashScan_eq
      intro s hs hk'
      have hs' : s ∈ t.slots := List.mem_of_mem_drop hs
      obtain ⟨j, hj, e⟩ := List.getElem_of_mem hs'
      have := inv'.empty_zero j hj (by rw [e]; exact hk')
      rw [← e, this]; rfl

end

section
variable (hash : Key → Nat)

theorem flatNext_out (t : Mixed) (inv : Inv hash t) (k : Key) (hout : ∀ z, k = .int z → ¬ inArr t.arr z) :
    hNext hash t.hash (some k) = some (flatNext (flat t) (some k)) := by
  rw [hNext_eq hash t.hash _ inv.hash k]
  simp only [flatNext, flat_findIdx_out t k hout]
  cases hf : (hashCells t.hash).findIdx? (fun c => decide (c.1 = some k)) with
  | none => rfl
  | some p =>
    simp only [Option.map_some]
    congr 1
    unfold flat
    have : p + arrSize t.arr + 1 = (arrCells t.arr).length + (p + 1) := by rw [arrCells_length]; omega
    rw [this, List.drop_append]
    have h1 : List.drop ((arrCells t.arr).length + (p + 1)) (arrCells t.arr) = [] :=
      List.drop_eq_nil_of_le (by omega)
    rw [h1]
    simp

/-- `mixedTable.next` is "the first live position after the position of the key" -/
theorem next_refines (t : Mixed) (inv : Inv hash t) (k : Option Key) :
    next hash t k = some (flatNext (flat t) (k.map Key.norm)) := by
  -- the array branch, from any position `n` of the array
  have viaArr : ∀ (a : Arr), t.arr = some a → ∀ n : Nat, n ≤ a.values.length →
      nextViaArray hash t (n : Int) = some (scan ((flat t).drop n)) := by
    intro a ha n hn
    have ainv := inv.arr a ha
    have hcond : (decide (0 ≤ (n : Int)) && decide ((n : Int) ≤ (a.values.length : Int))) = true := by simp; omega
    obtain ⟨r, er, hr⟩ := arrNextLoop_spec a.values a.len ainv.len_le ainv.above_nil (a.len - n + 1) n hn (Nat.le_refl _)
    have hdrop : (flat t).drop n = cellsFrom (a.values.drop n) n ++ hashCells t.hash := by
      unfold flat
      rw [ha]
      simp only [arrCells]
      have hnl : n ≤ (cellsFrom a.values 0).length := by rw [cellsFrom_length]; exact hn
      rw [List.drop_append_of_le_length hnl, cellsFrom_drop]
      simp
    simp only [nextViaArray, ha, arrNext, hcond, if_true, Int.toNat_natCast, er, Option.bind_eq_bind, Option.bind_some]
    rw [hdrop]
    rcases hr with ⟨hd, e⟩ | ⟨j, v, hj, hi, e⟩
    · subst e
      simp only [Nat.lt_irrefl, if_false, gt_iff_lt, if_true]
      rw [scan_append_done _ _ hd]
      exact hashCells_scan hash t.hash _ inv.hash
    · subst e
      simp only [gt_iff_lt, hj, if_true]
      rw [scan_append_item _ _ _ _ hi]
      simp [hj]
  unfold next
  cases k with
  | none =>
    simp only [Option.map_none, flatNext]
    cases ha : t.arr with
    | none =>
      simp only [Option.isNone_none, if_true]
      rw [hashCells_scan hash t.hash _ inv.hash]
      simp [flat, ha, arrCells]
    | some a =>
      simp only [Option.isNone_some, Bool.false_eq_true, if_false]
      have := viaArr a ha 0 (Nat.zero_le _)
      simp only [List.drop_zero] at this
      exact this
  | some key =>
    simp only [Option.map_some]
    cases hti : toInt key with
    | none =>
      obtain ⟨hn, hni⟩ := norm_of_toInt_none key hti
      rw [hn]
      exact flatNext_out hash t inv key (fun z ez => absurd ez (hni z))
    | some i =>
      rw [norm_of_toInt_some key i hti]
      by_cases hi0 : i = 0
      · subst hi0
        simp only [if_true]
        exact flatNext_out hash t inv (.int 0) (fun z ez => by cases ez; simp [inArr])
      · simp only [hi0, if_false]
        cases ha : t.arr with
        | none =>
          have hout : ∀ z, Key.int i = .int z → ¬ inArr t.arr z := by
            intro z _; rw [ha]; exact not_inArr_none z
          show nextViaArray hash t i = _
          simp only [nextViaArray, ha, arrNext, Option.bind_eq_bind, Option.bind_some, Bool.false_eq_true, if_false]
          exact flatNext_out hash t inv (.int i) hout
        | some a =>
          have ainv := inv.arr a ha
          by_cases hin : inArr t.arr i
          · rw [ha] at hin
            simp only [inArr, arrSize] at hin
            have hn : i.toNat ≤ a.values.length := by omega
            have hcast : ((i.toNat : Nat) : Int) = i := by omega
            have := viaArr a ha i.toNat hn
            rw [hcast] at this
            show nextViaArray hash t i = _
            rw [this]
            simp only [flatNext, flat_findIdx_in t i (ha ▸ (show inArr (some a) i from hin))]
            have : i.toNat - 1 + 1 = i.toNat := by omega
            rw [this]
          · have hcond : (decide (0 ≤ i) && decide (i ≤ (a.values.length : Int))) = false := by
              rw [ha] at hin
              simp only [inArr, arrSize] at hin
              simp only [Bool.and_eq_false_imp, decide_eq_true_eq, decide_eq_false_iff_not]
              intro h0; omega
            show nextViaArray hash t i = _
            simp only [nextViaArray, ha, arrNext, hcond, Bool.false_eq_true, if_false, Option.bind_eq_bind, Option.bind_some]
            exact flatNext_out hash t inv (.int i) (fun z ez => by cases ez; exact hin)

end

end GoluaVerif.Model.Table
