/-
  Proofs.PatBuild — the builder never indexes out of range and never runs out of loop fuel:
  every `pattern.New` call yields items or one of the builder's error values.
-/
import GoluaVerif.Model.PatBuild
namespace GoluaVerif.Model.PatBuild
open GoluaVerif.Model

/-- an error value the Go code returns (as opposed to a panic or the model's fuel artefact) -/
def benign : BErr → Bool
  | .goPanic _ => false
  | .fuel => false
  | _ => true

/-- result of a builder step started at `pb`: progress inside the pattern, or a benign error -/
def Good {α : Type} (ptn : Array UInt8) (i0 : Nat) (strict : Bool) (r : B (α × PB)) : Prop :=
  match r with
  | .ok (_, pb') => (if strict then i0 < pb'.i else i0 ≤ pb'.i) ∧ pb'.i ≤ ptn.size
  | .error e => benign e = true

def GoodPB (ptn : Array UInt8) (i0 : Nat) (r : B PB) : Prop :=
  match r with
  | .ok pb' => i0 < pb'.i ∧ pb'.i ≤ ptn.size
  | .error e => benign e = true

theorem next_eq (ptn : Array UInt8) (pb : PB) :
    next ptn pb = if h : pb.i < ptn.size then .ok (ptn[pb.i], { pb with i := pb.i + 1 }) else .error .malformed := by
  unfold next
  by_cases h : pb.i < ptn.size
  · have : ¬ (pb.i ≥ ptn.size) := by omega
    simp [h, this]
  · have : pb.i ≥ ptn.size := by omega
    simp [h, this]

theorem next_good (ptn : Array UInt8) (pb : PB) : Good ptn pb.i true (next ptn pb) := by
  rw [next_eq]
  by_cases h : pb.i < ptn.size
  · simp only [h, dite_true, Good, if_true]; omega
  · simp only [h, dite_false, Good, benign]

theorem next_ok {ptn : Array UInt8} {pb pb' : PB} {b : UInt8} (h : next ptn pb = .ok (b, pb')) :
    pb'.i = pb.i + 1 ∧ pb'.i ≤ ptn.size := by
  rw [next_eq] at h
  by_cases hlt : pb.i < ptn.size
  · simp only [hlt, dite_true] at h
    injection h with h; injection h with _ h; subst h; simp; omega
  · simp [hlt] at h

theorem next_err {ptn : Array UInt8} {pb : PB} {e : BErr} (h : next ptn pb = .error e) : benign e = true := by
  have := next_good ptn pb
  rw [h] at this; exact this

theorem back_ok {pb : PB} (h : 0 < pb.i) : back pb = .ok { pb with i := pb.i - 1 } := by
  unfold back
  have : ¬ (pb.i = 0) := by omega
  simp [this]

theorem getCharRange_err {c : UInt8} {e : BErr} (h : getCharRange c = .error e) : benign e = true := by
  unfold getCharRange at h
  split at h
  · cases h
  · split at h
    · injection h with h; subst h; rfl
    · split at h
      · injection h with h; subst h; rfl
      · cases h

theorem unionLoop_good (ptn : Array UInt8) (neg : Bool) : ∀ (fuel : Nat) (b : UInt8) (s : ByteSet) (pb : PB),
    pb.i ≤ ptn.size → ptn.size + 1 ≤ fuel + pb.i → Good ptn pb.i false (unionLoop ptn neg fuel b s pb) := by
  intro fuel
  induction fuel with
  | zero => intro b s pb h1 h2; omega
  | succ f ih =>
    intro b s pb h1 h2
    rw [unionLoop]
    split
    · simp only [Good, Bool.false_eq_true, if_false]; omega
    · split
      · -- '%'
        cases hn : next ptn pb with
        | error e => simp only [bind, Except.bind, Good]; exact next_err hn
        | ok v =>
          obtain ⟨b1, pb1⟩ := v
          have h3 := next_ok hn
          simp only [bind, Except.bind]
          cases hr : getCharRange b1 with
          | error e => simp only [Good]; exact getCharRange_err hr
          | ok r =>
            simp only
            cases hn2 : next ptn pb1 with
            | error e => simp only [Good]; exact next_err hn2
            | ok v2 =>
              obtain ⟨b2, pb2⟩ := v2
              have h4 := next_ok hn2
              simp only
              have := ih b2 (s.merge r) pb2 h4.2 (by omega)
              unfold Good at this ⊢
              split at this <;> simp_all <;> omega
      · -- default
        cases hn : next ptn pb with
        | error e => simp only [bind, Except.bind, Good]; exact next_err hn
        | ok v =>
          obtain ⟨b1, pb1⟩ := v
          have h3 := next_ok hn
          simp only [bind, Except.bind]
          split
          · cases hn2 : next ptn pb1 with
            | error e => simp only [Good]; exact next_err hn2
            | ok v2 =>
              obtain ⟨b2, pb2⟩ := v2
              have h4 := next_ok hn2
              simp only
              split
              · have := ih b2 ((s.add b).add 45) pb2 h4.2 (by omega)
                unfold Good at this ⊢
                split at this <;> simp_all <;> omega
              · cases hn3 : next ptn pb2 with
                | error e => simp only [Good]; exact next_err hn3
                | ok v3 =>
                  obtain ⟨b3, pb3⟩ := v3
                  have h5 := next_ok hn3
                  simp only
                  have := ih b3 (s.merge (ByteSet.byteRange b b2)) pb3 h5.2 (by omega)
                  unfold Good at this ⊢
                  split at this <;> simp_all <;> omega
          · have := ih b1 (s.add b) pb1 h3.2 (by omega)
            unfold Good at this ⊢
            split at this <;> simp_all <;> omega

theorem Good.weaken {α : Type} {ptn : Array UInt8} {i0 i1 : Nat} {r : B (α × PB)} (h : Good ptn i1 false r)
    (hlt : i0 < i1) : Good ptn i0 true r := by
  unfold Good at *
  split <;> simp_all <;> omega

theorem getUnion_good (ptn : Array UInt8) (pb : PB) (hi : pb.i ≤ ptn.size) : Good ptn pb.i true (getUnion ptn pb) := by
  unfold getUnion
  cases hn : next ptn pb with
  | error e => simp only [bind, Except.bind, Good]; exact next_err hn
  | ok v =>
    obtain ⟨b, pb1⟩ := v
    have h1 := next_ok hn
    simp only [bind, Except.bind]
    by_cases hb : (b == 94) = true
    · simp only [hb, if_true]
      cases hn2 : next ptn pb1 with
      | error e => simp only [Good]; exact next_err hn2
      | ok v2 =>
        obtain ⟨b2, pb2⟩ := v2
        have h2 := next_ok hn2
        simp only [pure, Except.pure]
        by_cases hb2 : (b2 == 93) = true
        · simp only [hb2, if_true]
          cases hn3 : next ptn pb2 with
          | error e => simp only [Good]; exact next_err hn3
          | ok v3 =>
            obtain ⟨b3, pb3⟩ := v3
            have h3 := next_ok hn3
            simp only
            exact (unionLoop_good ptn true (ptn.size + 2) b3 _ pb3 h3.2 (by omega)).weaken (by omega)
        · simp only [hb2, Bool.false_eq_true, if_false]
          exact (unionLoop_good ptn true (ptn.size + 2) b2 _ pb2 h2.2 (by omega)).weaken (by omega)
    · simp only [hb, Bool.false_eq_true, if_false, pure, Except.pure]
      by_cases hb2 : (b == 93) = true
      · simp only [hb2, if_true]
        cases hn3 : next ptn pb1 with
        | error e => simp only [Good]; exact next_err hn3
        | ok v3 =>
          obtain ⟨b3, pb3⟩ := v3
          have h3 := next_ok hn3
          simp only
          exact (unionLoop_good ptn false (ptn.size + 2) b3 _ pb3 h3.2 (by omega)).weaken (by omega)
      · simp only [hb2, Bool.false_eq_true, if_false]
        exact (unionLoop_good ptn false (ptn.size + 2) b _ pb1 h1.2 (by omega)).weaken (by omega)

theorem getCharClass_good (ptn : Array UInt8) (pb : PB) (hi : pb.i ≤ ptn.size) :
    Good ptn pb.i true (getCharClass ptn pb) := by
  unfold getCharClass
  cases hn : next ptn pb with
  | error e => simp only [bind, Except.bind, Good]; exact next_err hn
  | ok v =>
    obtain ⟨b, pb1⟩ := v
    have h1 := next_ok hn
    simp only [bind, Except.bind]
    split
    · simp only [pure, Except.pure, Good, if_true]; omega
    · split
      · cases hn2 : next ptn pb1 with
        | error e => simp only [Good]; exact next_err hn2
        | ok v2 =>
          obtain ⟨b2, pb2⟩ := v2
          have h2 := next_ok hn2
          simp only
          cases hr : getCharRange b2 with
          | error e => simp only [Good]; exact getCharRange_err hr
          | ok r => simp only [pure, Except.pure, Good, if_true]; omega
      · split
        · have := getUnion_good ptn pb1 h1.2
          unfold Good at this ⊢
          split at this <;> simp_all <;> omega
        · simp only [pure, Except.pure, Good, if_true]; omega

theorem finishSingle_good (ptn : Array UInt8) (s : ByteSet) (pb : PB) (i0 : Nat) (hi : i0 < pb.i) (hle : pb.i ≤ ptn.size) :
    GoodPB ptn i0 (finishSingle ptn s pb) := by
  unfold finishSingle
  cases hn : next ptn pb with
  | error e => simp only [GoodPB, emit]; omega
  | ok v =>
    obtain ⟨b, pb1⟩ := v
    have h1 := next_ok hn
    simp only
    split
    · simp only [GoodPB, emit]; omega
    · split
      · simp only [GoodPB, emit]; omega
      · split
        · simp only [GoodPB, emit]; omega
        · split
          · simp only [GoodPB, emit]; omega
          · rw [back_ok (by omega)]
            simp only [bind, Except.bind, pure, Except.pure, GoodPB, emit]; omega

/-- the common tail: `back`, `getCharClass`, `finishSingle` (a single-character item starting at the byte just read) -/
theorem single_good (ptn : Array UInt8) (pb pb1 : PB) (h1 : pb1.i = pb.i + 1 ∧ pb1.i ≤ ptn.size) :
    GoodPB ptn pb.i (do
      let pb ← back pb1
      let (s, pb) ← getCharClass ptn pb
      finishSingle ptn s pb) := by
  rw [back_ok (by omega)]
  simp only [bind, Except.bind]
  have hg := getCharClass_good ptn { pb1 with i := pb1.i - 1 } (by simp; omega)
  cases hc : getCharClass ptn { pb1 with i := pb1.i - 1 } with
  | error e => rw [hc] at hg; simp only [GoodPB]; exact hg
  | ok v =>
    obtain ⟨s, pb2⟩ := v
    rw [hc] at hg
    simp only [Good, if_true] at hg
    simp only
    exact finishSingle_good ptn s pb2 pb.i (by omega) hg.2

theorem getPatternItem_good (ptn : Array UInt8) (pb : PB) (hi : pb.i ≤ ptn.size) :
    GoodPB ptn pb.i (getPatternItem ptn pb) := by
  unfold getPatternItem
  cases hn : next ptn pb with
  | error e => simp only [bind, Except.bind, GoodPB]; exact next_err hn
  | ok v =>
    obtain ⟨b, pb1⟩ := v
    have h1 := next_ok hn
    simp only [bind, Except.bind]
    split
    · -- '^'
      split
      · simp only [pure, Except.pure, GoodPB]; omega
      · exact single_good ptn pb pb1 h1
    · split
      · -- '$'
        split
        · simp only [pure, Except.pure, GoodPB]; omega
        · exact single_good ptn pb pb1 h1
      · split
        · -- '('
          split
          · simp only [throw, throwThe, MonadExceptOf.throw, GoodPB, benign]
          · cases hn2 : next ptn { pb1 with ciMax := pb1.ciMax + 1 } with
            | error e => simp only [GoodPB]; exact next_err hn2
            | ok v2 =>
              obtain ⟨b2, pb2⟩ := v2
              have h2 := next_ok hn2
              simp only at h2
              by_cases hb2 : (b2 != 41) = true
              · simp only [hb2, if_true]
                rw [back_ok (by omega)]
                simp only [bind, Except.bind, pure, Except.pure, GoodPB, emit]
                omega
              · simp only [hb2, Bool.false_eq_true, if_false, pure, Except.pure, GoodPB, emit]
                omega
        · split
          · -- ')'
            split
            · simp only [throw, throwThe, MonadExceptOf.throw, GoodPB, benign]
            · rename_i hsz
              have hlt : pb1.cStack.size - 1 < pb1.cStack.size := by omega
              have : pb1.cStack[pb1.cStack.size - 1]? = some pb1.cStack[pb1.cStack.size - 1] := by simp [hlt]
              simp only [this, pure, Except.pure, GoodPB, emit]; omega
          · split
            · -- '%'
              cases hn2 : next ptn pb1 with
              | error e => simp only [GoodPB]; exact next_err hn2
              | ok v2 =>
                obtain ⟨c, pb2⟩ := v2
                have h2 := next_ok hn2
                simp only
                split
                · -- %f
                  split
                  · simp only [throw, throwThe, MonadExceptOf.throw, GoodPB, benign]
                  have hg := getCharClass_good ptn pb2 h2.2
                  cases hc : getCharClass ptn pb2 with
                  | error e => rw [hc] at hg; simp only [GoodPB]; exact hg
                  | ok v3 =>
                    obtain ⟨s, pb3⟩ := v3
                    rw [hc] at hg
                    simp only [Good, if_true] at hg
                    simp only [pure, Except.pure, GoodPB, emit]; omega
                · split
                  · -- %b
                    cases hn3 : next ptn pb2 with
                    | error e => simp only [GoodPB]; exact next_err hn3
                    | ok v3 =>
                      obtain ⟨op, pb3⟩ := v3
                      have h3 := next_ok hn3
                      simp only
                      cases hn4 : next ptn pb3 with
                      | error e => simp only [GoodPB]; exact next_err hn4
                      | ok v4 =>
                        obtain ⟨cl, pb4⟩ := v4
                        have h4 := next_ok hn4
                        simp only [pure, Except.pure, GoodPB, emit]; omega
                  · split
                    · -- %1..%9
                      split
                      · simp only [throw, throwThe, MonadExceptOf.throw, GoodPB, benign]
                      · simp only [pure, Except.pure, GoodPB, emit]; omega
                    · cases hr : getCharRange c with
                      | error e => simp only [GoodPB]; exact getCharRange_err hr
                      | ok r =>
                        simp only
                        exact finishSingle_good ptn r pb2 pb.i (by omega) h2.2
            · exact single_good ptn pb pb1 h1

theorem buildLoop_good (ptn : Array UInt8) (maxSize : Nat) : ∀ (fuel sz : Nat) (pb : PB), pb.i ≤ ptn.size →
    ptn.size + 1 ≤ fuel + pb.i → ∀ e, buildLoop ptn maxSize fuel sz pb = .error e → benign e = true := by
  intro fuel
  induction fuel with
  | zero => intro sz pb h1 h2; omega
  | succ f ih =>
    intro sz pb h1 h2 e he
    rw [buildLoop] at he
    split at he
    · have hg := getPatternItem_good ptn pb h1
      cases hp : getPatternItem ptn pb with
      | error e' =>
        rw [hp] at he hg
        simp only [bind, Except.bind] at he
        injection he with he; subst he; exact hg
      | ok pb1 =>
        rw [hp] at he hg
        simp only [GoodPB] at hg
        simp only [bind, Except.bind] at he
        split at he
        · simp only [throw, throwThe, MonadExceptOf.throw] at he
          injection he with he; subst he; rfl
        · exact ih _ pb1 hg.2 (by omega) e he
    · cases he

/-- BUILD TOTAL: for every pattern string, `pattern.New` (the mirror `build`) returns items or one of the builder's
    own error values — never an index-out-of-range panic, never an exhausted loop bound -/
theorem build_total (ptn : Array UInt8) : ∀ e, build ptn = .error e → benign e = true := by
  intro e he
  unfold build at he
  cases hb : buildLoop ptn Generated.ByteSetTable.maxPatternSize (ptn.size + 1) 0 {} with
  | error e' =>
    rw [hb] at he
    simp only [bind, Except.bind] at he
    injection he with he; subst he
    exact buildLoop_good ptn _ (ptn.size + 1) 0 {} (by simp) (by simp) e' hb
  | ok pb =>
    rw [hb] at he
    simp only [bind, Except.bind] at he
    split at he
    · simp only [throw, throwThe, MonadExceptOf.throw] at he
      injection he with he; subst he; rfl
    · cases he

end GoluaVerif.Model.PatBuild
