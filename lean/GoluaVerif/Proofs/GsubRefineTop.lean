/-
  Proofs.GsubRefineTop — `string.gsub` with a string replacement, as mirrored from matching.go, against the Spec.
-/
import GoluaVerif.Proofs.GsubRefine
namespace GoluaVerif.Model.PatMatch
open GoluaVerif.Model GoluaVerif.Spec
open GoluaVerif.Spec.LuaPattern (slice GsubAcc Cap PErr)
open GoluaVerif.Model.Gsub (GsubState sliceE advance)

/-! ### the replacement string -/

/-- the Spec's expansion against golua's (`Except Unit`): equal results, errors to errors; nothing is claimed where the
    manual leaves the escape open -/
def RL (a : Except PErr (List UInt8)) (b : Except Unit (List UInt8)) : Prop :=
  match a with
  | .ok r => b = .ok r
  | .error .malformed => b = .error ()
  | .error .unspecified => True

theorem RL.map {a : Except PErr (List UInt8)} {b : Except Unit (List UInt8)} (f : List UInt8 → List UInt8) (h : RL a b) :
    RL (a.map f) (b.map f) := by
  unfold RL at *
  cases a with
  | ok r => simp only [Except.map] at *; rw [h]
  | error e =>
    cases e with
    | malformed => simp only [Except.map] at *; rw [h]
    | unspecified => trivial

/-- how golua renders one capture inside a replacement -/
def render (s : Subject) : Cap → List UInt8
  | .closed a b => slice s a b
  | .position q => (toString (q + 1)).toUTF8.toList
  | _ => []

theorem toString_int_nat (q : Nat) : toString ((q : Int) + 1) = toString (q + 1) := by
  have : ((q : Int) + 1) = ((q + 1 : Nat) : Int) := by omega
  rw [this]
  rfl

/-- the strings golua puts in `cStrings` and its `maxIndex`, for the Spec match `m` -/
def cStringsOf (s : Subject) (m : LuaPattern.MatchRes) : List (List UInt8) × Nat :=
  if m.caps.isEmpty then ([slice s m.start m.stop, slice s m.start m.stop], 1)
  else (slice s m.start m.stop :: m.caps.map (render s), m.caps.length)

theorem expandRepl_link (s : Subject) (m : LuaPattern.MatchRes) (hok : ∀ c ∈ m.caps, CapOK s.size c) :
    ∀ (n : Nat) (repl : List UInt8), repl.length ≤ n →
      RL (LuaPattern.expandRepl s m repl) (Gsub.expandRepl (cStringsOf s m).1 (cStringsOf s m).2 repl) := by
  intro n
  induction n with
  | zero =>
    intro repl h
    have : repl = [] := List.eq_nil_of_length_eq_zero (by omega)
    subst this
    simp [LuaPattern.expandRepl, Gsub.expandRepl, RL]
  | succ n ih =>
    intro repl h
    cases repl with
    | nil => simp [LuaPattern.expandRepl, Gsub.expandRepl, RL]
    | cons c rest =>
      by_cases hc : c = 37
      · subst hc
        cases rest with
        | nil => simp [LuaPattern.expandRepl, RL]
        | cons d rest' =>
          have ihr := ih rest' (by simp at h; omega)
          rw [LuaPattern.expandRepl, Gsub.expandRepl]
          by_cases hd37 : d = 37
          · subst hd37
            simp only [show ((37 : UInt8) == 37) = true from by decide, if_true,
              show ((37 : UInt8) == 10) = false from by decide, Bool.false_eq_true, if_false,
              show ((48 : UInt8) ≤ 37 && (37 : UInt8) ≤ 57) = false from by decide]
            exact ihr.map _
          · have e37 : (d == 37) = false := beq_eq_false_iff_ne.mpr hd37
            simp only [e37, Bool.false_eq_true, if_false]
            by_cases hdig : LuaPattern.isDigit d = true
            · -- `%0` … `%9`
              have hd10 : (d == 10) = false := by
                unfold LuaPattern.isDigit at hdig
                simp only [Bool.and_eq_true, decide_eq_true_eq] at hdig
                apply beq_eq_false_iff_ne.mpr
                intro e; subst e
                exact absurd hdig.1 (by decide)
              have hdig' : (48 ≤ d && d ≤ 57) = true := hdig
              simp only [hdig, if_true, hd10, Bool.false_eq_true, if_false, hdig']
              generalize hidx : (d - 48).toNat = idx
              unfold cStringsOf at ihr ⊢
              by_cases hemp : m.caps.isEmpty = true
              · simp only [hemp, if_true] at ihr ⊢
                by_cases h0 : idx = 0
                · subst h0
                  simp only [if_true, show ¬ (0 > 1) from by omega, if_false, List.getD_cons_zero]
                  exact ihr.map _
                · by_cases h1 : idx = 1
                  · subst h1
                    simp only [h0, if_false, if_true, show ¬ (1 > 1) from by omega, List.getD_cons_succ, List.getD_cons_zero]
                    exact ihr.map _
                  · have : idx > 1 := by omega
                    simp [h0, h1, this, RL]
              · simp only [hemp, Bool.false_eq_true, if_false] at ihr ⊢
                by_cases h0 : idx = 0
                · subst h0
                  simp only [if_true, show ¬ (0 > m.caps.length) from by omega, if_false, List.getD_cons_zero]
                  exact ihr.map _
                · simp only [h0, if_false]
                  obtain ⟨k, rfl⟩ : ∃ k, idx = k + 1 := ⟨idx - 1, by omega⟩
                  simp only [Nat.add_sub_cancel]
                  by_cases hk : k < m.caps.length
                  · have hget : m.caps[k]? = some m.caps[k] := by simp [hk]
                    have hcok := hok m.caps[k] (List.getElem_mem hk)
                    have hnot : ¬ (k + 1 > m.caps.length) := by omega
                    simp only [hget, hnot, if_false]
                    have hstr : ((slice s m.start m.stop :: m.caps.map (render s)).getD (k + 1) []) = render s m.caps[k] := by
                      simp [List.getD, hk]
                    rw [hstr]
                    cases hcap : m.caps[k] with
                    | unset => rw [hcap] at hcok; exact hcok.elim
                    | opened a => rw [hcap] at hcok; exact hcok.elim
                    | closed a b => simp only [render]; exact ihr.map _
                    | position q => simp only [render]; exact ihr.map _
                  · have hget : m.caps[k]? = none := by simp; omega
                    have : k + 1 > m.caps.length := by omega
                    simp [hget, this, RL]
            · -- `%` followed by anything else: left open by the manual
              simp only [hdig, Bool.false_eq_true, if_false]
              trivial
      · have ihr := ih rest (by simp at h; omega)
        rw [LuaPattern.expandRepl.eq_4 _ _ _ _ (fun e _ => hc e) (fun _ _ e _ => hc e),
          Gsub.expandRepl.eq_4 _ _ _ _ (fun e _ => hc e) (fun _ _ e _ => hc e)]
        exact ihr.map _

theorem render_eq (s : Subject) (c : Cap) (hc : CapOK s.size c) :
    Gsub.valStr (LuaPattern.capValue s c) = render s c := by
  cases c with
  | unset => exact hc.elim
  | opened a => exact hc.elim
  | closed a b => rfl
  | position q =>
    simp only [LuaPattern.capValue, render, Gsub.valStr, Gsub.itoa]
    rw [toString_int_nat]

/-- golua's replacement closure for a string `repl` agrees with the Spec's expansion on every match of the pattern -/
theorem replString_link (P : Pattern) (s : Subject) (pat : LuaPattern.Pat) (hp : PatRel P pat) (repl : List UInt8) :
    ReplLink pat s repl (Gsub.replString s repl) := by
  intro q m hq hm
  obtain ⟨h1, h2, h3, h4⟩ := matchAt_caps_ok P s pat hp q hq m hm
  have hlink := expandRepl_link s m h4 repl.length repl (Nat.le_refl _)
  -- what `replString` computes on `toCaptures m`
  have hvals : (toCaptures m).mapM (Gsub.captureValue s) =
      .ok (.str (slice s m.start m.stop) :: m.caps.map (LuaPattern.capValue s)) := by
    unfold toCaptures
    have hfirst : Gsub.captureValue s ⟨(m.start : Int), (m.stop : Int)⟩ = .ok (.str (slice s m.start m.stop)) := by
      unfold Gsub.captureValue
      have : ¬ ((m.stop : Int) = -1) := by omega
      simp only [this, if_false]
      rw [sliceE_nat s (by omega) h3]
      rfl
    simp only [List.mapM_cons, hfirst, mapM_captureValue s m.caps h4, bind, Except.bind, pure, Except.pure]
  have hstrs : (LuaPattern.LVal.str (slice s m.start m.stop) :: m.caps.map (LuaPattern.capValue s)).map
      Gsub.valStr = slice s m.start m.stop :: m.caps.map (render s) := by
    simp only [List.map_cons, List.map_map, Gsub.valStr]
    congr 1
    apply List.map_congr_left
    intro c hc
    exact render_eq s c (h4 c hc)
  have hcs : (if (toCaptures m).length = 1 then
      ([(slice s m.start m.stop :: m.caps.map (render s)).getD 0 [], (slice s m.start m.stop :: m.caps.map (render s)).getD 0 []], 1)
      else (slice s m.start m.stop :: m.caps.map (render s), (toCaptures m).length - 1)) = cStringsOf s m := by
    unfold cStringsOf toCaptures
    cases hc : m.caps with
    | nil => simp
    | cons c cs => simp
  unfold Gsub.replString
  simp only [hvals, hstrs]
  rw [hcs]
  unfold RL at hlink
  cases he : LuaPattern.expandRepl s m repl with
  | ok r =>
    rw [he] at hlink
    simp only at hlink ⊢
    rw [hlink]
  | error e =>
    rw [he] at hlink
    cases e with
    | malformed => simp only at hlink ⊢; rw [hlink]
    | unspecified => trivial

theorem matchFromStart_unanchored (P : Pattern) (s : Subject) (fuel : Nat) (si : Int) (h : P.startAnchor = false) :
    matchFromStart P s fuel si 0 = matchGo P s fuel si 0 := by
  unfold matchFromStart matchGo findFromStart
  simp [h]

/-- what `luaGsub` returns from a final state of the loop -/
theorem luaGsub_of_done (s : Subject) (stF : GsubState) (hw : stF.wrote = false → stF.out = [] ∧ stF.sj = 0)
    (h0 : 0 ≤ stF.sj) (h1 : stF.sj ≤ s.size) :
    (if !stF.wrote then Gsub.LRes.vals [.str s.toList, .int stF.matchCount]
      else if stF.sj < s.size then
        match sliceE s stF.sj s.size with
        | .error w => .panic w
        | .ok tail => .vals [.str (stF.out ++ tail), .int stF.matchCount]
      else .vals [.str stF.out, .int stF.matchCount]) = .vals [.str (V s stF), .int stF.matchCount] := by
  obtain ⟨j, hj⟩ : ∃ j : Nat, stF.sj = j := ⟨stF.sj.toNat, by omega⟩
  have hjs : j ≤ s.size := by omega
  unfold V
  rw [hj, Int.toNat_natCast]
  cases hwr : stF.wrote with
  | false =>
    obtain ⟨ho, hs⟩ := hw hwr
    have hj0 : j = 0 := by omega
    subst hj0
    have : s.toList.take s.size = s.toList := List.take_of_length_le (by simp)
    simp [ho, slice, this]
  | true =>
    simp only [Bool.not_true, Bool.false_eq_true, if_false]
    by_cases hlt : (j : Int) < (s.size : Int)
    · simp only [hlt, if_true]
      have := sliceE_nat s hjs (Nat.le_refl s.size)
      rw [this]
    · have : j = s.size := by omega
      simp [hlt, this, slice_self]

/-- GSUB ⊑ SPEC (unanchored pattern, no limit `n`): the substituted string is the Spec's; golua's count is at least the
    Spec's (it also counts the empty matches it rejects: the recorded defect `C15-gsub-count-rejected-empty`);
    a replacement the Spec rejects is an error in golua too; where the manual leaves the replacement open nothing is
    claimed -/
theorem luaGsub_refines (p : Array UInt8) (s : Subject) (repl : List UInt8) (pat : LuaPattern.Pat)
    (hparse : LuaPattern.parse p.toList = .ok pat) (hsize : p.size ≤ Generated.ByteSetTable.maxPatternSize)
    (hanch : pat.anchorStart = false) :
    match LuaPattern.strGsub s p.toList repl none with
    | .vals [.str out, .int cnt] => ∃ N, ∀ fuel, N ≤ fuel → ∃ cnt' : Nat,
        Gsub.luaGsub fuel s p repl none = .vals [.str out, .int cnt'] ∧ cnt ≤ (cnt' : Int)
    | .error => ∃ N, ∀ fuel, N ≤ fuel → Gsub.luaGsub fuel s p repl none = .replError
    | _ => True := by
  obtain ⟨P, hb, hp⟩ := patRel_of_build p pat hparse (parse_wf p.toList pat hparse) hsize
  obtain ⟨N, hN⟩ := link_of_patRel P s pat hp
  have hPa : P.startAnchor = false := by rw [← hp.anchorStart]; exact hanch
  unfold LuaPattern.strGsub
  simp only [LuaPattern.withPat, hparse, Option.getD]
  have hcore : ∀ fuel, N ≤ fuel →
      GRes s (fun si => (matchFromStart P s fuel si 0).captures) (Gsub.replString s repl) {} (s.size + 3)
        (LuaPattern.gsubLoop pat s repl (s.size + 1) (LuaPattern.gmatchFuel s) 0 none { out := [], count := 0 }) := by
    intro fuel hf
    have hl : Link pat s (fun si => (matchFromStart P s fuel si 0).captures) := by
      have := hN fuel hf
      simpa [matchFromStart_unanchored P s fuel _ hPa] using this
    refine gsub_core hl hanch (replString_link P s pat hp repl) _ {} 0 none _ (s.size + 3) ?_ ?_ ?_ ?_
    · exact .free 0 rfl rfl (Nat.le_refl _) (fun q a b => by omega) (fun l h => by cases h) (by simp)
    · exact ⟨⟨0, rfl, Nat.le_refl _, by simp [slice_self]⟩, Nat.zero_le _, fun _ => ⟨rfl, rfl⟩, Nat.le_refl _,
        ⟨by simp, fun h => by simp at h⟩⟩
    · unfold specFuel LuaPattern.gmatchFuel; simp; omega
    · simp
  cases hres : LuaPattern.gsubLoop pat s repl (s.size + 1) (LuaPattern.gmatchFuel s) 0 none { out := [], count := 0 } with
  | error e =>
    cases e with
    | malformed =>
      simp only
      refine ⟨N, fun fuel hf => ?_⟩
      have := hcore fuel hf
      rw [hres] at this
      simp only [GRes] at this
      unfold Gsub.luaGsub Gsub.gsubRun
      simp only [hb, hPa, this]
    | unspecified => trivial
  | ok accF =>
    simp only
    refine ⟨N, fun fuel hf => ?_⟩
    have := hcore fuel hf
    rw [hres] at this
    obtain ⟨stF, h1, h2, h3, h4, h5, h6⟩ := this
    refine ⟨stF.matchCount, ?_, by omega⟩
    unfold Gsub.luaGsub Gsub.gsubRun
    simp only [hb, hPa, h1]
    have e := luaGsub_of_done s stF h4 h5 h6
    rw [h2] at e
    exact e

/-- GSUB ⊑ SPEC for a pattern anchored with `^` (no limit `n`): exactly the Spec's result, count included -/
theorem luaGsub_anchored_refines (p : Array UInt8) (s : Subject) (repl : List UInt8) (pat : LuaPattern.Pat)
    (hparse : LuaPattern.parse p.toList = .ok pat) (hsize : p.size ≤ Generated.ByteSetTable.maxPatternSize)
    (hanch : pat.anchorStart = true) :
    match LuaPattern.strGsub s p.toList repl none with
    | .vals vs => ∃ N, ∀ fuel, N ≤ fuel → Gsub.luaGsub fuel s p repl none = .vals vs
    | .error => ∃ N, ∀ fuel, N ≤ fuel → Gsub.luaGsub fuel s p repl none = .replError
    | .unspecified => True := by
  obtain ⟨P, hb, hp⟩ := patRel_of_build p pat hparse (parse_wf p.toList pat hparse) hsize
  have hPa : P.startAnchor = true := by rw [← hp.anchorStart]; exact hanch
  obtain ⟨N, hN⟩ := matchFromStart_refines P s pat hp 0 (Nat.zero_le _)
  -- the single attempt at the start of the subject
  have hmat : ∀ fuel, N ≤ fuel → (matchFromStart P s fuel (0 : Int) 0).captures =
      (LuaPattern.matchAt pat s 0).map toCaptures := by
    intro fuel hf
    have := (hN fuel hf).1
    unfold LuaPattern.findParsed at this
    have e0 : ((0 : Nat) : Int) = 0 := rfl
    rw [e0] at this
    simpa [hanch] using this
  unfold LuaPattern.strGsub
  simp only [LuaPattern.withPat, hparse, Option.getD]
  unfold LuaPattern.gmatchFuel
  rw [show 2 * s.size + 4 = (2 * s.size + 3) + 1 from rfl, LuaPattern.gsubLoop]
  have hlim : ¬ ((0 : Nat) ≥ s.size + 1) := by omega
  simp only [hlim, if_false, hanch, if_true]
  cases hm : LuaPattern.matchAt pat s 0 with
  | none =>
    simp only
    by_cases hlt : 0 < s.size
    · simp only [hlt, if_true, List.nil_append]
      refine ⟨N, fun fuel hf => ?_⟩
      unfold Gsub.luaGsub Gsub.gsubRun
      simp only [hb]
      rw [Gsub.gsubLoop]
      have h0 := hmat fuel hf
      rw [hm] at h0
      simp only [Option.map] at h0
      simp [h0]
      have h1 := slice_one s hlt
      have h2 := slice_append s (Nat.zero_le 1) (show 1 ≤ s.size by omega)
      have h3 : slice s 0 s.size = s.toList := by
        have : s.toList.take s.size = s.toList := List.take_of_length_le (by simp)
        simp [slice, this]
      rw [show s[0]! :: slice s 1 s.size = [s[0]!] ++ slice s 1 s.size from rfl, ← h1, h2, h3]
    · simp only [hlt, if_false]
      refine ⟨N, fun fuel hf => ?_⟩
      unfold Gsub.luaGsub Gsub.gsubRun
      simp only [hb]
      rw [Gsub.gsubLoop]
      have h0 := hmat fuel hf
      rw [hm] at h0
      simp only [Option.map] at h0
      simp [h0]
      have : s.size = 0 := by omega
      exact Array.eq_empty_of_size_eq_zero this
  | some m =>
    obtain ⟨h1, h2, h3, h4⟩ := matchAt_caps_ok P s pat hp 0 (Nat.zero_le _) m hm
    have hne : (some m.stop != (none : Option Nat)) = true := rfl
    simp only [hne, if_true]
    have hlink := replString_link P s pat hp repl 0 m (Nat.zero_le _) hm
    cases he : LuaPattern.expandRepl s m repl with
    | error e =>
      rw [he] at hlink
      cases e with
      | malformed =>
        simp only at hlink ⊢
        refine ⟨N, fun fuel hf => ?_⟩
        unfold Gsub.luaGsub Gsub.gsubRun
        simp only [hb]
        rw [Gsub.gsubLoop]
        have h0 := hmat fuel hf
        rw [hm] at h0
        simp only [Option.map, toCaptures] at h0
        simp only [toCaptures] at hlink
        simp [h0, hlink]
      | unspecified => trivial
    | ok r =>
      rw [he] at hlink
      simp only at hlink ⊢
      refine ⟨N, fun fuel hf => ?_⟩
      unfold Gsub.luaGsub Gsub.gsubRun
      simp only [hb]
      rw [Gsub.gsubLoop]
      have h0 := hmat fuel hf
      rw [hm] at h0
      simp only [Option.map, toCaptures] at h0
      simp only [toCaptures] at hlink
      have hsl : sliceE s (0 : Int) (m.start : Int) = .ok [] := by
        rw [h1]; exact sliceE_nat s (Nat.le_refl 0) (Nat.zero_le _)
      simp only [h0, hlink, hPa, if_true]
      by_cases hlt : m.stop < s.size
      · have hlt' : (m.stop : Int) < (s.size : Int) := by omega
        have hsl2 := sliceE_nat s h3 (Nat.le_refl s.size)
        simp [hsl, advance, hlt, hlt', hsl2]
      · have hms : m.stop = s.size := by omega
        simp [hsl, advance, hms, slice_self]

end GoluaVerif.Model.PatMatch
