/-
  Proofs.LimitsLemmas — lemmas about Model.Limits.allocReg / allocLive used by Props/C04.lean.
-/
import GoluaVerif.Model.Limits
namespace GoluaVerif.Proofs.LimitsLemmas
open GoluaVerif.Model.Limits

theorem firstFree_replicate_one (k : Nat) : firstFree (List.replicate k 1) = none := by
  induction k with
  | zero => rfl
  | succ k ih => simp [List.replicate_succ, firstFree, ih]

theorem take_new (k : Nat) : take (List.replicate k 1 ++ [0]) k = List.replicate (k + 1) 1 := by
  unfold take
  have h1 : (List.replicate k 1 ++ [0]).getD k 0 = 0 := by
    simp [List.getD_eq_getElem?_getD]
  rw [h1]
  have : (List.replicate k 1 ++ [0]).set k (0 + 1) = List.replicate k 1 ++ [1] := by
    rw [List.set_append_right _ _ (by simp)]
    simp
  rw [this, List.replicate_succ']

/-- allocating n more live registers when k ≤ 255 are live (all use counts 1) -/
theorem allocLive_replicate (n k : Nat) (hk255 : k ≤ 255) :
    allocLive n (List.replicate k 1) =
      if k + n ≤ 255 then .ok (List.replicate (k + n) 1) else .error (panicAt "ircomp" "allocReg") := by
  induction n generalizing k with
  | zero => simp [allocLive, hk255]
  | succ n ih =>
    simp only [allocLive, allocReg, firstFree_replicate_one, List.length_replicate]
    by_cases hk : k = 255
    · subst hk
      simp
    · simp only [hk, if_false]
      rw [take_new, ih (k + 1) (by omega)]
      have e : k + 1 + n = k + (n + 1) := by omega
      rw [e]

theorem liveRegsOutcome_eq (n : Nat) :
    liveRegsOutcome n = if n ≤ 255 then .ok else compileQueueRecover (panicAt "ircomp" "allocReg") := by
  unfold liveRegsOutcome
  have := allocLive_replicate n 0 (by omega)
  simp only [List.replicate_zero, Nat.zero_add] at this
  rw [this]
  by_cases h : n ≤ 255
  · simp [h]
  · simp [h]

theorem toInt_ofInt_small (k : Nat) (h : k < 2 ^ 62) : (BitVec.ofInt 64 (k : Int)).toInt = k := by
  rw [BitVec.toInt_ofInt]; apply Int.bmod_eq_of_le <;> omega

end GoluaVerif.Proofs.LimitsLemmas
