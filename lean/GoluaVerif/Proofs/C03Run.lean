/-
  Proofs.C03Run — operation histories: every history keeps `Inv` and refines `Spec.Map`.
-/
import GoluaVerif.Proofs.C03InsertMixed
namespace GoluaVerif.Model.Table
open GoluaVerif.Spec (Key Val Map)

/-- the mutating operations of `runtime.Table` -/
inductive Op where
  /-- `Table.Set(k, v)` (`v = none`: nil) -/
  | set (k : Key) (v : Option Val)
  /-- `Table.Reset(k, v)` -/
  | reset (k : Key) (v : Option Val)
  deriving Repr

/-- what the manual says the operation does to the abstract table -/
def Op.spec (m : Map) : Op → Map
  | .set k v => m.update k.norm v
  | .reset k v => (m.reset k.norm v).1

section
variable (hash : Key → Nat)

def step (t : Mixed) : Op → Option Mixed
  | .set k v => tset hash t k v
  | .reset k v => (treset hash t k v).map (·.1)

def run (t : Mixed) : List Op → Option Mixed
  | [] => some t
  | op :: ops => (step hash t op).bind (fun t' => run t' ops)

def specRun (m : Map) : List Op → Map
  | [] => m
  | op :: ops => specRun (op.spec m) ops

theorem step_inv (hins : HashedInsertOK hash) (hmig : ArrayMigrationOK hash) (t : Mixed) (inv : Inv hash t) (op : Op) :
    ∃ t', step hash t op = some t' ∧ Inv hash t' := by
  cases op with
  | set k v =>
    cases v with
    | none =>
      obtain ⟨t', e, i, _, _⟩ := remove_spec hash t inv k
      exact ⟨t', by simp [step, tset, e], i⟩
    | some v =>
      obtain ⟨t', e, i, _, _⟩ := insert_spec hash hins hmig t inv k v
      exact ⟨t', by simp [step, tset, e], i⟩
  | reset k v =>
    cases v with
    | none =>
      obtain ⟨t', e, i, _, _⟩ := remove_spec hash t inv k
      exact ⟨t', by simp [step, treset, e], i⟩
    | some v =>
      obtain ⟨t', w, e, i, _⟩ := reset_inv hash t inv k v
      exact ⟨t', by simp [step, treset, e], i⟩

theorem step_refines (hins : HashedInsertOK hash) (hmig : ArrayMigrationOK hash) (t : Mixed) (inv : Inv hash t)
    (op : Op) :
    ∃ t', step hash t op = some t' ∧ Inv hash t' ∧ ∀ k, abs t' k = op.spec (abs t) k := by
  cases op with
  | set k v =>
    cases v with
    | none =>
      obtain ⟨t', e, i, a, _⟩ := remove_spec hash t inv k
      exact ⟨t', by simp [step, tset, e], i, fun k' => by rw [a k']; rfl⟩
    | some v =>
      obtain ⟨t', e, i, a, _⟩ := insert_spec hash hins hmig t inv k v
      exact ⟨t', by simp [step, tset, e], i, fun k' => by rw [a k']; rfl⟩
  | reset k v =>
    cases v with
    | none =>
      obtain ⟨t', e, i, a, _⟩ := remove_spec hash t inv k
      refine ⟨t', by simp [step, treset, e], i, fun k' => ?_⟩
      rw [a k']
      simp only [Op.spec, Map.reset]
      by_cases hs : (abs t k.norm).isSome = true
      · simp [hs, Map.update]
      · simp only [hs, Bool.false_eq_true, if_false]
        split
        · rename_i e'; subst e'
          cases h : abs t k.norm with
          | none => rfl
          | some x => simp [h] at hs
        · rfl
    | some v =>
      obtain ⟨t', e, i, a, _⟩ := reset_spec hash t inv k v
      refine ⟨t', by simp [step, treset, e], i, fun k' => ?_⟩
      rw [a k']
      simp only [Op.spec, Map.reset]
      by_cases hs : (abs t k.norm).isSome = true
      · simp [hs, Map.update]
      · simp [hs]

/-- every operation history from the empty table keeps the invariant (no bound on the length) -/
theorem run_inv (hins : HashedInsertOK hash) (hmig : ArrayMigrationOK hash) (ops : List Op) :
    ∀ t, Inv hash t → ∃ t', run hash t ops = some t' ∧ Inv hash t' := by
  induction ops with
  | nil => intro t inv; exact ⟨t, rfl, inv⟩
  | cons op ops ih =>
    intro t inv
    obtain ⟨t1, e1, i1⟩ := step_inv hash hins hmig t inv op
    obtain ⟨t', e', i'⟩ := ih t1 i1
    exact ⟨t', by simp [run, e1, e'], i'⟩

theorem run_refines (hins : HashedInsertOK hash) (hmig : ArrayMigrationOK hash) (ops : List Op) :
    ∀ t, Inv hash t → ∃ t', run hash t ops = some t' ∧ Inv hash t' ∧ ∀ k, abs t' k = specRun (abs t) ops k := by
  induction ops with
  | nil => intro t inv; exact ⟨t, rfl, inv, fun _ => rfl⟩
  | cons op ops ih =>
    intro t inv
    obtain ⟨t1, e1, i1, a1⟩ := step_refines hash hins hmig t inv op
    obtain ⟨t', e', i', a'⟩ := ih t1 i1
    refine ⟨t', by simp [run, e1, e'], i', fun k => ?_⟩
    rw [a' k]
    have : abs t1 = op.spec (abs t) := funext a1
    simp only [specRun, this]

end
end GoluaVerif.Model.Table
