/-
  Proofs.C18Inv — the pool invariant: markOrders are fresh, the register is ascending in
  markOrder, and no marking epoch can be handed out twice (for finalisation or for release).
  Preserved by EVERY pool operation, hence true after every history.
-/
import GoluaVerif.Proofs.C18Sort
namespace GoluaVerif.Proofs.C18
open GoluaVerif.Spec.Gc GoluaVerif.Model.ClonePool

def regL (p : Pool) : List Entry := p.reg.getD []

structure Inv (p : Pool) : Prop where
  regLe : ∀ e ∈ regL p, e.order ≤ p.last
  regAsc : (regL p).Pairwise (fun a b => a.order < b.order)
  pfLe : ∀ e ∈ p.pf, e.order ≤ p.last
  prLe : ∀ e ∈ p.pr, e.order ≤ p.last
  finLe : ∀ n ∈ finOrders p.tr, n ≤ p.last
  relLe : ∀ n ∈ relOrders p.tr, n ≤ p.last
  finNodup : (finOrders p.tr).Nodup
  pfNodup : (ords p.pf).Nodup
  pfFresh : ∀ e ∈ p.pf, e.order ∉ finOrders p.tr
  regFresh : ∀ e ∈ regL p, e.fin = false → e.order ∉ finOrders p.tr ∧ e.order ∉ ords p.pf
  relNodup : (relOrders p.tr).Nodup
  prNodup : (ords p.pr).Nodup
  prFresh : ∀ e ∈ p.pr, e.order ∉ relOrders p.tr
  regRel : ∀ e ∈ regL p, e.order ∉ relOrders p.tr ∧ e.order ∉ ords p.pr

theorem Inv.congr {p q : Pool} (h1 : p.reg = q.reg) (h2 : p.last = q.last) (h3 : p.pf = q.pf)
    (h4 : p.pr = q.pr) (h5 : p.tr = q.tr) (hi : Inv p) : Inv q := by
  cases hi
  constructor <;> simp only [regL, ← h1, ← h2, ← h3, ← h4, ← h5] <;> assumption

/-! `register` only touches the Go finaliser table -/
@[simp] theorem register_reg (p : Pool) (o : Obj) : (register p o).reg = p.reg := by
  unfold register; split <;> rfl
@[simp] theorem register_last (p : Pool) (o : Obj) : (register p o).last = p.last := by
  unfold register; split <;> rfl
@[simp] theorem register_pf (p : Pool) (o : Obj) : (register p o).pf = p.pf := by
  unfold register; split <;> rfl
@[simp] theorem register_pr (p : Pool) (o : Obj) : (register p o).pr = p.pr := by
  unfold register; split <;> rfl
@[simp] theorem register_tr (p : Pool) (o : Obj) : (register p o).tr = p.tr := by
  unfold register; split <;> rfl
@[simp] theorem register_panics (p : Pool) (o : Obj) : (register p o).panics = p.panics := by
  unfold register; split <;> rfl
@[simp] theorem register_pid (p : Pool) (o : Obj) : (register p o).pid = p.pid := by
  unfold register; split <;> rfl

theorem registerNew_core (p : Pool) (o : Obj) :
    (registerNew p o).reg = p.reg ∧ (registerNew p o).last = p.last ∧ (registerNew p o).pf = p.pf ∧
    (registerNew p o).pr = p.pr ∧ (registerNew p o).tr = p.tr ∧ (registerNew p o).panics = p.panics ∧
    (registerNew p o).pid = p.pid := by
  unfold registerNew
  simp [clearFinalizer]

@[simp] theorem registerNew_reg (p : Pool) (o : Obj) : (registerNew p o).reg = p.reg := (registerNew_core p o).1
@[simp] theorem registerNew_last (p : Pool) (o : Obj) : (registerNew p o).last = p.last := (registerNew_core p o).2.1
@[simp] theorem registerNew_pf (p : Pool) (o : Obj) : (registerNew p o).pf = p.pf := (registerNew_core p o).2.2.1
@[simp] theorem registerNew_pr (p : Pool) (o : Obj) : (registerNew p o).pr = p.pr := (registerNew_core p o).2.2.2.1
@[simp] theorem registerNew_tr (p : Pool) (o : Obj) : (registerNew p o).tr = p.tr := (registerNew_core p o).2.2.2.2.1
@[simp] theorem registerNew_panics (p : Pool) (o : Obj) : (registerNew p o).panics = p.panics := (registerNew_core p o).2.2.2.2.2.1
@[simp] theorem registerNew_pid (p : Pool) (o : Obj) : (registerNew p o).pid = p.pid := (registerNew_core p o).2.2.2.2.2.2

/-- a new registration never makes the Go runtime throw -/
theorem registerNew_fatal (p : Pool) (o : Obj) : (registerNew p o).fatal = p.fatal := by
  unfold registerNew register clearFinalizer
  simp

theorem foldl_register_core (l : List Entry) (p : Pool) :
    let q := l.foldl (fun q e => register q e.val) p
    q.reg = p.reg ∧ q.last = p.last ∧ q.pf = p.pf ∧ q.pr = p.pr ∧ q.tr = p.tr ∧ q.panics = p.panics ∧ q.pid = p.pid := by
  induction l generalizing p with
  | nil => simp
  | cons e t ih =>
    have := ih (register p e.val)
    simp only [List.foldl_cons]
    simpa using this

/-! register lists -/
theorem asc_inj {l : List Entry} (h : l.Pairwise (fun a b => a.order < b.order)) {x y : Entry}
    (hx : x ∈ l) (hy : y ∈ l) (hxy : x.order = y.order) : x = y := by
  induction l with
  | nil => cases hx
  | cons a t ih =>
    have hc := List.pairwise_cons.mp h
    rcases List.mem_cons.mp hx with hxa | hxt <;> rcases List.mem_cons.mp hy with hya | hyt
    · rw [hxa, hya]
    · have := hc.1 y hyt; rw [hxa] at hxy; omega
    · have := hc.1 x hxt; rw [hya] at hxy; omega
    · exact ih hc.2 hxt hyt

theorem asc_nodup {l : List Entry} (h : l.Pairwise (fun a b => a.order < b.order)) : (ords l).Nodup := by
  unfold ords
  rw [List.Nodup, List.pairwise_map]
  exact h.imp (fun h => Nat.ne_of_lt h)

theorem mem_regErase {rg : List Entry} {k : Nat} {x : Entry} (h : x ∈ regErase rg k) :
    x ∈ rg ∧ x.val.key ≠ k := by
  unfold regErase at h
  have := List.mem_filter.mp h
  refine ⟨this.1, ?_⟩
  simpa using this.2

theorem regErase_asc {rg : List Entry} (k : Nat) (h : rg.Pairwise (fun a b => a.order < b.order)) :
    (regErase rg k).Pairwise (fun a b => a.order < b.order) :=
  h.sublist List.filter_sublist

theorem mem_setFin {rg : List Entry} {k : Nat} {x : Entry} (h : x ∈ setFin rg k) :
    ∃ y ∈ rg, x.order = y.order ∧ (x.fin = false → x = y ∧ y.val.key ≠ k) := by
  unfold setFin at h
  obtain ⟨y, hy, rfl⟩ := List.mem_map.mp h
  refine ⟨y, hy, ?_, ?_⟩
  · split <;> rfl
  · split
    · intro hf; simp at hf
    · rename_i hk
      intro _; exact ⟨rfl, by simpa using hk⟩

theorem setFin_asc {rg : List Entry} (k : Nat) (h : rg.Pairwise (fun a b => a.order < b.order)) :
    (setFin rg k).Pairwise (fun a b => a.order < b.order) := by
  unfold setFin
  rw [List.pairwise_map]
  refine h.imp ?_
  intro a b hab
  split <;> split <;> exact hab

theorem mem_setFinAll {rg : List Entry} {x : Entry} (h : x ∈ setFinAll rg) :
    (∃ y ∈ rg, x.order = y.order) ∧ x.fin = true := by
  unfold setFinAll at h
  obtain ⟨y, hy, rfl⟩ := List.mem_map.mp h
  exact ⟨⟨y, hy, rfl⟩, rfl⟩

theorem setFinAll_asc {rg : List Entry} (h : rg.Pairwise (fun a b => a.order < b.order)) :
    (setFinAll rg).Pairwise (fun a b => a.order < b.order) := by
  unfold setFinAll
  rw [List.pairwise_map]
  exact h

theorem regLookup_mem {rg : List Entry} {k : Nat} {e : Entry} (h : regLookup rg k = some e) :
    e ∈ rg ∧ e.val.key = k := by
  unfold regLookup at h
  exact ⟨List.mem_of_find?_eq_some h, by simpa using List.find?_some h⟩

theorem mem_ords {l : List Entry} {n : Nat} : n ∈ ords l ↔ ∃ e ∈ l, e.order = n := by
  unfold ords; simp

theorem Inv.init (pid : Nat) : Inv { pid := pid } := by
  constructor <;> simp [regL, finOrders, relOrders, ords]

end GoluaVerif.Proofs.C18
