/-
  Proofs.PatRefine — the iterative machine of Model.PatMatch simulates the recursive
  search of Spec.LuaPattern (items without captures: single-character items with
  `* + - ?`, `%b`, `%f`, end anchor).
-/
import GoluaVerif.Proofs.PatMatchBasic
import GoluaVerif.Proofs.ByteSet
import GoluaVerif.Spec.LuaPattern
namespace GoluaVerif.Model.PatMatch
open GoluaVerif.Model GoluaVerif.Spec

variable (P : Pattern) (s : Subject)

/-- `n` running steps lead from `m` to `m'` -/
def Reaches (m m' : M) : Prop := ∃ n, ∀ fuel, run P s (fuel + n) m = run P s fuel m'

theorem Reaches.refl (m : M) : Reaches P s m m := ⟨0, fun _ => rfl⟩

theorem Reaches.trans {a b c : M} (h1 : Reaches P s a b) (h2 : Reaches P s b c) : Reaches P s a c := by
  obtain ⟨n1, h1⟩ := h1
  obtain ⟨n2, h2⟩ := h2
  refine ⟨n2 + n1, fun fuel => ?_⟩
  rw [← Nat.add_assoc, h1, h2]

theorem run_succ (fuel : Nat) (m : M) : run P s (fuel + 1) m =
    (step P s m).bind fun x => match x.1 with
      | .running => run P s fuel x.2
      | .matched => .ok (true, x.2)
      | .failed => .ok (false, x.2) := by
  rw [run]
  rfl

theorem Reaches.of_step {m m' : M} (h : step P s m = .ok (.running, m')) : Reaches P s m m' := by
  refine ⟨1, fun fuel => ?_⟩
  rw [run_succ, h]
  rfl

/-- the machine with the step counter bumped (first line of `step`) -/
def tick (m : M) : M := { m with steps := m.steps + 1 }

theorem step_item {m : M} {it : PItem} (h : P.items[m.pi]? = some it) (hb : m.budget = 0) :
    step P s m = (matchStep P.items.size s it (tick m)).bind fun m' => .ok (.running, m') := by
  have hlt : m.pi < P.items.size := by
    rcases Array.getElem?_eq_some_iff.mp h with ⟨hh, _⟩; exact hh
  have hit : P.items[m.pi] = it := by
    rcases Array.getElem?_eq_some_iff.mp h with ⟨_, hh⟩; exact hh
  unfold step
  have hc : consumeBudget { m with steps := m.steps + 1 } = .ok (tick m) := consumeBudget_zero _ hb
  simp only [hc, bind, Except.bind, tick]
  simp only [hlt, dite_true, hit]
  rfl

theorem tick_si (m : M) : (tick m).si = m.si := rfl
theorem tick_pi (m : M) : (tick m).pi = m.pi := rfl
theorem tick_tbs (m : M) : (tick m).tbs = m.tbs := rfl
theorem tick_caps (m : M) : (tick m).caps = m.caps := rfl
theorem tick_budget (m : M) : (tick m).budget = m.budget := rfl

/-- the state after a greedy item (`*`, or `+` after its first byte): `k` more bytes consumed, next item,
    and one trackback entry if `k > 0` -/
def afterGreedy (m : M) (p0 k : Nat) : M :=
  let m1 : M := { advN m k with pi := m.pi + 1 }
  if k > 0 then addTrackback m1 p0 else m1

theorem step_once {m : M} {set : ByteSet} {p : Nat} (h : P.items[m.pi]? = some ⟨set, .once⟩)
    (hsi : m.si = p) (hb : m.budget = 0) :
    step P s m = .ok (.running, if hit s set p then { adv (tick m) with pi := m.pi + 1 }
                                else trackback P.items.size (tick m)) := by
  rw [step_item P s h hb]
  unfold matchStep
  simp only
  rw [matchNext_eq s set (tick m) p hsi hb]
  by_cases hh : hit s set p = true <;> simp [hh, bind, Except.bind, pure, Except.pure, adv, tick]

theorem step_star {m : M} {set : ByteSet} {p : Nat} (h : P.items[m.pi]? = some ⟨set, .greedyRepeat⟩)
    (hsi : m.si = p) (hb : m.budget = 0) (hp : p ≤ s.size) :
    step P s m = .ok (.running, afterGreedy (tick m) p (runLenB s set p (s.size - p))) := by
  rw [step_item P s h hb]
  unfold matchStep
  simp only
  rw [greedyLoop_eq s set (s.size + 2) (tick m) p hsi hb hp (by omega)]
  generalize runLenB s set p (s.size - p) = k
  simp only [bind, Except.bind, pure, Except.pure, afterGreedy, tick_si, hsi]
  have hsi' : (advN (tick m) k).si = (p : Int) + k := by simp [advN, tick_si, hsi]
  by_cases hk : k > 0
  · have : ((p : Int) < (advN (tick m) k).si) := by rw [hsi']; omega
    simp only [this, if_true, hk]
    rfl
  · have hk0 : k = 0 := by omega
    subst hk0
    simp [advN_zero, tick_si, hsi]

theorem step_plus {m : M} {set : ByteSet} {p : Nat} (h : P.items[m.pi]? = some ⟨set, .greedyRepeatOnce⟩)
    (hsi : m.si = p) (hb : m.budget = 0) (hp : p ≤ s.size) :
    step P s m = .ok (.running,
      if hit s set p then afterGreedy (adv (tick m)) (p + 1) (runLenB s set (p + 1) (s.size - (p + 1)))
      else trackback P.items.size (tick m)) := by
  rw [step_item P s h hb]
  unfold matchStep
  simp only
  rw [matchNext_eq s set (tick m) p hsi hb]
  by_cases hh : hit s set p = true
  · have hlt := hit_lt hh
    have hsi1 : (adv (tick m)).si = ((p + 1 : Nat) : Int) := by simp [adv, tick_si, hsi]
    simp only [hh, if_true, bind, Except.bind, Bool.not_true, Bool.false_eq_true, if_false]
    rw [greedyLoop_eq s set (s.size + 2) (adv (tick m)) (p + 1) hsi1 (by simp [adv, tick_budget, hb]) (by omega) (by omega)]
    generalize runLenB s set (p + 1) (s.size - (p + 1)) = k
    simp only [pure, Except.pure, afterGreedy, hsi1]
    have hsi' : (advN (adv (tick m)) k).si = ((p + 1 : Nat) : Int) + k := by simp [advN, hsi1]
    by_cases hk : k > 0
    · have : (((p + 1 : Nat) : Int) < (advN (adv (tick m)) k).si) := by rw [hsi']; omega
      simp only [this, if_true, hk]
      rfl
    · have hk0 : k = 0 := by omega
      subst hk0
      simp [advN_zero, hsi1]
  · simp [hh, bind, Except.bind, pure, Except.pure]

/-- the state after a lazy item whose class matches at `p`: stay at `p`, go on with the next item, and leave an
    entry that re-enters THIS item at `p + 1` -/
def lazyHit (m : M) (p : Nat) : M :=
  { adv m with si := p, pi := m.pi + 1, tbs := ⟨(p : Int) + 1, m.pi, (p : Int) + 1⟩ :: m.tbs }

theorem step_lazy {m : M} {set : ByteSet} {p : Nat} (h : P.items[m.pi]? = some ⟨set, .repeat_⟩)
    (hsi : m.si = p) (hb : m.budget = 0) :
    step P s m = .ok (.running, if hit s set p then lazyHit (tick m) p else { tick m with pi := m.pi + 1 }) := by
  rw [step_item P s h hb]
  unfold matchStep
  simp only
  rw [matchNext_eq s set (tick m) p hsi hb]
  by_cases hh : hit s set p = true
  · simp only [hh, if_true, bind, Except.bind, pure, Except.pure, lazyHit, addTrackback, adv, tick_si, hsi, tick_pi, tick_tbs]
    congr 3
    omega
  · simp [hh, bind, Except.bind, pure, Except.pure, tick_pi]

/-- the state after an optional item whose class matches at `p` -/
def optHit (m : M) (p : Nat) : M :=
  { adv m with pi := m.pi + 1, tbs := ⟨(p : Int) + 1, m.pi + 1, (p : Int)⟩ :: m.tbs }

theorem step_opt {m : M} {set : ByteSet} {p : Nat} (h : P.items[m.pi]? = some ⟨set, .optional⟩)
    (hsi : m.si = p) (hb : m.budget = 0) :
    step P s m = .ok (.running, if hit s set p then optHit (tick m) p else { tick m with pi := m.pi + 1 }) := by
  rw [step_item P s h hb]
  unfold matchStep
  simp only
  rw [matchNext_eq s set { tick m with pi := (tick m).pi + 1 } p hsi hb]
  by_cases hh : hit s set p = true
  · simp only [hh, if_true, bind, Except.bind, pure, Except.pure, optHit, addTrackback, adv, tick_si, hsi, tick_pi, tick_tbs]
  · simp [hh, bind, Except.bind, pure, Except.pure, tick_pi]

/-- byte before `q` / at `q` as the frontier test sees them (`0` outside the subject) -/
def prevByte (q : Nat) : UInt8 := if q = 0 then 0 else (s[q - 1]?).getD 0
def nextByte (q : Nat) : UInt8 := (s[q]?).getD 0

theorem step_frontier {m : M} {set : ByteSet} {q : Nat} (h : P.items[m.pi]? = some ⟨set, .frontier⟩)
    (hsi : m.si = q) (hq : q ≤ s.size) (hb : m.budget = 0) :
    step P s m = .ok (.running,
      if set.contains (prevByte s q) || !set.contains (nextByte s q) then trackback P.items.size (tick m)
      else { tick m with pi := m.pi + 1 }) := by
  rw [step_item P s h hb]
  unfold matchStep
  simp only [tick_si, hsi]
  have hp : (if (q : Int) > 0 then byteAt s ((q : Int) - 1) else (pure 0 : R UInt8)) = .ok (prevByte s q) := by
    unfold prevByte
    by_cases h0 : q = 0
    · subst h0; simp [pure, Except.pure]
    · have h1 : (q : Int) > 0 := by omega
      have e : (q : Int) - 1 = ((q - 1 : Nat) : Int) := by omega
      simp only [h1, if_true, h0, if_false, e]
      rw [byteAt_nat]
      have : q - 1 < s.size := by omega
      simp [this]
  have hn : (if (q : Int) < (s.size : Int) then byteAt s (q : Int) else (pure 0 : R UInt8)) = .ok (nextByte s q) := by
    unfold nextByte
    by_cases h0 : q < s.size
    · have h1 : (q : Int) < (s.size : Int) := by omega
      simp only [h1, if_true]
      rw [byteAt_nat]
      simp [h0]
    · have h1 : ¬ ((q : Int) < (s.size : Int)) := by omega
      have : s[q]? = none := by simp; omega
      simp [h1, this, pure, Except.pure]
  rw [hp, hn]
  simp only [bind, Except.bind]
  by_cases hc : (set.contains (prevByte s q) || !set.contains (nextByte s q)) = true
  · simp only [hc, if_true, pure, Except.pure]
  · simp only [hc, Bool.false_eq_true, if_false, pure, Except.pure, tick_pi]

theorem lowByte_ofNat (x : UInt8) : lowByte (BitVec.ofNat 64 x.toNat) = x := by
  unfold lowByte
  have h : x.toNat < 256 := x.toNat_lt
  have h1 : x.toNat % 2 ^ 64 = x.toNat := Nat.mod_eq_of_lt (by omega)
  have h2 : x.toNat % 256 = x.toNat := Nat.mod_eq_of_lt h
  simp [BitVec.toNat_ofNat, h1, h2]

/-- the `BLoop` of `%b` against `matchbalance`: machine depth `d ≥ 1` is Spec depth `d - 1` -/
theorem balLoop_eq (n : Nat) (op cl : UInt8) : ∀ (fuel : Nat) (m : M) (p d F : Nat), m.si = p → m.budget = 0 →
    p ≤ s.size → 1 ≤ d → s.size + 1 ≤ fuel + p → s.size + 1 ≤ F + p →
    ∃ m', balLoop n s op cl fuel d m = .ok m' ∧
      match LuaPattern.balance s op cl p (d - 1) F with
      | some e => m'.si = e ∧ p < e ∧ e ≤ s.size ∧ m'.pi = m.pi + 1 ∧ m'.tbs = m.tbs ∧ m'.caps = m.caps ∧ m'.budget = 0
      | none => ∃ m'', m' = trackback n m'' ∧ m''.tbs = m.tbs ∧ m''.caps = m.caps ∧ m''.budget = 0 := by
  intro fuel
  induction fuel with
  | zero => intro m p d F _ _ hp _ hf _; omega
  | succ f ih =>
    intro m p d F hsi hb hp hd hf hF
    obtain ⟨F', rfl⟩ : ∃ F', F = F' + 1 := ⟨F - 1, by omega⟩
    unfold balLoop LuaPattern.balance
    rw [getNext_eq s m p hsi hb]
    simp only [bind, Except.bind]
    cases hs : s[p]? with
    | none =>
      have : ¬ (p < s.size) := by
        intro hlt; have : s[p]? = some s[p] := by simp [hlt]
        rw [this] at hs; cases hs
      simp only [this, if_false]
      exact ⟨_, rfl, m, rfl, rfl, rfl, hb⟩
    | some b =>
      have hlt : p < s.size := (Array.getElem?_eq_some_iff.mp hs).1
      simp only [hlt, if_true]
      have hsi' : (adv m).si = ((p + 1 : Nat) : Int) := by simp [adv, hsi]
      have hb' : (adv m).budget = 0 := by simp [adv, hb]
      by_cases hcl : (b == cl) = true
      · simp only [hcl, if_true]
        by_cases hd1 : d - 1 = 0
        · simp only [hd1, if_true, pure, Except.pure]
          refine ⟨_, rfl, ?_⟩
          simp [adv, hsi, hb]
          omega
        · simp only [hd1, if_false]
          obtain ⟨m', h1, h2⟩ := ih (adv m) (p + 1) (d - 1) F' hsi' hb' (by omega) (by omega) (by omega) (by omega)
          refine ⟨m', h1, ?_⟩
          cases hbal : LuaPattern.balance s op cl (p + 1) (d - 1 - 1) F' with
          | none => rw [hbal] at h2; simpa [adv] using h2
          | some e =>
            rw [hbal] at h2
            obtain ⟨a1, a2, a3, a4, a5, a6, a7⟩ := h2
            exact ⟨a1, by omega, a3, by simpa [adv] using a4, by simpa [adv] using a5, by simpa [adv] using a6, a7⟩
      · simp only [hcl, Bool.false_eq_true, if_false]
        by_cases hop : (b == op) = true
        · simp only [hop, if_true]
          obtain ⟨m', h1, h2⟩ := ih (adv m) (p + 1) (d + 1) F' hsi' hb' (by omega) (by omega) (by omega) (by omega)
          refine ⟨m', h1, ?_⟩
          have e : d + 1 - 1 = d - 1 + 1 := by omega
          rw [e] at h2
          cases hbal : LuaPattern.balance s op cl (p + 1) (d - 1 + 1) F' with
          | none => rw [hbal] at h2; simpa [adv] using h2
          | some e =>
            rw [hbal] at h2
            obtain ⟨a1, a2, a3, a4, a5, a6, a7⟩ := h2
            exact ⟨a1, by omega, a3, by simpa [adv] using a4, by simpa [adv] using a5, by simpa [adv] using a6, a7⟩
        · simp only [hop, Bool.false_eq_true, if_false]
          obtain ⟨m', h1, h2⟩ := ih (adv m) (p + 1) d F' hsi' hb' (by omega) (by omega) (by omega) (by omega)
          refine ⟨m', h1, ?_⟩
          cases hbal : LuaPattern.balance s op cl (p + 1) (d - 1) F' with
          | none => rw [hbal] at h2; simpa [adv] using h2
          | some e =>
            rw [hbal] at h2
            obtain ⟨a1, a2, a3, a4, a5, a6, a7⟩ := h2
            exact ⟨a1, by omega, a3, by simpa [adv] using a4, by simpa [adv] using a5, by simpa [adv] using a6, a7⟩

theorem step_bal {m : M} {x y : UInt8} {q : Nat}
    (h : P.items[m.pi]? = some ⟨PatBuild.wordsSet x.toNat y.toNat, .balanced⟩)
    (hsi : m.si = q) (hb : m.budget = 0) (hq : q ≤ s.size) :
    ∃ m', step P s m = .ok (.running, m') ∧
      match (if s[q]? == some x then LuaPattern.balance s x y (q + 1) 0 (s.size - q) else none) with
      | some e => m'.si = e ∧ q < e ∧ e ≤ s.size ∧ m'.pi = m.pi + 1 ∧ m'.tbs = m.tbs ∧ m'.caps = m.caps ∧ m'.budget = 0
      | none => ∃ m'', m' = trackback P.items.size m'' ∧ m''.tbs = m.tbs ∧ m''.caps = m.caps ∧ m''.budget = 0 := by
  rw [step_item P s h hb]
  unfold matchStep
  simp only [PatBuild.wordsSet, lowByte_ofNat]
  rw [getNext_eq s (tick m) q hsi hb]
  simp only [bind, Except.bind]
  by_cases hx : (s[q]? == some x) = true
  · have hx' : s[q]? = some x := by simpa using hx
    have hlt : q < s.size := (Array.getElem?_eq_some_iff.mp hx').1
    have hne : (s[q]? != some x) = false := by simp [hx']
    simp only [hne, Bool.false_eq_true, if_false, hlt, if_true, hx]
    obtain ⟨m', h1, h2⟩ := balLoop_eq s P.items.size x y (s.size + 2) (adv (tick m)) (q + 1) 1 (s.size - q)
      (by simp [adv, tick_si, hsi]) (by simp [adv, tick_budget, hb]) (by omega) (by omega) (by omega) (by omega)
    rw [h1]
    refine ⟨m', rfl, ?_⟩
    cases hbal : LuaPattern.balance s x y (q + 1) 0 (s.size - q) with
    | none =>
      have h2' : ∃ m'', m' = trackback P.items.size m'' ∧ m''.tbs = (adv (tick m)).tbs ∧
          m''.caps = (adv (tick m)).caps ∧ m''.budget = 0 := by
        have := h2; simp only [Nat.sub_self] at this; rw [hbal] at this; exact this
      obtain ⟨m'', a1, a2, a3, a4⟩ := h2'
      exact ⟨m'', a1, a2, a3, a4⟩
    | some e =>
      have h2' : m'.si = e ∧ q + 1 < e ∧ e ≤ s.size ∧ m'.pi = (adv (tick m)).pi + 1 ∧ m'.tbs = (adv (tick m)).tbs ∧
          m'.caps = (adv (tick m)).caps ∧ m'.budget = 0 := by
        have := h2; simp only [Nat.sub_self] at this; rw [hbal] at this; exact this
      obtain ⟨a1, a2, a3, a4, a5, a6, a7⟩ := h2'
      exact ⟨a1, by omega, a3, a4, a5, a6, a7⟩
  · have hne : (s[q]? != some x) = true := by
      cases hs : s[q]? with
      | none => rfl
      | some b => rw [hs] at hx; simp at hx ⊢; exact hx
    simp only [hne, if_true, hx, Bool.false_eq_true, if_false, pure, Except.pure]
    refine ⟨_, rfl, (if q < s.size then adv (tick m) else tick m), rfl, ?_, ?_, ?_⟩
    · split <;> rfl
    · split <;> rfl
    · split <;> simp [adv, tick_budget, hb]

theorem w0_wordsSet (n k : Nat) (hn : n < 10) : (PatBuild.wordsSet n k).w0.toNat = n := by
  simp only [PatBuild.wordsSet, BitVec.toNat_ofNat]
  exact Nat.mod_eq_of_lt (by omega)

theorem step_startCapture {m : M} {n : Nat} {q : Nat} (h : P.items[m.pi]? = some ⟨PatBuild.wordsSet n 0, .startCapture⟩)
    (hsi : m.si = q) (hn : n < 10) (hsz : m.caps.size = 10) (hb : m.budget = 0) :
    step P s m = .ok (.running, { tick m with caps := m.caps.setIfInBounds n ⟨q, -1⟩, pi := m.pi + 1 }) := by
  rw [step_item P s h hb]
  unfold matchStep
  simp only [w0_wordsSet n 0 hn, capSet, tick_caps, hsz, hn, if_true, bind, Except.bind, pure, Except.pure, tick_si, hsi,
    tick_pi]

theorem step_endCapture {m : M} {n : Nat} {q : Nat} {c : Capture}
    (h : P.items[m.pi]? = some ⟨PatBuild.wordsSet n 0, .endCapture⟩)
    (hsi : m.si = q) (hn : n < 10) (hsz : m.caps.size = 10) (hc : m.caps[n]? = some c) (hb : m.budget = 0) :
    step P s m = .ok (.running, { tick m with caps := m.caps.setIfInBounds n { c with stop := q }, pi := m.pi + 1 }) := by
  rw [step_item P s h hb]
  unfold matchStep
  simp only [w0_wordsSet n 0 hn, capAt, capSet, tick_caps, hc, hsz, hn, if_true, bind, Except.bind, pure, Except.pure,
    tick_si, hsi, tick_pi]

theorem getElem?_take_drop (l : List UInt8) (a len i : Nat) :
    ((l.drop a).take len)[i]? = if i < len then l[a + i]? else none := by
  rw [List.getElem?_take]
  split
  · rw [List.getElem?_drop]
  · rfl

theorem eqSlice_iff (a b len : Nat) (ha : a + len ≤ s.size) (hb : b + len ≤ s.size) :
    LuaPattern.eqSlice s a b len = decide ((s.toList.drop a).take len = (s.toList.drop b).take len) := by
  unfold LuaPattern.eqSlice
  apply Bool.eq_iff_iff.mpr
  rw [List.all_eq_true, decide_eq_true_iff]
  constructor
  · intro h
    apply List.ext_getElem?
    intro i
    rw [getElem?_take_drop, getElem?_take_drop]
    by_cases hi : i < len
    · simp only [hi, if_true]
      have := h i (List.mem_range.mpr hi)
      simp only [Bool.and_eq_true, beq_iff_eq] at this
      simpa using this.1
    · simp [hi]
  · intro h i hi
    have hi' := List.mem_range.mp hi
    have := congrArg (fun l => l[i]?) h
    simp only [getElem?_take_drop, hi', if_true] at this
    have h1 : a + i < s.size := by omega
    simp only [Bool.and_eq_true, beq_iff_eq]
    constructor
    · simpa using this
    · simp [h1]

/-- the machine state after a back-reference compared `k` bytes -/
def cmp (m : M) (k : Nat) : M := { m with compared := m.compared + k }

theorem step_capture {m : M} {n : Nat} {q a b : Nat} (h : P.items[m.pi]? = some ⟨PatBuild.wordsSet n 0, .capture⟩)
    (hsi : m.si = q) (hn : n < 10) (hc : m.caps[n]? = some ⟨a, b⟩) (hab : a ≤ b) (hbs : b ≤ s.size) (hq : q ≤ s.size)
    (hb : m.budget = 0) :
    step P s m = .ok (.running,
      if q + (b - a) ≤ s.size && LuaPattern.eqSlice s a q (b - a) then
        { cmp (tick m) (b - a) with si := ((q + (b - a) : Nat) : Int), pi := m.pi + 1 }
      else if q + (b - a) ≤ s.size then trackback P.items.size (cmp (tick m) (b - a))
      else trackback P.items.size (tick m)) := by
  rw [step_item P s h hb]
  unfold matchStep
  simp only [w0_wordsSet n 0 hn, capAt, tick_caps, hc, bind, Except.bind, tick_si, hsi]
  have e1 : (q : Int) + (b : Int) - (a : Int) = ((q + (b - a) : Nat) : Int) := by omega
  have e2 : ((b : Int) - (a : Int)).toNat = b - a := by omega
  have hb0 : (b : Int) ≥ 0 := by omega
  rw [e1, e2]
  by_cases hle : q + (b - a) ≤ s.size
  · have hle' : ((q + (b - a) : Nat) : Int) ≤ (s.size : Int) := by omega
    have hcond : ((b : Int) ≥ 0 ∧ ((q + (b - a) : Nat) : Int) ≤ (s.size : Int)) := ⟨hb0, hle'⟩
    simp only [hcond, and_self, if_true, hle, decide_true, Bool.true_and]
    rw [consumeBudgetN_zero (tick m) (b - a) (by simp [tick_budget, hb])]
    simp only
    have s1 : sliceChecked s (a : Int) (b : Int) = .ok ((s.toList.drop a).take (b - a)) := by
      unfold sliceChecked
      have : (0 : Int) ≤ a ∧ (a : Int) ≤ b ∧ (b : Int) ≤ (s.size : Int) := by omega
      simp [this]
    have s2 : sliceChecked s (q : Int) ((q + (b - a) : Nat) : Int) = .ok ((s.toList.drop q).take (b - a)) := by
      unfold sliceChecked
      have : (0 : Int) ≤ q ∧ (q : Int) ≤ ((q + (b - a) : Nat) : Int) ∧ ((q + (b - a) : Nat) : Int) ≤ (s.size : Int) := by omega
      simp only [this, and_self, if_true, Int.toNat_natCast]
      congr 2
      omega
    simp only [tick_si, hsi]
    rw [s1, s2, eqSlice_iff s a q (b - a) (by omega) hle]
    by_cases heq : (s.toList.drop a).take (b - a) = (s.toList.drop q).take (b - a)
    · simp [heq, pure, Except.pure, tick_pi, cmp]
    · simp [heq, pure, Except.pure, cmp, tick_si, hsi]
  · have hle' : ¬ (((q + (b - a) : Nat) : Int) ≤ (s.size : Int)) := by omega
    have hle'' : ¬ ((q : Int) + ((b - a : Nat) : Int) ≤ (s.size : Int)) := by omega
    simp [hle', hle'', hle, pure, Except.pure]

/-- `%n` where capture `n` is a position capture: the guard `c.end >= 0` fails, no match, no panic -/
theorem step_capture_pos {m : M} {n : Nat} {q a : Nat} (h : P.items[m.pi]? = some ⟨PatBuild.wordsSet n 0, .capture⟩)
    (hn : n < 10) (hc : m.caps[n]? = some ⟨a, -1⟩) (hb : m.budget = 0) :
    step P s m = .ok (.running, trackback P.items.size (tick m)) := by
  rw [step_item P s h hb]
  unfold matchStep
  simp only [w0_wordsSet n 0 hn, capAt, tick_caps, hc, bind, Except.bind]
  have : ¬ ((-1 : Int) ≥ 0 ∧ (tick m).si + -1 - (a : Int) ≤ (s.size : Int)) := by omega
  simp [this, pure, Except.pure]

/-! ## outcomes -/

abbrev SR := Option (Nat × LuaPattern.Caps)

/-- the machine has walked through all items and stands at `e`, where `matchToEnd` accepts -/
def Final (m' : M) (e : Nat) : Prop :=
  m'.pi = P.items.size ∧ m'.si = e ∧ e ≤ s.size ∧ (P.endAnchor = true → e = s.size) ∧ m'.budget = 0

/-- what the machine does from `m` when the recursive search from the same point yields `r`:
    success → it reaches a final state at the same end position, its captures related (`Z`) to the Spec's;
    failure → it reaches exactly the state produced by `trackback()` on the stack `tbs`, its captures still
              satisfying `A` (the machine does not restore captures: what is left is garbage only where `A`
              does not look). -/
def Outcome (A : Array Capture → Prop) (Z : Array Capture → LuaPattern.Caps → Prop)
    (m : M) (tbs : List Trackback) (r : SR) : Prop :=
  match r with
  | some (e, caps') => ∃ m', Reaches P s m m' ∧ Final P s m' e ∧ Z m'.caps caps'
  | none => ∃ m'', Reaches P s m (trackback P.items.size m'') ∧ m''.tbs = tbs ∧ A m''.caps ∧ m''.budget = 0

variable {A A' : Array Capture → Prop} {Z : Array Capture → LuaPattern.Caps → Prop}

theorem Outcome.of_reaches {m m1 : M} {tbs : List Trackback} {r : SR} (h : Reaches P s m m1)
    (ho : Outcome P s A Z m1 tbs r) : Outcome P s A Z m tbs r := by
  unfold Outcome at *
  cases r with
  | none =>
    obtain ⟨m'', h1, h2, h3, h4⟩ := ho
    exact ⟨m'', h.trans P s h1, h2, h3, h4⟩
  | some v =>
    obtain ⟨m', h1, h2⟩ := ho
    exact ⟨m', h.trans P s h1, h2⟩

theorem Outcome.weaken {m : M} {tbs : List Trackback} {r : SR} (hA : ∀ C, A C → A' C)
    (ho : Outcome P s A Z m tbs r) : Outcome P s A' Z m tbs r := by
  unfold Outcome at *
  cases r with
  | none =>
    obtain ⟨m'', h1, h2, h3, h4⟩ := ho
    exact ⟨m'', h1, h2, hA _ h3, h4⟩
  | some v => exact ho

theorem trackback_caps (n : Nat) (m : M) : (trackback n m).caps = m.caps := by
  unfold trackback; split <;> (try split) <;> rfl
theorem trackback_budget (n : Nat) (m : M) : (trackback n m).budget = m.budget := by
  unfold trackback; split <;> (try split) <;> rfl

/-- the induction hypothesis for the rest of the items, as a property of the continuation `K`
    (`lo`: a lower bound for the positions at which `K` is entered) -/
def KOk (pi1 lo : Nat) (A : Array Capture → Prop) (Z : Array Capture → LuaPattern.Caps → Prop) (K : Nat → SR) : Prop :=
  ∀ (m : M) (q : Nat), m.pi = pi1 → m.si = q → lo ≤ q → q ≤ s.size → m.budget = 0 → A m.caps →
    Outcome P s A Z m m.tbs (K q)

/-- resuming a greedy/optional trackback entry `{si = p+j, pi = pi1, siMin = p}` tries `p+j, p+j-1, …, p` -/
theorem resume_down {pi1 lo : Nat} {K : Nat → SR} (hK : KOk P s pi1 lo A Z K) (tbs : List Trackback) (p : Nat)
    (hlo : lo ≤ p) :
    ∀ (j : Nat) (m : M), m.tbs = ⟨(p : Int) + j, pi1, p⟩ :: tbs → m.budget = 0 → p + j ≤ s.size → A m.caps →
      Outcome P s A Z (trackback P.items.size m) tbs (LuaPattern.maxExpand K p j) := by
  intro j
  induction j with
  | zero =>
    intro m htbs hb hle hA
    have h0 : trackback P.items.size m = { m with si := (p : Int), pi := pi1, backtracks := m.backtracks + 1, tbs := tbs } := by
      unfold trackback; rw [htbs]; simp
    have := hK (trackback P.items.size m) p (by rw [h0]) (by rw [h0]) hlo (by omega)
      (by rw [trackback_budget]; exact hb) (by rw [trackback_caps]; exact hA)
    rw [h0] at this ⊢
    simpa [LuaPattern.maxExpand] using this
  | succ j ih =>
    intro m htbs hb hle hA
    have h0 : trackback P.items.size m =
        { m with si := (p : Int) + (j + 1 : Nat), pi := pi1, backtracks := m.backtracks + 1,
                 tbs := ⟨(p : Int) + j, pi1, p⟩ :: tbs } := by
      unfold trackback; rw [htbs]
      have : ((p : Int) + ((j + 1 : Nat) : Int) > (p : Int)) := by omega
      have e : (p : Int) + ((j + 1 : Nat) : Int) - 1 = (p : Int) + j := by omega
      simp only [this, if_true, e]
    have hq := hK (trackback P.items.size m) (p + j + 1) (by rw [h0]) (by rw [h0]; simp; omega) (by omega) (by omega)
      (by rw [trackback_budget]; exact hb) (by rw [trackback_caps]; exact hA)
    unfold LuaPattern.maxExpand
    cases hk : K (p + j + 1) with
    | some v =>
      rw [hk] at hq
      simpa [Option.orElse, Outcome] using hq
    | none =>
      rw [hk] at hq
      obtain ⟨m'', h1, h2, h3, h4⟩ := hq
      have htb : m''.tbs = ⟨(p : Int) + j, pi1, p⟩ :: tbs := by rw [h2, h0]
      have := ih m'' htb h4 (by omega) h3
      have := Outcome.of_reaches P s h1 this
      simpa [Option.orElse] using this

theorem afterGreedy_caps (m : M) (p0 k : Nat) : (afterGreedy m p0 k).caps = m.caps := by
  unfold afterGreedy; simp only; split <;> rfl

/-- after a greedy item that consumed `k` bytes from `p0`: the machine realises `max_expand` -/
theorem after_greedy {pi1 lo : Nat} {K : Nat → SR} (hK : KOk P s pi1 lo A Z K) (m : M) (p0 k : Nat)
    (hsi : m.si = p0) (hpi : m.pi + 1 = pi1) (hb : m.budget = 0) (hle : p0 + k ≤ s.size) (hlo : lo ≤ p0)
    (hA : A m.caps) :
    Outcome P s A Z (afterGreedy m p0 k) m.tbs (LuaPattern.maxExpand K p0 k) := by
  cases k with
  | zero =>
    have e : afterGreedy m p0 0 = { m with pi := m.pi + 1 } := by simp [afterGreedy, advN_zero]
    rw [e]
    have := hK { m with pi := m.pi + 1 } p0 hpi hsi hlo (by omega) hb hA
    simpa [LuaPattern.maxExpand] using this
  | succ k =>
    have e : afterGreedy m p0 (k + 1) =
        { advN m (k + 1) with pi := m.pi + 1, tbs := ⟨(p0 : Int) + (k + 1 : Nat), m.pi + 1, p0⟩ :: m.tbs } := by
      simp [afterGreedy, addTrackback, advN, hsi]
    have hq := hK (afterGreedy m p0 (k + 1)) (p0 + k + 1) (by rw [e]; exact hpi)
      (by rw [e]; simp [advN, hsi]; omega) (by omega) (by omega) (by rw [e]; simp [advN, hb])
      (by rw [afterGreedy_caps]; exact hA)
    unfold LuaPattern.maxExpand
    cases hk : K (p0 + k + 1) with
    | some v =>
      rw [hk] at hq
      unfold Outcome at hq ⊢
      simp only [Option.orElse]
      obtain ⟨m', h1, h2⟩ := hq
      exact ⟨m', h1, h2⟩
    | none =>
      rw [hk] at hq
      obtain ⟨m'', h1, h2, h3, h4⟩ := hq
      have htb : m''.tbs = ⟨(p0 : Int) + (k + 1 : Nat), pi1, p0⟩ :: m.tbs := by rw [h2, e, hpi]
      have hr := resume_down P s hK m.tbs p0 hlo (k + 1) m'' htb h4 (by omega) h3
      have := Outcome.of_reaches P s h1 hr
      unfold LuaPattern.maxExpand at this
      rw [hk] at this
      simpa [Option.orElse] using this

/-! ## items -/

def qType : LuaPattern.Quant → ItemType
  | .one => .once
  | .star => .greedyRepeat
  | .plus => .greedyRepeatOnce
  | .lazy => .repeat_
  | .opt => .optional

/-- a Spec item and the machine item the builder emits for it -/
inductive ItemRel : LuaPattern.Item → PItem → Prop
  | char (c : LuaPattern.Cls) (q : LuaPattern.Quant) (set : ByteSet)
      (h : ∀ b, set.contains b = c.matches b) : ItemRel (.char c q) ⟨set, qType q⟩
  | frontier (c : LuaPattern.Cls) (set : ByteSet)
      (h : ∀ b, set.contains b = c.matches b) : ItemRel (.frontier c) ⟨set, .frontier⟩
  | bal (x y : UInt8) : ItemRel (.bal x y) ⟨PatBuild.wordsSet x.toNat y.toNat, .balanced⟩
  | open_ (n : Nat) : ItemRel (.open n) ⟨PatBuild.wordsSet n 0, .startCapture⟩
  | pos (n : Nat) : ItemRel (.pos n) ⟨PatBuild.wordsSet n 0, .startCapture⟩
  | close (n : Nat) : ItemRel (.close n) ⟨PatBuild.wordsSet n 0, .endCapture⟩
  | backref (n : Nat) : ItemRel (.backref n) ⟨PatBuild.wordsSet n 0, .capture⟩

theorem single_eq_hit {c : LuaPattern.Cls} {set : ByteSet} (h : ∀ b, set.contains b = c.matches b) (p : Nat) :
    LuaPattern.single s c p = hit s set p := by
  unfold LuaPattern.single hit
  cases s[p]? <;> simp [h]

theorem runLen_eq {c : LuaPattern.Cls} {set : ByteSet} (h : ∀ b, set.contains b = c.matches b) (p fuel : Nat) :
    LuaPattern.runLen s c p fuel = runLenB s set p fuel := by
  induction fuel generalizing p with
  | zero => rfl
  | succ n ih => simp [LuaPattern.runLen, runLenB, single_eq_hit s h, ih]

/-- pointwise `ItemRel` -/
inductive RelL : List LuaPattern.Item → List PItem → Prop
  | nil : RelL [] []
  | cons {a b as bs} : ItemRel a b → RelL as bs → RelL (a :: as) (b :: bs)

/-- `rest` are the Spec items for the machine items from index `pi` on -/
def Rel (rest : List LuaPattern.Item) (pi : Nat) : Prop :=
  pi ≤ P.items.size ∧ RelL rest (P.items.toList.drop pi)

theorem Rel.nil_pi {pi : Nat} (h : Rel P [] pi) : pi = P.items.size := by
  obtain ⟨h1, h2⟩ := h
  cases h2' : P.items.toList.drop pi with
  | nil =>
    have := List.drop_eq_nil_iff.mp h2'
    simp at this; omega
  | cons a l => rw [h2'] at h2; cases h2

theorem Rel.cons {it : LuaPattern.Item} {rest : List LuaPattern.Item} {pi : Nat} (h : Rel P (it :: rest) pi) :
    ∃ pit, P.items[pi]? = some pit ∧ ItemRel it pit ∧ Rel P rest (pi + 1) := by
  obtain ⟨h1, h2⟩ := h
  cases h2' : P.items.toList.drop pi with
  | nil => rw [h2'] at h2; cases h2
  | cons a l =>
    rw [h2'] at h2
    cases h2 with
    | cons ha hl =>
      have hlt : pi < P.items.toList.length := by
        apply Classical.byContradiction; intro hn
        have : P.items.toList.drop pi = [] := List.drop_eq_nil_iff.mpr (by omega)
        rw [this] at h2'; cases h2'
      have hd := List.drop_eq_getElem_cons hlt
      rw [hd] at h2'
      injection h2' with e1 e2
      refine ⟨a, ?_, ha, ?_, ?_⟩
      · rw [← e1]; simp at hlt ⊢
      · simp at hlt; omega
      · rw [e2]; exact hl

theorem step_end_fail {m : M} {q : Nat} (hpi : m.pi = P.items.size) (hsi : m.si = q)
    (hfail : (P.endAnchor && q != s.size) = true) (hb : m.budget = 0) :
    step P s m = .ok (.running, trackback P.items.size (tick m)) := by
  unfold step
  have hc : consumeBudget { m with steps := m.steps + 1 } = .ok (tick m) := consumeBudget_zero _ hb
  simp only [hc, bind, Except.bind]
  have h1 : ¬ ((tick m).pi < P.items.size) := by rw [tick_pi]; omega
  have h2 : ¬ ((tick m).si = -1) := by rw [tick_si]; omega
  simp only [Bool.and_eq_true, bne_iff_ne, ne_eq] at hfail
  have h3 : (!P.endAnchor || decide ((tick m).si = (s.size : Int))) = false := by
    rw [hfail.1, tick_si, hsi]
    have : ¬ ((q : Int) = (s.size : Int)) := by have := hfail.2; omega
    simp [this]
  simp only [h1, dite_false, h2, if_false, h3, Bool.false_eq_true, pure, Except.pure]

theorem orElse_none {α} (x : Option α) : (x.orElse fun _ => none) = x := by cases x <;> rfl

/-- the lazy item re-enters itself through its trackback entry: the machine realises `min_expand` -/
theorem sim_lazy {pi lo : Nat} {K : Nat → SR} (hK : KOk P s (pi + 1) lo A Z K) (set : ByteSet) (c : LuaPattern.Cls)
    (hitem : P.items[pi]? = some ⟨set, .repeat_⟩) (hcls : ∀ b, set.contains b = c.matches b) :
    ∀ (fuel : Nat) (m : M) (q : Nat), fuel = s.size - q → m.pi = pi → m.si = q → lo ≤ q → q ≤ s.size → m.budget = 0 →
      A m.caps → Outcome P s A Z m m.tbs (LuaPattern.minExpand K s c q fuel) := by
  intro fuel
  induction fuel with
  | zero =>
    intro m q hf hpi hsi hlo hq hb hA
    have hq' : q = s.size := by omega
    have hnh : hit s set q = false := by
      cases hh : hit s set q with
      | false => rfl
      | true => have := hit_lt hh; omega
    have hst := step_lazy P s (by rw [hpi]; exact hitem) hsi hb
    rw [hnh] at hst
    simp only [Bool.false_eq_true, if_false] at hst
    have hr := Reaches.of_step P s hst
    have := hK { tick m with pi := m.pi + 1 } q (by simp [hpi]) (by simp [tick_si, hsi]) hlo hq
      (by simp [tick_budget, hb]) hA
    have := Outcome.of_reaches P s hr this
    simpa [LuaPattern.minExpand, tick_tbs] using this
  | succ f ih =>
    intro m q hf hpi hsi hlo hq hb hA
    have hst := step_lazy P s (by rw [hpi]; exact hitem) hsi hb
    unfold LuaPattern.minExpand
    rw [single_eq_hit s hcls]
    cases hh : hit s set q with
    | false =>
      rw [hh] at hst
      simp only [Bool.false_eq_true, if_false] at hst
      have hr := Reaches.of_step P s hst
      have := hK { tick m with pi := m.pi + 1 } q (by simp [hpi]) (by simp [tick_si, hsi]) hlo hq
        (by simp [tick_budget, hb]) hA
      have := Outcome.of_reaches P s hr this
      simpa [orElse_none, tick_tbs] using this
    | true =>
      rw [hh] at hst
      simp only [if_true] at hst
      have hlt := hit_lt hh
      have hr := Reaches.of_step P s hst
      have hq1 := hK (lazyHit (tick m) q) q (by simp [lazyHit, hpi, tick_pi]) (by simp [lazyHit]) hlo hq
        (by simp [lazyHit, adv, tick_budget, hb]) (by simpa [lazyHit, adv, tick_caps] using hA)
      cases hk : K q with
      | some v =>
        rw [hk] at hq1
        have := Outcome.of_reaches P s hr (show Outcome P s A Z _ m.tbs (some v) from by
          unfold Outcome at hq1 ⊢; exact hq1)
        simpa [Option.orElse] using this
      | none =>
        rw [hk] at hq1
        obtain ⟨m'', h1, h2, h3, h4⟩ := hq1
        have htb : m''.tbs = ⟨(q : Int) + 1, pi, (q : Int) + 1⟩ :: m.tbs := by
          rw [h2]; simp [lazyHit, tick_pi, tick_tbs, hpi]
        have h0 : trackback P.items.size m'' =
            { m'' with si := (q : Int) + 1, pi := pi, backtracks := m''.backtracks + 1, tbs := m.tbs } := by
          unfold trackback; rw [htb]; simp
        have hrec := ih (trackback P.items.size m'') (q + 1) (by omega) (by rw [h0]) (by rw [h0]; simp) (by omega)
          (by omega) (by rw [trackback_budget]; exact h4) (by rw [trackback_caps]; exact h3)
        have e1 : (trackback P.items.size m'').tbs = m.tbs := by rw [h0]
        rw [e1] at hrec
        have := Outcome.of_reaches P s (hr.trans P s h1) hrec
        simpa [Option.orElse] using this

/-! ## captures: what the machine's `[10]Capture` must agree on with the Spec's functional captures -/

inductive Shape where
  | unset | opened | closed | position
  deriving DecidableEq

abbrev Shapes := Nat → Shape

def Shapes.set (sh : Shapes) (n : Nat) (x : Shape) : Shapes := fun k => if k = n then x else sh k

/-- state of every capture after the items of a prefix -/
def shapeAfter : Shapes → List LuaPattern.Item → Shapes
  | sh, [] => sh
  | sh, .open n :: r => shapeAfter (sh.set n .opened) r
  | sh, .close n :: r => shapeAfter (sh.set n .closed) r
  | sh, .pos n :: r => shapeAfter (sh.set n .position) r
  | sh, .char _ _ :: r => shapeAfter sh r
  | sh, .backref _ :: r => shapeAfter sh r
  | sh, .bal _ _ :: r => shapeAfter sh r
  | sh, .frontier _ :: r => shapeAfter sh r

/-- well-formedness of the remaining items given the capture shapes so far: indices in 1..9, a capture is opened
    once, closed only when open, referenced (`%n`) only when closed or a position capture -/
def WFfrom : Shapes → List LuaPattern.Item → Prop
  | _, [] => True
  | sh, .open n :: r => 1 ≤ n ∧ n < 10 ∧ sh n = .unset ∧ WFfrom (sh.set n .opened) r
  | sh, .close n :: r => 1 ≤ n ∧ n < 10 ∧ sh n = .opened ∧ WFfrom (sh.set n .closed) r
  | sh, .pos n :: r => 1 ≤ n ∧ n < 10 ∧ sh n = .unset ∧ WFfrom (sh.set n .position) r
  | sh, .backref n :: r => 1 ≤ n ∧ n < 10 ∧ (sh n = .closed ∨ sh n = .position) ∧ WFfrom sh r
  | sh, .char _ _ :: r => WFfrom sh r
  | sh, .bal _ _ :: r => WFfrom sh r
  | sh, .frontier _ :: r => WFfrom sh r

/-- machine captures `C` vs Spec captures `caps`, on the captures whose shape is known; `st0` = `captures[0].start`
    (the machine keeps the whole match there), `lo` bounds the start of every open capture -/
def Agree (sh : Shapes) (st0 : Int) (lo : Nat) (C : Array Capture) (caps : LuaPattern.Caps) : Prop :=
  C.size = 10 ∧ caps.length = 10 ∧ (∃ c, C[0]? = some c ∧ c.start = st0) ∧
  ∀ n, 1 ≤ n → n < 10 →
    match sh n with
    | .unset => True
    | .opened => ∃ a : Nat, caps[n]? = some (.opened a) ∧ (∃ c, C[n]? = some c ∧ c.start = a) ∧ a ≤ lo
    | .closed => ∃ a b : Nat, caps[n]? = some (.closed a b) ∧ C[n]? = some ⟨a, b⟩ ∧ a ≤ b ∧ b ≤ s.size
    | .position => ∃ a : Nat, caps[n]? = some (.position a) ∧ C[n]? = some ⟨a, -1⟩

theorem Agree.mono {sh : Shapes} {st0 : Int} {lo lo' : Nat} {C : Array Capture} {caps : LuaPattern.Caps}
    (h : Agree s sh st0 lo C caps) (hle : lo ≤ lo') : Agree s sh st0 lo' C caps := by
  obtain ⟨h1, h2, h3, h4⟩ := h
  refine ⟨h1, h2, h3, fun n hn1 hn => ?_⟩
  have := h4 n hn1 hn
  cases hs : sh n with
  | unset => trivial
  | opened =>
    rw [hs] at this
    obtain ⟨a, x1, x2, x3⟩ := this
    exact ⟨a, x1, x2, by omega⟩
  | closed => rw [hs] at this; exact this
  | position => rw [hs] at this; exact this

/-- writing capture `n` (machine and Spec) establishes the new shape at `n` and keeps everything else -/
theorem Agree.set {sh : Shapes} {st0 : Int} {lo lo' : Nat} {C : Array Capture} {caps : LuaPattern.Caps}
    (h : Agree s sh st0 lo C caps) (hle : lo ≤ lo') (n : Nat) (hn1 : 1 ≤ n) (hn : n < 10) (x : Shape) (c : Capture)
    (v : LuaPattern.Cap)
    (hx : match x with
      | .unset => True
      | .opened => ∃ a : Nat, v = .opened a ∧ c.start = a ∧ a ≤ lo'
      | .closed => ∃ a b : Nat, v = .closed a b ∧ c = ⟨a, b⟩ ∧ a ≤ b ∧ b ≤ s.size
      | .position => ∃ a : Nat, v = .position a ∧ c = ⟨a, -1⟩) :
    Agree s (sh.set n x) st0 lo' (C.setIfInBounds n c) (caps.set n v) := by
  obtain ⟨h1, h2, h3, h4⟩ := h
  refine ⟨by simp [h1], by simp [h2], ?_, fun k hk1 hk => ?_⟩
  · obtain ⟨c0, y1, y2⟩ := h3
    refine ⟨c0, ?_, y2⟩
    rw [Array.getElem?_setIfInBounds]
    have : ¬ (n = 0) := by omega
    simp [this, y1]
  · unfold Shapes.set
    by_cases hkn : k = n
    · subst hkn
      simp only [if_true]
      have e1 : (caps.set k v)[k]? = some v := by simp [List.getElem?_set, h2, hk]
      have e2 : (C.setIfInBounds k c)[k]? = some c := by simp [Array.getElem?_setIfInBounds, h1, hk]
      cases x with
      | unset => trivial
      | opened =>
        obtain ⟨a, z1, z2, z3⟩ := hx
        exact ⟨a, by rw [e1, z1], ⟨c, e2, z2⟩, z3⟩
      | closed =>
        obtain ⟨a, b, z1, z2, z3, z4⟩ := hx
        exact ⟨a, b, by rw [e1, z1], by rw [e2, z2], z3, z4⟩
      | position =>
        obtain ⟨a, z1, z2⟩ := hx
        exact ⟨a, by rw [e1, z1], by rw [e2, z2]⟩
    · simp only [hkn, if_false]
      have e1 : (caps.set n v)[k]? = caps[k]? := by
        rw [List.getElem?_set]; have : ¬ (n = k) := fun e => hkn e.symm
        simp [this]
      have e2 : (C.setIfInBounds n c)[k]? = C[k]? := by
        rw [Array.getElem?_setIfInBounds]; have : ¬ (n = k) := fun e => hkn e.symm
        simp [this]
      rw [e1, e2]
      have := h4 k hk1 hk
      cases hs : sh k with
      | unset => trivial
      | opened =>
        rw [hs] at this
        obtain ⟨a, x1, x2, x3⟩ := this
        exact ⟨a, x1, x2, by omega⟩
      | closed => rw [hs] at this; exact this
      | position => rw [hs] at this; exact this

/-- going back over a capture write at `n` (when the items after it have failed): the machine captures `C` left
    behind still agree with the Spec captures `caps` of before the write, provided they do at `n` itself -/
theorem Agree.back {sh : Shapes} {st0 : Int} {lo lo' : Nat} {C0 C : Array Capture} {caps : LuaPattern.Caps}
    (n : Nat) (x : Shape) (v : LuaPattern.Cap) (h0 : Agree s sh st0 lo C0 caps)
    (h : Agree s (sh.set n x) st0 lo' C (caps.set n v))
    (hn : match sh n with
      | .unset => True
      | .opened => ∃ a : Nat, caps[n]? = some (.opened a) ∧ (∃ c, C[n]? = some c ∧ c.start = a) ∧ a ≤ lo
      | .closed => ∃ a b : Nat, caps[n]? = some (.closed a b) ∧ C[n]? = some ⟨a, b⟩ ∧ a ≤ b ∧ b ≤ s.size
      | .position => ∃ a : Nat, caps[n]? = some (.position a) ∧ C[n]? = some ⟨a, -1⟩) :
    Agree s sh st0 lo C caps := by
  obtain ⟨h1, h2, h3, h4⟩ := h
  obtain ⟨g1, g2, g3, g4⟩ := h0
  refine ⟨h1, g2, h3, fun k hk1 hk => ?_⟩
  by_cases hkn : k = n
  · subst hkn; exact hn
  · have := h4 k hk1 hk
    unfold Shapes.set at this
    simp only [hkn, if_false] at this
    have e1 : (caps.set n v)[k]? = caps[k]? := by
      rw [List.getElem?_set]; have : ¬ (n = k) := fun e => hkn e.symm
      simp [this]
    rw [e1] at this
    have g := g4 k hk1 hk
    cases hs : sh k with
    | unset => trivial
    | opened =>
      rw [hs] at this g
      obtain ⟨a, x1, x2, x3⟩ := this
      obtain ⟨a', y1, y2, y3⟩ := g
      have : a = a' := by rw [x1] at y1; injection y1 with e; injection e
      exact ⟨a, x1, x2, by omega⟩
    | closed => rw [hs] at this; exact this
    | position => rw [hs] at this; exact this

/-- the captures predicate on failure (`A`) and on success (`Z`) used by the simulation -/
def AOf (sh : Shapes) (st0 : Int) (lo : Nat) (caps : LuaPattern.Caps) : Array Capture → Prop :=
  fun C => Agree s sh st0 lo C caps
def ZOf (sh : Shapes) (st0 : Int) : Array Capture → LuaPattern.Caps → Prop :=
  fun C caps' => ∃ lo', Agree s sh st0 lo' C caps'

theorem getD_of_getElem? {caps : LuaPattern.Caps} {n : Nat} {v : LuaPattern.Cap} (h : caps[n]? = some v) :
    caps.getD n .unset = v := by
  simp [List.getD, h]

/-- THE SIMULATION: from any machine state standing at item `pi` and position `q` whose captures agree with the
    Spec's on the captures opened/closed so far, the machine does what `Spec.LuaPattern.matchItems` computes for
    the remaining items -/
theorem sim (st0 : Int) : ∀ (rest : List LuaPattern.Item) (pi : Nat) (sh : Shapes), Rel P rest pi → WFfrom sh rest →
    ∀ (caps : LuaPattern.Caps) (lo : Nat),
      KOk P s pi lo (AOf s sh st0 lo caps) (ZOf s (shapeAfter sh rest) st0)
        (fun q => LuaPattern.matchItems s P.endAnchor rest q caps) := by
  intro rest
  induction rest with
  | nil =>
    intro pi sh hrel _ caps lo m q hpi hsi hlo hq hb hA
    show Outcome P s _ _ m m.tbs (LuaPattern.matchItems s P.endAnchor [] q caps)
    have hpi' : m.pi = P.items.size := by rw [hpi]; exact hrel.nil_pi
    unfold LuaPattern.matchItems
    by_cases hfail : (P.endAnchor && q != s.size) = true
    · simp only [hfail, if_true]
      have hst := step_end_fail P s hpi' hsi hfail hb
      exact ⟨tick m, Reaches.of_step P s hst, rfl, hA, by simp [tick_budget, hb]⟩
    · simp only [hfail]
      refine ⟨m, Reaches.refl P s m, ⟨hpi', hsi, hq, ?_, hb⟩, ⟨lo, hA⟩⟩
      intro hE
      simp only [hE, Bool.true_and, bne_iff_ne, ne_eq, Decidable.not_not] at hfail
      exact hfail
  | cons it rest ih =>
    intro pi sh hrel hwf caps lo m q hpi hsi hlo hq hb hA
    show Outcome P s _ _ m m.tbs (LuaPattern.matchItems s P.endAnchor (it :: rest) q caps)
    obtain ⟨pit, hitem, hir, hrel'⟩ := hrel.cons
    have hitem' : P.items[m.pi]? = some pit := by rw [hpi]; exact hitem
    have hsz : m.caps.size = 10 := hA.1
    cases hir with
    | char c qt set hcls =>
      have hK := ih (pi + 1) sh hrel' hwf caps lo
      cases qt with
      | one =>
        have hst := step_once P s hitem' hsi hb
        unfold LuaPattern.matchItems
        rw [single_eq_hit s hcls]
        cases hh : hit s set q with
        | false =>
          rw [hh] at hst
          simp only [Bool.false_eq_true, if_false] at hst ⊢
          exact ⟨tick m, Reaches.of_step P s hst, rfl, hA, by simp [tick_budget, hb]⟩
        | true =>
          rw [hh] at hst
          simp only [if_true] at hst ⊢
          have hlt := hit_lt hh
          have := hK { adv (tick m) with pi := m.pi + 1 } (q + 1) (by simp [hpi]) (by simp [adv, tick_si, hsi])
            (by omega) (by omega) (by simp [adv, tick_budget, hb]) hA
          exact Outcome.of_reaches P s (Reaches.of_step P s hst) this
      | star =>
        have hst := step_star P s hitem' hsi hb hq
        unfold LuaPattern.matchItems
        rw [runLen_eq s hcls]
        have hle := runLenB_le s set q (s.size - q)
        have := after_greedy P s hK (tick m) q (runLenB s set q (s.size - q)) (by simp [tick_si, hsi])
          (by simp [tick_pi, hpi]) (by simp [tick_budget, hb]) (by omega) hlo hA
        exact Outcome.of_reaches P s (Reaches.of_step P s hst) this
      | plus =>
        have hst := step_plus P s hitem' hsi hb hq
        unfold LuaPattern.matchItems
        rw [single_eq_hit s hcls]
        cases hh : hit s set q with
        | false =>
          rw [hh] at hst
          simp only [Bool.false_eq_true, if_false] at hst ⊢
          exact ⟨tick m, Reaches.of_step P s hst, rfl, hA, by simp [tick_budget, hb]⟩
        | true =>
          rw [hh] at hst
          simp only [if_true] at hst ⊢
          have hlt := hit_lt hh
          rw [runLen_eq s hcls]
          have hle := runLenB_le s set (q + 1) (s.size - (q + 1))
          have := after_greedy P s hK (adv (tick m)) (q + 1) (runLenB s set (q + 1) (s.size - (q + 1)))
            (by simp [adv, tick_si, hsi]) (by simp [adv, tick_pi, hpi]) (by simp [adv, tick_budget, hb]) (by omega)
            (by omega) hA
          exact Outcome.of_reaches P s (Reaches.of_step P s hst) this
      | lazy =>
        have := sim_lazy P s hK set c hitem hcls (s.size - q) m q rfl hpi hsi hlo hq hb hA
        unfold LuaPattern.matchItems
        exact this
      | opt =>
        have hst := step_opt P s hitem' hsi hb
        unfold LuaPattern.matchItems
        rw [single_eq_hit s hcls]
        cases hh : hit s set q with
        | false =>
          rw [hh] at hst
          simp only [Bool.false_eq_true, if_false] at hst ⊢
          have := hK { tick m with pi := m.pi + 1 } q (by simp [hpi]) (by simp [tick_si, hsi]) hlo hq
            (by simp [tick_budget, hb]) hA
          exact Outcome.of_reaches P s (Reaches.of_step P s hst) this
        | true =>
          rw [hh] at hst
          simp only [if_true] at hst ⊢
          have hlt := hit_lt hh
          -- `optHit` is `afterGreedy` with one byte consumed
          have e : optHit (tick m) q = afterGreedy (tick m) q 1 := by
            simp [optHit, afterGreedy, addTrackback, advN, adv, tick_si, hsi]
          rw [e] at hst
          have := after_greedy P s hK (tick m) q 1 (by simp [tick_si, hsi]) (by simp [tick_pi, hpi])
            (by simp [tick_budget, hb]) (by omega) hlo hA
          have := Outcome.of_reaches P s (Reaches.of_step P s hst) this
          simpa [LuaPattern.maxExpand, tick_tbs, shapeAfter] using this
    | frontier c set hcls =>
      have hK := ih (pi + 1) sh hrel' hwf caps lo
      have hst := step_frontier P s hitem' hsi hq hb
      unfold LuaPattern.matchItems
      have hprev : (if q = 0 then (0 : LuaPattern.Byte) else LuaPattern.byteAt s (q - 1)) = prevByte s q := rfl
      have hnext : LuaPattern.byteAt s q = nextByte s q := rfl
      simp only [hprev, hnext, ← hcls]
      by_cases hc : (set.contains (prevByte s q) || !set.contains (nextByte s q)) = true
      · rw [hc] at hst
        simp only [if_true] at hst
        have hcond : (!set.contains (prevByte s q) && set.contains (nextByte s q)) = false := by
          cases h1 : set.contains (prevByte s q) <;> cases h2 : set.contains (nextByte s q) <;> simp_all
        simp only [hcond, Bool.false_eq_true, if_false]
        exact ⟨tick m, Reaches.of_step P s hst, rfl, hA, by simp [tick_budget, hb]⟩
      · simp only [hc, Bool.false_eq_true, if_false] at hst
        have hcond : (!set.contains (prevByte s q) && set.contains (nextByte s q)) = true := by
          cases h1 : set.contains (prevByte s q) <;> cases h2 : set.contains (nextByte s q) <;> simp_all
        simp only [hcond, if_true]
        have := hK { tick m with pi := m.pi + 1 } q (by simp [hpi]) (by simp [tick_si, hsi]) hlo hq
          (by simp [tick_budget, hb]) hA
        exact Outcome.of_reaches P s (Reaches.of_step P s hst) this
    | bal x y =>
      have hK := ih (pi + 1) sh hrel' hwf caps lo
      obtain ⟨m', hst, hres⟩ := step_bal P s hitem' hsi hb hq
      unfold LuaPattern.matchItems
      by_cases hx : (s[q]? == some x) = true
      · simp only [hx, if_true] at hres ⊢
        cases hbal : LuaPattern.balance s x y (q + 1) 0 (s.size - q) with
        | none =>
          rw [hbal] at hres
          obtain ⟨m'', a1, a2, a3, a4⟩ := hres
          rw [a1] at hst
          exact ⟨m'', Reaches.of_step P s hst, a2, by rw [a3]; exact hA, a4⟩
        | some e =>
          rw [hbal] at hres
          obtain ⟨a1, a0, a2, a3, a4, a5, a6⟩ := hres
          have := hK m' e (by rw [a3, hpi]) a1 (by omega) a2 a6 (by rw [a5]; exact hA)
          rw [a4] at this
          exact Outcome.of_reaches P s (Reaches.of_step P s hst) this
      · simp only [hx, Bool.false_eq_true, if_false] at hres ⊢
        obtain ⟨m'', a1, a2, a3, a4⟩ := hres
        rw [a1] at hst
        exact ⟨m'', Reaches.of_step P s hst, a2, by rw [a3]; exact hA, a4⟩
    | open_ n =>
      obtain ⟨hn1, hn, hshn, hwf'⟩ := hwf
      have hst := step_startCapture P s hitem' hsi hn hsz hb
      unfold LuaPattern.matchItems
      have hA' : Agree s (sh.set n .opened) st0 q (m.caps.setIfInBounds n ⟨q, -1⟩) (caps.set n (.opened q)) :=
        Agree.set s hA hlo n hn1 hn .opened ⟨q, -1⟩ (.opened q) ⟨q, rfl, rfl, Nat.le_refl q⟩
      have := ih (pi + 1) (sh.set n .opened) hrel' hwf' (caps.set n (.opened q)) q
        { tick m with caps := m.caps.setIfInBounds n ⟨q, -1⟩, pi := m.pi + 1 } q (by simp [hpi]) (by simp [tick_si, hsi])
        (Nat.le_refl q) hq (by simp [tick_budget, hb]) hA'
      have := Outcome.of_reaches P s (Reaches.of_step P s hst) this
      refine Outcome.weaken P s (fun C hC => ?_) this
      exact Agree.back s n .opened (.opened q) hA hC (by rw [hshn]; trivial)
    | pos n =>
      obtain ⟨hn1, hn, hshn, hwf'⟩ := hwf
      have hst := step_startCapture P s hitem' hsi hn hsz hb
      unfold LuaPattern.matchItems
      have hA' : Agree s (sh.set n .position) st0 lo (m.caps.setIfInBounds n ⟨q, -1⟩) (caps.set n (.position q)) :=
        Agree.set s hA (Nat.le_refl lo) n hn1 hn .position ⟨q, -1⟩ (.position q) ⟨q, rfl, rfl⟩
      have := ih (pi + 1) (sh.set n .position) hrel' hwf' (caps.set n (.position q)) lo
        { tick m with caps := m.caps.setIfInBounds n ⟨q, -1⟩, pi := m.pi + 1 } q (by simp [hpi]) (by simp [tick_si, hsi])
        hlo hq (by simp [tick_budget, hb]) hA'
      have := Outcome.of_reaches P s (Reaches.of_step P s hst) this
      refine Outcome.weaken P s (fun C hC => ?_) this
      exact Agree.back s n .position (.position q) hA hC (by rw [hshn]; trivial)
    | close n =>
      obtain ⟨hn1, hn, hshn, hwf'⟩ := hwf
      have hAn := hA.2.2.2 n hn1 hn
      rw [hshn] at hAn
      obtain ⟨a, hca, ⟨c, hc, hcs⟩, hale⟩ := hAn
      have hst := step_endCapture P s hitem' hsi hn hsz hc hb
      unfold LuaPattern.matchItems
      rw [getD_of_getElem? hca]
      simp only
      have hA' : Agree s (sh.set n .closed) st0 lo (m.caps.setIfInBounds n { c with stop := q }) (caps.set n (.closed a q)) :=
        Agree.set s hA (Nat.le_refl lo) n hn1 hn .closed { c with stop := q } (.closed a q)
          ⟨a, q, rfl, by rw [← hcs], by omega, hq⟩
      have := ih (pi + 1) (sh.set n .closed) hrel' hwf' (caps.set n (.closed a q)) lo
        { tick m with caps := m.caps.setIfInBounds n { c with stop := q }, pi := m.pi + 1 } q (by simp [hpi])
        (by simp [tick_si, hsi]) hlo hq (by simp [tick_budget, hb]) hA'
      have := Outcome.of_reaches P s (Reaches.of_step P s hst) this
      refine Outcome.weaken P s (fun C hC => ?_) this
      refine Agree.back s n .closed (.closed a q) hA hC ?_
      rw [hshn]
      have hCn := hC.2.2.2 n hn1 hn
      simp only [Shapes.set, if_true] at hCn
      obtain ⟨a', b', z1, z2, z3, z4⟩ := hCn
      have hlen : caps.length = 10 := hA.2.1
      have : (caps.set n (.closed a q))[n]? = some (.closed a q) := by simp [List.getElem?_set, hlen, hn]
      rw [this] at z1
      injection z1 with z1; injection z1 with e1 e2
      subst e1
      exact ⟨a, hca, ⟨⟨a, b'⟩, z2, rfl⟩, hale⟩
    | backref n =>
      obtain ⟨hn1, hn, hshn, hwf'⟩ := hwf
      have hK := ih (pi + 1) sh hrel' hwf' caps lo
      have hAn := hA.2.2.2 n hn1 hn
      rcases hshn with hshn | hshn
      · rw [hshn] at hAn
        obtain ⟨a, b, hca, hc, hab, hbs⟩ := hAn
        have hst := step_capture P s hitem' hsi hn hc hab hbs hq hb
        unfold LuaPattern.matchItems
        rw [getD_of_getElem? hca]
        simp only
        by_cases hcond : (decide (q + (b - a) ≤ s.size) && LuaPattern.eqSlice s a q (b - a)) = true
        · rw [hcond] at hst
          simp only [if_true] at hst
          simp only [hcond, if_true]
          have := hK { cmp (tick m) (b - a) with si := ((q + (b - a) : Nat) : Int), pi := m.pi + 1 } (q + (b - a))
            (by simp [hpi]) rfl (by omega) (of_decide_eq_true ((Bool.and_eq_true _ _).mp hcond).1)
            (by simp [cmp, tick_budget, hb]) hA
          exact Outcome.of_reaches P s (Reaches.of_step P s hst) this
        · simp only [hcond, Bool.false_eq_true, if_false] at hst ⊢
          by_cases hle : q + (b - a) ≤ s.size
          · simp only [hle, if_true] at hst
            exact ⟨cmp (tick m) (b - a), Reaches.of_step P s hst, rfl, hA, by simp [cmp, tick_budget, hb]⟩
          · simp only [hle, if_false] at hst
            exact ⟨tick m, Reaches.of_step P s hst, rfl, hA, by simp [tick_budget, hb]⟩
      · -- `%n` to a position capture: the Spec says "no match", the machine's guard `c.end >= 0` fails
        rw [hshn] at hAn
        obtain ⟨a, hca, hc⟩ := hAn
        have hst := step_capture_pos P s (q := q) hitem' hn hc hb
        unfold LuaPattern.matchItems
        rw [getD_of_getElem? hca]
        exact ⟨tick m, Reaches.of_step P s hst, rfl, hA, by simp [tick_budget, hb]⟩

end GoluaVerif.Model.PatMatch
