/-
  Proofs.C18Close — a pool whose register has been released (`ExtractAllMarkedRelease`) never
  hands anything to a finaliser again; what `callKilled` does to the runtime log.
-/
import GoluaVerif.Proofs.C18Env
namespace GoluaVerif.Proofs.C18
open GoluaVerif.Spec.Gc GoluaVerif.Model.ClonePool GoluaVerif.Model.GcRuntime GoluaVerif.Model

/-- released pool: nil register, nothing queued for finalisation -/
def Dead (p : Pool) : Prop := p.reg = none ∧ p.pf = []

theorem Dead.use {p : Pool} (h : Dead p) (u : Use) :
    Dead (ClonePool.use p u) ∧ finOrders (ClonePool.use p u).tr = finOrders p.tr := by
  obtain ⟨hreg, hpf⟩ := h
  by_cases hf : p.fatal = true
  · rw [use_fatal hf]; exact ⟨⟨hreg, hpf⟩, rfl⟩
  have hf' : p.fatal = false := by simpa using hf
  rw [use_of_not_fatal hf']
  have hxPF : Dead (xPF p) ∧ finOrders (xPF p).tr = finOrders p.tr := by
    obtain ⟨h1, h2, _⟩ := xPF_tr p
    have hr : (xPF p).reg = p.reg := by
      unfold ClonePool.xPF; exact (foldl_register_core p.pf { p with pf := [] }).1
    refine ⟨⟨hr.trans hreg, h2⟩, ?_⟩
    rw [h1, hpf]; simp [sortDesc, finEvs]
  have hxAF : ∀ q : Pool, Dead q → Dead (xAF q) ∧ finOrders (xAF q).tr = finOrders q.tr := by
    intro q ⟨hq1, hq2⟩
    refine ⟨⟨by simp [xAF, afState, hq1], by simp [xAF, afState]⟩, ?_⟩
    simp [xAF, afState, afOut, hq1, hq2, sortDesc, finEvs]
  have hskip : Dead (skipAF p) ∧ finOrders (skipAF p).tr = finOrders p.tr := by
    refine ⟨⟨by simp [skipAF, afState, hreg], by simp [skipAF, afState]⟩, ?_⟩
    simp [skipAF, afState, afOut, hreg, hpf, sortDesc, skipEvs]
  have hxPR : ∀ q : Pool, Dead q → Dead (xPR q) ∧ finOrders (xPR q).tr = finOrders q.tr := by
    intro q hq
    exact ⟨hq, by simp [xPR, finOrders_append, finOrders_relEvs]⟩
  have hxAR : ∀ q : Pool, Dead q → Dead (xAR q) ∧ finOrders (xAR q).tr = finOrders q.tr := by
    intro q hq
    exact ⟨⟨rfl, hq.2⟩, by simp [xAR, finOrders_append, finOrders_relEvs]⟩
  cases u with
  | mark o f r =>
    simp only
    obtain ⟨ext, he, hfo, _, hpf'⟩ := mark_ext p o f r
    refine ⟨⟨?_, hpf'.trans hpf⟩, by rw [he, finOrders_append, hfo, List.append_nil]⟩
    unfold ClonePool.mark
    split
    · simp [hreg]
    · simp [hreg]
  | fire o =>
    simp only
    obtain ⟨ext, he, hfo, _, _⟩ := fire_ext p o
    refine ⟨⟨?_, ?_⟩, by rw [he, finOrders_append, hfo, List.append_nil]⟩
    · unfold ClonePool.fire; split
      · exact hreg
      · simp [hreg]
    · unfold ClonePool.fire; split
      · exact hpf
      · simp [hreg, hpf]
  | xPF => exact hxPF
  | xPR => exact hxPR p ⟨hreg, hpf⟩
  | xAF => exact hxAF p ⟨hreg, hpf⟩
  | xAR => exact hxAR p ⟨hreg, hpf⟩
  | step => exact ⟨(hxPR _ hxPF.1).1, (hxPR _ hxPF.1).2.trans hxPF.2⟩
  | finAll => exact hxAF p ⟨hreg, hpf⟩
  | popRel => exact ⟨(hxAR _ hskip.1).1, (hxAR _ hskip.1).2.trans hskip.2⟩

theorem Dead.foldl {p : Pool} (h : Dead p) (us : List Use) :
    finOrders (us.foldl ClonePool.use p).tr = finOrders p.tr := by
  induction us generalizing p with
  | nil => rfl
  | cons u t ih => rw [List.foldl_cons, ih (h.use u).1, (h.use u).2]

theorem popRel_dead (p : Pool) (hf : p.fatal = false) : Dead (ClonePool.use p .popRel) := by
  rw [use_of_not_fatal hf]; exact ⟨rfl, by simp [xAR, skipAF, afState]⟩

/-- the model's mirror of the `runFinalizers` loop runs the WHOLE batch, whichever finalisers raise -/
theorem runFinalizers_fst (raises : Nat → Bool) (b : List TEv) : (runFinalizers raises b).1 = b := by
  induction b with
  | nil => rfl
  | cons e t ih => cases e <;> simp [runFinalizers, ih]

theorem onCurrent_facts (s : Rt) (p : Pool) (rest : List Pool) (hs : s.live = p :: rest) (u : Use) (d : Nat) :
    (onCurrent s u d).log = s.log ++ (delta p (ClonePool.use p u)).filter isLogEv ∧
    (onCurrent s u d).live = ClonePool.use p u :: rest ∧
    (onCurrent s u d).fatal = (s.fatal || (ClonePool.use p u).fatal) ∧
    (onCurrent s u d).dead = s.dead ∧ (onCurrent s u d).frames = s.frames := by
  unfold onCurrent
  rw [hs]
  simp [runFinalizers_fst]

/-- the runtime log after a killed CallContext: nothing finalised, the pool's owed releases appended -/
theorem callKilled_log (s : Rt) (p : Pool) (rest : List Pool) (hs : s.live = p :: rest)
    (hf : s.fatal = false) (hpf : p.fatal = false) :
    finOrders (rstep s .callKilled).log = finOrders s.log ∧
    relOrders (rstep s .callKilled).log = relOrders s.log ++ ords (arOut (skipAF p)) := by
  have hlog : (rstep s .callKilled).log = s.log ++ (delta p (ClonePool.use p .popRel)).filter isLogEv := by
    show (prim s .popRel).log = _
    unfold GcRuntime.prim
    simp only [hf, Bool.false_eq_true, if_false]
    have h1 := (onCurrent_facts s p rest hs .popRel (List.dropWhile (fun b => b == false) s.frames).length).1
    split <;> exact h1
  rw [hlog, delta_of_append (popRel_tr hpf), finOrders_append, relOrders_append, finOrders_filter_log,
    relOrders_filter_log]
  constructor
  · rw [finOrders_append, finOrders_skipEvs, finOrders_relEvs]; simp
  · rw [relOrders_append, relOrders_skipEvs, relOrders_relEvs]; simp

/-- the runtime log after an isolating CallContext that ends normally or by a Lua error: exactly what
`ExtractAllMarkedFinalize` hands out for the current pool is finalised -/
theorem callDone_log (s : Rt) (p : Pool) (rest : List Pool) (hs : s.live = p :: rest)
    (hf : s.fatal = false) (hpf : p.fatal = false) :
    finOrders (rstep s .callDone).log = finOrders s.log ++ ords (afOut p) := by
  have hp' : (ClonePool.use p .finAll).fatal = false := by
    rw [use_of_not_fatal hpf]; simpa [xAF, afState] using hpf
  have h1 : prim s .finAll = onCurrent s .finAll s.frames.length := by
    unfold GcRuntime.prim
    simp only [hf, Bool.false_eq_true, if_false]
  obtain ⟨f1, f2, f3, _, _⟩ := onCurrent_facts s p rest hs .finAll s.frames.length
  show finOrders (prim (prim s .finAll) .popRel).log = _
  have h2 := (callKilled_log (prim s .finAll) (ClonePool.use p .finAll) rest (by rw [h1, f2])
    (by rw [h1, f3, hf, hp']; rfl) hp').1
  have h2' : finOrders (prim (prim s .finAll) .popRel).log = finOrders (prim s .finAll).log := h2
  rw [h2', h1, f1, delta_of_append (finAll_tr hpf), finOrders_append, finOrders_filter_log, finOrders_finEvs]

theorem count_one_of_nodup_mem {l : List Nat} (hn : l.Nodup) {a : Nat} (h : a ∈ l) : l.count a = 1 := by
  induction l with
  | nil => cases h
  | cons x t ih =>
    have hc := List.nodup_cons.mp hn
    by_cases hax : a = x
    · subst hax
      rw [List.count_cons_self, List.count_eq_zero_of_not_mem hc.1]
    · rcases List.mem_cons.mp h with h1 | h1
      · exact absurd h1 hax
      · rw [List.count_cons_of_ne (fun h => hax h.symm), ih hc.2 h1]

end GoluaVerif.Proofs.C18
