/-
  Proofs.ParseWF — what the Spec's parser guarantees about captures: the parsed items are well-formed
  (`CapturesWF`).
-/
import GoluaVerif.Proofs.PatRefineSpec
namespace GoluaVerif.Model.PatMatch
open GoluaVerif.Model GoluaVerif.Spec
open GoluaVerif.Spec.LuaPattern (Item PState)

/-- effect of one item on the capture shapes -/
def shapeStep (sh : Shapes) : Item → Shapes
  | .open n => sh.set n .opened
  | .close n => sh.set n .closed
  | .pos n => sh.set n .position
  | _ => sh

/-- well-formedness of one item given the shapes before it -/
def WFitem (sh : Shapes) : Item → Prop
  | .open n => 1 ≤ n ∧ n < 10 ∧ sh n = .unset
  | .close n => 1 ≤ n ∧ n < 10 ∧ sh n = .opened
  | .pos n => 1 ≤ n ∧ n < 10 ∧ sh n = .unset
  | .backref n => 1 ≤ n ∧ n < 10 ∧ (sh n = .closed ∨ sh n = .position)
  | _ => True

theorem shapeAfter_cons (sh : Shapes) (it : Item) (r : List Item) :
    shapeAfter sh (it :: r) = shapeAfter (shapeStep sh it) r := by
  cases it <;> rfl

theorem WFfrom_cons (sh : Shapes) (it : Item) (r : List Item) :
    WFfrom sh (it :: r) ↔ WFitem sh it ∧ WFfrom (shapeStep sh it) r := by
  cases it <;> simp [WFfrom, WFitem, shapeStep, and_assoc]

theorem shapeAfter_snoc (sh : Shapes) (pre : List Item) (it : Item) :
    shapeAfter sh (pre ++ [it]) = shapeStep (shapeAfter sh pre) it := by
  induction pre generalizing sh with
  | nil => cases it <;> rfl
  | cons a r ih => rw [List.cons_append, shapeAfter_cons, shapeAfter_cons, ih]

theorem WFfrom_snoc (sh : Shapes) (pre : List Item) (it : Item) :
    WFfrom sh (pre ++ [it]) ↔ WFfrom sh pre ∧ WFitem (shapeAfter sh pre) it := by
  induction pre generalizing sh with
  | nil =>
    simp only [List.nil_append, WFfrom_cons, shapeAfter]
    constructor
    · intro h; exact ⟨trivial, h.1⟩
    · intro h; exact ⟨h.2, trivial⟩
  | cons a r ih =>
    rw [List.cons_append, WFfrom_cons, WFfrom_cons, shapeAfter_cons, ih]
    constructor
    · intro h; exact ⟨⟨h.1, h.2.1⟩, h.2.2⟩
    · intro h; exact ⟨h.1.1, h.1.2, h.2⟩

def sh0 : Shapes := fun _ => Shape.unset

/-- the parser's invariant -/
structure PInv (st : PState) : Prop where
  wf : WFfrom sh0 st.items.reverse
  opened : ∀ n, shapeAfter sh0 st.items.reverse n = .opened ↔ n ∈ st.stack
  beyond : ∀ n, st.ncap < n → shapeAfter sh0 st.items.reverse n = .unset
  zero : shapeAfter sh0 st.items.reverse 0 = .unset
  done : ∀ n, 1 ≤ n → n ≤ st.ncap → n ∉ st.stack →
    shapeAfter sh0 st.items.reverse n = .closed ∨ shapeAfter sh0 st.items.reverse n = .position
  ncap_le : st.ncap ≤ 9
  stack_range : ∀ n ∈ st.stack, 1 ≤ n ∧ n ≤ st.ncap
  pos_mem : ∀ n, shapeAfter sh0 st.items.reverse n = .position → Item.pos n ∈ st.items
  nodup : st.stack.Nodup

theorem PInv.init : PInv { items := [], ncap := 0, stack := [], anchorEnd := false } := by
  refine ⟨trivial, fun n => ?_, fun n _ => rfl, rfl, fun n h1 h2 => ?_, by simp, fun n h => ?_, fun n h => ?_, List.nodup_nil⟩
  · simp [shapeAfter, sh0]
  · simp at h2; omega
  · simp at h
  · simp [shapeAfter, sh0] at h

/-- adding an item that does not touch the captures -/
theorem PInv.plain {st : PState} (h : PInv st) (it : Item) (hs : ∀ sh, shapeStep sh it = sh) (hw : ∀ sh, WFitem sh it) :
    PInv { st with items := it :: st.items } := by
  have e : shapeAfter sh0 (it :: st.items).reverse = shapeAfter sh0 st.items.reverse := by
    rw [List.reverse_cons, shapeAfter_snoc, hs]
  refine ⟨?_, ?_, ?_, ?_, ?_, h.ncap_le, h.stack_range, ?_, h.nodup⟩
  · show WFfrom sh0 (it :: st.items).reverse
    rw [List.reverse_cons, WFfrom_snoc]; exact ⟨h.wf, hw _⟩
  · intro n; show shapeAfter sh0 (it :: st.items).reverse n = _ ↔ _; rw [e]; exact h.opened n
  · intro n hn; show shapeAfter sh0 (it :: st.items).reverse n = _; rw [e]; exact h.beyond n hn
  · show shapeAfter sh0 (it :: st.items).reverse 0 = _; rw [e]; exact h.zero
  · intro n h1 h2 h3; show shapeAfter sh0 (it :: st.items).reverse n = _ ∨ shapeAfter sh0 (it :: st.items).reverse n = _
    rw [e]; exact h.done n h1 h2 h3
  · intro n hn
    have : shapeAfter sh0 st.items.reverse n = .position := by
      have hh : shapeAfter sh0 (it :: st.items).reverse n = .position := hn
      rw [e] at hh; exact hh
    exact List.mem_cons_of_mem _ (h.pos_mem n this)

/-- the parser only ever adds items -/
theorem parseItems_mono : ∀ (fuel : Nat) (l : List UInt8) (st stf : PState),
    LuaPattern.parseItems fuel l st = .ok stf → ∀ it ∈ st.items, it ∈ stf.items := by
  intro fuel
  induction fuel with
  | zero => intro l st stf h; rw [LuaPattern.parseItems.eq_1] at h; cases h
  | succ f ih =>
    intro l st stf h
    have step : ∀ (l' : List UInt8) (it : Item) (st' : PState), st'.items = it :: st.items →
        LuaPattern.parseItems f l' st' = .ok stf → ∀ x ∈ st.items, x ∈ stf.items := by
      intro l' it st' he hk x hx
      exact ih l' st' stf hk x (by rw [he]; exact List.mem_cons_of_mem _ hx)
    cases l with
    | nil =>
      rw [LuaPattern.parseItems.eq_2] at h
      split at h
      · injection h with h; subst h; exact fun it hit => hit
      · cases h
    | cons a r =>
      by_cases hA : a = 36 ∧ r = []
      · obtain ⟨ha, hr⟩ := hA; subst ha; subst hr
        rw [LuaPattern.parseItems.eq_3] at h
        split at h
        · injection h with h; subst h; exact fun it hit => hit
        · cases h
      · by_cases h40 : a = 40
        · subst h40
          cases r with
          | nil => rw [LuaPattern.parseItems.eq_4] at h; split at h <;> cases h
          | cons b2 r2 =>
            by_cases hb2 : b2 = 41
            · subst hb2
              rw [LuaPattern.parseItems.eq_5] at h
              split at h
              · cases h
              · exact step _ _ _ rfl h
            · rw [LuaPattern.parseItems.eq_6 _ _ _ (by intro e; cases e)
                (by intro rest' e; injection e with e1 _; exact hb2 e1)] at h
              split at h
              · cases h
              · exact step _ _ _ rfl h
        · by_cases h41 : a = 41
          · subst h41
            rw [LuaPattern.parseItems.eq_7] at h
            split at h
            · cases h
            · exact step _ _ _ rfl h
          · by_cases h37 : a = 37
            · subst h37
              cases r with
              | nil =>
                rw [LuaPattern.parseItems.eq_13 _ _ _ (by intro e; cases e) (by intro e; cases e)
                  (by intro rest e; cases e) (by intro rest e; cases e) (by intro rest e; cases e)
                  (by intro rest e; cases e) (by intro d rest e; cases e)] at h
                rw [LuaPattern.parseClass.eq_3] at h
                cases h
              | cons d r2 =>
                by_cases hd98 : d = 98
                · subst hd98
                  cases r2 with
                  | nil => rw [LuaPattern.parseItems.eq_9 _ _ _ (by intro x y r' e; cases e)] at h; cases h
                  | cons x r3 =>
                    cases r3 with
                    | nil =>
                      rw [LuaPattern.parseItems.eq_9 _ _ _ (by intro x y r' e; injection e with _ e; cases e)] at h
                      cases h
                    | cons y r4 =>
                      rw [LuaPattern.parseItems.eq_8] at h
                      exact step _ _ _ rfl h
                · by_cases hd102 : d = 102
                  · subst hd102
                    cases r2 with
                    | nil => rw [LuaPattern.parseItems.eq_11 _ _ _ (by intro r' e; cases e)] at h; cases h
                    | cons x r3 =>
                      by_cases hx91 : x = 91
                      · subst hx91
                        rw [LuaPattern.parseItems.eq_10] at h
                        split at h
                        · cases h
                        · exact step _ _ _ rfl h
                      · rw [LuaPattern.parseItems.eq_11 _ _ _ (by intro r' e; injection e with e1 _; exact hx91 e1)] at h
                        cases h
                  · rw [LuaPattern.parseItems.eq_12 _ _ _ _ hd98 hd102] at h
                    split at h
                    · by_cases hbad : (d - 48).toNat = 0 ∨ (d - 48).toNat > st.ncap ∨ st.stack.contains (d - 48).toNat = true
                      · rw [if_pos hbad] at h; cases h
                      · rw [if_neg hbad] at h
                        exact step _ _ _ rfl h
                    · split at h
                      · cases h
                      · exact step _ _ _ rfl h
            · rw [LuaPattern.parseItems.eq_13 _ _ _ (by intro e; cases e)
                (by intro e; injection e with e1 e2; exact hA ⟨e1, e2⟩)
                (by intro rest e; injection e with e1 _; exact h40 e1)
                (by intro rest e; injection e with e1 _; exact h41 e1)
                (by intro rest e; injection e with e1 _; exact h37 e1)
                (by intro rest e; injection e with e1 _; exact h37 e1)
                (by intro d rest e; injection e with e1 _; exact h37 e1)] at h
              split at h
              · cases h
              · exact step _ _ _ rfl h

theorem set_same (sh : Shapes) (n : Nat) (x : Shape) : sh.set n x n = x := by simp [Shapes.set]
theorem set_other (sh : Shapes) (n k : Nat) (x : Shape) (h : k ≠ n) : sh.set n x k = sh k := by simp [Shapes.set, h]

theorem PInv.openCap {st : PState} (h : PInv st) (hle : st.ncap + 1 ≤ 9) :
    PInv { st with items := .open (st.ncap + 1) :: st.items, ncap := st.ncap + 1, stack := (st.ncap + 1) :: st.stack } := by
  have e : shapeAfter sh0 (Item.open (st.ncap + 1) :: st.items).reverse =
      (shapeAfter sh0 st.items.reverse).set (st.ncap + 1) .opened := by
    rw [List.reverse_cons, shapeAfter_snoc]; rfl
  have hnotin : st.ncap + 1 ∉ st.stack := fun hm => by have := (h.stack_range _ hm).2; omega
  refine ⟨?_, ?_, ?_, ?_, ?_, hle, ?_, ?_, List.nodup_cons.mpr ⟨hnotin, h.nodup⟩⟩
  · show WFfrom sh0 (Item.open (st.ncap + 1) :: st.items).reverse
    rw [List.reverse_cons, WFfrom_snoc]
    exact ⟨h.wf, by omega, by omega, h.beyond _ (by omega)⟩
  · intro n
    show shapeAfter sh0 (Item.open (st.ncap + 1) :: st.items).reverse n = _ ↔ _
    rw [e]
    by_cases hn : n = st.ncap + 1
    · subst hn; simp [set_same]
    · rw [set_other _ _ _ _ hn, h.opened n]; simp [hn]
  · intro n hn
    show shapeAfter sh0 (Item.open (st.ncap + 1) :: st.items).reverse n = _
    simp only at hn
    rw [e, set_other _ _ _ _ (by omega)]; exact h.beyond n (by omega)
  · show shapeAfter sh0 (Item.open (st.ncap + 1) :: st.items).reverse 0 = _
    rw [e, set_other _ _ _ _ (by omega)]; exact h.zero
  · intro n h1 h2 h3
    show shapeAfter sh0 (Item.open (st.ncap + 1) :: st.items).reverse n = _ ∨ shapeAfter sh0 (Item.open (st.ncap + 1) :: st.items).reverse n = _
    simp only [List.mem_cons, not_or] at h3
    simp only at h2
    rw [e, set_other _ _ _ _ h3.1]; exact h.done n h1 (by omega) h3.2
  · intro n hn
    simp only [List.mem_cons] at hn ⊢
    rcases hn with rfl | hn
    · omega
    · have := h.stack_range n hn; omega
  · intro n hn
    have hh : shapeAfter sh0 (Item.open (st.ncap + 1) :: st.items).reverse n = .position := hn
    rw [e] at hh
    by_cases hk : n = st.ncap + 1
    · subst hk; rw [set_same] at hh; cases hh
    · rw [set_other _ _ _ _ hk] at hh; exact List.mem_cons_of_mem _ (h.pos_mem n hh)

theorem PInv.posCap {st : PState} (h : PInv st) (hle : st.ncap + 1 ≤ 9) :
    PInv { st with items := .pos (st.ncap + 1) :: st.items, ncap := st.ncap + 1 } := by
  have e : shapeAfter sh0 (Item.pos (st.ncap + 1) :: st.items).reverse =
      (shapeAfter sh0 st.items.reverse).set (st.ncap + 1) .position := by
    rw [List.reverse_cons, shapeAfter_snoc]; rfl
  have hnotin : st.ncap + 1 ∉ st.stack := fun hm => by have := (h.stack_range _ hm).2; omega
  refine ⟨?_, ?_, ?_, ?_, ?_, hle, ?_, ?_, h.nodup⟩
  · show WFfrom sh0 (Item.pos (st.ncap + 1) :: st.items).reverse
    rw [List.reverse_cons, WFfrom_snoc]
    exact ⟨h.wf, by omega, by omega, h.beyond _ (by omega)⟩
  · intro n
    show shapeAfter sh0 (Item.pos (st.ncap + 1) :: st.items).reverse n = _ ↔ _
    rw [e]
    by_cases hn : n = st.ncap + 1
    · subst hn; simp [set_same, hnotin]
    · rw [set_other _ _ _ _ hn]; exact h.opened n
  · intro n hn
    show shapeAfter sh0 (Item.pos (st.ncap + 1) :: st.items).reverse n = _
    simp only at hn
    rw [e, set_other _ _ _ _ (by omega)]; exact h.beyond n (by omega)
  · show shapeAfter sh0 (Item.pos (st.ncap + 1) :: st.items).reverse 0 = _
    rw [e, set_other _ _ _ _ (by omega)]; exact h.zero
  · intro n h1 h2 h3
    show shapeAfter sh0 (Item.pos (st.ncap + 1) :: st.items).reverse n = _ ∨ shapeAfter sh0 (Item.pos (st.ncap + 1) :: st.items).reverse n = _
    simp only at h2
    rw [e]
    by_cases hn : n = st.ncap + 1
    · subst hn; right; exact set_same _ _ _
    · rw [set_other _ _ _ _ hn]; exact h.done n h1 (by omega) h3
  · intro n hn
    have := h.stack_range n hn
    simp only; omega
  · intro n hn
    have hh : shapeAfter sh0 (Item.pos (st.ncap + 1) :: st.items).reverse n = .position := hn
    rw [e] at hh
    by_cases hk : n = st.ncap + 1
    · subst hk; exact List.mem_cons_self
    · rw [set_other _ _ _ _ hk] at hh; exact List.mem_cons_of_mem _ (h.pos_mem n hh)

theorem PInv.closeCap {st : PState} (h : PInv st) (n : Nat) (stk : List Nat) (hstk : st.stack = n :: stk) :
    PInv { st with items := .close n :: st.items, stack := stk } := by
  have e : shapeAfter sh0 (Item.close n :: st.items).reverse =
      (shapeAfter sh0 st.items.reverse).set n .closed := by
    rw [List.reverse_cons, shapeAfter_snoc]; rfl
  have hn := h.stack_range n (by rw [hstk]; exact List.mem_cons_self)
  have hnd := h.nodup
  rw [hstk] at hnd
  have hnotin : n ∉ stk := (List.nodup_cons.mp hnd).1
  refine ⟨?_, ?_, ?_, ?_, ?_, h.ncap_le, ?_, ?_, (List.nodup_cons.mp hnd).2⟩
  · show WFfrom sh0 (Item.close n :: st.items).reverse
    rw [List.reverse_cons, WFfrom_snoc]
    refine ⟨h.wf, hn.1, by have := h.ncap_le; omega, ?_⟩
    exact (h.opened n).mpr (by rw [hstk]; exact List.mem_cons_self)
  · intro k
    show shapeAfter sh0 (Item.close n :: st.items).reverse k = _ ↔ _
    rw [e]
    by_cases hk : k = n
    · subst hk; simp [set_same, hnotin]
    · rw [set_other _ _ _ _ hk, h.opened k, hstk]; simp [hk]
  · intro k hk
    show shapeAfter sh0 (Item.close n :: st.items).reverse k = _
    simp only at hk
    rw [e, set_other _ _ _ _ (by omega)]; exact h.beyond k hk
  · show shapeAfter sh0 (Item.close n :: st.items).reverse 0 = _
    rw [e, set_other _ _ _ _ (by omega)]; exact h.zero
  · intro k h1 h2 h3
    show shapeAfter sh0 (Item.close n :: st.items).reverse k = _ ∨ shapeAfter sh0 (Item.close n :: st.items).reverse k = _
    rw [e]
    by_cases hk : k = n
    · subst hk; left; exact set_same _ _ _
    · rw [set_other _ _ _ _ hk]
      exact h.done k h1 h2 (by rw [hstk]; simp [hk]; exact h3)
  · intro k hk
    exact h.stack_range k (by rw [hstk]; exact List.mem_cons_of_mem _ hk)
  · intro k hk
    have hh : shapeAfter sh0 (Item.close n :: st.items).reverse k = .position := hk
    rw [e] at hh
    by_cases hkn : k = n
    · subst hkn; rw [set_same] at hh; cases hh
    · rw [set_other _ _ _ _ hkn] at hh; exact List.mem_cons_of_mem _ (h.pos_mem k hh)

theorem PInv.backrefItem {st : PState} (h : PInv st) (n : Nat) (h1 : 1 ≤ n) (h2 : n ≤ st.ncap) (h3 : n ∉ st.stack) :
    PInv { st with items := .backref n :: st.items } := by
  have e : shapeAfter sh0 (Item.backref n :: st.items).reverse = shapeAfter sh0 st.items.reverse := by
    rw [List.reverse_cons, shapeAfter_snoc]; rfl
  refine ⟨?_, ?_, ?_, ?_, ?_, h.ncap_le, h.stack_range, ?_, h.nodup⟩
  · show WFfrom sh0 (Item.backref n :: st.items).reverse
    rw [List.reverse_cons, WFfrom_snoc]; exact ⟨h.wf, h1, by have := h.ncap_le; omega, h.done n h1 h2 h3⟩
  · intro k; show shapeAfter sh0 (Item.backref n :: st.items).reverse k = _ ↔ _; rw [e]; exact h.opened k
  · intro k hk; show shapeAfter sh0 (Item.backref n :: st.items).reverse k = _; rw [e]; exact h.beyond k hk
  · show shapeAfter sh0 (Item.backref n :: st.items).reverse 0 = _; rw [e]; exact h.zero
  · intro k a b c; show shapeAfter sh0 (Item.backref n :: st.items).reverse k = _ ∨ shapeAfter sh0 (Item.backref n :: st.items).reverse k = _
    rw [e]; exact h.done k a b c
  · intro k hk
    have hh : shapeAfter sh0 (Item.backref n :: st.items).reverse k = .position := hk
    rw [e] at hh; exact List.mem_cons_of_mem _ (h.pos_mem k hh)

theorem parseItems_inv : ∀ (fuel : Nat) (l : List UInt8) (st stf : PState),
    LuaPattern.parseItems fuel l st = .ok stf → PInv st → PInv stf ∧ stf.stack = [] := by
  intro fuel
  induction fuel with
  | zero => intro l st stf h; rw [LuaPattern.parseItems.eq_1] at h; cases h
  | succ f ih =>
    intro l st stf h hinv
    have plain : ∀ (l' : List UInt8) (it : Item), (∀ sh, shapeStep sh it = sh) → (∀ sh, WFitem sh it) →
        LuaPattern.parseItems f l' { st with items := it :: st.items } = .ok stf → PInv stf ∧ stf.stack = [] :=
      fun l' it hs hw hk => ih l' _ stf hk (hinv.plain it hs hw)
    cases l with
    | nil =>
      rw [LuaPattern.parseItems.eq_2] at h
      by_cases hst : st.stack.isEmpty = true
      · simp only [hst, if_true] at h
        injection h with h; subst h
        exact ⟨hinv, by simpa using hst⟩
      · simp [hst] at h
    | cons a r =>
      by_cases hA : a = 36 ∧ r = []
      · obtain ⟨ha, hr⟩ := hA; subst ha; subst hr
        rw [LuaPattern.parseItems.eq_3] at h
        by_cases hst : st.stack.isEmpty = true
        · simp only [hst, if_true] at h
          injection h with h; subst h
          exact ⟨⟨hinv.wf, hinv.opened, hinv.beyond, hinv.zero, hinv.done, hinv.ncap_le, hinv.stack_range, hinv.pos_mem,
            hinv.nodup⟩, by simpa using hst⟩
        · simp [hst] at h
      · by_cases h40 : a = 40
        · subst h40
          cases r with
          | nil => rw [LuaPattern.parseItems.eq_4] at h; split at h <;> cases h
          | cons b2 r2 =>
            by_cases hb2 : b2 = 41
            · subst hb2
              rw [LuaPattern.parseItems.eq_5] at h
              by_cases hmaxc : st.ncap + 1 > LuaPattern.maxCaptures
              · simp [hmaxc] at h
              · simp only [hmaxc, if_false] at h
                exact ih _ _ stf h (hinv.posCap (by unfold LuaPattern.maxCaptures at hmaxc; omega))
            · rw [LuaPattern.parseItems.eq_6 _ _ _ (by intro e; cases e)
                (by intro rest' e; injection e with e1 _; exact hb2 e1)] at h
              by_cases hmaxc : st.ncap + 1 > LuaPattern.maxCaptures
              · simp [hmaxc] at h
              · simp only [hmaxc, if_false] at h
                exact ih _ _ stf h (hinv.openCap (by unfold LuaPattern.maxCaptures at hmaxc; omega))
        · by_cases h41 : a = 41
          · subst h41
            rw [LuaPattern.parseItems.eq_7] at h
            cases hstk : st.stack with
            | nil => rw [hstk] at h; simp at h
            | cons n stk =>
              rw [hstk] at h
              simp only at h
              exact ih _ _ stf h (hinv.closeCap n stk hstk)
          · by_cases h37 : a = 37
            · subst h37
              cases r with
              | nil =>
                rw [LuaPattern.parseItems.eq_13 _ _ _ (by intro e; cases e) (by intro e; cases e)
                  (by intro rest e; cases e) (by intro rest e; cases e) (by intro rest e; cases e)
                  (by intro rest e; cases e) (by intro d rest e; cases e)] at h
                rw [LuaPattern.parseClass.eq_3] at h
                cases h
              | cons d r2 =>
                by_cases hd98 : d = 98
                · subst hd98
                  cases r2 with
                  | nil => rw [LuaPattern.parseItems.eq_9 _ _ _ (by intro x y r' e; cases e)] at h; cases h
                  | cons x r3 =>
                    cases r3 with
                    | nil =>
                      rw [LuaPattern.parseItems.eq_9 _ _ _ (by intro x y r' e; injection e with _ e; cases e)] at h
                      cases h
                    | cons y r4 =>
                      rw [LuaPattern.parseItems.eq_8] at h
                      (refine plain _ _ ?_ ?_ h <;> intro sh <;> first | rfl | exact trivial)
                · by_cases hd102 : d = 102
                  · subst hd102
                    cases r2 with
                    | nil => rw [LuaPattern.parseItems.eq_11 _ _ _ (by intro r' e; cases e)] at h; cases h
                    | cons x r3 =>
                      by_cases hx91 : x = 91
                      · subst hx91
                        rw [LuaPattern.parseItems.eq_10] at h
                        split at h
                        · cases h
                        · (refine plain _ _ ?_ ?_ h <;> intro sh <;> first | rfl | exact trivial)
                      · rw [LuaPattern.parseItems.eq_11 _ _ _ (by intro r' e; injection e with e1 _; exact hx91 e1)] at h
                        cases h
                  · rw [LuaPattern.parseItems.eq_12 _ _ _ _ hd98 hd102] at h
                    split at h
                    · by_cases hbad : (d - 48).toNat = 0 ∨ (d - 48).toNat > st.ncap ∨ st.stack.contains (d - 48).toNat = true
                      · rw [if_pos hbad] at h; cases h
                      · rw [if_neg hbad] at h
                        have h1 : 1 ≤ (d - 48).toNat := by
                          have : ¬ ((d - 48).toNat = 0) := fun e => hbad (Or.inl e)
                          omega
                        have h2 : (d - 48).toNat ≤ st.ncap := by
                          have : ¬ ((d - 48).toNat > st.ncap) := fun e => hbad (Or.inr (Or.inl e))
                          omega
                        have h3 : (d - 48).toNat ∉ st.stack := by
                          intro hm
                          apply hbad; right; right
                          simp [List.contains_eq_mem, hm]
                        exact ih _ _ stf h (hinv.backrefItem _ h1 h2 h3)
                    · split at h
                      · cases h
                      · (refine plain _ _ ?_ ?_ h <;> intro sh <;> first | rfl | exact trivial)
            · rw [LuaPattern.parseItems.eq_13 _ _ _ (by intro e; cases e)
                (by intro e; injection e with e1 e2; exact hA ⟨e1, e2⟩)
                (by intro rest e; injection e with e1 _; exact h40 e1)
                (by intro rest e; injection e with e1 _; exact h41 e1)
                (by intro rest e; injection e with e1 _; exact h37 e1)
                (by intro rest e; injection e with e1 _; exact h37 e1)
                (by intro d rest e; injection e with e1 _; exact h37 e1)] at h
              split at h
              · cases h
              · (refine plain _ _ ?_ ?_ h <;> intro sh <;> first | rfl | exact trivial)

/-- PARSE WF: every pattern the Spec parses has well-formed captures -/
theorem parse_wf (p : List UInt8) (pat : LuaPattern.Pat) (hparse : LuaPattern.parse p = .ok pat) : CapturesWF pat := by
  unfold LuaPattern.parse at hparse
  cases hpi : LuaPattern.parseItems ((LuaPattern.stripCaret p).2.length + 1) (LuaPattern.stripCaret p).2
      { items := [], ncap := 0, stack := [], anchorEnd := false } with
  | error e => rw [hpi] at hparse; cases hparse
  | ok stf =>
    rw [hpi] at hparse
    injection hparse with hparse; subst hparse
    obtain ⟨hinv, hstk⟩ := parseItems_inv _ _ _ stf hpi PInv.init
    refine ⟨hinv.wf, fun n h1 h2 => ?_⟩
    exact hinv.done n h1 h2 (by rw [hstk]; simp)

end GoluaVerif.Model.PatMatch
