/-
  Proofs.C03Array — lemmas about the array part of Model.Table.
-/
import GoluaVerif.Model.TableInv
namespace GoluaVerif.Model.Table
open GoluaVerif.Spec (Key Val Map)

theorem live_iff (vs : List (Option Val)) (j : Nat) : live vs j = true ↔ ∃ v, vs[j]? = some (some v) := by
  unfold live
  split <;> simp_all

theorem live_eq_isSome (vs : List (Option Val)) (j : Nat) : live vs j = ((vs[j]?).join).isSome := by
  unfold live
  split
  · rename_i v h; simp [h]
  · rename_i h
    cases hv : vs[j]? with
    | none => rfl
    | some o => cases o with
      | none => rfl
      | some v => exact absurd hv (h v)

theorem live_set (vs : List (Option Val)) (i j : Nat) (v : Option Val) (hi : i < vs.length) :
    live (vs.set i v) j = if j = i then v.isSome else live vs j := by
  rw [live_eq_isSome, live_eq_isSome, List.getElem?_set]
  by_cases h : i = j
  · subst h; simp [hi]
  · have : ¬ j = i := fun e => h e.symm
    simp [h, this]

/-- the value the array part holds at index `i` -/
def arrAt (a : Option Arr) (i : Int) : Option Val :=
  match a with
  | none => none
  | some a => (a.values[i.toNat - 1]?).join

theorem has_iff (a : Arr) (i : Int) : a.has i = true ↔ 1 ≤ i ∧ i ≤ (a.values.length : Int) := by
  simp [Arr.has]

theorem has_idx (a : Arr) (i : Int) (h : a.has i = true) : i.toNat - 1 < a.values.length := by
  have := (has_iff a i).1 h; omega

/-- the array range of a table -/
def inArr (a : Option Arr) (i : Int) : Prop := 1 ≤ i ∧ i ≤ (arrSize a : Int)

instance (a : Option Arr) (i : Int) : Decidable (inArr a i) := by unfold inArr; exact inferInstance

theorem not_inArr_none (i : Int) : ¬ inArr none i := by
  simp [inArr, arrSize]; omega

theorem arrGet_eq (a : Option Arr) (i : Int) :
    arrGet a i = some (if inArr a i then (arrAt a i, true) else (none, false)) := by
  cases a with
  | none => simp [arrGet, not_inArr_none]
  | some a =>
    simp only [arrGet, arrSize, arrAt, inArr]
    by_cases h : a.has i = true
    · have hi := has_idx a i h
      have h' := (has_iff a i).1 h
      simp [h, h', List.getElem?_eq_getElem hi]
    · have h' : ¬ (1 ≤ i ∧ i ≤ (a.values.length : Int)) := fun hh => h ((has_iff a i).2 hh)
      simp [h, h']

/-! ### setValue -/

theorem arrSetValue_out (a : Option Arr) (i : Int) (v : Val) (h : ¬ inArr a i) :
    arrSetValue a i (some v) = some (a, false) := by
  cases a with
  | none => rfl
  | some a =>
    have : a.has i = false := by
      cases hh : a.has i with
      | false => rfl
      | true => exact absurd ((has_iff a i).1 hh) h
    simp [arrSetValue, this]

theorem arrSetValue_in (a : Arr) (i : Int) (v : Val) (h : inArr (some a) i) (inv : ArrInv a) :
    ∃ a', arrSetValue (some a) i (some v) = some (some a', true) ∧ ArrInv a' ∧
      a'.values.length = a.values.length ∧
      ∀ j : Int, arrAt (some a') j = if j.toNat - 1 = i.toNat - 1 then some v else arrAt (some a) j := by
  have hh : a.has i = true := (has_iff a i).2 h
  have hi := has_idx a i hh
  have h1 := h.1
  refine ⟨⟨a.values.set (i.toNat - 1) (some v), if a.len < i.toNat then i.toNat else a.len⟩, ?_, ?_, ?_, ?_⟩
  · simp [arrSetValue, hh, setAt, hi]
  · have h2 : i.toNat ≤ a.values.length := by have := h.2; simp [arrSize] at this; omega
    have il := inv.len_le
    have ill := inv.len_live
    have ia := inv.above_nil
    constructor
    · show (if a.len < i.toNat then i.toNat else a.len) ≤ (a.values.set (i.toNat - 1) (some v)).length
      simp only [List.length_set]; split <;> omega
    · show (if a.len < i.toNat then i.toNat else a.len) = 0 ∨
        live (a.values.set (i.toNat - 1) (some v)) ((if a.len < i.toNat then i.toNat else a.len) - 1) = true
      right
      rw [live_set _ _ _ _ hi]
      split
      · simp
      · rename_i hne
        split
        · rfl
        · rcases ill with h0 | hl
          · omega
          · exact hl
    · show ∀ j, j < (a.values.set (i.toNat - 1) (some v)).length →
        (if a.len < i.toNat then i.toNat else a.len) ≤ j → live (a.values.set (i.toNat - 1) (some v)) j = false
      intro j hj hlen
      simp only [List.length_set] at hj
      rw [live_set _ _ _ _ hi]
      have : ¬ j = i.toNat - 1 := by
        intro e; subst e
        split at hlen <;> omega
      simp only [this, if_false]
      apply ia j hj
      split at hlen <;> omega
  · simp
  · intro j
    simp only [arrAt, List.getElem?_set]
    by_cases e : i.toNat - 1 = j.toNat - 1
    · simp [e, e ▸ hi]
    · have : ¬ j.toNat - 1 = i.toNat - 1 := fun x => e x.symm
      simp [e, this]

/-! ### resetValue -/

theorem arrResetValue_out (a : Option Arr) (i : Int) (v : Option Val) (h : ¬ inArr a i) :
    arrResetValue a i v = some (a, false, false) := by
  cases a with
  | none => rfl
  | some a =>
    have : a.has i = false := by
      cases hh : a.has i with
      | false => rfl
      | true => exact absurd ((has_iff a i).1 hh) h
    simp [arrResetValue, this]

theorem arrAt_isSome_lt (a : Arr) (inv : ArrInv a) (i : Int) (h : inArr (some a) i)
    (hs : (arrAt (some a) i).isSome = true) : i.toNat - 1 < a.len := by
  have hh : a.has i = true := (has_iff a i).2 h
  have hi := has_idx a i hh
  apply Decidable.byContradiction
  intro hc
  have := inv.above_nil (i.toNat - 1) hi (by omega)
  rw [live_eq_isSome] at this
  simp only [arrAt] at hs
  rw [hs] at this
  exact absurd this (by simp)

theorem arrResetValue_absent (a : Arr) (i : Int) (v : Option Val) (h : inArr (some a) i)
    (hn : arrAt (some a) i = none) : arrResetValue (some a) i v = some (some a, true, false) := by
  have hh : a.has i = true := (has_iff a i).2 h
  have hi := has_idx a i hh
  simp only [arrAt] at hn
  simp only [arrResetValue, hh, if_true, List.getElem?_eq_getElem hi] at hn ⊢
  cases hv : a.values[i.toNat - 1] with
  | none => simp
  | some x => simp [hv] at hn

theorem arrResetValue_present (a : Arr) (i : Int) (v : Val) (h : inArr (some a) i) (inv : ArrInv a)
    (hs : (arrAt (some a) i).isSome = true) :
    ∃ a', arrResetValue (some a) i (some v) = some (some a', true, true) ∧ ArrInv a' ∧
      a'.values.length = a.values.length ∧
      ∀ j : Int, arrAt (some a') j = if j.toNat - 1 = i.toNat - 1 then some v else arrAt (some a) j := by
  have hh : a.has i = true := (has_iff a i).2 h
  have hi := has_idx a i hh
  have hlt := arrAt_isSome_lt a inv i h hs
  have il := inv.len_le
  have ill := inv.len_live
  have ia := inv.above_nil
  refine ⟨⟨a.values.set (i.toNat - 1) (some v), a.len⟩, ?_, ?_, ?_, ?_⟩
  · simp only [arrAt] at hs
    simp only [arrResetValue, hh, if_true, List.getElem?_eq_getElem hi] at hs ⊢
    cases hv : a.values[i.toNat - 1] with
    | none => simp [hv] at hs
    | some x => simp [setAt, hi]
  · constructor
    · show a.len ≤ (a.values.set (i.toNat - 1) (some v)).length
      simp only [List.length_set]; exact il
    · show a.len = 0 ∨ live (a.values.set (i.toNat - 1) (some v)) (a.len - 1) = true
      right
      rw [live_set _ _ _ _ hi]
      split
      · rfl
      · rcases ill with h0 | hl
        · omega
        · exact hl
    · show ∀ j, j < (a.values.set (i.toNat - 1) (some v)).length → a.len ≤ j →
        live (a.values.set (i.toNat - 1) (some v)) j = false
      intro j hj hlen
      simp only [List.length_set] at hj
      rw [live_set _ _ _ _ hi]
      have : ¬ j = i.toNat - 1 := by omega
      simp only [this, if_false]
      exact ia j hj hlen
  · simp
  · intro j
    simp only [arrAt, List.getElem?_set]
    by_cases e : i.toNat - 1 = j.toNat - 1
    · simp [e, e ▸ hi]
    · have : ¬ j.toNat - 1 = i.toNat - 1 := fun x => e x.symm
      simp [e, this]

/-! ### remove -/

theorem shrinkLen_spec (vs : List (Option Val)) (l : Nat) (hl : l ≤ vs.length) :
    ∃ l', shrinkLen vs l = some l' ∧ l' ≤ l ∧ (l' = 0 ∨ live vs (l' - 1) = true) ∧
      ∀ j, l' ≤ j → j < l → live vs j = false := by
  induction l with
  | zero => exact ⟨0, rfl, Nat.le_refl _, Or.inl rfl, fun j _ h => absurd h (Nat.not_lt_zero _)⟩
  | succ l ih =>
    have hlt : l < vs.length := hl
    simp only [shrinkLen, List.getElem?_eq_getElem hlt, Option.bind_eq_bind, Option.bind_some]
    cases hv : vs[l] with
    | none =>
      obtain ⟨l', e, h1, h2, h3⟩ := ih (Nat.le_of_lt hlt)
      refine ⟨l', by simpa using e, by omega, h2, ?_⟩
      intro j hj hjl
      by_cases ej : j = l
      · subst ej; rw [live_eq_isSome]; simp [List.getElem?_eq_getElem hlt, hv]
      · exact h3 j hj (by omega)
    | some x =>
      refine ⟨l + 1, by simp, Nat.le_refl _, Or.inr ?_, fun j h1 h2 => by omega⟩
      rw [live_eq_isSome]; simp [List.getElem?_eq_getElem hlt, hv]

theorem arrRemove_out (a : Option Arr) (i : Int) (h : ¬ inArr a i) :
    arrRemove a i = some (a, false, false) := by
  cases a with
  | none => rfl
  | some a =>
    have : a.has i = false := by
      cases hh : a.has i with
      | false => rfl
      | true => exact absurd ((has_iff a i).1 hh) h
    simp [arrRemove, this]

theorem arrRemove_absent (a : Arr) (i : Int) (h : inArr (some a) i)
    (hn : arrAt (some a) i = none) : arrRemove (some a) i = some (some a, true, false) := by
  have hh : a.has i = true := (has_iff a i).2 h
  have hi := has_idx a i hh
  simp only [arrAt] at hn
  simp only [arrRemove, hh, if_true, List.getElem?_eq_getElem hi] at hn ⊢
  cases hv : a.values[i.toNat - 1] with
  | none => simp
  | some x => simp [hv] at hn

theorem arrRemove_present (a : Arr) (i : Int) (h : inArr (some a) i) (inv : ArrInv a)
    (hs : (arrAt (some a) i).isSome = true) :
    ∃ a', arrRemove (some a) i = some (some a', true, true) ∧ ArrInv a' ∧
      a'.values.length = a.values.length ∧
      ∀ j : Int, arrAt (some a') j = if j.toNat - 1 = i.toNat - 1 then none else arrAt (some a) j := by
  have hh : a.has i = true := (has_iff a i).2 h
  have hi := has_idx a i hh
  have hlt := arrAt_isSome_lt a inv i h hs
  have il := inv.len_le
  have ill := inv.len_live
  have ia := inv.above_nil
  have h1 := h.1
  have hat : ∀ (a' : Arr), a'.values = a.values.set (i.toNat - 1) none →
      ∀ j : Int, arrAt (some a') j = if j.toNat - 1 = i.toNat - 1 then none else arrAt (some a) j := by
    intro a' e j
    simp only [arrAt, e, List.getElem?_set]
    by_cases e : i.toNat - 1 = j.toNat - 1
    · simp [e, e ▸ hi]
    · have : ¬ j.toNat - 1 = i.toNat - 1 := fun x => e x.symm
      simp [e, this]
  have hws : (decide ((a.len : Int) ≥ i) && (a.values[i.toNat - 1]).isSome) = true := by
    simp only [arrAt, List.getElem?_eq_getElem hi] at hs
    have : (a.values[i.toNat - 1]).isSome = true := by
      cases hv : a.values[i.toNat - 1] with
      | none => simp [hv] at hs
      | some x => rfl
    simp [this]; omega
  by_cases hl : a.len = i.toNat
  · obtain ⟨l', e, hle, hlive, habove⟩ := shrinkLen_spec (a.values.set (i.toNat - 1) none) i.toNat
      (by simp only [List.length_set]; omega)
    refine ⟨⟨a.values.set (i.toNat - 1) none, l'⟩, ?_, ?_, by simp, hat _ rfl⟩
    · simp only [arrRemove, hh, if_true, List.getElem?_eq_getElem hi, Option.bind_eq_bind, Option.bind_some]
      rw [hws]
      simp [setAt, hi, hl, e]
    · constructor
      · show l' ≤ (a.values.set (i.toNat - 1) none).length
        simp only [List.length_set]; omega
      · exact hlive
      · show ∀ j, j < (a.values.set (i.toNat - 1) none).length → l' ≤ j →
          live (a.values.set (i.toNat - 1) none) j = false
        intro j hj hlen
        by_cases hjl : j < i.toNat
        · exact habove j hlen hjl
        · simp only [List.length_set] at hj
          rw [live_set _ _ _ _ hi]
          have : ¬ j = i.toNat - 1 := by omega
          simp only [this, if_false]
          exact ia j hj (by omega)
  · refine ⟨⟨a.values.set (i.toNat - 1) none, a.len⟩, ?_, ?_, by simp, hat _ rfl⟩
    · simp only [arrRemove, hh, if_true, List.getElem?_eq_getElem hi, Option.bind_eq_bind, Option.bind_some]
      rw [hws]
      simp [setAt, hi, hl]
    · constructor
      · show a.len ≤ (a.values.set (i.toNat - 1) none).length
        simp only [List.length_set]; exact il
      · show a.len = 0 ∨ live (a.values.set (i.toNat - 1) none) (a.len - 1) = true
        right
        rw [live_set _ _ _ _ hi]
        have : ¬ a.len - 1 = i.toNat - 1 := by omega
        simp only [this, if_false]
        rcases ill with h0 | hl'
        · omega
        · exact hl'
      · show ∀ j, j < (a.values.set (i.toNat - 1) none).length → a.len ≤ j →
          live (a.values.set (i.toNat - 1) none) j = false
        intro j hj hlen
        simp only [List.length_set] at hj
        rw [live_set _ _ _ _ hi]
        split
        · rfl
        · exact ia j hj hlen

end GoluaVerif.Model.Table
