/-
  Proofs.Numeral — lemmas about Spec.Numeral used by Props/C02 (numeral section) and Props/C12.
-/
import GoluaVerif.Spec.Numeral
namespace GoluaVerif.Proofs.Numeral
open GoluaVerif GoluaVerif.Spec GoluaVerif.Spec.Numeral

/-! ### trimming -/

theorem dropWhile_append_all {p : UInt8 → Bool} (ws s : Bytes) (h : ws.all p = true) :
    (ws ++ s).dropWhile p = s.dropWhile p := by
  induction ws with
  | nil => rfl
  | cons a t ih =>
    simp only [List.all_cons, Bool.and_eq_true] at h
    simp only [List.cons_append, List.dropWhile_cons, h.1, if_true]
    exact ih h.2

theorem dropWhile_append_of_stop {p : UInt8 → Bool} (s t : Bytes) (h : s.all p = false) :
    (s ++ t).dropWhile p = s.dropWhile p ++ t := by
  induction s with
  | nil => simp at h
  | cons a r ih =>
    simp only [List.cons_append, List.dropWhile_cons]
    cases hp : p a with
    | true =>
      simp only [if_true]
      apply ih
      simpa [List.all_cons, hp] using h
    | false => simp

theorem dropWhile_all {p : UInt8 → Bool} (s : Bytes) (h : s.all p = true) : s.dropWhile p = [] := by
  induction s with
  | nil => rfl
  | cons a r ih =>
    simp only [List.all_cons, Bool.and_eq_true] at h
    simp [h.1, ih h.2]

theorem trimL_append_ws (ws s : Bytes) (h : ws.all isSpace = true) : trimL (ws ++ s) = trimL s :=
  dropWhile_append_all ws s h

theorem trimR_append_ws (s ws : Bytes) (h : ws.all isSpace = true) : trimR (s ++ ws) = trimR s := by
  unfold trimR
  rw [List.reverse_append, dropWhile_append_all]
  simpa using h

/-- surrounding white space never matters -/
theorem trim_surround (ws1 s ws2 : Bytes) (h1 : ws1.all isSpace = true) (h2 : ws2.all isSpace = true) :
    trim (ws1 ++ s ++ ws2) = trim s := by
  unfold trim
  rw [List.append_assoc, trimL_append_ws _ _ h1]
  cases hs : s.all isSpace with
  | true =>
    have : (s ++ ws2).all isSpace = true := by simp [List.all_append, hs, h2]
    unfold trimL
    rw [dropWhile_all _ this, dropWhile_all _ hs]
  | false =>
    unfold trimL
    rw [dropWhile_append_of_stop _ _ hs]
    exact trimR_append_ws _ _ h2

theorem mem_dropWhile_of_not {p : UInt8 → Bool} {c : UInt8} (s : Bytes) (hc : c ∈ s) (hp : p c = false) :
    c ∈ s.dropWhile p := by
  induction s with
  | nil => cases hc
  | cons a r ih =>
    simp only [List.dropWhile_cons]
    cases hpa : p a with
    | true =>
      simp only [if_true]
      rcases List.mem_cons.mp hc with rfl | h
      · rw [hp] at hpa; cases hpa
      · exact ih h
    | false => simpa using hc

/-- a byte that is not white space survives trimming -/
theorem mem_trim_of_not_space {c : UInt8} (s : Bytes) (hc : c ∈ s) (hp : isSpace c = false) : c ∈ trim s := by
  unfold trim trimR
  rw [List.mem_reverse]
  apply mem_dropWhile_of_not _ _ hp
  rw [List.mem_reverse]
  exact mem_dropWhile_of_not _ hc hp

/-! ### the alphabet of accepted numerals -/

/-- bytes that can occur in a numeral accepted by `str2numberCore` -/
def allowed (c : UInt8) : Bool := isXDigit c || isX c || isP c || c == 46 || c == 43 || c == 45

theorem splitSign_mem {c : UInt8} (core : Bytes) (hc : c ∈ core) :
    c = 43 ∨ c = 45 ∨ c ∈ (splitSign core).2 := by
  unfold splitSign
  split
  · rcases List.mem_cons.mp hc with rfl | h
    · exact Or.inr (Or.inl rfl)
    · exact Or.inr (Or.inr h)
  · rcases List.mem_cons.mp hc with rfl | h
    · exact Or.inl rfl
    · exact Or.inr (Or.inr h)
  · exact Or.inr (Or.inr hc)

theorem hexBody_some {r h : Bytes} (hh : hexBody r = some h) : ∃ x, isX x = true ∧ r = 48 :: x :: h := by
  unfold hexBody at hh
  split at hh
  · rename_i x h'
    split at hh
    · rename_i hx
      cases hh
      exact ⟨x, hx, rfl⟩
    · cases hh
  · cases hh

theorem mem_takeWhile {p : UInt8 → Bool} {c : UInt8} (s : Bytes) (h : c ∈ s.takeWhile p) : p c = true := by
  induction s with
  | nil => cases h
  | cons a r ih =>
    simp only [List.takeWhile_cons] at h
    cases hp : p a with
    | true =>
      simp only [hp, if_true] at h
      rcases List.mem_cons.mp h with rfl | h
      · exact hp
      · exact ih h
    | false => simp [hp] at h

theorem fracPart_spec {p : UInt8 → Bool} (r1 : Bytes) :
    (∀ c ∈ (fracPart p r1).1, p c = true) ∧
    (r1 = (fracPart p r1).1 ++ (fracPart p r1).2 ∨ r1 = 46 :: (fracPart p r1).1 ++ (fracPart p r1).2) := by
  unfold fracPart
  split
  · rename_i t
    refine ⟨fun c hc => mem_takeWhile _ hc, Or.inr ?_⟩
    simp [List.takeWhile_append_dropWhile]
  · exact ⟨fun c hc => (by cases hc), Or.inl (by simp)⟩

theorem mantissa_some {p : UInt8 → Bool} {s ip fp r2 : Bytes} (h : mantissa p s = some (ip, fp, r2)) :
    (∀ c ∈ ip, p c = true) ∧ (∀ c ∈ fp, p c = true) ∧ (s = ip ++ fp ++ r2 ∨ s = ip ++ 46 :: fp ++ r2) := by
  unfold mantissa at h
  simp only at h
  split at h
  · cases h
  · have := Option.some.inj h
    simp only [Prod.mk.injEq] at this
    obtain ⟨h1, h2, h3⟩ := this
    have hf := fracPart_spec (p := p) (s.dropWhile p)
    rw [h2, h3] at hf
    have hs : s = ip ++ s.dropWhile p := by rw [← h1]; exact List.takeWhile_append_dropWhile.symm
    refine ⟨?_, hf.1, ?_⟩
    · rw [← h1]; exact fun c hc => mem_takeWhile _ hc
    · rcases hf.2 with e | e
      · left; rw [List.append_assoc, ← e]; exact hs
      · right; rw [List.append_assoc]; simp only [List.cons_append] at e ⊢; rw [← e]; exact hs

theorem exponent_some {mk : UInt8 → Bool} {r2 : Bytes} {e : Int} (h : exponent mk r2 = some e) :
    ∀ c ∈ r2, mk c = true ∨ c = 43 ∨ c = 45 ∨ isDigit c = true := by
  unfold exponent at h
  split at h
  · intro c hc; cases hc
  · rename_i m r
    split at h
    · rename_i hm
      simp only at h
      split at h
      · rename_i hd
        simp only [Bool.and_eq_true] at hd
        intro c hc
        rcases List.mem_cons.mp hc with rfl | hc
        · exact Or.inl hm
        · rcases splitSign_mem r hc with h1 | h1 | h1
          · exact Or.inr (Or.inl h1)
          · exact Or.inr (Or.inr (Or.inl h1))
          · exact Or.inr (Or.inr (Or.inr (List.all_eq_true.mp hd.2 c h1)))
      · cases h
    · cases h

theorem allowed_of_digit {c : UInt8} (h : isDigit c = true) : allowed c = true := by
  simp [allowed, isXDigit, h]
theorem allowed_of_xdigit {c : UInt8} (h : isXDigit c = true) : allowed c = true := by
  simp [allowed, h]
theorem allowed_of_isE {c : UInt8} (h : isE c = true) : allowed c = true := by
  have : isXDigit c = true := by
    simp only [isE, Bool.or_eq_true, beq_iff_eq] at h
    rcases h with rfl | rfl <;> decide
  simp [allowed, this]

theorem str2int_alphabet {core : Bytes} {n : I64} (h : str2int core = some n) :
    ∀ c ∈ core, allowed c = true := by
  intro c hc
  unfold str2int at h
  simp only at h
  rcases splitSign_mem core hc with rfl | rfl | hc
  · decide
  · decide
  · split at h
    · rename_i hb heq
      obtain ⟨x, hx, hr⟩ := hexBody_some heq
      split at h
      · rename_i hall
        simp only [Bool.and_eq_true] at hall
        rw [hr] at hc
        rcases List.mem_cons.mp hc with rfl | hc
        · decide
        · rcases List.mem_cons.mp hc with rfl | hc
          · simp [allowed, hx]
          · exact allowed_of_xdigit (List.all_eq_true.mp hall.2 c hc)
      · cases h
    · split at h
      · rename_i hall
        simp only [Bool.and_eq_true] at hall
        exact allowed_of_digit (List.all_eq_true.mp hall.2 c hc)
      · cases h

theorem mantissa_exponent_alphabet {p mk : UInt8 → Bool} {s ip fp r2 : Bytes} {e : Int}
    (hp : ∀ c, p c = true → allowed c = true) (hmk : ∀ c, mk c = true → allowed c = true)
    (hm : mantissa p s = some (ip, fp, r2)) (he : exponent mk r2 = some e) :
    ∀ c ∈ s, allowed c = true := by
  obtain ⟨h1, h2, h3⟩ := mantissa_some hm
  have h4 := exponent_some he
  have hr2 : ∀ c ∈ r2, allowed c = true := by
    intro c hc
    rcases h4 c hc with h | rfl | rfl | h
    · exact hmk c h
    · decide
    · decide
    · exact allowed_of_digit h
  intro c hc
  rcases h3 with rfl | rfl
  · simp only [List.mem_append] at hc
    rcases hc with (hc | hc) | hc
    · exact hp c (h1 c hc)
    · exact hp c (h2 c hc)
    · exact hr2 c hc
  · simp only [List.mem_append, List.mem_cons] at hc
    rcases hc with (hc | rfl | hc) | hc
    · exact hp c (h1 c hc)
    · decide
    · exact hp c (h2 c hc)
    · exact hr2 c hc

theorem str2d_alphabet {core : Bytes} {f : F64} (h : str2d core = some f) :
    ∀ c ∈ core, allowed c = true := by
  intro c hc
  unfold str2d at h
  simp only at h
  rcases splitSign_mem core hc with rfl | rfl | hc
  · decide
  · decide
  · split at h
    · rename_i hb heq
      obtain ⟨x, hx, hr⟩ := hexBody_some heq
      split at h
      · rename_i ip fp r2 hm
        split at h
        · rename_i e he
          rw [hr] at hc
          rcases List.mem_cons.mp hc with rfl | hc
          · decide
          · rcases List.mem_cons.mp hc with rfl | hc
            · simp [allowed, hx]
            · exact mantissa_exponent_alphabet (fun c h => allowed_of_xdigit h)
                (fun c h => by simp [allowed, h]) hm he c hc
        · cases h
      · cases h
    · split at h
      · rename_i ip fp r2 hm
        split at h
        · rename_i e he
          exact mantissa_exponent_alphabet (fun c h => allowed_of_digit h)
            (fun c h => allowed_of_isE h) hm he c hc
        · cases h
      · cases h

theorem str2numberCore_alphabet {core : Bytes} {v : Num} (h : str2numberCore core = some v) :
    ∀ c ∈ core, allowed c = true := by
  unfold str2numberCore at h
  split at h
  · rename_i n hn; exact str2int_alphabet hn
  · cases hd : str2d core with
    | none => simp [hd] at h
    | some f => exact str2d_alphabet hd

/-- every byte of a string that `tonumber` accepts is white space, a hex digit, `x X p P . + -` -/
theorem str2number_alphabet {s : Bytes} {v : Num} (h : str2number s = some v) :
    ∀ c ∈ s, isSpace c = true ∨ allowed c = true := by
  intro c hc
  cases hsp : isSpace c with
  | true => exact Or.inl rfl
  | false => exact Or.inr (str2numberCore_alphabet h c (mem_trim_of_not_space s hc hsp))

/-! ### integers -/

theorem takeWhile_all {p : UInt8 → Bool} (s : Bytes) (h : s.all p = true) : s.takeWhile p = s := by
  induction s with
  | nil => rfl
  | cons a r ih =>
    simp only [List.all_cons, Bool.and_eq_true] at h
    simp [h.1, ih h.2]

/-- a digit string has no sign and no hex prefix -/
theorem digits_shape (ds : Bytes) (hd : ds.all isDigit = true) :
    splitSign ds = (false, ds) ∧ hexBody ds = none := by
  constructor
  · unfold splitSign
    split
    · simp [List.all_cons, isDigit] at hd
    · simp [List.all_cons, isDigit] at hd
    · rfl
  · unfold hexBody
    split
    · rename_i x h
      simp only [List.all_cons, Bool.and_eq_true] at hd
      have : isX x = false := by
        have h2 := hd.2.1
        simp only [isDigit, Bool.and_eq_true, decide_eq_true_eq] at h2
        simp only [isX, Bool.or_eq_false_iff, beq_eq_false_iff_ne]
        constructor <;> (intro hx; rw [hx] at h2; revert h2; decide)
      simp [this]
    · rfl

/-! ### numeric literals made of decimal digits -/

theorem dropWhile_none {p : UInt8 → Bool} (s : Bytes) (h : ∀ c ∈ s, p c = false) : s.dropWhile p = s := by
  cases s with
  | nil => rfl
  | cons a r => simp [h a (List.mem_cons_self ..)]

theorem trim_digits (ds : Bytes) (hd : ds.all isDigit = true) : trim ds = ds := by
  have hns : ∀ c ∈ ds, isSpace c = false := by
    intro c hc
    have h := List.all_eq_true.mp hd c hc
    simp only [isDigit, Bool.and_eq_true, decide_eq_true_eq, UInt8.le_iff_toNat_le] at h
    simp only [isSpace, Bool.or_eq_false_iff, Bool.and_eq_false_iff, beq_eq_false_iff_ne, ne_eq,
      decide_eq_false_iff_not, UInt8.le_iff_toNat_le, ← UInt8.toNat_inj]
    simp only [UInt8.toNat_ofNat] at h ⊢
    omega
  unfold trim trimL trimR
  rw [dropWhile_none ds hns, dropWhile_none ds.reverse (fun c hc => hns c (List.mem_reverse.mp hc)),
    List.reverse_reverse]

theorem lexBody_digits (am : Bool) (ds : Bytes) (hd : ds.all isDigit = true) :
    lexBody false am ds = ds.length := by
  induction ds generalizing am with
  | nil => cases am <;> rfl
  | cons c r ih =>
    simp only [List.all_cons, Bool.and_eq_true] at hd
    have hc := hd.1
    have h1 : (c == 43 || c == 45) = false := by
      simp only [isDigit, Bool.and_eq_true, decide_eq_true_eq, UInt8.le_iff_toNat_le] at hc
      simp only [Bool.or_eq_false_iff, beq_eq_false_iff_ne, ne_eq, ← UInt8.toNat_inj]
      simp only [UInt8.toNat_ofNat] at hc ⊢
      omega
    have h2 : isE c = false := by
      simp only [isDigit, Bool.and_eq_true, decide_eq_true_eq, UInt8.le_iff_toNat_le] at hc
      simp only [isE, Bool.or_eq_false_iff, beq_eq_false_iff_ne, ne_eq, ← UInt8.toNat_inj]
      simp only [UInt8.toNat_ofNat] at hc ⊢
      omega
    have h3 : isXDigit c = true := by simp [isXDigit, hc]
    simp [lexBody, h1, h2, h3, ih false hd.2]
    omega

theorem lexExtent_digits (ds : Bytes) (hne : ds ≠ []) (hd : ds.all isDigit = true) :
    lexExtent ds = some ds.length := by
  cases ds with
  | nil => exact absurd rfl hne
  | cons c r =>
    simp only [List.all_cons, Bool.and_eq_true] at hd
    cases r with
    | nil => simp [lexExtent, hd.1, lexBody]
    | cons x r' =>
      simp only [List.all_cons, Bool.and_eq_true] at hd
      have hx : isX x = false := by
        have h2 := hd.2.1
        simp only [isDigit, Bool.and_eq_true, decide_eq_true_eq, UInt8.le_iff_toNat_le] at h2
        simp only [isX, Bool.or_eq_false_iff, beq_eq_false_iff_ne, ne_eq, ← UInt8.toNat_inj]
        simp only [UInt8.toNat_ofNat] at h2 ⊢
        omega
      have hb : lexBody false false (x :: r') = (x :: r').length :=
        lexBody_digits false (x :: r') (by simp [hd.2.1, hd.2.2])
      simp only [lexExtent, hd.1, Bool.true_or, Bool.not_true, hx, Bool.and_false]
      simp only [Bool.false_eq_true, if_false]
      rw [hb]
      have hdrop : List.drop (1 + (x :: r').length) (c :: x :: r') = [] :=
        List.drop_eq_nil_of_le (by simp; omega)
      rw [hdrop]
      simp
      omega

end GoluaVerif.Proofs.Numeral
