/-
  Proofs.C13Marshal — `unmarshal (marshal c) = c` for every well-formed constant tree.
-/
import GoluaVerif.Model.Marshal
import GoluaVerif.Proofs.C17Bytes
namespace GoluaVerif.Model.Marshal
open GoluaVerif
open GoluaVerif.Model.Pack (leBytes ofLE leBytes_length ofLE_leBytes)

/-- a length that fits the int64 size field (any Go slice or string does) -/
def okLen (n _elem : Nat) : Prop := n < 2 ^ 63

mutual
/-- every length in the tree fits its int64 size field and the upvalue / register / cell counts are not negative -/
def wf : Const → Prop
  | .int _ => True
  | .float _ => True
  | .str s => okLen s.length 1
  | .code src name ops lines ks uv rc cc ups =>
    okLen src.length 1 ∧ okLen name.length 1 ∧ okLen ops.length 4 ∧ okLen lines.length 4 ∧ okLen ks.length 16 ∧
    okLen ups.length 16 ∧ (∀ u ∈ ups, okLen u.length 1) ∧ wfs ks ∧
    (uv.toNat < 2 ^ 15 ∧ rc.toNat < 2 ^ 15 ∧ cc.toNat < 2 ^ 15)      -- the three int16 counts are not negative
def wfs : List Const → Prop
  | [] => True
  | k :: ks => wf k ∧ wfs ks
end

mutual
/-- nesting of reader calls needed for the tree -/
def depth : Const → Nat
  | .code _ _ _ _ ks _ _ _ _ => 1 + depths ks
  | _ => 1
def depths : List Const → Nat
  | [] => 1
  | k :: ks => 1 + max (depth k) (depths ks)
end

theorem takeN_append (w post : Bytes) (n : Nat) (h : w.length = n) : takeN n (w ++ post) = .ok (w, post) := by
  subst h; simp [takeN]

theorem getU_leBytes (k x : Nat) (post : Bytes) : getU k (leBytes k x ++ post) = .ok (x % 256 ^ k, post) := by
  simp [getU, takeN_append _ _ _ (leBytes_length k x), ofLE_leBytes]

theorem getSize_leBytes (item n : Nat) (post : Bytes) (h : n < 2 ^ 63) (hp : n ≤ post.length / item) :
    getSize item (leBytes 8 n ++ post) = .ok (n, post) := by
  have hmod : n % 256 ^ 8 = n := by omega
  unfold getSize
  rw [getU_leBytes, hmod]
  simp only
  have h1 : ¬ n ≥ 2 ^ 63 := by omega
  have h2 : ¬ n > post.length / item := by omega
  simp [h1, h2]

theorem getStr_putStr (s post : Bytes) (h : okLen s.length 1) : getStr (putStr s ++ post) = .ok (s, post) := by
  unfold getStr putStr
  rw [List.append_assoc, getSize_leBytes 1 s.length (s ++ post) h (by simp)]
  simp only
  exact takeN_append s post s.length rfl

theorem ofNat32 (w : BitVec 32) : BitVec.ofNat 32 (w.toNat % 256 ^ 4) = w := by
  apply BitVec.eq_of_toNat_eq
  have := w.isLt
  simp; omega

theorem putWords_length (ws : List (BitVec 32)) : (putWords ws).length = 4 * ws.length := by
  induction ws with
  | nil => rfl
  | cons w t ih => simp [putWords, leBytes_length, ih]; omega

theorem getWords_putWords (ws : List (BitVec 32)) (post : Bytes) :
    getWords ws.length (putWords ws ++ post) = .ok (ws, post) := by
  induction ws with
  | nil => rfl
  | cons w t ih =>
    simp only [List.length_cons, getWords, putWords, List.append_assoc]
    rw [getU_leBytes]; simp only
    rw [ih]; simp only [ofNat32]

theorem putStr_length (s : Bytes) : (putStr s).length = 8 + s.length := by simp [putStr, leBytes_length]

theorem putStrs_length_ge (ss : List Bytes) : 8 * ss.length ≤ (putStrs ss).length := by
  induction ss with
  | nil => simp [putStrs]
  | cons s t ih => simp [putStrs, putStr_length]; omega

theorem getStrs_putStrs (ss : List Bytes) (post : Bytes) (h : ∀ u ∈ ss, okLen u.length 1) :
    getStrs ss.length (putStrs ss ++ post) = .ok (ss, post) := by
  induction ss with
  | nil => rfl
  | cons s t ih =>
    simp only [List.length_cons, getStrs, putStrs, List.append_assoc]
    rw [getStr_putStr s _ (h s (by simp))]; simp only
    rw [ih (fun u hu => h u (by simp [hu]))]

mutual
theorem putConst_length_pos : ∀ c : Const, 1 ≤ (putConst c).length
  | .int _ => by simp [putConst]
  | .float _ => by simp [putConst]
  | .str _ => by simp [putConst]
  | .code .. => by simp [putConst]
end

theorem putConsts_length_ge (ks : List Const) : ks.length ≤ (putConsts ks).length := by
  induction ks with
  | nil => simp [putConsts]
  | cons k t ih =>
    have := putConst_length_pos k
    simp [putConsts]; omega

theorem ofNat16 (w : BitVec 16) : BitVec.ofNat 16 (w.toNat % 256 ^ 2) = w := by
  apply BitVec.eq_of_toNat_eq
  have := w.isLt
  simp; omega

theorem ofNat64 (w : BitVec 64) : BitVec.ofNat 64 (w.toNat % 256 ^ 8) = w := by
  apply BitVec.eq_of_toNat_eq
  have := w.isLt
  simp; omega

/-- the reader inverts the writer, for any fuel that covers the nesting depth -/
theorem get_put : ∀ fuel : Nat,
    (∀ (c : Const) (post : Bytes), depth c ≤ fuel → wf c → getConst fuel (putConst c ++ post) = .ok (c, post)) ∧
    (∀ (ks : List Const) (post : Bytes), depths ks ≤ fuel → wfs ks →
      getConsts fuel ks.length (putConsts ks ++ post) = .ok (ks, post)) := by
  intro fuel
  induction fuel with
  | zero =>
    constructor
    · intro c post hd; cases c <;> simp [depth] at hd
    · intro ks post hd; cases ks <;> simp [depths] at hd
  | succ fuel ih =>
    constructor
    · intro c post hd hw
      cases c with
      | int n =>
        simp only [putConst, List.cons_append, getConst, tagInt, if_true]
        rw [getU_leBytes]; simp only [ofNat64]
      | float b =>
        simp only [putConst, List.cons_append, getConst]
        have h1 : ¬ (tagFloat = tagInt) := by decide
        simp only [h1, if_false, if_true]
        rw [getU_leBytes]; simp only [ofNat64]
      | str s =>
        simp only [putConst, List.cons_append, getConst]
        have h1 : ¬ (tagString = tagInt) := by decide
        have h2 : ¬ (tagString = tagFloat) := by decide
        simp only [h1, h2, if_false, if_true]
        rw [getStr_putStr s post hw]
      | code src name ops lines ks uv rc cc ups =>
        simp only [wf] at hw
        obtain ⟨w1, w2, w3, w4, w5, w6, w7, w8, w9⟩ := hw
        simp only [depth] at hd
        have hks := ih.2 ks
        simp only [putConst, List.cons_append, getConst]
        have h1 : ¬ (tagCode = tagInt) := by decide
        have h2 : ¬ (tagCode = tagFloat) := by decide
        have h3 : ¬ (tagCode = tagString) := by decide
        simp only [h1, h2, h3, if_false, if_true, List.append_assoc]
        rw [getStr_putStr src _ w1]; simp only
        rw [getStr_putStr name _ w2]; simp only
        rw [getSize_leBytes 4 ops.length _ w3 (by
          rw [Nat.le_div_iff_mul_le (by omega)]; simp [putWords_length]; omega)]; simp only
        rw [getWords_putWords]; simp only
        rw [getSize_leBytes 4 lines.length _ w4 (by
          rw [Nat.le_div_iff_mul_le (by omega)]; simp [putWords_length]; omega)]; simp only
        rw [getWords_putWords]; simp only
        rw [getSize_leBytes 1 ks.length _ w5 (by have := putConsts_length_ge ks; simp; omega)]; simp only
        rw [hks _ (by omega) w8]; simp only
        rw [getU_leBytes]; simp only
        rw [getU_leBytes]; simp only
        rw [getU_leBytes]; simp only
        have hneg : ¬ (uv.toNat % 256 ^ 2 ≥ 2 ^ 15 ∨ rc.toNat % 256 ^ 2 ≥ 2 ^ 15 ∨ cc.toNat % 256 ^ 2 ≥ 2 ^ 15) := by
          have := uv.isLt; have := rc.isLt; have := cc.isLt; omega
        rw [if_neg hneg]
        rw [getSize_leBytes 8 ups.length _ w6 (by
          rw [Nat.le_div_iff_mul_le (by omega)]; have := putStrs_length_ge ups; simp; omega)]; simp only
        rw [getStrs_putStrs ups post w7]
        simp only [ofNat16]
    · intro ks post hd hw
      cases ks with
      | nil => simp [getConsts, putConsts]
      | cons k t =>
        simp only [wfs] at hw
        simp only [depths] at hd
        simp only [List.length_cons, getConsts, putConsts, List.append_assoc]
        rw [ih.1 k _ (by omega) hw.1]; simp only
        rw [ih.2 t _ (by omega) hw.2]

mutual
theorem depth_le : ∀ c : Const, depth c ≤ 2 * (putConst c).length
  | .int _ => by simp [depth, putConst]; omega
  | .float _ => by simp [depth, putConst]; omega
  | .str _ => by simp [depth, putConst]; omega
  | .code _ _ _ _ ks _ _ _ _ => by
    have := depths_le ks
    simp only [depth, putConst, List.length_cons, List.length_append]
    omega
theorem depths_le : ∀ ks : List Const, depths ks ≤ 2 * (putConsts ks).length + 1
  | [] => by simp [depths, putConsts]
  | k :: t => by
    have h1 := depth_le k
    have h2 := depths_le t
    have h3 := putConst_length_pos k
    simp only [depths, putConsts, List.length_append]
    omega
end

/-- **load ∘ dump = id on prototypes**: the reader gives back the constant tree and leaves what follows it -/
theorem unmarshal_marshal_append (c : Const) (post : Bytes) (h : wf c) :
    unmarshal (marshal c ++ post) = .ok (c, post) := by
  have hd := depth_le c
  simp only [marshal, prefix3, List.cons_append, List.nil_append, unmarshal]
  exact (get_put _).1 c post (by simp only [List.length_append]; omega) h

end GoluaVerif.Model.Marshal
