/-
  Proofs.C19Tab — what the table-library loops of Spec.TabLib do on a store that behaves like a
  plain table (`LawfulView`): used by Props/C19.
-/
import GoluaVerif.Spec.TabLib
namespace GoluaVerif.Proofs.C19Tab
open GoluaVerif GoluaVerif.Spec GoluaVerif.Spec.TabLib

variable {σ : Type} {S : Store σ} {view : σ → Int → Val}

/-- closes the goals left after splitting the if-then-else's of a `view` equation -/
macro "view_close" : tactic =>
  `(tactic| first | rfl | omega | (exfalso; omega) | (congr 1; omega) | (symm; congr 1; omega))

theorem copyUp_view (hL : LawfulView S view) : ∀ (n : Nat) (st : σ) (f t : Int), (t ≤ f ∨ f + n ≤ t) →
    ∃ st', copyUp S f t n st = .ok st' ∧
      ∀ k, view st' k = if t ≤ k ∧ k < t + n then view st (k - t + f) else view st k := by
  intro n
  induction n with
  | zero =>
    intro st f t _
    refine ⟨st, rfl, ?_⟩
    intro k
    have : ¬ (t ≤ k ∧ k < t + (0 : Nat)) := by omega
    simp only [this, if_false]
  | succ n ih =>
    intro st f t h
    obtain ⟨st1, hset, hv1⟩ := hL.set_eq st t (view st f)
    obtain ⟨st', hrun, hv'⟩ := ih st1 (f + 1) (t + 1) (by omega)
    refine ⟨st', ?_, ?_⟩
    · simp only [copyUp, hL.get_eq, hset, bind, Except.bind, hrun]
    · intro k
      rw [hv' k]
      split <;> rename_i c1
      · rw [hv1]
        split <;> rename_i c2
        · exfalso; omega
        · split <;> rename_i c3
          · congr 1; omega
          · exfalso; omega
      · rw [hv1]
        split <;> rename_i c2
        · split <;> rename_i c3
          · subst c2; congr 1; omega
          · exfalso; omega
        · split <;> rename_i c3
          · exfalso; omega
          · rfl

theorem copyDown_view (hL : LawfulView S view) : ∀ (n : Nat) (st : σ) (f t : Int), (f ≤ t ∨ t + n ≤ f) →
    ∃ st', copyDown S f t n st = .ok st' ∧
      ∀ k, view st' k = if t ≤ k ∧ k < t + n then view st (k - t + f) else view st k := by
  intro n
  induction n with
  | zero =>
    intro st f t _
    refine ⟨st, rfl, ?_⟩
    intro k
    have : ¬ (t ≤ k ∧ k < t + (0 : Nat)) := by omega
    simp only [this, if_false]
  | succ n ih =>
    intro st f t h
    obtain ⟨st1, hset, hv1⟩ := hL.set_eq st (t + n) (view st (f + n))
    obtain ⟨st', hrun, hv'⟩ := ih st1 f t (by omega)
    refine ⟨st', ?_, ?_⟩
    · simp only [copyDown, hL.get_eq, hset, bind, Except.bind, hrun]
    · intro k
      rw [hv' k]
      split <;> rename_i c1
      · rw [hv1]
        split <;> rename_i c2
        · exfalso; omega
        · split <;> rename_i c3
          · rfl
          · exfalso; omega
      · rw [hv1]
        split <;> rename_i c2
        · split <;> rename_i c3
          · subst c2; congr 1; omega
          · exfalso; omega
        · split <;> rename_i c3
          · exfalso; omega
          · rfl

theorem shiftDown_eq_copyUp (S : Store σ) : ∀ (n : Nat) (pos : Int) (st : σ),
    shiftDown S pos n st = copyUp S (pos + 1) pos n st := by
  intro n
  induction n with
  | zero => intro pos st; rfl
  | succ n ih =>
    intro pos st
    simp only [shiftDown, copyUp, ih]

theorem shiftUp_eq_copyDown (S : Store σ) : ∀ (n : Nat) (pos : Int) (st : σ),
    shiftUp S pos n st = copyDown S pos (pos + 1) n st := by
  intro n
  induction n with
  | zero => intro pos st; rfl
  | succ n ih =>
    intro pos st
    have e : pos + (n : Int) + 1 = pos + 1 + (n : Int) := by omega
    simp only [shiftUp, copyDown, ih, e]

theorem copyUp2_view {σ₁ σ₂ : Type} {S1 : Store σ₁} {S2 : Store σ₂} {v1 : σ₁ → Int → Val} {v2 : σ₂ → Int → Val}
    (h1 : LawfulView S1 v1) (h2 : LawfulView S2 v2) (src : σ₁) : ∀ (n : Nat) (dst : σ₂) (f t : Int),
    ∃ dst', copyUp2 S1 S2 src f t n dst = .ok dst' ∧
      ∀ k, v2 dst' k = if t ≤ k ∧ k < t + n then v1 src (k - t + f) else v2 dst k := by
  intro n
  induction n with
  | zero =>
    intro dst f t
    refine ⟨dst, rfl, ?_⟩
    intro k
    have : ¬ (t ≤ k ∧ k < t + (0 : Nat)) := by omega
    simp only [this, if_false]
  | succ n ih =>
    intro dst f t
    obtain ⟨d1, hset, hv1⟩ := h2.set_eq dst t (v1 src f)
    obtain ⟨d', hrun, hv'⟩ := ih d1 (f + 1) (t + 1)
    refine ⟨d', ?_, ?_⟩
    · simp only [copyUp2, h1.get_eq, hset, bind, Except.bind, hrun]
    · intro k
      rw [hv' k]
      split <;> rename_i c1
      · split <;> rename_i c3
        · congr 1; omega
        · exfalso; omega
      · rw [hv1]
        split <;> rename_i c2
        · split <;> rename_i c3
          · subst c2; congr 1; omega
          · exfalso; omega
        · split <;> rename_i c3
          · exfalso; omega
          · rfl

/-! ### small arithmetic facts about `wrap64` / `toU` -/

theorem wrap64_id (x : Int) (h1 : minInt ≤ x) (h2 : x ≤ maxInt) : wrap64 x = x := by
  unfold wrap64 minInt maxInt at *
  rw [Int.bmod_def]
  simp at *
  omega

theorem toU_id (x : Int) (h1 : 0 ≤ x) (h2 : x ≤ maxInt) : toU x = x := by
  unfold toU maxInt at *
  simp at *
  omega

/-! ### insert / remove -/

theorem insert_view (hL : LawfulView S view) (st : σ) (n pos : Int) (v : Val)
    (hn : 0 ≤ n) (hn' : n < maxInt) (hp : 1 ≤ pos) (hp' : pos ≤ n + 1) :
    ∃ st', TabLib.insert S st n (some pos) v = .ok st' ∧
      ∀ k, view st' k = if k = pos then v else if pos < k ∧ k ≤ n + 1 then view st (k - 1) else view st k := by
  have hw : wrap64 (n + 1) = n + 1 := wrap64_id _ (by unfold minInt; omega) (by omega)
  have hu1 : toU (pos - 1) = pos - 1 := toU_id _ (by omega) (by omega)
  have hu2 : toU (n + 1) = n + 1 := toU_id _ (by omega) (by omega)
  obtain ⟨st1, hrun, hv1⟩ := copyDown_view hL (n + 1 - pos).toNat st pos (pos + 1) (by omega)
  obtain ⟨st2, hset, hv2⟩ := hL.set_eq st1 pos v
  refine ⟨st2, ?_, ?_⟩
  · unfold TabLib.insert
    simp only [hw, hu1, hu2]
    have : pos - 1 < n + 1 := by omega
    simp only [this, if_true, shiftUp_eq_copyDown, hrun, bind, Except.bind, hset]
  · intro k
    rw [hv2 k]
    split <;> rename_i c1
    · rfl
    · rw [hv1 k]
      split <;> rename_i c2
      · split <;> rename_i c3
        · congr 1; omega
        · exfalso; omega
      · split <;> rename_i c3
        · exfalso; omega
        · rfl

theorem insert_append_view (hL : LawfulView S view) (st : σ) (n : Int) (v : Val)
    (hn : 0 ≤ n) (hn' : n < maxInt) :
    ∃ st', TabLib.insert S st n none v = .ok st' ∧ ∀ k, view st' k = if k = n + 1 then v else view st k := by
  have hw : wrap64 (n + 1) = n + 1 := wrap64_id _ (by unfold minInt; omega) (by omega)
  obtain ⟨st2, hset, hv2⟩ := hL.set_eq st (n + 1) v
  exact ⟨st2, by unfold TabLib.insert; simp only [hw, hset], hv2⟩

theorem remove_view (hL : LawfulView S view) (st : σ) (n pos : Int)
    (hn' : n ≤ maxInt) (hp : 1 ≤ pos) (hp' : pos ≤ n) :
    ∃ st', remove S st n (some pos) = .ok (view st pos, st') ∧
      ∀ k, view st' k = if pos ≤ k ∧ k < n then view st (k + 1) else if k = n then .nil else view st k := by
  have hu1 : toU (pos - 1) = pos - 1 := toU_id _ (by omega) (by omega)
  have hu2 : toU n = n := toU_id _ (by omega) (by omega)
  obtain ⟨st1, hrun, hv1⟩ := copyUp_view hL (n - pos).toNat st (pos + 1) pos (by omega)
  obtain ⟨st2, hset, hv2⟩ := hL.set_eq st1 (pos + ((n - pos).toNat : Int)) .nil
  refine ⟨st2, ?_, ?_⟩
  · unfold remove
    simp only [Option.getD_some, hu1, hu2]
    have : ¬ (pos ≠ n ∧ ¬ (pos - 1 ≤ n)) := by omega
    simp only [this, if_false, hL.get_eq, shiftDown_eq_copyUp, hrun, bind, Except.bind, hset, pure, Except.pure]
  · intro k
    rw [hv2 k]
    split <;> rename_i c1
    · split <;> rename_i c2
      · exfalso; omega
      · split <;> rename_i c3
        · rfl
        · exfalso; omega
    · rw [hv1 k]
      split <;> rename_i c2
      · split <;> rename_i c3
        · congr 1; omega
        · exfalso; omega
      · split <;> rename_i c3
        · exfalso; omega
        · split <;> rename_i c4
          · exfalso; omega
          · rfl

/-! ### move -/

theorem move_view (hL : LawfulView S view) (st : σ) (f e t : Int)
    (hfe : f ≤ e) (h1 : f > 0 ∨ e < maxInt + f) (h2 : t ≤ maxInt - (e - f + 1) + 1) :
    ∃ st', move S st f e t = .ok st' ∧
      ∀ k, view st' k = if t ≤ k ∧ k ≤ t + (e - f) then view st (k - t + f) else view st k := by
  have hplan : movePlan f e t true = .ok (some (decide (t > e ∨ t ≤ f), (e - f + 1).toNat)) := by
    unfold movePlan
    have a1 : e ≥ f := hfe
    have a2 : ¬ ¬ (f > 0 ∨ e < maxInt + f) := fun hn => hn h1
    have a3 : ¬ ¬ (t ≤ maxInt - (e - f + 1) + 1) := fun hn => hn h2
    simp only [a1, if_true, a2, if_false, a3]
    simp [pure, Except.pure]
  by_cases hd : t > e ∨ t ≤ f
  · obtain ⟨st', hrun, hv⟩ := copyUp_view hL (e - f + 1).toNat st f t (by omega)
    refine ⟨st', ?_, ?_⟩
    · unfold move
      simp only [hplan, bind, Except.bind, hd, decide_true, hrun]
    · intro k
      rw [hv k]
      split <;> rename_i c1
      · split <;> rename_i c2
        · rfl
        · exfalso; omega
      · split <;> rename_i c2
        · exfalso; omega
        · rfl
  · obtain ⟨st', hrun, hv⟩ := copyDown_view hL (e - f + 1).toNat st f t (by omega)
    refine ⟨st', ?_, ?_⟩
    · unfold move
      simp only [hplan, bind, Except.bind, hd, decide_false, hrun]
    · intro k
      rw [hv k]
      split <;> rename_i c1
      · split <;> rename_i c2
        · rfl
        · exfalso; omega
      · split <;> rename_i c2
        · exfalso; omega
        · rfl

theorem move2_view {σ₁ σ₂ : Type} {S1 : Store σ₁} {S2 : Store σ₂} {v1 : σ₁ → Int → Val} {v2 : σ₂ → Int → Val}
    (hA : LawfulView S1 v1) (hB : LawfulView S2 v2) (src : σ₁) (dst : σ₂) (f e t : Int)
    (hfe : f ≤ e) (h1 : f > 0 ∨ e < maxInt + f) (h2 : t ≤ maxInt - (e - f + 1) + 1) :
    ∃ dst', move2 S1 S2 src dst f e t = .ok dst' ∧
      ∀ k, v2 dst' k = if t ≤ k ∧ k ≤ t + (e - f) then v1 src (k - t + f) else v2 dst k := by
  have hplan : movePlan f e t false = .ok (some (true, (e - f + 1).toNat)) := by
    unfold movePlan
    have a1 : e ≥ f := hfe
    have a2 : ¬ ¬ (f > 0 ∨ e < maxInt + f) := fun hn => hn h1
    have a3 : ¬ ¬ (t ≤ maxInt - (e - f + 1) + 1) := fun hn => hn h2
    simp only [a1, if_true, a2, if_false, a3]
    simp [pure, Except.pure]
  obtain ⟨d', hrun, hv⟩ := copyUp2_view hA hB src (e - f + 1).toNat dst f t
  refine ⟨d', ?_, ?_⟩
  · unfold move2
    simp only [hplan, bind, Except.bind, hrun]
  · intro k
    rw [hv k]
    split <;> rename_i c1
    · split <;> rename_i c2
      · rfl
      · exfalso; omega
    · split <;> rename_i c2
      · exfalso; omega
      · rfl

theorem move_nothing (S : Store σ) (st : σ) (f e t : Int) (h : e < f) : move S st f e t = .ok st := by
  unfold move movePlan
  have : ¬ (e ≥ f) := by omega
  simp only [this, if_false, bind, Except.bind, pure, Except.pure]

/-! ### unpack / concat / pack -/

/-- the values at `i, i+1, …, i+n-1` -/
def viewRange (v : Int → Val) (i : Int) : Nat → List Val
  | 0 => []
  | n + 1 => v i :: viewRange v (i + 1) n

theorem viewRange_length (v : Int → Val) : ∀ (n : Nat) (i : Int), (viewRange v i n).length = n := by
  intro n; induction n with
  | zero => intro i; rfl
  | succ n ih => intro i; simp [viewRange, ih]

theorem viewRange_getElem? (v : Int → Val) : ∀ (n : Nat) (i : Int) (k : Nat), k < n →
    (viewRange v i n)[k]? = some (v (i + k)) := by
  intro n; induction n with
  | zero => intro i k h; omega
  | succ n ih =>
    intro i k h
    cases k with
    | zero => simp [viewRange]
    | succ k =>
      simp only [viewRange, List.getElem?_cons_succ]
      rw [ih (i + 1) k (by omega)]
      congr 2; omega

theorem getRange_view (hL : LawfulView S view) (st : σ) : ∀ (n : Nat) (i : Int),
    getRange S st i n = .ok (viewRange (view st) i n) := by
  intro n; induction n with
  | zero => intro i; rfl
  | succ n ih =>
    intro i
    simp only [getRange, hL.get_eq, ih, bind, Except.bind, pure, Except.pure, viewRange]

theorem unpack_view (hL : LawfulView S view) (st : σ) (i e : Int) (h1 : i ≤ e) (h2 : e - i < intMaxC) :
    unpack S st i e = .ok (viewRange (view st) i (e - i + 1).toNat) := by
  unfold unpack
  have a1 : ¬ (i > e) := by omega
  have a2 : ¬ (e - i ≥ intMaxC) := by omega
  simp only [a1, if_false, a2, getRange_view hL]

theorem unpack_empty (S : Store σ) (st : σ) (i e : Int) (h : i > e) : unpack S st i e = .ok [] := by
  unfold unpack; simp only [h, if_true, pure, Except.pure]

theorem unpack_too_many (S : Store σ) (st : σ) (i e : Int) (h1 : i ≤ e) (h2 : e - i ≥ intMaxC) :
    unpack S st i e = .error .limit := by
  unfold unpack
  have a1 : ¬ (i > e) := by omega
  simp only [a1, if_false, h2, if_true, throw, throwThe, MonadExceptOf.throw]

/-- `b₁ ++ sep ++ b₂ ++ sep ++ … ++ bₙ` -/
def joinSep (sep : StrLib.Bytes) : List StrLib.Bytes → StrLib.Bytes
  | [] => []
  | [b] => b
  | b :: c :: r => b ++ sep ++ joinSep sep (c :: r)

theorem mapM_some_length {α β : Type} (f : α → Option β) : ∀ (l : List α) (r : List β),
    l.mapM f = some r → r.length = l.length := by
  intro l
  induction l with
  | nil => intro r h; simp at h; subst h; rfl
  | cons a l ih =>
    intro r h
    rw [List.mapM_cons] at h
    cases hf : f a with
    | none => simp [hf] at h
    | some b =>
      cases hr : l.mapM f with
      | none => simp [hf, hr] at h
      | some bs =>
        simp [hf, hr] at h
        subst h
        simp [ih bs hr]

theorem addfield_view (hL : LawfulView S view) (st : σ) (i : Int) :
    addfield S st i = match fieldBytes (view st i) with | some b => .ok b | none => .error .arg := by
  unfold addfield
  simp only [hL.get_eq, bind, Except.bind]
  cases fieldBytes (view st i) <;> rfl

theorem concatFrom_view (hL : LawfulView S view) (st : σ) (sep : StrLib.Bytes) : ∀ (n : Nat) (i : Int) (bs : List StrLib.Bytes),
    (viewRange (view st) i (n + 1)).mapM fieldBytes = some bs →
    concatFrom S st sep i n = .ok (joinSep sep bs) := by
  intro n; induction n with
  | zero =>
    intro i bs h
    simp only [viewRange, List.mapM_cons, List.mapM_nil] at h
    cases hf : fieldBytes (view st i) with
    | none => simp [hf] at h
    | some b =>
      simp [hf] at h
      subst h
      simp only [concatFrom, addfield_view hL, hf, joinSep]
  | succ n ih =>
    intro i bs h
    rw [viewRange, List.mapM_cons] at h
    cases hf : fieldBytes (view st i) with
    | none => simp [hf] at h
    | some b =>
      cases hr : (viewRange (view st) (i + 1) (n + 1)).mapM fieldBytes with
      | none => simp [hf, hr] at h
      | some rest =>
        simp [hf, hr] at h
        subst h
        have hrest := ih (i + 1) rest hr
        simp only [concatFrom, addfield_view hL, hf, hrest, bind, Except.bind, pure, Except.pure]
        -- rest has n+1 ≥ 1 elements
        have hlen : rest.length = n + 1 := by
          have := mapM_some_length _ _ _ hr
          rw [viewRange_length] at this; omega
        match rest, hlen with
        | c :: r, _ => rfl

/-- the first invalid field (one that is neither a string nor a number) makes concat fail -/
theorem concatFrom_invalid (hL : LawfulView S view) (st : σ) (sep : StrLib.Bytes) : ∀ (n : Nat) (i : Int),
    (viewRange (view st) i (n + 1)).mapM fieldBytes = none →
    concatFrom S st sep i n = .error .arg := by
  intro n; induction n with
  | zero =>
    intro i h
    simp only [viewRange, List.mapM_cons, List.mapM_nil] at h
    cases hf : fieldBytes (view st i) with
    | none => simp only [concatFrom, addfield_view hL, hf]
    | some b => simp [hf] at h
  | succ n ih =>
    intro i h
    rw [viewRange, List.mapM_cons] at h
    cases hf : fieldBytes (view st i) with
    | none => simp only [concatFrom, addfield_view hL, hf, bind, Except.bind]
    | some b =>
      cases hr : (viewRange (view st) (i + 1) (n + 1)).mapM fieldBytes with
      | none =>
        have := ih (i + 1) hr
        simp only [concatFrom, addfield_view hL, hf, this, bind, Except.bind]
      | some rest => simp [hf, hr] at h

/-! ### the executable table model is lawful in its plain and full-proxy shapes -/

theorem lookup_filter_ne (m : Map) (k k' : Int) :
    (m.filter (fun p => p.1 != k)).lookup k' = if k' = k then none else m.lookup k' := by
  induction m with
  | nil => simp
  | cons p r ih =>
    obtain ⟨a, b⟩ := p
    by_cases h : a = k
    · subst h
      simp only [List.filter_cons, bne_self_eq_false, Bool.false_eq_true, if_false, ih, List.lookup_cons]
      by_cases h2 : k' = a
      · simp [h2]
      · have : (k' == a) = false := by simpa using h2
        simp [h2, this]
    · have hne : (a != k) = true := by simpa using h
      simp only [List.filter_cons, hne, if_true, List.lookup_cons, ih]
      by_cases h2 : k' = a
      · subst h2; simp [h]
      · have : (k' == a) = false := by simpa using h2
        simp [this]

theorem Map.get_set (m : Map) (k k' : Int) (v : Val) :
    (m.set k v).get k' = if k' = k then v else m.get k' := by
  unfold Map.set Map.get
  simp only
  by_cases hv : v = .nil
  · simp only [hv, if_true, lookup_filter_ne]
    by_cases h : k' = k <;> simp [h]
  · simp only [hv, if_false, List.lookup_cons, lookup_filter_ne]
    by_cases h : k' = k
    · subst h; simp
    · have : (k' == k) = false := by simpa using h
      simp [h, this]

/-- a table without metamethods behaves like a plain table -/
theorem mstore_raw_lawful :
    LawfulView (σ := { t : MTab // t.idx = .none ∧ t.nidx = .none })
      ⟨fun t k => MTab.get t.1 k, fun t k v =>
        (MTab.set t.1 k v).map fun t' => ⟨{ t' with idx := .none, nidx := .none }, rfl, rfl⟩⟩
      (fun t k => t.1.own.get k) := by
  constructor
  · intro ⟨t, hi, hn⟩ k
    simp only [MTab.get, hi]
    by_cases h : t.own.get k = .nil <;> simp [h, pure, Except.pure]
  · intro ⟨t, hi, hn⟩ k v
    simp only [MTab.set, hn]
    by_cases h : t.own.get k = .nil
    · simp only [h, ne_eq, not_true_eq_false, if_false, pure, Except.pure, Except.map]
      exact ⟨_, rfl, fun k' => Map.get_set _ _ _ _⟩
    · simp only [h, ne_eq, not_false_eq_true, if_true, pure, Except.pure, Except.map]
      exact ⟨_, rfl, fun k' => Map.get_set _ _ _ _⟩

/-! ### list forms -/

theorem viewRange_getElem?_ge (v : Int → Val) (n : Nat) (i : Int) (k : Nat) (h : n ≤ k) :
    (viewRange v i n)[k]? = none :=
  List.getElem?_eq_none (by rw [viewRange_length]; exact h)

/-- list form of insert: the sequence `t[1..n+1]` afterwards is the old `t[1..n]` with `v` inserted at index `pos-1` -/
theorem insert_list (hL : LawfulView S view) (st : σ) (n : Nat) (pos : Nat) (v : Val)
    (hn' : (n : Int) < maxInt) (hp : 1 ≤ pos) (hp' : pos ≤ n + 1) :
    ∃ st', TabLib.insert S st n (some pos) v = .ok st' ∧
      viewRange (view st') 1 (n + 1) = (viewRange (view st) 1 n).insertIdx (pos - 1) v := by
  obtain ⟨st', hrun, hv⟩ := insert_view hL st n pos v (by omega) hn' (by omega) (by omega)
  refine ⟨st', hrun, ?_⟩
  apply List.ext_getElem?
  intro k
  rw [List.getElem?_insertIdx, viewRange_length]
  by_cases hk : k < n + 1
  · rw [viewRange_getElem? _ _ _ _ hk, hv]
    by_cases h1 : k < pos - 1
    · have c1 : ¬ ((1 : Int) + (k : Int) = (pos : Int)) := by omega
      have c2 : ¬ ((pos : Int) < 1 + (k : Int) ∧ (1 : Int) + (k : Int) ≤ (n : Int) + 1) := by omega
      rw [if_neg c1, if_neg c2, if_pos h1, viewRange_getElem? _ _ _ _ (by omega)]
    · by_cases h2 : k = pos - 1
      · have c1 : (1 : Int) + (k : Int) = (pos : Int) := by omega
        have c3 : k ≤ n := by omega
        rw [if_pos c1, if_neg h1, if_pos h2, if_pos c3]
      · have c1 : ¬ ((1 : Int) + (k : Int) = (pos : Int)) := by omega
        have c2 : (pos : Int) < 1 + (k : Int) ∧ (1 : Int) + (k : Int) ≤ (n : Int) + 1 := by omega
        rw [if_neg c1, if_pos c2, if_neg h1, if_neg h2, viewRange_getElem? (view st) n 1 (k - 1) (by omega)]
        have e : (1 : Int) + (k : Int) - 1 = 1 + ((k - 1 : Nat) : Int) := by omega
        rw [e]
  · rw [viewRange_getElem?_ge _ _ _ _ (by omega)]
    have h1 : ¬ (k < pos - 1) := by omega
    have h2 : ¬ (k = pos - 1) := by omega
    rw [if_neg h1, if_neg h2, viewRange_getElem?_ge _ _ _ _ (by omega)]

/-- list form of remove: the sequence `t[1..n-1]` afterwards is the old `t[1..n]` without index `pos-1`, `t[n]` is nil -/
theorem remove_list (hL : LawfulView S view) (st : σ) (n : Nat) (pos : Nat)
    (hn' : (n : Int) ≤ maxInt) (hp : 1 ≤ pos) (hp' : pos ≤ n) :
    ∃ st', remove S st n (some pos) = .ok (view st pos, st') ∧
      viewRange (view st') 1 (n - 1) = (viewRange (view st) 1 n).eraseIdx (pos - 1) ∧ view st' n = .nil := by
  obtain ⟨st', hrun, hv⟩ := remove_view hL st n pos hn' (by omega) (by omega)
  refine ⟨st', hrun, ?_, ?_⟩
  · apply List.ext_getElem?
    intro k
    rw [List.getElem?_eraseIdx]
    by_cases hk : k < n - 1
    · rw [viewRange_getElem? _ _ _ _ hk, hv]
      by_cases h1 : k < pos - 1
      · have c1 : ¬ ((pos : Int) ≤ 1 + (k : Int) ∧ (1 : Int) + (k : Int) < (n : Int)) := by omega
        have c2 : ¬ ((1 : Int) + (k : Int) = (n : Int)) := by omega
        rw [if_neg c1, if_neg c2, if_pos h1, viewRange_getElem? _ _ _ _ (by omega)]
      · have c1 : (pos : Int) ≤ 1 + (k : Int) ∧ (1 : Int) + (k : Int) < (n : Int) := by omega
        rw [if_pos c1, if_neg h1, viewRange_getElem? (view st) n 1 (k + 1) (by omega)]
        have e : (1 : Int) + (k : Int) + 1 = 1 + ((k + 1 : Nat) : Int) := by omega
        rw [e]
    · rw [viewRange_getElem?_ge _ _ _ _ (by omega)]
      split <;> (symm; apply viewRange_getElem?_ge; omega)
  · rw [hv]
    have c1 : ¬ ((pos : Int) ≤ (n : Int) ∧ (n : Int) < (n : Int)) := by omega
    rw [if_neg c1, if_pos rfl]

end GoluaVerif.Proofs.C19Tab
