/-
  Proofs.C03Chain — structure of collision chains under `ChainInv`: members are non-empty, all but
  the head are flagged chained, a chain that ends has no repeated slot, and how a chain changes when
  slots are rewritten (`chain_map`).
-/
import GoluaVerif.Proofs.C03Insert
namespace GoluaVerif.Model.Table
open GoluaVerif.Spec (Key Val Map)

theorem chain_head (slots : List Slot) (f q : Nat) (l : List Nat) (h : chain slots f q = some l) :
    ∃ tail, l = q :: tail ∧ ∃ (hq : q < slots.length),
      (slots[q].hasNext = false → tail = []) ∧
      (slots[q].hasNext = true → ∃ f', f = f' + 1 ∧ chain slots f' slots[q].next = some tail) := by
  cases f with
  | zero => simp [chain] at h
  | succ f =>
    rw [chain] at h
    cases hs : slots[q]? with
    | none => simp [hs] at h
    | some s =>
      have hq : q < slots.length := by
        apply Decidable.byContradiction; intro hh
        simp [List.getElem?_eq_none (Nat.le_of_not_lt hh)] at hs
      have es : slots[q] = s := by
        rw [List.getElem?_eq_getElem hq] at hs; exact Option.some.inj hs
      simp only [hs] at h
      by_cases hn : s.hasNext = true
      · simp only [hn, if_true] at h
        cases hc : chain slots f s.next with
        | none => simp [hc] at h
        | some tail =>
          simp only [hc, Option.map_some, Option.some.injEq] at h
          refine ⟨tail, h.symm, hq, ?_, ?_⟩
          · intro hf; rw [es, hn] at hf; cases hf
          · intro _; exact ⟨f, rfl, by rw [es]; exact hc⟩
      · simp only [hn] at h
        refine ⟨[], by simpa using h.symm, hq, fun _ => rfl, ?_⟩
        intro ht; rw [es] at ht; exact absurd ht hn

/-- the result of a chain walk does not depend on the fuel -/
theorem chain_fuel_irrel (slots : List Slot) (f1 f2 q : Nat) (l1 l2 : List Nat)
    (h1 : chain slots f1 q = some l1) (h2 : chain slots f2 q = some l2) : l1 = l2 := by
  have a := chain_mono_le slots f1 (max f1 f2) (Nat.le_max_left _ _) q l1 h1
  have b := chain_mono_le slots f2 (max f1 f2) (Nat.le_max_right _ _) q l2 h2
  rw [a] at b; exact Option.some.inj b

/-- every member of a chain starts a chain that is a (non-strict) suffix -/
theorem chain_suffix (slots : List Slot) (f q : Nat) (l : List Nat) (h : chain slots f q = some l) :
    ∀ x ∈ l, ∃ f' l', f' ≤ f ∧ chain slots f' x = some l' ∧ l'.length ≤ l.length ∧
      (x ≠ q → l'.length < l.length) := by
  induction f generalizing q l with
  | zero => simp [chain] at h
  | succ f ih =>
    obtain ⟨tail, el, hq, hnone, hsome⟩ := chain_head slots (f + 1) q l h
    intro x hx
    subst el
    rcases List.mem_cons.1 hx with e | hxt
    · subst e; exact ⟨f + 1, x :: tail, Nat.le_refl _, h, Nat.le_refl _, fun hne => absurd rfl hne⟩
    · by_cases hn : slots[q].hasNext = true
      · obtain ⟨f', ef, hc⟩ := hsome hn
        have : f' = f := by omega
        subst this
        obtain ⟨f'', l', hle, hc', hlen, _⟩ := ih _ _ hc x hxt
        exact ⟨f'', l', by omega, hc', by simp; omega, fun _ => by simp; omega⟩
      · have := hnone (by simpa using hn)
        subst this; simp at hxt

/-- a chain that ends visits no slot twice -/
theorem chain_nodup (slots : List Slot) (f q : Nat) (l : List Nat) (h : chain slots f q = some l) : l.Nodup := by
  induction f generalizing q l with
  | zero => simp [chain] at h
  | succ f ih =>
    obtain ⟨tail, el, hq, hnone, hsome⟩ := chain_head slots (f + 1) q l h
    subst el
    by_cases hn : slots[q].hasNext = true
    · obtain ⟨f', ef, hc⟩ := hsome hn
      have : f' = f := by omega
      subst this
      rw [List.nodup_cons]
      refine ⟨?_, ih _ _ hc⟩
      intro hmem
      obtain ⟨f'', l', _, hc', hlen, _⟩ := chain_suffix slots f' _ tail hc q hmem
      have := chain_fuel_irrel slots _ _ q _ _ hc' h
      subst this
      simp at hlen
      omega
    · have := hnone (by simpa using hn)
      subst this; simp

/-- every member of a chain starts a chain that is a suffix (as a list) -/
theorem chain_suffix_list (slots : List Slot) (f q : Nat) (l : List Nat) (h : chain slots f q = some l) :
    ∀ x ∈ l, ∃ f' l' pre, chain slots f' x = some l' ∧ l = pre ++ l' := by
  induction f generalizing q l with
  | zero => simp [chain] at h
  | succ f ih =>
    obtain ⟨tail, el, hq, hnone, hsome⟩ := chain_head slots (f + 1) q l h
    intro x hx
    subst el
    rcases List.mem_cons.1 hx with e | hxt
    · subst e; exact ⟨f + 1, x :: tail, [], h, rfl⟩
    · by_cases hn : slots[q].hasNext = true
      · obtain ⟨f', ef, hc⟩ := hsome hn
        have : f' = f := by omega
        subst this
        obtain ⟨f'', l', pre, hc', e⟩ := ih _ _ hc x hxt
        exact ⟨f'', l', q :: pre, hc', by rw [e]; rfl⟩
      · have := hnone (by simpa using hn)
        subst this; simp at hxt

/-- in a chain, only one member points at a given member -/
theorem chain_pred_unique (slots : List Slot) (f q : Nat) (l : List Nat) (h : chain slots f q = some l)
    (x y p : Nat) (hx : x ∈ l) (hy : y ∈ l) (hxl : x < slots.length) (hyl : y < slots.length)
    (hxn : slots[x].hasNext = true) (hyn : slots[y].hasNext = true)
    (ex : slots[x].next = p) (ey : slots[y].next = p) : x = y := by
  obtain ⟨f1, l1, pre1, hc1, e1⟩ := chain_suffix_list slots f q l h x hx
  obtain ⟨f2, l2, pre2, hc2, e2⟩ := chain_suffix_list slots f q l h y hy
  obtain ⟨t1, el1, _, _, hs1⟩ := chain_head slots f1 x l1 hc1
  obtain ⟨t2, el2, _, _, hs2⟩ := chain_head slots f2 y l2 hc2
  obtain ⟨g1, _, hg1⟩ := hs1 hxn
  obtain ⟨g2, _, hg2⟩ := hs2 hyn
  rw [ex] at hg1
  rw [ey] at hg2
  have := chain_fuel_irrel slots _ _ p _ _ hg1 hg2
  subst this
  subst el1; subst el2
  rw [e1] at e2
  have := List.append_inj' e2 (by simp)
  simpa using this.2

/-- the walk of `insertNewKeyValue` case 2 finds the predecessor of `p` on the chain -/
theorem findPred_spec (slots : List Slot) (p : Nat) (f q : Nat) (l : List Nat) (h : chain slots f q = some l)
    (hp : p ∈ l) (hne : p ≠ q) :
    ∃ pidx, findPred slots p f q = some pidx ∧ pidx ∈ l ∧ pidx ≠ p ∧ ∃ (hl : pidx < slots.length),
      slots[pidx].hasNext = true ∧ slots[pidx].next = p := by
  induction f generalizing q l with
  | zero => simp [chain] at h
  | succ f ih =>
    obtain ⟨tail, el, hq, hnone, hsome⟩ := chain_head slots (f + 1) q l h
    subst el
    have hpt : p ∈ tail := by
      rcases List.mem_cons.1 hp with e | e
      · exact absurd e hne
      · exact e
    have hn : slots[q].hasNext = true := by
      cases hh : slots[q].hasNext with
      | true => rfl
      | false => have := hnone hh; subst this; simp at hpt
    obtain ⟨f', ef, hc⟩ := hsome hn
    have : f' = f := by omega
    subst this
    rw [findPred, List.getElem?_eq_getElem hq]
    simp only [Option.bind_eq_bind, Option.bind_some]
    by_cases e : slots[q].next = p
    · exact ⟨q, by simp [e], List.mem_cons_self, fun h => hne h.symm, hq, hn, e⟩
    · obtain ⟨pidx, e1, hm, hne', hl, h1, h2⟩ := ih _ _ hc hpt (fun h => e h.symm)
      exact ⟨pidx, by simp [e, e1], List.mem_cons_of_mem _ hm, hne', hl, h1, h2⟩

theorem findPred_mono (slots : List Slot) (p f q pidx : Nat) (h : findPred slots p f q = some pidx) :
    findPred slots p (f + 1) q = some pidx := by
  induction f generalizing q with
  | zero => simp [findPred] at h
  | succ f ih =>
    rw [findPred] at h ⊢
    cases hs : slots[q]? with
    | none => simp [hs] at h
    | some s =>
      simp only [hs, Option.bind_eq_bind, Option.bind_some] at h ⊢
      by_cases e : s.next = p
      · simpa [e] using h
      · simp only [e, if_false] at h ⊢
        exact ih _ h

theorem findPred_mono_le (slots : List Slot) (p f f' q pidx : Nat) (hf : f ≤ f') (h : findPred slots p f q = some pidx) :
    findPred slots p f' q = some pidx := by
  induction f' with
  | zero => have : f = 0 := by omega
            subst this; exact h
  | succ f' ih =>
    by_cases e : f = f' + 1
    · subst e; exact h
    · exact findPred_mono _ _ _ _ _ (ih (by omega))

section
variable (hash : Key → Nat)

/-- along a chain: members are in range and non-empty, members after the head are flagged chained,
    all members have the primary slot of the head's key -/
theorem chain_members (slots : List Slot) (mask : Nat) (ci : ChainInv hash slots mask) (f q : Nat) (l : List Nat)
    (h : chain slots f q = some l) (kq : Key) (hq : q < slots.length) (hkq : slots[q].key = some kq) :
    ∀ x ∈ l, ∃ (hx : x < slots.length), (∃ kx, slots[x].key = some kx ∧ prim hash mask kx = prim hash mask kq) ∧
      (x ≠ q → slots[x].chained = true) := by
  induction f generalizing q l kq with
  | zero => simp [chain] at h
  | succ f ih =>
    obtain ⟨tail, el, _, hnone, hsome⟩ := chain_head slots (f + 1) q l h
    subst el
    intro x hx
    rcases List.mem_cons.1 hx with e | hxt
    · subst e; exact ⟨hq, ⟨kq, hkq, rfl⟩, fun hne => absurd rfl hne⟩
    · by_cases hn : slots[q].hasNext = true
      · obtain ⟨f', ef, hc⟩ := hsome hn
        have : f' = f := by omega
        subst this
        obtain ⟨hnx, hch, k, k', e1, e2, e3⟩ := ci.next_ok q hq hn
        rw [hkq] at e1; cases e1
        obtain ⟨hx', ⟨kx, hkx, hp⟩, hcx⟩ := ih _ _ hc k' hnx e2 x hxt
        refine ⟨hx', ⟨kx, hkx, by rw [hp, e3]⟩, ?_⟩
        intro _
        by_cases ex : x = slots[q].next
        · subst ex; exact hch
        · exact hcx ex
      · have := hnone (by simpa using hn)
        subst this; simp at hxt

/-- the chain on which a key lies starts in a non-empty, unchained slot holding a key with the same
    primary slot -/
theorem on_chain_head (slots : List Slot) (mask : Nat) (ci : ChainInv hash slots mask)
    (he : ∀ j (h : j < slots.length), slots[j].key = none → slots[j] = Slot.zero)
    (i : Nat) (hi : i < slots.length) (k : Key) (hk : slots[i].key = some k) :
    ∃ l, ∃ (hp : prim hash mask k < slots.length), chain slots (cnt slots) (prim hash mask k) = some l ∧ i ∈ l ∧
      slots[prim hash mask k].chained = false ∧
      ∃ k0, slots[prim hash mask k].key = some k0 ∧ prim hash mask k0 = prim hash mask k := by
  obtain ⟨l, hp, hc, hm, hch⟩ := onChain_elim hash _ _ _ _ (ci.on_chain i hi k hk)
  refine ⟨l, hp, hc, hm, hch, ?_⟩
  cases hk0 : slots[prim hash mask k].key with
  | none =>
    have hz := he _ hp hk0
    obtain ⟨tail, el, _, hnone, _⟩ := chain_head slots _ _ l hc
    have := hnone (by rw [hz]; rfl)
    subst this; subst el
    simp only [List.mem_singleton] at hm
    subst hm
    rw [hk] at hk0; cases hk0
  | some k0 => exact ⟨k0, rfl, ci.unchained_primary _ hp k0 hk0 hch⟩

/-- rewriting slots along a renaming `φ` of the nodes of a chain renames the chain -/
theorem chain_map (slots s' : List Slot) (φ : Nat → Nat) (f q : Nat) (l : List Nat)
    (h : chain slots f q = some l)
    (hagree : ∀ x ∈ l, ∀ (hx : x < slots.length), ∃ (hx' : φ x < s'.length),
      s'[φ x].hasNext = slots[x].hasNext ∧ (slots[x].hasNext = true → s'[φ x].next = φ slots[x].next)) :
    chain s' f (φ q) = some (l.map φ) := by
  induction f generalizing q l with
  | zero => simp [chain] at h
  | succ f ih =>
    obtain ⟨tail, el, hq, hnone, hsome⟩ := chain_head slots (f + 1) q l h
    subst el
    obtain ⟨hq', hhn, hnx⟩ := hagree q List.mem_cons_self hq
    rw [chain, List.getElem?_eq_getElem hq']
    simp only [hhn]
    by_cases hn : slots[q].hasNext = true
    · obtain ⟨f', ef, hc⟩ := hsome hn
      have : f' = f := by omega
      subst this
      simp only [hn, if_true, hnx hn]
      rw [ih _ _ hc (fun x hx => hagree x (List.mem_cons_of_mem _ hx))]
      simp
    · have := hnone (by simpa using hn)
      subst this
      simp [hn]

end
end GoluaVerif.Model.Table
