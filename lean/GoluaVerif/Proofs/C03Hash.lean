/-
  Proofs.C03Hash — lemmas about the hash part of Model.Table: lookup, findSlot, chains.
-/
import GoluaVerif.Model.TableInv
namespace GoluaVerif.Model.Table
open GoluaVerif.Spec (Key Val Map)

/-- no key occurs twice -/
def NoDup (slots : List Slot) : Prop :=
  ∀ i (hi : i < slots.length) j (hj : j < slots.length),
    slots[i].key ≠ none → slots[i].key = slots[j].key → i = j

theorem hashLookup_found (slots : List Slot) (nd : NoDup slots) (i : Nat) (hi : i < slots.length) (k : Key)
    (hk : slots[i].key = some k) : hashLookup slots k = slots[i].val := by
  unfold hashLookup
  cases hf : slots.find? (fun s => decide (s.key = some k)) with
  | none =>
    rw [List.find?_eq_none] at hf
    have := hf slots[i] (List.getElem_mem hi)
    simp [hk] at this
  | some s =>
    rw [List.find?_eq_some_iff_getElem] at hf
    obtain ⟨hp, j, hj, e, _⟩ := hf
    have hp' : s.key = some k := by simpa using hp
    have : i = j := nd i hi j hj (by simp [hk]) (by rw [hk, e, hp'])
    subst this
    simp [← e]

theorem hashLookup_absent (slots : List Slot) (k : Key)
    (h : ∀ i (hi : i < slots.length), slots[i].key ≠ some k) : hashLookup slots k = none := by
  unfold hashLookup
  have : slots.find? (fun s => decide (s.key = some k)) = none := by
    rw [List.find?_eq_none]
    intro s hs
    obtain ⟨i, hi, e⟩ := List.getElem_of_mem hs
    have := h i hi
    simp [← e, this]
  simp [this]

/-! ### the linear scan -/

theorem findSmall_spec (slots : List Slot) (k : Key) (j : Nat) (hj : j < slots.length) :
    ∃ r, findSmall slots k j = some r ∧
      (∀ i, r = some i → ∃ (h : i < slots.length), i ≤ j ∧ slots[i].key = some k) ∧
      (r = none → ∀ i (h : i < slots.length), i ≤ j → slots[i].key ≠ some k) := by
  induction j with
  | zero =>
    simp only [findSmall, List.getElem?_eq_getElem hj, Option.bind_eq_bind, Option.bind_some]
    by_cases e : slots[0].key = some k
    · refine ⟨some 0, by simp [e], ?_, by simp⟩
      intro i hi; cases hi; exact ⟨hj, Nat.le_refl _, e⟩
    · refine ⟨none, by simp [e], by simp, ?_⟩
      intro _ i h hi0
      have : i = 0 := by omega
      subst this; exact e
  | succ j ih =>
    simp only [findSmall, List.getElem?_eq_getElem hj, Option.bind_eq_bind, Option.bind_some]
    by_cases e : slots[j + 1].key = some k
    · refine ⟨some (j + 1), by simp [e], ?_, by simp⟩
      intro i hi; cases hi; exact ⟨hj, Nat.le_refl _, e⟩
    · obtain ⟨r, hr, h1, h2⟩ := ih (by omega)
      refine ⟨r, by simp [e, hr], ?_, ?_⟩
      · intro i hi
        obtain ⟨h, hle, hk⟩ := h1 i hi
        exact ⟨h, by omega, hk⟩
      · intro hn i h hle
        by_cases ei : i = j + 1
        · subst ei; exact e
        · exact h2 hn i h (by omega)

/-! ### chains -/

theorem chain_mono (slots : List Slot) (f : Nat) (i : Nat) (l : List Nat)
    (h : chain slots f i = some l) : chain slots (f + 1) i = some l := by
  induction f generalizing i l with
  | zero => simp [chain] at h
  | succ f ih =>
    rw [chain] at h ⊢
    cases hs : slots[i]? with
    | none => simp [hs] at h
    | some s =>
      simp only [hs] at h ⊢
      by_cases hn : s.hasNext = true
      · simp only [hn, if_true] at h ⊢
        cases hc : chain slots f s.next with
        | none => simp [hc] at h
        | some l' =>
          simp only [hc, Option.map_some] at h
          rw [ih _ _ hc]
          simpa using h
      · simp only [hn] at h ⊢
        exact h

theorem chain_mono_le (slots : List Slot) (f f' : Nat) (hf : f ≤ f') (i : Nat) (l : List Nat)
    (h : chain slots f i = some l) : chain slots f' i = some l := by
  induction f' with
  | zero => have : f = 0 := by omega
            subst this; exact h
  | succ f' ih =>
    by_cases e : f = f' + 1
    · subst e; exact h
    · exact chain_mono _ _ _ _ (ih (by omega))

theorem cnt_le_length (slots : List Slot) : cnt slots ≤ slots.length := List.countP_le_length

/-- walking a chain that contains the slot holding `k` finds that slot -/
theorem findChain_found (slots : List Slot) (nd : NoDup slots) (k : Key) (i : Nat) (hi : i < slots.length)
    (hk : slots[i].key = some k) (f : Nat) (p : Nat) (l : List Nat)
    (hc : chain slots f p = some l) (hm : i ∈ l) : findChain slots k f p = some (some i) := by
  induction f generalizing p l with
  | zero => simp [chain] at hc
  | succ f ih =>
    rw [chain] at hc
    rw [findChain]
    cases hs : slots[p]? with
    | none => simp [hs] at hc
    | some s =>
      have hp : p < slots.length := by
        apply Decidable.byContradiction; intro hh
        simp [List.getElem?_eq_none (Nat.le_of_not_lt hh)] at hs
      have es : slots[p] = s := by
        rw [List.getElem?_eq_getElem hp] at hs; exact Option.some.inj hs
      simp only [hs, Option.bind_eq_bind, Option.bind_some] at hc ⊢
      by_cases ek : s.key = some k
      · have : p = i := nd p hp i hi (by rw [es, ek]; simp) (by rw [es, ek, hk])
        subst this; simp [ek]
      · simp only [ek, if_false]
        by_cases hn : s.hasNext = true
        · simp only [hn, if_true] at hc
          cases hc' : chain slots f s.next with
          | none => simp [hc'] at hc
          | some l' =>
            simp only [hc', Option.map_some, Option.some.injEq] at hc
            subst hc
            have : i ∈ l' := by
              rcases List.mem_cons.1 hm with e | e
              · subst e; rw [es] at hk; exact absurd hk ek
              · exact e
            simp [hn, ih _ _ hc' this]
        · simp only [hn] at hc
          have : l = [p] := by simpa using hc.symm
          subst this
          have : i = p := by simpa using hm
          subst this; rw [es] at hk; exact absurd hk ek

/-- walking a chain that ends, in a table without the key, answers "not found" -/
theorem findChain_absent (slots : List Slot) (k : Key)
    (h : ∀ i (hi : i < slots.length), slots[i].key ≠ some k) (f : Nat) (p : Nat) (l : List Nat)
    (hc : chain slots f p = some l) : findChain slots k f p = some none := by
  induction f generalizing p l with
  | zero => simp [chain] at hc
  | succ f ih =>
    rw [chain] at hc
    rw [findChain]
    cases hs : slots[p]? with
    | none => simp [hs] at hc
    | some s =>
      have hp : p < slots.length := by
        apply Decidable.byContradiction; intro hh
        simp [List.getElem?_eq_none (Nat.le_of_not_lt hh)] at hs
      have es : slots[p] = s := by
        rw [List.getElem?_eq_getElem hp] at hs; exact Option.some.inj hs
      have ek : ¬ s.key = some k := by rw [← es]; exact h p hp
      simp only [hs, Option.bind_eq_bind, Option.bind_some, ek, if_false] at hc ⊢
      by_cases hn : s.hasNext = true
      · simp only [hn, if_true] at hc
        cases hc' : chain slots f s.next with
        | none => simp [hc'] at hc
        | some l' => simp [hn, ih _ _ hc']
      · simp [hn]

/-! ### findSlot -/

theorem mask_succ (t : HashTable) (hs : t.slots.length = 2 ^ t.base) : t.mask + 1 = t.slots.length := by
  have : 0 < 2 ^ t.base := Nat.two_pow_pos _
  simp only [HashTable.mask, hs]; omega

theorem prim_lt (hash : Key → Nat) (t : HashTable) (hs : t.slots.length = 2 ^ t.base) (k : Key) :
    prim hash t.mask k < t.slots.length := by
  have h1 : prim hash t.mask k ≤ t.mask := Nat.and_le_right
  have := mask_succ t hs
  omega

theorem onChain_elim (hash : Key → Nat) (slots : List Slot) (mask i : Nat) (k : Key)
    (h : onChain hash slots mask i k = true) :
    ∃ l, ∃ (hp : prim hash mask k < slots.length), chain slots (cnt slots) (prim hash mask k) = some l ∧ i ∈ l ∧
      slots[prim hash mask k].chained = false := by
  unfold onChain at h
  split at h
  · rename_i l hd hc hs
    have hp : prim hash mask k < slots.length := by
      apply Decidable.byContradiction; intro hh
      simp [List.getElem?_eq_none (Nat.le_of_not_lt hh)] at hs
    rw [List.getElem?_eq_getElem hp] at hs
    have es := Option.some.inj hs
    simp only [Bool.and_eq_true, List.contains_iff_mem, Bool.not_eq_eq_eq_not, Bool.not_true] at h
    exact ⟨l, hp, hc, h.1, by rw [es]; exact h.2⟩
  · simp at h

theorem findSlot_spec (hash : Key → Nat) (t : HashTable) (asize : Nat) (inv : HashInv hash t asize) (k : Key) :
    ∃ r, findSlot hash t.slots t.mask k = some r ∧
      (∀ i, r = some i → ∃ (h : i < t.slots.length), t.slots[i].key = some k) ∧
      (r = none → ∀ i (h : i < t.slots.length), t.slots[i].key ≠ some k) := by
  have hms := mask_succ t inv.size
  unfold findSlot
  by_cases hsm : t.mask < smallHashTableSize
  · simp only [hsm, if_true]
    obtain ⟨r, hr, h1, h2⟩ := findSmall_spec t.slots k t.mask (by omega)
    refine ⟨r, hr, ?_, ?_⟩
    · intro i hi
      obtain ⟨h, _, hk⟩ := h1 i hi
      exact ⟨h, hk⟩
    · intro hn i h
      exact h2 hn i h (by omega)
  · simp only [hsm, if_false]
    have ci := inv.chains (Nat.le_of_not_lt hsm)
    have hp := prim_lt hash t inv.size k
    have ep : hash k &&& t.mask = prim hash t.mask k := rfl
    simp only [ep, List.getElem?_eq_getElem hp, Option.bind_eq_bind, Option.bind_some]
    by_cases hex : ∃ i, ∃ (hi : i < t.slots.length), t.slots[i].key = some k
    · obtain ⟨i, hi, hk⟩ := hex
      obtain ⟨l, _, hc, hm, hch⟩ := onChain_elim hash _ _ _ _ (ci.on_chain i hi k hk)
      have hc' := chain_mono_le _ _ _ (cnt_le_length t.slots) _ _ hc
      have := findChain_found t.slots inv.nodup k i hi hk _ _ _ hc' hm
      refine ⟨some i, by simp [hch, this], ?_, by simp⟩
      intro j hj; cases hj; exact ⟨hi, hk⟩
    · have habs : ∀ i (hi : i < t.slots.length), t.slots[i].key ≠ some k := by
        intro i hi hk; exact hex ⟨i, hi, hk⟩
      by_cases hch : t.slots[prim hash t.mask k].chained = true
      · exact ⟨none, by simp [hch], by simp, fun _ => habs⟩
      · have hch' : t.slots[prim hash t.mask k].chained = false := by simpa using hch
        simp only [hch', Bool.false_eq_true, if_false]
        have hlen : 1 ≤ t.slots.length := by omega
        have : ∃ l, chain t.slots t.slots.length (prim hash t.mask k) = some l := by
          cases hk0 : t.slots[prim hash t.mask k].key with
          | none =>
            have hz := inv.empty_zero _ hp hk0
            refine ⟨[prim hash t.mask k], chain_mono_le _ 1 _ hlen _ _ ?_⟩
            simp [chain, List.getElem?_eq_getElem hp, hz, Slot.zero]
          | some k0 =>
            have e := ci.unchained_primary _ hp k0 hk0 hch'
            obtain ⟨l, _, hc, _, _⟩ := onChain_elim hash _ _ _ _ (ci.on_chain _ hp k0 hk0)
            rw [e] at hc
            exact ⟨l, chain_mono_le _ _ _ (cnt_le_length t.slots) _ _ hc⟩
        obtain ⟨l, hc⟩ := this
        exact ⟨none, findChain_absent t.slots k habs _ _ _ hc, by simp, fun _ => habs⟩

end GoluaVerif.Model.Table
