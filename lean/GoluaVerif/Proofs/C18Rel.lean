/-
  Proofs.C18Rel — release comes after finalisation: in every pool driven the way the runtime
  drives it (mark, Go finalisers, `step`, `finAll`, `popRel`; NOT the raw Extract* calls in
  arbitrary order), no epoch is handed to a finaliser after it has been released.
-/
import GoluaVerif.Proofs.C18Ops
namespace GoluaVerif.Proofs.C18
open GoluaVerif.Spec.Gc GoluaVerif.Model.ClonePool GoluaVerif.Model.GcRuntime GoluaVerif.Model

theorem noFinAfterRel_append {a b : List TEv} (ha : noFinAfterRel a = true) (hb : noFinAfterRel b = true)
    (hd : ∀ n ∈ relOrders a, n ∉ finOrders b) : noFinAfterRel (a ++ b) = true := by
  induction a with
  | nil => simpa using hb
  | cons e t ih =>
    cases e with
    | rel k v n =>
      simp only [noFinAfterRel, Bool.and_eq_true, Bool.not_eq_true', List.contains_eq_mem,
        decide_eq_false_iff_not] at ha
      have hdt : ∀ m ∈ relOrders t, m ∉ finOrders b := fun m hm => hd m (by simp [relOrders, hm])
      have hn : n ∉ finOrders b := hd n (by simp [relOrders])
      simp only [List.cons_append, noFinAfterRel, Bool.and_eq_true, Bool.not_eq_true', List.contains_eq_mem,
        decide_eq_false_iff_not, finOrders_append, List.mem_append, not_or]
      exact ⟨⟨ha.1, hn⟩, ih ha.2 hdt⟩
    | mark _ _ _ _ => exact ih (by simpa [noFinAfterRel] using ha) (fun m hm => hd m (by simpa [relOrders] using hm))
    | unmark _ => exact ih (by simpa [noFinAfterRel] using ha) (fun m hm => hd m (by simpa [relOrders] using hm))
    | fired _ => exact ih (by simpa [noFinAfterRel] using ha) (fun m hm => hd m (by simpa [relOrders] using hm))
    | fin _ _ _ => exact ih (by simpa [noFinAfterRel] using ha) (fun m hm => hd m (by simpa [relOrders] using hm))
    | skip _ _ => exact ih (by simpa [noFinAfterRel] using ha) (fun m hm => hd m (by simpa [relOrders] using hm))

/-- a stretch of trace without finalisations can always be appended -/
theorem noFinAfterRel_append_nofin {a b : List TEv} (ha : noFinAfterRel a = true) (hb : finOrders b = []) :
    noFinAfterRel (a ++ b) = true := by
  refine noFinAfterRel_append ha ?_ (fun n _ => by simp [hb])
  induction b with
  | nil => rfl
  | cons e t ih =>
    cases e with
    | fin _ _ _ => simp [finOrders] at hb
    | rel k v n =>
      have ht : finOrders t = [] := by simpa [finOrders] using hb
      simp [noFinAfterRel, ht, ih ht]
    | mark _ _ _ _ => exact ih (by simpa [finOrders] using hb)
    | unmark _ => exact ih (by simpa [finOrders] using hb)
    | fired _ => exact ih (by simpa [finOrders] using hb)
    | skip _ _ => exact ih (by simpa [finOrders] using hb)

theorem noFinAfterRel_of_norel {b : List TEv} (hb : relOrders b = []) : noFinAfterRel b = true := by
  induction b with
  | nil => rfl
  | cons e t ih =>
    cases e with
    | rel _ _ _ => simp [relOrders] at hb
    | fin _ _ _ => exact ih (by simpa [relOrders] using hb)
    | mark _ _ _ _ => exact ih (by simpa [relOrders] using hb)
    | unmark _ => exact ih (by simpa [relOrders] using hb)
    | fired _ => exact ih (by simpa [relOrders] using hb)
    | skip _ _ => exact ih (by simpa [relOrders] using hb)

/-! how each primitive extends the trace -/

theorem mark_ext (p : Pool) (o : Obj) (f r : Bool) :
    ∃ ext, (ClonePool.mark p o f r).tr = p.tr ++ ext ∧ finOrders ext = [] ∧ relOrders ext = [] ∧
      (ClonePool.mark p o f r).pf = p.pf := by
  unfold ClonePool.mark
  split
  · split
    · exact ⟨[], by simp, rfl, rfl, rfl⟩
    · split
      · exact ⟨[], by simp, rfl, rfl, rfl⟩
      · exact ⟨[TEv.unmark o.key], rfl, rfl, rfl, rfl⟩
  · split
    · exact ⟨[], by simp, rfl, rfl, by simp⟩
    · refine ⟨[TEv.mark o.key (p.last + 1) f r], ?_, rfl, rfl, ?_⟩
      · show _ ++ [_] = p.tr ++ [_]; congr 1; split <;> simp
      · show (if _ then registerNew p o else p).pf = p.pf; split <;> simp

theorem fire_ext (p : Pool) (o : Obj) :
    ∃ ext, (ClonePool.fire p o).tr = p.tr ++ ext ∧ finOrders ext = [] ∧ relOrders ext = [] ∧
      (∀ e ∈ (ClonePool.fire p o).pf, e ∈ p.pf ∨ e ∈ regL p) := by
  unfold ClonePool.fire
  split
  · exact ⟨[], by simp, rfl, rfl, fun e he => Or.inl he⟩
  · split
    · exact ⟨[_], rfl, rfl, rfl, fun e he => Or.inl he⟩
    · rename_i rg hreg
      split
      · exact ⟨[_], rfl, rfl, rfl, fun e he => Or.inl he⟩
      · rename_i e hlook
        split
        · refine ⟨[_], rfl, rfl, rfl, ?_⟩
          intro x hx
          rcases List.mem_append.mp (show x ∈ p.pf ++ [e] from hx) with h | h
          · exact Or.inl h
          · right; rw [List.mem_singleton.mp h, regL_of_some hreg]; exact (regLookup_mem hlook).1
        · exact ⟨[_], rfl, rfl, rfl, fun e he => Or.inl he⟩

theorem xPF_tr (p : Pool) : (xPF p).tr = p.tr ++ finEvs .pf (sortDesc p.pf) ∧ (xPF p).pf = [] ∧ (xPF p).pr = p.pr := by
  unfold ClonePool.xPF
  obtain ⟨_, _, h3, h4, h5, _, _⟩ := foldl_register_core p.pf { p with pf := [] }
  simp only at h3 h4 h5
  exact ⟨by simp [h5], h3, h4⟩

/-- the runtime-usage invariant -/
structure InvR (p : Pool) : Prop where
  inv : Inv p
  nfar : noFinAfterRel p.tr = true
  relSafe : ∀ n ∈ relOrders p.tr, n ∉ ords p.pf

theorem InvR.init (pid : Nat) : InvR { pid := pid } :=
  ⟨Inv.init pid, rfl, by simp [relOrders]⟩

theorem InvR.use {p : Pool} (h : InvR p) (u : Use) (hu : isRtUse u = true) : InvR (ClonePool.use p u) := by
  have hinv := h.inv.use u
  by_cases hfat : p.fatal = false
  case neg =>
    have : ClonePool.use p u = p := by unfold ClonePool.use; simp at hfat; simp [hfat]
    rw [this]; exact h
  refine ⟨hinv, ?_, ?_⟩
  · -- noFinAfterRel
    rw [use_of_not_fatal hfat]
    cases u with
    | mark o f r =>
      obtain ⟨ext, he, hf, _, _⟩ := mark_ext p o f r
      simp only; rw [he]; exact noFinAfterRel_append_nofin h.nfar hf
    | fire o =>
      obtain ⟨ext, he, hf, _, _⟩ := fire_ext p o
      simp only; rw [he]; exact noFinAfterRel_append_nofin h.nfar hf
    | step =>
      obtain ⟨h1, _, _⟩ := xPF_tr p
      show noFinAfterRel ((xPF p).tr ++ relEvs .pr (sortDesc (xPF p).pr)) = true
      refine noFinAfterRel_append_nofin ?_ (finOrders_relEvs _ _)
      rw [h1]
      refine noFinAfterRel_append h.nfar (noFinAfterRel_of_norel (relOrders_finEvs _ _)) ?_
      intro n hn
      rw [finOrders_finEvs]
      exact fun hm => h.relSafe n hn (mem_ords_sortDesc.mp hm)
    | finAll =>
      have := finAll_tr hfat
      rw [use_of_not_fatal hfat] at this
      simp only at this ⊢; rw [this]
      refine noFinAfterRel_append h.nfar (noFinAfterRel_of_norel (relOrders_finEvs _ _)) ?_
      intro n hn
      rw [finOrders_finEvs]
      intro hm
      rcases mem_afOut hm with ⟨e, he, _, heo⟩ | hpf
      · exact (h.inv.regRel e he).1 (heo ▸ hn)
      · exact h.relSafe n hn hpf
    | popRel =>
      have := popRel_tr hfat
      rw [use_of_not_fatal hfat] at this
      simp only at this ⊢; rw [this]
      refine noFinAfterRel_append_nofin h.nfar ?_
      rw [finOrders_append, finOrders_skipEvs, finOrders_relEvs]; rfl
    | xPF => cases hu
    | xPR => cases hu
    | xAF => cases hu
    | xAR => cases hu
  · -- nothing released is still queued for finalisation
    rw [use_of_not_fatal hfat]
    cases u with
    | mark o f r =>
      obtain ⟨ext, he, _, hr, hpf⟩ := mark_ext p o f r
      simp only; intro n hn
      rw [he, relOrders_append, hr, List.append_nil] at hn
      rw [hpf]; exact h.relSafe n hn
    | fire o =>
      obtain ⟨ext, he, _, hr, hpf⟩ := fire_ext p o
      simp only; intro n hn
      rw [he, relOrders_append, hr, List.append_nil] at hn
      intro hm
      obtain ⟨e, hemem, heo⟩ := mem_ords.mp hm
      rcases hpf e hemem with hp | hp
      · exact h.relSafe n hn (mem_ords.mpr ⟨e, hp, heo⟩)
      · exact (h.inv.regRel e hp).1 (heo ▸ hn)
    | step =>
      obtain ⟨_, h2, _⟩ := xPF_tr p
      intro n _
      show n ∉ ords (xPF p).pf
      rw [h2]; simp [ords]
    | finAll => intro n _; simp [xAF, afState, ords]
    | popRel => intro n _; simp [xAR, skipAF, afState, ords]
    | xPF => cases hu
    | xPR => cases hu
    | xAF => cases hu
    | xAR => cases hu

theorem rt_invR (es : List REv) : ∀ p ∈ (GcRuntime.run es).pools, InvR p :=
  AllPools.run (P := InvR) InvR.init (fun _ u hu hi => hi.use u hu)
    (fun p o hi => ⟨Inv.congr (p := p) (q := clearFinalizer p o) rfl rfl rfl rfl rfl hi.inv, hi.nfar, hi.relSafe⟩) es

end GoluaVerif.Proofs.C18
