/-
  Proofs.ForFloat — lemmas for the float numeric-for (Props.C16 float_loop_values):
  float addition is monotone (x + d ≥ x for d > 0), keeps values well-formed, and produces a
  NaN only from ∞ + (−∞); hence the overflow test of advfor never fires in a float loop and the
  limit test `stop < next` is the negation of the manual's `next <= stop` for non-NaN values.
-/
import GoluaVerif.Model.For
import GoluaVerif.Proofs.ForLoop
namespace GoluaVerif.Proofs.ForFloat
open GoluaVerif GoluaVerif.Spec GoluaVerif.Spec.For GoluaVerif.Proofs GoluaVerif.Proofs.ForLoop
open GoluaVerif.Model.For (isLessThan isLessOrEqual isPositive isZero add advfor prepfor loopFrom)

set_option exponentiation.threshold 4096

theorem overflowMag_eq : F64.overflowMag = 2 ^ 2098 := by unfold F64.overflowMag; rfl
theorem huge_eq : F64.huge = 2 ^ 2100 := by unfold F64.huge; rfl

theorem wf_fin {n : Bool} {m : Nat} (h : (F64.fin n m).WF = true) :
    F64.roundNat m = m ∧ m < 2 ^ 2098 := by
  have hm : F64.magOK m = true := h
  refine ⟨magOK_round hm, ?_⟩
  unfold F64.magOK at hm
  rw [Bool.and_eq_true] at hm
  have := of_decide_eq_true hm.2
  omega

theorem wf_of_round (n : Bool) (a : Nat) (h : F64.roundNat a < F64.overflowMag) :
    (F64.fin n (F64.roundNat a)).WF = true := by
  show F64.magOK (F64.roundNat a) = true
  unfold F64.magOK
  rw [Bool.and_eq_true]
  refine ⟨by rw [roundNat_idem]; exact beq_self_eq_true _, decide_eq_true ?_⟩
  rw [overflowMag_eq] at h; omega

theorem ofExact_wf (nz : Bool) (k : Int) : (F64.ofExact nz k).WF = true := by
  unfold F64.ofExact
  split
  · cases nz <;> decide
  · simp only
    split
    · rename_i hlt; exact wf_of_round _ _ hlt
    · rfl

theorem fadd_wf (a b : F64) : (F64.fadd a b).WF = true := by
  cases a <;> cases b <;> simp only [F64.fadd] <;> first | rfl | (split <;> rfl) | exact ofExact_wf _ _

/-- key of a rounded exact sum -/
theorem ofExact_key (nz : Bool) (k : Int) :
    (F64.ofExact nz k).isNaN = false ∧
    (k = 0 → (F64.ofExact nz k).key = 0) ∧
    (0 < k → (F64.ofExact nz k).key = (F64.roundNat k.natAbs : Int) ∨
             ((F64.ofExact nz k).key = (F64.huge : Int) ∧ F64.overflowMag ≤ F64.roundNat k.natAbs)) ∧
    (k < 0 → (F64.ofExact nz k).key = -(F64.roundNat k.natAbs : Int) ∨
             ((F64.ofExact nz k).key = -(F64.huge : Int) ∧ F64.overflowMag ≤ F64.roundNat k.natAbs)) := by
  unfold F64.ofExact
  by_cases hk : k = 0
  · subst hk
    simp only [if_true]
    refine ⟨rfl, fun _ => ?_, fun h => by omega, fun h => by omega⟩
    cases nz <;> rfl
  · simp only [hk, if_false]
    by_cases hlt : F64.roundNat k.natAbs < F64.overflowMag
    · simp only [hlt, if_true]
      refine ⟨rfl, fun h => (by simp at h), fun hp => Or.inl ?_, fun hn => Or.inl ?_⟩
      · have : decide (k < 0) = false := decide_eq_false (by omega)
        rw [this]; rfl
      · have : decide (k < 0) = true := decide_eq_true hn
        rw [this]; rfl
    · simp only [hlt, if_false]
      refine ⟨rfl, fun h => (by simp at h), fun hp => Or.inr ⟨?_, by omega⟩, fun hn => Or.inr ⟨?_, by omega⟩⟩
      · have : decide (k < 0) = false := decide_eq_false (by omega)
        rw [this]; rfl
      · have : decide (k < 0) = true := decide_eq_true hn
        rw [this]; rfl

theorem key_fin (n : Bool) (m : Nat) : (F64.fin n m).key = if n then -(m : Int) else (m : Int) := by
  cases n <;> rfl

/-- no NaN arises: not (∞ and −∞) -/
def compatible : F64 → F64 → Prop
  | .inf a, .inf b => a = b
  | _, _ => True

/-- x + d for a non-NaN, well-formed x and d with d > 0 is not a NaN and not below x -/
theorem fadd_mono_pos (x d : F64) (hx : x.isNaN = false) (hxw : x.WF = true) (hdw : d.WF = true)
    (hd : 0 < d.key) (hdn : d.isNaN = false) (hc : compatible x d) :
    (F64.fadd x d).isNaN = false ∧ x.key ≤ (F64.fadd x d).key ∧ compatible (F64.fadd x d) d := by
  cases x with
  | nan => simp [F64.isNaN] at hx
  | inf a =>
    cases d with
    | nan => simp [F64.isNaN] at hdn
    | inf b =>
      have : a = b := hc
      subst this
      simp only [F64.fadd, if_true]
      exact ⟨rfl, Int.le_refl _, rfl⟩
    | fin nb mb => exact ⟨rfl, Int.le_refl _, trivial⟩
  | fin na ma =>
    obtain ⟨hra, hma⟩ := wf_fin hxw
    cases d with
    | nan => simp [F64.isNaN] at hdn
    | inf b =>
      cases b with
      | true => simp [F64.key, huge_eq] at hd
      | false =>
        refine ⟨rfl, ?_, rfl⟩
        simp only [F64.fadd]
        rw [key_fin]
        show _ ≤ (F64.huge : Int)
        rw [huge_eq]
        split <;> omega
    | fin nb mb =>
      obtain ⟨hrb, hmb⟩ := wf_fin hdw
      simp only [F64.fadd]
      obtain ⟨k1, k2, k3, k4⟩ := ofExact_key (na && nb) ((F64.fin na ma).key + (F64.fin nb mb).key)
      refine ⟨k1, ?_, by
        generalize F64.ofExact (na && nb) ((F64.fin na ma).key + (F64.fin nb mb).key) = r
        cases r <;> trivial⟩
      rw [key_fin] at hd
      have hnb : nb = false := by
        cases nb with
        | false => rfl
        | true => simp only [if_true] at hd; omega
      subst hnb
      simp only [Bool.false_eq_true, if_false] at hd
      rw [key_fin, key_fin] at k2 k3 k4 ⊢
      simp only [Bool.false_eq_true, if_false] at k2 k3 k4 ⊢
      cases na with
      | false =>
        simp only [Bool.false_eq_true, if_false] at k2 k3 k4 ⊢
        have hpos : 0 < (ma : Int) + (mb : Int) := by omega
        have hna : ((ma : Int) + (mb : Int)).natAbs = ma + mb := by omega
        rcases k3 hpos with h | ⟨h, _⟩
        · rw [h, hna]
          have := roundNat_mono (a := ma) (b := ma + mb) (by omega)
          rw [hra] at this
          exact Int.ofNat_le.mpr this
        · rw [h, huge_eq]; omega
      | true =>
        simp only [if_true] at k2 k3 k4 ⊢
        by_cases h0 : -(ma : Int) + (mb : Int) = 0
        · rw [k2 h0]; omega
        · by_cases hp : 0 < -(ma : Int) + (mb : Int)
          · rcases k3 hp with h | ⟨h, _⟩
            · rw [h]; omega
            · rw [h, huge_eq]; omega
          · have hn : -(ma : Int) + (mb : Int) < 0 := by omega
            have hna : (-(ma : Int) + (mb : Int)).natAbs = ma - mb := by omega
            have hmono := roundNat_mono (a := ma - mb) (b := ma) (by omega)
            rw [hra] at hmono
            rcases k4 hn with h | ⟨h, hov⟩
            · rw [h, hna]; omega
            · rw [hna, overflowMag_eq] at hov; omega

/-- x + d for d < 0 is not a NaN and not above x -/
theorem fadd_mono_neg (x d : F64) (hx : x.isNaN = false) (hxw : x.WF = true) (hdw : d.WF = true)
    (hd : d.key < 0) (hdn : d.isNaN = false) (hc : compatible x d) :
    (F64.fadd x d).isNaN = false ∧ (F64.fadd x d).key ≤ x.key ∧ compatible (F64.fadd x d) d := by
  cases x with
  | nan => simp [F64.isNaN] at hx
  | inf a =>
    cases d with
    | nan => simp [F64.isNaN] at hdn
    | inf b =>
      have : a = b := hc
      subst this
      simp only [F64.fadd, if_true]
      exact ⟨rfl, Int.le_refl _, rfl⟩
    | fin nb mb => exact ⟨rfl, Int.le_refl _, trivial⟩
  | fin na ma =>
    obtain ⟨hra, hma⟩ := wf_fin hxw
    cases d with
    | nan => simp [F64.isNaN] at hdn
    | inf b =>
      cases b with
      | false => simp [F64.key, huge_eq] at hd
      | true =>
        refine ⟨rfl, ?_, rfl⟩
        simp only [F64.fadd]
        rw [key_fin]
        show -(F64.huge : Int) ≤ _
        rw [huge_eq]
        split <;> omega
    | fin nb mb =>
      obtain ⟨hrb, hmb⟩ := wf_fin hdw
      simp only [F64.fadd]
      obtain ⟨k1, k2, k3, k4⟩ := ofExact_key (na && nb) ((F64.fin na ma).key + (F64.fin nb mb).key)
      refine ⟨k1, ?_, by
        generalize F64.ofExact (na && nb) ((F64.fin na ma).key + (F64.fin nb mb).key) = r
        cases r <;> trivial⟩
      rw [key_fin] at hd
      have hnb : nb = true := by
        cases nb with
        | true => rfl
        | false => simp only [Bool.false_eq_true, if_false] at hd; omega
      subst hnb
      simp only [if_true] at hd
      rw [key_fin, key_fin] at k2 k3 k4 ⊢
      simp only [if_true] at k2 k3 k4 ⊢
      cases na with
      | true =>
        simp only [if_true] at k2 k3 k4 ⊢
        have hneg : -(ma : Int) + -(mb : Int) < 0 := by omega
        have hna : (-(ma : Int) + -(mb : Int)).natAbs = ma + mb := by omega
        rcases k4 hneg with h | ⟨h, _⟩
        · rw [h, hna]
          have := roundNat_mono (a := ma) (b := ma + mb) (by omega)
          rw [hra] at this
          have := Int.ofNat_le.mpr this
          omega
        · rw [h, huge_eq]; omega
      | false =>
        simp only [Bool.false_eq_true, if_false] at k2 k3 k4 ⊢
        by_cases h0 : (ma : Int) + -(mb : Int) = 0
        · rw [k2 h0]; omega
        · by_cases hn : (ma : Int) + -(mb : Int) < 0
          · rcases k4 hn with h | ⟨h, _⟩
            · rw [h]; omega
            · rw [h, huge_eq]; omega
          · have hp : 0 < (ma : Int) + -(mb : Int) := by omega
            have hna : ((ma : Int) + -(mb : Int)).natAbs = ma - mb := by omega
            have hmono := roundNat_mono (a := ma - mb) (b := ma) (by omega)
            rw [hra] at hmono
            rcases k3 hp with h | ⟨h, hov⟩
            · rw [h, hna]; omega
            · rw [hna, overflowMag_eq] at hov; omega

/-! ### the float loop -/

theorem le_eq_not_lt (a b : Num) (ha : a.isNaN = false) (hb : b.isNaN = false) :
    Num.le a b = !Num.lt b a := by
  have h1 : Num.le a b = (!a.isNaN && !b.isNaN && decide (a.key ≤ b.key)) := rfl
  have h2 : Num.lt b a = (!b.isNaN && !a.isNaN && decide (b.key < a.key)) := rfl
  rw [h1, h2, ha, hb]
  simp only [Bool.not_false, Bool.true_and]
  by_cases h : a.key ≤ b.key
  · have : ¬ b.key < a.key := by omega
    simp [h, this]
  · have : b.key < a.key := by omega
    simp [h, this]

theorem lt_false_of_key_le (a b : Num) (h : b.key ≤ a.key) : Num.lt a b = false := by
  have h2 : Num.lt a b = (!a.isNaN && !b.isNaN && decide (a.key < b.key)) := rfl
  rw [h2]
  have : ¬ a.key < b.key := by omega
  simp [this]

theorem isPos_iff (d : F64) (hn : d.isNaN = false) : F64.isPos d = decide (0 < d.key) := by
  unfold F64.isPos F64.blt
  rw [hn]
  rfl

theorem isZero_iff (d : F64) (hn : d.isNaN = false) : F64.isZero d = decide (d.key = 0) := by
  unfold F64.isZero F64.beq
  rw [hn]
  rfl

/-- a sum that is not a NaN has operands that are not NaN and not infinities of opposite signs -/
theorem fadd_notNaN (x d : F64) (h : (F64.fadd x d).isNaN = false) :
    x.isNaN = false ∧ d.isNaN = false ∧ compatible x d := by
  cases x with
  | nan => simp [F64.fadd, F64.isNaN] at h
  | inf a =>
    cases d with
    | nan => simp [F64.fadd, F64.isNaN] at h
    | inf b =>
      refine ⟨rfl, rfl, ?_⟩
      show a = b
      by_cases hab : a = b
      · exact hab
      · simp [F64.fadd, hab, F64.isNaN] at h
    | fin nb mb => exact ⟨rfl, rfl, trivial⟩
  | fin na ma =>
    cases d with
    | nan => simp [F64.fadd, F64.isNaN] at h
    | inf b => exact ⟨rfl, rfl, trivial⟩
    | fin nb mb => exact ⟨rfl, rfl, trivial⟩

theorem le_false_of_nan_left (a b : Num) (h : a.isNaN = true) : Num.le a b = false := by
  have : Num.le a b = (!a.isNaN && !b.isNaN && decide (a.key ≤ b.key)) := rfl
  rw [this, h]; rfl

theorem le_false_of_nan_right (a b : Num) (h : b.isNaN = true) : Num.le a b = false := by
  have : Num.le a b = (!a.isNaN && !b.isNaN && decide (a.key ≤ b.key)) := rfl
  rw [this, h]; simp

theorem fcont_true_notNaN (p : Bool) (x : F64) (l : Num) (h : fcont p x l = true) : x.isNaN = false := by
  cases hx : x.isNaN with
  | false => rfl
  | true =>
    have h1 := le_false_of_nan_left (.flt x) l hx
    have h2 := le_false_of_nan_right l (.flt x) hx
    cases p <;> simp [fcont, h1, h2] at h

/-- one advfor step of a float loop: the new start register is `x + d` if that is still within the limit
    (`not (next <= limit)` ends the loop, also when `next` or the limit is NaN; the overflow test never fires) -/
theorem adv_float (x d : F64) (l : Num) (hx : x.isNaN = false) (hxw : x.WF = true) (hdw : d.WF = true)
    (hz : F64.isZero d = false) (hlw : numWF l = true) :
    advfor (.flt x) l (.flt d) =
      (if fcont d.isPos (F64.fadd x d) l then some (.flt (F64.fadd x d)) else none) := by
  have hw := fadd_wf x d
  cases hnx : (F64.fadd x d).isNaN with
  | true =>
    have h1 := le_false_of_nan_left (.flt (F64.fadd x d)) l hnx
    have h2 := le_false_of_nan_right l (.flt (F64.fadd x d)) hnx
    have e1 := isLessOrEqual_exact (.flt (F64.fadd x d)) l hw hlw
    have e2 := isLessOrEqual_exact l (.flt (F64.fadd x d)) hlw hw
    rw [h1] at e1
    rw [h2] at e2
    simp only [advfor, add, isPositive, fcont, e1, e2, h1, h2]
    cases F64.isPos d <;> simp
  | false =>
    obtain ⟨_, hdn, hc⟩ := fadd_notNaN x d hnx
    have hdz : d.key ≠ 0 := by
      rw [isZero_iff d hdn] at hz
      simpa using hz
    by_cases hp : 0 < d.key
    · obtain ⟨m1, m2, m3⟩ := fadd_mono_pos x d hx hxw hdw hp hdn hc
      have hpos : F64.isPos d = true := by rw [isPos_iff d hdn]; exact decide_eq_true hp
      simp only [advfor, add, isPositive, hpos, if_true, fcont]
      rw [isLessOrEqual_exact (.flt (F64.fadd x d)) l hw hlw, isLessThan_exact (.flt (F64.fadd x d)) (.flt x) hw hxw,
        lt_false_of_key_le (.flt (F64.fadd x d)) (.flt x) m2, Bool.or_false]
      cases Num.le (.flt (F64.fadd x d)) l <;> rfl
    · have hn : d.key < 0 := by omega
      obtain ⟨m1, m2, m3⟩ := fadd_mono_neg x d hx hxw hdw hn hdn hc
      have hpos : F64.isPos d = false := by rw [isPos_iff d hdn]; exact decide_eq_false hp
      simp only [advfor, add, isPositive, hpos, Bool.false_eq_true, if_false, fcont]
      rw [isLessOrEqual_exact l (.flt (F64.fadd x d)) hlw hw, isLessThan_exact (.flt x) (.flt (F64.fadd x d)) hxw hw,
        lt_false_of_key_le (.flt x) (.flt (F64.fadd x d)) m2, Bool.or_false]
      cases Num.le l (.flt (F64.fadd x d)) <;> rfl

theorem float_loop (d : F64) (l : Num) (hdw : d.WF = true) (hz : F64.isZero d = false) (hlw : numWF l = true) :
    ∀ (cap : Nat) (x : F64), x.WF = true →
      loopFrom cap (if fcont d.isPos x l then some (.flt x) else none) l (.flt d) =
        floatValues cap x l d := by
  intro cap
  induction cap with
  | zero => intro x _; cases fcont d.isPos x l <;> rfl
  | succ cap ih =>
    intro x hxw
    cases hf : fcont d.isPos x l with
    | false => simp only [Bool.false_eq_true, if_false, loopFrom, floatValues, hf]
    | true =>
      have hx := fcont_true_notNaN _ x l hf
      have a1 := adv_float x d l hx hxw hdw hz hlw
      simp only [if_true, loopFrom, floatValues, hf, a1]
      rw [ih (F64.fadd x d) (fadd_wf x d)]

theorem prep_float (x d : F64) (l : Num) (hxw : x.WF = true) (hlw : numWF l = true) :
    (if (if isPositive (.flt d) then !isLessOrEqual (.flt x) l else !isLessOrEqual l (.flt x)) = true then none
     else some (Num.flt x)) =
    (if fcont d.isPos x l then some (Num.flt x) else none) := by
  simp only [isPositive, fcont]
  rw [isLessOrEqual_exact (.flt x) l hxw hlw, isLessOrEqual_exact l (.flt x) hlw hxw]
  by_cases hp : F64.isPos d = true
  · simp only [hp, if_true]
    cases Num.le (.flt x) l <;> rfl
  · simp only [hp, if_false]
    cases Num.le l (.flt x) <;> rfl

/-- the whole float loop of the model (start and step already floats) is the manual's -/
theorem run_float (cap : Nat) (x d : F64) (l : Num) (hxw : x.WF = true) (hdw : d.WF = true)
    (hlw : numWF l = true) :
    (if isZero (.flt d) then Outcome.error
     else .values (loopFrom cap
       (if (if isPositive (.flt d) then !isLessOrEqual (.flt x) l else !isLessOrEqual l (.flt x)) = true then none
        else some (Num.flt x)) l (.flt d))) =
    (if d.isZero then Outcome.error else .values (floatValues cap x l d)) := by
  simp only [isZero]
  by_cases hz : F64.isZero d = true
  · simp only [hz, if_true]
  · simp only [hz, if_false]
    have hz' : F64.isZero d = false := by simpa using hz
    rw [prep_float x d l hxw hlw, float_loop d l hdw hz' hlw cap x hxw]

/-- Model.For.run once start and step have been unified to floats -/
theorem model_run_unified (cap : Nat) (a l d : Num) (x fd : F64)
    (hu : Model.For.unify a d = (.flt x, .flt fd)) :
    Model.For.run cap (.num a) (.num l) (.num d) =
      (if isZero (.flt fd) then Outcome.error
       else .values (loopFrom cap
         (if (if isPositive (.flt fd) then !isLessOrEqual (.flt x) l else !isLessOrEqual l (.flt x)) = true then none
          else some (Num.flt x)) l (.flt fd))) := by
  simp only [Model.For.run, prepfor, Val.toNum?, hu]
  by_cases hz : isZero (.flt fd) = true
  · simp only [hz, if_true]
  · simp [hz]

end GoluaVerif.Proofs.ForFloat
