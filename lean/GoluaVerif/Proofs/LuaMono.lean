/-
  Proofs.LuaMono — every judgement of `Spec.Lua.step` is monotone in the record of
  recursive judgements (w.r.t. "out of fuel ⊑ anything"), hence more fuel never
  changes a result.  Uses the `monotonicity` tactic of Lean's `partial_fixpoint`
  machinery (Init.Internal.Order) on the open-recursive evaluator.
-/
import GoluaVerif.Spec.Lua.Eval
namespace GoluaVerif.Spec.Lua
open Lean.Order

set_option synthInstance.maxSize 4000

/-- pointwise "less defined than" on records of judgements -/
structure Rec.Le (a b : Rec) : Prop where
  exprM : a.exprM ⊑ b.exprM
  exprs : a.exprs ⊑ b.exprs
  fields : a.fields ⊑ b.fields
  stmt : a.stmt ⊑ b.stmt
  stmts : a.stmts ⊑ b.stmts
  call : a.call ⊑ b.call
  index : a.index ⊑ b.index
  setindex : a.setindex ⊑ b.setindex
  forin : a.forin ⊑ b.forin
  fornumI : a.fornumI ⊑ b.fornumI
  fornumF : a.fornumF ⊑ b.fornumF

instance : PartialOrder Rec where
  rel := Rec.Le
  rel_refl := ⟨PartialOrder.rel_refl, PartialOrder.rel_refl, PartialOrder.rel_refl, PartialOrder.rel_refl,
    PartialOrder.rel_refl, PartialOrder.rel_refl, PartialOrder.rel_refl, PartialOrder.rel_refl,
    PartialOrder.rel_refl, PartialOrder.rel_refl, PartialOrder.rel_refl⟩
  rel_trans h1 h2 := ⟨PartialOrder.rel_trans h1.exprM h2.exprM, PartialOrder.rel_trans h1.exprs h2.exprs,
    PartialOrder.rel_trans h1.fields h2.fields, PartialOrder.rel_trans h1.stmt h2.stmt,
    PartialOrder.rel_trans h1.stmts h2.stmts, PartialOrder.rel_trans h1.call h2.call,
    PartialOrder.rel_trans h1.index h2.index, PartialOrder.rel_trans h1.setindex h2.setindex,
    PartialOrder.rel_trans h1.forin h2.forin, PartialOrder.rel_trans h1.fornumI h2.fornumI,
    PartialOrder.rel_trans h1.fornumF h2.fornumF⟩
  rel_antisymm {a b} h1 h2 := by
    cases a; cases b
    have _e1 := PartialOrder.rel_antisymm h1.exprM h2.exprM
    have _e2 := PartialOrder.rel_antisymm h1.exprs h2.exprs
    have _e3 := PartialOrder.rel_antisymm h1.fields h2.fields
    have _e4 := PartialOrder.rel_antisymm h1.stmt h2.stmt
    have _e5 := PartialOrder.rel_antisymm h1.stmts h2.stmts
    have _e6 := PartialOrder.rel_antisymm h1.call h2.call
    have _e7 := PartialOrder.rel_antisymm h1.index h2.index
    have _e8 := PartialOrder.rel_antisymm h1.setindex h2.setindex
    have _e9 := PartialOrder.rel_antisymm h1.forin h2.forin
    have _e10 := PartialOrder.rel_antisymm h1.fornumI h2.fornumI
    have _e11 := PartialOrder.rel_antisymm h1.fornumF h2.fornumF
    simp_all

theorem Rec.le_of_rel {a b : Rec} (h : a ⊑ b) : Rec.Le a b := by
  change Rec.Le a b at h
  exact h

section proj
variable {γ : Type} [PartialOrder γ] (f : γ → Rec) (h : monotone f)
include h

@[partial_fixpoint_monotone] theorem mono_exprM (c e) : monotone (fun x => (f x).exprM c e) :=
  fun _ _ hab => (Rec.le_of_rel (h _ _ hab)).exprM c e
@[partial_fixpoint_monotone] theorem mono_exprs (c e) : monotone (fun x => (f x).exprs c e) :=
  fun _ _ hab => (Rec.le_of_rel (h _ _ hab)).exprs c e
@[partial_fixpoint_monotone] theorem mono_fields (c a i l) : monotone (fun x => (f x).fields c a i l) :=
  fun _ _ hab => (Rec.le_of_rel (h _ _ hab)).fields c a i l
@[partial_fixpoint_monotone] theorem mono_stmt (c s) : monotone (fun x => (f x).stmt c s) :=
  fun _ _ hab => (Rec.le_of_rel (h _ _ hab)).stmt c s
@[partial_fixpoint_monotone] theorem mono_stmts (c w t b l i) : monotone (fun x => (f x).stmts c w t b l i) :=
  fun _ _ hab => (Rec.le_of_rel (h _ _ hab)).stmts c w t b l i
@[partial_fixpoint_monotone] theorem mono_call (d v a) : monotone (fun x => (f x).call d v a) :=
  fun _ _ hab => (Rec.le_of_rel (h _ _ hab)).call d v a
@[partial_fixpoint_monotone] theorem mono_index (d v k) : monotone (fun x => (f x).index d v k) :=
  fun _ _ hab => (Rec.le_of_rel (h _ _ hab)).index d v k
@[partial_fixpoint_monotone] theorem mono_setindex (d t k v) : monotone (fun x => (f x).setindex d t k v) :=
  fun _ _ hab => (Rec.le_of_rel (h _ _ hab)).setindex d t k v
@[partial_fixpoint_monotone] theorem mono_forin (c n a b d e) : monotone (fun x => (f x).forin c n a b d e) :=
  fun _ _ hab => (Rec.le_of_rel (h _ _ hab)).forin c n a b d e
@[partial_fixpoint_monotone] theorem mono_fornumI (c n a b d e) : monotone (fun x => (f x).fornumI c n a b d e) :=
  fun _ _ hab => (Rec.le_of_rel (h _ _ hab)).fornumI c n a b d e
@[partial_fixpoint_monotone] theorem mono_fornumF (c n a b d e) : monotone (fun x => (f x).fornumF c n a b d e) :=
  fun _ _ hab => (Rec.le_of_rel (h _ _ hab)).fornumF c n a b d e
end proj

/-- one tactic for all the helper lemmas -/
macro "mono_solve" : tactic => `(tactic| repeat (first | assumption | monotonicity))

@[partial_fixpoint_monotone]
theorem mono_tryLua {γ α} [PartialOrder γ] (f : γ → M α) (h : monotone f) :
    monotone (fun x => tryLua (f x)) := by
  unfold tryLua
  intro a b hab
  apply MonoBind.bind_mono_left (m := StateT Store Option)
  exact h _ _ hab

@[partial_fixpoint_monotone]
theorem mono_tryTbc {γ α} [PartialOrder γ] (f : γ → M α) (h : monotone f) :
    monotone (fun x => tryTbc (f x)) := by
  unfold tryTbc
  intro a b hab
  apply MonoBind.bind_mono_left (m := StateT Store Option)
  exact h _ _ hab

@[partial_fixpoint_monotone]
theorem mono_tryCo {γ} [PartialOrder γ] (f : γ → M (List Val)) (h : monotone f) :
    monotone (fun x => tryCo (f x)) := by
  unfold tryCo
  intro a b hab
  apply MonoBind.bind_mono_left (m := StateT Store Option)
  exact h _ _ hab

section helpers
variable {γ : Type} [PartialOrder γ] (f : γ → Rec) (h : monotone f)
include h

@[partial_fixpoint_monotone] theorem mono_raise {α} (d v) : monotone (fun x => (raise (f x) d v : M α)) := by
  unfold raise; split <;> mono_solve
@[partial_fixpoint_monotone] theorem mono_rtError {α} (d c) : monotone (fun x => (rtError (f x) d c : M α)) := by
  unfold rtError; mono_solve
@[partial_fixpoint_monotone] theorem mono_eval1 (c e) : monotone (fun x => eval1 (f x) c e) := by
  unfold eval1; mono_solve
@[partial_fixpoint_monotone] theorem mono_call1 (d v a) : monotone (fun x => call1 (f x) d v a) := by
  unfold call1; mono_solve
@[partial_fixpoint_monotone] theorem mono_finishBin (d raw mm a b) :
    monotone (fun x => finishBin (f x) d raw mm a b) := by
  unfold finishBin; split <;> mono_solve
@[partial_fixpoint_monotone] theorem mono_eqVals (d a b) : monotone (fun x => eqVals (f x) d a b) := by
  unfold eqVals; split
  · mono_solve
  · split <;> mono_solve
@[partial_fixpoint_monotone] theorem mono_binop (fo d op a b) : monotone (fun x => binop fo (f x) d op a b) := by
  unfold binop truthyM; cases op <;> simp only [] <;> mono_solve
@[partial_fixpoint_monotone] theorem mono_lenOf (d a) : monotone (fun x => lenOf (f x) d a) := by
  unfold lenOf; split <;> mono_solve
@[partial_fixpoint_monotone] theorem mono_unop (d op a) : monotone (fun x => unop (f x) d op a) := by
  unfold unop; cases op <;> simp only [] <;> mono_solve
@[partial_fixpoint_monotone] theorem mono_rawSetChecked (d a k v) :
    monotone (fun x => rawSetChecked (f x) d a k v) := by
  unfold rawSetChecked; mono_solve
@[partial_fixpoint_monotone] theorem mono_evalTarget (c e) : monotone (fun x => evalTarget (f x) c e) := by
  unfold evalTarget; split <;> mono_solve
@[partial_fixpoint_monotone] theorem mono_assignTo (d p) : monotone (fun x => assignTo (f x) d p) := by
  unfold assignTo; split <;> mono_solve
@[partial_fixpoint_monotone] theorem mono_evalTarget' (c) : monotone (fun x => evalTarget (f x) c) := by
  apply monotone_of_monotone_apply; intro e; exact mono_evalTarget f h c e
@[partial_fixpoint_monotone] theorem mono_assignTo' (d) : monotone (fun x => assignTo (f x) d) := by
  apply monotone_of_monotone_apply; intro e; exact mono_assignTo f h d e
@[partial_fixpoint_monotone] theorem mono_closeVal (d v e) : monotone (fun x => closeVal (f x) d v e) := by
  unfold closeVal; mono_solve
@[partial_fixpoint_monotone] theorem mono_runBlock (c b) : monotone (fun x => runBlock (f x) c b) := by
  unfold runBlock; mono_solve
@[partial_fixpoint_monotone] theorem mono_coRun (co c first log) : monotone (fun x => coRun (f x) co c first log) := by
  unfold coRun; mono_solve
@[partial_fixpoint_monotone] theorem mono_resumeCo (co a) : monotone (fun x => resumeCo (f x) co a) := by
  unfold resumeCo; mono_solve
@[partial_fixpoint_monotone] theorem mono_closeCo (d co) : monotone (fun x => closeCo (f x) d co) := by
  unfold closeCo; mono_solve
@[partial_fixpoint_monotone] theorem mono_yieldCo (d vs) : monotone (fun x => yieldCo (f x) d vs) := by
  unfold yieldCo; mono_solve
@[partial_fixpoint_monotone] theorem mono_builtinCall (d b a) : monotone (fun x => builtinCall (f x) d b a) := by
  unfold builtinCall; cases b <;> simp only [] <;> mono_solve
end helpers

/-! ### the judgements -/

theorem mono_stepExprM (fo c e) : monotone (fun r => stepExprM fo r c e) := by
  unfold stepExprM; split <;> mono_solve
theorem mono_stepExprs (c es) : monotone (fun r => stepExprs r c es) := by
  unfold stepExprs; split <;> mono_solve
theorem mono_stepFields (c a i fs) : monotone (fun r => stepFields r c a i fs) := by
  unfold stepFields; split <;> mono_solve
theorem mono_stepStmt (c s) : monotone (fun r => stepStmt r c s) := by
  unfold stepStmt; split <;> mono_solve
theorem mono_stepStmts (c w t b l i) : monotone (fun r => stepStmts r c w t b l i) := by
  unfold stepStmts; split <;> mono_solve
theorem mono_stepCall (d f a) : monotone (fun r => stepCall r d f a) := by
  unfold stepCall; split <;> mono_solve
theorem mono_stepIndex (d v k) : monotone (fun r => stepIndex r d v k) := by
  unfold stepIndex; split <;> mono_solve
theorem mono_stepSetIndex (d t k v) : monotone (fun r => stepSetIndex r d t k v) := by
  unfold stepSetIndex; split <;> mono_solve
theorem mono_stepForin (c n f s ctl b) : monotone (fun r => stepForin r c n f s ctl b) := by
  unfold stepForin; mono_solve
theorem mono_stepFornumI (c v cur st cnt b) : monotone (fun r => stepFornumI r c v cur st cnt b) := by
  unfold stepFornumI; mono_solve
theorem mono_stepFornumF (fo c v cur lim st b) : monotone (fun r => stepFornumF fo r c v cur lim st b) := by
  unfold stepFornumF; mono_solve

/-- one unfolding of the evaluator is monotone: better-defined recursive judgements give
    better-defined results -/
theorem step_mono (fo : FloatOps) : monotone (step fo) := by
  intro a b hab
  exact {
    exprM := fun c e => mono_stepExprM fo c e a b hab
    exprs := fun c e => mono_stepExprs c e a b hab
    fields := fun c x i fs => mono_stepFields c x i fs a b hab
    stmt := fun c s => mono_stepStmt c s a b hab
    stmts := fun c w t x l i => mono_stepStmts c w t x l i a b hab
    call := fun d f x => mono_stepCall d f x a b hab
    index := fun d v k => mono_stepIndex d v k a b hab
    setindex := fun d t k v => mono_stepSetIndex d t k v a b hab
    forin := fun c n f s ctl x => mono_stepForin c n f s ctl x a b hab
    fornumI := fun c v cur st cnt x => mono_stepFornumI c v cur st cnt x a b hab
    fornumF := fun c v cur lim st x => mono_stepFornumF fo c v cur lim st x a b hab }

theorem bot_le (r : Rec) : Rec.bot ⊑ r := by
  exact {
    exprM := fun _ _ _ => FlatOrder.rel.bot
    exprs := fun _ _ _ => FlatOrder.rel.bot
    fields := fun _ _ _ _ _ => FlatOrder.rel.bot
    stmt := fun _ _ _ => FlatOrder.rel.bot
    stmts := fun _ _ _ _ _ _ _ => FlatOrder.rel.bot
    call := fun _ _ _ _ => FlatOrder.rel.bot
    index := fun _ _ _ _ => FlatOrder.rel.bot
    setindex := fun _ _ _ _ _ => FlatOrder.rel.bot
    forin := fun _ _ _ _ _ _ _ => FlatOrder.rel.bot
    fornumI := fun _ _ _ _ _ _ _ => FlatOrder.rel.bot
    fornumF := fun _ _ _ _ _ _ _ => FlatOrder.rel.bot }

theorem evalN_succ_le (fo : FloatOps) (n : Nat) : evalN fo n ⊑ evalN fo (n + 1) := by
  induction n with
  | zero => exact bot_le _
  | succ n ih => exact step_mono fo _ _ ih

theorem evalN_le (fo : FloatOps) {n m : Nat} (h : n ≤ m) : evalN fo n ⊑ evalN fo m := by
  induction h with
  | refl => exact PartialOrder.rel_refl
  | step _ ih => exact PartialOrder.rel_trans ih (evalN_succ_le fo _)

theorem flat_eq {α} {a b : Option α} (h : a ⊑ b) {v : α} (ha : a = some v) : b = some v := by
  cases h with
  | bot => cases ha
  | refl => exact ha

/-- on `M α`: `x ⊑ y` and `x` finished at state `s` means `y` finishes there with the same outcome -/
theorem M.eq_of_le {α} {x y : M α} (h : x ⊑ y) (s : Store) {res} (hx : x.run s = some res) :
    y.run s = some res := by
  exact flat_eq (h s) hx

end GoluaVerif.Spec.Lua
