/-
  Proofs.C18Owed — accounting of finalisations owed: every register entry whose epoch asked for
  finalisation and is flagged wrFinalized has either been handed to its finaliser, or is queued
  in pendingFinalize, or was thrown away at close time (`dropped`, the defect) or skipped on
  purpose when its context was popped.  Preserved by every pool operation.
-/
import GoluaVerif.Proofs.C18Rel
namespace GoluaVerif.Proofs.C18
open GoluaVerif.Spec.Gc GoluaVerif.Model.ClonePool GoluaVerif.Model.GcRuntime GoluaVerif.Model

theorem skipOrders_append (a b : List TEv) : skipOrders (a ++ b) = skipOrders a ++ skipOrders b := by
  induction a with
  | nil => rfl
  | cons e t ih => cases e <;> simp [skipOrders, ih]

theorem markOrders_append (a b : List TEv) : markOrders (a ++ b) = markOrders a ++ markOrders b := by
  induction a with
  | nil => rfl
  | cons e t ih => cases e <;> simp [markOrders, ih]

theorem skipOrders_skipEvs (l : List Entry) : skipOrders (skipEvs l) = ords l := by
  induction l with
  | nil => rfl
  | cons e t ih => simp_all [skipEvs, skipOrders, ords]

theorem wantsFin_append (a b : List TEv) (n : Nat) : wantsFin (a ++ b) n = (wantsFin a n || wantsFin b n) := by
  unfold wantsFin; rw [List.any_append]

theorem wantsFin_of_not_mark {tr : List TEv} {n : Nat} (h : n ∉ markOrders tr) : wantsFin tr n = false := by
  induction tr with
  | nil => rfl
  | cons e t ih =>
    cases e with
    | mark k m f r =>
      simp only [markOrders, List.mem_cons, not_or] at h
      have := ih h.2
      unfold wantsFin at this ⊢
      simp only [List.any_cons, this, Bool.or_false, Bool.and_eq_false_imp, beq_iff_eq]
      intro hmn; exact absurd hmn.symm h.1
    | unmark _ => exact (by unfold wantsFin at *; simpa [markOrders] using ih (by simpa [markOrders] using h))
    | fired _ => exact (by unfold wantsFin at *; simpa [markOrders] using ih (by simpa [markOrders] using h))
    | fin _ _ _ => exact (by unfold wantsFin at *; simpa [markOrders] using ih (by simpa [markOrders] using h))
    | rel _ _ _ => exact (by unfold wantsFin at *; simpa [markOrders] using ih (by simpa [markOrders] using h))
    | skip _ _ => exact (by unfold wantsFin at *; simpa [markOrders] using ih (by simpa [markOrders] using h))

/-- accounted for: handed to its finaliser already, or queued in pendingFinalize -/
def Accounted (p : Pool) (n : Nat) : Prop :=
  n ∈ finOrders p.tr ∨ n ∈ ords p.pf

structure InvO (p : Pool) : Prop where
  markLe : ∀ n ∈ markOrders p.tr, n ≤ p.last
  markAsc : (markOrders p.tr).Pairwise (fun a b => a < b)
  regKeys : (regL p).Pairwise (fun a b => a.val.key ≠ b.val.key)
  owed : ∀ e ∈ regL p, e.fin = true → wantsFin p.tr e.order = true → Accounted p e.order

theorem InvO.init (pid : Nat) : InvO { pid := pid } :=
  ⟨by simp [markOrders], by simp [markOrders], by simp [regL], by simp [regL]⟩

/-- a step that keeps every accounted epoch accounted -/
theorem Accounted.mono {p q : Pool} {n : Nat} (h : Accounted p n)
    (hf : ∀ m ∈ finOrders p.tr, m ∈ finOrders q.tr) (hp : ∀ m ∈ ords p.pf, m ∈ ords q.pf ∨ m ∈ finOrders q.tr) :
    Accounted q n := by
  rcases h with h | h
  · exact Or.inl (hf n h)
  · rcases hp n h with h | h
    · exact Or.inr h
    · exact Or.inl h

theorem wantsFin_ext {tr ext : List TEv} (h : markOrders ext = []) (n : Nat) :
    wantsFin (tr ++ ext) n = wantsFin tr n := by
  rw [wantsFin_append, wantsFin_of_not_mark (tr := ext) (by simp [h]), Bool.or_false]

/-- generic step: same or smaller register (entries unchanged), trace extended by events that are
neither marks, and every queued/finalised/dropped/skipped epoch stays accounted for -/
theorem InvO.of_ext {p q : Pool} (h : InvO p) {ext : List TEv}
    (htr : q.tr = p.tr ++ ext) (hm : markOrders ext = []) (hlast : p.last ≤ q.last)
    (hreg : (regL q).Sublist (regL p))
    (hpf : ∀ m ∈ ords p.pf, m ∈ ords q.pf ∨ m ∈ finOrders q.tr) :
    InvO q := by
  refine ⟨?_, ?_, h.regKeys.sublist hreg, ?_⟩
  · intro n hn
    rw [htr, markOrders_append, hm, List.append_nil] at hn
    exact Nat.le_trans (h.markLe n hn) hlast
  · rw [htr, markOrders_append, hm, List.append_nil]; exact h.markAsc
  · intro e he hf hw
    rw [htr, wantsFin_ext hm] at hw
    refine (h.owed e (hreg.subset he) hf hw).mono ?_ hpf
    intro m hm'; rw [htr, finOrders_append]; exact List.mem_append_left _ hm'

theorem keys_inj {l : List Entry} (h : l.Pairwise (fun a b => a.val.key ≠ b.val.key)) {x y : Entry}
    (hx : x ∈ l) (hy : y ∈ l) (hxy : x.val.key = y.val.key) : x = y := by
  induction l with
  | nil => cases hx
  | cons a t ih =>
    have hc := List.pairwise_cons.mp h
    rcases List.mem_cons.mp hx with hxa | hxt <;> rcases List.mem_cons.mp hy with hya | hyt
    · rw [hxa, hya]
    · exact absurd (hxa ▸ hxy) (hc.1 y hyt)
    · exact absurd (hya ▸ hxy.symm) (hc.1 x hxt)
    · exact ih hc.2 hxt hyt

theorem InvO.mark {p : Pool} (hi : Inv p) (h : InvO p) (o : Obj) (f r : Bool) : InvO (ClonePool.mark p o f r) := by
  unfold ClonePool.mark
  split
  · split
    · exact h
    · rename_i rg hreg
      split
      · exact h
      · refine h.of_ext (ext := [TEv.unmark o.key]) rfl rfl (Nat.le_refl _) ?_ (fun m hm => Or.inl hm)
        show (regErase rg o.key).Sublist (regL p)
        rw [regL_of_some hreg]; exact List.filter_sublist
  · split
    · rename_i hreg
      refine ⟨?_, by simpa using h.markAsc, by simp [regL, hreg], by simp [regL, hreg]⟩
      intro n hn
      have := h.markLe n (by simpa using hn)
      show n ≤ p.last + 1; omega
    · rename_i rg hreg
      have hr : regL p = rg := regL_of_some hreg
      generalize hp1 : (if (regLookup rg o.key).isNone = true then registerNew p o else p) = p1
      have hc : p1.pf = p.pf ∧ p1.tr = p.tr := by rw [← hp1]; split <;> simp
      obtain ⟨hpf, htr⟩ := hc
      refine ⟨?_, ?_, ?_, ?_⟩
      · intro n hn
        show n ≤ p.last + 1
        rw [show ({ p1 with last := p.last + 1, reg := _, tr := p1.tr ++ [TEv.mark o.key (p.last + 1) f r] } : Pool).tr = p1.tr ++ [TEv.mark o.key (p.last + 1) f r] from rfl,
          htr, markOrders_append] at hn
        rcases List.mem_append.mp hn with hn | hn
        · have := h.markLe n hn; omega
        · simp [markOrders] at hn; omega
      · show (markOrders (p1.tr ++ [TEv.mark o.key (p.last + 1) f r])).Pairwise _
        rw [htr, markOrders_append, List.pairwise_append]
        refine ⟨h.markAsc, by simp [markOrders], ?_⟩
        intro a ha b hb
        have := h.markLe a ha
        simp [markOrders] at hb
        omega
      · show (regErase rg o.key ++ [_]).Pairwise _
        rw [List.pairwise_append]
        refine ⟨(hr ▸ h.regKeys).sublist List.filter_sublist, List.pairwise_singleton _ _, ?_⟩
        intro a ha b hb
        rw [List.mem_singleton.mp hb]
        exact (mem_regErase ha).2
      · intro e he hf hw
        rw [show ({ p1 with last := p.last + 1, reg := _, tr := p1.tr ++ [TEv.mark o.key (p.last + 1) f r] } : Pool).tr = p1.tr ++ [TEv.mark o.key (p.last + 1) f r] from rfl,
          htr, wantsFin_append] at hw
        have hnew : ∀ m, wantsFin [TEv.mark o.key (p.last + 1) f r] m = (p.last + 1 == m && f) := by
          intro m; simp [wantsFin]
        rcases List.mem_append.mp (show e ∈ regErase rg o.key ++ [_] from he) with he | he
        · have hep : e ∈ regL p := hr ▸ (mem_regErase he).1
          have hle := hi.regLe e hep
          have hw' : wantsFin p.tr e.order = true := by
            rw [hnew] at hw
            have : (p.last + 1 == e.order) = false := by simp; omega
            simpa [this] using hw
          have hacc := h.owed e hep hf hw'
          refine hacc.mono ?_ ?_
          · intro m hm; show m ∈ finOrders (p1.tr ++ [_]); rw [htr, finOrders_append]; exact List.mem_append_left _ hm
          · intro m hm; left; show m ∈ ords p1.pf; rw [hpf]; exact hm
        · -- the new entry: flagged only if finalisation was NOT asked for
          rw [List.mem_singleton.mp he] at hf hw
          simp only [Bool.not_eq_true'] at hf
          have hfresh : wantsFin p.tr (p.last + 1) = false := by
            apply wantsFin_of_not_mark
            intro hm; have := h.markLe _ hm; omega
          rw [hfresh, hnew, hf] at hw
          simp at hw


theorem setFin_keys {rg : List Entry} (k : Nat) (h : rg.Pairwise (fun a b => a.val.key ≠ b.val.key)) :
    (setFin rg k).Pairwise (fun a b => a.val.key ≠ b.val.key) := by
  unfold setFin
  rw [List.pairwise_map]
  refine h.imp ?_
  intro a b hab
  split <;> split <;> exact hab

theorem setFinAll_keys {rg : List Entry} (h : rg.Pairwise (fun a b => a.val.key ≠ b.val.key)) :
    (setFinAll rg).Pairwise (fun a b => a.val.key ≠ b.val.key) := by
  unfold setFinAll
  rw [List.pairwise_map]
  exact h

theorem InvO.fire {p : Pool} (_hi : Inv p) (h : InvO p) (o : Obj) : InvO (ClonePool.fire p o) := by
  unfold ClonePool.fire
  split
  · exact h
  · split
    · exact h.of_ext (ext := [TEv.fired o]) rfl rfl (Nat.le_refl _) (List.Sublist.refl _) (fun m hm => Or.inl hm)
    · rename_i rg hreg
      have hr : regL p = rg := regL_of_some hreg
      split
      · exact h.of_ext (ext := [TEv.fired o]) rfl rfl (Nat.le_refl _) (List.Sublist.refl _) (fun m hm => Or.inl hm)
      · rename_i e hlook
        obtain ⟨hemem, hekey⟩ := regLookup_mem hlook
        split
        · refine ⟨?_, ?_, setFin_keys _ (hr ▸ h.regKeys), ?_⟩
          · intro n hn
            have : n ∈ markOrders p.tr := by
              have h' : n ∈ markOrders (p.tr ++ [TEv.fired o]) := hn
              rwa [markOrders_append, show markOrders [TEv.fired o] = [] from rfl, List.append_nil] at h'
            exact h.markLe n this
          · show (markOrders (p.tr ++ [TEv.fired o])).Pairwise _
            rw [markOrders_append, show markOrders [TEv.fired o] = [] from rfl, List.append_nil]; exact h.markAsc
          · intro x hx hxf hw
            have hw' : wantsFin p.tr x.order = true := by
              have h' : wantsFin (p.tr ++ [TEv.fired o]) x.order = true := hw
              rwa [wantsFin_ext (show markOrders [TEv.fired o] = [] from rfl)] at h'
            have hx' : x ∈ setFin rg o.key := hx
            unfold setFin at hx'
            obtain ⟨y, hy, hxy⟩ := List.mem_map.mp hx'
            by_cases hk : y.val.key = o.key
            · -- this is the entry being queued
              have hye : y = e := keys_inj (hr ▸ h.regKeys) hy hemem (hk.trans hekey.symm)
              right
              show x.order ∈ ords (p.pf ++ [e])
              have : x.order = e.order := by rw [← hxy, hye]; split <;> rfl
              rw [this]; unfold ords; simp
            · have hxy' : x = y := by rw [← hxy]; simp [hk]
              rw [hxy'] at hxf hw' ⊢
              refine (h.owed y (hr ▸ hy) hxf hw').mono ?_ ?_
              · intro m hm; show m ∈ finOrders (p.tr ++ [TEv.fired o]); rw [finOrders_append]; exact List.mem_append_left _ hm
              · intro m hm; left; show m ∈ ords (p.pf ++ [e]); unfold ords at hm ⊢; rw [List.map_append]; exact List.mem_append_left _ hm
        · refine h.of_ext (ext := [TEv.fired o]) rfl rfl (Nat.le_refl _) ?_ (fun m hm => Or.inl hm)
          show (regErase rg o.key).Sublist (regL p)
          rw [hr]; exact List.filter_sublist

theorem InvO.xPF {p : Pool} (h : InvO p) : InvO (ClonePool.xPF p) := by
  obtain ⟨h1, h2, _⟩ := xPF_tr p
  have hreg : (ClonePool.xPF p).reg = p.reg ∧ (ClonePool.xPF p).last = p.last := by
    unfold ClonePool.xPF
    obtain ⟨a, b, _⟩ := foldl_register_core p.pf { p with pf := [] }
    exact ⟨a, b⟩
  refine h.of_ext h1 ?_ (Nat.le_of_eq hreg.2.symm) ?_ ?_
  · induction (sortDesc p.pf) with
    | nil => rfl
    | cons e t ih => simpa [finEvs, markOrders] using ih
  · unfold regL; rw [hreg.1]; exact List.Sublist.refl _
  · intro m hm
    right
    rw [h1, finOrders_append, finOrders_finEvs]
    exact List.mem_append_right _ (mem_ords_sortDesc.mpr hm)

theorem markOrders_relEvs (k : Kind) (l : List Entry) : markOrders (relEvs k l) = [] := by
  induction l with
  | nil => rfl
  | cons e t ih => simpa [relEvs, markOrders] using ih

theorem markOrders_finEvs (k : Kind) (l : List Entry) : markOrders (finEvs k l) = [] := by
  induction l with
  | nil => rfl
  | cons e t ih => simpa [finEvs, markOrders] using ih

theorem markOrders_skipEvs (l : List Entry) : markOrders (skipEvs l) = [] := by
  induction l with
  | nil => rfl
  | cons e t ih => simpa [skipEvs, markOrders] using ih

theorem InvO.xPR {p : Pool} (h : InvO p) : InvO (ClonePool.xPR p) :=
  h.of_ext (ext := relEvs .pr (sortDesc p.pr)) rfl (markOrders_relEvs _ _) (Nat.le_refl _) (List.Sublist.refl _)
    (fun _ hm => Or.inl hm)

theorem InvO.xAR {p : Pool} (h : InvO p) : InvO (ClonePool.xAR p) :=
  h.of_ext (ext := relEvs .ar (arOut p)) rfl (markOrders_relEvs _ _) (Nat.le_refl _) (List.nil_sublist _)
    (fun _ hm => Or.inl hm)

/-- `ExtractAllMarkedFinalize` with its results run: everything queued and everything still owed is
handed out -/
theorem InvO.xAF {p : Pool} (h : InvO p) : InvO (ClonePool.xAF p) := by
  have htr : (ClonePool.xAF p).tr = p.tr ++ finEvs .af (afOut p) := rfl
  have hm : markOrders (finEvs Kind.af (afOut p)) = [] := markOrders_finEvs _ _
  have hrl : regL (ClonePool.xAF p) = setFinAll (regL p) := regL_afState p
  refine ⟨?_, ?_, ?_, ?_⟩
  · intro n hn
    rw [htr, markOrders_append, hm, List.append_nil] at hn
    exact h.markLe n hn
  · rw [htr, markOrders_append, hm, List.append_nil]; exact h.markAsc
  · rw [hrl]; exact setFinAll_keys h.regKeys
  · intro x hx _ hw
    rw [hrl] at hx
    unfold setFinAll at hx
    obtain ⟨y, hy, hxy⟩ := List.mem_map.mp hx
    have hxo : x.order = y.order := by rw [← hxy]
    have hw' : wantsFin p.tr y.order = true := by
      rw [htr, wantsFin_ext hm, hxo] at hw; exact hw
    rw [hxo]
    left
    rw [htr, finOrders_append, finOrders_finEvs, afOut_eq]
    by_cases hyf : y.fin = false
    · exact List.mem_append_right _ (mem_ords_sortDesc.mpr (mem_ords.mpr
        ⟨y, List.mem_append_right _ (List.mem_filter.mpr ⟨hy, by simpa using hyf⟩), rfl⟩))
    · have hyt : y.fin = true := by simpa using hyf
      rcases h.owed y hy hyt hw' with h1 | h1
      · exact List.mem_append_left _ h1
      · obtain ⟨e, he, heo⟩ := mem_ords.mp h1
        exact List.mem_append_right _ (mem_ords_sortDesc.mpr (mem_ords.mpr ⟨e, List.mem_append_left _ he, heo⟩))

/-- `PopContext`: the register is gone afterwards, nothing is owed any more -/
theorem InvO.popRel {p : Pool} (h : InvO p) : InvO (ClonePool.xAR (ClonePool.skipAF p)) := by
  have htr : (ClonePool.xAR (ClonePool.skipAF p)).tr =
      p.tr ++ (skipEvs (afOut p) ++ relEvs .ar (arOut (ClonePool.skipAF p))) := by
    simp [ClonePool.xAR, ClonePool.skipAF, afState, List.append_assoc]
  have hm : markOrders (skipEvs (afOut p) ++ relEvs .ar (arOut (ClonePool.skipAF p))) = [] := by
    rw [markOrders_append, markOrders_skipEvs, markOrders_relEvs]; rfl
  have hrl : regL (ClonePool.xAR (ClonePool.skipAF p)) = [] := rfl
  refine ⟨?_, ?_, ?_, ?_⟩
  · intro n hn
    rw [htr, markOrders_append, hm, List.append_nil] at hn
    exact h.markLe n hn
  · rw [htr, markOrders_append, hm, List.append_nil]; exact h.markAsc
  · rw [hrl]; exact List.Pairwise.nil
  · intro x hx; rw [hrl] at hx; cases hx

/-- both invariants together -/
structure InvAll (p : Pool) : Prop where
  inv : Inv p
  owed : InvO p

theorem InvAll.init (pid : Nat) : InvAll { pid := pid } := ⟨Inv.init pid, InvO.init pid⟩

theorem InvAll.use {p : Pool} (h : InvAll p) (u : Use) : InvAll (ClonePool.use p u) := by
  refine ⟨h.inv.use u, ?_⟩
  by_cases hfat : p.fatal = false
  case neg =>
    have : ClonePool.use p u = p := by unfold ClonePool.use; simp at hfat; simp [hfat]
    rw [this]; exact h.owed
  rw [use_of_not_fatal hfat]
  cases u with
  | mark o f r => exact h.owed.mark h.inv o f r
  | fire o => exact h.owed.fire h.inv o
  | xPF => exact h.owed.xPF
  | xPR => exact h.owed.xPR
  | xAF => exact h.owed.xAF
  | xAR => exact h.owed.xAR
  | step => exact h.owed.xPF.xPR
  | finAll => exact h.owed.xAF
  | popRel => exact h.owed.popRel

theorem InvAll.foldl {p : Pool} (h : InvAll p) (us : List Use) : InvAll (us.foldl ClonePool.use p) := by
  induction us generalizing p with
  | nil => exact h
  | cons u t ih => exact ih (h.use u)

theorem InvAll.run (us : List Use) : InvAll (ClonePool.run us) := (InvAll.init 0).foldl us

theorem rt_invAll (es : List REv) : ∀ p ∈ (GcRuntime.run es).pools, InvAll p :=
  AllPools.run (P := InvAll) InvAll.init (fun _ u _ hi => hi.use u)
    (fun p o hi => ⟨Inv.congr (p := p) (q := clearFinalizer p o) rfl rfl rfl rfl rfl hi.inv,
      ⟨hi.owed.markLe, hi.owed.markAsc, hi.owed.regKeys, hi.owed.owed⟩⟩) es

end GoluaVerif.Proofs.C18
