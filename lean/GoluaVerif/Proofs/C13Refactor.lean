/-
  Proofs.C13Refactor — RefactorCodeConsts preserves what every opcode loads.
-/
import GoluaVerif.Model.Refactor
import GoluaVerif.Proofs.OpcodeFields
namespace GoluaVerif.Model.Refactor
open GoluaVerif GoluaVerif.Generated.Opcode GoluaVerif.Proofs.OpcodeBits GoluaVerif.Proofs.OpcodeFields
open GoluaVerif.Model.Marshal (Const Bytes)

theorem getK_setK (c : BitVec 32) (k : BitVec 16) : Opcode.GetKIndex (Opcode.SetKIndex c k) = k := by
  apply BitVec.eq_of_getLsbD_eq
  intro i hi
  simp only [Opcode.GetKIndex, Id.run, pure, BitVec.truncate_eq_setWidth, BitVec.getLsbD_setWidth]
  rw [setKIndex_eq, set_low16_bits]
  simp [hi]

theorem setK_high (c : BitVec 32) (k : BitVec 16) (j : Nat) (hj : 16 ≤ j) :
    (Opcode.SetKIndex c k).getLsbD j = c.getLsbD j := by
  rw [setKIndex_eq, set_low16_bits]
  have : ¬ j < 16 := by omega
  simp [this]

/-- `constMap` and the kept constants agree: entry (n, m) means kept constant m is the refactored unit constant n -/
def MapOK (rec : Proto → Except Err Const) (unit : List UConst) (map : KMap) (acc : List Const) : Prop :=
  ∀ n m, map.lookup n = some m → ∃ k v, unit[n.toNat]? = some k ∧ conv rec k = .ok v ∧ acc[m.toNat]? = some v

/-- what the loop guarantees for the opcode at position i -/
def OpOK (rec : Proto → Except Err Const) (unit : List UConst) (acc' : List Const) (op op' : BitVec 32) : Prop :=
  (loadsK op = false → op' = op) ∧
  (loadsK op = true → (∀ j, 16 ≤ j → op'.getLsbD j = op.getLsbD j) ∧
    ∃ k v, unit[(Opcode.GetKIndex op).toNat]? = some k ∧ conv rec k = .ok v ∧
      acc'[(Opcode.GetKIndex op').toNat]? = some v)

theorem getElem?_append_some {α} (l ext : List α) (i : Nat) (v : α) (h : l[i]? = some v) : (l ++ ext)[i]? = some v := by
  have hi : i < l.length := by
    by_cases hc : i < l.length
    · exact hc
    · have : l[i]? = none := List.getElem?_eq_none (by omega)
      rw [this] at h; exact absurd h (by simp)
  rw [List.getElem?_append_left hi]; exact h

theorem refactorOps_spec (rec : Proto → Except Err Const) (unit : List UConst) :
    ∀ (ops : List (BitVec 32)) (map : KMap) (acc : List Const) (ops' : List (BitVec 32)) (acc' : List Const),
    refactorOps rec unit ops map acc = .ok (ops', acc') → MapOK rec unit map acc →
    (∃ ext, acc' = acc ++ ext) ∧ ops'.length = ops.length ∧
    ∀ (i : Nat) (op : BitVec 32), ops[i]? = some op → ∃ op', ops'[i]? = some op' ∧ OpOK rec unit acc' op op' := by
  intro ops
  induction ops with
  | nil =>
    intro map acc ops' acc' h _
    simp only [refactorOps, Except.ok.injEq, Prod.mk.injEq] at h
    rw [← h.1, ← h.2]
    exact ⟨⟨[], by simp⟩, rfl, by intro i op hi; simp at hi⟩
  | cons op ops ih =>
    intro map acc ops' acc' h hm
    unfold refactorOps at h
    by_cases hl : loadsK op = true
    · simp only [hl, if_true] at h
      cases hlk : map.lookup (Opcode.GetKIndex op) with
      | some m =>
        simp only [hlk] at h
        split at h
        · exact absurd h (by simp)
        · rename_i ops1 acc1 hr
          simp only [Except.ok.injEq, Prod.mk.injEq] at h
          obtain ⟨⟨ext, hext⟩, hlen, hall⟩ := ih map acc ops1 acc1 hr hm
          rw [← h.1, ← h.2]
          refine ⟨⟨ext, hext⟩, by simp [hlen], ?_⟩
          intro i op0 hi
          cases i with
          | zero =>
            simp only [List.getElem?_cons_zero, Option.some.injEq] at hi
            subst hi
            refine ⟨_, rfl, ?_, ?_⟩
            · intro hf; rw [hl] at hf; exact absurd hf (by simp)
            · intro _
              refine ⟨fun j hj => setK_high _ _ j hj, ?_⟩
              obtain ⟨k, v, h1, h2, h3⟩ := hm _ _ hlk
              exact ⟨k, v, h1, h2, by rw [getK_setK, hext]; exact getElem?_append_some _ _ _ _ h3⟩
          | succ i =>
            simp only [List.getElem?_cons_succ] at hi ⊢
            exact hall i op0 hi
      | none =>
        simp only [hlk] at h
        split at h
        · exact absurd h (by simp)
        · rename_i hlen65
          split at h
          · exact absurd h (by simp)
          · rename_i k hk
            split at h
            · exact absurd h (by simp)
            · split at h
              · exact absurd h (by simp)
              · rename_i v hv
                split at h
                · exact absurd h (by simp)
                · rename_i ops1 acc1 hr
                  simp only [Except.ok.injEq, Prod.mk.injEq] at h
                  have hmtoNat : (BitVec.ofNat 16 acc.length).toNat = acc.length := by
                    simp; omega
                  have hm' : MapOK rec unit ((Opcode.GetKIndex op, BitVec.ofNat 16 acc.length) :: map) (acc ++ [v]) := by
                    intro n m hnm
                    simp only [List.lookup_cons] at hnm
                    by_cases hn : n = Opcode.GetKIndex op
                    · subst hn
                      simp only [beq_self_eq_true] at hnm
                      injection hnm with hnm
                      subst hnm
                      exact ⟨k, v, hk, hv, by rw [hmtoNat]; simp⟩
                    · have : (n == Opcode.GetKIndex op) = false := by simpa using hn
                      simp only [this] at hnm
                      obtain ⟨k', v', h1, h2, h3⟩ := hm n m hnm
                      exact ⟨k', v', h1, h2, getElem?_append_some _ _ _ _ h3⟩
                  obtain ⟨⟨ext, hext⟩, hlen, hall⟩ := ih _ _ ops1 acc1 hr hm'
                  rw [← h.1, ← h.2]
                  refine ⟨⟨[v] ++ ext, by rw [hext]; simp⟩, by simp [hlen], ?_⟩
                  intro i op0 hi
                  cases i with
                  | zero =>
                    simp only [List.getElem?_cons_zero, Option.some.injEq] at hi
                    subst hi
                    refine ⟨_, rfl, ?_, ?_⟩
                    · intro hf; rw [hl] at hf; exact absurd hf (by simp)
                    · intro _
                      refine ⟨fun j hj => setK_high _ _ j hj, k, v, hk, hv, ?_⟩
                      rw [getK_setK, hmtoNat, hext]
                      exact getElem?_append_some _ _ _ _ (by simp)
                  | succ i =>
                    simp only [List.getElem?_cons_succ] at hi ⊢
                    exact hall i op0 hi
    · have hl' : loadsK op = false := by simpa using hl
      simp only [hl', Bool.false_eq_true, if_false] at h
      split at h
      · exact absurd h (by simp)
      · rename_i ops1 acc1 hr
        simp only [Except.ok.injEq, Prod.mk.injEq] at h
        obtain ⟨hext, hlen, hall⟩ := ih map acc ops1 acc1 hr hm
        rw [← h.1, ← h.2]
        refine ⟨hext, by simp [hlen], ?_⟩
        intro i op0 hi
        cases i with
        | zero =>
          simp only [List.getElem?_cons_zero, Option.some.injEq] at hi
          subst hi
          exact ⟨_, rfl, fun _ => rfl, fun hf => by rw [hl'] at hf; exact absurd hf (by simp)⟩
        | succ i =>
          simp only [List.getElem?_cons_succ] at hi ⊢
          exact hall i op0 hi

end GoluaVerif.Model.Refactor
