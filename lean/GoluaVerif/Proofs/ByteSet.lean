/-
  Proofs.ByteSet — lemmas about Model.ByteSet (256-bit sets as four 64-bit words):
  `contains` is "bit (b mod 64) of word (b div 64)", and add / merge / complement /
  byteRange act on it as set insertion / union / complement / interval.
-/
import GoluaVerif.Model.ByteSet
namespace GoluaVerif.Model.ByteSet

/-- word index of a byte: 0..3 -/
def wi (b : UInt8) : Nat := b.toNat / 64
/-- bit index of a byte: 0..63 -/
def bi (b : UInt8) : Nat := b.toNat % 64

theorem shr6_toNat (b : UInt8) : (b >>> 6).toNat = b.toNat / 64 := by
  rw [UInt8.toNat_shiftRight]
  simp [Nat.shiftRight_eq_div_pow]

theorem and63_toNat (b : UInt8) : (b &&& 0x3F).toNat = b.toNat % 64 := by
  rw [UInt8.toNat_and]
  exact Nat.and_two_pow_sub_one_eq_mod b.toNat 6

theorem u8_beq (x y : UInt8) : (x == y) = decide (x.toNat = y.toNat) := by
  by_cases h : x = y
  · subst h; simp
  · have : x.toNat ≠ y.toNat := fun e => h (UInt8.toNat_inj.mp e)
    simp [h, this]

theorem shr6_beq (b : UInt8) (k : UInt8) : ((b >>> 6) == k) = decide (b.toNat / 64 = k.toNat) := by
  rw [u8_beq, shr6_toNat]

/-- the word selected by `word` in terms of the numeric word index -/
def wordN (s : ByteSet) (i : Nat) : BitVec 64 :=
  if i = 0 then s.w0 else if i = 1 then s.w1 else if i = 2 then s.w2 else s.w3

theorem word_eq (s : ByteSet) (b : UInt8) : s.word (b >>> 6) = s.wordN (wi b) := by
  have h := shr6_toNat b
  have hlt : b.toNat < 256 := b.toNat_lt
  unfold word wordN wi
  have e0 : ((b >>> 6) == 0) = decide (b.toNat / 64 = 0) := shr6_beq b 0
  have e1 : ((b >>> 6) == 1) = decide (b.toNat / 64 = 1) := shr6_beq b 1
  have e2 : ((b >>> 6) == 2) = decide (b.toNat / 64 = 2) := shr6_beq b 2
  simp only [e0, e1, e2, decide_eq_true_eq]

theorem shr_and_one (w : BitVec 64) (k : Nat) : (((w >>> k) &&& 1#64) != 0#64) = w.getLsbD k := by
  rw [BitVec.and_one_eq_setWidth_ofBool_getLsbD]
  simp
  cases w.getLsbD k <;> decide

/-- `contains` reads bit `bi b` of word `wi b` -/
theorem contains_eq (s : ByteSet) (b : UInt8) : s.contains b = (s.wordN (wi b)).getLsbD (bi b) := by
  unfold contains
  rw [shr_and_one, word_eq, and63_toNat]
  rfl

theorem wordN_setWord (s : ByteSet) (b : UInt8) (v : BitVec 64) (j : Nat) (hj : j < 4) :
    (s.setWord (b >>> 6) v).wordN j = if j = wi b then v else s.wordN j := by
  have h := shr6_toNat b
  have hlt : b.toNat < 256 := b.toNat_lt
  have e0 : ((b >>> 6) == 0) = decide (b.toNat / 64 = 0) := shr6_beq b 0
  have e1 : ((b >>> 6) == 1) = decide (b.toNat / 64 = 1) := shr6_beq b 1
  have e2 : ((b >>> 6) == 2) = decide (b.toNat / 64 = 2) := shr6_beq b 2
  have hw : b.toNat / 64 = 0 ∨ b.toNat / 64 = 1 ∨ b.toNat / 64 = 2 ∨ b.toNat / 64 = 3 := by omega
  have hj' : j = 0 ∨ j = 1 ∨ j = 2 ∨ j = 3 := by omega
  unfold setWord wordN wi
  simp only [e0, e1, e2]
  rcases hw with c | c | c | c <;> rcases hj' with d | d | d | d <;> subst d <;> simp [c]

theorem wi_lt (b : UInt8) : wi b < 4 := by
  have : b.toNat < 256 := b.toNat_lt
  unfold wi; omega

theorem bi_lt (b : UInt8) : bi b < 64 := by unfold bi; omega

theorem eq_of_wi_bi {b c : UInt8} (h1 : wi b = wi c) (h2 : bi b = bi c) : b = c := by
  apply UInt8.toNat_inj.mp
  unfold wi bi at *
  omega

/-- `add` inserts -/
theorem contains_add (s : ByteSet) (b c : UInt8) : (s.add b).contains c = (s.contains c || c == b) := by
  rw [contains_eq, contains_eq]
  unfold add
  rw [wordN_setWord _ _ _ _ (wi_lt c), word_eq, and63_toNat]
  by_cases hw : wi c = wi b
  · simp only [hw, if_true]
    rw [BitVec.getLsbD_or, BitVec.getLsbD_shiftLeft, BitVec.getLsbD_one]
    have hb := bi_lt b
    have hc := bi_lt c
    by_cases hbit : bi c = bi b
    · have : c = b := eq_of_wi_bi hw hbit
      subst this
      have h1 : ¬ (bi c < c.toNat % 64) := by unfold bi; omega
      have h2 : bi c - c.toNat % 64 = 0 := by unfold bi; omega
      simp [h1, h2, hc]
    · have hne : c ≠ b := fun h => hbit (by rw [h])
      have : (c == b) = false := by simp [hne]
      rw [this]
      simp only [Bool.or_false]
      by_cases hlt : bi c < b.toNat % 64
      · simp [hlt]
      · have : ¬ (bi c - b.toNat % 64 = 0) := by unfold bi at *; omega
        simp [this]
  · have hne : c ≠ b := fun h => hw (by rw [h])
    have : (c == b) = false := by simp [hne]
    simp [hw, this]

theorem contains_empty (c : UInt8) : empty.contains c = false := by
  rw [contains_eq]
  unfold empty wordN
  split <;> (try split) <;> (try split) <;> simp

/-- `merge` is union -/
theorem contains_merge (s t : ByteSet) (c : UInt8) : (s.merge t).contains c = (s.contains c || t.contains c) := by
  simp only [contains_eq]
  unfold merge wordN
  split <;> (try split) <;> (try split) <;> simp [BitVec.getLsbD_or]

/-- `complement` is complement -/
theorem contains_complement (s : ByteSet) (c : UInt8) : s.complement.contains c = !s.contains c := by
  simp only [contains_eq]
  have hc := bi_lt c
  unfold complement wordN full64
  have hones : (18446744073709551615#64).getLsbD (bi c) = true := by
    have e : (18446744073709551615#64) = BitVec.allOnes 64 := by decide
    rw [e, BitVec.getLsbD_allOnes]; simp [hc]
  split <;> (try split) <;> (try split) <;> simp [BitVec.getLsbD_xor, hones]

theorem and_decide_false {p q : Prop} [Decidable p] [Decidable q] (h : ¬ (p ∧ q)) :
    (decide p && decide q) = false := by
  by_cases hp : p <;> by_cases hq : q <;> simp [hp, hq]
  exact h ⟨hp, hq⟩

theorem rangeLoop_contains (b : UInt8) (fuel : Nat) (i : UInt8) (s : ByteSet) (c : UInt8)
    (hf : b.toNat - i.toNat ≤ fuel) :
    (rangeLoop b fuel i s).contains c = (s.contains c || (decide (i ≤ c) && decide (c < b))) := by
  induction fuel generalizing i s with
  | zero =>
    have hb : b.toNat ≤ i.toNat := by omega
    unfold rangeLoop
    have : ¬ (i ≤ c ∧ c < b) := by
      rw [UInt8.le_iff_toNat_le, UInt8.lt_iff_toNat_lt]; omega
    rw [and_decide_false this]; simp
  | succ n ih =>
    unfold rangeLoop
    by_cases hlt : i < b
    · simp only [hlt, if_true]
      have hlt' : i.toNat < b.toNat := UInt8.lt_iff_toNat_lt.mp hlt
      have hb : b.toNat < 256 := b.toNat_lt
      have hi1 : (i + 1).toNat = i.toNat + 1 := by
        have : (i + 1).toNat = (i.toNat + 1) % 256 := by rw [UInt8.toNat_add]; rfl
        rw [this]; exact Nat.mod_eq_of_lt (by omega)
      rw [ih (i + 1) (s.add i) (by rw [hi1]; omega), contains_add]
      have e1 : (i + 1 ≤ c) = (i.toNat + 1 ≤ c.toNat) := by rw [UInt8.le_iff_toNat_le, hi1]
      have e2 : (i ≤ c) = (i.toNat ≤ c.toNat) := by rw [UInt8.le_iff_toNat_le]
      have e3 : (c < b) = (c.toNat < b.toNat) := by rw [UInt8.lt_iff_toNat_lt]
      have e4 : (c == i) = decide (c.toNat = i.toNat) := u8_beq c i
      simp only [e1, e2, e3, e4]
      by_cases x : i.toNat + 1 ≤ c.toNat <;> by_cases y : c.toNat < b.toNat <;> by_cases z : c.toNat = i.toNat <;>
        by_cases w : i.toNat ≤ c.toNat <;> simp [x, y, z, w] <;> omega
    · simp only [hlt, if_false]
      have hge : b.toNat ≤ i.toNat := Nat.le_of_not_lt (fun h => hlt (UInt8.lt_iff_toNat_lt.mpr h))
      have : ¬ (i ≤ c ∧ c < b) := by
        rw [UInt8.le_iff_toNat_le, UInt8.lt_iff_toNat_lt]; omega
      rw [and_decide_false this]; simp

/-- `byteRange a b` is the closed interval `[a, b]` — empty when `a > b` -/
theorem contains_byteRange (a b c : UInt8) :
    (byteRange a b).contains c = (decide (a ≤ c) && decide (c ≤ b)) := by
  unfold byteRange
  have hb : b.toNat < 256 := b.toNat_lt
  have e1 : (a ≤ c) = (a.toNat ≤ c.toNat) := by rw [UInt8.le_iff_toNat_le]
  have e3 : (c ≤ b) = (c.toNat ≤ b.toNat) := by rw [UInt8.le_iff_toNat_le]
  by_cases hgt : a > b
  · have h' : b.toNat < a.toNat := UInt8.lt_iff_toNat_lt.mp hgt
    simp only [hgt, if_true, contains_empty, e1, e3]
    by_cases x : a.toNat ≤ c.toNat <;> by_cases z : c.toNat ≤ b.toNat <;> simp [x, z] <;> omega
  · have h' : a.toNat ≤ b.toNat := by
      have : ¬ (b.toNat < a.toNat) := fun h => hgt (UInt8.lt_iff_toNat_lt.mpr h)
      omega
    simp only [hgt, if_false]
    rw [contains_add, rangeLoop_contains b 256 a empty c (by omega), contains_empty, u8_beq]
    have e2 : (c < b) = (c.toNat < b.toNat) := by rw [UInt8.lt_iff_toNat_lt]
    simp only [e1, e2, e3, Bool.false_or]
    by_cases x : a.toNat ≤ c.toNat <;> by_cases y : c.toNat < b.toNat <;> by_cases z : c.toNat = b.toNat <;> simp [x, y, z] <;> omega

end GoluaVerif.Model.ByteSet
