/-
  Proofs.GmatchRefine — golua's gmatch iteration (search from `si` with `pat.Match`, `allowEmpty` flag) against the
  Lua 5.4 iteration of the Spec (anchored attempt at `src`, reject a match that ends at `lastmatch`, else advance
  one byte).
-/
import GoluaVerif.Proofs.LuaFind
import GoluaVerif.Proofs.Gsub
namespace GoluaVerif.Model.PatMatch
open GoluaVerif.Model GoluaVerif.Spec
open GoluaVerif.Model.Gsub (Matcher GmState gmatchIter gmatchAll)

/-- what ties golua's `pat.Match(s, si)` to the Spec: it is the leftmost scan from `si` -/
structure Link (pat : LuaPattern.Pat) (s : Subject) (matcher : Matcher) : Prop where
  inside : ∀ q : Nat, q ≤ s.size → matcher (q : Int) = (LuaPattern.scan pat s q (s.size - q)).map toCaptures
  beyond : ∀ q : Nat, s.size < q → matcher (q : Int) = none
  ok : ∀ (q : Nat) (m : LuaPattern.MatchRes), q ≤ s.size → LuaPattern.matchAt pat s q = some m →
    m.start = q ∧ q ≤ m.stop ∧ m.stop ≤ s.size

variable {pat : LuaPattern.Pat} {s : Subject} {matcher : Matcher}

theorem Link.hit (hl : Link pat s matcher) {q : Nat} {m : LuaPattern.MatchRes} (hq : q ≤ s.size)
    (hm : LuaPattern.matchAt pat s q = some m) : matcher (q : Int) = some (toCaptures m) := by
  rw [hl.inside q hq]
  cases hk : s.size - q with
  | zero => simp [LuaPattern.scan, hm]
  | succ k => simp [LuaPattern.scan, hm, Option.orElse]

theorem Link.miss_lt (hl : Link pat s matcher) {q : Nat} (hq : q < s.size)
    (hm : LuaPattern.matchAt pat s q = none) : matcher (q : Int) = matcher ((q + 1 : Nat) : Int) := by
  rw [hl.inside q (by omega), hl.inside (q + 1) (by omega)]
  obtain ⟨k, hk⟩ : ∃ k, s.size - q = k + 1 := ⟨s.size - q - 1, by omega⟩
  have : s.size - (q + 1) = k := by omega
  rw [hk, this]
  simp [LuaPattern.scan, hm, Option.orElse]

theorem Link.miss_eq (hl : Link pat s matcher) {q : Nat} (hq : q = s.size)
    (hm : LuaPattern.matchAt pat s q = none) : matcher (q : Int) = none := by
  rw [hl.inside q (by omega)]
  have : s.size - q = 0 := by omega
  rw [this]
  simp [LuaPattern.scan, hm]

/-- with `allowEmpty` the iterator returns within its first iteration: its fuel does not matter -/
theorem gmatchIter_true (matcher : Matcher) (f : Nat) (si : Int) :
    gmatchIter matcher (f + 1) ⟨si, true⟩ = gmatchIter matcher 1 ⟨si, true⟩ := by
  unfold gmatchIter
  cases matcher si with
  | none => rfl
  | some caps =>
    cases caps with
    | nil => rfl
    | cons gc rest => simp

/-- one `gmatchAll` round with `allowEmpty`, spelled out -/
theorem gmatchAll_true (matcher : Matcher) (len f : Nat) (si : Int) :
    gmatchAll matcher len (f + 1) ⟨si, true⟩ =
      match matcher si with
      | none => []
      | some [] => []
      | some (gc :: rest) =>
        (gc :: rest) :: gmatchAll matcher len f
          ⟨if gc.start ≥ gc.stop then gc.start + 1 else gc.stop, decide (gc.start ≥ gc.stop)⟩ := by
  rw [gmatchAll, gmatchIter]
  cases matcher si with
  | none => rfl
  | some caps =>
    cases caps with
    | nil => rfl
    | cons gc rest => simp

/-- one `gmatchAll` round without `allowEmpty` (right after a non-empty match that ended at `si`) -/
theorem gmatchAll_false (matcher : Matcher) (len f : Nat) (si : Int) :
    gmatchAll matcher len (f + 1) ⟨si, false⟩ =
      match matcher si with
      | none => []
      | some [] => []
      | some (gc :: rest) =>
        if gc.start != si || gc.stop != si then
          (gc :: rest) :: gmatchAll matcher len f
            ⟨if gc.start ≥ gc.stop then gc.start + 1 else gc.stop, decide (gc.start ≥ gc.stop)⟩
        else gmatchAll matcher len (f + 1) ⟨si + 1, true⟩ := by
  rw [gmatchAll, gmatchIter]
  cases hm : matcher si with
  | none => rfl
  | some caps =>
    cases caps with
    | nil => rfl
    | cons gc rest =>
      simp only [Bool.false_or]
      by_cases hc : (gc.start != si || gc.stop != si) = true
      · simp [hc]
      · simp only [hc, Bool.false_eq_true, if_false]
        rw [gmatchAll, gmatchIter_true matcher len, gmatchIter_true matcher (len + 1)]

abbrev Gm (matcher : Matcher) (s : Subject) (fG : Nat) (st : GmState) := gmatchAll matcher s.size fG st
abbrev Sm (pat : LuaPattern.Pat) (s : Subject) (fS src : Nat) (last : Option Nat) :=
  (LuaPattern.gmatchLoop pat s fS src last).map toCaptures

/-- the state after golua accepted the match `m` found at `q` -/
theorem after_accept (m : LuaPattern.MatchRes) (q : Nat) (h1 : m.start = q) (h2 : q ≤ m.stop) :
    (⟨if ((q : Int) ≥ (m.stop : Int)) then (q : Int) + 1 else (m.stop : Int), decide ((q : Int) ≥ (m.stop : Int))⟩ : GmState) =
      if m.stop = q then ⟨((q + 1 : Nat) : Int), true⟩ else ⟨(m.stop : Int), false⟩ := by
  by_cases h : m.stop = q
  · have : (q : Int) ≥ (m.stop : Int) := by omega
    simp [h, this]
  · have : ¬ ((q : Int) ≥ (m.stop : Int)) := by omega
    simp [h, this]

/-- THE ITERATIONS AGREE: three mutually dependent situations
    (free: `allowEmpty`, the Spec's `lastmatch` lies before `src`;
     after: just after a non-empty match ending at `src`;
     pending: golua has already stepped over an empty match at `p` that the Spec is about to reject). -/
theorem gmatch_core (hl : Link pat s matcher) : ∀ (fS : Nat),
    (∀ (src : Nat) (last : Option Nat) (fG : Nat), (∀ l, last = some l → l < src) → src ≤ s.size + 1 →
        2 * (s.size + 1 - src) + 1 ≤ fS → s.size + 2 ≤ fG + src →
        Gm matcher s fG ⟨(src : Int), true⟩ = Sm pat s fS src last) ∧
    (∀ (src : Nat) (fG : Nat), src ≤ s.size + 1 → 2 * (s.size + 1 - src) + 1 ≤ fS → s.size + 2 ≤ fG + src →
        Gm matcher s fG ⟨(src : Int), false⟩ = Sm pat s fS src (some src)) ∧
    (∀ (p : Nat) (m : LuaPattern.MatchRes) (fG : Nat), LuaPattern.matchAt pat s p = some m → m.stop = p → p ≤ s.size →
        2 * (s.size + 1 - p) ≤ fS → s.size + 2 ≤ fG + (p + 1) →
        Gm matcher s fG ⟨((p + 1 : Nat) : Int), true⟩ = Sm pat s fS p (some p)) := by
  intro fS
  induction fS with
  | zero =>
    refine ⟨fun src last fG _ _ h => by omega, fun src fG _ h => by omega, fun p m fG _ _ hp h => by omega⟩
  | succ f ih =>
    obtain ⟨ihFree, ihAfter, ihPend⟩ := ih
    -- what happens when the match `m` at `src` is accepted on both sides
    have accept : ∀ (src : Nat) (m : LuaPattern.MatchRes) (fG : Nat), src ≤ s.size →
        LuaPattern.matchAt pat s src = some m → 2 * (s.size + 1 - src) + 1 ≤ f + 1 → s.size + 2 ≤ fG + 1 + src →
        toCaptures m :: Gm matcher s fG
            ⟨if ((src : Int) ≥ (m.stop : Int)) then (src : Int) + 1 else (m.stop : Int), decide ((src : Int) ≥ (m.stop : Int))⟩ =
          toCaptures m :: Sm pat s f m.stop (some m.stop) := by
      intro src m fG hsrc hm hfS hfG
      obtain ⟨h1, h2, h3⟩ := hl.ok src m hsrc hm
      rw [after_accept m src h1 h2]
      congr 1
      by_cases he : m.stop = src
      · simp only [he, if_true]
        exact ihPend src m fG hm he hsrc (by omega) (by omega)
      · simp only [he, if_false]
        exact ihAfter m.stop fG (by omega) (by omega) (by omega)
    refine ⟨?_, ?_, ?_⟩
    · -- free
      intro src last fG hlast hsrc hfS hfG
      obtain ⟨g, rfl⟩ : ∃ g, fG = g + 1 := ⟨fG - 1, by omega⟩
      show gmatchAll matcher s.size (g + 1) ⟨(src : Int), true⟩ = (LuaPattern.gmatchLoop pat s (f + 1) src last).map toCaptures
      rw [gmatchAll_true, LuaPattern.gmatchLoop]
      by_cases hgt : src > s.size
      · simp only [hgt, if_true, List.map_nil]
        rw [hl.beyond src hgt]
      · simp only [hgt, if_false]
        have hsrc' : src ≤ s.size := by omega
        cases hm : LuaPattern.matchAt pat s src with
        | none =>
          simp only
          by_cases hlt : src < s.size
          · rw [hl.miss_lt hlt hm]
            have := ihFree (src + 1) last (g + 1) (fun l hl' => by have := hlast l hl'; omega) (by omega) (by omega) (by omega)
            show _ = Sm pat s f (src + 1) last
            rw [← this]
            show _ = gmatchAll matcher s.size (g + 1) ⟨((src + 1 : Nat) : Int), true⟩
            rw [gmatchAll_true]
          · rw [hl.miss_eq (by omega) hm]
            have : LuaPattern.gmatchLoop pat s f (src + 1) last = [] := by
              cases f with
              | zero => rfl
              | succ f' => rw [LuaPattern.gmatchLoop]; simp; omega
            simp [this]
        | some m =>
          obtain ⟨h1, h2, h3⟩ := hl.ok src m hsrc' hm
          rw [hl.hit hsrc' hm]
          have hne : (some m.stop != last) = true := by
            cases last with
            | none => rfl
            | some l => have := hlast l rfl; simp; omega
          simp only [hne, if_true, List.map_cons, toCaptures]
          have := accept src m g hsrc' hm hfS (by omega)
          simpa [toCaptures, h1] using this
    · -- after a non-empty match ending at `src`
      intro src fG hsrc hfS hfG
      obtain ⟨g, rfl⟩ : ∃ g, fG = g + 1 := ⟨fG - 1, by omega⟩
      show gmatchAll matcher s.size (g + 1) ⟨(src : Int), false⟩ = (LuaPattern.gmatchLoop pat s (f + 1) src (some src)).map toCaptures
      rw [gmatchAll_false, LuaPattern.gmatchLoop]
      by_cases hgt : src > s.size
      · simp only [hgt, if_true, List.map_nil]
        rw [hl.beyond src hgt]
      · simp only [hgt, if_false]
        have hsrc' : src ≤ s.size := by omega
        cases hm : LuaPattern.matchAt pat s src with
        | none =>
          simp only
          have hS : (LuaPattern.gmatchLoop pat s f (src + 1) (some src)).map toCaptures = Sm pat s f (src + 1) (some src) := rfl
          rw [hS]
          by_cases hlt : src < s.size
          · rw [hl.miss_lt hlt hm]
            have := ihFree (src + 1) (some src) (g + 1) (fun l hl' => by injection hl' with e; omega) (by omega) (by omega)
              (by omega)
            rw [← this]
            show _ = gmatchAll matcher s.size (g + 1) ⟨((src + 1 : Nat) : Int), true⟩
            have hR := gmatchAll_true matcher s.size g ((src + 1 : Nat) : Int)
            rw [hR]
            -- whatever the matcher finds from `src + 1` starts after `src`, hence is accepted
            cases hmm : matcher ((src + 1 : Nat) : Int) with
            | none => rfl
            | some caps =>
              cases caps with
              | nil => rfl
              | cons gc rest =>
                simp only
                have hstart : gc.start ≠ (src : Int) := by
                  rw [hl.inside (src + 1) (by omega)] at hmm
                  cases hsc : LuaPattern.scan pat s (src + 1) (s.size - (src + 1)) with
                  | none => rw [hsc] at hmm; cases hmm
                  | some r =>
                    rw [hsc] at hmm
                    obtain ⟨q', g1, g2, g3⟩ := scan_some pat s _ _ r hsc
                    obtain ⟨x1, _, _⟩ := hl.ok q' r (by omega) g3
                    simp only [Option.map, toCaptures] at hmm
                    injection hmm with hmm; injection hmm with hgc _
                    rw [← hgc]; simp only; omega
                have : (gc.start != (src : Int) || gc.stop != (src : Int)) = true := by simp [hstart]
                simp only [this, if_true]
          · rw [hl.miss_eq (by omega) hm]
            have : Sm pat s f (src + 1) (some src) = [] := by
              show (LuaPattern.gmatchLoop pat s f (src + 1) (some src)).map toCaptures = []
              cases f with
              | zero => rfl
              | succ f' => rw [LuaPattern.gmatchLoop]; simp; omega
            rw [this]
        | some m =>
          obtain ⟨h1, h2, h3⟩ := hl.ok src m hsrc' hm
          rw [hl.hit hsrc' hm]
          simp only [toCaptures]
          by_cases he : m.stop = src
          · -- the empty match at `src` is rejected by both
            have hc : (((m.start : Int) != (src : Int)) || ((m.stop : Int) != (src : Int))) = false := by
              simp [h1, he]
            have hne : (some m.stop != some src) = false := by simp [he]
            simp only [hc, Bool.false_eq_true, if_false, hne]
            have := ihFree (src + 1) (some src) (g + 1) (fun l hl' => by injection hl' with e; omega) (by omega) (by omega)
              (by omega)
            show _ = Sm pat s f (src + 1) (some src)
            rw [← this]
            rfl
          · have hc : (((m.start : Int) != (src : Int)) || ((m.stop : Int) != (src : Int))) = true := by
              have : ¬ ((m.stop : Int) = (src : Int)) := by omega
              simp [this]
            have hne : (some m.stop != some src) = true := by simp [he]
            simp only [hc, if_true, hne, List.map_cons, toCaptures]
            have := accept src m g hsrc' hm hfS (by omega)
            simpa [toCaptures, h1] using this
    · -- pending: the Spec rejects the empty match at `p` that golua has already stepped over
      intro p m fG hm he hp hfS hfG
      show _ = (LuaPattern.gmatchLoop pat s (f + 1) p (some p)).map toCaptures
      rw [LuaPattern.gmatchLoop]
      have hgt : ¬ (p > s.size) := by omega
      have hne : (some m.stop != some p) = false := by simp [he]
      simp only [hgt, if_false, hm, hne, Bool.false_eq_true]
      exact ihFree (p + 1) (some p) fG (fun l hl' => by injection hl' with e; omega) (by omega) (by omega) (by omega)

/-! ## from the core to `string.gmatch` -/

/-- `pat.Match` beyond the end of the subject finds nothing, whatever the fuel -/
theorem matchGo_beyond (P : Pattern) (s : Subject) (fuel : Nat) (q : Nat) (hq : s.size < q) :
    (matchGo P s fuel (q : Int) 0).captures = none := by
  unfold matchGo find
  have : (initM (q : Int) 0).si = (q : Int) := rfl
  rw [this]
  cases hc : (((s.size : Int) + 2 - (q : Int)).toNat) with
  | zero => rfl
  | succ c =>
    rw [findLoop]
    have : ¬ ((q : Int) ≤ (s.size : Int)) := by omega
    simp only [this, if_false]
    rfl

/-- one fuel bound for all start positions -/
theorem matchGo_uniform (P : Pattern) (s : Subject) (pat : LuaPattern.Pat) (hp : PatRel P pat) :
    ∀ k, ∃ N, ∀ q, q ≤ k → q ≤ s.size → ∀ fuel, N ≤ fuel →
      (matchGo P s fuel (q : Int) 0).captures = (LuaPattern.scan pat s q (s.size - q)).map toCaptures := by
  intro k
  induction k with
  | zero =>
    by_cases h0 : 0 ≤ s.size
    · obtain ⟨N, hN⟩ := matchGo_refines P s pat hp 0 h0
      exact ⟨N, fun q hq _ fuel hf => by
        have : q = 0 := by omega
        subst this
        exact (hN fuel hf).1⟩
    · omega
  | succ k ih =>
    obtain ⟨N1, h1⟩ := ih
    by_cases hk : k + 1 ≤ s.size
    · obtain ⟨N2, h2⟩ := matchGo_refines P s pat hp (k + 1) hk
      refine ⟨max N1 N2, fun q hq hqs fuel hf => ?_⟩
      by_cases hq' : q ≤ k
      · exact h1 q hq' hqs fuel (by omega)
      · have : q = k + 1 := by omega
        subst this
        exact (h2 fuel (by omega)).1
    · exact ⟨N1, fun q hq hqs fuel hf => h1 q (by omega) hqs fuel hf⟩

theorem link_of_patRel (P : Pattern) (s : Subject) (pat : LuaPattern.Pat) (hp : PatRel P pat) :
    ∃ N, ∀ fuel, N ≤ fuel → Link pat s (fun si => (matchGo P s fuel si 0).captures) := by
  obtain ⟨N, hN⟩ := matchGo_uniform P s pat hp s.size
  refine ⟨N, fun fuel hf => ⟨fun q hq => hN q hq hq fuel hf, fun q hq => matchGo_beyond P s fuel q hq, ?_⟩⟩
  intro q m hq hm
  obtain ⟨a, b, c, _⟩ := matchAt_caps_ok P s pat hp q hq m hm
  exact ⟨a, b, c⟩

/-- every match the Spec's gmatch iteration yields is an anchored match at some position of the subject -/
theorem gmatchLoop_mem (pat : LuaPattern.Pat) (s : Subject) : ∀ (f src : Nat) (last : Option Nat) (m : LuaPattern.MatchRes),
    m ∈ LuaPattern.gmatchLoop pat s f src last → ∃ q, q ≤ s.size ∧ LuaPattern.matchAt pat s q = some m := by
  intro f
  induction f with
  | zero => intro src last m h; simp [LuaPattern.gmatchLoop] at h
  | succ f ih =>
    intro src last m h
    rw [LuaPattern.gmatchLoop] at h
    by_cases hgt : src > s.size
    · simp [hgt] at h
    · simp only [hgt, if_false] at h
      cases hm : LuaPattern.matchAt pat s src with
      | none => rw [hm] at h; exact ih _ _ _ h
      | some m' =>
        rw [hm] at h
        simp only at h
        split at h
        · rcases List.mem_cons.mp h with rfl | h
          · exact ⟨src, by omega, hm⟩
          · exact ih _ _ _ h
        · exact ih _ _ _ h

/-- `pushCaptures` of matching.go on the machine form of a good Spec match is the Spec's `capValues` -/
theorem pushCaptures_toCaptures (s : Subject) (m : LuaPattern.MatchRes) (h1 : m.start ≤ m.stop) (h2 : m.stop ≤ s.size)
    (h4 : ∀ c ∈ m.caps, CapOK s.size c) :
    Gsub.pushCaptures s (some (toCaptures m)) = .ok (LuaPattern.capValues s m) := by
  unfold toCaptures LuaPattern.capValues
  cases hc : m.caps with
  | nil =>
    simp only [List.map_nil, Gsub.pushCaptures, List.isEmpty_nil, if_true]
    unfold Gsub.sliceE
    have h3' : (0 : Int) ≤ (m.start : Int) ∧ (m.start : Int) ≤ (m.stop : Int) ∧ (m.stop : Int) ≤ (s.size : Int) := by omega
    simp only [h3', and_self, if_true, Except.map, Int.toNat_natCast]
    rfl
  | cons c cs =>
    have hm := mapM_captureValue s m.caps h4
    rw [hc] at hm
    simp only [List.map_cons, Gsub.pushCaptures, Gsub.extraCaptures, List.drop_succ_cons, List.drop_zero,
      List.isEmpty_cons, Bool.false_eq_true, if_false] at hm ⊢
    rw [hm]

theorem mapM_pushCaptures (s : Subject) : ∀ (ms : List LuaPattern.MatchRes),
    (∀ m ∈ ms, m.start ≤ m.stop ∧ m.stop ≤ s.size ∧ ∀ c ∈ m.caps, CapOK s.size c) →
    (ms.map toCaptures).mapM (fun caps => Gsub.pushCaptures s (some caps)) = .ok (ms.map (LuaPattern.capValues s)) := by
  intro ms
  induction ms with
  | nil => intro _; rfl
  | cons m r ih =>
    intro h
    obtain ⟨a, b, c⟩ := h m List.mem_cons_self
    have h1 := pushCaptures_toCaptures s m a b c
    have h2 := ih (fun x hx => h x (List.mem_cons_of_mem _ hx))
    simp only [List.map_cons, List.mapM_cons, h1, h2, bind, Except.bind, pure, Except.pure]

/-- GMATCH ⊑ SPEC: `string.gmatch(s, p, init)` iterated to exhaustion, as mirrored from matching.go, yields exactly the
    values of the Lua 5.4 iteration, for every subject and every `init`, for every pattern the Spec parses that does
    not start with `^` (for those the manual leaves gmatch open) -/
theorem luaGmatch_refines (p : Array UInt8) (s : Subject) (init : Int) (pat : LuaPattern.Pat)
    (hparse : LuaPattern.parse p.toList = .ok pat) (hsize : p.size ≤ Generated.ByteSetTable.maxPatternSize)
    (hanch : pat.anchorStart = false) :
    ∃ vs, LuaPattern.strGmatch s p.toList init = .vals vs ∧
      ∃ N, ∀ fuel, N ≤ fuel → Gsub.luaGmatch fuel s p init = .vals vs := by
  obtain ⟨P, hb, hp⟩ := patRel_of_build p pat hparse (parse_wf p.toList pat hparse) hsize
  obtain ⟨N, hN⟩ := link_of_patRel P s pat hp
  unfold LuaPattern.strGmatch Gsub.luaGmatch
  simp only [hb, startIndex_eq]
  by_cases hi : LuaPattern.normInit s.size init > s.size
  · simp only [hi, if_true, LuaPattern.beyondEnd, hparse]
    refine ⟨_, rfl, N, fun fuel hf => ?_⟩
    have hl := hN fuel hf
    rw [gmatchAll_true, hl.beyond _ hi]
    rfl
  · simp only [hi, if_false, LuaPattern.withPat, hparse, hanch, Bool.false_eq_true]
    refine ⟨_, rfl, N, fun fuel hf => ?_⟩
    have hl := hN fuel hf
    have hcore := (gmatch_core hl (LuaPattern.gmatchFuel s)).1 (LuaPattern.normInit s.size init) none (s.size + 3)
      (fun l h => by cases h) (by omega) (by unfold LuaPattern.gmatchFuel; omega) (by omega)
    unfold Gm Sm at hcore
    rw [hcore]
    have hall : ∀ m ∈ LuaPattern.gmatchLoop pat s (LuaPattern.gmatchFuel s) (LuaPattern.normInit s.size init) none,
        m.start ≤ m.stop ∧ m.stop ≤ s.size ∧ ∀ c ∈ m.caps, CapOK s.size c := by
      intro m hm
      obtain ⟨q, hq, hmq⟩ := gmatchLoop_mem pat s _ _ _ m hm
      obtain ⟨a, b, c, d⟩ := matchAt_caps_ok P s pat hp q hq m hmq
      exact ⟨by omega, c, d⟩
    rw [mapM_pushCaptures s _ hall]

end GoluaVerif.Model.PatMatch
