/-
  Proofs.ByteSetTable — the named byte sets REGENERATED from byteset.go (Generated.ByteSetTable) are the
  character classes of the manual (Spec.LuaPattern.classFn?), checked by kernel evaluation over all 256 bytes.
-/
import GoluaVerif.Spec.LuaPattern
import GoluaVerif.Proofs.ByteSet
namespace GoluaVerif.Model.ByteSet
open GoluaVerif GoluaVerif.Spec

def namedKeysOK : Bool := (List.range 256).all fun l =>
  (Generated.ByteSetTable.named.any fun e => e.1 == l) == (LuaPattern.classFn? (UInt8.ofNat l)).isSome
def namedSetsOK : Bool := Generated.ByteSetTable.named.all fun e =>
  match LuaPattern.classFn? (UInt8.ofNat e.1) with
  | some f => (List.range 256).all fun c => (ByteSet.ofWords e.2).contains (UInt8.ofNat c) == f (UInt8.ofNat c)
  | none => false
def fullSetOK : Bool := (List.range 256).all fun c => ByteSet.fullSet.contains (UInt8.ofNat c)

theorem named_keys_ok : namedKeysOK = true := by decide +kernel
theorem named_sets_ok : namedSetsOK = true := by decide +kernel
theorem full_set_ok : fullSetOK = true := by decide +kernel

theorem contains_fullSet (c : UInt8) : fullSet.contains c = true := by
  have h := full_set_ok
  unfold fullSetOK at h
  rw [List.all_eq_true] at h
  have := h c.toNat (List.mem_range.mpr c.toNat_lt)
  simpa using this

theorem named_sets_correct (l c : UInt8) :
    (named? l).map (·.contains c) = (LuaPattern.classFn? l).map (· c) := by
  unfold named?
  cases hf : Generated.ByteSetTable.named.find? (fun e => e.1 == l.toNat) with
  | some e =>
    have hmem := List.mem_of_find?_eq_some hf
    have hkey := List.find?_some hf
    have hk : e.1 = l.toNat := by simpa using hkey
    have h := named_sets_ok
    unfold namedSetsOK at h
    rw [List.all_eq_true] at h
    have he := h e hmem
    rw [hk, UInt8.ofNat_toNat] at he
    cases h2 : LuaPattern.classFn? l with
    | none => simp [h2] at he
    | some f =>
      simp only [h2] at he
      rw [List.all_eq_true] at he
      have hc := he c.toNat (List.mem_range.mpr c.toNat_lt)
      simp only [UInt8.ofNat_toNat] at hc
      simpa using hc
  | none =>
    have h := named_keys_ok
    unfold namedKeysOK at h
    rw [List.all_eq_true] at h
    have hl := h l.toNat (List.mem_range.mpr l.toNat_lt)
    rw [UInt8.ofNat_toNat] at hl
    have : (Generated.ByteSetTable.named.any fun e => e.1 == l.toNat) = false := by
      rw [List.any_eq_false]
      intro e he hke
      have := List.find?_eq_none.mp hf e he
      exact this hke
    rw [this] at hl
    cases h2 : LuaPattern.classFn? l <;> simp_all

end GoluaVerif.Model.ByteSet
