/-
  Proofs.C03Key — value equality and table-key equality agree on numbers.
-/
import GoluaVerif.Spec.Map
namespace GoluaVerif.Spec
open GoluaVerif

theorem scale_pos : 0 < F64.scale := Nat.two_pow_pos _

theorem scale_pos_int : (0 : Int) < (F64.scale : Int) := by
  have := scale_pos; omega

theorem huge_eq : F64.huge = 2 ^ 1026 * F64.scale := by
  unfold F64.huge F64.scale
  rw [← Nat.pow_add]

theorem mul_scale_inj (a b : Int) (h : a * (F64.scale : Int) = b * (F64.scale : Int)) : a = b :=
  Int.eq_of_mul_eq_mul_right (by have := scale_pos_int; omega) h

theorem i64_range (n : I64) : -(2 ^ 63 : Int) ≤ n.toInt ∧ n.toInt < (2 ^ 63 : Int) := by
  have h1 := BitVec.toInt_lt (x := n)
  have h2 := BitVec.le_toInt (x := n)
  simp at h1 h2
  constructor <;> omega

theorem toInt_ofInt_range (v : Int) (h : -(2 ^ 63 : Int) ≤ v ∧ v < (2 ^ 63 : Int)) :
    (BitVec.ofInt 64 v).toInt = v :=
  BitVec.toInt_ofInt_eq_self (w := 64) (by omega) (by simpa using h.1) (by simpa using h.2)

/-- the signed integer a finite float with magnitude `t·scale` denotes -/
def sgn (neg : Bool) (t : Nat) : Int := if neg then -(t : Int) else (t : Int)

theorem floatToInt_fin (neg : Bool) (m : Nat) :
    Num.floatToInt? (.fin neg m) =
      if m % F64.scale = 0 then
        (if -(2 ^ 63 : Int) ≤ sgn neg (m / F64.scale) ∧ sgn neg (m / F64.scale) < (2 ^ 63 : Int) then
          some (BitVec.ofInt 64 (sgn neg (m / F64.scale))) else none)
      else none := by
  cases neg <;> simp only [Num.floatToInt?, sgn, Bool.false_eq_true, ↓reduceIte]

theorem fin_key (neg : Bool) (m : Nat) : (F64.fin neg m).key = if neg then -(m : Int) else (m : Int) := by
  cases neg <;> rfl

/-- a finite float magnitude is below `huge` (true of every value decoded from 64 bits) -/
def Num.Bounded : Num → Prop
  | .flt (.fin _ m) => m < F64.huge
  | _ => True

theorem floatToInt_some (f : F64) (n : I64) (h : Num.floatToInt? f = some n) :
    f.isNaN = false ∧ f.key = n.toInt * (F64.scale : Int) := by
  cases f with
  | nan => simp [Num.floatToInt?] at h
  | inf s => simp [Num.floatToInt?] at h
  | fin neg m =>
    rw [floatToInt_fin] at h
    by_cases hm : m % F64.scale = 0
    · rw [if_pos hm] at h
      by_cases hr : -(2 ^ 63 : Int) ≤ sgn neg (m / F64.scale) ∧ sgn neg (m / F64.scale) < (2 ^ 63 : Int)
      · rw [if_pos hr] at h
        simp only [Option.some.injEq] at h
        refine ⟨rfl, ?_⟩
        rw [← h, toInt_ofInt_range _ hr, fin_key]
        have hdiv : m = m / F64.scale * F64.scale := by
          have := Nat.div_add_mod m F64.scale
          rw [hm] at this
          rw [Nat.mul_comm]; omega
        have hdivI : (m : Int) = ((m / F64.scale : Nat) : Int) * (F64.scale : Int) := by exact_mod_cast hdiv
        cases neg with
        | true => simp only [sgn, if_true]; rw [Int.neg_mul, ← hdivI]
        | false => simp only [sgn, Bool.false_eq_true, if_false]; exact hdivI
      · rw [if_neg hr] at h; simp at h
    · rw [if_neg hm] at h; simp at h

theorem floatToInt_none (f : F64) (h : Num.floatToInt? f = none) (hn : f.isNaN = false)
    (hb : Num.Bounded (.flt f)) (z : Int) (hz : -(2 ^ 63 : Int) ≤ z ∧ z < (2 ^ 63 : Int)) :
    f.key ≠ z * (F64.scale : Int) := by
  have hbig : (2 ^ 63 : Int) ≤ ((2 ^ 1026 : Nat) : Int) := by
    have : (2 : Nat) ^ 63 ≤ 2 ^ 1026 := Nat.pow_le_pow_right (by omega) (by omega)
    exact_mod_cast this
  cases f with
  | nan => simp [F64.isNaN] at hn
  | inf s =>
    intro e
    have hh : ((F64.huge : Nat) : Int) = ((2 ^ 1026 : Nat) : Int) * (F64.scale : Int) := by
      rw [huge_eq]; push_cast; rfl
    cases s with
    | false =>
      simp only [F64.key] at e
      rw [hh] at e
      have : ((2 ^ 1026 : Nat) : Int) = z := mul_scale_inj _ _ e
      omega
    | true =>
      simp only [F64.key] at e
      rw [hh, ← Int.neg_mul] at e
      have : -((2 ^ 1026 : Nat) : Int) = z := mul_scale_inj _ _ e
      omega
  | fin neg m =>
    intro e
    rw [fin_key] at e
    rw [floatToInt_fin] at h
    -- |z| = w, m = w * scale
    have key_abs : (m : Int) = (if neg then -z else z) * (F64.scale : Int) := by
      cases neg with
      | true => simp only [if_true] at e ⊢; rw [Int.neg_mul]; omega
      | false => simp only [Bool.false_eq_true, if_false] at e ⊢; exact e
    have hz0 : 0 ≤ (if neg then -z else z) := by
      apply Decidable.byContradiction
      intro hneg
      have : (if neg then -z else z) * (F64.scale : Int) < 0 :=
        Int.mul_neg_of_neg_of_pos (by omega) scale_pos_int
      omega
    obtain ⟨w, hw⟩ := Int.eq_ofNat_of_zero_le hz0
    rw [hw] at key_abs
    have hm : m = w * F64.scale := by exact_mod_cast key_abs
    have hmod : m % F64.scale = 0 := by rw [hm]; exact Nat.mul_mod_left _ _
    have hdiv : m / F64.scale = w := by rw [hm]; exact Nat.mul_div_cancel _ scale_pos
    rw [if_pos hmod, hdiv] at h
    have hr : -(2 ^ 63 : Int) ≤ sgn neg w ∧ sgn neg w < (2 ^ 63 : Int) := by
      cases neg with
      | true => simp only [if_true, sgn] at hw ⊢; omega
      | false => simp only [Bool.false_eq_true, if_false, sgn] at hw ⊢; omega
    rw [if_pos hr] at h
    simp at h

theorem ofNum_int (n : I64) : Key.ofNum (.int n) = .int n.toInt := rfl

theorem ofNum_flt_some (f : F64) (n : I64) (h : Num.floatToInt? f = some n) : Key.ofNum (.flt f) = .int n.toInt := by
  simp [Key.ofNum, Key.ofNumRaw, Key.norm, Key.toInt?, h]

theorem ofNum_flt_none (f : F64) (h : Num.floatToInt? f = none) : Key.ofNum (.flt f) = .flt f := by
  simp [Key.ofNum, Key.ofNumRaw, Key.norm, Key.toInt?, h]

/-- the order key of a non-NaN float without an int64 value determines the float -/
theorem key_inj_nonint (f g : F64) (hf : Num.floatToInt? f = none) (hg : Num.floatToInt? g = none)
    (nf : f.isNaN = false) (ng : g.isNaN = false) (bf : Num.Bounded (.flt f)) (bg : Num.Bounded (.flt g))
    (e : f.key = g.key) : f = g := by
  have hpos : (0 : Int) < (F64.huge : Int) := by
    have : 0 < F64.huge := Nat.two_pow_pos _
    omega
  -- a finite value without an integer value has a non-zero magnitude
  have nz : ∀ (s : Bool) (m : Nat), Num.floatToInt? (.fin s m) = none → m ≠ 0 := by
    intro s m h hm
    subst hm
    simp [Num.floatToInt?] at h
  cases f with
  | nan => simp [F64.isNaN] at nf
  | inf s =>
    cases g with
    | nan => simp [F64.isNaN] at ng
    | inf s' => cases s <;> cases s' <;> simp [F64.key] at e ⊢ <;> omega
    | fin s' m' =>
      simp only [Num.Bounded] at bg
      cases s <;> cases s' <;> simp [F64.key] at e <;> omega
  | fin s m =>
    simp only [Num.Bounded] at bf
    have hm := nz s m hf
    cases g with
    | nan => simp [F64.isNaN] at ng
    | inf s' => cases s <;> cases s' <;> simp [F64.key] at e <;> omega
    | fin s' m' =>
      have hm' := nz s' m' hg
      cases s <;> cases s' <;> simp [F64.key] at e ⊢ <;> omega

/-- `key_eq_iff`: on numbers, value equality (`==`) holds exactly when the normalised keys coincide -/
theorem num_eq_iff_key_eq (a b : Num) (ha : a.isNaN = false) (hb : b.isNaN = false)
    (ba : a.Bounded) (bb : b.Bounded) : Num.eq a b = true ↔ Key.ofNum a = Key.ofNum b := by
  simp only [Num.eq, ha, hb, Bool.not_false, Bool.true_and, decide_eq_true_eq]
  cases a with
  | int n =>
    cases b with
    | int n' =>
      simp only [Num.key, F64.intKey, ofNum_int, Key.int.injEq]
      constructor
      · exact mul_scale_inj _ _
      · intro h; rw [h]
    | flt g =>
      simp only [Num.isNaN] at hb
      cases hg : Num.floatToInt? g with
      | some n' =>
        obtain ⟨_, kg⟩ := floatToInt_some g n' hg
        simp only [Num.key, F64.intKey, kg, ofNum_int, ofNum_flt_some g n' hg, Key.int.injEq]
        constructor
        · exact mul_scale_inj _ _
        · intro h; rw [h]
      | none =>
        simp only [Num.key, F64.intKey, ofNum_int, ofNum_flt_none g hg]
        constructor
        · intro h; exact absurd h.symm (floatToInt_none g hg hb bb n.toInt (i64_range n))
        · intro h; simp at h
  | flt f =>
    simp only [Num.isNaN] at ha
    cases b with
    | int n' =>
      cases hf : Num.floatToInt? f with
      | some n =>
        obtain ⟨_, kf⟩ := floatToInt_some f n hf
        simp only [Num.key, F64.intKey, kf, ofNum_int, ofNum_flt_some f n hf, Key.int.injEq]
        constructor
        · exact mul_scale_inj _ _
        · intro h; rw [h]
      | none =>
        simp only [Num.key, F64.intKey, ofNum_int, ofNum_flt_none f hf]
        constructor
        · intro h; exact absurd h (floatToInt_none f hf ha ba n'.toInt (i64_range n'))
        · intro h; simp at h
    | flt g =>
      simp only [Num.isNaN] at hb
      cases hf : Num.floatToInt? f with
      | some n =>
        obtain ⟨_, kf⟩ := floatToInt_some f n hf
        cases hg : Num.floatToInt? g with
        | some n' =>
          obtain ⟨_, kg⟩ := floatToInt_some g n' hg
          simp only [Num.key, kf, kg, ofNum_flt_some f n hf, ofNum_flt_some g n' hg, Key.int.injEq]
          constructor
          · exact mul_scale_inj _ _
          · intro h; rw [h]
        | none =>
          simp only [Num.key, kf, ofNum_flt_some f n hf, ofNum_flt_none g hg]
          constructor
          · intro h; exact absurd h.symm (floatToInt_none g hg hb bb n.toInt (i64_range n))
          · intro h; simp at h
      | none =>
        cases hg : Num.floatToInt? g with
        | some n' =>
          obtain ⟨_, kg⟩ := floatToInt_some g n' hg
          simp only [Num.key, kg, ofNum_flt_none f hf, ofNum_flt_some g n' hg]
          constructor
          · intro h; exact absurd h (floatToInt_none f hf ha ba n'.toInt (i64_range n'))
          · intro h; simp at h
        | none =>
          simp only [Num.key, ofNum_flt_none f hf, ofNum_flt_none g hg, Key.flt.injEq]
          constructor
          · exact key_inj_nonint f g hf hg ha hb ba bb
          · intro h; rw [h]

/-- every float decoded from 64 bits is bounded -/
theorem decode_bounded (b : BitVec 64) : Num.Bounded (.flt (F64.decode b)) := by
  unfold F64.decode
  simp only
  split
  · split <;> simp [Num.Bounded]
  · split
    · simp only [Num.Bounded]
      have h1 : b.toNat % 2 ^ 52 < 2 ^ 52 := Nat.mod_lt _ (Nat.two_pow_pos _)
      have h2 : (2 : Nat) ^ 52 ≤ F64.huge := Nat.pow_le_pow_right (by omega) (by omega)
      omega
    · rename_i he2 he0
      simp only [Num.Bounded]
      have h1 : b.toNat % 2 ^ 52 < 2 ^ 52 := Nat.mod_lt _ (Nat.two_pow_pos _)
      have he : b.toNat / 2 ^ 52 % 2048 < 2048 := Nat.mod_lt _ (by omega)
      have h3 : 2 ^ 52 + b.toNat % 2 ^ 52 < 2 ^ 53 := by
        omega
      have h4 : (2 : Nat) ^ (b.toNat / 2 ^ 52 % 2048 - 1) ≤ 2 ^ 2046 := Nat.pow_le_pow_right (by omega) (by omega)
      calc (2 ^ 52 + b.toNat % 2 ^ 52) * 2 ^ (b.toNat / 2 ^ 52 % 2048 - 1)
          < 2 ^ 53 * 2 ^ 2046 := Nat.mul_lt_mul_of_lt_of_le h3 h4 (Nat.two_pow_pos _)
        _ = 2 ^ 2099 := by rw [← Nat.pow_add]
        _ ≤ F64.huge := Nat.pow_le_pow_right (by omega) (by omega)

/-- on all values that can be keys: `==` holds exactly when the normalised keys coincide -/
theorem rawKey_eq_iff (a b : RawKey) (ka kb : Key) (ha : a.norm = some ka) (hb : b.norm = some kb)
    (ba : ∀ x, a = .num x → x.Bounded) (bb : ∀ x, b = .num x → x.Bounded) :
    RawKey.eq a b = true ↔ ka = kb := by
  have numKey : ∀ x : Num, (∃ z, Key.ofNum x = .int z) ∨ (∃ f, Key.ofNum x = .flt f) := by
    intro x
    cases x with
    | int n => exact Or.inl ⟨_, rfl⟩
    | flt f =>
      cases hf : Num.floatToInt? f with
      | some n => exact Or.inl ⟨_, ofNum_flt_some f n hf⟩
      | none => exact Or.inr ⟨_, ofNum_flt_none f hf⟩
  cases a with
  | nil => simp [RawKey.norm, RawKey.toKey?] at ha
  | bool x =>
    simp only [RawKey.norm, RawKey.toKey?, Option.map_some, Option.some.injEq, Key.norm, Key.toInt?] at ha
    subst ha
    cases b with
    | nil => simp [RawKey.norm, RawKey.toKey?] at hb
    | bool y =>
      simp only [RawKey.norm, RawKey.toKey?, Option.map_some, Option.some.injEq, Key.norm, Key.toInt?] at hb
      subst hb; simp [RawKey.eq]
    | num y =>
      simp only [RawKey.norm, RawKey.toKey?] at hb
      split at hb
      · simp at hb
      · simp only [Option.map_some, Option.some.injEq] at hb
        subst hb
        have := numKey y
        simp only [RawKey.eq, Bool.false_eq_true, false_iff]
        intro e
        rcases this with ⟨z, hz⟩ | ⟨f, hf⟩
        · rw [Key.ofNum] at hz; rw [hz] at e; cases e
        · rw [Key.ofNum] at hf; rw [hf] at e; cases e
    | str y =>
      simp only [RawKey.norm, RawKey.toKey?, Option.map_some, Option.some.injEq, Key.norm, Key.toInt?] at hb
      subst hb; simp [RawKey.eq]
    | ref y =>
      simp only [RawKey.norm, RawKey.toKey?, Option.map_some, Option.some.injEq, Key.norm, Key.toInt?] at hb
      subst hb; simp [RawKey.eq]
  | num x =>
    simp only [RawKey.norm, RawKey.toKey?] at ha
    split at ha
    · simp at ha
    · rename_i hnx
      simp only [Option.map_some, Option.some.injEq] at ha
      subst ha
      cases b with
      | nil => simp [RawKey.norm, RawKey.toKey?] at hb
      | num y =>
        simp only [RawKey.norm, RawKey.toKey?] at hb
        split at hb
        · simp at hb
        · rename_i hny
          simp only [Option.map_some, Option.some.injEq] at hb
          subst hb
          simp only [RawKey.eq]
          exact num_eq_iff_key_eq x y (by simpa using hnx) (by simpa using hny) (ba x rfl) (bb y rfl)
      | bool y =>
        simp only [RawKey.norm, RawKey.toKey?, Option.map_some, Option.some.injEq, Key.norm, Key.toInt?] at hb
        subst hb
        simp only [RawKey.eq, Bool.false_eq_true, false_iff]
        intro e
        rcases numKey x with ⟨z, hz⟩ | ⟨f, hf⟩
        · rw [Key.ofNum] at hz; rw [hz] at e; cases e
        · rw [Key.ofNum] at hf; rw [hf] at e; cases e
      | str y =>
        simp only [RawKey.norm, RawKey.toKey?, Option.map_some, Option.some.injEq, Key.norm, Key.toInt?] at hb
        subst hb
        simp only [RawKey.eq, Bool.false_eq_true, false_iff]
        intro e
        rcases numKey x with ⟨z, hz⟩ | ⟨f, hf⟩
        · rw [Key.ofNum] at hz; rw [hz] at e; cases e
        · rw [Key.ofNum] at hf; rw [hf] at e; cases e
      | ref y =>
        simp only [RawKey.norm, RawKey.toKey?, Option.map_some, Option.some.injEq, Key.norm, Key.toInt?] at hb
        subst hb
        simp only [RawKey.eq, Bool.false_eq_true, false_iff]
        intro e
        rcases numKey x with ⟨z, hz⟩ | ⟨f, hf⟩
        · rw [Key.ofNum] at hz; rw [hz] at e; cases e
        · rw [Key.ofNum] at hf; rw [hf] at e; cases e
  | str x =>
    simp only [RawKey.norm, RawKey.toKey?, Option.map_some, Option.some.injEq, Key.norm, Key.toInt?] at ha
    subst ha
    cases b with
    | nil => simp [RawKey.norm, RawKey.toKey?] at hb
    | str y =>
      simp only [RawKey.norm, RawKey.toKey?, Option.map_some, Option.some.injEq, Key.norm, Key.toInt?] at hb
      subst hb; simp [RawKey.eq]
    | num y =>
      simp only [RawKey.norm, RawKey.toKey?] at hb
      split at hb
      · simp at hb
      · simp only [Option.map_some, Option.some.injEq] at hb
        subst hb
        simp only [RawKey.eq, Bool.false_eq_true, false_iff]
        intro e
        rcases numKey y with ⟨z, hz⟩ | ⟨f, hf⟩
        · rw [Key.ofNum] at hz; rw [hz] at e; cases e
        · rw [Key.ofNum] at hf; rw [hf] at e; cases e
    | bool y =>
      simp only [RawKey.norm, RawKey.toKey?, Option.map_some, Option.some.injEq, Key.norm, Key.toInt?] at hb
      subst hb; simp [RawKey.eq]
    | ref y =>
      simp only [RawKey.norm, RawKey.toKey?, Option.map_some, Option.some.injEq, Key.norm, Key.toInt?] at hb
      subst hb; simp [RawKey.eq]
  | ref x =>
    simp only [RawKey.norm, RawKey.toKey?, Option.map_some, Option.some.injEq, Key.norm, Key.toInt?] at ha
    subst ha
    cases b with
    | nil => simp [RawKey.norm, RawKey.toKey?] at hb
    | ref y =>
      simp only [RawKey.norm, RawKey.toKey?, Option.map_some, Option.some.injEq, Key.norm, Key.toInt?] at hb
      subst hb; simp [RawKey.eq]
    | num y =>
      simp only [RawKey.norm, RawKey.toKey?] at hb
      split at hb
      · simp at hb
      · simp only [Option.map_some, Option.some.injEq] at hb
        subst hb
        simp only [RawKey.eq, Bool.false_eq_true, false_iff]
        intro e
        rcases numKey y with ⟨z, hz⟩ | ⟨f, hf⟩
        · rw [Key.ofNum] at hz; rw [hz] at e; cases e
        · rw [Key.ofNum] at hf; rw [hf] at e; cases e
    | bool y =>
      simp only [RawKey.norm, RawKey.toKey?, Option.map_some, Option.some.injEq, Key.norm, Key.toInt?] at hb
      subst hb; simp [RawKey.eq]
    | str y =>
      simp only [RawKey.norm, RawKey.toKey?, Option.map_some, Option.some.injEq, Key.norm, Key.toInt?] at hb
      subst hb; simp [RawKey.eq]

end GoluaVerif.Spec
