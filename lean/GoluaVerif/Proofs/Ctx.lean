/-
  Proofs.Ctx — lemmas behind Props/C05–C07.  First the characterisation of the REGENERATED leaf
  functions in terms of natural numbers (these are the only lemmas that unfold generated code; each
  has a fallback script so that a harmless rewrite of the Go function keeps the obligation alive),
  then the frame / stack lemmas.
-/
import GoluaVerif.Model.Ctx
namespace GoluaVerif.Proofs.Ctx
open GoluaVerif.Generated.Resources GoluaVerif.Model.Ctx GoluaVerif.Spec.Quota

/-! ### generated leaf functions -/

theorem ne_zero_iff (x : BitVec 64) : x ≠ 0#64 ↔ 0 < x.toNat := by
  constructor
  · intro h
    have : x.toNat ≠ 0 := fun h0 => h (BitVec.eq_of_toNat_eq (by simpa using h0))
    omega
  · intro h h0; subst h0; simp at h

theorem ult_zero_iff (x : BitVec 64) : BitVec.ult 0#64 x = true ↔ x ≠ 0#64 := by
  rw [ne_zero_iff]; simp [BitVec.ult]

theorem atLimit_iff (v l : BitVec 64) : atLimit v l = true ↔ (l ≠ 0#64 ∧ l.toNat ≤ v.toNat) := by
  rw [ne_zero_iff]
  first
  | (unfold atLimit; simp only [Id.run, pure]
     simp only [Bool.and_eq_true, BitVec.ult, BitVec.ule, decide_eq_true_eq]
     simp)
  | (unfold atLimit; simp [Id.run, BitVec.ult, BitVec.ule])
  | (unfold atLimit; simp [Id.run]; bv_omega)

theorem atLimit_false_iff (v l : BitVec 64) : atLimit v l = false ↔ below v l := by
  have := atLimit_iff v l
  unfold below
  cases h : atLimit v l
  · simp only [true_iff]
    by_cases hl : l = 0#64
    · exact Or.inl hl
    · right
      have h' : ¬ (l ≠ 0#64 ∧ l.toNat ≤ v.toNat) := fun c => by rw [this.mpr c] at h; cases h
      have : ¬ l.toNat ≤ v.toNat := fun c => h' ⟨hl, c⟩
      omega
  · simp only [Bool.true_eq_false, false_iff]
    rw [h] at this
    have ⟨h1, h2⟩ := this.mp rfl
    rintro (h3 | h3)
    · exact h1 h3
    · omega

theorem smallerLimit_iff (n m : BitVec 64) :
    smallerLimit n m = true ↔ (n ≠ 0#64 ∧ (m = 0#64 ∨ n.toNat < m.toNat)) := by
  rw [ne_zero_iff]
  first
  | (unfold smallerLimit; simp only [Id.run, pure]
     simp only [Bool.and_eq_true, Bool.or_eq_true, BitVec.ult, decide_eq_true_eq, beq_iff_eq]
     simp)
  | (unfold smallerLimit; simp [Id.run, BitVec.ult])

theorem Remove_Cpu (r v : RuntimeResources) : (r.Remove v).Cpu.toNat = r.Cpu.toNat - v.Cpu.toNat := by
  unfold RuntimeResources.Remove; simp only [Id.run, pure]
  repeat' split
  all_goals simp_all [BitVec.ule]
  all_goals omega

theorem Remove_Memory (r v : RuntimeResources) :
    (r.Remove v).Memory.toNat = r.Memory.toNat - v.Memory.toNat := by
  unfold RuntimeResources.Remove; simp only [Id.run, pure]
  repeat' split
  all_goals simp_all [BitVec.ule]
  all_goals omega

theorem Remove_Millis (r v : RuntimeResources) :
    (r.Remove v).Millis.toNat = r.Millis.toNat - v.Millis.toNat := by
  unfold RuntimeResources.Remove; simp only [Id.run, pure]
  repeat' split
  all_goals simp_all [BitVec.ule]
  all_goals omega

theorem Merge_Cpu (r r1 : RuntimeResources) :
    (r.Merge r1).Cpu = if smallerLimit r1.Cpu r.Cpu then r1.Cpu else r.Cpu := by
  unfold RuntimeResources.Merge; simp only [Id.run, pure]
  repeat' split
  all_goals simp_all

theorem Merge_Memory (r r1 : RuntimeResources) :
    (r.Merge r1).Memory = if smallerLimit r1.Memory r.Memory then r1.Memory else r.Memory := by
  unfold RuntimeResources.Merge; simp only [Id.run, pure]
  repeat' split
  all_goals simp_all

theorem Merge_Millis (r r1 : RuntimeResources) :
    (r.Merge r1).Millis = if smallerLimit r1.Millis r.Millis then r1.Millis else r.Millis := by
  unfold RuntimeResources.Merge; simp only [Id.run, pure]
  repeat' split
  all_goals simp_all

theorem Dominates_iff (r v : RuntimeResources) : r.Dominates v = true ↔ resBelow v r := by
  unfold resBelow
  rw [← atLimit_false_iff, ← atLimit_false_iff, ← atLimit_false_iff]
  first
  | (unfold RuntimeResources.Dominates; simp only [Id.run, pure]
     simp only [Bool.and_eq_true, Bool.not_eq_true']
     exact and_assoc)
  | (unfold RuntimeResources.Dominates; simp [Id.run, and_assoc])

/-! ### the merge of two limits is below both -/

theorem pick_le_left (a b : BitVec 64) : limLe (if smallerLimit b a then b else a) a := by
  split
  · rename_i h
    have ⟨h1, h2⟩ := (smallerLimit_iff b a).mp h
    rcases h2 with h2 | h2
    · exact Or.inl h2
    · exact Or.inr ⟨h1, Nat.le_of_lt h2⟩
  · exact limLe_refl a

theorem pick_le_right (a b : BitVec 64) : limLe (if smallerLimit b a then b else a) b := by
  split
  · exact limLe_refl b
  · rename_i h
    by_cases hb : b = 0#64
    · exact Or.inl hb
    · right
      have h' : ¬ (b ≠ 0#64 ∧ (a = 0#64 ∨ b.toNat < a.toNat)) := fun c => h ((smallerLimit_iff b a).mpr c)
      have ha : a ≠ 0#64 := fun c => h' ⟨hb, Or.inl c⟩
      refine ⟨ha, ?_⟩
      have : ¬ b.toNat < a.toNat := fun c => h' ⟨hb, Or.inr c⟩
      omega

theorem Merge_le_left (r r1 : RuntimeResources) : resLe (r.Merge r1) r := by
  unfold resLe; rw [Merge_Cpu, Merge_Memory, Merge_Millis]
  exact ⟨pick_le_left _ _, pick_le_left _ _, pick_le_left _ _⟩

theorem Merge_le_right (r r1 : RuntimeResources) : resLe (r.Merge r1) r1 := by
  unfold resLe; rw [Merge_Cpu, Merge_Memory, Merge_Millis]
  exact ⟨pick_le_right _ _, pick_le_right _ _, pick_le_right _ _⟩

theorem resLe_trans {a b c : RuntimeResources} (h1 : resLe a b) (h2 : resLe b c) : resLe a c :=
  ⟨limLe_trans h1.1 h2.1, limLe_trans h1.2.1 h2.2.1, limLe_trans h1.2.2 h2.2.2⟩


/-! ### bit-vector facts about flags and stop levels -/

theorem absorb16 (a b : BitVec 16) : a &&& (a ||| b) = a := by
  ext i; simp; exact Or.inl

theorem or_eq_zero8 (a b : BitVec 8) : a ||| b = 0#8 ↔ a = 0#8 ∧ b = 0#8 := by
  constructor
  · intro h
    constructor
    · ext i hi
      have := congrArg (fun x => x[i]) h
      simp at this; simp [this.1]
    · ext i hi
      have := congrArg (fun x => x[i]) h
      simp at this; simp [this.2]
  · rintro ⟨rfl, rfl⟩; simp

/-! ### frames -/

theorem kill_live (f : Frame) : f.kill.live = false := by
  simp [Frame.kill, Frame.live, StatusKilled, StatusLive]

theorem frameOk_kill {f : Frame} (h : FrameOk f) : FrameOk f.kill :=
  ⟨h.cpu, h.mem, h.millis, h.soft, (fun hl => by rw [kill_live] at hl; cases hl), h.tcpu, h.tmem⟩

/-- shape of a CPU request on a live frame -/
theorem requireCPU_live (f : Frame) (n : BitVec 64) (hl : f.live = true) :
    (f.trackCpu = false ∧ f.requireCPU n = (f, .ok)) ∨
    (f.trackCpu = true ∧ (f.hardStopped = true ∨ atLimit (f.used.Cpu + n) f.hard.Cpu = true) ∧
        f.requireCPU n = (f.kill, .terminated)) ∨
    (f.trackCpu = true ∧ f.hardStopped = false ∧ atLimit (f.used.Cpu + n) f.hard.Cpu = false ∧
        f.requireCPU n = ({ f with used := { f.used with Cpu := f.used.Cpu + n } }, .ok)) := by
  unfold Frame.requireCPU
  cases ht : f.trackCpu <;> cases hs : f.hardStopped <;> cases ha : atLimit (f.used.Cpu + n) f.hard.Cpu <;>
    simp [hl, ha]

theorem requireMem_live (f : Frame) (n : BitVec 64) (hl : f.live = true) :
    (f.trackMem = false ∧ f.requireMem n = (f, .ok)) ∨
    (f.trackMem = true ∧ (f.hardStopped = true ∨ atLimit (f.used.Memory + n) f.hard.Memory = true) ∧
        f.requireMem n = (f.kill, .terminated)) ∨
    (f.trackMem = true ∧ f.hardStopped = false ∧ atLimit (f.used.Memory + n) f.hard.Memory = false ∧
        f.requireMem n = ({ f with used := { f.used with Memory := f.used.Memory + n } }, .ok)) := by
  unfold Frame.requireMem
  cases ht : f.trackMem <;> cases hs : f.hardStopped <;> cases ha : atLimit (f.used.Memory + n) f.hard.Memory <;>
    simp [hl, ha]

theorem requireCPU_frameOk {f : Frame} (n : BitVec 64) (h : FrameOk f) (hl : f.live = true) :
    FrameOk (f.requireCPU n).1 := by
  rcases requireCPU_live f n hl with ⟨_, e⟩ | ⟨_, _, e⟩ | ⟨_, _, ha, e⟩ <;> rw [e]
  · exact h
  · exact frameOk_kill h
  · exact ⟨(atLimit_false_iff _ _).mp ha, h.mem, h.millis, h.soft, h.nostop, h.tcpu, h.tmem⟩

theorem requireMem_frameOk {f : Frame} (n : BitVec 64) (h : FrameOk f) (hl : f.live = true) :
    FrameOk (f.requireMem n).1 := by
  rcases requireMem_live f n hl with ⟨_, e⟩ | ⟨_, _, e⟩ | ⟨_, _, ha, e⟩ <;> rw [e]
  · exact h
  · exact frameOk_kill h
  · exact ⟨h.cpu, (atLimit_false_iff _ _).mp ha, h.millis, h.soft, h.nostop, h.tcpu, h.tmem⟩

theorem releaseMem_frameOk {f : Frame} (n : BitVec 64) (h : FrameOk f) : FrameOk (f.releaseMem n).1 := by
  unfold Frame.releaseMem
  split
  · split
    · rename_i h1 h2
      refine ⟨h.cpu, ?_, h.millis, h.soft, h.nostop, h.tcpu, h.tmem⟩
      have hm := h.mem
      unfold below at *
      simp only [BitVec.ule, decide_eq_true_eq] at h2
      rcases hm with hm | hm
      · exact Or.inl hm
      · right
        show (f.used.Memory - n).toNat < f.hard.Memory.toNat
        rw [BitVec.toNat_sub_of_le (by simpa [BitVec.le_def] using h2)]
        omega
    · exact h
  · exact h

theorem setStop_frameOk {f : Frame} (l : BitVec 8) (h : FrameOk f) : FrameOk (f.setStop l).1 := by
  unfold Frame.setStop
  simp only
  split
  · exact ⟨h.cpu, h.mem, h.millis, h.soft, (fun hl => by rw [kill_live] at hl; cases hl), h.tcpu, h.tmem⟩
  · rename_i hc
    refine ⟨h.cpu, h.mem, h.millis, h.soft, ?_, h.tcpu, h.tmem⟩
    intro hl
    have hl' : f.live = true := hl
    have hns := h.nostop hl'
    have hl2 : ({ f with stop := f.stop ||| l } : Frame).live = true := hl
    simp only [Bool.and_eq_true, hl2, and_true, bne_iff_ne, ne_eq, Decidable.not_not] at hc
    simp only [Frame.hardStopped, bne_eq_false_iff_eq] at hns ⊢
    rw [BitVec.and_or_distrib_right, hns, hc]; rfl
/-! ### PushContext -/

theorem child_hard_le_remaining (f : Frame) (d : CtxDef) :
    resLe (f.child d).hard (f.hard.Remove f.used) := Merge_le_left _ _

theorem child_hard_le_def (f : Frame) (d : CtxDef) : resLe (f.child d).hard d.hard := Merge_le_right _ _

theorem child_soft_le_hard (f : Frame) (d : CtxDef) : resLe (f.child d).soft (f.child d).hard :=
  resLe_trans (Merge_le_left _ _) (Merge_le_left _ _)

theorem child_soft_le_def (f : Frame) (d : CtxDef) : resLe (f.child d).soft d.soft := Merge_le_right _ _

theorem child_soft_le_parent_soft (f : Frame) (d : CtxDef) : resLe (f.child d).soft f.soft :=
  resLe_trans (Merge_le_left _ _) (Merge_le_right _ _)

theorem child_flags_superset (f : Frame) (d : CtxDef) : flagsSuperset (f.child d).flags f.flags := by
  show f.flags &&& (f.flags ||| d.flags ||| impliedFlags d.hard) = f.flags
  rw [BitVec.or_assoc]; exact absorb16 _ _

theorem child_flags_def (f : Frame) (d : CtxDef) : flagsSuperset (f.child d).flags d.flags := by
  show d.flags &&& (f.flags ||| d.flags ||| impliedFlags d.hard) = d.flags
  rw [BitVec.or_comm f.flags, BitVec.or_assoc]; exact absorb16 _ _

theorem below_zero (l : BitVec 64) : below 0#64 l := by
  unfold below
  by_cases h : l = 0#64
  · exact Or.inl h
  · exact Or.inr (by have := (ne_zero_iff l).mp h; simpa using this)

theorem child_frameOk {f : Frame} (d : CtxDef) (h : FrameOk f) (hl : f.live = true) : FrameOk (f.child d) := by
  refine ⟨below_zero _, below_zero _, rfl, child_soft_le_hard f d, ?_, ?_, ?_⟩
  · intro _; exact h.nostop hl
  · intro hc
    show (BitVec.ult 0#64 (f.child d).hard.Cpu || BitVec.ult 0#64 (f.child d).soft.Cpu || _) = true
    rw [(ult_zero_iff _).mpr hc]; rfl
  · intro hc
    show (BitVec.ult 0#64 (f.child d).hard.Memory || BitVec.ult 0#64 (f.child d).soft.Memory) = true
    rw [(ult_zero_iff _).mpr hc]; rfl

theorem child_chain (f : Frame) (d : CtxDef) : Chain (f.child d) f :=
  ⟨child_hard_le_remaining f d, child_flags_superset f d⟩

/-! ### what a child may have used, against its parent -/

/-- under the invariant, charging the parent with the child's CPU cannot reach the parent's limit
nor wrap -/
theorem charge_cpu_below {c p : Frame} (hc : FrameOk c) (hp : FrameOk p) (hch : Chain c p) :
    below (p.used.Cpu + c.used.Cpu) p.hard.Cpu ∧
    (p.hard.Cpu ≠ 0#64 → (p.used.Cpu + c.used.Cpu).toNat = p.used.Cpu.toNat + c.used.Cpu.toNat) := by
  by_cases h0 : p.hard.Cpu = 0#64
  · exact ⟨Or.inl h0, fun h => absurd h0 h⟩
  · have hpu : p.used.Cpu.toNat < p.hard.Cpu.toNat := by
      rcases hp.cpu with h | h
      · exact absurd h h0
      · exact h
    have hrem : (p.hard.Remove p.used).Cpu.toNat = p.hard.Cpu.toNat - p.used.Cpu.toNat := Remove_Cpu _ _
    have hrem0 : (p.hard.Remove p.used).Cpu ≠ 0#64 := by rw [ne_zero_iff, hrem]; omega
    have hle := limLe_le hch.hard.1 hrem0
    have hc0 := limLe_ne_zero hch.hard.1 hrem0
    have hcu : c.used.Cpu.toNat < c.hard.Cpu.toNat := by
      rcases hc.cpu with h | h
      · exact absurd h hc0
      · exact h
    have hlt := p.hard.Cpu.isLt
    have hsum : (p.used.Cpu + c.used.Cpu).toNat = p.used.Cpu.toNat + c.used.Cpu.toNat := by
      rw [BitVec.toNat_add]; apply Nat.mod_eq_of_lt; omega
    exact ⟨Or.inr (by omega), fun _ => hsum⟩

theorem charge_mem_below {c p : Frame} (hc : FrameOk c) (hp : FrameOk p) (hch : Chain c p) :
    below (p.used.Memory + c.used.Memory) p.hard.Memory ∧
    (p.hard.Memory ≠ 0#64 →
      (p.used.Memory + c.used.Memory).toNat = p.used.Memory.toNat + c.used.Memory.toNat) := by
  by_cases h0 : p.hard.Memory = 0#64
  · exact ⟨Or.inl h0, fun h => absurd h0 h⟩
  · have hpu : p.used.Memory.toNat < p.hard.Memory.toNat := by
      rcases hp.mem with h | h
      · exact absurd h h0
      · exact h
    have hrem : (p.hard.Remove p.used).Memory.toNat = p.hard.Memory.toNat - p.used.Memory.toNat :=
      Remove_Memory _ _
    have hrem0 : (p.hard.Remove p.used).Memory ≠ 0#64 := by rw [ne_zero_iff, hrem]; omega
    have hle := limLe_le hch.hard.2.1 hrem0
    have hc0 := limLe_ne_zero hch.hard.2.1 hrem0
    have hcu : c.used.Memory.toNat < c.hard.Memory.toNat := by
      rcases hc.mem with h | h
      · exact absurd h hc0
      · exact h
    have hlt := p.hard.Memory.isLt
    have hsum : (p.used.Memory + c.used.Memory).toNat = p.used.Memory.toNat + c.used.Memory.toNat := by
      rw [BitVec.toNat_add]; apply Nat.mod_eq_of_lt; omega
    exact ⟨Or.inr (by omega), fun _ => hsum⟩

/-- a CPU charge that neither hits the limit nor meets a hard stop -/
def chargeCpu (p : Frame) (n : BitVec 64) : Frame :=
  if p.trackCpu then { p with used := { p.used with Cpu := p.used.Cpu + n } } else p

def chargeMem (p : Frame) (n : BitVec 64) : Frame :=
  if p.trackMem then { p with used := { p.used with Memory := p.used.Memory + n } } else p

theorem requireCPU_charge (p : Frame) (n : BitVec 64) (hl : p.live = true) (hns : p.hardStopped = false)
    (ha : atLimit (p.used.Cpu + n) p.hard.Cpu = false) : p.requireCPU n = (chargeCpu p n, .ok) := by
  unfold chargeCpu
  rcases requireCPU_live p n hl with ⟨ht, e⟩ | ⟨_, hk, _⟩ | ⟨ht, _, _, e⟩
  · rw [e, ht]; rfl
  · rcases hk with hk | hk
    · rw [hns] at hk; cases hk
    · rw [ha] at hk; cases hk
  · rw [e, ht]; rfl

theorem requireMem_charge (p : Frame) (n : BitVec 64) (hl : p.live = true) (hns : p.hardStopped = false)
    (ha : atLimit (p.used.Memory + n) p.hard.Memory = false) : p.requireMem n = (chargeMem p n, .ok) := by
  unfold chargeMem
  rcases requireMem_live p n hl with ⟨ht, e⟩ | ⟨_, hk, _⟩ | ⟨ht, _, _, e⟩
  · rw [e, ht]; rfl
  · rcases hk with hk | hk
    · rw [hns] at hk; cases hk
    · rw [ha] at hk; cases hk
  · rw [e, ht]; rfl

theorem chargeCpu_same (p : Frame) (n : BitVec 64) :
    (chargeCpu p n).hard = p.hard ∧ (chargeCpu p n).soft = p.soft ∧ (chargeCpu p n).flags = p.flags ∧
    (chargeCpu p n).status = p.status ∧ (chargeCpu p n).stop = p.stop ∧
    (chargeCpu p n).used.Memory = p.used.Memory ∧ (chargeCpu p n).used.Millis = p.used.Millis ∧
    (chargeCpu p n).trackCpu = p.trackCpu ∧ (chargeCpu p n).trackMem = p.trackMem := by
  unfold chargeCpu; cases h : p.trackCpu <;> simp [h]

theorem chargeMem_same (p : Frame) (n : BitVec 64) :
    (chargeMem p n).hard = p.hard ∧ (chargeMem p n).soft = p.soft ∧ (chargeMem p n).flags = p.flags ∧
    (chargeMem p n).status = p.status ∧ (chargeMem p n).stop = p.stop ∧
    (chargeMem p n).used.Cpu = p.used.Cpu ∧ (chargeMem p n).used.Millis = p.used.Millis ∧
    (chargeMem p n).trackCpu = p.trackCpu ∧ (chargeMem p n).trackMem = p.trackMem := by
  unfold chargeMem; cases h : p.trackMem <;> simp [h]

/-- the frame PopContext restores: the parent charged with the child's CPU and memory, each only
if the parent tracks that resource -/
def charged (p c : Frame) : Frame := chargeMem (chargeCpu p c.used.Cpu) c.used.Memory

/-- PopContext under the invariant: never terminates the parent, and restores exactly `charged`. -/
theorem pop_ok {c p : Frame} {ps : List Frame} (hc : FrameOk c) (hp : FrameOk p) (hl : p.live = true)
    (hch : Chain c p) : pop ⟨c, p :: ps⟩ = (⟨charged p c, ps⟩, .ok) := by
  have hns := hp.nostop hl
  have ⟨hb, _⟩ := charge_cpu_below hc hp hch
  have ⟨hbm, _⟩ := charge_mem_below hc hp hch
  have ha : atLimit (p.used.Cpu + c.used.Cpu) p.hard.Cpu = false := (atLimit_false_iff _ _).mpr hb
  have ham : atLimit (p.used.Memory + c.used.Memory) p.hard.Memory = false := (atLimit_false_iff _ _).mpr hbm
  have e1 := requireCPU_charge p c.used.Cpu hl hns ha
  have hs := chargeCpu_same p c.used.Cpu
  have e2 := requireMem_charge (chargeCpu p c.used.Cpu) c.used.Memory
    (by unfold Frame.live at *; rw [hs.2.2.2.1]; exact hl)
    (by unfold Frame.hardStopped at *; rw [hs.2.2.2.2.1]; exact hns)
    (by rw [hs.1, hs.2.2.2.2.2.1]; exact ham)
  unfold pop charged
  simp only [e1, e2]

theorem chargeCpu_frameOk {p : Frame} {n : BitVec 64} (hp : FrameOk p)
    (hb : below (p.used.Cpu + n) p.hard.Cpu) : FrameOk (chargeCpu p n) := by
  unfold chargeCpu; split
  · exact ⟨hb, hp.mem, hp.millis, hp.soft, hp.nostop, hp.tcpu, hp.tmem⟩
  · exact hp

theorem chargeMem_frameOk {p : Frame} {n : BitVec 64} (hp : FrameOk p)
    (hb : below (p.used.Memory + n) p.hard.Memory) : FrameOk (chargeMem p n) := by
  unfold chargeMem; split
  · exact ⟨hp.cpu, hb, hp.millis, hp.soft, hp.nostop, hp.tcpu, hp.tmem⟩
  · exact hp

theorem charged_frameOk {c p : Frame} (hc : FrameOk c) (hp : FrameOk p) (hch : Chain c p) :
    FrameOk (charged p c) := by
  have ⟨hb, _⟩ := charge_cpu_below hc hp hch
  have ⟨hbm, _⟩ := charge_mem_below hc hp hch
  have hs := chargeCpu_same p c.used.Cpu
  unfold charged
  apply chargeMem_frameOk (chargeCpu_frameOk hp hb)
  rw [hs.1, hs.2.2.2.2.2.1]; exact hbm

theorem charged_same (p c : Frame) :
    (charged p c).hard = p.hard ∧ (charged p c).soft = p.soft ∧ (charged p c).flags = p.flags ∧
    (charged p c).status = p.status ∧ (charged p c).stop = p.stop ∧
    (charged p c).trackCpu = p.trackCpu ∧ (charged p c).trackMem = p.trackMem := by
  have h1 := chargeCpu_same p c.used.Cpu
  have h2 := chargeMem_same (chargeCpu p c.used.Cpu) c.used.Memory
  unfold charged
  refine ⟨h2.1.trans h1.1, h2.2.1.trans h1.2.1, h2.2.2.1.trans h1.2.2.1, h2.2.2.2.1.trans h1.2.2.2.1,
    h2.2.2.2.2.1.trans h1.2.2.2.2.1, h2.2.2.2.2.2.2.2.1.trans h1.2.2.2.2.2.2.2.1,
    h2.2.2.2.2.2.2.2.2.trans h1.2.2.2.2.2.2.2.2⟩

/-- shape of a release -/
theorem releaseMem_cases (f : Frame) (n : BitVec 64) :
    (f.hard.Memory = 0#64 ∧ f.releaseMem n = (f, .ok)) ∨
    (f.hard.Memory ≠ 0#64 ∧ n.toNat ≤ f.used.Memory.toNat ∧
      f.releaseMem n = ({ f with used := { f.used with Memory := f.used.Memory - n } }, .ok)) ∨
    (f.hard.Memory ≠ 0#64 ∧ f.used.Memory.toNat < n.toNat ∧ f.releaseMem n = (f, .crash)) := by
  unfold Frame.releaseMem
  by_cases h0 : f.hard.Memory = 0#64
  · left; refine ⟨h0, ?_⟩; rw [h0]; rfl
  · right
    have hu : BitVec.ult 0#64 f.hard.Memory = true := (ult_zero_iff _).mpr h0
    by_cases hle : n.toNat ≤ f.used.Memory.toNat
    · left; refine ⟨h0, hle, ?_⟩
      have : BitVec.ule n f.used.Memory = true := by simpa [BitVec.ule] using hle
      rw [hu, this]; rfl
    · right; refine ⟨h0, by omega, ?_⟩
      have : BitVec.ule n f.used.Memory = false := by simpa [BitVec.ule] using hle
      rw [hu, this]; rfl

/-! ### the cascading release (commit 8007e69) only lowers memory counters -/

/-- `f'` is `f` with a memory counter that is not larger -/
def Lower (f' f : Frame) : Prop :=
  ∃ m : BitVec 64, m.toNat ≤ f.used.Memory.toNat ∧ f' = { f with used := { f.used with Memory := m } }

inductive LowerL : List Frame → List Frame → Prop where
  | nil : LowerL [] []
  | cons {f' f : Frame} {l' l : List Frame} : Lower f' f → LowerL l' l → LowerL (f' :: l') (f :: l)

theorem Lower.refl (f : Frame) : Lower f f := ⟨f.used.Memory, Nat.le_refl _, rfl⟩

theorem LowerL.refl : (l : List Frame) → LowerL l l
  | [] => .nil
  | f :: l => .cons (Lower.refl f) (LowerL.refl l)

theorem Lower.trans {a b c : Frame} (h1 : Lower a b) (h2 : Lower b c) : Lower a c := by
  obtain ⟨m1, hm1, rfl⟩ := h1
  obtain ⟨m2, hm2, rfl⟩ := h2
  exact ⟨m1, Nat.le_trans hm1 hm2, rfl⟩

theorem LowerL.trans {a b c : List Frame} (h1 : LowerL a b) (h2 : LowerL b c) : LowerL a c := by
  induction h1 generalizing c with
  | nil => cases h2; exact .nil
  | cons hf _ ih => cases h2 with | cons hf2 hl2 => exact .cons (hf.trans hf2) (ih hl2)

/-- everything but `used.Memory` is untouched -/
theorem Lower.same {f' f : Frame} (h : Lower f' f) :
    f'.hard = f.hard ∧ f'.soft = f.soft ∧ f'.flags = f.flags ∧ f'.status = f.status ∧ f'.stop = f.stop ∧
    f'.trackCpu = f.trackCpu ∧ f'.trackMem = f.trackMem ∧ f'.used.Cpu = f.used.Cpu ∧
    f'.used.Millis = f.used.Millis ∧ f'.used.Memory.toNat ≤ f.used.Memory.toNat := by
  obtain ⟨m, hm, rfl⟩ := h
  exact ⟨rfl, rfl, rfl, rfl, rfl, rfl, rfl, rfl, rfl, hm⟩

theorem Lower.inh {f' f : Frame} (h : Lower f' f) : f'.inhCpu = f.inhCpu ∧ f'.inhMem = f.inhMem := by
  obtain ⟨m, _, rfl⟩ := h; exact ⟨rfl, rfl⟩

theorem Lower.live {f' f : Frame} (h : Lower f' f) : f'.live = f.live := by
  unfold Frame.live; rw [h.same.2.2.2.1]

theorem Lower.hardStopped {f' f : Frame} (h : Lower f' f) : f'.hardStopped = f.hardStopped := by
  unfold Frame.hardStopped; rw [h.same.2.2.2.2.1]

theorem frameOk_lower {f' f : Frame} (h : Lower f' f) (hf : FrameOk f) : FrameOk f' := by
  have hs := h.same
  obtain ⟨m, hm, rfl⟩ := h
  refine ⟨hf.cpu, ?_, hf.millis, hf.soft, hf.nostop, hf.tcpu, hf.tmem⟩
  rcases hf.mem with h0 | hlt
  · exact Or.inl h0
  · exact Or.inr (Nat.lt_of_le_of_lt hm hlt)

theorem limLe_mono {a b b' : BitVec 64} (h : limLe a b) (hb : b.toNat ≤ b'.toNat) (h0 : b = 0#64 → b' = 0#64) :
    limLe a b' := by
  rcases h with h | ⟨ha, hab⟩
  · exact Or.inl (h0 h)
  · exact Or.inr ⟨ha, Nat.le_trans hab hb⟩

theorem chain_lower {c c' p p' : Frame} (hc : Lower c' c) (hp : Lower p' p) (hpo : FrameOk p) (h : Chain c p) :
    Chain c' p' := by
  have hcs := hc.same
  have hps := hp.same
  refine ⟨?_, by unfold flagsSuperset; rw [hcs.2.2.1, hps.2.2.1]; exact h.flags⟩
  rw [hcs.1]
  obtain ⟨h1, h2, h3⟩ := h.hard
  refine ⟨?_, ?_, ?_⟩
  · have : (p'.hard.Remove p'.used).Cpu = (p.hard.Remove p.used).Cpu := by
      apply BitVec.eq_of_toNat_eq; rw [Remove_Cpu, Remove_Cpu, hps.1, hps.2.2.2.2.2.2.2.1]
    rw [this]; exact h1
  · apply limLe_mono h2
    · rw [Remove_Memory, Remove_Memory, hps.1]; have := hps.2.2.2.2.2.2.2.2.2; omega
    · intro h0
      apply BitVec.eq_of_toNat_eq
      have e0 : (p.hard.Remove p.used).Memory.toNat = 0 := by rw [h0]; rfl
      rw [Remove_Memory] at e0
      rw [Remove_Memory, hps.1]
      rcases hpo.mem with hz | hlt
      · rw [hz]; simp
      · omega
  · have : (p'.hard.Remove p'.used).Millis = (p.hard.Remove p.used).Millis := by
      apply BitVec.eq_of_toNat_eq; rw [Remove_Millis, Remove_Millis, hps.1, hps.2.2.2.2.2.2.2.2.1]
    rw [this]; exact h3

theorem inv_lower {c c' : Frame} {ps ps' : List Frame} (hc : Lower c' c) (hps : LowerL ps' ps)
    (h : Inv ⟨c, ps⟩) : Inv ⟨c', ps'⟩ := by
  obtain ⟨hco, hch⟩ := h
  refine ⟨frameOk_lower hc hco, ?_⟩
  show ChainInv c' ps'
  have hch' : ChainInv c ps := hch
  clear hch hco
  induction hps generalizing c c' with
  | nil => trivial
  | cons hf hl ih =>
    obtain ⟨hcp, hpo, hpl, hrest⟩ := hch'
    exact ⟨chain_lower hc hf hpo hcp, frameOk_lower hf hpo, by rw [hf.live]; exact hpl, ih hf hrest⟩

/-- the cascading release only lowers memory counters, frame by frame -/
theorem releaseStack_lower (f : Frame) (rest : List Frame) (n : BitVec 64) :
    Lower (releaseStack f rest n).1.1 f ∧ LowerL (releaseStack f rest n).1.2 rest := by
  induction rest generalizing f n with
  | nil =>
    refine ⟨?_, .nil⟩
    show Lower (f.releaseMem n).1 f
    rcases releaseMem_cases f n with ⟨_, e⟩ | ⟨_, hle, e⟩ | ⟨_, _, e⟩ <;> rw [e]
    · exact Lower.refl f
    · refine ⟨f.used.Memory - n, ?_, rfl⟩
      rw [BitVec.toNat_sub_of_le (by simpa [BitVec.le_def] using hle)]; omega
    · exact Lower.refl f
  | cons p ps ih =>
    unfold releaseStack
    split
    · split
      · rename_i h2
        refine ⟨⟨f.used.Memory - n, ?_, rfl⟩, LowerL.refl _⟩
        have : n.toNat ≤ f.used.Memory.toNat := by simpa [BitVec.ule] using h2
        rw [BitVec.toNat_sub_of_le (by simpa [BitVec.le_def] using this)]; omega
      · have := ih p (n - f.used.Memory)
        exact ⟨⟨0#64, by simp, rfl⟩, .cons this.1 this.2⟩
    · exact ⟨Lower.refl f, LowerL.refl _⟩

theorem releaseStack_not_terminated (f : Frame) (rest : List Frame) (n : BitVec 64) :
    (releaseStack f rest n).2 ≠ .terminated := by
  induction rest generalizing f n with
  | nil =>
    show (f.releaseMem n).2 ≠ _
    rcases releaseMem_cases f n with ⟨_, e⟩ | ⟨_, _, e⟩ | ⟨_, _, e⟩ <;> rw [e] <;> exact fun c => nomatch c
  | cons p ps ih =>
    unfold releaseStack
    split
    · split
      · exact fun c => nomatch c
      · exact ih p _
    · exact fun c => nomatch c

/-! ### the invariant is preserved by every legal step -/

theorem chainInv_congr {c c' : Frame} {ps : List Frame} (hh : c'.hard = c.hard) (hf : c'.flags = c.flags)
    (h : ChainInv c ps) : ChainInv c' ps := by
  cases ps with
  | nil => trivial
  | cons p ps =>
    obtain ⟨hch, hp, hl, hr⟩ := h
    exact ⟨⟨by rw [hh]; exact hch.hard, by unfold flagsSuperset; rw [hf]; exact hch.flags⟩, hp, hl, hr⟩

theorem requireCPU_same (f : Frame) (n : BitVec 64) :
    (f.requireCPU n).1.hard = f.hard ∧ (f.requireCPU n).1.flags = f.flags := by
  unfold Frame.requireCPU Frame.kill
  simp only
  repeat' split
  all_goals exact ⟨rfl, rfl⟩

theorem requireMem_same (f : Frame) (n : BitVec 64) :
    (f.requireMem n).1.hard = f.hard ∧ (f.requireMem n).1.flags = f.flags := by
  unfold Frame.requireMem Frame.kill
  simp only
  repeat' split
  all_goals exact ⟨rfl, rfl⟩

theorem releaseMem_same (f : Frame) (n : BitVec 64) :
    (f.releaseMem n).1.hard = f.hard ∧ (f.releaseMem n).1.flags = f.flags := by
  unfold Frame.releaseMem
  repeat' split
  all_goals exact ⟨rfl, rfl⟩

theorem setStop_same (f : Frame) (l : BitVec 8) :
    (f.setStop l).1.hard = f.hard ∧ (f.setStop l).1.flags = f.flags := by
  unfold Frame.setStop Frame.kill
  simp only
  split <;> exact ⟨rfl, rfl⟩

theorem inv_step {s : St} (op : Op) (h : Inv s) (hl : legalOp s op = true) : Inv (step s op).1 := by
  obtain ⟨hc, hch⟩ := h
  cases op with
  | push d =>
    have hl' : s.cur.live = true := hl
    exact ⟨child_frameOk d hc hl', child_chain _ _, hc, hl', hch⟩
  | pop =>
    show Inv (pop s).1
    obtain ⟨c, ps⟩ := s
    cases ps with
    | nil => exact ⟨hc, hch⟩
    | cons p ps =>
      obtain ⟨hcp, hp, hpl, hr⟩ := hch
      rw [pop_ok hc hp hpl hcp]
      have hs := charged_same p c
      exact ⟨charged_frameOk hc hp hcp, chainInv_congr hs.1 hs.2.2.1 hr⟩
  | reqCpu n =>
    have hl' : s.cur.live = true := hl
    have hs := requireCPU_same s.cur n
    exact ⟨requireCPU_frameOk n hc hl', chainInv_congr hs.1 hs.2 hch⟩
  | reqMem n =>
    have hl' : s.cur.live = true := hl
    have hs := requireMem_same s.cur n
    exact ⟨requireMem_frameOk n hc hl', chainInv_congr hs.1 hs.2 hch⟩
  | relMem n =>
    have hlow := releaseStack_lower s.cur s.parents n
    exact inv_lower hlow.1 hlow.2 (show Inv ⟨s.cur, s.parents⟩ from ⟨hc, hch⟩)
  | stop l =>
    have hs := setStop_same s.cur l
    exact ⟨setStop_frameOk l hc, chainInv_congr hs.1 hs.2 hch⟩
  | due => exact ⟨hc, hch⟩

theorem frameOk_root : FrameOk Frame.root := by
  refine ⟨Or.inl rfl, Or.inl rfl, rfl, ⟨Or.inl rfl, Or.inl rfl, Or.inl rfl⟩, ?_, ?_, ?_⟩
  · intro _; decide
  · intro h; exact absurd rfl h
  · intro h; exact absurd rfl h

theorem inv_init : Inv St.init := ⟨frameOk_root, trivial⟩

theorem inv_reachable {s0 s : St} (h0 : Inv s0) (hr : Reachable s0 s) : Inv s := by
  induction hr with
  | refl => exact h0
  | step op _ hl ih => exact inv_step op ih hl

theorem inv_run {s : St} {ops : List Op} (h : Inv s) (hl : Legal s ops) : Inv (run s ops) := by
  induction ops generalizing s with
  | nil => exact h
  | cons op ops ih => exact ih (inv_step op h hl.1) hl.2

/-! ### conservation of CPU -/

/-- the hard CPU limit of the outermost frame of the stack -/
def rootHard : Frame → List Frame → BitVec 64
  | c, [] => c.hard.Cpu
  | _, p :: ps => rootHard p ps

theorem rootHard_congr {c c' : Frame} (ps : List Frame) (h : c'.hard = c.hard) :
    rootHard c' ps = rootHard c ps := by
  cases ps with
  | nil => show c'.hard.Cpu = c.hard.Cpu; rw [h]
  | cons p ps => rfl

theorem sumCpu_lower {l' l : List Frame} (h : LowerL l' l) : sumCpu l' = sumCpu l := by
  induction h with
  | nil => rfl
  | cons hf _ ih => simp only [sumCpu]; rw [hf.same.2.2.2.2.2.2.2.1, ih]

theorem rootHard_lower {c c' : Frame} {ps ps' : List Frame} (hc : Lower c' c) (hps : LowerL ps' ps) :
    rootHard c' ps' = rootHard c ps := by
  induction hps generalizing c c' with
  | nil => show c'.hard.Cpu = c.hard.Cpu; rw [hc.same.1]
  | cons hf _ ih => exact ih hf

/-- If the outermost frame is CPU-limited then so is every frame, and the CPU recorded on the whole
stack stays strictly below the outermost limit. -/
theorem sum_bound {c : Frame} {ps : List Frame} (hc : FrameOk c) (hch : ChainInv c ps)
    (hr : rootHard c ps ≠ 0#64) :
    c.hard.Cpu ≠ 0#64 ∧ ∀ k, k < c.hard.Cpu.toNat → k + sumCpu ps < (rootHard c ps).toNat := by
  induction ps generalizing c with
  | nil => exact ⟨hr, fun k hk => by simpa [sumCpu, rootHard] using hk⟩
  | cons p ps ih =>
    obtain ⟨hcp, hp, _, hrest⟩ := hch
    obtain ⟨hp0, hb⟩ := ih hp hrest hr
    have hpu : p.used.Cpu.toNat < p.hard.Cpu.toNat := by
      rcases hp.cpu with h | h
      · exact absurd h hp0
      · exact h
    have hrem : (p.hard.Remove p.used).Cpu.toNat = p.hard.Cpu.toNat - p.used.Cpu.toNat := Remove_Cpu _ _
    have hrem0 : (p.hard.Remove p.used).Cpu ≠ 0#64 := by rw [ne_zero_iff, hrem]; omega
    have hle := limLe_le hcp.hard.1 hrem0
    refine ⟨limLe_ne_zero hcp.hard.1 hrem0, fun k hk => ?_⟩
    have := hb (k + p.used.Cpu.toNat) (by omega)
    show k + (p.used.Cpu.toNat + sumCpu ps) < (rootHard p ps).toNat
    omega

/-- CPU granted by one operation -/
def granted1 (s : St) (op : Op) : Nat :=
  match op, (step s op).2 with
  | .reqCpu n, .ok => n.toNat
  | _, _ => 0

theorem granted_cons (s : St) (op : Op) (ops : List Op) :
    granted s (op :: ops) = granted1 s op + granted (step s op).1 ops := rfl

theorem requireMem_usedCpu (f : Frame) (n : BitVec 64) : (f.requireMem n).1.used.Cpu = f.used.Cpu := by
  unfold Frame.requireMem Frame.kill
  simp only
  repeat' split
  all_goals rfl

theorem releaseMem_usedCpu (f : Frame) (n : BitVec 64) : (f.releaseMem n).1.used.Cpu = f.used.Cpu := by
  unfold Frame.releaseMem
  repeat' split
  all_goals rfl

theorem setStop_usedCpu (f : Frame) (l : BitVec 8) : (f.setStop l).1.used.Cpu = f.used.Cpu := by
  unfold Frame.setStop Frame.kill
  simp only
  split <;> rfl

/-- one legal step adds exactly the granted amount to the CPU recorded on the stack -/
theorem sum_step {s : St} (op : Op) (h : Inv s) (hr : rootHard s.cur s.parents ≠ 0#64)
    (hl : legalOp s op = true)
    (hno : ∀ n, op = .reqCpu n → n.toNat + (rootHard s.cur s.parents).toNat ≤ 2 ^ 64) :
    sumCpu (step s op).1.frames = sumCpu s.frames + granted1 s op ∧
    rootHard (step s op).1.cur (step s op).1.parents = rootHard s.cur s.parents := by
  obtain ⟨hc, hch⟩ := h
  obtain ⟨hc0, hb⟩ := sum_bound hc hch hr
  cases op with
  | push d => exact ⟨by simp [step, push, St.frames, sumCpu, granted1, Frame.child, Res.zero], rfl⟩
  | pop =>
    obtain ⟨c, ps⟩ := s
    cases ps with
    | nil => exact ⟨by simp [step, pop, granted1], rfl⟩
    | cons p ps =>
      obtain ⟨hcp, hp, hpl, hrest⟩ := hch
      obtain ⟨hp0, _⟩ := sum_bound hp hrest hr
      have hpop := pop_ok (ps := ps) hc hp hpl hcp
      have hs := charged_same p c
      have ⟨_, hsum⟩ := charge_cpu_below hc hp hcp
      have htc := hp.tcpu hp0
      have hu : (charged p c).used.Cpu.toNat = p.used.Cpu.toNat + c.used.Cpu.toNat := by
        have h2 := chargeMem_same (chargeCpu p c.used.Cpu) c.used.Memory
        unfold charged
        rw [h2.2.2.2.2.2.1]
        unfold chargeCpu
        rw [htc]
        exact hsum hp0
      constructor
      · simp only [step, granted1, hpop, St.frames, sumCpu, hu]; omega
      · simp only [step, hpop]
        exact rootHard_congr ps hs.1
  | reqCpu n =>
    have hl' : s.cur.live = true := hl
    have htc := hc.tcpu hc0
    have hsame := requireCPU_same s.cur n
    refine ⟨?_, rootHard_congr _ hsame.1⟩
    have hcu : s.cur.used.Cpu.toNat < s.cur.hard.Cpu.toNat := by
      rcases hc.cpu with h | h
      · exact absurd h hc0
      · exact h
    have hlt := hb _ hcu
    have hn := hno n rfl
    rcases requireCPU_live s.cur n hl' with ⟨ht, _⟩ | ⟨_, _, e⟩ | ⟨_, _, _, e⟩
    · rw [htc] at ht; cases ht
    · simp [step, onCur, granted1, e, St.frames, sumCpu, Frame.kill]
    · have : (s.cur.used.Cpu + n).toNat = s.cur.used.Cpu.toNat + n.toNat := by
        rw [BitVec.toNat_add]; apply Nat.mod_eq_of_lt; omega
      simp only [step, onCur, granted1, e, St.frames, sumCpu, this]; omega
  | reqMem n =>
    have hsame := requireMem_same s.cur n
    refine ⟨?_, rootHard_congr _ hsame.1⟩
    simp [step, onCur, granted1, St.frames, sumCpu, requireMem_usedCpu]
  | relMem n =>
    have hlow := releaseStack_lower s.cur s.parents n
    refine ⟨?_, rootHard_lower hlow.1 hlow.2⟩
    have := sumCpu_lower (LowerL.cons hlow.1 hlow.2)
    simp only [step, granted1, St.frames]
    simpa using this
  | stop l =>
    have hsame := setStop_same s.cur l
    refine ⟨?_, rootHard_congr _ hsame.1⟩
    simp [step, onCur, granted1, St.frames, sumCpu, setStop_usedCpu]
  | due => exact ⟨by simp [step, granted1], rfl⟩

theorem noOverflow_cons {L : BitVec 64} {op : Op} {ops : List Op} (h : NoOverflow L (op :: ops)) :
    (∀ n, op = .reqCpu n → n.toNat + L.toNat ≤ 2 ^ 64) ∧ NoOverflow L ops := by
  cases op with
  | reqCpu n => exact ⟨fun m e => (by cases e; exact h.1), h.2⟩
  | push d => exact ⟨fun _ e => (by cases e), h⟩
  | pop => exact ⟨fun _ e => (by cases e), h⟩
  | reqMem n => exact ⟨fun _ e => (by cases e), h⟩
  | relMem n => exact ⟨fun _ e => (by cases e), h⟩
  | stop l => exact ⟨fun _ e => (by cases e), h⟩
  | due => exact ⟨fun _ e => (by cases e), h⟩

/-- exact accounting: along a legal, overflow-free history the CPU recorded on the stack grows by
exactly the work granted -/
theorem sum_run {s : St} {ops : List Op} (h : Inv s) (hr : rootHard s.cur s.parents ≠ 0#64)
    (hl : Legal s ops) (hno : NoOverflow (rootHard s.cur s.parents) ops) :
    sumCpu (run s ops).frames = sumCpu s.frames + granted s ops := by
  induction ops generalizing s with
  | nil => simp [run, granted]
  | cons op ops ih =>
    obtain ⟨h1, h2⟩ := noOverflow_cons hno
    obtain ⟨hs, hroot⟩ := sum_step op h hr hl.1 h1
    have := ih (inv_step op h hl.1) (by rw [hroot]; exact hr) hl.2 (by rw [hroot]; exact h2)
    rw [granted_cons]
    show sumCpu (run (step s op).1 ops).frames = _
    omega

theorem rootHard_run {s : St} {ops : List Op} (h : Inv s) (hr : rootHard s.cur s.parents ≠ 0#64)
    (hl : Legal s ops) (hno : NoOverflow (rootHard s.cur s.parents) ops) :
    rootHard (run s ops).cur (run s ops).parents = rootHard s.cur s.parents := by
  induction ops generalizing s with
  | nil => rfl
  | cons op ops ih =>
    obtain ⟨h1, h2⟩ := noOverflow_cons hno
    obtain ⟨_, hroot⟩ := sum_step op h hr hl.1 h1
    have := ih (inv_step op h hl.1) (by rw [hroot]; exact hr) hl.2 (by rw [hroot]; exact h2)
    show rootHard (run (step s op).1 ops).cur (run (step s op).1 ops).parents = _
    rw [this, hroot]

/-- the stack never records as much CPU as the outermost limit -/
theorem sum_lt_root {s : St} (h : Inv s) (hr : rootHard s.cur s.parents ≠ 0#64) :
    sumCpu s.frames < (rootHard s.cur s.parents).toNat := by
  obtain ⟨hc, hch⟩ := h
  obtain ⟨hc0, hb⟩ := sum_bound hc hch hr
  have hcu : s.cur.used.Cpu.toNat < s.cur.hard.Cpu.toNat := by
    rcases hc.cpu with h | h
    · exact absurd h hc0
    · exact h
  exact hb _ hcu

/-! ### one frame, a sequence of CPU requests (C05) -/

/-- the CPU demand of a program: the amounts it asks for, in order -/
def cpuOps (ns : List (BitVec 64)) : List Op := ns.map .reqCpu

def usage : List (BitVec 64) → Nat
  | [] => 0
  | n :: ns => n.toNat + usage ns

/-- every amount can be added to a counter below `L` without wrapping -/
def Fits (L : BitVec 64) (ns : List (BitVec 64)) : Prop := ∀ n ∈ ns, n.toNat + L.toNat ≤ 2 ^ 64

/-- a frame in which CPU requests are metered against a limit -/
structure Metered (f : Frame) : Prop where
  live : f.live = true
  nostop : f.hardStopped = false
  track : f.trackCpu = true
  lim : f.hard.Cpu ≠ 0#64
  below : f.used.Cpu.toNat < f.hard.Cpu.toNat

theorem outcomes_cons (s : St) (op : Op) (ops : List Op) :
    outcomes s (op :: ops) = (step s op).2 :: outcomes (step s op).1 ops := rfl

/-- one metered request: killed iff the counter would reach the limit; otherwise the counter advances
by exactly the amount and the frame stays metered -/
theorem metered_step {f : Frame} (n : BitVec 64) (h : Metered f) (hn : n.toNat + f.hard.Cpu.toNat ≤ 2 ^ 64) :
    (f.hard.Cpu.toNat ≤ f.used.Cpu.toNat + n.toNat ∧ f.requireCPU n = (f.kill, .terminated)) ∨
    (f.used.Cpu.toNat + n.toNat < f.hard.Cpu.toNat ∧ (f.requireCPU n).2 = .ok ∧
      Metered (f.requireCPU n).1 ∧ (f.requireCPU n).1.hard = f.hard ∧
      (f.requireCPU n).1.used.Cpu.toNat = f.used.Cpu.toNat + n.toNat) := by
  have hb := h.below
  have hsum : (f.used.Cpu + n).toNat = f.used.Cpu.toNat + n.toNat := by
    rw [BitVec.toNat_add]; apply Nat.mod_eq_of_lt; omega
  rcases requireCPU_live f n h.live with ⟨ht', _⟩ | ⟨_, hk, e⟩ | ⟨_, _, ha, e⟩
  · rw [h.track] at ht'; cases ht'
  · left
    rcases hk with hk | hk
    · rw [h.nostop] at hk; cases hk
    · have := ((atLimit_iff _ _).mp hk).2
      rw [hsum] at this
      exact ⟨this, e⟩
  · right
    have hb2 := (atLimit_false_iff _ _).mp ha
    rcases hb2 with hb2 | hb2
    · exact absurd hb2 h.lim
    · rw [hsum] at hb2
      rw [e]
      exact ⟨hb2, rfl, ⟨h.live, h.nostop, h.track, h.lim, (by show (f.used.Cpu + n).toNat < f.hard.Cpu.toNat; omega)⟩, rfl, hsum⟩

/-- **exactness**: a program whose requests are `ns` is killed under limit `L` iff `L ≤ used + usage` -/
theorem kill_exact_aux {f : Frame} (ns : List (BitVec 64)) (h : Metered f) (hf : Fits f.hard.Cpu ns) :
    Outcome.terminated ∈ outcomes ⟨f, []⟩ (cpuOps ns) ↔ f.hard.Cpu.toNat ≤ f.used.Cpu.toNat + usage ns := by
  induction ns generalizing f with
  | nil =>
    have := h.below
    simp [cpuOps, outcomes, usage]; omega
  | cons n ns ih =>
    have hn := hf n (List.mem_cons_self)
    have hf' : Fits f.hard.Cpu ns := fun m hm => hf m (List.mem_cons_of_mem _ hm)
    show Outcome.terminated ∈ outcomes ⟨f, []⟩ (Op.reqCpu n :: cpuOps ns) ↔ _
    rw [outcomes_cons]
    show Outcome.terminated ∈ (f.requireCPU n).2 :: outcomes ⟨(f.requireCPU n).1, []⟩ (cpuOps ns) ↔ _
    rcases metered_step n h hn with ⟨hk, e⟩ | ⟨hlt, hok, hm, hh, hu⟩
    · rw [e]
      simp only [List.mem_cons, true_or, true_iff, usage]
      omega
    · have := ih hm (by rw [hh]; exact hf')
      rw [hok, hh, hu] at *
      simp only [List.mem_cons, usage]
      constructor
      · rintro (hc | hc)
        · cases hc
        · have := this.mp hc; omega
      · intro hc; right; exact this.mpr (by omega)

/-- when the program is not killed every request is granted and the counter ends at `used + usage` -/
theorem not_killed_runs_all {f : Frame} (ns : List (BitVec 64)) (h : Metered f) (hf : Fits f.hard.Cpu ns)
    (hlt : f.used.Cpu.toNat + usage ns < f.hard.Cpu.toNat) :
    outcomes ⟨f, []⟩ (cpuOps ns) = ns.map (fun _ => Outcome.ok) ∧
    (run ⟨f, []⟩ (cpuOps ns)).cur.used.Cpu.toNat = f.used.Cpu.toNat + usage ns ∧
    (run ⟨f, []⟩ (cpuOps ns)).cur.live = true := by
  induction ns generalizing f with
  | nil => exact ⟨rfl, by simp [cpuOps, run, usage], h.live⟩
  | cons n ns ih =>
    have hn := hf n (List.mem_cons_self)
    have hf' : Fits f.hard.Cpu ns := fun m hm => hf m (List.mem_cons_of_mem _ hm)
    simp only [usage] at hlt
    rcases metered_step n h hn with ⟨hk, _⟩ | ⟨_, hok, hm, hh, hu⟩
    · omega
    · have := ih hm (by rw [hh]; exact hf') (by rw [hh, hu]; omega)
      show (f.requireCPU n).2 :: outcomes ⟨(f.requireCPU n).1, []⟩ (cpuOps ns) = _ ∧
        (run ⟨(f.requireCPU n).1, []⟩ (cpuOps ns)).cur.used.Cpu.toNat = _ ∧
        (run ⟨(f.requireCPU n).1, []⟩ (cpuOps ns)).cur.live = true
      rw [hok, this.1, this.2.1, hu]
      exact ⟨rfl, by simp [usage]; omega, this.2.2⟩

/-! ### one frame, a sequence of memory requests and releases (C06) -/

inductive MemOp where
  | req (n : BitVec 64)
  | rel (n : BitVec 64)
  deriving DecidableEq, Repr

def MemOp.toOp : MemOp → Op
  | .req n => .reqMem n
  | .rel n => .relMem n

def memOps (ms : List MemOp) : List Op := ms.map MemOp.toOp

/-- the same frame under another memory limit -/
def withMemLimit (f : Frame) (M : BitVec 64) : Frame := { f with hard := { f.hard with Memory := M } }

/-- a frame without a hard memory limit is never terminated by memory operations -/
theorem unlimited_mem_never_killed {f : Frame} (ms : List MemOp) (hl : f.live = true) (hs : f.hardStopped = false)
    (h0 : f.hard.Memory = 0#64) : Outcome.terminated ∉ outcomes ⟨f, []⟩ (memOps ms) := by
  induction ms generalizing f with
  | nil => simp [memOps, outcomes]
  | cons m ms ih =>
    cases m with
    | req n =>
      show Outcome.terminated ∉ (f.requireMem n).2 :: outcomes ⟨(f.requireMem n).1, []⟩ (memOps ms)
      have ha : atLimit (f.used.Memory + n) f.hard.Memory = false := (atLimit_false_iff _ _).mpr (Or.inl h0)
      rw [requireMem_charge f n hl hs ha]
      have hsame := chargeMem_same f n
      have := ih (f := chargeMem f n) (by unfold Frame.live; rw [hsame.2.2.2.1]; exact hl)
        (by unfold Frame.hardStopped; rw [hsame.2.2.2.2.1]; exact hs) (by rw [hsame.1]; exact h0)
      simp only [List.mem_cons, not_or]
      exact ⟨(by decide), this⟩
    | rel n =>
      show Outcome.terminated ∉ (f.releaseMem n).2 :: outcomes ⟨(f.releaseMem n).1, []⟩ (memOps ms)
      rcases releaseMem_cases f n with ⟨_, e⟩ | ⟨hne, _⟩ | ⟨hne, _⟩
      · rw [e]; simp only [List.mem_cons, not_or]; exact ⟨(by decide), ih hl hs h0⟩
      · exact absurd h0 hne
      · exact absurd h0 hne

/-- **monotonicity in M**: the same sequence of memory operations, if it survives under the smaller
limit `M'`, survives under any larger (or no) limit `M` -/
theorem mem_monotone_aux {f : Frame} (ms : List MemOp) (M M' : BitVec 64) (hl : f.live = true)
    (hs : f.hardStopped = false) (ht : f.trackMem = true) (hM' : M' ≠ 0#64) (hM : M ≠ 0#64)
    (hle : M'.toNat ≤ M.toNat)
    (h : Outcome.terminated ∉ outcomes ⟨withMemLimit f M', []⟩ (memOps ms)) :
    Outcome.terminated ∉ outcomes ⟨withMemLimit f M, []⟩ (memOps ms) := by
  induction ms generalizing f with
  | nil => simp [memOps, outcomes]
  | cons m ms ih =>
    cases m with
    | req n =>
      have h' : Outcome.terminated ∉ ((withMemLimit f M').requireMem n).2 ::
          outcomes ⟨((withMemLimit f M').requireMem n).1, []⟩ (memOps ms) := h
      show Outcome.terminated ∉ ((withMemLimit f M).requireMem n).2 ::
          outcomes ⟨((withMemLimit f M).requireMem n).1, []⟩ (memOps ms)
      rcases requireMem_live (withMemLimit f M') n hl with ⟨ht', _⟩ | ⟨_, _, e⟩ | ⟨_, _, ha, e⟩
      · have : (withMemLimit f M').trackMem = f.trackMem := rfl
        rw [this, ht] at ht'; cases ht'
      · rw [e] at h'; exact absurd List.mem_cons_self h'
      · have hb := (atLimit_false_iff _ _).mp ha
        have hb' : (f.used.Memory + n).toNat < M'.toNat := by
          rcases hb with hb | hb
          · exact absurd hb hM'
          · exact hb
        have ha2 : atLimit ((withMemLimit f M).used.Memory + n) (withMemLimit f M).hard.Memory = false :=
          (atLimit_false_iff _ _).mpr (Or.inr (by show (f.used.Memory + n).toNat < M.toNat; omega))
        rw [requireMem_charge (withMemLimit f M) n hl hs ha2]
        rw [e] at h'
        let g : Frame := { f with used := { f.used with Memory := f.used.Memory + n } }
        have e1 : chargeMem (withMemLimit f M) n = withMemLimit g M := by
          unfold chargeMem
          split
          · rfl
          · rename_i hc; exact absurd ht hc
        rw [e1]
        have h'' : Outcome.terminated ∉ outcomes ⟨withMemLimit g M', []⟩ (memOps ms) := by
          intro hc; exact h' (List.mem_cons_of_mem _ hc)
        simp only [List.mem_cons, not_or]
        exact ⟨(by decide), ih (f := g) hl hs ht h''⟩
    | rel n =>
      have h' : Outcome.terminated ∉ ((withMemLimit f M').releaseMem n).2 ::
          outcomes ⟨((withMemLimit f M').releaseMem n).1, []⟩ (memOps ms) := h
      show Outcome.terminated ∉ ((withMemLimit f M).releaseMem n).2 ::
          outcomes ⟨((withMemLimit f M).releaseMem n).1, []⟩ (memOps ms)
      rcases releaseMem_cases (withMemLimit f M') n with ⟨h0, _⟩ | ⟨_, hn, e'⟩ | ⟨_, hn, e'⟩
      · exact absurd h0 hM'
      · rcases releaseMem_cases (withMemLimit f M) n with ⟨h0, _⟩ | ⟨_, _, e⟩ | ⟨_, hn2, _⟩
        · exact absurd h0 hM
        · rw [e]; rw [e'] at h'
          let g : Frame := { f with used := { f.used with Memory := f.used.Memory - n } }
          have h'' : Outcome.terminated ∉ outcomes ⟨withMemLimit g M', []⟩ (memOps ms) := by
            intro hc; exact h' (List.mem_cons_of_mem _ hc)
          simp only [List.mem_cons, not_or]
          exact ⟨(by decide), ih (f := g) hl hs ht h''⟩
        · have : (withMemLimit f M).used.Memory.toNat = (withMemLimit f M').used.Memory.toNat := rfl
          omega
      · rcases releaseMem_cases (withMemLimit f M) n with ⟨h0, _⟩ | ⟨_, hn2, _⟩ | ⟨_, _, e⟩
        · exact absurd h0 hM
        · have : (withMemLimit f M).used.Memory.toNat = (withMemLimit f M').used.Memory.toNat := rfl
          omega
        · rw [e]; rw [e'] at h'
          have h'' : Outcome.terminated ∉ outcomes ⟨withMemLimit f M', []⟩ (memOps ms) := by
            intro hc; exact h' (List.mem_cons_of_mem _ hc)
          simp only [List.mem_cons, not_or]
          exact ⟨(by decide), ih hl hs ht h''⟩

/-- a frame releases only what it has itself required since `b` bytes were outstanding -/
def Balanced : Nat → List MemOp → Prop
  | _, [] => True
  | b, .req n :: r => Balanced (b + n.toNat) r
  | b, .rel n :: r => n.toNat ≤ b ∧ Balanced (b - n.toNat) r

def FitsMem (M : BitVec 64) (ms : List MemOp) : Prop := ∀ n, MemOp.req n ∈ ms → n.toNat + M.toNat ≤ 2 ^ 64

theorem legal_dead_nil {f : Frame} {ms : List MemOp} (hd : f.live = false) (h : Legal ⟨f, []⟩ (memOps ms)) :
    ms = [] := by
  cases ms with
  | nil => rfl
  | cons m ms =>
    have := h.1
    cases m <;> (simp only [MemOp.toOp, legalOp] at this; rw [hd] at this; cases this)

theorem balanced_no_crash {f : Frame} (ms : List MemOp) (b : Nat) (hl : f.live = true)
    (hs : f.hardStopped = false) (ht : f.trackMem = true) (h0 : f.hard.Memory ≠ 0#64)
    (hu : f.used.Memory.toNat < f.hard.Memory.toNat) (hb : b ≤ f.used.Memory.toNat)
    (hbal : Balanced b ms) (hfit : FitsMem f.hard.Memory ms) (hleg : Legal ⟨f, []⟩ (memOps ms)) :
    Outcome.crash ∉ outcomes ⟨f, []⟩ (memOps ms) := by
  induction ms generalizing f b with
  | nil => simp [memOps, outcomes]
  | cons m ms ih =>
    cases m with
    | req n =>
      show Outcome.crash ∉ (f.requireMem n).2 :: outcomes ⟨(f.requireMem n).1, []⟩ (memOps ms)
      have hleg' : Legal ⟨(f.requireMem n).1, []⟩ (memOps ms) := hleg.2
      have hn := hfit n List.mem_cons_self
      have hfit' : FitsMem f.hard.Memory ms := fun k hk => hfit k (List.mem_cons_of_mem _ hk)
      rcases requireMem_live f n hl with ⟨ht', _⟩ | ⟨_, _, e⟩ | ⟨_, _, ha, e⟩
      · rw [ht] at ht'; cases ht'
      · rw [e] at hleg' ⊢
        have := legal_dead_nil (kill_live f) hleg'
        subst this
        simp [memOps, outcomes]
      · rw [e] at hleg' ⊢
        have hsum : (f.used.Memory + n).toNat = f.used.Memory.toNat + n.toNat := by
          rw [BitVec.toNat_add]; apply Nat.mod_eq_of_lt; omega
        have hlt : (f.used.Memory + n).toNat < f.hard.Memory.toNat := by
          rcases (atLimit_false_iff _ _).mp ha with hh | hh
          · exact absurd hh h0
          · exact hh
        have := ih (f := { f with used := { f.used with Memory := f.used.Memory + n } }) (b + n.toNat)
          hl hs ht h0 hlt (by show b + n.toNat ≤ (f.used.Memory + n).toNat; omega) hbal hfit' hleg'
        simp only [List.mem_cons, not_or]
        exact ⟨(by decide), this⟩
    | rel n =>
      show Outcome.crash ∉ (f.releaseMem n).2 :: outcomes ⟨(f.releaseMem n).1, []⟩ (memOps ms)
      have hleg' : Legal ⟨(f.releaseMem n).1, []⟩ (memOps ms) := hleg.2
      have hfit' : FitsMem f.hard.Memory ms := fun k hk => hfit k (List.mem_cons_of_mem _ hk)
      obtain ⟨hnb, hbal'⟩ := hbal
      rcases releaseMem_cases f n with ⟨hz, _⟩ | ⟨_, hle, e⟩ | ⟨_, hlt, _⟩
      · exact absurd hz h0
      · rw [e] at hleg' ⊢
        have hsub : (f.used.Memory - n).toNat = f.used.Memory.toNat - n.toNat :=
          BitVec.toNat_sub_of_le (by simpa [BitVec.le_def] using hle)
        have := ih (f := { f with used := { f.used with Memory := f.used.Memory - n } }) (b - n.toNat)
          hl hs ht h0 (by show (f.used.Memory - n).toNat < f.hard.Memory.toNat; omega)
          (by show b - n.toNat ≤ (f.used.Memory - n).toNat; omega) hbal' hfit' hleg'
        simp only [List.mem_cons, not_or]
        exact ⟨(by decide), this⟩
      · omega

/-! ### what the cascading release does to the accounted memory (C06, commit 8007e69) -/

/-- memory accounted on a list of frames -/
def memOf : List Frame → Nat
  | [] => 0
  | f :: l => f.used.Memory.toNat + memOf l

/-- the frames a release can reach: from the active context down to (excluding) the first context
without a hard memory limit, which ignores releases -/
def limitedPrefix : List Frame → List Frame
  | [] => []
  | f :: l => if f.hard.Memory = 0#64 then [] else f :: limitedPrefix l

/-- the stack after a release, active context first -/
def releasedFrames (f : Frame) (rest : List Frame) (n : BitVec 64) : List Frame :=
  (releaseStack f rest n).1.1 :: (releaseStack f rest n).1.2

/-- what a release does, in four clauses: (1) covered: exactly `n` bytes leave the books, all of them
from the reachable frames; (2) the only crash: every context down to the outermost is memory-limited
and together they hold less than `n`; (3) not covered but an unlimited context below: the reachable
frames are drained and the rest of the amount is silently dropped; (4) innermost first: a parent is
touched only once the active context is empty -/
def ReleaseSpec (f : Frame) (rest : List Frame) (n : BitVec 64) : Prop :=
  (n.toNat ≤ memOf (limitedPrefix (f :: rest)) →
    (releaseStack f rest n).2 = .ok ∧
    memOf (releasedFrames f rest n) + n.toNat = memOf (f :: rest) ∧
    memOf (limitedPrefix (releasedFrames f rest n)) + n.toNat = memOf (limitedPrefix (f :: rest))) ∧
  ((releaseStack f rest n).2 = .crash ↔
    (limitedPrefix (f :: rest) = f :: rest ∧ memOf (f :: rest) < n.toNat)) ∧
  (memOf (limitedPrefix (f :: rest)) < n.toNat → limitedPrefix (f :: rest) ≠ f :: rest →
    (releaseStack f rest n).2 = .ok ∧ memOf (limitedPrefix (releasedFrames f rest n)) = 0) ∧
  ((releaseStack f rest n).1.2 ≠ rest → (releaseStack f rest n).1.1.used.Memory = 0#64)

theorem limitedPrefix_lower_hard (f : Frame) (m : BitVec 64) (l : List Frame) (h0 : f.hard.Memory ≠ 0#64) :
    limitedPrefix ({ f with used := { f.used with Memory := m } } :: l) =
      { f with used := { f.used with Memory := m } } :: limitedPrefix l := by
  show (if f.hard.Memory = 0#64 then _ else _) = _
  rw [if_neg h0]

theorem limitedPrefix_cons_limited (f : Frame) (l : List Frame) (h0 : f.hard.Memory ≠ 0#64) :
    limitedPrefix (f :: l) = f :: limitedPrefix l := by
  show (if f.hard.Memory = 0#64 then _ else _) = _
  rw [if_neg h0]

theorem limitedPrefix_cons_unlimited (f : Frame) (l : List Frame) (h0 : f.hard.Memory = 0#64) :
    limitedPrefix (f :: l) = [] := by
  show (if f.hard.Memory = 0#64 then _ else _) = _
  rw [if_pos h0]

theorem releaseStack_spec (f : Frame) (rest : List Frame) (n : BitVec 64) : ReleaseSpec f rest n := by
  induction rest generalizing f n with
  | nil =>
    have hrs : releaseStack f [] n = (((f.releaseMem n).1, []), (f.releaseMem n).2) := rfl
    unfold ReleaseSpec releasedFrames
    rw [hrs]
    rcases releaseMem_cases f n with ⟨h0, e⟩ | ⟨h0, hle, e⟩ | ⟨h0, hlt, e⟩ <;> rw [e]
    · rw [limitedPrefix_cons_unlimited f [] h0]
      refine ⟨fun h => ⟨rfl, ?_, ?_⟩, ⟨(fun h => nomatch h), (fun h => nomatch h.1)⟩, (fun _ _ => ⟨rfl, ?_⟩),
        (fun h => absurd rfl h)⟩
      · simp only [memOf] at h ⊢; omega
      · simp only [memOf] at h ⊢; omega
      · rfl
    · have hsub : (f.used.Memory - n).toNat = f.used.Memory.toNat - n.toNat :=
        BitVec.toNat_sub_of_le (by simpa [BitVec.le_def] using hle)
      rw [limitedPrefix_cons_limited f [] h0]
      refine ⟨fun _ => ⟨rfl, ?_, ?_⟩, ⟨(fun h => nomatch h), (fun h => ?_)⟩, (fun h => ?_), (fun h => absurd rfl h)⟩
      · simp only [memOf, hsub]; omega
      · show memOf (limitedPrefix [{ f with used := { f.used with Memory := f.used.Memory - n } }]) + n.toNat = _
        rw [limitedPrefix_lower_hard f _ [] h0]
        simp only [memOf, limitedPrefix, hsub]; omega
      · have := h.2; simp only [memOf] at this; omega
      · simp only [memOf, limitedPrefix] at h; omega
    · rw [limitedPrefix_cons_limited f [] h0]
      refine ⟨fun h => ?_, ⟨(fun _ => ⟨rfl, ?_⟩), (fun _ => rfl)⟩, (fun _ hne => absurd rfl hne), (fun h => absurd rfl h)⟩
      · simp only [memOf, limitedPrefix] at h; omega
      · simp only [memOf]; omega
  | cons p ps ih =>
    by_cases h0 : f.hard.Memory = 0#64
    · have hrs : releaseStack f (p :: ps) n = ((f, p :: ps), .ok) := by
        unfold releaseStack
        have : BitVec.ult 0#64 f.hard.Memory = false := by rw [h0]; rfl
        rw [this]; rfl
      unfold ReleaseSpec releasedFrames
      rw [hrs, limitedPrefix_cons_unlimited f _ h0]
      refine ⟨fun h => ⟨rfl, ?_, ?_⟩, ⟨(fun h => nomatch h), (fun h => nomatch h.1)⟩, (fun _ _ => ⟨rfl, ?_⟩),
        (fun h => absurd rfl h)⟩
      · simp only [memOf] at h ⊢; omega
      · simp only [memOf] at h ⊢; omega
      · rfl
    · have hu : BitVec.ult 0#64 f.hard.Memory = true := (ult_zero_iff _).mpr h0
      by_cases hle : n.toNat ≤ f.used.Memory.toNat
      · have hrs : releaseStack f (p :: ps) n =
            (({ f with used := { f.used with Memory := f.used.Memory - n } }, p :: ps), .ok) := by
          unfold releaseStack
          have : BitVec.ule n f.used.Memory = true := by simpa [BitVec.ule] using hle
          rw [hu, this]; rfl
        have hsub : (f.used.Memory - n).toNat = f.used.Memory.toNat - n.toNat :=
          BitVec.toNat_sub_of_le (by simpa [BitVec.le_def] using hle)
        unfold ReleaseSpec releasedFrames
        rw [hrs, limitedPrefix_cons_limited f _ h0]
        refine ⟨fun _ => ⟨rfl, ?_, ?_⟩, ⟨(fun h => nomatch h), (fun h => ?_)⟩, (fun h => ?_), (fun h => absurd rfl h)⟩
        · simp only [memOf, hsub]; omega
        · show memOf (limitedPrefix ({ f with used := { f.used with Memory := f.used.Memory - n } } :: p :: ps)) + n.toNat = _
          rw [limitedPrefix_lower_hard f _ _ h0]
          simp only [memOf, hsub]; omega
        · have := h.2; simp only [memOf] at this; omega
        · simp only [memOf] at h; omega
      · have hlt : f.used.Memory.toNat < n.toNat := by omega
        have hrs : releaseStack f (p :: ps) n =
            (({ f with used := { f.used with Memory := 0#64 } },
              (releaseStack p ps (n - f.used.Memory)).1.1 :: (releaseStack p ps (n - f.used.Memory)).1.2),
             (releaseStack p ps (n - f.used.Memory)).2) := by
          conv => lhs; unfold releaseStack
          have : BitVec.ule n f.used.Memory = false := by simpa [BitVec.ule] using hle
          rw [hu, this]; rfl
        have hsub : (n - f.used.Memory).toNat = n.toNat - f.used.Memory.toNat :=
          BitVec.toNat_sub_of_le (by simp [BitVec.le_def]; omega)
        have IH := ih p (n - f.used.Memory)
        unfold ReleaseSpec releasedFrames at IH ⊢
        rw [hrs, limitedPrefix_cons_limited f _ h0]
        have hz : ({ f with used := { f.used with Memory := 0#64 } } : Frame).used.Memory.toNat = 0 := rfl
        generalize releaseStack p ps (n - f.used.Memory) = R at IH ⊢
        refine ⟨fun h => ?_, ?_, (fun h hne => ?_), (fun _ => rfl)⟩
        · simp only [memOf] at h
          obtain ⟨h1, h2, h3⟩ := IH.1 (by rw [hsub]; omega)
          refine ⟨h1, ?_, ?_⟩
          · show ({ f with used := { f.used with Memory := 0#64 } } : Frame).used.Memory.toNat +
                memOf (R.1.1 :: R.1.2) + n.toNat = f.used.Memory.toNat + memOf (p :: ps)
            rw [hz]; rw [hsub] at h2; omega
          · show memOf (limitedPrefix ({ f with used := { f.used with Memory := 0#64 } } :: _)) + n.toNat =
              f.used.Memory.toNat + memOf (limitedPrefix (p :: ps))
            rw [limitedPrefix_lower_hard f _ _ h0]
            show ({ f with used := { f.used with Memory := 0#64 } } : Frame).used.Memory.toNat +
                memOf (limitedPrefix (R.1.1 :: R.1.2)) + n.toNat = _
            rw [hz]; rw [hsub] at h3; omega
        · show R.2 = .crash ↔ _
          rw [IH.2.1, hsub]
          simp only [memOf]
          constructor
          · rintro ⟨h1, h2⟩; exact ⟨by rw [h1], by omega⟩
          · rintro ⟨h1, h2⟩
            injection h1 with _ h1
            exact ⟨h1, by omega⟩
        · simp only [memOf] at h
          have hne' : limitedPrefix (p :: ps) ≠ p :: ps := fun c => hne (by rw [c])
          obtain ⟨h1, h2⟩ := IH.2.2.1 (by rw [hsub]; omega) hne'
          refine ⟨h1, ?_⟩
          show memOf (limitedPrefix ({ f with used := { f.used with Memory := 0#64 } } :: _)) = 0
          rw [limitedPrefix_lower_hard f _ _ h0]
          show ({ f with used := { f.used with Memory := 0#64 } } : Frame).used.Memory.toNat +
              memOf (limitedPrefix (R.1.1 :: R.1.2)) = 0
          rw [hz, h2]

/-- the hard memory limit of the outermost context of the stack -/
def rootHardMem : Frame → List Frame → BitVec 64
  | c, [] => c.hard.Memory
  | _, p :: ps => rootHardMem p ps

theorem rootHardMem_congr {c c' : Frame} (ps : List Frame) (h : c'.hard = c.hard) :
    rootHardMem c' ps = rootHardMem c ps := by
  cases ps with
  | nil => show c'.hard.Memory = c.hard.Memory; rw [h]
  | cons p ps => rfl

theorem rootHardMem_lower {c c' : Frame} {ps ps' : List Frame} (hc : Lower c' c) (hps : LowerL ps' ps) :
    rootHardMem c' ps' = rootHardMem c ps := by
  induction hps generalizing c c' with
  | nil => show c'.hard.Memory = c.hard.Memory; rw [hc.same.1]
  | cons hf _ ih => exact ih hf

/-- no operation whatsoever (legal or not) changes the hard memory limit of the outermost context -/
theorem rootHardMem_step (s : St) (op : Op) :
    rootHardMem (step s op).1.cur (step s op).1.parents = rootHardMem s.cur s.parents := by
  cases op with
  | push d => rfl
  | pop =>
    obtain ⟨c, ps⟩ := s
    cases ps with
    | nil => rfl
    | cons p ps =>
      show rootHardMem (pop ⟨c, p :: ps⟩).1.cur (pop ⟨c, p :: ps⟩).1.parents = rootHardMem p ps
      unfold pop
      simp only
      have h1 := requireCPU_same p c.used.Cpu
      cases hq : p.requireCPU c.used.Cpu with
      | mk p1 o1 =>
        rw [hq] at h1
        have h2 := requireMem_same p1 c.used.Memory
        cases o1 with
        | ok =>
          simp only
          cases hq2 : p1.requireMem c.used.Memory with
          | mk p2 o2 =>
            rw [hq2] at h2
            cases o2 with
            | ok => exact rootHardMem_congr ps (h2.1.trans h1.1)
            | terminated => exact rootHardMem_congr ps (h2.1.trans h1.1)
            | crash => exact rootHardMem_congr ps (h2.1.trans h1.1)
        | terminated => exact rootHardMem_congr ps h1.1
        | crash => exact rootHardMem_congr ps h1.1
  | reqCpu n => exact rootHardMem_congr _ (requireCPU_same s.cur n).1
  | reqMem n => exact rootHardMem_congr _ (requireMem_same s.cur n).1
  | relMem n =>
    have h := releaseStack_lower s.cur s.parents n
    exact rootHardMem_lower h.1 h.2
  | stop l => exact rootHardMem_congr _ (setStop_same s.cur l).1
  | due => rfl

theorem all_limited_root (c : Frame) (ps : List Frame) (h : limitedPrefix (c :: ps) = c :: ps) :
    rootHardMem c ps ≠ 0#64 := by
  induction ps generalizing c with
  | nil =>
    intro h0
    have : c.hard.Memory = 0#64 := h0
    rw [limitedPrefix_cons_unlimited c [] this] at h; cases h
  | cons p ps ih =>
    by_cases h0 : c.hard.Memory = 0#64
    · rw [limitedPrefix_cons_unlimited c _ h0] at h; cases h
    · rw [limitedPrefix_cons_limited c _ h0] at h
      injection h with _ h
      exact ih p h

/-! ### the inherited-limit flags (52f8e49) are set at push and never change -/

theorem requireCPU_inh (f : Frame) (n : BitVec 64) :
    (f.requireCPU n).1.inhCpu = f.inhCpu ∧ (f.requireCPU n).1.inhMem = f.inhMem := by
  unfold Frame.requireCPU Frame.kill; simp only; repeat' split
  all_goals exact ⟨rfl, rfl⟩

theorem requireMem_inh (f : Frame) (n : BitVec 64) :
    (f.requireMem n).1.inhCpu = f.inhCpu ∧ (f.requireMem n).1.inhMem = f.inhMem := by
  unfold Frame.requireMem Frame.kill; simp only; repeat' split
  all_goals exact ⟨rfl, rfl⟩

theorem setStop_inh (f : Frame) (l : BitVec 8) :
    (f.setStop l).1.inhCpu = f.inhCpu ∧ (f.setStop l).1.inhMem = f.inhMem := by
  unfold Frame.setStop Frame.kill; simp only; split <;> exact ⟨rfl, rfl⟩

theorem charged_inh (p c : Frame) : (charged p c).inhCpu = p.inhCpu ∧ (charged p c).inhMem = p.inhMem := by
  unfold charged chargeMem chargeCpu
  split <;> split <;> exact ⟨rfl, rfl⟩

theorem popped_inh (f : Frame) : f.popped.inhCpu = f.inhCpu ∧ f.popped.inhMem = f.inhMem := by
  unfold Frame.popped; split <;> exact ⟨rfl, rfl⟩

/-! ### lattice laws of the limit merge (0 = unlimited is the top element) -/

theorem pick_glb (a b x : BitVec 64) (ha : limLe x a) (hb : limLe x b) :
    limLe x (if smallerLimit b a then b else a) := by
  split <;> assumption

theorem pick_comm (a b : BitVec 64) :
    (if smallerLimit b a then b else a) = (if smallerLimit a b then a else b) := by
  by_cases h1 : smallerLimit b a = true <;> by_cases h2 : smallerLimit a b = true <;>
    simp only [h1, h2, if_true, if_false, Bool.false_eq_true] <;>
    (have h1' := h1; have h2' := h2
     rw [smallerLimit_iff] at h1' h2'
     apply BitVec.eq_of_toNat_eq
     have e0 : ∀ z : BitVec 64, z = 0#64 ↔ z.toNat = 0 := fun z => by
       constructor
       · intro h; subst h; rfl
       · intro h; exact BitVec.eq_of_toNat_eq (by simpa using h)
     simp only [ne_eq, e0] at h1' h2'
     omega)

theorem below_pick_iff (v a b : BitVec 64) :
    below v (if smallerLimit b a then b else a) ↔ below v a ∧ below v b := by
  have e0 : ∀ z : BitVec 64, z = 0#64 ↔ z.toNat = 0 := fun z => by
    constructor
    · intro h; subst h; rfl
    · intro h; exact BitVec.eq_of_toNat_eq (by simpa using h)
  by_cases h1 : smallerLimit b a = true
  · have h1' := (smallerLimit_iff b a).mp h1
    simp only [h1, if_true, below, ne_eq, e0] at *
    omega
  · have h1' : ¬ _ := fun c => h1 ((smallerLimit_iff b a).mpr c)
    simp only [h1, if_false, below, ne_eq, e0, Bool.false_eq_true] at *
    omega

theorem pick_idem (a : BitVec 64) : (if smallerLimit a a then a else a) = a := by split <;> rfl

theorem pick_assoc (a b c : BitVec 64) :
    (if smallerLimit c (if smallerLimit b a then b else a) then c else (if smallerLimit b a then b else a)) =
    (if smallerLimit (if smallerLimit c b then c else b) a then (if smallerLimit c b then c else b) else a) := by
  have e0 : ∀ z : BitVec 64, z = 0#64 ↔ z.toNat = 0 := fun z => by
    constructor
    · intro h; subst h; rfl
    · intro h; exact BitVec.eq_of_toNat_eq (by simpa using h)
  have sl : ∀ n m : BitVec 64, smallerLimit n m = true ↔ (n.toNat ≠ 0 ∧ (m.toNat = 0 ∨ n.toNat < m.toNat)) := by
    intro n m; rw [smallerLimit_iff]; simp only [ne_eq, e0]
  by_cases h1 : smallerLimit b a = true <;> by_cases h2 : smallerLimit c b = true <;>
    simp only [h1, h2, if_true, if_false, Bool.false_eq_true] <;>
    by_cases h3 : smallerLimit c a = true <;>
    simp only [h3, if_true, if_false, Bool.false_eq_true] <;>
    (apply BitVec.eq_of_toNat_eq
     simp only [Bool.not_eq_true] at *
     first
     | rfl
     | (exfalso
        have H1 := sl b a; have H2 := sl c b; have H3 := sl c a
        simp only [h1, h2, h3, Bool.false_eq_true, true_iff, false_iff] at H1 H2 H3
        omega)
     | (have H1 := sl b a; have H2 := sl c b; have H3 := sl c a
        simp only [h1, h2, h3, Bool.false_eq_true, true_iff, false_iff] at H1 H2 H3
        omega))

theorem res_ext (a b : RuntimeResources) (h1 : a.Cpu = b.Cpu) (h2 : a.Memory = b.Memory)
    (h3 : a.Millis = b.Millis) : a = b := by
  cases a; cases b; simp_all


/-- componentwise order on counter vectors -/
def cntLe (a b : RuntimeResources) : Prop :=
  a.Cpu.toNat ≤ b.Cpu.toNat ∧ a.Memory.toNat ≤ b.Memory.toNat ∧ a.Millis.toNat ≤ b.Millis.toNat


theorem sl_nat (n m : BitVec 64) :
    smallerLimit n m = true ↔ (n.toNat ≠ 0 ∧ (m.toNat = 0 ∨ n.toNat < m.toNat)) := by
  have e0 : ∀ z : BitVec 64, z = 0#64 ↔ z.toNat = 0 := fun z => by
    constructor
    · intro h; subst h; rfl
    · intro h; exact BitVec.eq_of_toNat_eq (by simpa using h)
  rw [smallerLimit_iff]; simp only [ne_eq, e0]


end GoluaVerif.Proofs.Ctx
