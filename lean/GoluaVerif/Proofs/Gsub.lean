/-
  Proofs.Gsub — the stepping loop of `gsub` (Model.Gsub.gsubLoop) makes progress, for EVERY matcher
  that returns matches lying at or after the requested start and inside the subject.
-/
import GoluaVerif.Model.Gsub
namespace GoluaVerif.Model.Gsub
open GoluaVerif.Model

/-- what the loops assume of `pat.Match(s, si, …)`: a match starts at or after `si`, is not reversed, and ends
    inside the subject -/
def MatcherOK (len : Nat) (matcher : Matcher) : Prop :=
  ∀ si gc rest, matcher si = some (gc :: rest) → si ≤ gc.start ∧ gc.start ≤ gc.stop ∧ gc.stop ≤ len

/-- relation between a later accepted match and an earlier one -/
def After (later earlier : Int × Int) : Prop :=
  earlier.2 ≤ later.1 ∧ ((later.1 = later.2 ∨ earlier.1 = earlier.2) → earlier.2 < later.1)

/-- loop invariant -/
structure Inv (len : Nat) (st : GsubState) : Prop where
  si_nonneg : 0 ≤ st.si
  si_le : st.si ≤ len + 1
  sj_nonneg : 0 ≤ st.sj
  sj_le : st.sj ≤ st.si
  visited_lt : ∀ v ∈ st.visited, v < st.si
  visited_sorted : st.visited.Pairwise (· > ·)
  acc_le : ∀ m ∈ st.accepted, m.2 ≤ st.si ∧ (st.allowEmpty = true → m.2 < st.si) ∧ (m.1 = m.2 → m.2 < st.si)
  acc_sorted : st.accepted.Pairwise After

theorem inv_init (len : Nat) : Inv len {} := by
  constructor <;> simp <;> omega

theorem sliceE_ok (s : Subject) (a b : Int) (h : 0 ≤ a ∧ a ≤ b ∧ b ≤ s.size) : ∃ l, sliceE s a b = .ok l := by
  unfold sliceE; simp [h]

/-- a rejected match: only `advance` -/
theorem inv_reject {len : Nat} {st : GsubState} {start stop : Int} (h : Inv len st)
    (h1 : st.si ≤ start) (h2 : start ≤ stop) (h3 : stop ≤ len)
    (hrej : ¬ (st.allowEmpty = true ∨ start ≠ st.si ∨ stop ≠ st.si)) :
    Inv len (advance { st with visited := st.si :: st.visited } start stop) := by
  have hs : start = st.si := by
    apply Classical.byContradiction; intro hne; exact hrej (Or.inr (Or.inl hne))
  have he : stop = st.si := by
    apply Classical.byContradiction; intro hne; exact hrej (Or.inr (Or.inr hne))
  have hae : st.allowEmpty = false := by
    cases hx : st.allowEmpty with
    | false => rfl
    | true => exact absurd (Or.inl hx) hrej
  have hge : start ≥ stop := by omega
  unfold advance
  constructor <;> simp only [hge, if_true, decide_true]
  · have := h.si_nonneg; omega
  · omega
  · exact h.sj_nonneg
  · have := h.sj_le; omega
  · intro v hv
    rcases List.mem_cons.mp hv with rfl | hv
    · omega
    · have := h.visited_lt v hv; omega
  · refine List.pairwise_cons.mpr ⟨?_, h.visited_sorted⟩
    intro v hv; exact h.visited_lt v hv
  · intro m hm
    have := h.acc_le m hm
    refine ⟨by omega, fun _ => by omega, fun _ => by omega⟩
  · exact h.acc_sorted

/-- an accepted match: substitute, then `advance` -/
theorem inv_accept {len : Nat} {st : GsubState} {start stop : Int} (h : Inv len st)
    (h1 : st.si ≤ start) (h2 : start ≤ stop) (h3 : stop ≤ len)
    (hacc : st.allowEmpty = true ∨ start ≠ st.si ∨ stop ≠ st.si) (out : List UInt8) :
    Inv len (advance { st with visited := st.si :: st.visited, out := out, sj := stop, wrote := true,
                               accepted := (start, stop) :: st.accepted } start stop) := by
  unfold advance
  have hsi := h.si_nonneg
  by_cases hge : start ≥ stop
  · have hse : start = stop := by omega
    constructor <;> simp only [hge, if_true, decide_true]
    · omega
    · omega
    · omega
    · omega
    · intro v hv
      rcases List.mem_cons.mp hv with rfl | hv
      · omega
      · have := h.visited_lt v hv; omega
    · refine List.pairwise_cons.mpr ⟨?_, h.visited_sorted⟩
      intro v hv; exact h.visited_lt v hv
    · intro m hm
      rcases List.mem_cons.mp hm with rfl | hm
      · simp; omega
      · have := h.acc_le m hm
        refine ⟨by omega, fun _ => by omega, fun _ => by omega⟩
    · refine List.pairwise_cons.mpr ⟨?_, h.acc_sorted⟩
      intro m hm
      have hm' := h.acc_le m hm
      unfold After
      simp only
      refine ⟨by omega, fun _ => ?_⟩
      by_cases hx : st.allowEmpty = true
      · have := hm'.2.1 hx; omega
      · rcases hacc with hx' | hne | hne
        · exact absurd hx' hx
        · omega
        · omega
  · have hlt : start < stop := by omega
    constructor <;> simp only [hge, if_false, decide_false]
    · omega
    · omega
    · omega
    · omega
    · intro v hv
      rcases List.mem_cons.mp hv with rfl | hv
      · omega
      · have := h.visited_lt v hv; omega
    · refine List.pairwise_cons.mpr ⟨?_, h.visited_sorted⟩
      intro v hv; exact h.visited_lt v hv
    · intro m hm
      rcases List.mem_cons.mp hm with rfl | hm
      · simp; omega
      · have := h.acc_le m hm
        refine ⟨by omega, fun hf => by simp at hf, fun he => by have := this.2.2 he; omega⟩
    · refine List.pairwise_cons.mpr ⟨?_, h.acc_sorted⟩
      intro m hm
      have hm' := h.acc_le m hm
      unfold After
      simp only
      refine ⟨by omega, fun hor => ?_⟩
      rcases hor with he | he
      · omega
      · have := hm'.2.2 he; omega

/-- the invariant holds in every final state, the loop never runs out of fuel and never slices out of range -/
theorem gsubLoop_inv (s : Subject) (matcher : Matcher) (repl : List Capture → ReplOut) (n : Option Nat) (anchored : Bool)
    (hm : MatcherOK s.size matcher) (fuel : Nat) (st : GsubState) (h : Inv s.size st)
    (hf : (s.size : Int) + 2 ≤ fuel + st.si) :
    (∃ st', gsubLoop s matcher repl n anchored fuel st = .done st' ∧
        st'.visited.Pairwise (· > ·) ∧ st'.accepted.Pairwise After) ∨
    gsubLoop s matcher repl n anchored fuel st = .replErr ∨
    (∃ w, gsubLoop s matcher repl n anchored fuel st = .panic w ∧ ∃ caps, repl caps = .panic w) := by
  induction fuel generalizing st with
  | zero => have := h.si_le; omega
  | succ k ih =>
    unfold gsubLoop
    by_cases hn : some st.matchCount = n
    · simp only [hn, if_true]
      exact Or.inl ⟨st, rfl, h.visited_sorted, h.acc_sorted⟩
    · simp only [hn, if_false]
      have hvis : (st.si :: st.visited).Pairwise (· > ·) :=
        List.pairwise_cons.mpr ⟨fun v hv => h.visited_lt v hv, h.visited_sorted⟩
      cases hmat : matcher st.si with
      | none => exact Or.inl ⟨_, rfl, hvis, h.acc_sorted⟩
      | some caps =>
        cases caps with
        | nil => exact Or.inl ⟨_, rfl, hvis, h.acc_sorted⟩
        | cons gc rest =>
          obtain ⟨h1, h2, h3⟩ := hm st.si gc rest hmat
          simp only
          by_cases hacc : (st.allowEmpty || gc.start != st.si || gc.stop != st.si) = true
          · simp only [hacc, if_true]
            cases hr : repl (gc :: rest) with
            | err => exact Or.inr (Or.inl rfl)
            | panic w => exact Or.inr (Or.inr ⟨w, rfl, _, hr⟩)
            | ok sub =>
              have hsl := sliceE_ok s st.sj gc.start ⟨h.sj_nonneg, by have := h.sj_le; omega, by omega⟩
              obtain ⟨pre, hpre⟩ := hsl
              simp only [hpre]
              have hacc' : st.allowEmpty = true ∨ gc.start ≠ st.si ∨ gc.stop ≠ st.si := by
                simp only [Bool.or_eq_true, bne_iff_ne, ne_eq] at hacc
                rcases hacc with (hx | hx) | hx
                · exact Or.inl hx
                · exact Or.inr (Or.inl hx)
                · exact Or.inr (Or.inr hx)
              have hinv := inv_accept h h1 h2 h3 hacc' (st.out ++ pre ++ sub)
              cases anchored with
              | true => exact Or.inl ⟨_, rfl, hinv.visited_sorted, hinv.acc_sorted⟩
              | false =>
                simp only [Bool.false_eq_true, if_false]
                apply ih _ hinv
                unfold advance
                simp only
                split <;> omega
          · simp only [hacc, if_false, Bool.false_eq_true]
            have hrej : ¬ (st.allowEmpty = true ∨ gc.start ≠ st.si ∨ gc.stop ≠ st.si) := by
              intro hor
              apply hacc
              simp only [Bool.or_eq_true, bne_iff_ne, ne_eq]
              rcases hor with hx | hx | hx
              · exact Or.inl (Or.inl hx)
              · exact Or.inl (Or.inr hx)
              · exact Or.inr hx
            have hinv := inv_reject h h1 h2 h3 hrej
            cases anchored with
            | true => exact Or.inl ⟨_, rfl, hinv.visited_sorted, hinv.acc_sorted⟩
            | false =>
              simp only [Bool.false_eq_true, if_false]
              apply ih _ hinv
              unfold advance
              simp only
              split <;> omega

end GoluaVerif.Model.Gsub
