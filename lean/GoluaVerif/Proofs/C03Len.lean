/-
  Proofs.C03Len — `mixedTable.len` stops and returns a border.
-/
import GoluaVerif.Proofs.C03Mixed
namespace GoluaVerif.Model.Table
open GoluaVerif.Spec (Key Val Map)

/-- pigeonhole: an injection from `{0..m-1}` into `{0..n-1}` has `m ≤ n` -/
theorem inj_bound (n m : Nat) (f : Nat → Nat) (hf : ∀ j, j < m → f j < n)
    (inj : ∀ a, a < m → ∀ b, b < m → f a = f b → a = b) : m ≤ n := by
  have hnd : ((List.range m).map f).Nodup := by
    unfold List.Nodup
    rw [List.pairwise_map]
    have : (List.range m).Pairwise (· ≠ ·) := List.nodup_range
    refine List.Pairwise.imp_of_mem ?_ this
    intro a b ha hb hne e
    exact hne (inj a (List.mem_range.1 ha) b (List.mem_range.1 hb) e)
  have hsub : (List.range m).map f ⊆ List.range n := by
    intro x hx
    obtain ⟨j, hj, e⟩ := List.mem_map.1 hx
    rw [← e]; exact List.mem_range.2 (hf j (List.mem_range.1 hj))
  have := hnd.length_le_of_subset hsub
  simpa using this

theorem present_mem (slots : List Slot) (k : Key) (h : (hashLookup slots k).isSome = true) :
    some k ∈ slots.map (·.key) := by
  unfold hashLookup at h
  cases hf : slots.find? (fun s => decide (s.key = some k)) with
  | none => simp [hf] at h
  | some s =>
    have hm := List.mem_of_find?_eq_some hf
    have hp := List.find?_some hf
    exact List.mem_map.2 ⟨s, hm, by simpa using hp⟩

section
variable (hash : Key → Nat)

/-- at most `slots.length` consecutive integer keys can be present in the hash part -/
theorem present_run_bound (t : HashTable) (l m : Nat)
    (h : ∀ j, j < m → (hashLookup t.slots (.int ((l : Int) + 1 + (j : Int)))).isSome = true) :
    m ≤ t.slots.length := by
  let keys := t.slots.map (·.key)
  let f : Nat → Nat := fun j => keys.idxOf (some (Key.int ((l : Int) + 1 + (j : Int))))
  have hmem : ∀ j, j < m → some (Key.int ((l : Int) + 1 + (j : Int))) ∈ keys := fun j hj => present_mem _ _ (h j hj)
  have hlt : ∀ j, j < m → f j < t.slots.length := by
    intro j hj
    have := List.idxOf_lt_length_of_mem (hmem j hj)
    simpa [keys] using this
  refine inj_bound _ m f hlt ?_
  intro a ha b hb e
  have ea := List.getElem_idxOf (List.idxOf_lt_length_of_mem (hmem a ha))
  have eb := List.getElem_idxOf (List.idxOf_lt_length_of_mem (hmem b hb))
  have : some (Key.int ((l : Int) + 1 + (a : Int))) = some (Key.int ((l : Int) + 1 + (b : Int))) := by
    rw [← ea, ← eb]
    simp only [f] at e
    simp only [e]
  simp only [Option.some.injEq, Key.int.injEq] at this
  omega

theorem lenLoop_spec (h : Option HashTable) (asize : Nat) (inv : HashInvO hash h asize) (f l : Nat) :
    (lenLoop hash h f l = none ∧ ∀ j, j < f → (hashAbs h (.int ((l : Int) + 1 + (j : Int)))).isSome = true) ∨
    (∃ n, lenLoop hash h f l = some n ∧ l ≤ n ∧
      (∀ j, l < j → j ≤ n → (hashAbs h (.int (j : Int))).isSome = true) ∧
      hashAbs h (.int ((n : Int) + 1)) = none) := by
  induction f generalizing l with
  | zero => left; exact ⟨rfl, fun j hj => absurd hj (Nat.not_lt_zero _)⟩
  | succ f ih =>
    rw [lenLoop]
    simp only [hFind_eq hash h asize inv, Option.bind_eq_bind, Option.bind_some]
    cases hv : hashAbs h (.int ((l : Int) + 1)) with
    | none => right; exact ⟨l, by simp, Nat.le_refl _, fun j h1 h2 => by omega, hv⟩
    | some x =>
      simp only [Option.isNone_some, Bool.false_eq_true, if_false]
      rcases ih (l + 1) with ⟨e, hall⟩ | ⟨n, e, hle, hall, hend⟩
      · left
        refine ⟨e, ?_⟩
        intro j hj
        cases j with
        | zero => simp [hv]
        | succ j =>
          have := hall j (by omega)
          have e2 : ((l + 1 : Nat) : Int) + 1 + (j : Int) = (l : Int) + 1 + ((j + 1 : Nat) : Int) := by omega
          rw [e2] at this; exact this
      · right
        refine ⟨n, e, by omega, ?_, hend⟩
        intro j h1 h2
        by_cases ej : j = l + 1
        · subst ej
          have e2 : ((l + 1 : Nat) : Int) = (l : Int) + 1 := by omega
          rw [e2, hv]; rfl
        · exact hall j (by omega) h2

theorem arrAt_len (a : Arr) (ainv : ArrInv a) (h0 : a.len ≠ 0) : (arrAt (some a) (a.len : Int)).isSome = true := by
  rcases ainv.len_live with h | h
  · exact absurd h h0
  · rw [live_eq_isSome] at h
    simpa [arrAt] using h

theorem arrAt_above (a : Arr) (ainv : ArrInv a) (j : Nat) (h1 : a.len ≤ j) (h2 : j < a.values.length) :
    arrAt (some a) ((j : Int) + 1) = none := by
  have := ainv.above_nil j h2 h1
  rw [live_eq_isSome] at this
  have e : ((j : Int) + 1).toNat - 1 = j := by omega
  simp only [arrAt, e]
  cases hv : (a.values[j]?).join with
  | none => rfl
  | some x => simp [hv] at this

/-- `len` stops and its result is a border of the abstract map -/
theorem len_spec (t : Mixed) (inv : Inv hash t) :
    ∃ n, len hash t = some n ∧ Map.isBorder (abs t) n := by
  unfold len
  by_cases hlt : arrLen t.arr < arrSize t.arr
  · simp only [hlt, if_true]
    refine ⟨_, rfl, ?_⟩
    cases ha : t.arr with
    | none => simp [ha, arrLen, arrSize] at hlt
    | some a =>
      have ainv := inv.arr a ha
      simp only [ha, arrLen, arrSize] at hlt ⊢
      constructor
      · by_cases h0 : a.len = 0
        · left; exact h0
        · right
          have hin : inArr t.arr (a.len : Int) := by
            simp only [inArr, ha, arrSize]; omega
          rw [abs_int_in t _ hin, ha]
          exact arrAt_len a ainv h0
      · have hin : inArr t.arr ((a.len : Int) + 1) := by
          simp only [inArr, ha, arrSize]; omega
        rw [abs_int_in t _ hin, ha]
        exact arrAt_above a ainv a.len (Nat.le_refl _) hlt
  · simp only [hlt, if_false]
    have hsz : arrSize t.arr ≤ arrLen t.arr := Nat.le_of_not_lt hlt
    have hle : arrLen t.arr ≤ arrSize t.arr := by
      cases ha : t.arr with
      | none => simp [arrLen, arrSize]
      | some a => simpa [arrLen, arrSize] using (inv.arr a ha).len_le
    have heq : arrLen t.arr = arrSize t.arr := Nat.le_antisymm hle hsz
    rcases lenLoop_spec hash t.hash _ inv.hash (hSlotCount t.hash + 1) (arrLen t.arr) with ⟨_, hall⟩ | ⟨n, e, hln, hall, hend⟩
    · exfalso
      cases hh : t.hash with
      | none =>
        have := hall 0 (by omega)
        simp [hh, hashAbs] at this
      | some ht =>
        have := present_run_bound ht (arrLen t.arr) (ht.slots.length + 1) (by
          intro j hj
          have := hall j (by simpa [hh, hSlotCount] using hj)
          simpa [hh, hashAbs] using this)
        omega
    · refine ⟨n, e, ?_, ?_⟩
      · by_cases hn : n = arrLen t.arr
        · by_cases h0 : n = 0
          · left; exact h0
          · right
            cases ha : t.arr with
            | none => simp [ha, arrLen] at hn; exact absurd hn h0
            | some a =>
              have ainv := inv.arr a ha
              simp only [ha, arrLen, arrSize] at hn heq
              have hin : inArr t.arr (n : Int) := by
                simp only [inArr, ha, arrSize]; omega
              rw [abs_int_in t _ hin, ha, hn]
              exact arrAt_len a ainv (by omega)
        · right
          have hout : ¬ inArr t.arr (n : Int) := by
            simp only [inArr]; omega
          rw [abs_int_out t _ hout]
          exact hall n (by omega) (Nat.le_refl _)
      · have hout : ¬ inArr t.arr ((n : Int) + 1) := by
          simp only [inArr]; omega
        rw [abs_int_out t _ hout]
        exact hend

end
end GoluaVerif.Model.Table
