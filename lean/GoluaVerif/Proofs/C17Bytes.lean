/-
  Proofs.C17Bytes — byte-level lemmas for the pack/unpack round trip.
-/
import GoluaVerif.Model.Unpack
namespace GoluaVerif.Model.Pack
open GoluaVerif

theorem leBytes_length (n x : Nat) : (leBytes n x).length = n := by
  induction n generalizing x with
  | zero => rfl
  | succ n ih => simp [leBytes, ih]

theorem u8_ofNat_mod (x : Nat) : (UInt8.ofNat (x % 256)).toNat = x % 256 := by
  simp [UInt8.toNat_ofNat']

theorem ofLE_leBytes (n x : Nat) : ofLE (leBytes n x) = x % 256 ^ n := by
  induction n generalizing x with
  | zero => simp [leBytes, ofLE, Nat.mod_one]
  | succ n ih =>
    simp only [leBytes, ofLE, ih, u8_ofNat_mod]
    rw [Nat.pow_succ, Nat.mul_comm (256 ^ n) 256, Nat.mod_mul]

theorem ord_ord (e : Endian) (l : Bytes) : ord e (ord e l) = l := by
  cases e <;> simp [ord]

theorem ord_length (e : Endian) (l : Bytes) : (ord e l).length = l.length := by
  cases e <;> simp [ord]

theorem takeN_append (w post : Bytes) (n : Nat) (h : w.length = n) : takeN n (w ++ post) = .ok (w, post) := by
  subst h
  simp [takeN]

theorem zeros_length (n : Nat) : (zeros n).length = n := by simp [zeros]

end GoluaVerif.Model.Pack
