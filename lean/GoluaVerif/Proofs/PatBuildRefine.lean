/-
  Proofs.PatBuildRefine — the builder (Model.PatBuild) against the Spec's parser (Spec.LuaPattern.parse):
  whenever the Spec parses a pattern (without a descending range), the builder accepts it and emits the
  machine items that correspond (`ItemRel`) to the parsed items.
-/
import GoluaVerif.Proofs.PatBuild
import GoluaVerif.Proofs.ByteSetTable
import GoluaVerif.Proofs.PatRefineTop
namespace GoluaVerif.Model.PatBuild
open GoluaVerif.Model GoluaVerif.Spec
open GoluaVerif.Spec.LuaPattern (SetElem Cls Item Quant PErr)

variable (ptn : Array UInt8)

/-- the part of the pattern not yet read -/
def L (pb : PB) : List UInt8 := ptn.toList.drop pb.i

theorem next_cons {pb : PB} {b : UInt8} {l : List UInt8} (h : L ptn pb = b :: l) :
    next ptn pb = .ok (b, { pb with i := pb.i + 1 }) ∧ L ptn { pb with i := pb.i + 1 } = l ∧ pb.i < ptn.size := by
  unfold L at h
  have hlt : pb.i < ptn.toList.length := by
    apply Classical.byContradiction; intro hn
    have : ptn.toList.drop pb.i = [] := List.drop_eq_nil_iff.mpr (by omega)
    rw [this] at h; cases h
  have hd := List.drop_eq_getElem_cons hlt
  rw [hd] at h
  injection h with h1 h2
  have hlt' : pb.i < ptn.size := by simpa using hlt
  refine ⟨?_, ?_, hlt'⟩
  · rw [next_eq]
    simp only [hlt', dite_true]
    congr 2
  · unfold L; exact h2

theorem L_head {pb : PB} {b : UInt8} {l : List UInt8} (h : L ptn pb = b :: l) : ptn[pb.i]? = some b := by
  unfold L at h
  have : (ptn.toList.drop pb.i)[0]? = some b := by rw [h]; rfl
  rw [List.getElem?_drop] at this
  simpa using this

theorem next_nil {pb : PB} (h : L ptn pb = []) : next ptn pb = .error .malformed := by
  unfold L at h
  have := List.drop_eq_nil_iff.mp h
  rw [next_eq]
  have : ¬ (pb.i < ptn.size) := by simp at this; omega
  simp [this]

/-- a set element whose range (if it is one) is ascending -/
def ascending : SetElem → Prop
  | .range lo hi => lo ≤ hi
  | _ => True

theorem named_of_classLetter {x : UInt8} (h : LuaPattern.isClassLetter x = true) :
    ∃ r, ByteSet.named? x = some r ∧ ∀ c, r.contains c = LuaPattern.classMatch x c := by
  unfold LuaPattern.isClassLetter at h
  cases hf : LuaPattern.classFn? x with
  | none => rw [hf] at h; cases h
  | some f =>
    have hn := ByteSet.named_sets_correct x
    cases hr : ByteSet.named? x with
    | none => have := hn 0; rw [hr, hf] at this; cases this
    | some r =>
      refine ⟨r, rfl, fun c => ?_⟩
      have := hn c
      rw [hr, hf] at this
      simp only [Option.map] at this
      injection this with this
      rw [this]; unfold LuaPattern.classMatch; rw [hf]

theorem named_none_of_not_classLetter {x : UInt8} (h : LuaPattern.isClassLetter x = false) :
    ByteSet.named? x = none := by
  unfold LuaPattern.isClassLetter at h
  cases hf : LuaPattern.classFn? x with
  | some f => rw [hf] at h; cases h
  | none =>
    have hn := ByteSet.named_sets_correct x 0
    cases hr : ByteSet.named? x with
    | none => rfl
    | some r => rw [hr, hf] at hn; cases hn

/-- `%x` : the builder's `getCharRange` against the Spec's `escClass` -/
theorem getCharRange_of_esc {x : UInt8} {v : Sum UInt8 UInt8} (h : LuaPattern.escClass x = .ok v) :
    ∃ r, getCharRange x = .ok r ∧ ∀ c, r.contains c =
      match v with
      | .inl l => LuaPattern.classMatch l c
      | .inr b => b == c := by
  unfold LuaPattern.escClass at h
  by_cases hcl : LuaPattern.isClassLetter x = true
  · simp only [hcl, if_true] at h
    injection h with h; subst h
    obtain ⟨r, h1, h2⟩ := named_of_classLetter hcl
    exact ⟨r, by unfold getCharRange; rw [h1], h2⟩
  · simp only [hcl, Bool.false_eq_true, if_false] at h
    by_cases hal : LuaPattern.isAlnum x = true
    · simp [hal] at h
    · simp only [hal, Bool.false_eq_true, if_false] at h
      injection h with h; subst h
      have hnone := named_none_of_not_classLetter (by simpa using hcl)
      refine ⟨ByteSet.empty.add x, ?_, fun c => ?_⟩
      · unfold getCharRange
        rw [hnone]
        have hal' : LuaPattern.isAlnum x = false := by simpa using hal
        unfold LuaPattern.isAlnum LuaPattern.isAlpha LuaPattern.isLower LuaPattern.isUpper LuaPattern.isDigit at hal'
        simp only [Bool.or_eq_false_iff, Bool.and_eq_false_iff, decide_eq_false_iff_not, UInt8.not_le] at hal'
        obtain ⟨⟨h1, h2⟩, h3⟩ := hal'
        have hx : x.toNat < 256 := x.toNat_lt
        have e48 : (x == 48) = false := by
          rw [ByteSet.u8_beq]; simp only [decide_eq_false_iff_not]
          intro he
          have he' : x.toNat = 48 := he
          rcases h3 with h3 | h3 <;> rw [UInt8.lt_iff_toNat_lt] at h3 <;> simp at h3 <;> omega
        have e19 : isDigit19 x = false := by
          unfold isDigit19
          simp only [Bool.and_eq_false_iff, decide_eq_false_iff_not, ge_iff_le, UInt8.not_le]
          rcases h3 with h3 | h3
          · left; rw [UInt8.lt_iff_toNat_lt] at h3 ⊢; simp at h3 ⊢; omega
          · right; exact h3
        have eaz : isAZaz x = false := by
          unfold isAZaz
          simp only [Bool.or_eq_false_iff, Bool.and_eq_false_iff, decide_eq_false_iff_not, ge_iff_le, UInt8.not_le]
          exact ⟨h2, h1⟩
        simp [e48, e19, eaz]
      · rw [ByteSet.contains_add, ByteSet.contains_empty]
        simp only [Bool.false_or]
        by_cases hcx : c = x
        · subst hcx; simp
        · have : ¬ (x = c) := fun e => hcx e.symm
          rw [beq_eq_false_iff_ne.mpr hcx, beq_eq_false_iff_ne.mpr this]

theorem any_reverse {α} (l : List α) (f : α → Bool) : l.reverse.any f = l.any f := by
  simp [List.any_reverse]

theorem pse_nil_err (f : Nat) (acc : List SetElem) (es : List SetElem) (rest : List UInt8)
    (h : LuaPattern.parseSetElems f [] acc = .ok (es, rest)) : False := by
  cases f with
  | zero => rw [LuaPattern.parseSetElems.eq_1] at h; cases h
  | succ f' => rw [LuaPattern.parseSetElems.eq_2] at h; cases h

theorem beq_comm_u8 (a b : UInt8) : (a == b) = (b == a) := by
  by_cases h : a = b
  · subst h; rfl
  · have : ¬ (b = a) := fun e => h e.symm
    rw [beq_eq_false_iff_ne.mpr h, beq_eq_false_iff_ne.mpr this]

/-- the set loop: `unionLoop` (with its one byte of look-ahead `b`) against `parseSetElems` -/
theorem unionLoop_refines (neg : Bool) : ∀ (fuelS : Nat) (l : List UInt8) (acc es : List SetElem) (rest : List UInt8),
    LuaPattern.parseSetElems fuelS l acc = .ok (es, rest) →
    (∀ e ∈ acc, e ∈ es) ∧
    ∀ (b : UInt8) (pb : PB) (s : ByteSet) (fuelM : Nat), l = b :: L ptn pb → pb.i ≤ ptn.size →
      (∀ c, s.contains c = acc.any (·.matches c)) → ptn.size + 1 ≤ fuelM + pb.i →
      ∃ pb' sf, unionLoop ptn neg fuelM b s pb = .ok (sf, pb') ∧ L ptn pb' = rest ∧ pb.i ≤ pb'.i ∧ pb'.i ≤ ptn.size ∧
        ∀ c, sf.contains c = ((es.any (·.matches c)) != neg) := by
  intro fuelS
  induction fuelS with
  | zero => intro l acc es rest h; rw [LuaPattern.parseSetElems.eq_1] at h; cases h
  | succ f ih =>
    intro l acc es rest h
    cases l with
    | nil => rw [LuaPattern.parseSetElems.eq_2] at h; cases h
    | cons b0 l0 =>
      by_cases h93 : b0 = 93
      · -- `]`
        subst h93
        rw [LuaPattern.parseSetElems.eq_3] at h
        injection h with h; injection h with h1 h2
        subst h1; subst h2
        refine ⟨fun e he => List.mem_reverse.mpr he, ?_⟩
        intro b pb s fuelM hl hpi hs hf
        injection hl with hb hl
        subst hb
        obtain ⟨fm, rfl⟩ : ∃ fm, fuelM = fm + 1 := ⟨fuelM - 1, by omega⟩
        refine ⟨pb, if neg then s.complement else s, ?_, hl.symm, Nat.le_refl _, hpi, fun c => ?_⟩
        · rw [unionLoop]; simp
        · rw [any_reverse]
          cases neg with
          | false => simp [hs]
          | true => simp [ByteSet.contains_complement, hs]
      · by_cases h37 : b0 = 37
        · -- `%x`
          subst h37
          cases l0 with
          | nil => rw [LuaPattern.parseSetElems.eq_4] at h; cases h
          | cons x l1 =>
            rw [LuaPattern.parseSetElems.eq_5] at h
            cases hesc : LuaPattern.escClass x with
            | error e => rw [hesc] at h; simp at h
            | ok v =>
              rw [hesc] at h
              obtain ⟨r, hr1, hr2⟩ := getCharRange_of_esc hesc
              -- in both sub-cases the Spec goes on with `l1` and one more element
              have key : ∃ el : SetElem, LuaPattern.parseSetElems f l1 (el :: acc) = .ok (es, rest) ∧
                  ∀ c, r.contains c = el.matches c := by
                cases v with
                | inl lt =>
                  simp only at h
                  refine ⟨.cls lt, ?_, fun c => by rw [hr2]; rfl⟩
                  split at h
                  · rename_i y tail
                    by_cases hy2 : (y == 93) = true
                    · simp only [hy2, if_true] at h; exact h
                    · simp [hy2] at h
                  · exact h
                | inr bx =>
                  simp only at h
                  exact ⟨.ch bx, h, fun c => by rw [hr2]; rfl⟩
              obtain ⟨el, hkey, hel⟩ := key
              obtain ⟨hsub, hstep⟩ := ih l1 (el :: acc) es rest hkey
              refine ⟨fun e he => hsub e (List.mem_cons_of_mem _ he), ?_⟩
              intro b pb s fuelM hl hpi hs hf
              injection hl with hb hl
              subst hb
              obtain ⟨hn1, hL1, hlt1⟩ := next_cons ptn (hl ▸ rfl : L ptn pb = x :: l1)
              -- `l1` is not empty: otherwise the Spec fails
              cases l1 with
              | nil => exact (pse_nil_err f _ es rest hkey).elim
              | cons b2 l2 =>
                obtain ⟨hn2, hL2, hlt2⟩ := next_cons ptn hL1
                simp only at hlt2
                obtain ⟨fm, rfl⟩ : ∃ fm, fuelM = fm + 1 := ⟨fuelM - 1, by omega⟩
                have := hstep b2 { pb with i := pb.i + 1 + 1 } (s.merge r) fm (by rw [hL2]) (by simp; omega) (fun c => by
                  rw [ByteSet.contains_merge, hs, hel]; simp [List.any_cons, Bool.or_comm]) (by simp; omega)
                obtain ⟨pb', sf, h1, h2, h3, h4, h5⟩ := this
                refine ⟨pb', sf, ?_, h2, by simp at h3; omega, h4, h5⟩
                rw [unionLoop]
                simp only [show ((37 : UInt8) == 93) = false from by decide, Bool.false_eq_true, if_false,
                  show ((37 : UInt8) == 37) = true from by decide, if_true, bind, Except.bind, hn1, hr1, hn2]
                exact h1
        · -- an ordinary byte `b0`
          have hb93 : (b0 == 93) = false := beq_eq_false_iff_ne.mpr h93
          have hb37 : (b0 == 37) = false := beq_eq_false_iff_ne.mpr h37
          -- the Spec's plain step: `b0` is a literal member and the Spec goes on with `l0`
          have plain : ∀ (b1 : UInt8) (l1 : List UInt8), l0 = b1 :: l1 → b1 ≠ 45 →
              LuaPattern.parseSetElems f l0 (.ch b0 :: acc) = .ok (es, rest) →
              (∀ e ∈ acc, e ∈ es) ∧
              ∀ (b : UInt8) (pb : PB) (s : ByteSet) (fuelM : Nat), b0 :: l0 = b :: L ptn pb → pb.i ≤ ptn.size →
                (∀ c, s.contains c = acc.any (·.matches c)) → ptn.size + 1 ≤ fuelM + pb.i →
                ∃ pb' sf, unionLoop ptn neg fuelM b s pb = .ok (sf, pb') ∧ L ptn pb' = rest ∧ pb.i ≤ pb'.i ∧
                  pb'.i ≤ ptn.size ∧ ∀ c, sf.contains c = ((es.any (·.matches c)) != neg) := by
            intro b1 l1 hl0 hb1 hk
            obtain ⟨hsub, hstep⟩ := ih l0 (.ch b0 :: acc) es rest hk
            refine ⟨fun e he => hsub e (List.mem_cons_of_mem _ he), ?_⟩
            intro b pb s fuelM hl hpi hs hf
            injection hl with hb hl
            subst hb
            subst hl0
            obtain ⟨hn1, hL1, hlt1⟩ := next_cons ptn (hl ▸ rfl : L ptn pb = b1 :: l1)
            obtain ⟨fm, rfl⟩ : ∃ fm, fuelM = fm + 1 := ⟨fuelM - 1, by omega⟩
            have := hstep b1 { pb with i := pb.i + 1 } (s.add b0) fm (by rw [hL1]) (by simp; omega) (fun c => by
              rw [ByteSet.contains_add, hs]
              simp only [List.any_cons, LuaPattern.SetElem.matches]
              rw [Bool.or_comm, beq_comm_u8 c b0]) (by simp; omega)
            obtain ⟨pb', sf, h1, h2, h3, h4, h5⟩ := this
            refine ⟨pb', sf, ?_, h2, by simp at h3; omega, h4, h5⟩
            rw [unionLoop]
            simp only [hb93, hb37, Bool.false_eq_true, if_false, bind, Except.bind, hn1,
              beq_eq_false_iff_ne.mpr hb1]
            exact h1
          cases l0 with
          | nil =>
            rw [LuaPattern.parseSetElems.eq_7 _ _ _ _ h93 h37 (fun y r heq => by cases heq)] at h
            exact (pse_nil_err f _ es rest h).elim
          | cons b1 l1 =>
            by_cases hb1 : b1 = 45
            · subst hb1
              cases l1 with
              | nil =>
                -- `c-` at the very end: both fail
                rw [LuaPattern.parseSetElems.eq_7 _ _ _ _ h93 h37
                  (fun y r heq => by injection heq with _ heq; cases heq)] at h
                cases f with
                | zero => rw [LuaPattern.parseSetElems.eq_1] at h; cases h
                | succ f' =>
                  rw [LuaPattern.parseSetElems.eq_7 _ _ _ _ (by decide) (by decide) (fun y r heq => by cases heq)] at h
                  exact (pse_nil_err f' _ es rest h).elim
              | cons y2 l3 =>
                rw [LuaPattern.parseSetElems.eq_6 _ _ _ _ _ h93 h37] at h
                by_cases hy93 : (y2 == 93) = true
                · -- `c-]`
                  have hy : y2 = 93 := by simpa using hy93
                  subst hy
                  simp only [hy93, if_true] at h
                  cases f with
                  | zero => rw [LuaPattern.parseSetElems.eq_1] at h; cases h
                  | succ f' =>
                    rw [LuaPattern.parseSetElems.eq_7 _ _ _ _ (by decide) (by decide)
                      (fun y r heq => by injection heq with heq _; cases heq)] at h
                    cases f' with
                    | zero => rw [LuaPattern.parseSetElems.eq_1] at h; cases h
                    | succ f'' =>
                      rw [LuaPattern.parseSetElems.eq_3] at h
                      injection h with h; injection h with h1 h2
                      subst h1; subst h2
                      refine ⟨fun e he => List.mem_reverse.mpr
                        (List.mem_cons_of_mem _ (List.mem_cons_of_mem _ he)), ?_⟩
                      intro b pb s fuelM hl hpi hs hf
                      injection hl with hb hl
                      subst hb
                      obtain ⟨hn1, hL1, hlt1⟩ := next_cons ptn (hl ▸ rfl : L ptn pb = 45 :: 93 :: l3)
                      obtain ⟨hn2, hL2, hlt2⟩ := next_cons ptn hL1
                      simp only at hlt2
                      obtain ⟨fm, rfl⟩ : ∃ fm, fuelM = fm + 1 := ⟨fuelM - 1, by omega⟩
                      obtain ⟨fm', rfl⟩ : ∃ fm', fm = fm' + 1 := ⟨fm - 1, by omega⟩
                      refine ⟨{ pb with i := pb.i + 1 + 1 },
                        if neg then ((s.add b0).add 45).complement else (s.add b0).add 45, ?_, hL2,
                        by simp; omega, by simp; omega, fun c => ?_⟩
                      · rw [unionLoop]
                        simp only [hb93, hb37, Bool.false_eq_true, if_false, bind, Except.bind, hn1,
                          show ((45 : UInt8) == 45) = true from by decide, if_true, hn2,
                          show ((93 : UInt8) == 93) = true from by decide]
                        rw [unionLoop]
                        simp
                      · rw [any_reverse]
                        have hcont : ((s.add b0).add 45).contains c =
                            List.any (SetElem.ch 45 :: SetElem.ch b0 :: acc) (fun e => e.matches c) := by
                          rw [ByteSet.contains_add, ByteSet.contains_add, hs]
                          simp only [List.any_cons, LuaPattern.SetElem.matches]
                          rw [beq_comm_u8 c b0, beq_comm_u8 c 45]
                          cases ((45 : UInt8) == c) <;> cases (b0 == c) <;> simp
                        cases neg with
                        | false => simp [hcont]
                        | true => simp [ByteSet.contains_complement, hcont]
                · simp only [hy93, Bool.false_eq_true, if_false] at h
                  by_cases hy37 : (y2 == 37) = true
                  · simp [hy37] at h
                  · -- a range `b0-y2`
                    simp only [hy37, Bool.false_eq_true, if_false] at h
                    obtain ⟨hsub, hstep⟩ := ih l3 (.range b0 y2 :: acc) es rest h
                    refine ⟨fun e he => hsub e (List.mem_cons_of_mem _ he), ?_⟩
                    intro b pb s fuelM hl hpi hs hf
                    injection hl with hb hl
                    subst hb
                    obtain ⟨hn1, hL1, hlt1⟩ := next_cons ptn (hl ▸ rfl : L ptn pb = 45 :: y2 :: l3)
                    obtain ⟨hn2, hL2, hlt2⟩ := next_cons ptn hL1
                    cases l3 with
                    | nil => exact (pse_nil_err f _ es rest h).elim
                    | cons b3 l4 =>
                      obtain ⟨hn3, hL3, hlt3⟩ := next_cons ptn hL2
                      simp only at hlt2 hlt3
                      obtain ⟨fm, rfl⟩ : ∃ fm, fuelM = fm + 1 := ⟨fuelM - 1, by omega⟩
                      have := hstep b3 { pb with i := pb.i + 1 + 1 + 1 } (s.merge (ByteSet.byteRange b0 y2)) fm
                        (by rw [hL3]) (by simp; omega) (fun c => by
                          rw [ByteSet.contains_merge, hs, ByteSet.contains_byteRange b0 y2 c]
                          simp only [List.any_cons, LuaPattern.SetElem.matches]
                          rw [Bool.or_comm]) (by simp; omega)
                      obtain ⟨pb', sf, h1, h2, h3, h4, h5⟩ := this
                      refine ⟨pb', sf, ?_, h2, by simp at h3; omega, h4, h5⟩
                      rw [unionLoop]
                      simp only [hb93, hb37, Bool.false_eq_true, if_false, bind, Except.bind, hn1,
                        show ((45 : UInt8) == 45) = true from by decide, if_true, hn2, hy93, hn3]
                      exact h1
            · -- `b0` followed by something that is not `-`
              rw [LuaPattern.parseSetElems.eq_7 _ _ _ _ h93 h37
                (fun y r heq => by injection heq with heq _; exact hb1 heq)] at h
              exact plain b1 l1 rfl hb1 h

/-- every range of a class is ascending -/
def AscCls : Cls → Prop
  | .set _ es => ∀ e ∈ es, ascending e
  | _ => True

theorem parseSet_eq (fuel : Nat) (l : List UInt8) :
    LuaPattern.parseSet fuel l = match l with
      | 94 :: r => LuaPattern.parseSetBody fuel true r
      | _ => LuaPattern.parseSetBody fuel false l := rfl

/-- the body of a set: what `getUnion` does after the optional `^` -/
def unionBody (neg : Bool) (pb1 : PB) : B (ByteSet × PB) := do
  let (b, pb) ← next ptn pb1
  let (s, b, pb) ← (if b == 93 then do
      let (b', pb) ← next ptn pb
      pure (ByteSet.empty.add b, b', pb)
    else pure (ByteSet.empty, b, pb) : B (ByteSet × UInt8 × PB))
  unionLoop ptn neg (ptn.size + 2) b s pb

theorem setBody_refines (fuelS : Nat) (neg : Bool) (p : List UInt8) (cls : Cls) (rest : List UInt8)
    (hspec : LuaPattern.parseSetBody fuelS neg p = .ok (cls, rest)) (pb1 : PB) (hp : L ptn pb1 = p)
    (hpi1 : pb1.i ≤ ptn.size) :
    ∃ pb' set, unionBody ptn neg pb1 = .ok (set, pb') ∧
      L ptn pb' = rest ∧ pb1.i < pb'.i ∧ pb'.i ≤ ptn.size ∧ ∀ c, set.contains c = cls.matches c := by
  unfold unionBody
  cases p with
  | nil =>
    simp only [LuaPattern.parseSetBody, Except.map] at hspec
    cases hps : LuaPattern.parseSetElems fuelS [] [] with
    | error e => rw [hps] at hspec; cases hspec
    | ok v => exact (pse_nil_err fuelS _ v.1 v.2 (by rw [hps])).elim
  | cons b0 r =>
    obtain ⟨hn1, hL1, hlt1⟩ := next_cons ptn hp
    by_cases h93 : b0 = 93
    · subst h93
      -- both branches of the Spec that do not fail call `parseSetElems fuelS r [ch 93]`
      have hk : (LuaPattern.parseSetElems fuelS r [.ch 93]).map (fun x => (Cls.set neg x.1, x.2)) =
          .ok (cls, rest) := by
        simp only [LuaPattern.parseSetBody] at hspec
        split at hspec
        · rename_i y tl
          by_cases hy : (y == 93) = true
          · simp only [hy, if_true] at hspec; exact hspec
          · simp [hy] at hspec
        · exact hspec
      cases hps : LuaPattern.parseSetElems fuelS r [.ch 93] with
      | error e => rw [hps] at hk; cases hk
      | ok v =>
        obtain ⟨es, rest'⟩ := v
        rw [hps] at hk
        simp only [Except.map] at hk
        injection hk with hk; injection hk with hc hr
        subst hc; subst hr
        cases r with
        | nil => exact (pse_nil_err fuelS _ es rest' hps).elim
        | cons b2 r2 =>
          obtain ⟨hn2, hL2, hlt2⟩ := next_cons ptn hL1
          simp only at hlt2
          obtain ⟨_, hstep⟩ := unionLoop_refines ptn neg fuelS (b2 :: r2) [.ch 93] es rest' hps
          obtain ⟨pb', sf, h1, h2, h3, h4, h5⟩ := hstep b2 { pb1 with i := pb1.i + 1 + 1 } (ByteSet.empty.add 93)
            (ptn.size + 2) (by rw [hL2]) (by simp; omega) (fun c => by
              rw [ByteSet.contains_add, ByteSet.contains_empty]
              simp only [List.any_cons, List.any_nil, LuaPattern.SetElem.matches, Bool.false_or, Bool.or_false]
              exact beq_comm_u8 c 93) (by simp; omega)
          refine ⟨pb', sf, ?_, h2, by simp at h3; omega, h4, fun c => by rw [h5]; rfl⟩
          simp only [bind, Except.bind, hn1, show ((93 : UInt8) == 93) = true from by decide, if_true, hn2, pure,
            Except.pure]
          exact h1
    · have hk : (LuaPattern.parseSetElems fuelS (b0 :: r) []).map (fun x => (Cls.set neg x.1, x.2)) =
          .ok (cls, rest) := by
        simp only [LuaPattern.parseSetBody] at hspec
        split at hspec
        · rename_i r' heq; injection heq with e1 _; exact absurd e1 h93
        · exact hspec
      cases hps : LuaPattern.parseSetElems fuelS (b0 :: r) [] with
      | error e => rw [hps] at hk; cases hk
      | ok v =>
        obtain ⟨es, rest'⟩ := v
        rw [hps] at hk
        simp only [Except.map] at hk
        injection hk with hk; injection hk with hc hr
        subst hc; subst hr
        obtain ⟨_, hstep⟩ := unionLoop_refines ptn neg fuelS (b0 :: r) [] es rest' hps
        obtain ⟨pb', sf, h1, h2, h3, h4, h5⟩ := hstep b0 { pb1 with i := pb1.i + 1 } ByteSet.empty
          (ptn.size + 2) (by rw [hL1]) (by simp; omega) (fun c => by
            rw [ByteSet.contains_empty]; rfl) (by simp; omega)
        refine ⟨pb', sf, ?_, h2, by simp at h3; omega, h4, fun c => by rw [h5]; rfl⟩
        simp only [bind, Except.bind, hn1, beq_eq_false_iff_ne.mpr h93, Bool.false_eq_true, if_false, pure, Except.pure]
        exact h1

theorem getUnion_eq (pb : PB) : getUnion ptn pb = (do
    let (b, pb1) ← next ptn pb
    if b == 94 then unionBody ptn true pb1 else unionBody ptn false pb) := by
  unfold getUnion unionBody
  cases hn : next ptn pb with
  | error e => simp [bind, Except.bind]
  | ok v =>
    obtain ⟨b, pb1⟩ := v
    simp only [bind, Except.bind]
    by_cases hb : (b == 94) = true
    · simp only [hb, if_true]
      cases hn1 : next ptn pb1 with
      | error e => rfl
      | ok v1 => rfl
    · simp only [hb, Bool.false_eq_true, if_false, pure, Except.pure, hn]

/-- `[ … ]` : the builder's `getUnion` against the Spec's `parseSet` (both start after the `[`) -/
theorem getUnion_refines (fuelS : Nat) (l : List UInt8) (cls : Cls) (rest : List UInt8)
    (h : LuaPattern.parseSet fuelS l = .ok (cls, rest)) (pb : PB) (hl : L ptn pb = l)
    (hpi : pb.i ≤ ptn.size) :
    ∃ pb' set, getUnion ptn pb = .ok (set, pb') ∧ L ptn pb' = rest ∧ pb.i < pb'.i ∧ pb'.i ≤ ptn.size ∧
      ∀ c, set.contains c = cls.matches c := by
  rw [parseSet_eq] at h
  rw [getUnion_eq]
  cases l with
  | nil =>
    simp only at h
    simp only [LuaPattern.parseSetBody, Except.map] at h
    cases hps : LuaPattern.parseSetElems fuelS [] [] with
    | error e => rw [hps] at h; cases h
    | ok v => exact (pse_nil_err fuelS _ v.1 v.2 (by rw [hps])).elim
  | cons a r =>
    obtain ⟨hn0, hL0, hlt0⟩ := next_cons ptn hl
    by_cases h94 : a = 94
    · subst h94
      simp only at h
      obtain ⟨pb', set, h1, h2, h3, h4, h5⟩ := setBody_refines ptn fuelS true r cls rest h
        { pb with i := pb.i + 1 } hL0 (by simp; omega)
      refine ⟨pb', set, ?_, h2, by simp at h3; omega, h4, h5⟩
      simp only [bind, Except.bind, hn0, show ((94 : UInt8) == 94) = true from by decide, if_true]
      exact h1
    · have h' : LuaPattern.parseSetBody fuelS false (a :: r) = .ok (cls, rest) := by
        split at h
        · rename_i r' heq; injection heq with e1 _; exact absurd e1 h94
        · exact h
      obtain ⟨pb', set, h1, h2, h3, h4, h5⟩ := setBody_refines ptn fuelS false (a :: r) cls rest h' pb hl hpi
      refine ⟨pb', set, ?_, h2, h3, h4, h5⟩
      simp only [bind, Except.bind, hn0, beq_eq_false_iff_ne.mpr h94, Bool.false_eq_true, if_false]
      exact h1

/-- a single-character class: `getCharClass` against `parseClass` -/
theorem getCharClass_refines (fuelS : Nat) (l : List UInt8) (cls : Cls) (rest : List UInt8)
    (h : LuaPattern.parseClass fuelS l = .ok (cls, rest)) (pb : PB) (hl : L ptn pb = l)
    (hpi : pb.i ≤ ptn.size) :
    ∃ pb' set, getCharClass ptn pb = .ok (set, pb') ∧ L ptn pb' = rest ∧ pb.i < pb'.i ∧ pb'.i ≤ ptn.size ∧
      ∀ c, set.contains c = cls.matches c := by
  cases l with
  | nil => rw [LuaPattern.parseClass.eq_1] at h; cases h
  | cons a r =>
    obtain ⟨hn0, hL0, hlt0⟩ := next_cons ptn hl
    unfold getCharClass
    simp only [bind, Except.bind, hn0]
    by_cases h46 : a = 46
    · subst h46
      rw [LuaPattern.parseClass.eq_2] at h
      injection h with h; injection h with h1 h2; subst h1; subst h2
      refine ⟨_, ByteSet.fullSet, by simp [pure, Except.pure], hL0, by simp, by simp; omega, fun c => ?_⟩
      rw [ByteSet.contains_fullSet]; rfl
    · have e46 : (a == 46) = false := beq_eq_false_iff_ne.mpr h46
      simp only [e46, Bool.false_eq_true, if_false]
      by_cases h37 : a = 37
      · subst h37
        simp only [show ((37 : UInt8) == 37) = true from by decide, if_true]
        cases r with
        | nil => rw [LuaPattern.parseClass.eq_3] at h; cases h
        | cons x r1 =>
          rw [LuaPattern.parseClass.eq_4] at h
          obtain ⟨hn1, hL1, hlt1⟩ := next_cons ptn hL0
          simp only at hlt1
          cases hesc : LuaPattern.escClass x with
          | error e => rw [hesc] at h; simp at h
          | ok v =>
            rw [hesc] at h
            obtain ⟨rr, hr1, hr2⟩ := getCharRange_of_esc hesc
            simp only [hn1, hr1, pure, Except.pure]
            cases v with
            | inl lt =>
              simp only at h
              injection h with h; injection h with h1 h2; subst h1; subst h2
              exact ⟨_, rr, rfl, hL1, by simp; omega, by simp; omega, fun c => by rw [hr2]; rfl⟩
            | inr bx =>
              simp only at h
              injection h with h; injection h with h1 h2; subst h1; subst h2
              exact ⟨_, rr, rfl, hL1, by simp; omega, by simp; omega, fun c => by rw [hr2]; rfl⟩
      · have e37 : (a == 37) = false := beq_eq_false_iff_ne.mpr h37
        simp only [e37, Bool.false_eq_true, if_false]
        by_cases h91 : a = 91
        · subst h91
          simp only [show ((91 : UInt8) == 91) = true from by decide, if_true]
          rw [LuaPattern.parseClass.eq_5] at h
          obtain ⟨pb', set, h1, h2, h3, h4, h5⟩ := getUnion_refines ptn fuelS r cls rest h
            { pb with i := pb.i + 1 } hL0 (by simp; omega)
          exact ⟨pb', set, h1, h2, by simp at h3; omega, h4, h5⟩
        · have e91 : (a == 91) = false := beq_eq_false_iff_ne.mpr h91
          simp only [e91, Bool.false_eq_true, if_false, pure, Except.pure]
          rw [LuaPattern.parseClass.eq_6 _ _ _ h46 h37 h91] at h
          injection h with h; injection h with h1 h2; subst h1; subst h2
          refine ⟨_, _, rfl, hL0, by simp, by simp; omega, fun c => ?_⟩
          rw [ByteSet.contains_add, ByteSet.contains_empty]
          simp only [Bool.false_or, LuaPattern.Cls.matches]
          exact beq_comm_u8 c a

/-- the optional quantifier: `finishSingle` against `parseQuant` -/
theorem finishSingle_refines (s : ByteSet) (pb : PB) (hpi : pb.i ≤ ptn.size) (hpos : 0 < pb.i) :
    ∃ pb', finishSingle ptn s pb = .ok (emit pb' ⟨s, PatMatch.qType (LuaPattern.parseQuant (L ptn pb)).1⟩) ∧
      L ptn pb' = (LuaPattern.parseQuant (L ptn pb)).2 ∧ pb.i ≤ pb'.i ∧ pb'.i ≤ ptn.size ∧
      pb'.items = pb.items ∧ pb'.ciMax = pb.ciMax ∧ pb'.cStack = pb.cStack ∧ pb'.anchorLeft = pb.anchorLeft ∧
      pb'.anchorRight = pb.anchorRight := by
  unfold finishSingle
  cases hl : L ptn pb with
  | nil =>
    rw [next_nil ptn hl]
    exact ⟨pb, rfl, by simp [LuaPattern.parseQuant, hl], Nat.le_refl _, hpi, rfl, rfl, rfl, rfl, rfl⟩
  | cons a r =>
    obtain ⟨hn0, hL0, hlt0⟩ := next_cons ptn hl
    simp only [hn0]
    by_cases h42 : a = 42
    · subst h42
      exact ⟨{ pb with i := pb.i + 1 }, by simp [LuaPattern.parseQuant, PatMatch.qType], by simp [LuaPattern.parseQuant, hL0], by simp,
        by simp; omega, rfl, rfl, rfl, rfl, rfl⟩
    · by_cases h43 : a = 43
      · subst h43
        exact ⟨{ pb with i := pb.i + 1 }, by simp [LuaPattern.parseQuant, PatMatch.qType], by simp [LuaPattern.parseQuant, hL0], by simp,
          by simp; omega, rfl, rfl, rfl, rfl, rfl⟩
      · by_cases h45 : a = 45
        · subst h45
          exact ⟨{ pb with i := pb.i + 1 }, by simp [LuaPattern.parseQuant, PatMatch.qType], by simp [LuaPattern.parseQuant, hL0], by simp,
            by simp; omega, rfl, rfl, rfl, rfl, rfl⟩
        · by_cases h63 : a = 63
          · subst h63
            exact ⟨{ pb with i := pb.i + 1 }, by simp [LuaPattern.parseQuant, PatMatch.qType], by simp [LuaPattern.parseQuant, hL0], by simp,
              by simp; omega, rfl, rfl, rfl, rfl, rfl⟩
          · have hq : LuaPattern.parseQuant (a :: r) = (.one, a :: r) := by
              unfold LuaPattern.parseQuant
              split
              · rename_i heq; injection heq with e _; exact absurd e h42
              · rename_i heq; injection heq with e _; exact absurd e h43
              · rename_i heq; injection heq with e _; exact absurd e h45
              · rename_i heq; injection heq with e _; exact absurd e h63
              · rfl
            rw [hq]
            simp only [beq_eq_false_iff_ne.mpr h42, beq_eq_false_iff_ne.mpr h43, beq_eq_false_iff_ne.mpr h45,
              beq_eq_false_iff_ne.mpr h63, Bool.false_eq_true, if_false]
            rw [back_ok (by simp)]
            refine ⟨pb, ?_, hl, Nat.le_refl _, hpi, rfl, rfl, rfl, rfl, rfl⟩
            simp [bind, Except.bind, pure, Except.pure, PatMatch.qType]

/-! ## items -/

def AscItem : Item → Prop
  | .char c _ => AscCls c
  | .frontier c => AscCls c
  | _ => True

/-- Spec parser state vs builder state -/
structure StRel (st : LuaPattern.PState) (pb : PB) : Prop where
  items : PatMatch.RelL st.items.reverse pb.items.toList
  ncap : pb.ciMax = st.ncap
  stack : pb.cStack.toList = st.stack.reverse
  anchorEnd : pb.anchorRight = st.anchorEnd
  ncap_le : st.ncap ≤ 9

theorem RelL.snoc {as : List Item} {bs : List PItem} {a : Item} {b : PItem} (h : PatMatch.RelL as bs)
    (hab : PatMatch.ItemRel a b) : PatMatch.RelL (as ++ [a]) (bs ++ [b]) := by
  induction h with
  | nil => exact .cons hab .nil
  | cons h1 _ ih => exact .cons h1 ih

/-- adding one related item to both states -/
theorem StRel.push {st : LuaPattern.PState} {pb pb0 : PB} (h : StRel st pb0) {it : Item} {pit : PItem}
    (hr : PatMatch.ItemRel it pit) (hitems : pb.items = pb0.items.push pit) (hci : pb.ciMax = pb0.ciMax)
    (hcs : pb.cStack = pb0.cStack) (har : pb.anchorRight = pb0.anchorRight) :
    StRel { st with items := it :: st.items } pb := by
  refine ⟨?_, by rw [hci]; exact h.ncap, by rw [hcs]; exact h.stack, by rw [har]; exact h.anchorEnd, h.ncap_le⟩
  rw [hitems]
  simp only [List.reverse_cons, Array.toList_push]
  exact RelL.snoc h.items hr

theorem back_next (pb : PB) : back { pb with i := pb.i + 1 } = .ok pb := by
  unfold back
  simp

/-- only the read position differs -/
def Frame (pb pb' : PB) : Prop := pb' = { pb with i := pb'.i }

theorem Frame.refl (pb : PB) : Frame pb pb := rfl
theorem Frame.trans {a b c : PB} (h1 : Frame a b) (h2 : Frame b c) : Frame a c := by
  unfold Frame at *; rw [h2, h1]
theorem Frame.seti (pb : PB) (k : Nat) : Frame pb { pb with i := k } := rfl

theorem next_frame {pb pb' : PB} {b : UInt8} (h : next ptn pb = .ok (b, pb')) : Frame pb pb' := by
  rw [next_eq] at h
  by_cases hlt : pb.i < ptn.size
  · simp only [hlt, dite_true] at h
    injection h with h; injection h with _ h; subst h; rfl
  · simp [hlt] at h

theorem unionLoop_frame (neg : Bool) : ∀ (fuel : Nat) (b : UInt8) (s : ByteSet) (pb pb' : PB) (sf : ByteSet),
    unionLoop ptn neg fuel b s pb = .ok (sf, pb') → Frame pb pb' := by
  intro fuel
  induction fuel with
  | zero => intro b s pb pb' sf h; rw [unionLoop] at h; cases h
  | succ f ih =>
    intro b s pb pb' sf h
    rw [unionLoop] at h
    split at h
    · injection h with h; injection h with _ h; subst h; exact Frame.refl _
    · split at h
      · cases hn : next ptn pb with
        | error e => simp [bind, Except.bind, hn] at h
        | ok v =>
          obtain ⟨b1, pb1⟩ := v
          simp only [bind, Except.bind, hn] at h
          cases hr : getCharRange b1 with
          | error e => simp [hr] at h
          | ok r =>
            simp only [hr] at h
            cases hn2 : next ptn pb1 with
            | error e => simp [hn2] at h
            | ok v2 =>
              obtain ⟨b2, pb2⟩ := v2
              simp only [hn2] at h
              exact ((next_frame ptn hn).trans (next_frame ptn hn2)).trans (ih _ _ _ _ _ h)
      · cases hn : next ptn pb with
        | error e => simp [bind, Except.bind, hn] at h
        | ok v =>
          obtain ⟨b1, pb1⟩ := v
          simp only [bind, Except.bind, hn] at h
          split at h
          · cases hn2 : next ptn pb1 with
            | error e => simp [hn2] at h
            | ok v2 =>
              obtain ⟨b2, pb2⟩ := v2
              simp only [hn2] at h
              split at h
              · exact ((next_frame ptn hn).trans (next_frame ptn hn2)).trans (ih _ _ _ _ _ h)
              · cases hn3 : next ptn pb2 with
                | error e => simp [hn3] at h
                | ok v3 =>
                  obtain ⟨b3, pb3⟩ := v3
                  simp only [hn3] at h
                  exact (((next_frame ptn hn).trans (next_frame ptn hn2)).trans (next_frame ptn hn3)).trans
                    (ih _ _ _ _ _ h)
          · exact (next_frame ptn hn).trans (ih _ _ _ _ _ h)

theorem unionBody_frame (neg : Bool) (pb pb' : PB) (sf : ByteSet) (h : unionBody ptn neg pb = .ok (sf, pb')) :
    Frame pb pb' := by
  unfold unionBody at h
  cases hn : next ptn pb with
  | error e => simp [bind, Except.bind, hn] at h
  | ok v =>
    obtain ⟨b1, pb1⟩ := v
    simp only [bind, Except.bind, hn] at h
    by_cases hb : (b1 == 93) = true
    · simp only [hb, if_true] at h
      cases hn2 : next ptn pb1 with
      | error e => simp [hn2] at h
      | ok v2 =>
        obtain ⟨b2, pb2⟩ := v2
        simp only [hn2, pure, Except.pure] at h
        exact ((next_frame ptn hn).trans (next_frame ptn hn2)).trans (unionLoop_frame ptn neg _ _ _ _ _ _ h)
    · simp only [hb, Bool.false_eq_true, if_false, pure, Except.pure] at h
      exact (next_frame ptn hn).trans (unionLoop_frame ptn neg _ _ _ _ _ _ h)

theorem getCharClass_frame (pb pb' : PB) (sf : ByteSet) (h : getCharClass ptn pb = .ok (sf, pb')) : Frame pb pb' := by
  unfold getCharClass at h
  cases hn : next ptn pb with
  | error e => simp [bind, Except.bind, hn] at h
  | ok v =>
    obtain ⟨b1, pb1⟩ := v
    simp only [bind, Except.bind, hn] at h
    split at h
    · simp only [pure, Except.pure] at h
      injection h with h; injection h with _ h; subst h; exact next_frame ptn hn
    · split at h
      · cases hn2 : next ptn pb1 with
        | error e => simp [hn2] at h
        | ok v2 =>
          obtain ⟨b2, pb2⟩ := v2
          simp only [hn2] at h
          cases hr : getCharRange b2 with
          | error e => simp [hr] at h
          | ok r =>
            simp only [hr, pure, Except.pure] at h
            injection h with h; injection h with _ h; subst h
            exact (next_frame ptn hn).trans (next_frame ptn hn2)
      · split at h
        · rw [getUnion_eq] at h
          cases hn2 : next ptn pb1 with
          | error e => simp [bind, Except.bind, hn2] at h
          | ok v2 =>
            obtain ⟨b2, pb2⟩ := v2
            simp only [bind, Except.bind, hn2] at h
            split at h
            · exact ((next_frame ptn hn).trans (next_frame ptn hn2)).trans (unionBody_frame ptn _ _ _ _ h)
            · exact (next_frame ptn hn).trans (unionBody_frame ptn _ _ _ _ h)
        · simp only [pure, Except.pure] at h
          injection h with h; injection h with _ h; subst h; exact next_frame ptn hn

theorem L_emit (pb : PB) (x : PItem) : L ptn (emit pb x) = L ptn pb := rfl

/-- the single-character item path of `getPatternItem` (`getCharClass`, `finishSingle`) -/
theorem single_refines (fuelS : Nat) (l : List UInt8) (cls : Cls) (rest' : List UInt8)
    (hcls : LuaPattern.parseClass fuelS l = .ok (cls, rest')) (pb : PB) (hl : L ptn pb = l)
    (hpi : pb.i ≤ ptn.size) :
    ∃ pb' set, (do
        let (s, pb) ← getCharClass ptn pb
        finishSingle ptn s pb) = .ok pb' ∧
      L ptn pb' = (LuaPattern.parseQuant rest').2 ∧ pb.i < pb'.i ∧ pb'.i ≤ ptn.size ∧
      pb'.items = pb.items.push ⟨set, PatMatch.qType (LuaPattern.parseQuant rest').1⟩ ∧
      (∀ c, set.contains c = cls.matches c) ∧
      pb'.ciMax = pb.ciMax ∧ pb'.cStack = pb.cStack ∧ pb'.anchorLeft = pb.anchorLeft ∧
      pb'.anchorRight = pb.anchorRight := by
  obtain ⟨pb1, set, h1, h2, h3, h4, h5⟩ := getCharClass_refines ptn fuelS l cls rest' hcls pb hl hpi
  have hf : Frame pb pb1 := getCharClass_frame ptn pb pb1 set h1
  obtain ⟨pb2, g1, g2, g3, g4, g5, g6, g7, g8, g9⟩ := finishSingle_refines ptn set pb1 h4 (by omega)
  unfold Frame at hf
  refine ⟨emit pb2 ⟨set, PatMatch.qType (LuaPattern.parseQuant (L ptn pb1)).1⟩, set, ?_, ?_, ?_, ?_, ?_, h5, ?_, ?_, ?_, ?_⟩
  · simp only [bind, Except.bind, h1]; exact g1
  · rw [L_emit, g2, h2]
  · simp only [emit]; omega
  · simp only [emit]; exact g4
  · simp only [emit]; rw [g5, h2, hf]
  · simp only [emit]; rw [g6, hf]
  · simp only [emit]; rw [g7, hf]
  · simp only [emit]; rw [g8, hf]
  · simp only [emit]; rw [g9, hf]

/-- `getPatternItem` on a byte that starts a single-character item -/
theorem gpi_single {pb : PB} {a : UInt8} {r : List UInt8} (hl : L ptn pb = a :: r)
    (h94 : a = 94 → pb.i ≠ 0) (h36 : a = 36 → r ≠ []) (h40 : a ≠ 40) (h41 : a ≠ 41) (h37 : a ≠ 37) :
    getPatternItem ptn pb = (do
      let (s, pb) ← getCharClass ptn pb
      finishSingle ptn s pb) := by
  obtain ⟨hn0, hL0, hlt0⟩ := next_cons ptn hl
  unfold getPatternItem
  simp only [bind, Except.bind, hn0, back_next]
  by_cases e94 : a = 94
  · subst e94
    have : ¬ (pb.i + 1 = 1) := by have := h94 rfl; omega
    simp only [show ((94 : UInt8) == 94) = true from by decide, if_true, this, if_false]
  · simp only [beq_eq_false_iff_ne.mpr e94, Bool.false_eq_true, if_false]
    by_cases e36 : a = 36
    · subst e36
      have hr := h36 rfl
      have : ¬ (pb.i + 1 = ptn.size) := by
        intro heq
        have : L ptn { pb with i := pb.i + 1 } = [] := by
          unfold L; apply List.drop_eq_nil_iff.mpr; simp; omega
        rw [hL0] at this; exact hr this
      simp only [show ((36 : UInt8) == 36) = true from by decide, if_true, this, if_false]
    · simp only [beq_eq_false_iff_ne.mpr e36, beq_eq_false_iff_ne.mpr h40, beq_eq_false_iff_ne.mpr h41,
        beq_eq_false_iff_ne.mpr h37, Bool.false_eq_true, if_false]

theorem L_nil_iff {pb : PB} : L ptn pb = [] ↔ ptn.size ≤ pb.i := by
  unfold L
  rw [List.drop_eq_nil_iff]; simp

theorem L_length (pb : PB) : (L ptn pb).length = ptn.size - pb.i := by
  unfold L; simp

/-- one Spec step `(l, st) ↦ (l', st')` is matched by one `getPatternItem` -/
def ItemStep (l l' : List UInt8) (st st' : LuaPattern.PState) : Prop :=
  ∀ (pb : PB), L ptn pb = l → (pb.i = 0 → l.head? ≠ some 94) → StRel st pb →
    ∃ pb', getPatternItem ptn pb = .ok pb' ∧ L ptn pb' = l' ∧ pb.i < pb'.i ∧ pb'.i ≤ ptn.size ∧ StRel st' pb' ∧
      pb'.anchorLeft = pb.anchorLeft

theorem item_pos (st : LuaPattern.PState) (r2 : List UInt8) (hmaxc : ¬ (st.ncap + 1 > LuaPattern.maxCaptures)) :
    ItemStep ptn (40 :: 41 :: r2) r2 st { st with items := .pos (st.ncap + 1) :: st.items, ncap := st.ncap + 1 } := by
  intro pb hl hcaret hrel
  obtain ⟨hn0, hL0, hlt0⟩ := next_cons ptn hl
  obtain ⟨hn1, hL1, hlt1⟩ := next_cons ptn (pb := { pb with i := pb.i + 1, ciMax := pb.ciMax + 1 }) hL0
  simp only at hlt1
  have hci : pb.ciMax = st.ncap := hrel.ncap
  have hlt10 : ¬ (pb.ciMax + 1 ≥ 10) := by
    unfold LuaPattern.maxCaptures at hmaxc; omega
  refine ⟨emit { pb with i := pb.i + 1 + 1, ciMax := pb.ciMax + 1 }
    ⟨wordsSet (pb.ciMax + 1) 0, .startCapture⟩, ?_, hL1, by simp [emit]; omega, by simp [emit]; omega, ?_, rfl⟩
  · unfold getPatternItem
    simp only [bind, Except.bind, hn0, show ((40 : UInt8) == 94) = false from by decide,
      show ((40 : UInt8) == 36) = false from by decide, show ((40 : UInt8) == 40) = true from by decide,
      Bool.false_eq_true, if_false, if_true, hlt10, hn1,
      show ((41 : UInt8) != 41) = false from by decide, pure, Except.pure]
  · refine ⟨?_, by simp [emit, hci], by simp [emit]; exact hrel.stack, by simp [emit]; exact hrel.anchorEnd,
      by unfold LuaPattern.maxCaptures at hmaxc; simp; omega⟩
    simp only [emit, List.reverse_cons, Array.toList_push]
    rw [hci]
    exact RelL.snoc hrel.items (.pos (st.ncap + 1))

theorem item_open (st : LuaPattern.PState) (b2 : UInt8) (r2 : List UInt8) (hb2 : b2 ≠ 41) (hmaxc : ¬ (st.ncap + 1 > LuaPattern.maxCaptures)) :
    ItemStep ptn (40 :: b2 :: r2) (b2 :: r2) st { st with items := .open (st.ncap + 1) :: st.items, ncap := st.ncap + 1, stack := (st.ncap + 1) :: st.stack } := by
  intro pb hl hcaret hrel
  obtain ⟨hn0, hL0, hlt0⟩ := next_cons ptn hl
  obtain ⟨hn1, hL1, hlt1⟩ := next_cons ptn (pb := { pb with i := pb.i + 1, ciMax := pb.ciMax + 1 }) hL0
  simp only at hlt1
  have hci : pb.ciMax = st.ncap := hrel.ncap
  have hlt10 : ¬ (pb.ciMax + 1 ≥ 10) := by
    unfold LuaPattern.maxCaptures at hmaxc; omega
  refine ⟨emit { pb with i := pb.i + 1, ciMax := pb.ciMax + 1, cStack := pb.cStack.push (pb.ciMax + 1) }
    ⟨wordsSet (pb.ciMax + 1) 0, .startCapture⟩, ?_, hL0, by simp [emit], by simp [emit]; omega, ?_, rfl⟩
  · unfold getPatternItem
    simp only [bind, Except.bind, hn0, show ((40 : UInt8) == 94) = false from by decide,
      show ((40 : UInt8) == 36) = false from by decide, show ((40 : UInt8) == 40) = true from by decide,
      Bool.false_eq_true, if_false, if_true, hlt10, hn1]
    have : (b2 != 41) = true := by simp [hb2]
    simp only [this, if_true]
    rw [back_ok (by simp)]
    simp [pure, Except.pure, emit]
  · refine ⟨?_, by simp [emit, hci], ?_, by simp [emit]; exact hrel.anchorEnd,
      by unfold LuaPattern.maxCaptures at hmaxc; simp; omega⟩
    · simp only [emit, List.reverse_cons, Array.toList_push]
      rw [hci]
      exact RelL.snoc hrel.items (.open_ (st.ncap + 1))
    · simp only [emit, Array.toList_push, List.reverse_cons]
      rw [hrel.stack, hci]

theorem item_close (st : LuaPattern.PState) (n : Nat) (stk : List Nat) (r : List UInt8) (hstk : st.stack = n :: stk) :
    ItemStep ptn (41 :: r) r st { st with items := .close n :: st.items, stack := stk } := by
  intro pb hl hcaret hrel
  obtain ⟨hn0, hL0, hlt0⟩ := next_cons ptn hl
  have hcs : pb.cStack.toList = stk.reverse ++ [n] := by rw [hrel.stack, hstk]; simp
  have hsz : pb.cStack.size = stk.length + 1 := by
    have := congrArg List.length hcs; simpa using this
  have hlast : pb.cStack[pb.cStack.size - 1]? = some n := by
    rw [← Array.getElem?_toList, hcs, hsz]
    simp
  refine ⟨{ (emit { pb with i := pb.i + 1 } ⟨wordsSet n 0, .endCapture⟩) with
      cStack := pb.cStack.extract 0 (pb.cStack.size - 1) }, ?_, hL0, by simp [emit], by simp [emit]; omega, ?_, rfl⟩
  · unfold getPatternItem
    have hne : ¬ (pb.cStack.size = 0) := by omega
    simp only [bind, Except.bind, hn0, show ((41 : UInt8) == 94) = false from by decide,
      show ((41 : UInt8) == 36) = false from by decide, show ((41 : UInt8) == 40) = false from by decide,
      show ((41 : UInt8) == 41) = true from by decide,
      Bool.false_eq_true, if_false, if_true, hne, hlast, pure, Except.pure]
  · refine ⟨?_, by simp [emit]; exact hrel.ncap, ?_, by simp [emit]; exact hrel.anchorEnd, hrel.ncap_le⟩
    · simp only [emit, List.reverse_cons, Array.toList_push]
      exact RelL.snoc hrel.items (.close n)
    · simp only [Array.toList_extract, hsz]
      simp [hcs]

theorem item_bal (st : LuaPattern.PState) (x y : UInt8) (r4 : List UInt8) :
    ItemStep ptn (37 :: 98 :: x :: y :: r4) r4 st { st with items := .bal x y :: st.items } := by
  intro pb hl hcaret hrel
  obtain ⟨hn0, hL0, hlt0⟩ := next_cons ptn hl
  obtain ⟨hn1, hL1, hlt1⟩ := next_cons ptn hL0
  obtain ⟨hn2, hL2, hlt2⟩ := next_cons ptn hL1
  obtain ⟨hn3, hL3, hlt3⟩ := next_cons ptn hL2
  simp only at hlt1 hlt2 hlt3
  refine ⟨emit { pb with i := pb.i + 1 + 1 + 1 + 1 } ⟨wordsSet x.toNat y.toNat, .balanced⟩, ?_, hL3,
    by simp [emit]; omega, by simp [emit]; omega, ?_, rfl⟩
  · unfold getPatternItem
    simp only [bind, Except.bind, hn0, show ((37 : UInt8) == 94) = false from by decide,
      show ((37 : UInt8) == 36) = false from by decide, show ((37 : UInt8) == 40) = false from by decide,
      show ((37 : UInt8) == 41) = false from by decide, show ((37 : UInt8) == 37) = true from by decide,
      Bool.false_eq_true, if_false, if_true, hn1,
      show ((98 : UInt8) == 102) = false from by decide, show ((98 : UInt8) == 98) = true from by decide,
      hn2, hn3, pure, Except.pure]
  · exact hrel.push (.bal x y) rfl rfl rfl rfl

theorem item_frontier (st : LuaPattern.PState) (f : Nat) (r3 rest'' : List UInt8) (c : Cls) (hps : LuaPattern.parseSet f r3 = .ok (c, rest'')) :
    ItemStep ptn (37 :: 102 :: 91 :: r3) rest'' st { st with items := .frontier c :: st.items } := by
  intro pb hl hcaret hrel
  obtain ⟨hn0, hL0, hlt0⟩ := next_cons ptn hl
  obtain ⟨hn1, hL1, hlt1⟩ := next_cons ptn hL0
  simp only at hlt1
  have hpc : LuaPattern.parseClass f (91 :: r3) = .ok (c, rest'') := by
    rw [LuaPattern.parseClass.eq_5]; exact hps
  obtain ⟨pb', set, g1, g2, g3, g4, g5⟩ := getCharClass_refines ptn f (91 :: r3) c rest'' hpc
    { pb with i := pb.i + 1 + 1 } hL1 (by simp; omega)
  have hfr := getCharClass_frame ptn _ _ _ g1
  unfold Frame at hfr
  refine ⟨emit pb' ⟨set, .frontier⟩, ?_, by rw [L_emit]; exact g2, by simp [emit] at g3 ⊢; omega,
    by simp [emit]; exact g4, ?_, by simp [emit]; rw [hfr]⟩
  · unfold getPatternItem
    have h91 := L_head ptn hL1
    simp only at h91
    simp only [bind, Except.bind, hn0, show ((37 : UInt8) == 94) = false from by decide,
      show ((37 : UInt8) == 36) = false from by decide, show ((37 : UInt8) == 40) = false from by decide,
      show ((37 : UInt8) == 41) = false from by decide, show ((37 : UInt8) == 37) = true from by decide,
      Bool.false_eq_true, if_false, if_true, hn1,
      show ((102 : UInt8) == 102) = true from by decide, h91,
      show ((some (91 : UInt8)) != some 91) = false from by decide, g1, pure, Except.pure]
  · refine hrel.push (.frontier c set g5) ?_ ?_ ?_ ?_ <;> (simp only [emit]; rw [hfr])

theorem item_backref (st : LuaPattern.PState) (d : UInt8) (r2 : List UInt8) (hd98 : d ≠ 98) (hd102 : d ≠ 102) (hdig : LuaPattern.isDigit d = true)
    (hbad : ¬ ((d - 48).toNat = 0 ∨ (d - 48).toNat > st.ncap ∨ st.stack.contains (d - 48).toNat = true)) :
    ItemStep ptn (37 :: d :: r2) r2 st { st with items := .backref (d - 48).toNat :: st.items } := by
  intro pb hl hcaret hrel
  obtain ⟨hn0, hL0, hlt0⟩ := next_cons ptn hl
  obtain ⟨hn1, hL1, hlt1⟩ := next_cons ptn hL0
  simp only at hlt1
  have hd19 : isDigit19 d = true := by
    unfold LuaPattern.isDigit at hdig
    unfold isDigit19
    simp only [Bool.and_eq_true, decide_eq_true_eq, ge_iff_le] at hdig ⊢
    refine ⟨?_, hdig.2⟩
    have hn0' : ¬ ((d - 48).toNat = 0) := fun e => hbad (Or.inl e)
    rw [UInt8.le_iff_toNat_le] at hdig ⊢
    have h48 := hdig.1
    have hsub : (d - 48).toNat = d.toNat - 48 := by
      rw [UInt8.toNat_sub_of_le _ _ (UInt8.le_iff_toNat_le.mpr h48)]; rfl
    have : (48 : UInt8).toNat = 48 := rfl
    have : (49 : UInt8).toNat = 49 := rfl
    omega
  have hchk : checkCapture { pb with i := pb.i + 1 + 1 } (d - 48).toNat = true := by
    unfold checkCapture
    have h1 : ¬ ((d - 48).toNat > pb.ciMax) := by
      rw [hrel.ncap]; exact fun e => hbad (Or.inr (Or.inl e))
    simp only [h1, if_false]
    have h2 : st.stack.contains (d - 48).toNat = false := by
      cases hc : st.stack.contains (d - 48).toNat with
      | false => rfl
      | true => exact absurd (Or.inr (Or.inr hc)) hbad
    have : pb.cStack.contains (d - 48).toNat = st.stack.contains (d - 48).toNat := by
      rw [← Array.contains_toList, hrel.stack]
      simp [List.contains_eq_mem, List.mem_reverse]
    have hcf : pb.cStack.contains (d - 48).toNat = false := by rw [this, h2]
    simp only [Bool.not_eq_eq_eq_not, Bool.not_true]
    exact hcf
  refine ⟨emit { pb with i := pb.i + 1 + 1 } ⟨wordsSet (d - 48).toNat 0, .capture⟩, ?_, hL1,
    by simp [emit]; omega, by simp [emit]; omega, ?_, rfl⟩
  · unfold getPatternItem
    simp only [bind, Except.bind, hn0, show ((37 : UInt8) == 94) = false from by decide,
      show ((37 : UInt8) == 36) = false from by decide, show ((37 : UInt8) == 40) = false from by decide,
      show ((37 : UInt8) == 41) = false from by decide, show ((37 : UInt8) == 37) = true from by decide,
      Bool.false_eq_true, if_false, if_true, hn1, beq_eq_false_iff_ne.mpr hd102,
      beq_eq_false_iff_ne.mpr hd98, hd19, hchk, Bool.not_true, pure, Except.pure]
  · exact hrel.push (.backref _) rfl rfl rfl rfl

theorem item_esc (st : LuaPattern.PState) (d : UInt8) (r2 : List UInt8) (hd98 : d ≠ 98) (hd102 : d ≠ 102) (hdig : ¬ (LuaPattern.isDigit d = true))
    (rr : ByteSet) (hr1 : getCharRange d = .ok rr) (c : Cls) (hc : ∀ x, rr.contains x = c.matches x) :
    ItemStep ptn (37 :: d :: r2) (LuaPattern.parseQuant r2).2 st
      { st with items := Item.char c (LuaPattern.parseQuant r2).1 :: st.items } := by
  intro pb hl hcaret hrel
  obtain ⟨hn0, hL0, hlt0⟩ := next_cons ptn hl
  obtain ⟨hn1, hL1, hlt1⟩ := next_cons ptn hL0
  simp only at hlt1
  obtain ⟨pb2, g1, g2, g3, g4, g5, g6, g7, g8, g9⟩ := finishSingle_refines ptn rr
    { pb with i := pb.i + 1 + 1 } (by simp; omega) (by simp)
  rw [hL1] at g1 g2
  have hd19 : isDigit19 d = false := by
    unfold LuaPattern.isDigit at hdig
    unfold isDigit19
    simp only [Bool.and_eq_true, decide_eq_true_eq, not_and, ge_iff_le] at hdig
    simp only [Bool.and_eq_false_iff, decide_eq_false_iff_not, ge_iff_le]
    by_cases h49 : (49 : UInt8) ≤ d
    · right
      apply hdig
      rw [UInt8.le_iff_toNat_le] at h49 ⊢
      have : (48 : UInt8).toNat = 48 := rfl
      have : (49 : UInt8).toNat = 49 := rfl
      omega
    · left; exact h49
  refine ⟨emit pb2 ⟨rr, PatMatch.qType (LuaPattern.parseQuant r2).1⟩, ?_, by rw [L_emit]; exact g2,
    by simp [emit] at g3 ⊢; omega, by simp [emit]; exact g4, ?_, by simp [emit]; exact g8⟩
  · unfold getPatternItem
    simp only [bind, Except.bind, hn0, show ((37 : UInt8) == 94) = false from by decide,
      show ((37 : UInt8) == 36) = false from by decide, show ((37 : UInt8) == 40) = false from by decide,
      show ((37 : UInt8) == 41) = false from by decide, show ((37 : UInt8) == 37) = true from by decide,
      Bool.false_eq_true, if_false, if_true, hn1, beq_eq_false_iff_ne.mpr hd102,
      beq_eq_false_iff_ne.mpr hd98, hd19, hr1]
    exact g1
  · refine hrel.push (.char c _ rr hc) ?_ ?_ ?_ ?_ <;> simp only [emit]
    · rw [g5]
    · exact g6
    · exact g7
    · exact g9

theorem item_single (st : LuaPattern.PState) (f : Nat) (a : UInt8) (r rest' : List UInt8) (c : Cls) (hA : ¬ (a = 36 ∧ r = []))
    (h40 : a ≠ 40) (h41 : a ≠ 41) (h37 : a ≠ 37) (hpc : LuaPattern.parseClass f (a :: r) = .ok (c, rest')) :
    ItemStep ptn (a :: r) (LuaPattern.parseQuant rest').2 st
      { st with items := Item.char c (LuaPattern.parseQuant rest').1 :: st.items } := by
  intro pb hl hcaret hrel
  have h36 : a = 36 → r ≠ [] := fun e hr => hA ⟨e, hr⟩
  have hpi : pb.i ≤ ptn.size := by
    have := L_length ptn pb; rw [hl] at this; simp at this; omega
  obtain ⟨pb', set, g1, g2, g3, g4, g5, g6, g7, g8, g9, g10⟩ :=
    single_refines ptn f (a :: r) c rest' hpc pb hl hpi
  refine ⟨pb', ?_, g2, g3, g4, ?_, g9⟩
  · rw [gpi_single ptn hl (fun e h0 => by
      have := hcaret h0; rw [e] at this; exact this rfl) h36 h40 h41 h37]
    exact g1
  · exact hrel.push (.char c _ set g6) g5 g7 g8 g10

/-- THE BUILDER AGAINST THE SPEC'S PARSER: the main loops -/
theorem buildLoop_refines (maxSize : Nat) (hmax : ptn.size ≤ maxSize) :
    ∀ (fuelS : Nat) (l : List UInt8) (st stf : LuaPattern.PState),
    LuaPattern.parseItems fuelS l st = .ok stf →
    (∀ it ∈ st.items, it ∈ stf.items) ∧
    ∀ (pb : PB) (fuelM sz : Nat), L ptn pb = l → (pb.i = 0 → l.head? ≠ some 94) → StRel st pb →
      ptn.size + 1 ≤ fuelM + pb.i → sz ≤ pb.i → pb.i ≤ ptn.size →
      ∃ pbf, buildLoop ptn maxSize fuelM sz pb = .ok pbf ∧ StRel stf pbf ∧ pbf.anchorLeft = pb.anchorLeft ∧
        stf.stack = [] := by
  intro fuelS
  induction fuelS with
  | zero => intro l st stf h; rw [LuaPattern.parseItems.eq_1] at h; cases h
  | succ f ih =>
    intro l st stf h
    -- how every non-terminal case concludes: one Spec step to `(l', st')`, one builder item to `pb'`
    have finish : ∀ (l' : List UInt8) (st' : LuaPattern.PState), LuaPattern.parseItems f l' st' = .ok stf →
        (∀ it ∈ st.items, it ∈ st'.items) →
        (∀ (pb : PB), L ptn pb = l → (pb.i = 0 → l.head? ≠ some 94) → StRel st pb →
          ∃ pb', getPatternItem ptn pb = .ok pb' ∧ L ptn pb' = l' ∧ pb.i < pb'.i ∧ pb'.i ≤ ptn.size ∧ StRel st' pb' ∧
            pb'.anchorLeft = pb.anchorLeft) →
        (∀ it ∈ st.items, it ∈ stf.items) ∧
        ∀ (pb : PB) (fuelM sz : Nat), L ptn pb = l → (pb.i = 0 → l.head? ≠ some 94) → StRel st pb →
          ptn.size + 1 ≤ fuelM + pb.i → sz ≤ pb.i → pb.i ≤ ptn.size →
          ∃ pbf, buildLoop ptn maxSize fuelM sz pb = .ok pbf ∧ StRel stf pbf ∧ pbf.anchorLeft = pb.anchorLeft ∧
            stf.stack = [] := by
      intro l' st' hspec hsub hitem
      obtain ⟨hsub', hstep⟩ := ih l' st' stf hspec
      refine ⟨fun it hit => hsub' it (hsub it hit), ?_⟩
      intro pb fuelM sz hl hcaret hrel hf hsz hpi
      obtain ⟨pb', g1, g2, g3, g4, g5, g6⟩ := hitem pb hl hcaret hrel
      obtain ⟨fm, rfl⟩ : ∃ fm, fuelM = fm + 1 := ⟨fuelM - 1, by omega⟩
      obtain ⟨pbf, k1, k2, k3, k4⟩ := hstep pb' fm (sz + 1) g2 (fun h0 => by omega) g5 (by omega) (by omega) g4
      refine ⟨pbf, ?_, k2, by rw [k3, g6], k4⟩
      rw [buildLoop]
      have hlt : pb.i < ptn.size := by omega
      have hsz' : ¬ (sz + 1 > maxSize) := by omega
      simp only [hlt, if_true, bind, Except.bind, g1, hsz', if_false]
      exact k1
    cases l with
    | nil =>
      rw [LuaPattern.parseItems.eq_2] at h
      by_cases hst : st.stack.isEmpty = true
      · simp only [hst, if_true] at h
        injection h with h; subst h
        refine ⟨fun it hit => hit, ?_⟩
        intro pb fuelM sz hl _ hrel hf hsz hpi
        obtain ⟨fm, rfl⟩ : ∃ fm, fuelM = fm + 1 := ⟨fuelM - 1, by omega⟩
        refine ⟨pb, ?_, hrel, rfl, by simpa using hst⟩
        rw [buildLoop]
        have : ¬ (pb.i < ptn.size) := by have := (L_nil_iff ptn).mp hl; omega
        simp only [this, if_false]
      · simp [hst] at h
    | cons a r =>
      by_cases hA : a = 36 ∧ r = []
      · -- `$` as the last byte: the end anchor
        obtain ⟨ha, hr⟩ := hA
        subst ha; subst hr
        rw [LuaPattern.parseItems.eq_3] at h
        by_cases hst : st.stack.isEmpty = true
        · simp only [hst, if_true] at h
          injection h with h; subst h
          refine ⟨fun it hit => hit, ?_⟩
          intro pb fuelM sz hl _ hrel hf hsz hpi
          obtain ⟨hn0, hL0, hlt0⟩ := next_cons ptn hl
          have hlen := L_length ptn pb
          rw [hl] at hlen
          simp only [List.length_cons, List.length_nil] at hlen
          obtain ⟨fm, rfl⟩ : ∃ fm, fuelM = fm + 1 := ⟨fuelM - 1, by omega⟩
          obtain ⟨fm', rfl⟩ : ∃ fm', fm = fm' + 1 := ⟨fm - 1, by omega⟩
          refine ⟨{ pb with i := pb.i + 1, anchorRight := true }, ?_, ?_, rfl, by simpa using hst⟩
          · rw [buildLoop]
            have hsz' : ¬ (sz + 1 > maxSize) := by omega
            have hgpi : getPatternItem ptn pb = .ok { pb with i := pb.i + 1, anchorRight := true } := by
              unfold getPatternItem
              have : pb.i + 1 = ptn.size := by omega
              simp [bind, Except.bind, hn0, this, pure, Except.pure]
            simp only [hlt0, if_true, bind, Except.bind, hgpi, hsz', if_false]
            rw [buildLoop]
            have : ¬ (pb.i + 1 < ptn.size) := by omega
            simp only [this, if_false]
          · exact ⟨hrel.items, hrel.ncap, hrel.stack, rfl, hrel.ncap_le⟩
        · simp [hst] at h
      · by_cases h40 : a = 40
        · -- `(`
          subst h40
          cases r with
          | nil => rw [LuaPattern.parseItems.eq_4] at h; split at h <;> cases h
          | cons b2 r2 =>
            by_cases hb2 : b2 = 41
            · -- `()` position capture
              subst hb2
              rw [LuaPattern.parseItems.eq_5] at h
              by_cases hmaxc : st.ncap + 1 > LuaPattern.maxCaptures
              · simp [hmaxc] at h
              · simp only [hmaxc, if_false] at h
                refine finish r2 _ h (fun it hit => List.mem_cons_of_mem _ hit) ?_
                exact item_pos ptn st r2 hmaxc
            · -- `(` opening a capture
              rw [LuaPattern.parseItems.eq_6 _ _ _ (by intro e; cases e)
                (by intro rest' e; injection e with e1 _; exact hb2 e1)] at h
              by_cases hmaxc : st.ncap + 1 > LuaPattern.maxCaptures
              · simp [hmaxc] at h
              · simp only [hmaxc, if_false] at h
                refine finish (b2 :: r2) _ h (fun it hit => List.mem_cons_of_mem _ hit) ?_
                exact item_open ptn st b2 r2 hb2 hmaxc
        · by_cases h41 : a = 41
          · -- `)`
            subst h41
            rw [LuaPattern.parseItems.eq_7] at h
            cases hstk : st.stack with
            | nil => rw [hstk] at h; simp at h
            | cons n stk =>
              rw [hstk] at h
              simp only at h
              refine finish r _ h (fun it hit => List.mem_cons_of_mem _ hit) ?_
              exact item_close ptn st n stk r hstk
          · by_cases h37 : a = 37
            · -- `%…`
              subst h37
              cases r with
              | nil =>
                rw [LuaPattern.parseItems.eq_13 _ _ _ (by intro e; cases e) (by intro e; cases e)
                  (by intro rest e; cases e) (by intro rest e; cases e) (by intro rest e; cases e)
                  (by intro rest e; cases e) (by intro d rest e; cases e)] at h
                rw [LuaPattern.parseClass.eq_3] at h
                cases h
              | cons d r2 =>
                by_cases hd98 : d = 98
                · -- `%bxy`
                  subst hd98
                  cases r2 with
                  | nil => rw [LuaPattern.parseItems.eq_9 _ _ _ (by intro x y r' e; cases e)] at h; cases h
                  | cons x r3 =>
                    cases r3 with
                    | nil =>
                      rw [LuaPattern.parseItems.eq_9 _ _ _ (by intro x y r' e; injection e with _ e; cases e)] at h
                      cases h
                    | cons y r4 =>
                      rw [LuaPattern.parseItems.eq_8] at h
                      refine finish r4 _ h (fun it hit => List.mem_cons_of_mem _ hit) ?_
                      exact item_bal ptn st x y r4
                · by_cases hd102 : d = 102
                  · -- `%f[set]`
                    subst hd102
                    cases r2 with
                    | nil => rw [LuaPattern.parseItems.eq_11 _ _ _ (by intro r' e; cases e)] at h; cases h
                    | cons x r3 =>
                      by_cases hx91 : x = 91
                      · subst hx91
                        rw [LuaPattern.parseItems.eq_10] at h
                        cases hps : LuaPattern.parseSet f r3 with
                        | error e => rw [hps] at h; simp at h
                        | ok v =>
                          obtain ⟨c, rest''⟩ := v
                          rw [hps] at h
                          simp only at h
                          refine finish rest'' _ h (fun it hit => List.mem_cons_of_mem _ hit) ?_
                          exact item_frontier ptn st f r3 rest'' c hps
                      · rw [LuaPattern.parseItems.eq_11 _ _ _ (by intro r' e; injection e with e1 _; exact hx91 e1)] at h
                        cases h
                  · rw [LuaPattern.parseItems.eq_12 _ _ _ _ hd98 hd102] at h
                    by_cases hdig : LuaPattern.isDigit d = true
                    · -- `%1` … `%9`
                      simp only [hdig, if_true] at h
                      by_cases hbad : (d - 48).toNat = 0 ∨ (d - 48).toNat > st.ncap ∨ st.stack.contains (d - 48).toNat = true
                      · rw [if_pos hbad] at h; cases h
                      · rw [if_neg hbad] at h
                        refine finish r2 _ h (fun it hit => List.mem_cons_of_mem _ hit) ?_
                        exact item_backref ptn st d r2 hd98 hd102 hdig hbad
                    · -- `%x` as a single-character class
                      simp only [hdig, Bool.false_eq_true, if_false] at h
                      rw [LuaPattern.parseClass.eq_4] at h
                      cases hesc : LuaPattern.escClass d with
                      | error e => rw [hesc] at h; simp at h
                      | ok v =>
                        rw [hesc] at h
                        obtain ⟨rr, hr1, hr2⟩ := getCharRange_of_esc hesc
                        -- the class and what follows
                        have key : ∃ c : Cls, (∀ x, rr.contains x = c.matches x) ∧
                            LuaPattern.parseItems f (LuaPattern.parseQuant r2).2
                              { st with items := Item.char c (LuaPattern.parseQuant r2).1 :: st.items } = .ok stf := by
                          cases v with
                          | inl lt => exact ⟨.named lt, fun x => by rw [hr2]; rfl, h⟩
                          | inr bx => exact ⟨.lit bx, fun x => by rw [hr2]; rfl, h⟩
                        obtain ⟨c, hc, hk⟩ := key
                        refine finish _ _ hk (fun it hit => List.mem_cons_of_mem _ hit) ?_
                        exact item_esc ptn st d r2 hd98 hd102 hdig rr hr1 c hc
            · -- a single-character item
              have h36 : a = 36 → r ≠ [] := fun e hr => hA ⟨e, hr⟩
              rw [LuaPattern.parseItems.eq_13 _ _ _ (by intro e; cases e)
                (by intro e; injection e with e1 e2; exact hA ⟨e1, e2⟩)
                (by intro rest e; injection e with e1 _; exact h40 e1)
                (by intro rest e; injection e with e1 _; exact h41 e1)
                (by intro rest e; injection e with e1 _; exact h37 e1)
                (by intro rest e; injection e with e1 _; exact h37 e1)
                (by intro d rest e; injection e with e1 _; exact h37 e1)] at h
              cases hpc : LuaPattern.parseClass f (a :: r) with
              | error e => rw [hpc] at h; simp at h
              | ok v =>
                obtain ⟨c, rest'⟩ := v
                rw [hpc] at h
                simp only at h
                refine finish (LuaPattern.parseQuant rest').2 _ h (fun it hit => List.mem_cons_of_mem _ hit) ?_
                exact item_single ptn st f a r rest' c hA h40 h41 h37 hpc

theorem StRel.init (pb : PB) (h1 : pb.items = #[]) (h2 : pb.ciMax = 0) (h3 : pb.cStack = #[]) (h4 : pb.anchorRight = false) :
    StRel { items := [], ncap := 0, stack := [], anchorEnd := false } pb := by
  refine ⟨?_, h2, by rw [h3]; rfl, h4, by simp⟩
  rw [h1]; exact .nil

/-- BUILD ⊑ PARSE: whenever the Spec parses a pattern string, the
    builder accepts it and produces items related (`ItemRel`) one by one to the parsed items, with the same anchors
    and capture count -/
theorem build_refines_parse (pat : LuaPattern.Pat) (hparse : LuaPattern.parse ptn.toList = .ok pat)
    (hsize : ptn.size ≤ Generated.ByteSetTable.maxPatternSize) :
    ∃ P, build ptn = .ok P ∧ PatMatch.RelL pat.items P.items.toList ∧ P.captureCount = pat.ncap ∧
      P.startAnchor = pat.anchorStart ∧ P.endAnchor = pat.anchorEnd ∧ pat.ncap ≤ 9 := by
  unfold LuaPattern.parse at hparse
  have hL0 : L ptn {} = ptn.toList := by simp [L]
  -- what both cases end with
  have fin : ∀ (stf : LuaPattern.PState) (pbf : PB) (aL : Bool),
      buildLoop ptn Generated.ByteSetTable.maxPatternSize (ptn.size + 1) 0 {} = .ok pbf → StRel stf pbf →
      pbf.anchorLeft = aL → stf.stack = [] →
      ∃ P, build ptn = .ok P ∧ PatMatch.RelL stf.items.reverse P.items.toList ∧ P.captureCount = stf.ncap ∧
        P.startAnchor = aL ∧ P.endAnchor = stf.anchorEnd ∧ stf.ncap ≤ 9 := by
    intro stf pbf aL hb hrel hal hstk
    have hcs : pbf.cStack.size = 0 := by
      have := hrel.stack; rw [hstk] at this
      have := congrArg List.length this; simpa using this
    refine ⟨{ items := pbf.items, captureCount := pbf.ciMax, startAnchor := pbf.anchorLeft, endAnchor := pbf.anchorRight },
      ?_, hrel.items, hrel.ncap, hal, hrel.anchorEnd, hrel.ncap_le⟩
    unfold build
    simp [bind, Except.bind, hb, hcs, pure, Except.pure]
  by_cases hcaret : ∃ r, ptn.toList = 94 :: r
  · -- the pattern starts with `^`: the builder's first item is the anchor
    obtain ⟨r, hp⟩ := hcaret
    have hsc : LuaPattern.stripCaret ptn.toList = (true, r) := by rw [hp]; rfl
    rw [hsc] at hparse
    simp only at hparse
    cases hpi : LuaPattern.parseItems (r.length + 1) r { items := [], ncap := 0, stack := [], anchorEnd := false } with
    | error e => rw [hpi] at hparse; cases hparse
    | ok stf =>
      rw [hpi] at hparse
      injection hparse with hparse; subst hparse
      obtain ⟨_, hstep⟩ := buildLoop_refines ptn _ hsize _ _ _ stf hpi
      have hl0 : L ptn {} = 94 :: r := by rw [hL0, hp]
      obtain ⟨hn0, hL1, hlt0⟩ := next_cons ptn hl0
      have hlen : ptn.size = r.length + 1 := by
        have := congrArg List.length hp; simpa using this
      obtain ⟨pbf, k1, k2, k3, k4⟩ := hstep { ({} : PB) with i := 1, anchorLeft := true } ptn.size 1 hL1
        (fun h0 => by simp at h0) (StRel.init _ rfl rfl rfl rfl) (by simp) (by simp) (by simp; omega)
      refine fin stf pbf true ?_ k2 (by rw [k3]) k4
      rw [buildLoop]
      have hgpi : getPatternItem ptn {} = .ok { ({} : PB) with i := 1, anchorLeft := true } := by
        unfold getPatternItem
        simp [bind, Except.bind, hn0, pure, Except.pure]
      have hsz' : ¬ (0 + 1 > Generated.ByteSetTable.maxPatternSize) := by
        unfold Generated.ByteSetTable.maxPatternSize; omega
      have hlt : ({} : PB).i < ptn.size := by simp; omega
      simp only [hlt, if_true, bind, Except.bind, hgpi, hsz', if_false]
      exact k1
  · -- no start anchor
    have hsc : LuaPattern.stripCaret ptn.toList = (false, ptn.toList) := by
      unfold LuaPattern.stripCaret
      split
      · rename_i r' hr'; exact absurd ⟨r', hr'⟩ hcaret
      · rfl
    rw [hsc] at hparse
    simp only at hparse
    have hparse' := hparse
    cases hpi : LuaPattern.parseItems (ptn.toList.length + 1) ptn.toList
        { items := [], ncap := 0, stack := [], anchorEnd := false } with
    | error e => rw [hpi] at hparse'; cases hparse'
    | ok stf =>
      rw [hpi] at hparse'
      injection hparse' with hparse'; subst hparse'
      obtain ⟨_, hstep⟩ := buildLoop_refines ptn _ hsize _ _ _ stf hpi
      obtain ⟨pbf, k1, k2, k3, k4⟩ := hstep {} (ptn.size + 1) 0 hL0
        (fun _ hh => by
          cases hl : ptn.toList with
          | nil => rw [hl] at hh; simp at hh
          | cons a r =>
            rw [hl] at hh
            simp only [List.head?_cons, Option.some.injEq] at hh
            exact hcaret ⟨r, by rw [hl, hh]⟩)
        (StRel.init _ rfl rfl rfl rfl) (by simp) (by simp) (by simp)
      exact fin stf pbf false k1 k2 (by rw [k3]) k4

end GoluaVerif.Model.PatBuild
