/-
  Proofs.C18Rt — lifting of pool predicates to the runtime model: every pool a runtime ever
  made (live or popped) is only ever changed by pool operations, so any predicate that holds
  for a fresh pool and is preserved by `ClonePool.use` holds for all of them after any history.
-/
import GoluaVerif.Proofs.C18Pres
import GoluaVerif.Model.GcRuntime
namespace GoluaVerif.Proofs.C18
open GoluaVerif.Spec.Gc GoluaVerif.Model.ClonePool GoluaVerif.Model.GcRuntime GoluaVerif.Model

/-- the operations the runtime performs on a pool (the raw `Extract*` calls in arbitrary order are not among them) -/
def isRtUse : Use → Bool
  | .xPF | .xPR | .xAF | .xAR => false
  | _ => true

/-- `P` holds of every pool of the runtime -/
def AllPools (P : Pool → Prop) (s : Rt) : Prop := ∀ p ∈ s.pools, P p

theorem mem_applyAt {f : Pool → Pool} {i : Nat} {l : List Pool} {x : Pool} (h : x ∈ applyAt f i l) :
    x ∈ l ∨ ∃ y ∈ l, x = f y := by
  induction l generalizing i with
  | nil => simp [applyAt] at h
  | cons p t ih =>
    cases i with
    | zero =>
      rcases List.mem_cons.mp h with h | h
      · exact Or.inr ⟨p, by simp, h⟩
      · exact Or.inl (by simp [h])
    | succ i =>
      rcases List.mem_cons.mp (show x ∈ p :: applyAt f i t from h) with h | h
      · exact Or.inl (by simp [h])
      · rcases ih h with h | ⟨y, hy, hx⟩
        · exact Or.inl (by simp [h])
        · exact Or.inr ⟨y, by simp [hy], hx⟩

section lift
variable {P : Pool → Prop} (hinit : ∀ pid, P { pid := pid }) (huse : ∀ p u, isRtUse u = true → P p → P (ClonePool.use p u))
  (hclr : ∀ p o, P p → P (clearFinalizer p o))
include huse

theorem AllPools.onCurrent {s : Rt} (h : AllPools P s) (u : Use) (hu : isRtUse u = true) (d : Nat) :
    AllPools P (onCurrent s u d) := by
  unfold GcRuntime.onCurrent
  split
  · exact h
  · rename_i p rest hl
    intro q hq
    unfold AllPools Rt.pools at h
    unfold Rt.pools at hq
    simp only [List.cons_append, List.mem_cons, List.mem_append] at hq
    have hp : P p := h p (by rw [hl]; simp)
    rcases hq with rfl | hq | hq
    · exact huse p u hu hp
    · exact h q (by rw [hl]; simp [hq])
    · exact h q (by simp [hq])

include hclr
theorem AllPools.markRt {s : Rt} (h : AllPools P s) (o : Obj) (f r : Bool) : AllPools P (markRt s o f r) := by
  unfold GcRuntime.markRt
  split
  · exact h
  · rename_i p rest hl
    have hall : ∀ q ∈ p :: rest, P q := fun q hq => h q (by unfold Rt.pools; rw [hl]; exact List.mem_append_left _ hq)
    have hdead : ∀ q ∈ s.dead, P q := fun q hq => h q (by unfold Rt.pools; exact List.mem_append_right _ hq)
    -- every pool is the old one, possibly with o's Go finaliser cleared, possibly marked
    have hclr' : ∀ (c : Bool) (q : Pool), P q → P (if c = true then clearFinalizer q o else q) := by
      intro c q hq
      cases c
      · simpa using hq
      · simpa using hclr q o hq
    simp only
    generalize wouldRegister ((p :: rest)[markingIdx rest o.key]?.getD p) o = c
    generalize hl1 : List.map (fun q => if c = true then clearFinalizer q o else q) (p :: rest) = live1
    generalize hd1 : List.map (fun q => if c = true then clearFinalizer q o else q) s.dead = dead1
    have hlive1 : ∀ q ∈ live1, P q := by
      intro q hq; rw [← hl1] at hq
      obtain ⟨y, hy, rfl⟩ := List.mem_map.mp hq
      exact hclr' c y (hall y hy)
    have hdead1 : ∀ q ∈ dead1, P q := by
      intro q hq; rw [← hd1] at hq
      obtain ⟨y, hy, rfl⟩ := List.mem_map.mp hq
      exact hclr' c y (hdead y hy)
    split
    · intro q hq; exact h q hq
    · intro x hx
      unfold Rt.pools at hx
      simp only [List.mem_append] at hx
      rcases hx with hx | hx
      · rcases mem_applyAt hx with hx | ⟨y, hy, rfl⟩
        · exact hlive1 x hx
        · exact huse _ _ rfl (hlive1 y hy)
      · exact hdead1 x hx

include hinit
theorem AllPools.prim {s : Rt} (h : AllPools P s) (e : Prim) : AllPools P (prim s e) := by
  unfold GcRuntime.prim
  split
  · exact h
  · cases e with
    | mark o f r =>
      simp only
      split
      · exact h
      · exact h.markRt huse hclr o f r
    | fire o =>
      intro q hq
      unfold AllPools Rt.pools at h
      unfold Rt.pools at hq
      simp only [List.mem_append, List.mem_map] at hq
      rcases hq with ⟨p, hp, rfl⟩ | ⟨p, hp, rfl⟩
      · exact huse p _ rfl (h p (by simp [hp]))
      · exact huse p _ rfl (h p (by simp [hp]))
    | step => exact h.onCurrent huse _ rfl _
    | push =>
      intro q hq
      unfold AllPools Rt.pools at h
      unfold Rt.pools at hq
      simp only [List.cons_append, List.mem_cons, List.mem_append] at hq
      rcases hq with rfl | hq | hq
      · exact hinit _
      · exact h q (by simp [hq])
      · exact h q (by simp [hq])
    | finAll => exact h.onCurrent huse _ rfl _
    | popRel =>
      have h1 := h.onCurrent huse Use.popRel rfl (List.dropWhile (fun b => b == false) s.frames).length
      simp only
      generalize GcRuntime.onCurrent s Use.popRel (List.dropWhile (fun b => b == false) s.frames).length = s1 at h1
      split
      · rename_i p q rest hl
        have hl' : s1.live = p :: q :: rest := hl
        intro x hx
        unfold AllPools Rt.pools at h1
        unfold Rt.pools at hx
        simp only [List.cons_append, List.mem_cons, List.mem_append] at hx
        apply h1 x
        rw [hl']
        simp only [List.cons_append, List.mem_cons, List.mem_append]
        rcases hx with rfl | hx | rfl | hx
        · right; left; rfl
        · right; right; left; exact hx
        · left; rfl
        · right; right; right; exact hx
      · intro x hx; exact h1 x hx
    | pushShare => intro x hx; exact h x hx
    | popShare =>
      simp only
      split
      · intro x hx; exact h x hx
      · exact h
    | setRaise k =>
      simp only
      split
      · split
        · intro x hx; exact h x hx
        · exact h
      · exact h

theorem AllPools.closeN {s : Rt} (h : AllPools P s) (n : Nat) : AllPools P (closeN n s) := by
  induction n generalizing s with
  | zero => exact h
  | succ n ih => exact ih ((h.prim hinit huse hclr _).prim hinit huse hclr _)

theorem AllPools.rstep {s : Rt} (h : AllPools P s) (e : REv) : AllPools P (rstep s e) := by
  cases e with
  | prim e => exact h.prim hinit huse hclr e
  | pushCtx d => exact h.prim hinit huse hclr _
  | callDone => exact (h.prim hinit huse hclr _).prim hinit huse hclr _
  | callKilled => exact h.prim hinit huse hclr _
  | close => exact h.closeN hinit huse hclr _

theorem AllPools.run (es : List REv) : AllPools P (GcRuntime.run es) := by
  unfold GcRuntime.run
  have h0 : AllPools P ({} : Rt) := by
    intro p hp
    unfold Rt.pools at hp
    simp at hp
    rw [hp]; exact hinit 0
  generalize ({} : Rt) = s at h0
  induction es generalizing s with
  | nil => exact h0
  | cons e t ih => exact ih _ (h0.rstep hinit huse hclr e)

end lift

/-- the pool invariant holds for every pool of every reachable runtime state -/
theorem rt_inv (es : List REv) : ∀ p ∈ (GcRuntime.run es).pools, Inv p :=
  AllPools.run (P := Inv) Inv.init (fun _ u _ hi => hi.use u)
    (fun p o hi => Inv.congr (p := p) (q := clearFinalizer p o) rfl rfl rfl rfl rfl hi) es

end GoluaVerif.Proofs.C18
