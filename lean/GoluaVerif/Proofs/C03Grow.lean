/-
  Proofs.C03Grow — `copyItems`, `hashTable.grow`, `hashTable.cleanup`: rebuilding the hash part
  by repeated insertion into an empty table.
-/
import GoluaVerif.Proofs.C03Insert
namespace GoluaVerif.Model.Table
open GoluaVerif.Spec (Key Val Map)

/-- the value of the live (non-tombstone) slot of `src` that holds `k` -/
def liveLookup (src : List Slot) (k : Key) : Option Val :=
  match src.find? (fun s => decide (s.key = some k) && s.val.isSome) with
  | some s => s.val
  | none => none

def liveCount (src : List Slot) : Nat := src.countP (·.val.isSome)

theorem liveLookup_cons_dead (s : Slot) (rest : List Slot) (k : Key) (h : s.val = none) :
    liveLookup (s :: rest) k = liveLookup rest k := by
  simp [liveLookup, List.find?_cons, h]

theorem liveLookup_cons_live (s : Slot) (rest : List Slot) (k k' : Key) (v : Val) (hk : s.key = some k)
    (hv : s.val = some v) : liveLookup (s :: rest) k' = if k' = k then some v else liveLookup rest k' := by
  unfold liveLookup
  by_cases e : k' = k
  · subst e; simp [List.find?_cons, hk, hv]
  · have : ¬ k = k' := fun x => e x.symm
    simp [List.find?_cons, hk, hv, e, this]

theorem liveLookup_eq_hashLookup (slots : List Slot) (nd : NoDup slots) (k : Key) :
    liveLookup slots k = hashLookup slots k := by
  by_cases hex : ∃ j, ∃ (hj : j < slots.length), slots[j].key = some k
  · obtain ⟨j, hj, hk⟩ := hex
    rw [hashLookup_found slots nd j hj k hk]
    unfold liveLookup
    cases hf : slots.find? (fun s => decide (s.key = some k) && s.val.isSome) with
    | none =>
      rw [List.find?_eq_none] at hf
      have := hf slots[j] (List.getElem_mem hj)
      simp only [hk, decide_true, Bool.true_and, Bool.not_eq_true, Option.isSome_eq_false_iff, Option.isNone_iff_eq_none] at this
      simp [this]
    | some s =>
      have hm := List.mem_of_find?_eq_some hf
      have hp := List.find?_some hf
      simp only [Bool.and_eq_true, decide_eq_true_eq] at hp
      obtain ⟨i, hi, e⟩ := List.getElem_of_mem hm
      have : i = j := nd i hi j hj (by rw [e, hp.1]; simp) (by rw [e, hp.1, hk])
      subst this
      simp [← e]
  · have habs : ∀ j (hj : j < slots.length), slots[j].key ≠ some k := fun j hj h => hex ⟨j, hj, h⟩
    rw [hashLookup_absent _ _ habs]
    unfold liveLookup
    have : slots.find? (fun s => decide (s.key = some k) && s.val.isSome) = none := by
      rw [List.find?_eq_none]
      intro s hs
      obtain ⟨i, hi, e⟩ := List.getElem_of_mem hs
      have := habs i hi
      simp [← e, this]
    simp [this]

section
variable (hash : Key → Nat)

/-- what `copyItems` needs of a live source slot -/
def SrcSlotOK (asize : Nat) (s : Slot) : Prop :=
  s.val.isSome = true → ∃ k, s.key = some k ∧ k.norm = k ∧ ∀ z : Int, k = .int z → ¬ (1 ≤ z ∧ z ≤ (asize : Int))

theorem copyItems_spec (hins : HashedInsertOK hash) (asize : Nat) (src : List Slot) :
    ∀ (T : HashTable), HashInv hash T asize →
      (∀ s ∈ src, SrcSlotOK asize s) →
      (∀ s ∈ src, s.val.isSome = true → ∀ k, s.key = some k → ¬ HasKey T.slots k) →
      src.Pairwise (fun a b => a.val.isSome = true → b.val.isSome = true → a.key ≠ b.key) →
      cnt T.slots + liveCount src < T.slots.length →
      ∃ items' nf', copyItems hash T.slots src T.mask T.nextFree = some (items', nf') ∧
        HashInv hash ⟨items', nf', T.base⟩ asize ∧
        (∀ k', hashLookup items' k' = match liveLookup src k' with
          | some v => some v
          | none => hashLookup T.slots k') ∧
        cnt items' = cnt T.slots + liveCount src := by
  induction src with
  | nil =>
    intro T inv _ _ _ _
    exact ⟨T.slots, T.nextFree, rfl, inv, fun k' => by simp [liveLookup], by simp [liveCount]⟩
  | cons s rest ih =>
    intro T inv hok habs hpw hcap
    rw [copyItems]
    cases hv : s.val with
    | none =>
      have hlc : liveCount (s :: rest) = liveCount rest := by simp [liveCount, List.countP_cons, hv]
      obtain ⟨items', nf', e, hinv, hlook, hcnt⟩ := ih T inv (fun x hx => hok x (List.mem_cons_of_mem _ hx))
        (fun x hx => habs x (List.mem_cons_of_mem _ hx)) (List.Pairwise.of_cons hpw) (by rw [← hlc]; exact hcap)
      refine ⟨items', nf', e, hinv, ?_, by rw [hlc]; exact hcnt⟩
      intro k'
      rw [liveLookup_cons_dead s rest k' hv]
      exact hlook k'
    | some v =>
      have hlc : liveCount (s :: rest) = liveCount rest + 1 := by simp [liveCount, List.countP_cons, hv]
      obtain ⟨k, hk, hnorm, hdisj⟩ := hok s (List.mem_cons_self) (by simp [hv])
      have hnot := habs s (List.mem_cons_self) (by simp [hv]) k hk
      have nk : NewKeyOK T.slots asize k := ⟨fun i hi h => hnot ⟨i, hi, h⟩, hnorm, hdisj⟩
      have hnf := nextFree_some_of_cnt_lt hash T asize inv (by omega)
      obtain ⟨s1, upd, nf1, e1, e2, hinv1, hlook1, hcnt1, hkeys1⟩ := insertNew_ok hash hins T asize k v inv nk hnf
      have hl1 : s1.length = T.slots.length := by
        have h1 := hinv1.size
        have h2 := inv.size
        simp only at h1
        rw [h1, h2]
      have hrest_abs : ∀ x ∈ rest, x.val.isSome = true → ∀ k', x.key = some k' → ¬ HasKey s1 k' := by
        intro x hx hxv k' hxk hh
        rcases (hkeys1 k').1 hh with e | hh'
        · subst e
          have := (List.pairwise_cons.1 hpw).1 x hx (by simp [hv]) hxv
          exact this (by rw [hk, hxk])
        · exact habs x (List.mem_cons_of_mem _ hx) hxv k' hxk hh'
      obtain ⟨items', nf', e, hinv, hlook, hcnt⟩ := ih ⟨s1, nf1, T.base⟩ hinv1
        (fun x hx => hok x (List.mem_cons_of_mem _ hx)) hrest_abs (List.Pairwise.of_cons hpw)
        (by simp only; rw [hcnt1, hl1]; omega)
      refine ⟨items', nf', ?_, hinv, ?_, by rw [hcnt, hcnt1, hlc]; omega⟩
      · simp only [hk, Option.bind_eq_bind, Option.bind_some, e1]
        have em : (HashTable.mk s1 nf1 T.base).mask = T.mask := rfl
        rw [em] at e
        cases upd with
        | true =>
          simp only [if_true] at e2 ⊢
          simp [e2, e]
        | false =>
          simp only [Bool.false_eq_true, if_false, Option.some.injEq] at e2 ⊢
          subst e2
          simp [e]
      · intro k'
        rw [hlook k']
        have hrest_k : liveLookup rest k = none := by
          unfold liveLookup
          have : rest.find? (fun s => decide (s.key = some k) && s.val.isSome) = none := by
            rw [List.find?_eq_none]
            intro x hx
            simp only [Bool.and_eq_true, decide_eq_true_eq, not_and, Bool.not_eq_true,
              Option.isSome_eq_false_iff, Option.isNone_iff_eq_none]
            intro hxk
            cases hxv : x.val with
            | none => rfl
            | some w =>
              have := (List.pairwise_cons.1 hpw).1 x hx (by simp [hv]) (by simp [hxv])
              exact absurd (by rw [hk, hxk]) this
          simp [this]
        rw [liveLookup_cons_live s rest k k' v hk hv, hlook1 k']
        by_cases ek : k' = k
        · subst ek; simp [hrest_k]
        · simp [ek]

/-! ### the empty table of `2^b` slots -/

def fresh (b : Nat) : HashTable := ⟨List.replicate (2 ^ b) Slot.zero, some (2 ^ b - 1), b⟩

theorem fresh_getElem (b j : Nat) (h : j < (fresh b).slots.length) : (fresh b).slots[j] = Slot.zero := by
  simp [fresh]

theorem fresh_inv (b asize : Nat) : HashInv hash (fresh b) asize := by
  have hpos : 0 < 2 ^ b := Nat.two_pow_pos _
  have hlen : (fresh b).slots.length = 2 ^ b := by simp [fresh]
  refine ⟨hlen, ?_, ?_, ?_, ?_, ?_, ?_⟩
  · show NextFreeOk (fresh b).slots (some (2 ^ b - 1))
    refine ⟨by rw [hlen]; omega, by rw [fresh_getElem]; rfl, ?_⟩
    intro j hj hlt
    rw [hlen] at hj; omega
  · intro j hj _; exact fresh_getElem b j hj
  · intro i hi j hj h1 _
    rw [fresh_getElem] at h1; exact absurd rfl h1
  · intro j hj z hz
    rw [fresh_getElem] at hz; simp [Slot.zero] at hz
  · intro j hj k hk
    rw [fresh_getElem] at hk; simp [Slot.zero] at hk
  · intro _
    refine ⟨?_, ?_, ?_⟩
    · intro i hi k hk; rw [fresh_getElem] at hk; simp [Slot.zero] at hk
    · intro i hi k hk; rw [fresh_getElem] at hk; simp [Slot.zero] at hk
    · intro j hj hn; rw [fresh_getElem] at hn; simp [Slot.zero] at hn

theorem fresh_hasKey (b : Nat) (k : Key) : ¬ HasKey (fresh b).slots k := by
  rintro ⟨i, hi, hk⟩
  rw [fresh_getElem] at hk; simp [Slot.zero] at hk

theorem fresh_cnt (b : Nat) : cnt (fresh b).slots = 0 := by
  unfold cnt
  rw [List.countP_eq_zero]
  intro s hs
  simp only [fresh, List.mem_replicate] at hs
  simp [hs.2, Slot.zero]

theorem fresh_lookup (b : Nat) (k : Key) : hashLookup (fresh b).slots k = none :=
  hashLookup_absent _ _ (fun i hi hk => fresh_hasKey b k ⟨i, hi, hk⟩)

theorem liveCount_le (src : List Slot) : liveCount src ≤ src.length := List.countP_le_length

/-- the source conditions of `copyItems` hold of the slots of a table that satisfies `HashInv` -/
theorem src_ok_of_inv (t : HashTable) (asize : Nat) (inv : HashInv hash t asize) :
    (∀ s ∈ t.slots, SrcSlotOK asize s) ∧
    t.slots.Pairwise (fun a b => a.val.isSome = true → b.val.isSome = true → a.key ≠ b.key) := by
  constructor
  · intro s hs hv
    obtain ⟨i, hi, e⟩ := List.getElem_of_mem hs
    cases hk : s.key with
    | none =>
      have := inv.empty_zero i hi (by rw [e]; exact hk)
      rw [e] at this; rw [this] at hv; simp [Slot.zero] at hv
    | some k =>
      refine ⟨k, rfl, inv.normal i hi k (by rw [e]; exact hk), ?_⟩
      intro z ez; subst ez
      exact inv.disjoint i hi z (by rw [e]; exact hk)
  · rw [List.pairwise_iff_getElem]
    intro i j hi hj hlt hvi hvj heq
    have hki : t.slots[i].key ≠ none := by
      intro hk
      have := inv.empty_zero i hi hk
      rw [this] at hvi; simp [Slot.zero] at hvi
    have := inv.nodup i hi j hj hki heq
    omega

/-- rebuilding into a fresh table of `2^b` slots -/
theorem rebuild_spec (hins : HashedInsertOK hash) (asize : Nat) (src : List Slot) (b : Nat)
    (hok : ∀ s ∈ src, SrcSlotOK asize s)
    (hpw : src.Pairwise (fun a b => a.val.isSome = true → b.val.isSome = true → a.key ≠ b.key))
    (hcap : liveCount src < 2 ^ b) :
    ∃ items nf, copyItems hash (List.replicate (2 ^ b) Slot.zero) src (2 ^ b - 1) (some (2 ^ b - 1)) = some (items, nf) ∧
      HashInv hash ⟨items, nf, b⟩ asize ∧ (∀ k, hashLookup items k = liveLookup src k) ∧ nf ≠ none := by
  have hlen : (fresh b).slots.length = 2 ^ b := by simp [fresh]
  obtain ⟨items, nf, e, hinv, hlook, hcnt⟩ := copyItems_spec hash hins asize src (fresh b) (fresh_inv hash b asize) hok
    (fun s _ _ k _ => fresh_hasKey b k) hpw (by rw [fresh_cnt, hlen]; omega)
  refine ⟨items, nf, e, hinv, ?_, ?_⟩
  · intro k
    rw [hlook k, fresh_lookup]
    cases liveLookup src k <;> rfl
  · have hl : items.length = 2 ^ b := hinv.size
    exact nextFree_some_of_cnt_lt hash ⟨items, nf, b⟩ asize hinv (by
      show cnt items < items.length
      rw [hcnt, fresh_cnt, hl]; omega)

/-- `hashTable.grow`: twice the slots, the same contents, and room for one more key -/
theorem hGrow_spec (hins : HashedInsertOK hash) (h : Option HashTable) (asize : Nat) (inv : HashInvO hash h asize) :
    ∃ h', hGrow hash h = some h' ∧ HashInv hash h' asize ∧ (∀ k, hashLookup h'.slots k = hashAbs h k) ∧
      h'.nextFree ≠ none := by
  cases h with
  | none =>
    refine ⟨fresh 0, rfl, fresh_inv hash 0 asize, fun k => by rw [fresh_lookup]; rfl, by simp [fresh]⟩
  | some t =>
    have inv' := inv t rfl
    obtain ⟨hok, hpw⟩ := src_ok_of_inv hash t asize inv'
    have hcap : liveCount t.slots < 2 ^ (t.base + 1) := by
      have := liveCount_le t.slots
      rw [inv'.size] at this
      have : 2 ^ (t.base + 1) = 2 * 2 ^ t.base := by rw [Nat.pow_succ]; omega
      have : 0 < 2 ^ t.base := Nat.two_pow_pos _
      omega
    obtain ⟨items, nf, e, hinv, hlook, hnf⟩ := rebuild_spec hash hins asize t.slots (t.base + 1) hok hpw hcap
    refine ⟨⟨items, nf, t.base + 1⟩, ?_, hinv, ?_, hnf⟩
    · simp [hGrow, e]
    · intro k
      rw [hlook k, liveLookup_eq_hashLookup _ inv'.nodup]; rfl

end
end GoluaVerif.Model.Table
