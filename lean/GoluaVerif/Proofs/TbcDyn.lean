/-
  Proofs.TbcDyn — first half of C10 `compile_correct`: the static height bookkeeping of
  Model.TbcCompile is right.  `dexec` runs a *source* program on the close stack with the
  heights taken dynamically (a block remembers the stack size at its entry); `vexec_compile`
  shows that the VM running the compiled code does exactly the same, instruction for
  instruction (same exits, same stack, same events).  The second half (Proofs.TbcSpec)
  relates `dexec` to the manual's semantics Spec.Tbc.
-/
import GoluaVerif.Model.TbcVM
namespace GoluaVerif.Proofs.Tbc
open GoluaVerif.Spec.Tbc GoluaVerif.Model.Tbc

/-- enclosing blocks of the current function, innermost first: (is a loop body, stack size at entry) -/
abbrev Env := List (Bool × Nat)

def brkHeight : Env → Option Nat
  | [] => none
  | (true, h) :: _ => some h
  | _ :: r => brkHeight r

def gotoHeight : Env → Nat → Option Nat
  | [], _ => none
  | (_, h) :: _, 0 => some h
  | _ :: r, g + 1 => gotoHeight r g

/-- the PopContexts at the end of a block: one `cltrunc` per local, i.e. close one value at a time
    down to size `h`, stopping at the first handler that raises -/
def closeDown (hd : Handlers) : List TV → Nat → Option Err × List TV × List Ev
  | [], _ => (none, [], [])
  | v :: st, h =>
    if (v :: st).length ≤ h then (none, v :: st, [])
    else
      match v with
      | .obj id =>
        match hd id none with
        | some e => (some e, st, [Ev.close id none])
        | none =>
          let r := closeDown hd st h
          (r.1, r.2.1, Ev.close id none :: r.2.2)
      | _ => closeDown hd st h

/-- end of a block body that finished with `r`, the block having been entered at stack size `h` -/
def endBlock (hd : Handlers) (r : VRes) (h : Nat) : VRes :=
  match r.exit with
  | .normal =>
    let c := closeDown hd r.stack h
    ⟨Exit.normal.withErr c.1, c.2.1, r.log ++ c.2.2⟩
  | x => ⟨x, r.stack, r.log⟩

/-- jump out: truncate to `h` first (cleanupCloseStack with no error), then leave with `x` -/
def jumpTo (hd : Handlers) (st : List TV) (h : Nat) (x : Exit) : VRes :=
  let r := cleanup hd st h none
  ⟨x.withErr r.1, r.2.1, r.2.2⟩

/-- end of a function body: the forced return -/
def endFn (hd : Handlers) (r : VRes) (base : Nat) : VRes :=
  match r.exit with
  | .normal =>
    let c := cleanup hd r.stack base none
    ⟨Exit.ret.withErr c.1, c.2.1, r.log ++ c.2.2⟩
  | x => ⟨x, r.stack, r.log⟩

/-- `return f()`: `r` is the result of the called function; if it came back normally, return (clean up to
    the frame base) -/
def retAfter (hd : Handlers) (r : VRes) (base : Nat) : VRes :=
  match r.exit.leaveFunction with
  | .normal =>
    let j := jumpTo hd r.stack base .ret
    ⟨j.exit, j.stack, r.log ++ j.log⟩
  | x => ⟨x, r.stack, r.log⟩

def dexec (hd : Handlers) (kill : Bool) : Prog → Env → (base : Nat) → List TV → VRes
  | .skip, _, _, st => ⟨.normal, st, []⟩
  | .seq a b, env, base, st =>
    let ra := dexec hd kill a env base st
    match ra.exit with
    | .normal =>
      let rb := dexec hd kill b env base ra.stack
      ⟨rb.exit, rb.stack, ra.log ++ rb.log⟩
    | _ => ra
  | .tbc .bad, _, _, st => ⟨.err .notClosable, st, []⟩
  | .tbc v, _, _, st => ⟨.normal, v :: st, []⟩
  | .mark n, _, _, st => ⟨.normal, st, [.mark n]⟩
  | .block p, env, base, st =>
    let r := endBlock hd (dexec hd kill p ((false, st.length) :: env) base st) st.length
    ⟨r.exit.leaveBlock, r.stack, r.log⟩
  | .loop n p, env, base, st =>
    vloop (fun st => endBlock hd (dexec hd kill p ((true, st.length) :: env) base st) st.length) n st
  | .brk, env, _, st =>
    match brkHeight env with
    | some h => jumpTo hd st h .brk
    | none => ⟨.brk, st, []⟩
  | .gotoOut g, env, _, st =>
    match gotoHeight env g with
    | some h => jumpTo hd st h (.goto g)
    | none => ⟨.goto g, st, []⟩
  | .ret, _, base, st => jumpTo hd st base .ret
  | .err e, _, _, st => ⟨.err (.user e), st, []⟩
  | .pcall p, _, _, st =>
    let r := endFn hd (dexec hd kill p [] st.length st) st.length
    match r.exit with
    | .kill e => ⟨.kill e, r.stack, r.log⟩
    | x =>
      let cl := cleanup hd r.stack st.length x.errArg
      ⟨.normal, cl.2.1, r.log ++ cl.2.2 ++ [.caught cl.1]⟩
  | .call p, _, _, st =>
    let r := endFn hd (dexec hd kill p [] st.length st) st.length
    ⟨r.exit.leaveFunction, r.stack, r.log⟩
  | .retCall p, _, base, st =>
    retAfter hd (endFn hd (dexec hd kill p [] st.length st) st.length) base
  | .yield, _, _, st => ⟨if kill then .kill none else .normal, st, []⟩

/-! ### contexts -/

/-- pushNew invariant: a new scope starts at the height of the scope below it, a `local … <close>`
    scope is one higher; a `loop` scope only occurs directly under the block scope of the loop body
    (`ab` = the scope just above is a block scope) -/
def CtxInvA : Bool → Ctx → Prop
  | _, [] => True
  | _, ⟨.loc, h⟩ :: rest => h = topHeight rest + 1 ∧ CtxInvA false rest
  | _, ⟨.block, h⟩ :: rest => h = topHeight rest ∧ CtxInvA true rest
  | ab, ⟨.loop, h⟩ :: rest => ab = true ∧ h = topHeight rest ∧ CtxInvA false rest
  | _, ⟨.root, h⟩ :: rest => h = 0 ∧ rest = []

abbrev CtxInv (ctx : Ctx) : Prop := CtxInvA false ctx

def isLoopTop : Ctx → Bool
  | ⟨.loop, _⟩ :: _ => true
  | _ => false

/-- the enclosing blocks a context describes, with their (static) entry heights -/
def ctxBlocks : Ctx → List (Bool × Nat)
  | [] => []
  | ⟨.block, h⟩ :: rest => (isLoopTop rest, h) :: ctxBlocks rest
  | ⟨.root, _⟩ :: _ => []
  | _ :: rest => ctxBlocks rest

def shiftEnv (base : Nat) (bs : List (Bool × Nat)) : Env := bs.map fun b => (b.1, base + b.2)

/-! ### basic facts about cleanup -/

theorem cleanup_le (hd : Handlers) (st : List TV) (h : Nat) (e : Option Err) (hl : st.length ≤ h) :
    cleanup hd st h e = (e, st, []) := by
  cases st with
  | nil => rfl
  | cons v st => simp only [cleanup, hl, if_true]

theorem cleanup_cons_gt (hd : Handlers) (v : TV) (st : List TV) (h : Nat) (e : Option Err)
    (hl : h < (v :: st).length) :
    cleanup hd (v :: st) h e =
      match v with
      | .obj id =>
        let e' := match hd id e with
          | some x => some x
          | none => e
        let r := cleanup hd st h e'
        (r.1, r.2.1, Ev.close id e :: r.2.2)
      | _ => cleanup hd st h e := by
  have : ¬ (v :: st).length ≤ h := by omega
  cases v <;> (simp only [cleanup, this, if_false]; try rfl)

theorem normal_withErr_none : Exit.normal.withErr none = .normal := rfl
theorem normal_withErr_some (e : Err) : Exit.normal.withErr (some e) = .err e := rfl

theorem topHeight_cons (s : Scope) (ctx : Ctx) : topHeight (s :: ctx) = s.height := rfl

/-- a context made of `loc` scopes over `ctx0` -/
def AllLoc (L : Ctx) : Prop := ∀ s ∈ L, s.kind = .loc

theorem allLoc_nil : AllLoc [] := fun _ h => by simp at h

theorem topHeight_locs (L ctx0 : Ctx) (hL : AllLoc L) (hinv : CtxInv (L ++ ctx0)) :
    topHeight (L ++ ctx0) = topHeight ctx0 + L.length ∧ CtxInv ctx0 := by
  induction L with
  | nil => exact ⟨rfl, hinv⟩
  | cons s L ih =>
    obtain ⟨k, h⟩ := s
    have hk : k = .loc := hL ⟨k, h⟩ (List.mem_cons_self)
    subst hk
    simp only [List.cons_append, CtxInv, CtxInvA] at hinv
    have := ih (fun s hs => hL s (List.mem_cons_of_mem _ hs)) hinv.2
    simp only [List.cons_append, topHeight_cons, List.length_cons]
    exact ⟨by rw [hinv.1, this.1]; omega, this.2⟩

theorem ctxBlocks_locs (L ctx0 : Ctx) (hL : AllLoc L) : ctxBlocks (L ++ ctx0) = ctxBlocks ctx0 := by
  induction L with
  | nil => rfl
  | cons s L ih =>
    obtain ⟨k, h⟩ := s
    have hk : k = .loc := hL ⟨k, h⟩ (List.mem_cons_self)
    subst hk
    simp only [List.cons_append, ctxBlocks]
    exact ih (fun s hs => hL s (List.mem_cons_of_mem _ hs))

/-- the VM running the PopContexts of a block's locals = closeDown -/
theorem popLocals_exec (hd : Handlers) (kill : Bool) (base : Nat) (ctx0 : Ctx)
    (h0 : ∀ s rest, ctx0 = s :: rest → s.kind ≠ .loc) :
    ∀ (L : Ctx) (st : List TV), AllLoc L → CtxInv (L ++ ctx0) → st.length = base + topHeight (L ++ ctx0) →
      (popLocals (L ++ ctx0)).2 = ctx0 ∧
      vexec hd kill (popLocals (L ++ ctx0)).1 base st =
        (let c := closeDown hd st (base + topHeight ctx0)
         ⟨Exit.normal.withErr c.1, c.2.1, c.2.2⟩) := by
  intro L
  induction L with
  | nil =>
    intro st _ _ hlen
    have hp : popLocals ctx0 = (.skip, ctx0) := by
      cases ctx0 with
      | nil => rfl
      | cons s rest =>
        obtain ⟨k, h⟩ := s
        have := h0 ⟨k, h⟩ rest rfl
        cases k <;> first | rfl | exact absurd rfl this
    simp only [List.nil_append] at hlen ⊢
    rw [hp]
    refine ⟨rfl, ?_⟩
    cases st with
    | nil => rfl
    | cons v st =>
      have : (v :: st).length ≤ base + topHeight ctx0 := by omega
      simp only [vexec, closeDown, this, if_true, Exit.withErr]
  | cons s L ih =>
    intro st hL hinv hlen
    obtain ⟨k, h⟩ := s
    have hk : k = .loc := hL ⟨k, h⟩ (List.mem_cons_self)
    subst hk
    have hL' : AllLoc L := fun s hs => hL s (List.mem_cons_of_mem _ hs)
    simp only [List.cons_append, CtxInv, CtxInvA] at hinv
    obtain ⟨hh, hinv'⟩ := hinv
    have htop := (topHeight_locs L ctx0 hL' hinv').1
    simp only [List.cons_append, topHeight_cons] at hlen
    cases st with
    | nil => simp at hlen; omega
    | cons v st =>
      have hst : st.length = base + topHeight (L ++ ctx0) := by simp at hlen; omega
      obtain ⟨ih1, ih2⟩ := ih st hL' hinv' hst
      simp only [List.cons_append, popLocals]
      refine ⟨ih1, ?_⟩
      have hlt : topHeight (L ++ ctx0) < h := by omega
      have hgt : ¬ (v :: st).length ≤ base + topHeight ctx0 := by simp; omega
      have hgt2 : base + topHeight (L ++ ctx0) < (v :: st).length := by simp; omega
      have hle : st.length ≤ base + topHeight (L ++ ctx0) := by omega
      simp only [emitTruncate, hlt, if_true, vexec, closeDown, hgt, if_false]
      rw [cleanup_cons_gt hd v st _ none hgt2]
      cases v with
      | obj id =>
        simp only
        rw [cleanup_le hd st _ _ hle]
        cases hh2 : hd id none with
        | some e => simp only [normal_withErr_some]
        | none =>
          simp only [normal_withErr_none]
          rw [ih2]
          rfl
      | nilv =>
        simp only
        rw [cleanup_le hd st _ _ hle]
        simp only [normal_withErr_none, List.nil_append]
        rw [ih2]
      | bad =>
        simp only
        rw [cleanup_le hd st _ _ hle]
        simp only [normal_withErr_none, List.nil_append]
        rw [ih2]

/-! ### jump targets computed from the context = entry heights of the enclosing blocks -/

theorem ctxInvA_true_of_false {ctx : Ctx} (h : CtxInvA false ctx) : CtxInvA true ctx := by
  cases ctx with
  | nil => trivial
  | cons s rest =>
    obtain ⟨k, hh⟩ := s
    cases k <;> simp only [CtxInvA] at h ⊢ <;> first | exact h | (exact absurd h.1 (by decide))

theorem ctxInvA_false_of_true {ctx : Ctx} (h : CtxInvA true ctx) (hl : isLoopTop ctx = false) :
    CtxInvA false ctx := by
  cases ctx with
  | nil => trivial
  | cons s rest =>
    obtain ⟨k, hh⟩ := s
    cases k <;> simp only [CtxInvA, isLoopTop] at h hl ⊢ <;> first | exact h | (exact absurd hl (by decide))

theorem isLoopTop_false_of_inv {ctx : Ctx} (h : CtxInvA false ctx) : isLoopTop ctx = false := by
  cases ctx with
  | nil => rfl
  | cons s rest =>
    obtain ⟨k, hh⟩ := s
    cases k <;> first | rfl | (simp only [CtxInvA] at h; exact absurd h.1 (by decide))

theorem breakTarget_eq : ∀ (ctx : Ctx), CtxInvA false ctx → breakTarget ctx = brkHeight (ctxBlocks ctx) := by
  intro ctx
  induction ctx with
  | nil => intro _; rfl
  | cons s rest ih =>
    intro hinv
    obtain ⟨k, h⟩ := s
    cases k with
    | root =>
      simp only [CtxInvA] at hinv
      rw [hinv.2]; rfl
    | loc =>
      simp only [CtxInvA] at hinv
      simp only [breakTarget, ctxBlocks]
      exact ih hinv.2
    | loop =>
      simp only [CtxInvA] at hinv
      exact absurd hinv.1 (by decide)
    | block =>
      simp only [CtxInvA] at hinv
      obtain ⟨hh, hr⟩ := hinv
      simp only [breakTarget, ctxBlocks]
      cases rest with
      | nil => rfl
      | cons s2 rest2 =>
        obtain ⟨k2, h2⟩ := s2
        cases k2 with
        | loop =>
          simp only [CtxInvA] at hr
          simp only [breakTarget, isLoopTop, brkHeight]
          rw [hh]; rfl
        | root =>
          have := ih (ctxInvA_false_of_true hr rfl)
          simp only [isLoopTop, brkHeight]; exact this
        | loc =>
          have := ih (ctxInvA_false_of_true hr rfl)
          simp only [isLoopTop, brkHeight]; exact this
        | block =>
          have := ih (ctxInvA_false_of_true hr rfl)
          simp only [isLoopTop, brkHeight]; exact this

theorem gotoTarget_eq : ∀ (ctx : Ctx) (ab : Bool) (g : Nat), CtxInvA ab ctx →
    gotoTarget ctx g = gotoHeight (ctxBlocks ctx) g := by
  intro ctx
  induction ctx with
  | nil => intro _ g _; cases g <;> rfl
  | cons s rest ih =>
    intro ab g hinv
    obtain ⟨k, h⟩ := s
    cases k with
    | root =>
      simp only [CtxInvA] at hinv
      rw [hinv.2]; cases g <;> rfl
    | loc =>
      simp only [CtxInvA] at hinv
      have := ih false g hinv.2
      simp only [ctxBlocks]
      rw [← this]
      cases g <;> rfl
    | loop =>
      simp only [CtxInvA] at hinv
      have := ih false g hinv.2.2
      simp only [ctxBlocks]
      rw [← this]
      cases g <;> rfl
    | block =>
      simp only [CtxInvA] at hinv
      obtain ⟨hh, hr⟩ := hinv
      cases g with
      | succ g =>
        simp only [gotoTarget, ctxBlocks, gotoHeight]
        exact ih true g hr
      | zero =>
        simp only [ctxBlocks, gotoHeight]
        cases rest with
        | nil => simp only [gotoTarget]; rw [hh]
        | cons s2 rest2 =>
          obtain ⟨k2, h2⟩ := s2
          cases k2 with
          | loop =>
            simp only [CtxInvA] at hr
            simp only [gotoTarget]
            rw [hh, topHeight_cons, hr.2.1]
          | root => simp only [gotoTarget]; rw [hh]
          | loc => simp only [gotoTarget]; rw [hh]
          | block => simp only [gotoTarget]; rw [hh]

theorem brkHeight_shift (base : Nat) (bs : List (Bool × Nat)) :
    brkHeight (shiftEnv base bs) = (brkHeight bs).map (base + ·) := by
  induction bs with
  | nil => rfl
  | cons b bs ih =>
    obtain ⟨k, h⟩ := b
    cases k
    · simp only [shiftEnv, List.map_cons, brkHeight] at ih ⊢; exact ih
    · rfl

theorem gotoHeight_shift (base : Nat) (bs : List (Bool × Nat)) (g : Nat) :
    gotoHeight (shiftEnv base bs) g = (gotoHeight bs g).map (base + ·) := by
  induction bs generalizing g with
  | nil => cases g <;> rfl
  | cons b bs ih =>
    cases g with
    | zero => rfl
    | succ g => simp only [shiftEnv, List.map_cons, gotoHeight] at ih ⊢; exact ih g

theorem brkHeight_some_of_any (bs : List (Bool × Nat)) (h : bs.any (·.1) = true) :
    ∃ t, brkHeight bs = some t := by
  induction bs with
  | nil => simp at h
  | cons b bs ih =>
    obtain ⟨k, t⟩ := b
    cases k
    · simp only [List.any_cons, Bool.false_or] at h
      simp only [brkHeight]; exact ih h
    · exact ⟨t, rfl⟩

theorem gotoHeight_some_of_lt (bs : List (Bool × Nat)) (g : Nat) (h : g < bs.length) :
    ∃ t, gotoHeight bs g = some t := by
  induction bs generalizing g with
  | nil => simp at h
  | cons b bs ih =>
    cases g with
    | zero => exact ⟨b.2, rfl⟩
    | succ g => simp only [gotoHeight]; exact ih g (by simpa using h)

/-! ### closeDown, vloop, function bodies -/

theorem closeDown_none_length (hd : Handlers) : ∀ (st : List TV) (h : Nat), h ≤ st.length →
    (closeDown hd st h).1 = none → (closeDown hd st h).2.1.length = h := by
  intro st
  induction st with
  | nil => intro h hl _; simp only [closeDown]; simp at hl; simp [hl]
  | cons v st ih =>
    intro h hl hn
    by_cases hc : (v :: st).length ≤ h
    · simp only [closeDown, hc, if_true]; omega
    · have hl' : h ≤ st.length := by simp at hc hl ⊢; omega
      simp only [closeDown, hc, if_false] at hn ⊢
      cases v with
      | obj id =>
        simp only at hn ⊢
        cases hh : hd id none with
        | some e => rw [hh] at hn; simp at hn
        | none => rw [hh] at hn; exact ih h hl' hn
      | nilv => exact ih h hl' hn
      | bad => exact ih h hl' hn

/-- the stack size a result must have, by exit kind: `nl` after a normal exit, the entry size of the
    target block after a jump (the truncation has been done), unconstrained after return/error -/
def exitLen (x : Exit) (env : Env) (nl : Nat) : Option Nat :=
  match x with
  | .normal => some nl
  | .brk => brkHeight env
  | .goto g => gotoHeight env g
  | _ => none

def Post (env : Env) (nl : Nat) (r : VRes) : Prop :=
  ∀ len, exitLen r.exit env nl = some len → r.stack.length = len

theorem vloop_post (f g : List TV → VRes) (L : Nat) (env : Env)
    (hfg : ∀ st, st.length = L → f st = g st)
    (hpost : ∀ st, st.length = L → Post ((true, L) :: env) L (g st)) :
    ∀ (n : Nat) (st : List TV), st.length = L →
      vloop f n st = vloop g n st ∧ Post env L (vloop g n st) := by
  intro n
  induction n with
  | zero =>
    intro st h
    refine ⟨rfl, ?_⟩
    intro len hl
    simp only [vloop, exitLen] at hl
    injection hl with hl; rw [← hl]; exact h
  | succ n ih =>
    intro st h
    simp only [vloop]
    rw [hfg st h]
    have hp := hpost st h
    cases hx : (g st).exit with
    | normal =>
      have h2 : (g st).stack.length = L := hp L (by rw [hx]; rfl)
      obtain ⟨e1, e2⟩ := ih (g st).stack h2
      simp only
      rw [e1]
      refine ⟨rfl, ?_⟩
      intro len hl
      exact e2 len hl
    | brk =>
      refine ⟨rfl, ?_⟩
      intro len hl
      simp only [exitLen] at hl
      injection hl with hl; rw [← hl]
      exact hp L (by rw [hx]; rfl)
    | goto k =>
      refine ⟨rfl, ?_⟩
      intro len hl
      cases k with
      | zero =>
        simp only [Exit.leaveBlock, exitLen] at hl
        injection hl with hl; rw [← hl]
        exact hp L (by rw [hx]; rfl)
      | succ k =>
        simp only [Exit.leaveBlock, exitLen] at hl
        exact hp len (by rw [hx]; exact hl)
    | ret => exact ⟨rfl, fun len hl => by simp [Exit.leaveBlock, exitLen] at hl⟩
    | err e => exact ⟨rfl, fun len hl => by simp [Exit.leaveBlock, exitLen] at hl⟩
    | kill e => exact ⟨rfl, fun len hl => by simp [Exit.leaveBlock, exitLen] at hl⟩

/-! ### the VM on the compiled code = dexec on the source -/

theorem jump_exec (hd : Handlers) (kill : Bool) (base : Nat) (st : List TV) (t top : Nat)
    (hlen : st.length = base + top) (x : Exit) (cx : Code)
    (hcx : ∀ st', vexec hd kill cx base st' = ⟨x, st', []⟩) (hx : x ≠ .normal) (hk : ∀ e, x ≠ .kill e) :
    vexec hd kill (.seq (emitTruncate t top) cx) base st = jumpTo hd st (base + t) x := by
  unfold emitTruncate jumpTo
  by_cases hlt : t < top
  · simp only [hlt, if_true, vexec]
    cases hc : (cleanup hd st (base + t) none).1 with
    | none =>
      simp only [normal_withErr_none, hcx, List.append_nil]
      cases x <;> first | rfl | exact absurd rfl hx | exact absurd rfl (hk _)
    | some e =>
      simp only [normal_withErr_some]
      cases x <;> first | rfl | exact absurd rfl hx | exact absurd rfl (hk _)
  · simp only [hlt, if_false, vexec, hcx, List.nil_append]
    rw [cleanup_le hd st _ _ (by omega)]
    cases x <;> first | rfl | exact absurd rfl hx | exact absurd rfl (hk _)

theorem vres_eta (r : VRes) {x : Exit} (h : r.exit = x) : r = ⟨x, r.stack, r.log⟩ := by
  cases r; simp only at h; subst h; rfl

theorem fn_exec (hd : Handlers) (kill : Bool) (cp : Code) (ctx1 : Ctx) (base : Nat) (st : List TV) :
    vexec hd kill (fnCode cp ctx1) base st = endFn hd (vexec hd kill cp base st) base := by
  unfold fnCode endFn
  simp only [vexec]
  generalize vexec hd kill cp base st = r
  cases hx : r.exit with
  | normal =>
    simp only
    cases hc : (cleanup hd r.stack base none).1 <;> rfl
  | brk => exact vres_eta r hx
  | goto g => exact vres_eta r hx
  | ret => exact vres_eta r hx
  | err e => exact vres_eta r hx
  | kill e => exact vres_eta r hx

theorem post_of_not_landing {env : Env} {nl : Nat} {r : VRes}
    (h : r.exit ≠ .normal ∧ r.exit ≠ .brk ∧ ∀ g, r.exit ≠ .goto g) : Post env nl r := by
  intro len hl
  cases hx : r.exit with
  | normal => exact absurd hx h.1
  | brk => exact absurd hx h.2.1
  | goto g => exact absurd hx (h.2.2 g)
  | ret => rw [hx] at hl; simp [exitLen] at hl
  | err e => rw [hx] at hl; simp [exitLen] at hl
  | kill e => rw [hx] at hl; simp [exitLen] at hl

theorem cleanup_length (hd : Handlers) : ∀ (st : List TV) (h : Nat) (e : Option Err), h ≤ st.length →
    (cleanup hd st h e).2.1.length = h := by
  intro st
  induction st with
  | nil => intro h e hl; simp only [cleanup]; simp at hl; simp [hl]
  | cons v st ih =>
    intro h e hl
    by_cases hc : (v :: st).length ≤ h
    · simp only [cleanup, hc, if_true]; omega
    · have hl' : h ≤ st.length := by simp at hc hl ⊢; omega
      cases v <;> simp only [cleanup, hc, if_false] <;> exact ih h _ hl'

theorem jumpTo_post (hd : Handlers) (st : List TV) (h : Nat) (x : Exit) (env : Env) (nl : Nat)
    (hle : h ≤ st.length) (hx : exitLen x env nl = some h) (hk : ∀ e, x ≠ .kill e) :
    Post env nl (jumpTo hd st h x) := by
  intro len hl
  unfold jumpTo at hl ⊢
  simp only at hl ⊢
  cases hc : (cleanup hd st h none).1 with
  | none =>
    rw [hc] at hl
    have : x.withErr none = x := by cases x <;> first | rfl | exact absurd rfl (hk _)
    rw [this, hx] at hl
    injection hl with hl
    rw [← hl]; exact cleanup_length hd st h none hle
  | some e =>
    rw [hc] at hl
    have : x.withErr (some e) = .err e := by cases x <;> first | rfl | exact absurd rfl (hk _)
    rw [this] at hl
    simp [exitLen] at hl

/-! ### nothing below the frame is touched -/

theorem cleanup_suffix (hd : Handlers) (below : List TV) : ∀ (top : List TV) (h : Nat) (e : Option Err),
    below.length ≤ h → ∃ top', (cleanup hd (top ++ below) h e).2.1 = top' ++ below := by
  intro top
  induction top with
  | nil =>
    intro h e hl
    exact ⟨[], by rw [List.nil_append, cleanup_le hd below h e hl]⟩
  | cons v top ih =>
    intro h e hl
    by_cases hc : (v :: top ++ below).length ≤ h
    · exact ⟨v :: top, by rw [cleanup_le hd _ h e hc]⟩
    · rw [List.cons_append, cleanup_cons_gt hd v (top ++ below) h e (by simp at hc ⊢; omega)]
      cases v with
      | obj id => simp only; exact ih h _ hl
      | nilv => exact ih h e hl
      | bad => exact ih h e hl

theorem closeDown_suffix (hd : Handlers) (below : List TV) : ∀ (top : List TV) (h : Nat),
    below.length ≤ h → ∃ top', (closeDown hd (top ++ below) h).2.1 = top' ++ below := by
  intro top
  induction top with
  | nil =>
    intro h hl
    refine ⟨[], ?_⟩
    cases below with
    | nil => rfl
    | cons b bs => simp only [List.nil_append, closeDown, hl, if_true]
  | cons v top ih =>
    intro h hl
    by_cases hc : (v :: (top ++ below)).length ≤ h
    · exact ⟨v :: top, by simp only [List.cons_append, closeDown, hc, if_true]⟩
    · simp only [List.cons_append, closeDown, hc, if_false]
      cases v with
      | obj id =>
        simp only
        cases hd id none with
        | some e => exact ⟨top, rfl⟩
        | none => exact ih h hl
      | nilv => exact ih h hl
      | bad => exact ih h hl

theorem vloop_suffix (g : List TV → VRes) (below : List TV)
    (hg : ∀ top, ∃ top', (g (top ++ below)).stack = top' ++ below) :
    ∀ (n : Nat) (top : List TV), ∃ top', (vloop g n (top ++ below)).stack = top' ++ below := by
  intro n
  induction n with
  | zero => intro top; exact ⟨top, rfl⟩
  | succ n ih =>
    intro top
    obtain ⟨t1, h1⟩ := hg top
    simp only [vloop]
    cases hx : (g (top ++ below)).exit with
    | normal => simp only; rw [h1]; exact ih t1
    | brk => exact ⟨t1, h1⟩
    | goto k => exact ⟨t1, h1⟩
    | ret => exact ⟨t1, h1⟩
    | err e => exact ⟨t1, h1⟩
    | kill e => exact ⟨t1, h1⟩

theorem brkHeight_mem {env : Env} {t : Nat} (h : brkHeight env = some t) : ∃ k, (k, t) ∈ env := by
  induction env with
  | nil => simp [brkHeight] at h
  | cons b env ih =>
    obtain ⟨k, t'⟩ := b
    cases k with
    | true => simp only [brkHeight, Option.some.injEq] at h; subst h; exact ⟨true, List.mem_cons_self⟩
    | false =>
      simp only [brkHeight] at h
      obtain ⟨k, hk⟩ := ih h
      exact ⟨k, List.mem_cons_of_mem _ hk⟩

theorem gotoHeight_mem {env : Env} {g t : Nat} (h : gotoHeight env g = some t) : ∃ k, (k, t) ∈ env := by
  induction env generalizing g with
  | nil => cases g <;> simp [gotoHeight] at h
  | cons b env ih =>
    obtain ⟨k, t'⟩ := b
    cases g with
    | zero => simp only [gotoHeight, Option.some.injEq] at h; subst h; exact ⟨k, List.mem_cons_self⟩
    | succ g =>
      simp only [gotoHeight] at h
      obtain ⟨k2, hk⟩ := ih h
      exact ⟨k2, List.mem_cons_of_mem _ hk⟩

theorem endBlock_suffix (hd : Handlers) (r : VRes) (L : Nat) (below : List TV) (hl : below.length ≤ L)
    (hr : ∃ top', r.stack = top' ++ below) : ∃ top', (endBlock hd r L).stack = top' ++ below := by
  obtain ⟨t, ht⟩ := hr
  unfold endBlock
  cases r.exit with
  | normal => simp only; rw [ht]; exact closeDown_suffix hd below t L hl
  | brk => exact ⟨t, ht⟩
  | goto k => exact ⟨t, ht⟩
  | ret => exact ⟨t, ht⟩
  | err e => exact ⟨t, ht⟩
  | kill e => exact ⟨t, ht⟩

theorem endFn_suffix (hd : Handlers) (r : VRes) (L : Nat) (below : List TV) (hl : below.length ≤ L)
    (hr : ∃ top', r.stack = top' ++ below) : ∃ top', (endFn hd r L).stack = top' ++ below := by
  obtain ⟨t, ht⟩ := hr
  unfold endFn
  cases r.exit with
  | normal => simp only; rw [ht]; exact cleanup_suffix hd below t L none hl
  | brk => exact ⟨t, ht⟩
  | goto k => exact ⟨t, ht⟩
  | ret => exact ⟨t, ht⟩
  | err e => exact ⟨t, ht⟩
  | kill e => exact ⟨t, ht⟩

theorem dexec_retCall (hd : Handlers) (kill : Bool) (p : Prog) (env : Env) (base : Nat) (st : List TV) :
    dexec hd kill (.retCall p) env base st =
      retAfter hd (endFn hd (dexec hd kill p [] st.length st) st.length) base := rfl

theorem retAfter_suffix (hd : Handlers) (r : VRes) (base : Nat) (below : List TV) (hb : below.length ≤ base)
    (hr : ∃ t, r.stack = t ++ below) : ∃ t, (retAfter hd r base).stack = t ++ below := by
  obtain ⟨t, ht⟩ := hr
  unfold retAfter
  cases r.exit.leaveFunction with
  | normal => simp only [jumpTo]; rw [ht]; exact cleanup_suffix hd below t base none hb
  | brk => exact ⟨t, ht⟩
  | goto k => exact ⟨t, ht⟩
  | ret => exact ⟨t, ht⟩
  | err e => exact ⟨t, ht⟩
  | kill e => exact ⟨t, ht⟩

/-- `dexec` never touches the stack below the frame base and below every enclosing block's entry -/
theorem dexec_suffix (hd : Handlers) (kill : Bool) : ∀ (p : Prog) (env : Env) (base : Nat)
    (top below : List TV), below.length ≤ base → (∀ b ∈ env, below.length ≤ b.2) →
    ∃ top', (dexec hd kill p env base (top ++ below)).stack = top' ++ below := by
  intro p
  induction p with
  | skip => intro env base top below _ _; exact ⟨top, rfl⟩
  | mark n => intro env base top below _ _; exact ⟨top, rfl⟩
  | err e => intro env base top below _ _; exact ⟨top, rfl⟩
  | yield => intro env base top below _ _; exact ⟨top, rfl⟩
  | tbc v =>
    intro env base top below _ _
    cases v with
    | bad => exact ⟨top, rfl⟩
    | obj id => exact ⟨.obj id :: top, rfl⟩
    | nilv => exact ⟨.nilv :: top, rfl⟩
  | ret =>
    intro env base top below hb _
    simp only [dexec, jumpTo]
    exact cleanup_suffix hd below top base none hb
  | brk =>
    intro env base top below _ he
    simp only [dexec]
    cases hh : brkHeight env with
    | none => exact ⟨top, rfl⟩
    | some t =>
      obtain ⟨k, hk⟩ := brkHeight_mem hh
      simp only [jumpTo]
      exact cleanup_suffix hd below top t none (he _ hk)
  | gotoOut g =>
    intro env base top below _ he
    simp only [dexec]
    cases hh : gotoHeight env g with
    | none => exact ⟨top, rfl⟩
    | some t =>
      obtain ⟨k, hk⟩ := gotoHeight_mem hh
      simp only [jumpTo]
      exact cleanup_suffix hd below top t none (he _ hk)
  | seq a b iha ihb =>
    intro env base top below hb he
    obtain ⟨t1, h1⟩ := iha env base top below hb he
    simp only [dexec]
    cases hx : (dexec hd kill a env base (top ++ below)).exit with
    | normal =>
      simp only
      rw [h1]
      exact ihb env base t1 below hb he
    | brk => exact ⟨t1, h1⟩
    | goto k => exact ⟨t1, h1⟩
    | ret => exact ⟨t1, h1⟩
    | err e => exact ⟨t1, h1⟩
    | kill e => exact ⟨t1, h1⟩
  | block p ih =>
    intro env base top below hb he
    simp only [dexec]
    have hlen : below.length ≤ (top ++ below).length := by simp
    apply endBlock_suffix hd _ _ below hlen
    apply ih _ base top below hb
    intro b hbm
    rcases List.mem_cons.mp hbm with h | h
    · rw [h]; exact hlen
    · exact he b h
  | loop n p ih =>
    intro env base top below hb he
    simp only [dexec]
    apply vloop_suffix _ below
    intro top2
    have hlen : below.length ≤ (top2 ++ below).length := by simp
    apply endBlock_suffix hd _ _ below hlen
    apply ih _ base top2 below hb
    intro b hbm
    rcases List.mem_cons.mp hbm with h | h
    · rw [h]; exact hlen
    · exact he b h
  | pcall p ih =>
    intro env base top below _ _
    simp only [dexec]
    obtain ⟨t1, h1⟩ := endFn_suffix hd (dexec hd kill p [] (top ++ below).length (top ++ below))
      (top ++ below).length (top ++ below) (Nat.le_refl _)
      (by
        have := ih [] (top ++ below).length [] (top ++ below) (Nat.le_refl _) (fun b hb => by simp at hb)
        simpa using this)
    generalize endFn hd (dexec hd kill p [] (top ++ below).length (top ++ below)) (top ++ below).length = r at h1
    cases hx : r.exit with
    | kill e =>
      simp only
      rw [h1]
      exact ⟨t1 ++ top, by rw [List.append_assoc]⟩
    | normal =>
      simp only; rw [h1]
      have := cleanup_suffix hd (top ++ below) t1 (top ++ below).length Exit.normal.errArg (Nat.le_refl _)
      obtain ⟨t2, h2⟩ := this
      exact ⟨t2 ++ top, by rw [h2, List.append_assoc]⟩
    | brk =>
      simp only; rw [h1]
      have := cleanup_suffix hd (top ++ below) t1 (top ++ below).length Exit.brk.errArg (Nat.le_refl _)
      obtain ⟨t2, h2⟩ := this
      exact ⟨t2 ++ top, by rw [h2, List.append_assoc]⟩
    | goto k =>
      simp only; rw [h1]
      have := cleanup_suffix hd (top ++ below) t1 (top ++ below).length (Exit.goto k).errArg (Nat.le_refl _)
      obtain ⟨t2, h2⟩ := this
      exact ⟨t2 ++ top, by rw [h2, List.append_assoc]⟩
    | ret =>
      simp only; rw [h1]
      have := cleanup_suffix hd (top ++ below) t1 (top ++ below).length Exit.ret.errArg (Nat.le_refl _)
      obtain ⟨t2, h2⟩ := this
      exact ⟨t2 ++ top, by rw [h2, List.append_assoc]⟩
    | err e =>
      simp only; rw [h1]
      have := cleanup_suffix hd (top ++ below) t1 (top ++ below).length (Exit.err e).errArg (Nat.le_refl _)
      obtain ⟨t2, h2⟩ := this
      exact ⟨t2 ++ top, by rw [h2, List.append_assoc]⟩
  | call p ih =>
    intro env base top below _ _
    simp only [dexec]
    obtain ⟨t1, h1⟩ := endFn_suffix hd (dexec hd kill p [] (top ++ below).length (top ++ below))
      (top ++ below).length (top ++ below) (Nat.le_refl _)
      (by
        have := ih [] (top ++ below).length [] (top ++ below) (Nat.le_refl _) (fun b hb => by simp at hb)
        simpa using this)
    exact ⟨t1 ++ top, by rw [h1, List.append_assoc]⟩
  | retCall p ih =>
    intro env base top below hb _
    rw [dexec_retCall]
    apply retAfter_suffix hd _ base below hb
    obtain ⟨t1, h1⟩ := endFn_suffix hd (dexec hd kill p [] (top ++ below).length (top ++ below))
      (top ++ below).length (top ++ below) (Nat.le_refl _)
      (by
        have := ih [] (top ++ below).length [] (top ++ below) (Nat.le_refl _) (fun b hb => by simp at hb)
        simpa using this)
    exact ⟨t1 ++ top, by rw [h1, List.append_assoc]⟩

theorem vexec_block (hd : Handlers) (kill : Bool) (c : Code) (base : Nat) (st : List TV) :
    vexec hd kill (.block c) base st =
      ⟨(vexec hd kill c base st).exit.leaveBlock, (vexec hd kill c base st).stack, (vexec hd kill c base st).log⟩ := rfl

theorem dexec_block (hd : Handlers) (kill : Bool) (p : Prog) (env : Env) (base : Nat) (st : List TV) :
    dexec hd kill (.block p) env base st =
      ⟨(endBlock hd (dexec hd kill p ((false, st.length) :: env) base st) st.length).exit.leaveBlock,
       (endBlock hd (dexec hd kill p ((false, st.length) :: env) base st) st.length).stack,
       (endBlock hd (dexec hd kill p ((false, st.length) :: env) base st) st.length).log⟩ := rfl

theorem vexec_loop (hd : Handlers) (kill : Bool) (n : Nat) (c : Code) (base : Nat) (st : List TV) :
    vexec hd kill (.loop n c) base st = vloop (vexec hd kill c base) n st := rfl

theorem dexec_loop (hd : Handlers) (kill : Bool) (n : Nat) (p : Prog) (env : Env) (base : Nat) (st : List TV) :
    dexec hd kill (.loop n p) env base st =
      vloop (fun st => endBlock hd (dexec hd kill p ((true, st.length) :: env) base st) st.length) n st := rfl

/-- what a protected call makes of the result `r` of the function body started on stack `st` -/
def pcallEnd (hd : Handlers) (r : VRes) (st : List TV) : VRes :=
  match r.exit with
  | .kill e => ⟨.kill e, r.stack, r.log⟩
  | x =>
    let cl := cleanup hd r.stack st.length x.errArg
    ⟨.normal, cl.2.1, r.log ++ cl.2.2 ++ [.caught cl.1]⟩

theorem vexec_pcall (hd : Handlers) (kill : Bool) (c : Code) (base : Nat) (st : List TV) :
    vexec hd kill (.pcall c) base st = pcallEnd hd (vexec hd kill c st.length st) st := rfl

theorem dexec_pcall (hd : Handlers) (kill : Bool) (p : Prog) (env : Env) (base : Nat) (st : List TV) :
    dexec hd kill (.pcall p) env base st =
      pcallEnd hd (endFn hd (dexec hd kill p [] st.length st) st.length) st := rfl

theorem vexec_call (hd : Handlers) (kill : Bool) (c : Code) (base : Nat) (st : List TV) :
    vexec hd kill (.call c) base st =
      ⟨(vexec hd kill c st.length st).exit.leaveFunction, (vexec hd kill c st.length st).stack,
       (vexec hd kill c st.length st).log⟩ := rfl

theorem dexec_call (hd : Handlers) (kill : Bool) (p : Prog) (env : Env) (base : Nat) (st : List TV) :
    dexec hd kill (.call p) env base st =
      ⟨(endFn hd (dexec hd kill p [] st.length st) st.length).exit.leaveFunction,
       (endFn hd (dexec hd kill p [] st.length st) st.length).stack,
       (endFn hd (dexec hd kill p [] st.length st) st.length).log⟩ := rfl

theorem cleanup_exact (hd : Handlers) (top below : List TV) (e : Option Err) :
    (cleanup hd (top ++ below) below.length e).2.1 = below := by
  obtain ⟨t, ht⟩ := cleanup_suffix hd below top below.length e (Nat.le_refl _)
  have hl := cleanup_length hd (top ++ below) below.length e (by simp)
  rw [ht] at hl ⊢
  have : t = [] := by
    cases t with
    | nil => rfl
    | cons a t => simp at hl; omega
  rw [this]; rfl

theorem vloop_ret (g : List TV → VRes) (below : List TV)
    (hs : ∀ top, ∃ top', (g (top ++ below)).stack = top' ++ below)
    (hr : ∀ top, (g (top ++ below)).exit = .ret → (g (top ++ below)).stack = below) :
    ∀ (n : Nat) (top : List TV), (vloop g n (top ++ below)).exit = .ret →
      (vloop g n (top ++ below)).stack = below := by
  intro n
  induction n with
  | zero => intro top h; simp [vloop] at h
  | succ n ih =>
    intro top
    obtain ⟨t1, h1⟩ := hs top
    have h2 := hr top
    simp only [vloop]
    cases hx : (g (top ++ below)).exit with
    | normal => simp only; rw [h1]; exact ih t1
    | brk => intro h; simp at h
    | goto k => intro h; cases k <;> simp [Exit.leaveBlock] at h
    | ret => intro _; exact h2 hx
    | err e => intro h; simp [Exit.leaveBlock] at h
    | kill e => intro h; simp [Exit.leaveBlock] at h

theorem endBlock_ret (hd : Handlers) (r : VRes) (L : Nat) (below : List TV)
    (hr : r.exit = .ret → r.stack = below) :
    (endBlock hd r L).exit = .ret → (endBlock hd r L).stack = below := by
  unfold endBlock
  obtain ⟨x, stk, lg⟩ := r
  cases x with
  | normal => simp only; cases (closeDown hd stk L).1 <;> (intro h; simp [Exit.withErr] at h)
  | ret => intro _; exact hr rfl
  | brk => intro h; simp at h
  | goto g => intro h; simp at h
  | err e => intro h; simp at h
  | kill e => intro h; simp at h

/-- a `return` leaves exactly the stack below the frame -/
theorem dexec_ret (hd : Handlers) (kill : Bool) : ∀ (p : Prog) (env : Env) (base : Nat)
    (top below : List TV), below.length = base → (∀ b ∈ env, below.length ≤ b.2) →
    (dexec hd kill p env base (top ++ below)).exit = .ret →
    (dexec hd kill p env base (top ++ below)).stack = below := by
  intro p
  induction p with
  | skip => intro env base top below _ _ h; simp [dexec] at h
  | mark n => intro env base top below _ _ h; simp [dexec] at h
  | err e => intro env base top below _ _ h; simp [dexec] at h
  | yield => intro env base top below _ _ h; cases kill <;> simp [dexec] at h
  | tbc v => intro env base top below _ _ h; cases v <;> simp [dexec] at h
  | ret =>
    intro env base top below hb _ _
    simp only [dexec, jumpTo]
    rw [← hb]; exact cleanup_exact hd top below none
  | brk =>
    intro env base top below _ _ h
    simp only [dexec] at h
    cases hh : brkHeight env with
    | none => rw [hh] at h; simp at h
    | some t =>
      rw [hh] at h
      simp only [jumpTo] at h
      cases hc : (cleanup hd (top ++ below) t none).1 <;> rw [hc] at h <;> simp [Exit.withErr] at h
  | gotoOut g =>
    intro env base top below _ _ h
    simp only [dexec] at h
    cases hh : gotoHeight env g with
    | none => rw [hh] at h; simp at h
    | some t =>
      rw [hh] at h
      simp only [jumpTo] at h
      cases hc : (cleanup hd (top ++ below) t none).1 <;> rw [hc] at h <;> simp [Exit.withErr] at h
  | seq a b iha ihb =>
    intro env base top below hb he
    obtain ⟨t1, h1⟩ := dexec_suffix hd kill a env base top below (Nat.le_of_eq hb) he
    have ha := iha env base top below hb he
    simp only [dexec]
    cases hx : (dexec hd kill a env base (top ++ below)).exit with
    | normal => simp only; rw [h1]; exact ihb env base t1 below hb he
    | ret => simp only; intro _; exact ha hx
    | brk => simp only; rw [hx]; intro h; simp at h
    | goto k => simp only; rw [hx]; intro h; simp at h
    | err e => simp only; rw [hx]; intro h; simp at h
    | kill e => simp only; rw [hx]; intro h; simp at h
  | block p ih =>
    intro env base top below hb he
    have hlen : below.length ≤ (top ++ below).length := by simp
    have he' : ∀ b ∈ (false, (top ++ below).length) :: env, below.length ≤ b.2 := by
      intro b hbm
      rcases List.mem_cons.mp hbm with h | h
      · rw [h]; exact hlen
      · exact he b h
    have h1 := endBlock_ret hd _ (top ++ below).length below (ih _ base top below hb he')
    rw [dexec_block]
    simp only
    intro h
    have : (endBlock hd (dexec hd kill p ((false, (top ++ below).length) :: env) base (top ++ below))
        (top ++ below).length).exit = .ret := by
      generalize (endBlock hd (dexec hd kill p ((false, (top ++ below).length) :: env) base (top ++ below))
        (top ++ below).length).exit = x at h
      cases x with
      | goto k => cases k <;> simp [Exit.leaveBlock] at h
      | ret => rfl
      | normal => simp [Exit.leaveBlock] at h
      | brk => simp [Exit.leaveBlock] at h
      | err e => simp [Exit.leaveBlock] at h
      | kill e => simp [Exit.leaveBlock] at h
    exact h1 this
  | loop n p ih =>
    intro env base top below hb he
    rw [dexec_loop]
    have he' : ∀ top2, ∀ b ∈ (true, (top2 ++ below).length) :: env, below.length ≤ b.2 := by
      intro top2 b hbm
      rcases List.mem_cons.mp hbm with h | h
      · rw [h]; simp
      · exact he b h
    apply vloop_ret _ below
    · intro top2
      exact endBlock_suffix hd _ _ below (by simp)
        (dexec_suffix hd kill p _ base top2 below (Nat.le_of_eq hb) (he' top2))
    · intro top2
      exact endBlock_ret hd _ _ below (ih _ base top2 below hb (he' top2))
  | pcall p ih =>
    intro env base top below _ _ h
    rw [dexec_pcall] at h
    unfold pcallEnd at h
    generalize (endFn hd (dexec hd kill p [] (top ++ below).length (top ++ below)) (top ++ below).length) = r at h
    obtain ⟨x, stk, lg⟩ := r
    cases x <;> simp at h
  | call p ih =>
    intro env base top below _ _ h
    rw [dexec_call] at h
    simp only at h
    generalize (endFn hd (dexec hd kill p [] (top ++ below).length (top ++ below)) (top ++ below).length).exit = x at h
    cases x <;> simp [Exit.leaveFunction] at h
  | retCall p ih =>
    intro env base top below hb _ h
    rw [dexec_retCall] at h ⊢
    obtain ⟨t1, h1⟩ := endFn_suffix hd (dexec hd kill p [] (top ++ below).length (top ++ below))
      (top ++ below).length (top ++ below) (Nat.le_refl _)
      (by
        have := dexec_suffix hd kill p [] (top ++ below).length [] (top ++ below) (Nat.le_refl _)
          (fun b hb => by simp at hb)
        simpa using this)
    generalize endFn hd (dexec hd kill p [] (top ++ below).length (top ++ below)) (top ++ below).length = r at h h1 ⊢
    unfold retAfter at h ⊢
    cases hx : r.exit.leaveFunction with
    | normal =>
      rw [hx] at h
      simp only [jumpTo] at h ⊢
      rw [h1, ← List.append_assoc, ← hb]
      exact cleanup_exact hd (t1 ++ top) below none
    | brk => rw [hx] at h; simp at h
    | goto k => rw [hx] at h; simp at h
    | ret => generalize r.exit = y at hx; cases y <;> simp [Exit.leaveFunction] at hx
    | err e => rw [hx] at h; simp at h
    | kill e => rw [hx] at h; simp at h

theorem endFn_ret (hd : Handlers) (r : VRes) (below : List TV)
    (hs : ∃ t, r.stack = t ++ below) (hr : r.exit = .ret → r.stack = below) :
    (endFn hd r below.length).exit = .ret → (endFn hd r below.length).stack = below := by
  unfold endFn
  obtain ⟨x, stk, lg⟩ := r
  obtain ⟨t, ht⟩ := hs
  simp only at ht
  cases x with
  | normal => simp only; intro _; rw [ht]; exact cleanup_exact hd t below none
  | ret => intro _; exact hr rfl
  | brk => intro h; simp at h
  | goto g => intro h; simp at h
  | err e => intro h; simp at h
  | kill e => intro h; simp at h

theorem blocks_le : ∀ (ctx : Ctx) (ab : Bool), CtxInvA ab ctx → ∀ b ∈ ctxBlocks ctx, b.2 ≤ topHeight ctx := by
  intro ctx
  induction ctx with
  | nil => intro _ _ b hb; simp [ctxBlocks] at hb
  | cons s rest ih =>
    intro ab hinv b hb
    obtain ⟨k, h⟩ := s
    cases k with
    | root => simp [ctxBlocks] at hb
    | loc =>
      simp only [CtxInvA] at hinv
      simp only [ctxBlocks] at hb
      have := ih false hinv.2 b hb
      rw [topHeight_cons]; simp only; omega
    | loop =>
      simp only [CtxInvA] at hinv
      simp only [ctxBlocks] at hb
      have := ih false hinv.2.2 b hb
      rw [topHeight_cons]; simp only; omega
    | block =>
      simp only [CtxInvA] at hinv
      simp only [ctxBlocks] at hb
      rw [topHeight_cons]; simp only
      rcases List.mem_cons.mp hb with h1 | h1
      · rw [h1]; exact Nat.le_refl _
      · have := ih true hinv.2 b h1
        omega

theorem seq_skip (hd : Handlers) (kill : Bool) (c : Code) (base : Nat) (st : List TV) :
    vexec hd kill (.seq c .skip) base st = vexec hd kill c base st := by
  simp only [vexec]
  generalize vexec hd kill c base st = r
  cases hx : r.exit with
  | normal => simp only [List.append_nil]; exact (vres_eta r hx).symm
  | brk => rfl
  | goto g => rfl
  | ret => rfl
  | err e => rfl
  | kill e => rfl

/-- body of a block / loop: the compiled statements followed by the PopContexts of its locals -/
theorem body_exec (hd : Handlers) (kill : Bool) (cp plc : Code) (base L : Nat) (st : List TV)
    (h : (vexec hd kill cp base st).exit = .normal →
      vexec hd kill plc base (vexec hd kill cp base st).stack =
        (let c := closeDown hd (vexec hd kill cp base st).stack L
         ⟨Exit.normal.withErr c.1, c.2.1, c.2.2⟩)) :
    vexec hd kill (.seq cp (.seq plc .skip)) base st = endBlock hd (vexec hd kill cp base st) L := by
  rw [show vexec hd kill (.seq cp (.seq plc .skip)) base st =
      (let ra := vexec hd kill cp base st
       match ra.exit with
       | .normal =>
         let rb := vexec hd kill (.seq plc .skip) base ra.stack
         ⟨rb.exit, rb.stack, ra.log ++ rb.log⟩
       | _ => ra) from rfl]
  unfold endBlock
  generalize vexec hd kill cp base st = r at h ⊢
  obtain ⟨x, stk, lg⟩ := r
  cases x with
  | normal =>
    simp only at h ⊢
    rw [seq_skip, h trivial]
  | brk => rfl
  | goto g => rfl
  | ret => rfl
  | err e => rfl
  | kill e => rfl

theorem ctxBlocks_push_block (ctx : Ctx) (h : CtxInvA false ctx) :
    ctxBlocks (pushScope .block ctx) = (false, topHeight ctx) :: ctxBlocks ctx := by
  simp only [pushScope, ctxBlocks, isLoopTop_false_of_inv h]

theorem ctxBlocks_push_loop (ctx : Ctx) :
    ctxBlocks (pushScope .block (pushScope .loop ctx)) = (true, topHeight ctx) :: ctxBlocks ctx := by
  simp only [pushScope, ctxBlocks, isLoopTop, topHeight_cons]

theorem endBlock_post (hd : Handlers) (r : VRes) (L : Nat) (k : Bool) (env : Env) (nl : Nat)
    (hp : Post ((k, L) :: env) nl r) (hl : r.exit = .normal → L ≤ r.stack.length) :
    Post ((k, L) :: env) L (endBlock hd r L) := by
  intro len hlen
  unfold endBlock at hlen ⊢
  cases hx : r.exit with
  | normal =>
    rw [hx] at hlen
    simp only at hlen ⊢
    cases hc : (closeDown hd r.stack L).1 with
    | none =>
      rw [hc] at hlen
      simp only [normal_withErr_none, exitLen] at hlen
      injection hlen with hlen
      rw [← hlen]
      exact closeDown_none_length hd r.stack L (hl hx) hc
    | some e => rw [hc] at hlen; simp [normal_withErr_some, exitLen] at hlen
  | brk => rw [hx] at hlen; simp only at hlen ⊢; exact hp len (by rw [hx]; exact hlen)
  | goto g => rw [hx] at hlen; simp only at hlen ⊢; exact hp len (by rw [hx]; exact hlen)
  | ret => rw [hx] at hlen; simp [exitLen] at hlen
  | err e => rw [hx] at hlen; simp [exitLen] at hlen
  | kill e => rw [hx] at hlen; simp [exitLen] at hlen

/-- leaving a plain block: what was a jump to the label after this block is now a normal exit -/
theorem leaveBlock_post (r : VRes) (L : Nat) (env : Env)
    (hp : Post ((false, L) :: env) L r) :
    Post env L ⟨r.exit.leaveBlock, r.stack, r.log⟩ := by
  intro len hlen
  cases hx : r.exit with
  | normal => rw [hx] at hlen; exact hp len (by rw [hx]; exact hlen)
  | brk => rw [hx] at hlen; exact hp len (by rw [hx]; exact hlen)
  | goto g =>
    rw [hx] at hlen
    cases g with
    | zero =>
      simp only [Exit.leaveBlock, exitLen] at hlen
      exact hp len (by rw [hx]; exact hlen)
    | succ g => exact hp len (by rw [hx]; exact hlen)
  | ret => rw [hx] at hlen; simp [Exit.leaveBlock, exitLen] at hlen
  | err e => rw [hx] at hlen; simp [Exit.leaveBlock, exitLen] at hlen
  | kill e => rw [hx] at hlen; simp [Exit.leaveBlock, exitLen] at hlen

theorem pcallEnd_post (hd : Handlers) (r : VRes) (st : List TV) (env : Env)
    (h1 : ∃ t1, r.stack = t1 ++ st) : Post env st.length (pcallEnd hd r st) := by
  obtain ⟨t1, h1⟩ := h1
  obtain ⟨x, stk, lg⟩ := r
  simp only at h1
  subst h1
  intro len hl
  have hc : ∀ e, (cleanup hd (t1 ++ st) st.length e).2.1.length = st.length :=
    fun e => cleanup_length hd _ _ e (by simp)
  cases x with
  | kill e => simp [pcallEnd, exitLen] at hl
  | normal => simp only [pcallEnd, exitLen, Option.some.injEq] at hl ⊢; rw [← hl]; exact hc _
  | brk => simp only [pcallEnd, exitLen, Option.some.injEq] at hl ⊢; rw [← hl]; exact hc _
  | goto g => simp only [pcallEnd, exitLen, Option.some.injEq] at hl ⊢; rw [← hl]; exact hc _
  | ret => simp only [pcallEnd, exitLen, Option.some.injEq] at hl ⊢; rw [← hl]; exact hc _
  | err e => simp only [pcallEnd, exitLen, Option.some.injEq] at hl ⊢; rw [← hl]; exact hc _

/-- exits stay in range: a well-formed piece of code only breaks inside a loop and only jumps to
    labels of enclosing blocks -/
def ExitOK (x : Exit) (d : Nat) (l : Bool) : Prop :=
  match x with
  | .brk => l = true
  | .goto g => g < d
  | _ => True

theorem vloop_exitOK (g : List TV → VRes) (d : Nat) (l : Bool)
    (hg : ∀ st, ExitOK (g st).exit (d + 1) true) :
    ∀ (n : Nat) (st : List TV), ExitOK (vloop g n st).exit d l := by
  intro n
  induction n with
  | zero => intro st; trivial
  | succ n ih =>
    intro st
    have h := hg st
    simp only [vloop]
    cases hx : (g st).exit with
    | normal => exact ih _
    | brk => trivial
    | goto k =>
      rw [hx] at h
      cases k with
      | zero => trivial
      | succ k => simp only [Exit.leaveBlock, ExitOK] at h ⊢; omega
    | ret => trivial
    | err e => trivial
    | kill e => trivial

theorem endBlock_exitOK (hd : Handlers) (r : VRes) (L d : Nat) (l : Bool) (h : ExitOK r.exit d l) :
    ExitOK (endBlock hd r L).exit d l := by
  unfold endBlock
  obtain ⟨x, stk, lg⟩ := r
  cases x with
  | normal => simp only; cases (closeDown hd stk L).1 <;> trivial
  | brk => exact h
  | goto g => exact h
  | ret => trivial
  | err e => trivial
  | kill e => trivial

theorem jumpTo_exitOK (hd : Handlers) (st : List TV) (t : Nat) (x : Exit) (d : Nat) (l : Bool)
    (h : ExitOK x d l) : ExitOK (jumpTo hd st t x).exit d l := by
  unfold jumpTo
  simp only
  cases (cleanup hd st t none).1 with
  | none => cases x <;> first | exact h | trivial
  | some e => cases x <;> trivial

theorem dexec_exitOK (hd : Handlers) (kill : Bool) : ∀ (p : Prog) (d : Nat) (l : Bool) (env : Env)
    (base : Nat) (st : List TV), wf p d l = true → ExitOK (dexec hd kill p env base st).exit d l := by
  intro p
  induction p with
  | skip => intros; trivial
  | mark n => intros; trivial
  | err e => intros; trivial
  | yield => intro d l env base st _; simp only [dexec]; cases kill <;> trivial
  | tbc v => intro d l env base st _; cases v <;> trivial
  | ret => intro d l env base st _; exact jumpTo_exitOK hd st base .ret d l trivial
  | brk =>
    intro d l env base st h
    simp only [wf] at h
    simp only [dexec]
    cases brkHeight env with
    | none => exact h
    | some t => exact jumpTo_exitOK hd st t .brk d l h
  | gotoOut g =>
    intro d l env base st h
    simp only [wf, decide_eq_true_eq] at h
    simp only [dexec]
    cases gotoHeight env g with
    | none => exact h
    | some t => exact jumpTo_exitOK hd st t (.goto g) d l h
  | seq a b iha ihb =>
    intro d l env base st h
    simp only [wf, Bool.and_eq_true] at h
    have ha := iha d l env base st h.1
    simp only [dexec]
    cases hx : (dexec hd kill a env base st).exit with
    | normal => exact ihb d l env base _ h.2
    | brk => simp only; rw [hx]; rw [hx] at ha; exact ha
    | goto k => simp only; rw [hx]; rw [hx] at ha; exact ha
    | ret => simp only; rw [hx]; trivial
    | err e => simp only; rw [hx]; trivial
    | kill e => simp only; rw [hx]; trivial
  | block p ih =>
    intro d l env base st h
    simp only [wf] at h
    have h1 := endBlock_exitOK hd _ st.length (d + 1) l (ih (d + 1) l ((false, st.length) :: env) base st h)
    rw [dexec_block]
    simp only
    cases hx : (endBlock hd (dexec hd kill p ((false, st.length) :: env) base st) st.length).exit with
    | goto k =>
      rw [hx] at h1
      cases k with
      | zero => trivial
      | succ k => simp only [Exit.leaveBlock, ExitOK] at h1 ⊢; omega
    | brk => rw [hx] at h1; exact h1
    | normal => trivial
    | ret => trivial
    | err e => trivial
    | kill e => trivial
  | loop n p ih =>
    intro d l env base st h
    simp only [wf] at h
    rw [dexec_loop]
    apply vloop_exitOK
    intro st'
    exact endBlock_exitOK hd _ _ (d + 1) true (ih (d + 1) true _ base st' h)
  | pcall p ih =>
    intro d l env base st _
    rw [dexec_pcall]
    unfold pcallEnd
    cases (endFn hd (dexec hd kill p [] st.length st) st.length).exit <;> trivial
  | call p ih =>
    intro d l env base st _
    rw [dexec_call]
    simp only
    cases (endFn hd (dexec hd kill p [] st.length st) st.length).exit <;> trivial
  | retCall p ih =>
    intro d l env base st _
    rw [dexec_retCall]
    unfold retAfter
    generalize endFn hd (dexec hd kill p [] st.length st) st.length = r
    cases hx : r.exit.leaveFunction with
    | normal => exact jumpTo_exitOK hd r.stack base .ret d l trivial
    | brk => generalize r.exit = y at hx; cases y <;> simp [Exit.leaveFunction] at hx
    | goto k => generalize r.exit = y at hx; cases y <;> simp [Exit.leaveFunction] at hx
    | ret => trivial
    | err e => trivial
    | kill e => trivial

theorem endFn_exit (hd : Handlers) (r : VRes) (L : Nat) (h : ExitOK r.exit 0 false) :
    (endFn hd r L).exit ≠ .normal ∧ (endFn hd r L).exit ≠ .brk ∧ ∀ g, (endFn hd r L).exit ≠ .goto g := by
  unfold endFn
  obtain ⟨x, stk, lg⟩ := r
  cases x with
  | normal => simp only; cases (cleanup hd stk L none).1 <;> simp [Exit.withErr]
  | brk => simp [ExitOK] at h
  | goto g => simp [ExitOK] at h
  | ret => simp
  | err e => simp
  | kill e => simp

/-- MAIN LEMMA (static heights are right).  In a context satisfying the pushNew invariant, a well-formed
    program compiles, the final context is the initial one plus one `loc` scope per executed
    `local … <close>`, and on every stack whose size agrees with the context the VM running the compiled
    code behaves exactly as `dexec` on the source. -/
theorem vexec_compile (hd : Handlers) (kill : Bool) : ∀ (p : Prog) (ctx : Ctx), CtxInv ctx →
    wf p (ctxBlocks ctx).length ((ctxBlocks ctx).any (·.1)) = true →
    ∃ c L, compile p ctx = some (c, L ++ ctx) ∧ AllLoc L ∧ CtxInv (L ++ ctx) ∧
      ∀ (base : Nat) (st : List TV), st.length = base + topHeight ctx →
        vexec hd kill c base st = dexec hd kill p (shiftEnv base (ctxBlocks ctx)) base st ∧
        Post (shiftEnv base (ctxBlocks ctx)) (base + topHeight (L ++ ctx))
          (dexec hd kill p (shiftEnv base (ctxBlocks ctx)) base st) := by
  intro p
  induction p with
  | skip =>
    intro ctx hinv _
    refine ⟨.skip, [], rfl, allLoc_nil, hinv, ?_⟩
    intro base st hlen
    refine ⟨rfl, ?_⟩
    intro len hl; simp only [dexec, exitLen] at hl ⊢; injection hl with hl; rw [← hl]; exact hlen
  | mark n =>
    intro ctx hinv _
    refine ⟨.mark n, [], rfl, allLoc_nil, hinv, ?_⟩
    intro base st hlen
    refine ⟨rfl, ?_⟩
    intro len hl; simp only [dexec, exitLen] at hl ⊢; injection hl with hl; rw [← hl]; exact hlen
  | err e =>
    intro ctx hinv _
    refine ⟨.err e, [], rfl, allLoc_nil, hinv, ?_⟩
    intro base st hlen
    exact ⟨rfl, fun len hl => by simp [dexec, exitLen] at hl⟩
  | yield =>
    intro ctx hinv _
    refine ⟨.yield, [], rfl, allLoc_nil, hinv, ?_⟩
    intro base st hlen
    refine ⟨rfl, ?_⟩
    intro len hl
    cases kill
    · simp only [dexec, exitLen] at hl ⊢; injection hl with hl; rw [← hl]; exact hlen
    · simp [dexec, exitLen] at hl
  | ret =>
    intro ctx hinv _
    refine ⟨.ret, [], rfl, allLoc_nil, hinv, ?_⟩
    intro base st hlen
    refine ⟨rfl, ?_⟩
    simp only [dexec]
    apply post_of_not_landing
    have hex : (jumpTo hd st base .ret).exit = Exit.ret.withErr (cleanup hd st base none).1 := rfl
    rw [hex]
    cases (cleanup hd st base none).1 <;> simp [Exit.withErr]
  | tbc v =>
    intro ctx hinv _
    refine ⟨.push v, [⟨.loc, topHeight ctx + 1⟩], rfl, ?_, ?_, ?_⟩
    · intro s hs; simp at hs; rw [hs]
    · exact ⟨rfl, hinv⟩
    · intro base st hlen
      cases v with
      | bad => exact ⟨rfl, fun len hl => by simp [dexec, exitLen] at hl⟩
      | obj id =>
        refine ⟨rfl, ?_⟩
        intro len hl
        simp only [dexec, exitLen, List.singleton_append, topHeight_cons] at hl ⊢
        injection hl with hl; rw [← hl]; simp; omega
      | nilv =>
        refine ⟨rfl, ?_⟩
        intro len hl
        simp only [dexec, exitLen, List.singleton_append, topHeight_cons] at hl ⊢
        injection hl with hl; rw [← hl]; simp; omega
  | seq a b iha ihb =>
    intro ctx hinv hwf
    simp only [wf, Bool.and_eq_true] at hwf
    obtain ⟨ca, La, hca, hLa, hinva, ha⟩ := iha ctx hinv hwf.1
    have hbl : ctxBlocks (La ++ ctx) = ctxBlocks ctx := ctxBlocks_locs La ctx hLa
    obtain ⟨cb, Lb, hcb, hLb, hinvb, hb⟩ := ihb (La ++ ctx) hinva (by rw [hbl]; exact hwf.2)
    refine ⟨.seq ca cb, Lb ++ La, ?_, ?_, ?_, ?_⟩
    · simp only [compile, hca, hcb, List.append_assoc]
    · intro s hs
      rcases List.mem_append.mp hs with h | h
      · exact hLb s h
      · exact hLa s h
    · rw [List.append_assoc]; exact hinvb
    · intro base st hlen
      obtain ⟨ea, pa⟩ := ha base st hlen
      simp only [vexec, dexec]
      rw [ea]
      cases hx : (dexec hd kill a (shiftEnv base (ctxBlocks ctx)) base st).exit with
      | normal =>
        have hlen2 := pa _ (by rw [hx]; rfl)
        obtain ⟨eb, pb⟩ := hb base _ hlen2
        rw [hbl] at eb pb
        simp only
        rw [eb]
        refine ⟨rfl, ?_⟩
        rw [List.append_assoc]
        intro len hl
        exact pb len hl
      | brk =>
        refine ⟨by first | rfl | simp only, ?_⟩
        simp only; exact fun len hl => pa len (by rw [hx]; rw [hx] at hl; exact hl)
      | goto g =>
        refine ⟨by first | rfl | simp only, ?_⟩
        simp only; exact fun len hl => pa len (by rw [hx]; rw [hx] at hl; exact hl)
      | ret =>
        refine ⟨by first | rfl | simp only, ?_⟩
        simp only; exact fun len hl => by rw [hx] at hl; simp [exitLen] at hl
      | err e =>
        refine ⟨by first | rfl | simp only, ?_⟩
        simp only; exact fun len hl => by rw [hx] at hl; simp [exitLen] at hl
      | kill e =>
        refine ⟨by first | rfl | simp only, ?_⟩
        simp only; exact fun len hl => by rw [hx] at hl; simp [exitLen] at hl
  | brk =>
    intro ctx hinv hwf
    simp only [wf] at hwf
    obtain ⟨t, ht⟩ := brkHeight_some_of_any _ hwf
    have hbt : breakTarget ctx = some t := by rw [breakTarget_eq ctx hinv]; exact ht
    refine ⟨.seq (emitTruncate t (topHeight ctx)) .brk, [], ?_, allLoc_nil, hinv, ?_⟩
    · simp only [compile, hbt, List.nil_append]
    · intro base st hlen
      have he : brkHeight (shiftEnv base (ctxBlocks ctx)) = some (base + t) := by
        rw [brkHeight_shift, ht]; rfl
      simp only [dexec, he]
      refine ⟨jump_exec hd kill base st t (topHeight ctx) hlen .brk .brk (fun _ => rfl)
        (by decide) (fun e => by intro h; cases h), ?_⟩
      obtain ⟨k, hk⟩ := brkHeight_mem ht
      have hle := blocks_le ctx false hinv _ hk
      exact jumpTo_post hd st (base + t) .brk _ _ (by simp only at hle; omega) he
        (fun e => by intro h; cases h)
  | gotoOut g =>
    intro ctx hinv hwf
    simp only [wf, decide_eq_true_eq] at hwf
    obtain ⟨t, ht⟩ := gotoHeight_some_of_lt _ g hwf
    have hgt : gotoTarget ctx g = some t := by rw [gotoTarget_eq ctx false g hinv]; exact ht
    refine ⟨.seq (emitTruncate t (topHeight ctx)) (.jump g), [], ?_, allLoc_nil, hinv, ?_⟩
    · simp only [compile, hgt, List.nil_append]
    · intro base st hlen
      have he : gotoHeight (shiftEnv base (ctxBlocks ctx)) g = some (base + t) := by
        rw [gotoHeight_shift, ht]; rfl
      simp only [dexec, he]
      refine ⟨jump_exec hd kill base st t (topHeight ctx) hlen (.goto g) (.jump g) (fun _ => rfl)
        (by intro h; cases h) (fun e => by intro h; cases h), ?_⟩
      obtain ⟨k, hk⟩ := gotoHeight_mem ht
      have hle := blocks_le ctx false hinv _ hk
      exact jumpTo_post hd st (base + t) (.goto g) _ _ (by simp only at hle; omega) he
        (fun e => by intro h; cases h)
  | block p ih =>
    intro ctx hinv hwf
    have hinv' : CtxInv (pushScope .block ctx) := ⟨rfl, ctxInvA_true_of_false hinv⟩
    have hbl := ctxBlocks_push_block ctx hinv
    obtain ⟨cp, L1, hcp, hL1, hinv1, hp⟩ := ih (pushScope .block ctx) hinv' (by
      rw [hbl]; simpa [wf] using hwf)
    have h0 : ∀ s rest, pushScope .block ctx = s :: rest → s.kind ≠ .loc := by
      intro s rest h; simp only [pushScope, List.cons.injEq] at h; obtain ⟨h1, _⟩ := h; subst h1; simp
    have hpl := popLocals_exec hd kill
    refine ⟨.block (.seq cp (.seq (popLocals (L1 ++ pushScope .block ctx)).1 .skip)), [], ?_, allLoc_nil, hinv, ?_⟩
    · have h2 := (popLocals_exec hd kill 0 (pushScope .block ctx) h0 L1
        (List.replicate (0 + topHeight (L1 ++ pushScope .block ctx)) .nilv) hL1 hinv1 (by simp)).1
      simp only [compile, hcp, h2, List.nil_append]
      simp only [pushScope, popScope, emitTruncate, topHeight_cons, Nat.lt_irrefl, if_false]
    · intro base st hlen
      obtain ⟨e1, p1⟩ := hp base st (by simpa [pushScope, topHeight_cons] using hlen)
      have henv : shiftEnv base (ctxBlocks (pushScope .block ctx)) =
          (false, st.length) :: shiftEnv base (ctxBlocks ctx) := by
        rw [hbl, hlen]; rfl
      rw [henv] at e1 p1
      have htl := (topHeight_locs L1 _ hL1 hinv1).1
      have hbody : vexec hd kill (.seq cp (.seq (popLocals (L1 ++ pushScope .block ctx)).1 .skip)) base st =
          endBlock hd (dexec hd kill p ((false, st.length) :: shiftEnv base (ctxBlocks ctx)) base st) st.length := by
        rw [← e1]
        apply body_exec
        intro hn
        rw [e1] at hn ⊢
        have hsl := p1 _ (by rw [hn]; rfl)
        have := (popLocals_exec hd kill base (pushScope .block ctx) h0 L1 _ hL1 hinv1 hsl).2
        rw [this]
        simp only [pushScope, topHeight_cons, hlen]
      rw [vexec_block, dexec_block, hbody]
      refine ⟨rfl, ?_⟩
      have hpe := endBlock_post hd _ st.length false (shiftEnv base (ctxBlocks ctx)) _ p1 (by
        intro hn
        have := p1 _ (by rw [hn]; rfl)
        rw [this, htl]; simp only [pushScope, topHeight_cons]; omega)
      have := leaveBlock_post _ st.length _ hpe
      simpa [hlen] using this
  | loop n p ih =>
    intro ctx hinv hwf
    have hinv' : CtxInv (pushScope .block (pushScope .loop ctx)) := ⟨rfl, rfl, rfl, hinv⟩
    have hbl := ctxBlocks_push_loop ctx
    obtain ⟨cp, L1, hcp, hL1, hinv1, hp⟩ := ih (pushScope .block (pushScope .loop ctx)) hinv' (by
      rw [hbl]; simpa [wf] using hwf)
    have h0 : ∀ s rest, pushScope .block (pushScope .loop ctx) = s :: rest → s.kind ≠ .loc := by
      intro s rest h; simp only [pushScope, List.cons.injEq] at h; obtain ⟨h1, _⟩ := h; subst h1; simp
    refine ⟨.seq (.loop n (.seq cp (.seq (popLocals (L1 ++ pushScope .block (pushScope .loop ctx))).1 .skip))) .skip,
      [], ?_, allLoc_nil, hinv, ?_⟩
    · have h2 := (popLocals_exec hd kill 0 (pushScope .block (pushScope .loop ctx)) h0 L1
        (List.replicate (0 + topHeight (L1 ++ pushScope .block (pushScope .loop ctx))) .nilv) hL1 hinv1 (by simp)).1
      simp only [compile, hcp, h2, List.nil_append]
      simp only [pushScope, popScope, emitTruncate, topHeight_cons, Nat.lt_irrefl, if_false]
    · intro base st hlen
      have htl := (topHeight_locs L1 _ hL1 hinv1).1
      have hfg : ∀ st', st'.length = base + topHeight ctx →
          vexec hd kill (.seq cp (.seq (popLocals (L1 ++ pushScope .block (pushScope .loop ctx))).1 .skip)) base st' =
            endBlock hd (dexec hd kill p ((true, st'.length) :: shiftEnv base (ctxBlocks ctx)) base st') st'.length ∧
          Post ((true, base + topHeight ctx) :: shiftEnv base (ctxBlocks ctx)) (base + topHeight ctx)
            (endBlock hd (dexec hd kill p ((true, st'.length) :: shiftEnv base (ctxBlocks ctx)) base st') st'.length) := by
        intro st' hlen'
        obtain ⟨e1, p1⟩ := hp base st' (by simpa [pushScope, topHeight_cons] using hlen')
        have henv : shiftEnv base (ctxBlocks (pushScope .block (pushScope .loop ctx))) =
            (true, st'.length) :: shiftEnv base (ctxBlocks ctx) := by
          rw [hbl, hlen']; rfl
        rw [henv] at e1 p1
        constructor
        · rw [← e1]
          apply body_exec
          intro hn
          rw [e1] at hn ⊢
          have hsl := p1 _ (by rw [hn]; rfl)
          have := (popLocals_exec hd kill base (pushScope .block (pushScope .loop ctx)) h0 L1 _ hL1 hinv1 hsl).2
          rw [this]
          simp only [pushScope, topHeight_cons, hlen']
        · have hpe := endBlock_post hd _ st'.length true (shiftEnv base (ctxBlocks ctx)) _ p1 (by
            intro hn
            have := p1 _ (by rw [hn]; rfl)
            rw [this, htl]; simp only [pushScope, topHeight_cons]; omega)
          rw [hlen'] at hpe ⊢
          exact hpe
      have := vloop_post
        (vexec hd kill (.seq cp (.seq (popLocals (L1 ++ pushScope .block (pushScope .loop ctx))).1 .skip)) base)
        (fun st' => endBlock hd (dexec hd kill p ((true, st'.length) :: shiftEnv base (ctxBlocks ctx)) base st') st'.length)
        (base + topHeight ctx) (shiftEnv base (ctxBlocks ctx))
        (fun st' h => (hfg st' h).1) (fun st' h => (hfg st' h).2) n st hlen
      rw [seq_skip, vexec_loop, dexec_loop]
      exact ⟨this.1, by simpa using this.2⟩
  | pcall p ih =>
    intro ctx hinv hwf
    have hinv' : CtxInv [⟨.root, 0⟩] := ⟨rfl, rfl⟩
    obtain ⟨cp, L1, hcp, hL1, hinv1, hp⟩ := ih [⟨.root, 0⟩] hinv' (by simpa [wf, ctxBlocks] using hwf)
    refine ⟨.pcall (fnCode cp (L1 ++ [⟨.root, 0⟩])), [], ?_, allLoc_nil, hinv, ?_⟩
    · simp only [compile, hcp, List.nil_append]
    · intro base st hlen
      obtain ⟨e1, _⟩ := hp st.length st (by simp [topHeight])
      have henv : shiftEnv st.length (ctxBlocks [⟨.root, 0⟩]) = [] := rfl
      rw [henv] at e1
      rw [vexec_pcall, dexec_pcall, fn_exec, e1]
      refine ⟨rfl, ?_⟩
      have hsuf := endFn_suffix hd (dexec hd kill p [] st.length st) st.length st (Nat.le_refl _)
        (by simpa using dexec_suffix hd kill p [] st.length [] st (Nat.le_refl _) (fun b hb => by simp at hb))
      have := pcallEnd_post hd _ st (shiftEnv base (ctxBlocks ctx)) hsuf
      simpa [hlen] using this
  | call p ih =>
    intro ctx hinv hwf
    have hinv' : CtxInv [⟨.root, 0⟩] := ⟨rfl, rfl⟩
    obtain ⟨cp, L1, hcp, hL1, hinv1, hp⟩ := ih [⟨.root, 0⟩] hinv' (by simpa [wf, ctxBlocks] using hwf)
    refine ⟨.call (fnCode cp (L1 ++ [⟨.root, 0⟩])), [], ?_, allLoc_nil, hinv, ?_⟩
    · simp only [compile, hcp, List.nil_append]
    · intro base st hlen
      obtain ⟨e1, _⟩ := hp st.length st (by simp [topHeight])
      have henv : shiftEnv st.length (ctxBlocks [⟨.root, 0⟩]) = [] := rfl
      rw [henv] at e1
      rw [vexec_call, dexec_call, fn_exec, e1]
      refine ⟨rfl, ?_⟩
      have hwf' : wf p 0 false = true := by simpa [wf] using hwf
      have hex := endFn_exit hd _ st.length (dexec_exitOK hd kill p 0 false [] st.length st hwf')
      have hret := endFn_ret hd (dexec hd kill p [] st.length st) st
        (by simpa using dexec_suffix hd kill p [] st.length [] st (Nat.le_refl _) (fun b hb => by simp at hb))
        (by simpa using dexec_ret hd kill p [] st.length [] st rfl (fun b hb => by simp at hb))
      generalize endFn hd (dexec hd kill p [] st.length st) st.length = r at hex hret
      obtain ⟨x, stk, lg⟩ := r
      simp only at hex
      cases x with
      | normal => exact absurd rfl hex.1
      | brk => exact absurd rfl hex.2.1
      | goto g => exact absurd rfl (hex.2.2 g)
      | ret =>
        have hret := hret rfl
        simp only at hret
        intro len hl
        simp only [Exit.leaveFunction, exitLen, Option.some.injEq, List.nil_append] at hl ⊢
        rw [← hl, ← hlen]
        exact congrArg List.length hret
      | err e => exact fun len hl => by simp [Exit.leaveFunction, exitLen] at hl
      | kill e => exact fun len hl => by simp [Exit.leaveFunction, exitLen] at hl
  | retCall p ih =>
    intro ctx hinv hwf
    have hinv' : CtxInv [⟨.root, 0⟩] := ⟨rfl, rfl⟩
    have hwf' : wf p 0 false = true := by simpa [wf] using hwf
    obtain ⟨cp, L1, hcp, hL1, hinv1, hp⟩ := ih [⟨.root, 0⟩] hinv' (by simpa [wf, ctxBlocks] using hwf)
    refine ⟨if 0 < topHeight ctx then .seq (.call (fnCode cp (L1 ++ [⟨.root, 0⟩]))) .ret
        else .tailcall (fnCode cp (L1 ++ [⟨.root, 0⟩])), [], ?_, allLoc_nil, hinv, ?_⟩
    · simp only [compile, hcp, List.nil_append]
    · intro base st hlen
      obtain ⟨e1, _⟩ := hp st.length st (by simp [topHeight])
      have henv : shiftEnv st.length (ctxBlocks [⟨.root, 0⟩]) = [] := rfl
      rw [henv] at e1
      have hex := endFn_exit hd _ st.length (dexec_exitOK hd kill p 0 false [] st.length st hwf')
      have hret := endFn_ret hd (dexec hd kill p [] st.length st) st
        (by simpa using dexec_suffix hd kill p [] st.length [] st (Nat.le_refl _) (fun b hb => by simp at hb))
        (by simpa using dexec_ret hd kill p [] st.length [] st rfl (fun b hb => by simp at hb))
      rw [dexec_retCall]
      have hfn : vexec hd kill (fnCode cp (L1 ++ [⟨.root, 0⟩])) st.length st =
          endFn hd (dexec hd kill p [] st.length st) st.length := by rw [fn_exec, e1]
      generalize endFn hd (dexec hd kill p [] st.length st) st.length = r at hex hret hfn
      obtain ⟨x, stk, lg⟩ := r
      simp only at hex hret
      constructor
      · by_cases hh : 0 < topHeight ctx
        · simp only [hh, if_true]
          rw [show vexec hd kill (.seq (.call (fnCode cp (L1 ++ [⟨.root, 0⟩]))) .ret) base st =
              (let ra := vexec hd kill (.call (fnCode cp (L1 ++ [⟨.root, 0⟩]))) base st
               match ra.exit with
               | .normal =>
                 let rb := vexec hd kill .ret base ra.stack
                 ⟨rb.exit, rb.stack, ra.log ++ rb.log⟩
               | _ => ra) from rfl]
          rw [vexec_call, hfn]
          cases x with
          | normal => exact absurd rfl hex.1
          | brk => exact absurd rfl hex.2.1
          | goto g => exact absurd rfl (hex.2.2 g)
          | ret => rfl
          | err e => rfl
          | kill e => rfl
        · simp only [hh, if_false]
          have hb : st.length = base := by omega
          rw [show vexec hd kill (.tailcall (fnCode cp (L1 ++ [⟨.root, 0⟩]))) base st =
              (let cl := cleanup hd st base none
               match cl.1 with
               | some e => ⟨.err e, cl.2.1, cl.2.2⟩
               | none =>
                 let r := vexec hd kill (fnCode cp (L1 ++ [⟨.root, 0⟩])) st.length cl.2.1
                 ⟨r.exit.leaveFunction.thenReturn, r.stack, cl.2.2 ++ r.log⟩) from rfl]
          rw [cleanup_le hd st base none (by omega)]
          simp only [hfn, List.nil_append]
          cases x with
          | normal => exact absurd rfl hex.1
          | brk => exact absurd rfl hex.2.1
          | goto g => exact absurd rfl (hex.2.2 g)
          | ret =>
            have hs : stk = st := hret rfl
            subst hs
            simp only [retAfter, Exit.leaveFunction, Exit.thenReturn, jumpTo]
            rw [cleanup_le hd stk base none (by omega)]
            simp [Exit.withErr]
          | err e => rfl
          | kill e => rfl
      · apply post_of_not_landing
        unfold retAfter
        cases x with
        | normal => exact absurd rfl hex.1
        | brk => exact absurd rfl hex.2.1
        | goto g => exact absurd rfl (hex.2.2 g)
        | ret =>
          simp only [Exit.leaveFunction, jumpTo]
          cases (cleanup hd stk base none).1 <;> simp [Exit.withErr]
        | err e => simp [Exit.leaveFunction]
        | kill e => simp [Exit.leaveFunction]

end GoluaVerif.Proofs.Tbc
