/-
  Proofs.PatMatchBasic — equations for the leaf operations of Model.PatMatch when the
  budget is unlimited (`budget = 0`) and the position is inside the subject.
-/
import GoluaVerif.Model.PatMatch
namespace GoluaVerif.Model.PatMatch
open GoluaVerif.Model

theorem consumeBudget_zero (m : M) (h : m.budget = 0) : consumeBudget m = .ok m := by
  unfold consumeBudget; simp [h]

theorem consumeBudgetN_zero (m : M) (n : Nat) (h : m.budget = 0) : consumeBudgetN m n = .ok m := by
  unfold consumeBudgetN; simp [h]

theorem byteAt_nat (s : Subject) (p : Nat) : byteAt s (p : Int) =
    match s[p]? with
    | some b => .ok b
    | none => .error (.goPanic .subjIndex) := by
  unfold byteAt
  simp only [Int.natCast_nonneg, if_true, Int.toNat_natCast]
  split <;> simp_all

/-- the byte test of `matchNext` as a pure function of the position -/
def hit (s : Subject) (set : ByteSet) (p : Nat) : Bool :=
  match s[p]? with
  | some b => set.contains b
  | none => false

/-- the machine after consuming one byte -/
def adv (m : M) : M := { m with si := m.si + 1, consumed := m.consumed + 1 }

theorem matchNext_eq (s : Subject) (set : ByteSet) (m : M) (p : Nat) (hsi : m.si = p) (hb : m.budget = 0) :
    matchNext s set m = .ok (hit s set p, if hit s set p then adv m else m) := by
  unfold matchNext hit
  rw [hsi]
  by_cases hlt : p < s.size
  · have h1 : ((p : Int) < (s.size : Int)) := by omega
    simp only [h1, if_true]
    rw [byteAt_nat]
    have hs : s[p]? = some s[p] := by simp [hlt]
    simp only [hs]
    by_cases hc : set.contains s[p] = true
    · simp only [hc, if_true, bind, Except.bind]
      have : consumeBudget { m with si := (p : Int) + 1, consumed := m.consumed + 1 } =
          .ok { m with si := (p : Int) + 1, consumed := m.consumed + 1 } := consumeBudget_zero _ hb
      rw [this]
      simp [adv, hsi, pure, Except.pure]
    · simp only [hc, bind, Except.bind, pure, Except.pure]
      simp
  · have h1 : ¬ ((p : Int) < (s.size : Int)) := by omega
    have hs : s[p]? = none := by simp; omega
    simp only [h1, if_false, hs, pure, Except.pure]
    simp

theorem getNext_eq (s : Subject) (m : M) (p : Nat) (hsi : m.si = p) (hb : m.budget = 0) :
    getNext s m = .ok (s[p]?, if p < s.size then adv m else m) := by
  unfold getNext
  rw [hsi]
  by_cases hlt : p < s.size
  · have h1 : ((p : Int) < (s.size : Int)) := by omega
    simp only [h1, if_true, hlt]
    rw [byteAt_nat]
    have hs : s[p]? = some s[p] := by simp [hlt]
    simp only [hs, bind, Except.bind]
    have : consumeBudget { m with si := (p : Int) + 1, consumed := m.consumed + 1 } =
        .ok { m with si := (p : Int) + 1, consumed := m.consumed + 1 } := consumeBudget_zero _ hb
    rw [this]
    simp [adv, hsi, pure, Except.pure]
  · have h1 : ¬ ((p : Int) < (s.size : Int)) := by omega
    have hs : s[p]? = none := by simp; omega
    simp only [h1, if_false, hs, hlt, pure, Except.pure]

/-- length of the run of bytes in `set` starting at `p` -/
def runLenB (s : Subject) (set : ByteSet) (p : Nat) : Nat → Nat
  | 0 => 0
  | fuel + 1 => if hit s set p then runLenB s set (p + 1) fuel + 1 else 0

theorem runLenB_le (s : Subject) (set : ByteSet) (p fuel : Nat) : p + runLenB s set p fuel ≤ max p s.size := by
  induction fuel generalizing p with
  | zero => simp [runLenB]; omega
  | succ n ih =>
    unfold runLenB
    by_cases h : hit s set p = true
    · simp only [h, if_true]
      have := ih (p + 1)
      have hp : p < s.size := by
        unfold hit at h
        cases hs : s[p]? with
        | none => simp [hs] at h
        | some b =>
          have := Array.getElem?_eq_some_iff.mp hs
          obtain ⟨hh, _⟩ := this; exact hh
      omega
    · simp [h]; omega

/-- the machine after a greedy loop: position advanced by `k`, `consumed` by `k`, nothing else -/
def advN (m : M) (k : Nat) : M := { m with si := m.si + k, consumed := m.consumed + k }

theorem advN_zero (m : M) : advN m 0 = m := by simp [advN]

theorem adv_advN (m : M) (k : Nat) : advN (adv m) k = advN m (k + 1) := by
  simp only [advN, adv]
  congr 1
  · omega
  · omega

theorem hit_lt {s : Subject} {set : ByteSet} {p : Nat} (h : hit s set p = true) : p < s.size := by
  unfold hit at h
  cases hs : s[p]? with
  | none => simp [hs] at h
  | some b => exact (Array.getElem?_eq_some_iff.mp hs).1

theorem greedyLoop_eq (s : Subject) (set : ByteSet) (fuel : Nat) (m : M) (p : Nat) (hsi : m.si = p)
    (hb : m.budget = 0) (hp : p ≤ s.size) (hf : s.size + 1 ≤ fuel + p) :
    greedyLoop s set fuel m = .ok (advN m (runLenB s set p (s.size - p))) := by
  induction fuel generalizing m p with
  | zero => omega
  | succ n ih =>
    unfold greedyLoop
    rw [matchNext_eq s set m p hsi hb]
    simp only [bind, Except.bind]
    by_cases h : hit s set p = true
    · have hlt := hit_lt h
      simp only [h, if_true]
      have hsi' : (adv m).si = ((p + 1 : Nat) : Int) := by simp [adv, hsi]
      rw [ih (adv m) (p + 1) hsi' (by simp [adv, hb]) (by omega) (by omega)]
      rw [adv_advN]
      have : s.size - p = (s.size - (p + 1)) + 1 := by omega
      rw [this]
      simp [runLenB, h]
    · simp only [h, if_false, Bool.false_eq_true, pure, Except.pure]
      cases hsz : s.size - p with
      | zero => simp [runLenB, advN_zero]
      | succ k => simp [runLenB, h, advN_zero]

end GoluaVerif.Model.PatMatch
