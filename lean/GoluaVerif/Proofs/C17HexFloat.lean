/-
  Proofs.C17HexFloat — Lua 5.4's `%q` of a finite float (hexadecimal, `%a`-style, 13 fraction digits) reads back
  as exactly the same double.
-/
import GoluaVerif.Proofs.C17Num
namespace GoluaVerif.Spec.Quote
open GoluaVerif

theorem hexDigit_toNat (n : Nat) : (hexDigit n).toNat = if n % 16 < 10 then 48 + n % 16 else 87 + n % 16 := by
  unfold hexDigit
  have h16 : n % 16 < 16 := Nat.mod_lt _ (by omega)
  rw [UInt8.toNat_ofNat']
  split <;> omega

theorem hexVal_hexDigit (n : Nat) : hexVal (hexDigit n) = some (n % 16) := by
  unfold hexDigit hexVal
  have h16 : n % 16 < 16 := Nat.mod_lt _ (by omega)
  by_cases h : n % 16 < 10
  · simp only [h, if_true]
    rw [UInt8.toNat_ofNat']
    have : (48 + n % 16) % 2 ^ 8 = 48 + n % 16 := by omega
    simp only [this]
    have h1 : 48 ≤ 48 + n % 16 ∧ 48 + n % 16 ≤ 57 := by omega
    simp [h1]
  · simp only [h, if_false]
    rw [UInt8.toNat_ofNat']
    have : (87 + n % 16) % 2 ^ 8 = 87 + n % 16 := by omega
    simp only [this]
    have h1 : ¬ (48 ≤ 87 + n % 16 ∧ 87 + n % 16 ≤ 57) := by omega
    have h2 : 97 ≤ 87 + n % 16 ∧ 87 + n % 16 ≤ 102 := by omega
    simp [h1, h2]

theorem hexDigit_not (n : Nat) : hexDigit n ≠ 112 ∧ hexDigit n ≠ 80 ∧ hexDigit n ≠ 46 := by
  have h := hexDigit_toNat n
  have h16 : n % 16 < 16 := Nat.mod_lt _ (by omega)
  refine ⟨?_, ?_, ?_⟩ <;> (intro e; rw [e] at h; split at h <;> simp at h <;> omega)

theorem toHexF_mem (k x : Nat) : ∀ c ∈ toHexF k x, c ≠ 112 ∧ c ≠ 80 ∧ c ≠ 46 := by
  induction k generalizing x with
  | zero => simp [toHexF]
  | succ k ih =>
    intro c hc
    simp only [toHexF, List.mem_append, List.mem_singleton] at hc
    rcases hc with hc | hc
    · exact ih _ c hc
    · subst hc; exact hexDigit_not x

def hexStep (acc : Option Nat) (c : UInt8) : Option Nat :=
  match acc, hexVal c with
  | some a, some d => some (a * 16 + d)
  | _, _ => none

theorem ofHex_eq (s : Bytes) : ofHex s = s.foldl hexStep (some 0) := rfl

theorem foldl_toHexF (k x a : Nat) : (toHexF k x).foldl hexStep (some a) = some (a * 16 ^ k + x % 16 ^ k) := by
  induction k generalizing x a with
  | zero => simp [toHexF, Nat.mod_one]
  | succ k ih =>
    simp only [toHexF, List.foldl_append, ih, List.foldl_cons, List.foldl_nil, hexStep,
      hexVal_hexDigit]
    congr 1
    have h1 : x % 16 ^ (k + 1) = (x / 16 % 16 ^ k) * 16 + x % 16 := by
      rw [Nat.pow_succ, Nat.mul_comm, Nat.mod_mul]; omega
    rw [h1, Nat.pow_succ]
    simp only [Nat.add_mul, Nat.mul_assoc]
    omega

theorem splitAt_hit (p : UInt8 → Bool) (l : Bytes) (x : UInt8) (r : Bytes)
    (hl : ∀ c ∈ l, p c = false) (hx : p x = true) : splitAt p (l ++ x :: r) = (l, some r) := by
  induction l with
  | nil => simp [splitAt, hx]
  | cons c cs ih =>
    have hc := hl c (by simp)
    have := ih (fun y hy => hl y (by simp [hy]))
    simp [splitAt, hc, this]

/-- a representable magnitude with `log2 = k ≥ 52` is a multiple of `2^(k-52)` -/
theorem magOK_dvd (mag : Nat) (hok : F64.magOK mag = true) (hk : 52 ≤ Nat.log2 mag) :
    2 ^ (Nat.log2 mag - 52) ∣ mag := by
  simp only [F64.magOK, Bool.and_eq_true, beq_iff_eq, decide_eq_true_eq] at hok
  have hr := hok.1
  unfold F64.roundNat at hr
  by_cases h53 : mag < 2 ^ 53
  · have hm0 : mag ≠ 0 := by
      intro e; subst e; have : Nat.log2 0 = 0 := by decide
      omega
    have : Nat.log2 mag < 53 := (Nat.log2_lt hm0).mpr h53
    have : Nat.log2 mag - 52 = 0 := by omega
    rw [this]; simp
  · simp only [h53, if_false] at hr
    exact ⟨_, by rw [Nat.mul_comm]; exact hr.symm⟩

theorem roundNat_small (n : Nat) (h : n < 2 ^ 53) : F64.roundNat n = n := by
  simp [F64.roundNat, h]

/-- the fraction field printed by `quoteFloat` and what the reader computes from it -/
theorem dyadic_exact (mag : Nat) (hm : mag ≠ 0) (hok : F64.magOK mag = true) :
    (if Nat.log2 mag ≥ 52 then (mag - 2 ^ Nat.log2 mag) / 2 ^ (Nat.log2 mag - 52)
      else (mag - 2 ^ Nat.log2 mag) * 2 ^ (52 - Nat.log2 mag)) < 2 ^ 52 ∧
    dyadicToF64 (2 ^ 52 + (if Nat.log2 mag ≥ 52 then (mag - 2 ^ Nat.log2 mag) / 2 ^ (Nat.log2 mag - 52)
      else (mag - 2 ^ Nat.log2 mag) * 2 ^ (52 - Nat.log2 mag))) ((Nat.log2 mag : Int) - 1074 - 52) = .fin false mag := by
  have hlo := Nat.log2_self_le hm
  have hhi := @Nat.lt_log2_self mag
  have hrn : F64.roundNat mag = mag ∧ mag < 2 ^ (1024 + 1074) := by
    simpa [F64.magOK] using hok
  generalize hk : Nat.log2 mag = k at *
  by_cases h52 : k ≥ 52
  · simp only [h52, if_true]
    obtain ⟨q, hq⟩ : 2 ^ (k - 52) ∣ mag := by have := magOK_dvd mag hok (by omega); rwa [hk] at this
    have hpk : (2 : Nat) ^ k = 2 ^ 52 * 2 ^ (k - 52) := by rw [← Nat.pow_add]; congr 1; omega
    have hpos : 0 < (2 : Nat) ^ (k - 52) := Nat.two_pow_pos _
    have hq52 : 2 ^ 52 ≤ q := by
      have : 2 ^ 52 * 2 ^ (k - 52) ≤ 2 ^ (k - 52) * q := by rw [← hpk, ← hq]; exact hlo
      rw [Nat.mul_comm] at this
      exact Nat.le_of_mul_le_mul_left this hpos
    have hq53 : q < 2 ^ 53 := by
      have h1 : (2 : Nat) ^ (k + 1) = 2 ^ 53 * 2 ^ (k - 52) := by rw [← Nat.pow_add]; congr 1; omega
      have : 2 ^ (k - 52) * q < 2 ^ (k - 52) * 2 ^ 53 := by rw [← hq, Nat.mul_comm _ (2 ^ 53), ← h1]; exact hhi
      exact Nat.lt_of_mul_lt_mul_left this
    have hfrac : (mag - 2 ^ k) / 2 ^ (k - 52) = q - 2 ^ 52 := by
      rw [hq, hpk, Nat.mul_comm (2 ^ 52), ← Nat.mul_sub]
      exact Nat.mul_div_cancel_left _ hpos
    rw [hfrac]
    refine ⟨by omega, ?_⟩
    unfold dyadicToF64
    have hs : (k : Int) - 1074 - 52 + 1074 = ((k - 52 : Nat) : Int) := by omega
    simp only [hs]
    have hge : ((k - 52 : Nat) : Int) ≥ 0 := Int.natCast_nonneg _
    simp only [hge, if_true, Int.toNat_natCast]
    have hq' : 2 ^ 52 + (q - 2 ^ 52) = q := by omega
    have hn : (2 ^ 52 + (q - 2 ^ 52)) * 2 ^ (k - 52) = mag := by
      rw [hq', hq, Nat.mul_comm]
    rw [hn, hrn.1, if_pos hrn.2]
  · simp only [h52, if_false]
    have hk52 : k < 52 := by omega
    have hpt : (2 : Nat) ^ 52 = 2 ^ k * 2 ^ (52 - k) := by rw [← Nat.pow_add]; congr 1; omega
    have hpos : 0 < (2 : Nat) ^ (52 - k) := Nat.two_pow_pos _
    have hmag52 : mag < 2 ^ 52 := by
      have : (2 : Nat) ^ (k + 1) ≤ 2 ^ 52 := Nat.pow_le_pow_right (by omega) (by omega)
      omega
    have hm' : 2 ^ 52 + (mag - 2 ^ k) * 2 ^ (52 - k) = mag * 2 ^ (52 - k) := by
      rw [hpt, ← Nat.add_mul]; congr 1; omega
    refine ⟨?_, ?_⟩
    · have : (mag - 2 ^ k) * 2 ^ (52 - k) < 2 ^ k * 2 ^ (52 - k) :=
        Nat.mul_lt_mul_of_pos_right (by omega) hpos
      rw [hpt]; exact this
    · unfold dyadicToF64
      rw [hm']
      have hs : (k : Int) - 1074 - 52 + 1074 = -((52 - k : Nat) : Int) := by omega
      simp only [hs]
      have hneg : ¬ (-((52 - k : Nat) : Int) ≥ 0) := by
        have : (0 : Int) < ((52 - k : Nat) : Int) := by omega
        omega
      simp only [hneg, if_false, Int.neg_neg, Int.toNat_natCast]
      have hdiv : mag * 2 ^ (52 - k) / 2 ^ (52 - k) = mag := Nat.mul_div_cancel _ hpos
      have hmod : mag * 2 ^ (52 - k) % 2 ^ (52 - k) = 0 := Nat.mul_mod_left _ _
      have hhalf : 0 < (2 : Nat) ^ (52 - k - 1) := Nat.two_pow_pos _
      simp only [hdiv, hmod]
      have hc : ¬ (2 ^ (52 - k - 1) < 0 ∨ (0 = 2 ^ (52 - k - 1) ∧ mag % 2 = 1)) := by omega
      simp only [hc, if_false, Nat.add_zero]
      rw [roundNat_small mag (by omega), roundNat_small mag (by omega), if_pos hrn.2]

theorem evalNumLit_head (a : UInt8) (t : Bytes) (h40 : a ≠ 40) (h45 : a ≠ 45) :
    evalNumLit (a :: t) = evalUnsigned (a :: t) := by
  unfold evalNumLit
  have : ¬ (a :: t = [40, 48, 47, 48, 41]) := by
    intro e; injection e with e1 _; exact h40 e1
  simp only [this, if_false]
  split
  · rename_i r heq
    injection heq with e1 _
    exact absurd e1 h45
  · rfl

theorem signedDec_neg (a : Nat) (h : a < 2 ^ 64) : signedDec (45 :: toDec a) = some (-(a : Int)) := by
  obtain ⟨h1, h2, h3⟩ := toDec_spec a h
  have had : allDigits (toDec a) = true := by
    cases hh : toDec a with
    | nil => exact absurd hh h3
    | cons x t => rw [hh] at h2; simp [allDigits, h2]
  simp [signedDec, had, h1]

theorem signedDec_pos (a : Nat) (h : a < 2 ^ 64) : signedDec (43 :: toDec a) = some (a : Int) := by
  obtain ⟨h1, h2, h3⟩ := toDec_spec a h
  have had : allDigits (toDec a) = true := by
    cases hh : toDec a with
    | nil => exact absurd hh h3
    | cons x t => rw [hh] at h2; simp [allDigits, h2]
  simp [signedDec, had, h1]

theorem hf_split1 (frac : Nat) (ex : Bytes) : splitAt (fun c => c = 112 || c = 80) ([49, 46] ++ toHexF 13 frac ++ 112 :: ex) =
      ([49, 46] ++ toHexF 13 frac, some ex) := by
    apply splitAt_hit
    · intro c hc
      simp only [List.mem_append, List.mem_cons, List.mem_singleton, List.not_mem_nil, or_false] at hc
      rcases hc with (rfl | rfl) | hc
      · decide
      · decide
      · have := toHexF_mem 13 frac c hc; simp [this.1, this.2.1]
    · decide
theorem hf_split2 (frac : Nat) : splitAt (fun c => decide (c = 46)) ([49] ++ 46 :: toHexF 13 frac) = ([49], some (toHexF 13 frac)) := by
    apply splitAt_hit
    · intro c hc; simp at hc; subst hc; decide
    · decide
theorem hf_ofHex (frac : Nat) (hf : frac < 2 ^ 52) : ofHex ([49] ++ toHexF 13 frac) = some (2 ^ 52 + frac) := by
    rw [ofHex_eq, List.foldl_append]
    have : List.foldl hexStep (some 0) [49] = some 1 := by decide
    rw [this, foldl_toHexF]
    have h16 : (16 : Nat) ^ 13 = 2 ^ 52 := by decide
    rw [h16, Nat.mod_eq_of_lt hf, Nat.one_mul]
theorem evalUnsigned_hexfloat (frac : Nat) (hf : frac < 2 ^ 52) (ex : Bytes) (e : Int) (he : signedDec ex = some e) :
    evalUnsigned (48 :: 120 :: ([49, 46] ++ toHexF 13 frac ++ 112 :: ex)) =
      some (.flt (dyadicToF64 (2 ^ 52 + frac) (e - 52))) := by
  have hlen : (toHexF 13 frac).length = 13 := by
    have : ∀ k x, (toHexF k x).length = k := by
      intro k; induction k with
      | zero => intro x; rfl
      | succ k ih => intro x; simp [toHexF, ih]
    exact this 13 frac
  rw [evalUnsigned]
  simp only [true_or, if_true]
  rw [hf_split1]
  simp only
  have e2 : [49, 46] ++ toHexF 13 frac = [49] ++ 46 :: toHexF 13 frac := by simp
  rw [e2, hf_split2]
  simp only [Option.getD_some, hf_ofHex frac hf, he, hlen]
  have hc : ¬ (([49] : Bytes).isEmpty = true ∧ (toHexF 13 frac).isEmpty = true) := by simp
  simp only [hc, if_false]
  rfl

/-- **`%q` round trip for finite floats (Lua 5.4 definition: hexadecimal, exact)**: every representable double,
    normal or subnormal, either sign, both zeros -/
theorem evalNumLit_quoteFloat_fin (neg : Bool) (mag : Nat) (hok : F64.magOK mag = true) :
    evalNumLit (quoteFloat (.fin neg mag)) = some (.flt (.fin neg mag)) := by
  by_cases hm : mag = 0
  · subst hm
    cases neg <;> decide +kernel
  · obtain ⟨hfrac, hdy⟩ := dyadic_exact mag hm hok
    have hklt : Nat.log2 mag < 2100 := by
      have h1 : mag < 2 ^ (1024 + 1074) := by
        have h0 := hok
        simp only [F64.magOK, Bool.and_eq_true, decide_eq_true_eq] at h0
        exact h0.2
      exact (Nat.log2_lt hm).mpr (Nat.lt_trans h1 (Nat.pow_lt_pow_right (by omega) (by omega)))
    have hab : ((Nat.log2 mag : Int) - 1074).natAbs < 2 ^ 64 := by
      have : ((Nat.log2 mag : Int) - 1074).natAbs < 5000 := by omega
      exact Nat.lt_trans this (by decide)
    unfold quoteFloat
    simp only [hm, if_false]
    generalize hfr : (if Nat.log2 mag ≥ 52 then (mag - 2 ^ Nat.log2 mag) / 2 ^ (Nat.log2 mag - 52)
      else (mag - 2 ^ Nat.log2 mag) * 2 ^ (52 - Nat.log2 mag)) = frac at hfrac hdy ⊢
    have hsd : signedDec (if ((Nat.log2 mag : Int) - 1074) < 0 then 45 :: toDec ((Nat.log2 mag : Int) - 1074).natAbs
        else 43 :: toDec ((Nat.log2 mag : Int) - 1074).natAbs) = some ((Nat.log2 mag : Int) - 1074) := by
      split
      · rename_i hlt
        have : -((((Nat.log2 mag : Int) - 1074).natAbs : Nat) : Int) = (Nat.log2 mag : Int) - 1074 := by omega
        rw [signedDec_neg _ hab, this]
      · rename_i hlt
        have : ((((Nat.log2 mag : Int) - 1074).natAbs : Nat) : Int) = (Nat.log2 mag : Int) - 1074 := by omega
        rw [signedDec_pos _ hab, this]
    have hbody := evalUnsigned_hexfloat frac hfrac _ _ hsd
    rw [hdy] at hbody
    cases neg with
    | false =>
      simp only [Bool.false_eq_true, if_false, List.nil_append, List.cons_append, List.append_assoc] at hbody ⊢
      rw [evalNumLit_head _ _ (by decide) (by decide)]
      exact hbody
    | true =>
      simp only [if_true, List.cons_append, List.nil_append, List.append_assoc] at hbody ⊢
      rw [evalNumLit_neg_digits, hbody]
      rfl

end GoluaVerif.Spec.Quote
