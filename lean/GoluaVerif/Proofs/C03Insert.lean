/-
  Proofs.C03Insert — inserting a new key into the hash part: `updateNextFree`, the linear mode of
  `insertNewKeyValue`, and (as a stated obligation, `HashedInsertOK`) its three hashed-mode cases.
-/
import GoluaVerif.Proofs.C03Mixed
import Init.Data.List.Nat.Count
namespace GoluaVerif.Model.Table
open GoluaVerif.Spec (Key Val Map)

/-! ### updateNextFree -/

theorem updateNextFreeFrom_spec (slots : List Slot) (n : Nat) (hn : n < slots.length) :
    ∃ r, updateNextFreeFrom slots n = some r ∧
      (r = none → ∀ j (h : j < slots.length), j ≤ n → slots[j].key ≠ none) ∧
      (∀ f, r = some f → ∃ (h : f < slots.length), f ≤ n ∧ slots[f].key = none ∧
        ∀ j (h : j < slots.length), f < j → j ≤ n → slots[j].key ≠ none) := by
  induction n with
  | zero =>
    simp only [updateNextFreeFrom, List.getElem?_eq_getElem hn, Option.bind_eq_bind, Option.bind_some]
    cases hk : slots[0].key with
    | none =>
      refine ⟨some 0, by simp, by simp, ?_⟩
      intro f hf; cases hf
      exact ⟨hn, Nat.le_refl _, hk, fun j h h1 h2 => by omega⟩
    | some k =>
      refine ⟨none, by simp, ?_, by simp⟩
      intro _ j h hj
      have : j = 0 := by omega
      subst this; simp [hk]
  | succ n ih =>
    simp only [updateNextFreeFrom, List.getElem?_eq_getElem hn, Option.bind_eq_bind, Option.bind_some]
    cases hk : slots[n + 1].key with
    | none =>
      refine ⟨some (n + 1), by simp, by simp, ?_⟩
      intro f hf; cases hf
      exact ⟨hn, Nat.le_refl _, hk, fun j h h1 h2 => by omega⟩
    | some k =>
      obtain ⟨r, e, h1, h2⟩ := ih (by omega)
      refine ⟨r, by simp [e], ?_, ?_⟩
      · intro hr j h hj
        by_cases ej : j = n + 1
        · subst ej; simp [hk]
        · exact h1 hr j h (by omega)
      · intro f hf
        obtain ⟨h, hle, hke, hab⟩ := h2 f hf
        refine ⟨h, by omega, hke, ?_⟩
        intro j hj hfj hjn
        by_cases ej : j = n + 1
        · subst ej; simp [hk]
        · exact hab j hj hfj (by omega)

/-- after slot `nf` (the old `nextFree`) has been filled, `updateNextFree` re-establishes
    "`nextFree` is the highest empty slot" -/
theorem updateNextFree_ok (slots : List Slot) (nf : Nat) (hnf : nf < slots.length)
    (habove : ∀ j (h : j < slots.length), nf < j → slots[j].key ≠ none) :
    ∃ r, updateNextFree slots (some nf) = some r ∧ NextFreeOk slots r := by
  obtain ⟨r, e, h1, h2⟩ := updateNextFreeFrom_spec slots nf hnf
  refine ⟨r, e, ?_⟩
  cases r with
  | none =>
    intro j hj
    by_cases hle : j ≤ nf
    · exact h1 rfl j hj hle
    · exact habove j hj (by omega)
  | some f =>
    obtain ⟨h, hle, hke, hab⟩ := h2 f rfl
    refine ⟨h, hke, ?_⟩
    intro j hj hfj
    by_cases hle : j ≤ nf
    · exact hab j hj hfj hle
    · exact habove j hj (by omega)

/-! ### filling an empty slot -/

/-- the part of `HashInv` that does not concern chains or `nextFree` -/
structure KeysInv (slots : List Slot) (asize : Nat) : Prop where
  empty_zero : ∀ j (h : j < slots.length), slots[j].key = none → slots[j] = Slot.zero
  nodup : NoDup slots
  disjoint : ∀ j (h : j < slots.length) (z : Int), slots[j].key = some (.int z) → ¬ (1 ≤ z ∧ z ≤ (asize : Int))
  normal : ∀ j (h : j < slots.length) k, slots[j].key = some k → k.norm = k

theorem HashInv.keysInv {hash : Key → Nat} {t : HashTable} {asize : Nat} (inv : HashInv hash t asize) :
    KeysInv t.slots asize := ⟨inv.empty_zero, inv.nodup, inv.disjoint, inv.normal⟩

/-- conditions on a key that is about to be stored in the hash part -/
structure NewKeyOK (slots : List Slot) (asize : Nat) (kk : Key) : Prop where
  absent : ∀ i (h : i < slots.length), slots[i].key ≠ some kk
  normal : kk.norm = kk
  disjoint : ∀ z : Int, kk = .int z → ¬ (1 ≤ z ∧ z ≤ (asize : Int))

theorem keysInv_set_empty (slots : List Slot) (asize : Nat) (ki : KeysInv slots asize) (p : Nat) (hp : p < slots.length)
    (kk : Key) (nk : NewKeyOK slots asize kk) (it : Slot) (hit : it.key = some kk) :
    KeysInv (slots.set p it) asize ∧
    (∀ k', hashLookup (slots.set p it) k' = if k' = kk then it.val else
      (if slots[p].key = some k' then none else hashLookup slots k')) := by
  have hl : (slots.set p it).length = slots.length := List.length_set
  have ge : ∀ j (hj : j < (slots.set p it).length), (slots.set p it)[j] = if p = j then it else slots[j]'(hl ▸ hj) := by
    intro j hj; rw [List.getElem_set]
  have nd' : NoDup (slots.set p it) := by
    intro a ha b hb h1 h2
    rw [ge] at h1 h2; rw [ge] at h2
    by_cases ea : p = a <;> by_cases eb : p = b
    · omega
    · subst ea
      simp only [if_true, eb, if_false, hit] at h2
      exact absurd h2.symm (nk.absent b (hl ▸ hb))
    · subst eb
      simp only [if_true, ea, if_false, hit] at h2
      exact absurd h2 (nk.absent a (hl ▸ ha))
    · simp only [ea, eb, if_false] at h1 h2
      exact ki.nodup a (hl ▸ ha) b (hl ▸ hb) h1 h2
  refine ⟨⟨?_, nd', ?_, ?_⟩, ?_⟩
  · intro j hj hk
    rw [ge] at hk ⊢
    by_cases e : p = j
    · simp [e, hit] at hk
    · simp only [e, if_false] at hk ⊢
      exact ki.empty_zero j (hl ▸ hj) hk
  · intro j hj z hz
    rw [ge] at hz
    by_cases e : p = j
    · simp only [e, if_true, hit, Option.some.injEq] at hz
      exact nk.disjoint z hz
    · simp only [e, if_false] at hz
      exact ki.disjoint j (hl ▸ hj) z hz
  · intro j hj k hk
    rw [ge] at hk
    by_cases e : p = j
    · simp only [e, if_true, hit, Option.some.injEq] at hk
      rw [← hk]; exact nk.normal
    · simp only [e, if_false] at hk
      exact ki.normal j (hl ▸ hj) k hk
  · intro k'
    by_cases e : k' = kk
    · subst e
      rw [hashLookup_found _ nd' p (hl ▸ hp) k' (by rw [ge]; simp [hit])]
      rw [ge]; simp
    · simp only [e, if_false]
      by_cases hex : ∃ j, ∃ (hj : j < slots.length), slots[j].key = some k'
      · obtain ⟨j, hj, hkj⟩ := hex
        by_cases epj : p = j
        · subst epj
          simp only [hkj, if_true]
          apply hashLookup_absent
          intro a ha hka
          rw [ge] at hka
          by_cases epa : p = a
          · simp only [epa, if_true, hit, Option.some.injEq] at hka; exact e hka.symm
          · simp only [epa, if_false] at hka
            have := ki.nodup p hp a (hl ▸ ha) (by simp [hkj]) (by rw [hkj, hka])
            exact epa this
        · have hne : ¬ slots[p].key = some k' := by
            intro hh
            exact epj (ki.nodup p hp j hj (by simp [hh]) (by rw [hh, hkj]))
          simp only [hne, if_false]
          rw [hashLookup_found _ nd' j (hl ▸ hj) k' (by rw [ge]; simp [epj, hkj]),
            hashLookup_found _ ki.nodup j hj k' hkj]
          rw [ge]; simp [epj]
      · have habs : ∀ j (hj : j < slots.length), slots[j].key ≠ some k' := fun j hj h => hex ⟨j, hj, h⟩
        have hne : ¬ slots[p].key = some k' := habs p hp
        simp only [hne, if_false]
        rw [hashLookup_absent _ _ habs, hashLookup_absent]
        intro j hj
        rw [ge]
        by_cases epj : p = j
        · simp only [epj, if_true, hit]; intro hh; exact e (Option.some.inj hh).symm
        · simp only [epj, if_false]; exact habs j (hl ▸ hj)

theorem cnt_set_empty (slots : List Slot) (p : Nat) (hp : p < slots.length) (hk : slots[p].key = none)
    (it : Slot) (hit : it.key.isSome = true) : cnt (slots.set p it) = cnt slots + 1 := by
  unfold cnt
  rw [List.countP_set hp]
  simp [hk, hit]

/-! ### insertNewKeyValue -/

/-- some slot holds the key (live or as a tombstone) -/
def HasKey (slots : List Slot) (k : Key) : Prop := ∃ i, ∃ (h : i < slots.length), slots[i].key = some k

theorem hasKey_set_empty (slots : List Slot) (p : Nat) (hp : p < slots.length) (hk : slots[p].key = none)
    (it : Slot) (kk : Key) (hit : it.key = some kk) (k' : Key) :
    HasKey (slots.set p it) k' ↔ k' = kk ∨ HasKey slots k' := by
  have hl : (slots.set p it).length = slots.length := List.length_set
  constructor
  · rintro ⟨i, hi, hki⟩
    rw [List.getElem_set] at hki
    by_cases e : p = i
    · simp only [e, if_true, hit, Option.some.injEq] at hki; exact Or.inl hki.symm
    · simp only [e, if_false] at hki; exact Or.inr ⟨i, hl ▸ hi, hki⟩
  · rintro (e | ⟨i, hi, hki⟩)
    · subst e; exact ⟨p, hl ▸ hp, by rw [List.getElem_set]; simp [hit]⟩
    · have : ¬ p = i := by intro e; subst e; rw [hk] at hki; simp at hki
      exact ⟨i, hl ▸ hi, by rw [List.getElem_set]; simp [this, hki]⟩

section
variable (hash : Key → Nat)

/-- what inserting a new key into the hash part has to achieve -/
def InsertNewResult (t : HashTable) (asize : Nat) (kk : Key) (v : Val) : Prop :=
  ∃ s upd nf', insertNew hash t.slots t.mask kk v t.nextFree = some (s, upd) ∧
    (if upd then updateNextFree s t.nextFree else some t.nextFree) = some nf' ∧
    HashInv hash ⟨s, nf', t.base⟩ asize ∧
    (∀ k', hashLookup s k' = if k' = kk then some v else hashLookup t.slots k') ∧
    cnt s = cnt t.slots + 1 ∧ (∀ k', HasKey s k' ↔ k' = kk ∨ HasKey t.slots k')

/-- the obligation left to the three hashed-mode cases of `insertNewKeyValue` (empty primary slot,
    occupant chained, occupant in its primary slot): they preserve `HashInv`, in particular `ChainInv` -/
def HashedInsertOK : Prop :=
  ∀ (t : HashTable) (asize : Nat) (kk : Key) (v : Val), HashInv hash t asize → smallHashTableSize ≤ t.mask →
    NewKeyOK t.slots asize kk → t.nextFree ≠ none → InsertNewResult hash t asize kk v

theorem insertNew_small (t : HashTable) (asize : Nat) (kk : Key) (v : Val) (inv : HashInv hash t asize)
    (hsm : t.mask < smallHashTableSize) (nk : NewKeyOK t.slots asize kk) (hnf : t.nextFree ≠ none) :
    InsertNewResult hash t asize kk v := by
  cases hn : t.nextFree with
  | none => exact absurd hn hnf
  | some nf =>
    have nfo := inv.next_free
    rw [hn] at nfo
    obtain ⟨hlt, hempty, habove⟩ := nfo
    let it : Slot := ⟨some kk, some v, 0, false, false⟩
    obtain ⟨ki', hlook⟩ := keysInv_set_empty t.slots asize inv.keysInv nf hlt kk nk it rfl
    have hl : (t.slots.set nf it).length = t.slots.length := List.length_set
    have habove' : ∀ j (h : j < (t.slots.set nf it).length), nf < j → (t.slots.set nf it)[j].key ≠ none := by
      intro j hj hlt'
      rw [List.getElem_set]
      have : ¬ nf = j := by omega
      simp only [this, if_false]
      exact habove j (hl ▸ hj) hlt'
    obtain ⟨r, er, hr⟩ := updateNextFree_ok (t.slots.set nf it) nf (hl ▸ hlt) habove'
    refine ⟨t.slots.set nf it, true, r, ?_, by rw [hn]; simpa using er, ?_, ?_, cnt_set_empty _ _ hlt hempty it rfl,
      hasKey_set_empty _ _ hlt hempty it kk rfl⟩
    · simp [insertNew, hsm, setAt, hlt, it, hn]
    · refine ⟨by rw [hl]; exact inv.size, hr, ki'.empty_zero, ki'.nodup, ki'.disjoint, ki'.normal, ?_⟩
      intro hm
      have : t.mask = (HashTable.mk (t.slots.set nf it) r t.base).mask := rfl
      omega
    · intro k'
      rw [hlook k']
      simp [hempty, it]

/-- `insertNewKeyValue` in both modes, given the hashed-mode obligation -/
theorem insertNew_ok (hins : HashedInsertOK hash) (t : HashTable) (asize : Nat) (kk : Key) (v : Val)
    (inv : HashInv hash t asize) (nk : NewKeyOK t.slots asize kk) (hnf : t.nextFree ≠ none) :
    InsertNewResult hash t asize kk v := by
  by_cases hsm : t.mask < smallHashTableSize
  · exact insertNew_small hash t asize kk v inv hsm nk hnf
  · exact hins t asize kk v inv (Nat.le_of_not_lt hsm) nk hnf

end

section
variable (hash : Key → Nat)

theorem nextFree_some_of_cnt_lt (t : HashTable) (asize : Nat) (inv : HashInv hash t asize)
    (h : cnt t.slots < t.slots.length) : t.nextFree ≠ none := by
  intro hn
  have nfo := inv.next_free
  rw [hn] at nfo
  have : cnt t.slots = t.slots.length := by
    unfold cnt
    rw [List.countP_eq_length]
    intro s hs
    obtain ⟨i, hi, e⟩ := List.getElem_of_mem hs
    have := nfo i hi
    rw [e] at this
    cases hk : s.key with
    | none => exact absurd hk this
    | some k => rfl
  omega

/-- `hashTable.set` -/
theorem hSet_spec (hins : HashedInsertOK hash) (t : HashTable) (asize : Nat) (inv : HashInv hash t asize)
    (kk : Key) (v : Val) (hnorm : kk.norm = kk) (hdisj : ∀ z : Int, kk = .int z → ¬ (1 ≤ z ∧ z ≤ (asize : Int)))
    (hcap : ¬ HasKey t.slots kk → t.nextFree ≠ none) :
    ∃ t', hSet hash t kk v = some t' ∧ HashInv hash t' asize ∧ t'.base = t.base ∧
      (∀ k', hashLookup t'.slots k' = if k' = kk then some v else hashLookup t.slots k') := by
  obtain ⟨r, hr, h1, h2⟩ := findSlot_spec hash t asize inv kk
  cases r with
  | some i =>
    obtain ⟨hi, hk⟩ := h1 i rfl
    refine ⟨{ t with slots := setVal t.slots i hi (some v) }, ?_, ?_, rfl, ?_⟩
    · simp [hSet, setKeyValue, hr, setAt, hi, setVal]
    · exact hashInv_setVal hash t asize inv i hi (by simp [hk]) (some v)
    · exact hashLookup_setVal t.slots inv.nodup i hi kk hk (some v)
  | none =>
    have habs := h2 rfl
    have nk : NewKeyOK t.slots asize kk := ⟨habs, hnorm, hdisj⟩
    have hnf := hcap (fun ⟨i, hi, hk⟩ => habs i hi hk)
    obtain ⟨s, upd, nf', e1, e2, hinv, hlook, _, _⟩ := insertNew_ok hash hins t asize kk v inv nk hnf
    refine ⟨⟨s, nf', t.base⟩, ?_, hinv, rfl, hlook⟩
    simp only [hSet, setKeyValue, hr, Option.bind_eq_bind, Option.bind_some, e1]
    cases upd with
    | true => simp only [if_true] at e2 ⊢; simp [e2]
    | false =>
      simp only [Bool.false_eq_true, if_false, Option.some.injEq] at e2 ⊢
      simp [e2]

end

end GoluaVerif.Model.Table
