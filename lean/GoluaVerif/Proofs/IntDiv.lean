/-
  Proofs.IntDiv — lemmas relating Go's truncating `/ %` (Int.tdiv / Int.tmod) to the
  floor division and modulo the Lua manual prescribes (Int.fdiv / Int.fmod).
-/
namespace GoluaVerif.Proofs

theorem fmod_of_tmod (a b : Int) (hb : b ≠ 0) :
    Int.fmod a b = if a.tmod b ≠ 0 ∧ (decide (a.tmod b < 0) != decide (b < 0)) = true then a.tmod b + b else a.tmod b := by
  rw [Int.fmod_eq_emod, Int.tmod_eq_emod]
  have hd : b ∣ a ↔ a % b = 0 := Int.dvd_iff_emod_eq_zero
  have h0 := Int.emod_nonneg a hb
  have h1 := Int.emod_lt a hb
  by_cases hdv : b ∣ a
  · have := hd.mp hdv
    simp [hdv, this]
  · have hne : a % b ≠ 0 := fun h => hdv (hd.mpr h)
    simp only [hdv, or_false]
    by_cases ha : 0 ≤ a <;> by_cases hbp : 0 ≤ b <;> simp [ha, hbp] <;> (try split) <;> omega

theorem fdiv_of_tdiv (a b : Int) (hb : b ≠ 0) :
    Int.fdiv a b = if a.tmod b ≠ 0 ∧ (decide (a.tmod b < 0) != decide (b < 0)) = true then a.tdiv b - 1 else a.tdiv b := by
  have h1 := Int.tmod_add_mul_tdiv a b
  have h2 := Int.fmod_add_mul_fdiv a b
  have h3 := fmod_of_tmod a b hb
  split at h3 <;> rename_i hc
  · rw [if_pos hc]
    have : b * a.fdiv b = b * (a.tdiv b - 1) := by rw [Int.mul_sub]; omega
    exact Int.eq_of_mul_eq_mul_left hb this
  · rw [if_neg hc]
    have : b * a.fdiv b = b * (a.tdiv b) := by omega
    exact Int.eq_of_mul_eq_mul_left hb this

theorem ne_zero_iff_toInt (r : BitVec 64) : (r != 0#64) = true ↔ r.toInt ≠ 0 := by
  constructor
  · intro h hz
    have : r = 0#64 := BitVec.eq_of_toInt_eq (by simpa using hz)
    simp [this] at h
  · intro h
    simp only [bne_iff_ne, ne_eq]
    intro hz; apply h; simp [hz]

theorem tmod_bounds (a b : Int) (hb : b ≠ 0) :
    -(b.natAbs : Int) < a.tmod b ∧ a.tmod b < (b.natAbs : Int) := by
  rw [Int.tmod_eq_emod]
  have h0 := Int.emod_nonneg a hb
  have h1 := Int.emod_lt a hb
  have hd : b ∣ a ↔ a % b = 0 := Int.dvd_iff_emod_eq_zero
  by_cases hc : 0 ≤ a ∨ b ∣ a
  · simp only [hc, if_true]; omega
  · simp only [hc, if_false]
    have : a % b ≠ 0 := fun h => hc (Or.inr (hd.mpr h))
    omega


end GoluaVerif.Proofs
