/-
  Proofs.PatRefineTop — from the simulation (`sim`) to the entry points:
  `matchToEnd`, the start-position loop `find`, `MatchFromStart` / `Match`, for patterns without captures.
-/
import GoluaVerif.Proofs.PatRefine
namespace GoluaVerif.Model.PatMatch
open GoluaVerif.Model GoluaVerif.Spec

variable (P : Pattern) (s : Subject)

/-- the machine invariants the entry points preserve between start positions -/
def Clean (m : M) : Prop := m.caps.size = 10 ∧ m.budget = 0

theorem step_final {m' : M} {e : Nat} (hf : Final P s m' e) (hsz : m'.caps.size = 10) :
    ∃ mf, step P s m' = .ok (.matched, mf) ∧ mf.budget = 0 ∧
      mf.caps = m'.caps.setIfInBounds 0 { (m'.caps[0]?).getD ⟨0, 0⟩ with stop := e } := by
  obtain ⟨hpi, hsi, he, hE, hb⟩ := hf
  unfold step
  have hc : consumeBudget { m' with steps := m'.steps + 1 } = .ok (tick m') := consumeBudget_zero _ hb
  simp only [hc, bind, Except.bind]
  have h1 : ¬ ((tick m').pi < P.items.size) := by rw [tick_pi]; omega
  have h2 : ¬ ((tick m').si = -1) := by rw [tick_si]; omega
  have h3 : (!P.endAnchor || decide ((tick m').si = (s.size : Int))) = true := by
    cases hEA : P.endAnchor with
    | false => simp
    | true => have := hE hEA; simp [tick_si, hsi, this]
  simp only [h1, dite_false, h2, if_false, h3, if_true]
  have hc0 : (tick m').caps[0]? = some m'.caps[0] := by simp [tick_caps, hsz]
  have hsz' : (tick m').caps.size = 10 := by rw [tick_caps]; exact hsz
  simp only [capAt, capSet, hc0, hsz', pure, Except.pure]
  refine ⟨_, rfl, by simp [tick_budget, hb], ?_⟩
  simp [tick_caps, tick_si, hsi, hsz]

theorem step_failed {m : M} (hpi : m.pi = P.items.size) (hsi : m.si = -1) (hb : m.budget = 0) :
    step P s m = .ok (.failed, tick m) := by
  unfold step
  have hc : consumeBudget { m with steps := m.steps + 1 } = .ok (tick m) := consumeBudget_zero _ hb
  simp only [hc, bind, Except.bind]
  have h1 : ¬ ((tick m).pi < P.items.size) := by rw [tick_pi]; omega
  simp only [h1, dite_false, tick_si, hsi, if_true, pure, Except.pure]

theorem run_matched {m mf : M} (h : step P s m = .ok (.matched, mf)) (fuel : Nat) :
    run P s (fuel + 1) m = .ok (true, mf) := by
  rw [run_succ, h]; rfl

theorem run_failed {m mf : M} (h : step P s m = .ok (.failed, mf)) (fuel : Nat) :
    run P s (fuel + 1) m = .ok (false, mf) := by
  rw [run_succ, h]; rfl

/-- from an `Outcome` on an empty stack to the result of `run` -/
theorem run_of_outcome {A : Array Capture → Prop} {Z : Array Capture → LuaPattern.Caps → Prop}
    (hAsz : ∀ C, A C → C.size = 10) (hZsz : ∀ C c, Z C c → C.size = 10)
    (m1 : M) (r : SR) (ho : Outcome P s A Z m1 [] r) :
    ∃ N mf, mf.budget = 0 ∧ mf.caps.size = 10 ∧
      (∀ fuel, N ≤ fuel → run P s fuel m1 = .ok (r.isSome, mf)) ∧
      (∀ e c, r = some (e, c) → ∃ C, Z C c ∧ mf.caps = C.setIfInBounds 0 { (C[0]?).getD ⟨0, 0⟩ with stop := e }) := by
  cases r with
  | some v =>
    obtain ⟨e, c⟩ := v
    obtain ⟨m', ⟨n, hn⟩, hf, hz⟩ := ho
    have hsz := hZsz _ _ hz
    obtain ⟨mf, hst, hb, hc⟩ := step_final P s hf hsz
    refine ⟨n + 1, mf, hb, by rw [hc]; simp [hsz], ?_, ?_⟩
    · intro fuel hle
      obtain ⟨k, rfl⟩ : ∃ k, fuel = k + 1 + n := ⟨fuel - (n + 1), by omega⟩
      rw [hn, run_matched P s hst]; rfl
    · intro e' c' heq
      injection heq with heq
      injection heq with h1 h2
      subst h1; subst h2
      exact ⟨m'.caps, hz, hc⟩
  | none =>
    obtain ⟨m'', ⟨n, hn⟩, htbs, hA, hb⟩ := ho
    have h0 : trackback P.items.size m'' = { m'' with pi := P.items.size, si := -1 } := by
      unfold trackback; rw [htbs]
    have hst := step_failed P s (m := trackback P.items.size m'') (by rw [h0]) (by rw [h0]) (by rw [trackback_budget]; exact hb)
    refine ⟨n + 1, tick (trackback P.items.size m''), by simp [tick_budget, trackback_budget, hb],
      by rw [tick_caps, trackback_caps]; exact hAsz _ hA, ?_, ?_⟩
    · intro fuel hle
      obtain ⟨k, rfl⟩ : ∃ k, fuel = k + 1 + n := ⟨fuel - (n + 1), by omega⟩
      rw [hn, run_failed P s hst]; rfl
    · intro e c heq; cases heq

/-- the first line of `matchToEnd`: `m.captures[0].start = m.si` -/
def withStart (m : M) : M :=
  { m with caps := m.caps.setIfInBounds 0 { (m.caps[0]?).getD ⟨0, 0⟩ with start := m.si } }

theorem matchToEnd_eq (m : M) (hsz : m.caps.size = 10) (fuel : Nat) :
    matchToEnd P s fuel m = (run P s fuel (withStart m)).bind fun v =>
      if v.1 = true then
        if P.captureCount + 1 ≤ v.2.caps.size then .ok (some (v.2.caps.toList.take (P.captureCount + 1)), v.2)
        else .error (.goPanic .capSlice)
      else .ok (none, v.2) := by
  have hc0 : m.caps[0]? = some m.caps[0] := by simp [hsz]
  unfold matchToEnd withStart
  simp only [capAt, capSet, hc0, bind, Except.bind, hsz]
  have : (10 : Nat) > 0 := by omega
  simp only [this, if_true, Option.getD]
  rfl

/-- a Spec capture as the machine's `Capture{start, end}` -/
def capOf : LuaPattern.Cap → Capture
  | .closed a b => ⟨a, b⟩
  | .position p => ⟨p, -1⟩
  | .opened a => ⟨a, -1⟩
  | .unset => ⟨0, 0⟩

/-- a Spec match as the slice `captures[:captureCount+1]` the Go API returns -/
def toCaptures (r : LuaPattern.MatchRes) : List Capture := ⟨r.start, r.stop⟩ :: r.caps.map capOf

/-- every capture 1..ncap is closed (or a position capture) after all items -/
def AllClosed (sh : Shapes) (ncap : Nat) : Prop := ∀ n, 1 ≤ n → n ≤ ncap → sh n = .closed ∨ sh n = .position

/-- the hypotheses that tie a built `Pattern` to a parsed `Pat` -/
structure PatRel (pat : LuaPattern.Pat) : Prop where
  rel : Rel P pat.items 0
  wf : WFfrom (fun _ => Shape.unset) pat.items
  allClosed : AllClosed (shapeAfter (fun _ => Shape.unset) pat.items) pat.ncap
  ncap : P.captureCount = pat.ncap
  ncap_le : pat.ncap ≤ 9
  anchorEnd : pat.anchorEnd = P.endAnchor
  anchorStart : pat.anchorStart = P.startAnchor

theorem reset_clean {m : M} (h : Clean m) (q : Int) : Clean (reset m q) := h

/-- the slice `captures[:ncap+1]` of the final machine is the Spec's match -/
theorem final_captures {sh : Shapes} {q e lo ncap : Nat} {C : Array Capture} {caps' : LuaPattern.Caps}
    (hag : Agree s sh (q : Int) lo C caps') (hall : AllClosed sh ncap) (hn9 : ncap ≤ 9) :
    (C.setIfInBounds 0 { (C[0]?).getD ⟨0, 0⟩ with stop := (e : Int) }).toList.take (ncap + 1) =
      toCaptures { start := q, stop := e, caps := (caps'.drop 1).take ncap } := by
  obtain ⟨h1, h2, ⟨c0, hc0, hst⟩, h4⟩ := hag
  apply List.ext_getElem?
  intro i
  unfold toCaptures
  rw [List.getElem?_take]
  by_cases hi : i < ncap + 1
  · simp only [hi, if_true]
    cases i with
    | zero =>
      have hC0 : C[0] = c0 := by
        have := (Array.getElem?_eq_some_iff.mp hc0).2; exact this
      simp [h1]
      rw [hC0, hst]
    | succ k =>
      have hk : k < ncap := by omega
      have hk10 : k + 1 < 10 := by omega
      have hC : (C.setIfInBounds 0 { (C[0]?).getD ⟨0, 0⟩ with stop := (e : Int) }).toList[k + 1]? = C[k + 1]? := by
        simp [Array.getElem?_setIfInBounds]
      rw [hC]
      simp only [List.getElem?_cons_succ, List.getElem?_map, List.getElem?_take, hk, if_true, List.getElem?_drop]
      have e1 : 1 + k = k + 1 := by omega
      rw [e1]
      have := h4 (k + 1) (by omega) hk10
      rcases hall (k + 1) (by omega) (by omega) with hs | hs
      · rw [hs] at this
        obtain ⟨a, b, x1, x2, _, _⟩ := this
        rw [x1, x2]; rfl
      · rw [hs] at this
        obtain ⟨a, x1, x2⟩ := this
        rw [x1, x2]; rfl
  · simp only [hi, if_false]
    have : ncap + 1 ≤ i := by omega
    cases i with
    | zero => omega
    | succ k =>
      simp only [List.getElem?_cons_succ, List.getElem?_map, List.getElem?_take]
      have : ¬ (k < ncap) := by omega
      simp [this]

/-- `matchToEnd` at start position `q` computes what the Spec's anchored `matchAt` computes at `q` -/
theorem matchToEnd_spec (pat : LuaPattern.Pat) (hp : PatRel P pat) (m : M) (hm : Clean m) (q : Nat) (hq : q ≤ s.size)
    (htbs : m.tbs = []) (hpi : m.pi = 0) (hsi : m.si = q) :
    ∃ N mf, Clean mf ∧ ∀ fuel, N ≤ fuel →
      matchToEnd P s fuel m = .ok ((LuaPattern.matchAt pat s q).map toCaptures, mf) := by
  obtain ⟨hsz, hb⟩ := hm
  have hsz1 : (withStart m).caps.size = 10 := by simp [withStart, hsz]
  have hA0 : Agree s (fun _ => Shape.unset) (q : Int) q (withStart m).caps LuaPattern.Caps.init := by
    refine ⟨hsz1, by simp [LuaPattern.Caps.init, LuaPattern.maxCaptures], ?_, fun n _ _ => trivial⟩
    refine ⟨{ (m.caps[0]?).getD ⟨0, 0⟩ with start := m.si }, by simp [withStart, hsz], hsi⟩
  have ho : Outcome P s _ _ (withStart m) (withStart m).tbs
      (LuaPattern.matchItems s P.endAnchor pat.items q LuaPattern.Caps.init) :=
    sim P s (q : Int) pat.items 0 (fun _ => Shape.unset) hp.rel hp.wf LuaPattern.Caps.init q (withStart m) q hpi hsi
      (Nat.le_refl q) hq hb hA0
  have htbs1 : (withStart m).tbs = [] := htbs
  rw [htbs1] at ho
  obtain ⟨N, mf, hbf, hszf, hrun, hcaps⟩ := run_of_outcome P s (fun C hC => hC.1)
    (fun C c hz => by obtain ⟨lo', hz⟩ := hz; exact hz.1) (withStart m) _ ho
  refine ⟨N, mf, ⟨hszf, hbf⟩, ?_⟩
  intro fuel hle
  rw [matchToEnd_eq P s m hsz, hrun fuel hle]
  unfold LuaPattern.matchAt
  rw [hp.anchorEnd]
  cases hr : LuaPattern.matchItems s P.endAnchor pat.items q LuaPattern.Caps.init with
  | none => simp [Except.bind]
  | some v =>
    obtain ⟨e, c⟩ := v
    obtain ⟨C, ⟨lo', hz⟩, hcf⟩ := hcaps e c hr
    have h1 : (P.captureCount + 1 ≤ 10) := by rw [hp.ncap]; have := hp.ncap_le; omega
    simp only [Except.bind, Option.isSome, if_true, hszf, h1, Option.map]
    congr 2
    rw [hcf, hp.ncap]
    congr 1
    exact final_captures s hz hp.allClosed hp.ncap_le

theorem findLoop_succ (fuel c : Nat) (q : Nat) (m : M) (hq : q ≤ s.size) :
    findLoop P s fuel (c + 1) (q : Int) m = (matchToEnd P s fuel (reset m q)).bind fun x =>
      match x.1 with
      | some caps => .ok (some caps, x.2)
      | none => findLoop P s fuel c ((q + 1 : Nat) : Int) x.2 := by
  rw [findLoop]
  have : ((q : Int) ≤ (s.size : Int)) := by omega
  simp only [this, if_true]
  rfl

theorem findLoop_end (fuel c : Nat) (q : Nat) (m : M) (hq : s.size < q) :
    findLoop P s fuel c (q : Int) m = .ok (none, m) := by
  cases c with
  | zero => rfl
  | succ c =>
    rw [findLoop]
    have : ¬ ((q : Int) ≤ (s.size : Int)) := by omega
    simp only [this, if_false]
    rfl

/-- the start-position loop `find()` realises the leftmost scan -/
theorem findLoop_spec (pat : LuaPattern.Pat) (hp : PatRel P pat) :
    ∀ (k q : Nat), q + k = s.size → ∀ (cnt : Nat), k + 1 ≤ cnt → ∀ (m : M), Clean m →
      ∃ N mf, Clean mf ∧ ∀ fuel, N ≤ fuel →
        findLoop P s fuel cnt (q : Int) m = .ok ((LuaPattern.scan pat s q k).map toCaptures, mf) := by
  intro k
  induction k with
  | zero =>
    intro q hq cnt hcnt m hm
    obtain ⟨c, rfl⟩ : ∃ c, cnt = c + 1 := ⟨cnt - 1, by omega⟩
    obtain ⟨N, mf, hcl, hrun⟩ := matchToEnd_spec P s pat hp (reset m q) (reset_clean hm q) q (by omega) rfl rfl rfl
    refine ⟨N, mf, hcl, fun fuel hle => ?_⟩
    rw [findLoop_succ P s fuel c q m (by omega), hrun fuel hle]
    simp only [LuaPattern.scan]
    cases LuaPattern.matchAt pat s q with
    | some v => rfl
    | none =>
      simp only [Except.bind, Option.map]
      exact findLoop_end P s fuel c (q + 1) mf (by omega)
  | succ k ih =>
    intro q hq cnt hcnt m hm
    obtain ⟨c, rfl⟩ : ∃ c, cnt = c + 1 := ⟨cnt - 1, by omega⟩
    obtain ⟨N, mf, hcl, hrun⟩ := matchToEnd_spec P s pat hp (reset m q) (reset_clean hm q) q (by omega) rfl rfl rfl
    obtain ⟨N2, mf2, hcl2, hrun2⟩ := ih (q + 1) (by omega) c (by omega) mf hcl
    have hscan : (LuaPattern.scan pat s q (k + 1)).map toCaptures =
        ((LuaPattern.matchAt pat s q).map toCaptures).orElse fun _ => (LuaPattern.scan pat s (q + 1) k).map toCaptures := by
      simp only [LuaPattern.scan]
      cases LuaPattern.matchAt pat s q <;> rfl
    cases hr : LuaPattern.matchAt pat s q with
    | some v =>
      refine ⟨N, mf, hcl, fun fuel hle => ?_⟩
      rw [findLoop_succ P s fuel c q m (by omega), hrun fuel hle, hscan, hr]
      rfl
    | none =>
      refine ⟨max N N2, mf2, hcl2, fun fuel hle => ?_⟩
      rw [findLoop_succ P s fuel c q m (by omega), hrun fuel (by omega), hscan, hr]
      simp only [Except.bind, Option.map, Option.orElse]
      exact hrun2 fuel (by omega)

theorem initM_clean (init : Int) : Clean (initM init 0) := by
  constructor <;> simp [initM]

/-- `MatchFromStart` (budget 0 = unlimited) returns what the Spec's `findParsed` returns, without any recovered
    panic, for every sufficiently large machine fuel -/
theorem matchFromStart_refines (pat : LuaPattern.Pat) (hp : PatRel P pat) (init : Nat) (hinit : init ≤ s.size) :
    ∃ N, ∀ fuel, N ≤ fuel →
      (matchFromStart P s fuel init 0).captures = (LuaPattern.findParsed pat s init).map toCaptures ∧
      (matchFromStart P s fuel init 0).escapedPanic = none ∧
      (matchFromStart P s fuel init 0).outOfFuel = false := by
  unfold matchFromStart findFromStart LuaPattern.findParsed
  have hgt : ¬ (init > s.size) := by omega
  simp only [hgt, if_false, ← hp.anchorStart]
  cases hA : pat.anchorStart with
  | true =>
    obtain ⟨N, mf, hcl, hrun⟩ := matchToEnd_spec P s pat hp (initM init 0) (initM_clean init) init hinit rfl rfl rfl
    refine ⟨N, fun fuel hle => ?_⟩
    simp only [if_true, hrun fuel hle, recoverWrap]
    simp
  | false =>
    obtain ⟨N, mf, hcl, hrun⟩ := findLoop_spec P s pat hp (s.size - init) init (by omega)
      (((s.size : Int) + 2 - (init : Int)).toNat) (by omega) (initM init 0) (initM_clean init)
    refine ⟨N, fun fuel hle => ?_⟩
    simp only [Bool.false_eq_true, if_false, find]
    have : (initM (init : Int) 0).si = (init : Int) := rfl
    rw [this, hrun fuel hle]
    exact ⟨rfl, rfl, rfl⟩

/-- `Match` (the search that ignores `^`, used by gmatch and gsub) likewise, against the unanchored scan -/
theorem matchGo_refines (pat : LuaPattern.Pat) (hp : PatRel P pat) (init : Nat) (hinit : init ≤ s.size) :
    ∃ N, ∀ fuel, N ≤ fuel →
      (matchGo P s fuel init 0).captures = (LuaPattern.scan pat s init (s.size - init)).map toCaptures ∧
      (matchGo P s fuel init 0).escapedPanic = none ∧
      (matchGo P s fuel init 0).outOfFuel = false := by
  unfold matchGo
  obtain ⟨N, mf, hcl, hrun⟩ := findLoop_spec P s pat hp (s.size - init) init (by omega)
    (((s.size : Int) + 2 - (init : Int)).toNat) (by omega) (initM init 0) (initM_clean init)
  refine ⟨N, fun fuel hle => ?_⟩
  simp only [find]
  have : (initM (init : Int) 0).si = (init : Int) := rfl
  rw [this, hrun fuel hle]
  exact ⟨rfl, rfl, rfl⟩

end GoluaVerif.Model.PatMatch
