/-
  Proofs.C17Reader — the format reader: pack and unpack read every option alike;
  what the reader leaves of the format; the align-only flag is only ever set in
  front of an option that has a size.
-/
import GoluaVerif.Proofs.C17Body
namespace GoluaVerif.Model.Pack
open GoluaVerif

/-- the unpacker reads an option exactly as the packer does -/
theorem readOpt_unpack_eq (rd : Rd) (c : UInt8) (rest : Bytes) :
    readOpt .unpack rd c rest = readOpt .pack rd c rest := by
  unfold readOpt
  cases optKind c <;> rfl

def digitsOf (s : Bytes) : Bytes := s.takeWhile isDigit
def afterDigits (s : Bytes) : Bytes := s.dropWhile isDigit
def valFrom (n : Nat) (ds : Bytes) : Nat := ds.foldl (fun a c => a * 10 + (c.toNat - 48)) n

/-- what `getOptSize` returns when it does not overflow -/
theorem getOptSize_spec : ∀ (s : Bytes) (n : Nat) (ok : Bool) (m : Nat) (ok' : Bool) (r : Bytes),
    getOptSize s n ok = .ok (m, ok', r) →
    m = valFrom n (digitsOf s) ∧ ok' = (ok || !(digitsOf s).isEmpty) ∧ r = afterDigits s := by
  intro s
  induction s with
  | nil =>
    intro n ok m ok' r h
    simp [getOptSize] at h
    simp [digitsOf, afterDigits, valFrom, h.1, h.2.1, h.2.2]
  | cons c cs ih =>
    intro n ok m ok' r h
    unfold getOptSize at h
    by_cases hd : isDigit c = true
    · simp only [hd, if_true] at h
      split at h
      · simp at h
      · split at h
        · simp at h
        · obtain ⟨i1, i2, i3⟩ := ih _ _ _ _ _ h
          simp [digitsOf, afterDigits, valFrom, hd, List.takeWhile_cons, List.dropWhile_cons] at i1 i2 i3 ⊢
          exact ⟨i1, i2, i3⟩
    · simp only [hd, Bool.false_eq_true, if_false, Except.ok.injEq, Prod.mk.injEq] at h
      obtain ⟨h1, h2, h3⟩ := h
      subst h1; subst h2; subst h3
      simp [digitsOf, afterDigits, valFrom, hd, List.takeWhile_cons, List.dropWhile_cons]

/-- what the reader leaves of the format: the rest itself, or the rest after a size -/
theorem readOpt_rest (mode : Mode) (rd rd' : Rd) (c : UInt8) (rest rest' : Bytes) (opt : Opt)
    (h : readOpt mode rd c rest = .ok (opt, rd', rest')) :
    rest' = rest ∨ (∃ d n, smallOptSize rest d = .ok (n, rest')) ∨ (∃ n, mustGetOptSize rest = .ok (n, rest')) := by
  unfold readOpt mkItem at h
  cases hk : optKind c <;> simp only [hk] at h
  case bang =>
    split at h
    · exact absurd h (by simp)
    · rename_i n r hg; simp at h; exact .inr (.inl ⟨1, n, by rw [← h.2.2]; exact hg⟩)
  case varInt =>
    split at h
    · exact absurd h (by simp)
    · rename_i n r hg; simp at h; exact .inr (.inl ⟨8, n, by rw [← h.2.2]; exact hg⟩)
  case fixstr =>
    split at h
    · simp at h; exact .inl h.2.2.symm
    · split at h
      · exact absurd h (by simp)
      · rename_i n r hg; simp at h; exact .inr (.inr ⟨n, by rw [← h.2.2]; exact hg⟩)
  case lstr =>
    cases mode <;> simp only at h
    · split at h
      · exact absurd h (by simp)
      · rename_i n r hg; simp at h; exact .inr (.inl ⟨8, n, by rw [← h.2.2]; exact hg⟩)
    · split at h
      · exact absurd h (by simp)
      · rename_i n r hg; simp at h; exact .inr (.inl ⟨8, n, by rw [← h.2.2]; exact hg⟩)
    · exact absurd h (by simp)
  case alignNext =>
    split at h
    · split at h
      · simp only [Except.ok.injEq, Prod.mk.injEq] at h; exact .inl h.2.2.symm
      · simp at h
    · simp at h
  all_goals
    (cases mode <;> (try simp only at h) <;> (try split at h) <;>
      first
      | (simp only [Except.ok.injEq, Prod.mk.injEq] at h; exact .inl h.2.2.symm)
      | (simp at h))

/-- the reader leaves the align-only flag set only right after an `X` that stands in front of a sized option,
    or if it was set before an option that has no size -/
theorem readOpt_ao (rd rd' : Rd) (c : UInt8) (rest rest' : Bytes) (opt : Opt)
    (h : readOpt .pack rd c rest = .ok (opt, rd', rest')) (hao : rd'.alignOnly = true) :
    (rest' = rest ∧ ∃ d t, rest = d :: t ∧ alignable d = true) ∨ (rd.alignOnly = true ∧ alignable c = false) := by
  unfold readOpt mkItem at h
  unfold alignable
  cases hk : optKind c <;> simp only [hk] at h ⊢
  case bang =>
    split at h
    · exact absurd h (by simp)
    · simp at h; right; rw [← h.2.1] at hao; exact ⟨hao, trivial⟩
  case varInt =>
    split at h
    · exact absurd h (by simp)
    · simp at h; rw [← h.2.1] at hao; simp at hao
  case fixstr =>
    split at h
    · simp at h; rw [← h.2.1] at hao; simp at hao
    · split at h
      · exact absurd h (by simp)
      · simp at h; rw [← h.2.1] at hao; simp at hao
  case lstr =>
    split at h
    · exact absurd h (by simp)
    · simp at h; rw [← h.2.1] at hao; simp at hao
  case alignNext =>
    split at h
    · rename_i d t
      split at h
      · rename_i hd
        simp only [Except.ok.injEq, Prod.mk.injEq] at h
        exact .inl ⟨h.2.2.symm, d, t, rfl, hd⟩
      · simp at h
    · simp at h
  all_goals first
    | (simp only [Except.ok.injEq, Prod.mk.injEq] at h; rw [← h.2.1] at hao; first
        | (simp at hao; done)
        | exact .inr ⟨hao, trivial⟩
        | (right; simpa using hao))
    | (simp at h)

/-- the invariant the reader maintains by itself: the align-only flag is set only in front of a sized option -/
def Inv (ao : Bool) (fmt : Bytes) : Prop := ao = true → ∃ d t, fmt = d :: t ∧ alignable d = true

theorem inv_head (ao : Bool) (c : UInt8) (rest : Bytes) (h : Inv ao (c :: rest)) :
    ao = false ∨ alignable c = true := by
  cases ao with
  | false => exact .inl rfl
  | true =>
    obtain ⟨d, t, he, ha⟩ := h rfl
    injection he with h1 h2
    subst h1
    exact .inr ha

theorem inv_step (rd rd' : Rd) (c : UInt8) (rest rest' : Bytes) (opt : Opt)
    (hi : Inv rd.alignOnly (c :: rest)) (h : readOpt .pack rd c rest = .ok (opt, rd', rest')) :
    Inv rd'.alignOnly rest' := by
  intro hao
  rcases readOpt_ao rd rd' c rest rest' opt h hao with ⟨hr, d, t, he, ha⟩ | ⟨h1, h2⟩
  · exact ⟨d, t, by rw [hr, he], ha⟩
  · rcases inv_head _ _ _ hi with h3 | h3
    · rw [h1] at h3; exact absurd h3 (by simp)
    · rw [h2] at h3; exact absurd h3 (by simp)

end GoluaVerif.Model.Pack
