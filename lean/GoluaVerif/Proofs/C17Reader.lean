/-
  Proofs.C17Reader — the three Go loops read a format alike when every `X` is
  directly followed by a sized option.
-/
import GoluaVerif.Proofs.C17Body
namespace GoluaVerif.Model.Pack
open GoluaVerif

theorem alignPad_nocheck (rd : Rd) (al off pad : Nat) (h : alignPad rd true al off = .ok pad) :
    alignPad rd false al off = .ok pad := by
  unfold alignPad at *
  by_cases h0 : al = 0
  · simp only [h0, if_true] at h ⊢; exact h
  · simp only [h0, if_false] at h ⊢
    generalize (if al > rd.maxAlign then rd.maxAlign else al) = n at h ⊢
    by_cases hp : isPow2 n = true
    · simp only [hp, Bool.not_true, Bool.and_false, Bool.false_eq_true, if_false] at h ⊢; exact h
    · simp [hp] at h

theorem rd_eta (rd : Rd) (h : rd.alignOnly = false) : { rd with alignOnly := false } = rd := by
  cases rd; simp_all

/-- F3: with the align-only flag clear, or before a sized option, the unpacker reads the option as the packer does -/
theorem readOpt_unpack_eq (rd : Rd) (c : UInt8) (rest : Bytes)
    (h : rd.alignOnly = false ∨ alignable c = true) :
    readOpt .unpack rd c rest = readOpt .pack rd c rest := by
  unfold readOpt
  unfold alignable at h
  cases hk : optKind c <;> simp only [hk] at h ⊢ <;>
    first
    | rfl
    | (rcases h with h | h
       · first
         | (simp [mkItem, h]; done)
         | (simp [mkItem, h]; cases rd; simp_all)
       · simp at h)

theorem noDanglingX_tail (c : UInt8) (rest : Bytes) (h : noDanglingX (c :: rest) = true) : noDanglingX rest = true := by
  simp only [noDanglingX, Bool.and_eq_true] at h
  exact h.2

theorem getOptSize_ndx (s : Bytes) (n : Nat) (ok : Bool) (m : Nat) (ok' : Bool) (r : Bytes)
    (h : getOptSize s n ok = .ok (m, ok', r)) (hs : noDanglingX s = true) : noDanglingX r = true := by
  induction s generalizing n ok with
  | nil => simp [getOptSize] at h; rw [h.2.2]; exact hs
  | cons c cs ih =>
    unfold getOptSize at h
    split at h
    · split at h
      · exact absurd h (by simp)
      · split at h
        · exact absurd h (by simp)
        · exact ih _ _ h (noDanglingX_tail c cs hs)
    · simp at h; rw [← h.2.2]; exact hs

theorem smallOptSize_ndx (s : Bytes) (d n : Nat) (r : Bytes)
    (h : smallOptSize s d = .ok (n, r)) (hs : noDanglingX s = true) : noDanglingX r = true := by
  unfold smallOptSize at h
  split at h
  · exact absurd h (by simp)
  · rename_i hg
    split at h
    · simp at h; rw [← h.2]; exact getOptSize_ndx _ _ _ _ _ _ hg hs
    · exact absurd h (by simp)
  · rename_i hg
    split at h
    · simp at h; rw [← h.2]; exact getOptSize_ndx _ _ _ _ _ _ hg hs
    · exact absurd h (by simp)

theorem mustGetOptSize_ndx (s : Bytes) (n : Nat) (r : Bytes)
    (h : mustGetOptSize s = .ok (n, r)) (hs : noDanglingX s = true) : noDanglingX r = true := by
  unfold mustGetOptSize at h
  split at h
  · exact absurd h (by simp)
  · rename_i hg
    simp at h; rw [← h.2]; exact getOptSize_ndx _ _ _ _ _ _ hg hs
  · exact absurd h (by simp)

/-- what the reader leaves of the format: the rest itself, or the rest after a size -/
theorem readOpt_rest (mode : Mode) (rd rd' : Rd) (c : UInt8) (rest rest' : Bytes) (opt : Opt)
    (h : readOpt mode rd c rest = .ok (opt, rd', rest')) :
    rest' = rest ∨ (∃ d n, smallOptSize rest d = .ok (n, rest')) ∨ (∃ n, mustGetOptSize rest = .ok (n, rest')) := by
  unfold readOpt mkItem at h
  cases hk : optKind c <;> simp only [hk] at h
  case bang =>
    split at h
    · exact absurd h (by simp)
    · rename_i n r hg; simp at h; exact .inr (.inl ⟨1, n, by rw [← h.2.2]; exact hg⟩)
  case varInt =>
    split at h
    · exact absurd h (by simp)
    · rename_i n r hg; simp at h; exact .inr (.inl ⟨8, n, by rw [← h.2.2]; exact hg⟩)
  case fixstr =>
    split at h
    · simp at h; exact .inl h.2.2.symm
    · split at h
      · exact absurd h (by simp)
      · rename_i n r hg; simp at h; exact .inr (.inr ⟨n, by rw [← h.2.2]; exact hg⟩)
  case lstr =>
    cases mode <;> simp only at h
    · split at h
      · exact absurd h (by simp)
      · rename_i n r hg; simp at h; exact .inr (.inl ⟨8, n, by rw [← h.2.2]; exact hg⟩)
    · split at h
      · exact absurd h (by simp)
      · rename_i n r hg; simp at h; exact .inr (.inl ⟨8, n, by rw [← h.2.2]; exact hg⟩)
    · exact absurd h (by simp)
  all_goals
    (cases mode <;> (try simp only at h) <;> (try split at h) <;>
      first
      | (simp only [Except.ok.injEq, Prod.mk.injEq] at h; exact .inl h.2.2.symm)
      | (simp at h))

/-- F1: what is left of the format after an option still has every `X` followed by a sized option -/
theorem readOpt_ndx (mode : Mode) (rd rd' : Rd) (c : UInt8) (rest rest' : Bytes) (opt : Opt)
    (h : readOpt mode rd c rest = .ok (opt, rd', rest')) (hs : noDanglingX rest = true) :
    noDanglingX rest' = true := by
  rcases readOpt_rest mode rd rd' c rest rest' opt h with h1 | ⟨d, n, h1⟩ | ⟨n, h1⟩
  · rw [h1]; exact hs
  · exact smallOptSize_ndx _ _ _ _ h1 hs
  · exact mustGetOptSize_ndx _ _ _ h1 hs

/-- F2: the packer leaves the align-only flag set only right after `X`, or if it was set before an unsized option -/
theorem readOpt_ao (rd rd' : Rd) (c : UInt8) (rest rest' : Bytes) (opt : Opt)
    (h : readOpt .pack rd c rest = .ok (opt, rd', rest')) (hao : rd'.alignOnly = true) :
    (optKind c = .alignNext ∧ rest' = rest) ∨ (rd.alignOnly = true ∧ alignable c = false) := by
  unfold readOpt mkItem at h
  unfold alignable
  cases hk : optKind c <;> simp only [hk] at h ⊢
  case bang =>
    split at h
    · exact absurd h (by simp)
    · simp at h; right; rw [← h.2.1] at hao; exact ⟨hao, trivial⟩
  case varInt =>
    split at h
    · exact absurd h (by simp)
    · simp at h; rw [← h.2.1] at hao; simp at hao
  case fixstr =>
    split at h
    · simp at h; rw [← h.2.1] at hao; simp at hao
    · split at h
      · exact absurd h (by simp)
      · simp at h; rw [← h.2.1] at hao; simp at hao
  case lstr =>
    split at h
    · exact absurd h (by simp)
    · simp at h; rw [← h.2.1] at hao; simp at hao
  case alignNext => simp at h; exact .inl ⟨trivial, h.2.2.symm⟩
  all_goals first
    | (simp only [Except.ok.injEq, Prod.mk.injEq] at h; rw [← h.2.1] at hao; first
        | (simp at hao; done)
        | exact .inr ⟨hao, trivial⟩
        | (right; simpa using hao))
    | (simp at h)

end GoluaVerif.Model.Pack
