/-
  Proofs.C09Table — soundness of the decidable table-level discipline `discTable`: every program
  assembled from the procedures of a table that passes it obeys `disc`, for every instantiation of
  `t` / `caller` with two distinct threads.
-/
import GoluaVerif.Model.CoProto
namespace GoluaVerif.Proofs.C09Table
open GoluaVerif.Model.CoProto

section inst
variable {self peer : Nat}

theorem role_inj (h : self ≠ peer) {r1 r2 : Role}
    (e : r1.inst self peer = r2.inst self peer) : r1 = r2 := by
  cases r1 <;> cases r2 <;> simp [Role.inst] at e ⊢
  · exact absurd e h
  · exact absurd e.symm h

theorem mem_map_inst (h : self ≠ peer) (r : Role) (l : List Role) :
    r.inst self peer ∈ l.map (Role.inst self peer) ↔ r ∈ l := by
  simp only [List.mem_map]
  constructor
  · rintro ⟨r', hr', e⟩
    rw [← role_inj h e]; exact hr'
  · intro hr; exact ⟨r, hr, rfl⟩

theorem map_erase_inst (h : self ≠ peer) (r : Role) (l : List Role) :
    (l.erase r).map (Role.inst self peer) = (l.map (Role.inst self peer)).erase (r.inst self peer) := by
  induction l with
  | nil => rfl
  | cons a t ih =>
    by_cases hr : a = r
    · subst hr; simp
    · have hne : a.inst self peer ≠ r.inst self peer := fun e => hr (role_inj h e)
      simp [List.erase_cons, hr, hne, ih]

def liftPh (self peer : Nat) (q : SPh) : Ph := (q.1, q.2.map (Role.inst self peer))

theorem seg_single (p : Ph) (c : Ev) : seg p [c] = segStep p c := by
  simp only [seg]
  cases segStep p c <;> simp [seg]

/-- one symbolic event, instantiated, is accepted by the concrete discipline exactly as the symbolic one -/
theorem segStep_inst (h : self ≠ peer) (a : Bool) (hl : List Role) (e : SEv) :
    seg (a, hl.map (Role.inst self peer)) (e.inst self peer) = (segStepS (a, hl) e).map (liftPh self peer) := by
  cases e with
  | lock r =>
    simp only [SEv.inst, seg_single, segStep, segStepS, mem_map_inst h]
    split <;> simp [liftPh]
  | unlock r =>
    simp only [SEv.inst, seg_single, segStep, segStepS, mem_map_inst h]
    split <;> simp [liftPh, map_erase_inst h]
  | send r =>
    simp only [SEv.inst, seg_single, segStep, segStepS]
    split <;> simp [liftPh]
  | recv r =>
    simp only [SEv.inst, seg_single, segStep, segStepS, List.map_eq_nil_iff]
    split <;> simp [liftPh]
  | run =>
    simp only [SEv.inst, seg_single, segStep, segStepS, List.map_eq_nil_iff]
    split <;> simp [liftPh]
  | closeCh r | set r | touch | spawn =>
    simp only [SEv.inst, seg_single, segStep, segStepS]
    split <;> simp [liftPh]
  | callEnd => simp [SEv.inst, seg, segStepS, liftPh]

theorem seg_instPath (h : self ≠ peer) : ∀ (path : List SEv) (p q : SPh), segS p path = some q →
    seg (liftPh self peer p) (instPath self peer path) = some (liftPh self peer q) := by
  intro path
  induction path with
  | nil => intro p q hs; simp [segS] at hs; subst hs; simp [instPath, seg]
  | cons e r ih =>
    intro p q hs
    simp only [segS] at hs
    cases hstep : segStepS p e with
    | none => simp [hstep] at hs
    | some p' =>
      simp [hstep] at hs
      have h1 := segStep_inst h p.1 p.2 e
      rw [hstep] at h1
      simp only [instPath, List.flatMap_cons]
      rw [seg_append]
      have : liftPh self peer p = (p.1, p.2.map (Role.inst self peer)) := rfl
      rw [this, h1]
      simpa [instPath] using ih p' q hs

end inst

/-! ### from `discTable` to the paths -/

theorem segS_of_pathViolations (name : String) (pi : Nat) : ∀ (path : List SEv) (p : SPh) (i : Nat) (q : SPh),
    pathViolations name pi p i path = ([], q) → segS p path = some q := by
  intro path
  induction path with
  | nil => intro p i q h; simp [pathViolations] at h; simp [segS, h]
  | cons e r ih =>
    intro p i q h
    simp only [pathViolations] at h
    cases hs : segStepS p e with
    | some p' => simp only [hs] at h; simp [segS, hs]; exact ih p' (i + 1) q h
    | none => simp [hs] at h

theorem segS_of_checkPath {name : String} {en ex : Bool} {i : Nat} {path : List SEv}
    (h : checkPath name en ex i path = []) : segS (en, []) path = some (ex, []) := by
  unfold checkPath at h
  generalize hpv : pathViolations name i (en, []) 0 path = r at h
  obtain ⟨vs, q⟩ := r
  simp only at h
  split at h
  · rename_i hq
    subst h
    rw [← hq]; exact segS_of_pathViolations name i path (en, []) 0 q hpv
  · simp at h

theorem segS_of_checkPaths {name : String} {en ex : Bool} : ∀ (ps : List (List SEv)) (i : Nat),
    checkPaths name en ex i ps = [] → ∀ j (hj : j < ps.length), segS (en, []) ps[j] = some (ex, []) := by
  intro ps
  induction ps with
  | nil => intro i _ j hj; simp at hj
  | cons p r ih =>
    intro i h j hj
    simp only [checkPaths, List.append_eq_nil_iff] at h
    cases j with
    | zero => exact segS_of_checkPath h.1
    | succ j => simpa using ih (i + 1) h.2 j (by simpa using hj)

theorem checkProc_nil_of_discTable {tbl : List Proc} (h : discTable tbl = true) :
    ∀ pr ∈ tbl, checkProc pr = [] := by
  intro pr hpr
  have h0 : discViolations tbl = [] := by simpa [discTable] using h
  simp only [discViolations, List.append_eq_nil_iff, List.flatMap_eq_nil_iff] at h0
  exact h0.2 pr hpr

/-- every path of every procedure (with known phases) of a table passing `discTable` is accepted
    by the symbolic discipline from its entry phase to its exit phase -/
theorem path_ok {tbl : List Proc} (h : discTable tbl = true) {name : String} {en ex : Bool}
    (hph : phases name = some (en, ex)) {j : Nat} (hj : j < (findProc tbl name).paths.length) :
    segS (en, []) (pathOf tbl name j) = some (ex, []) := by
  unfold findProc at hj
  unfold pathOf findProc
  cases hf : tbl.find? (fun p => p.name == name) with
  | none => simp [hf] at hj
  | some pr =>
    simp only [hf, Option.getD_some] at hj ⊢
    have hmem : pr ∈ tbl := List.mem_of_find?_eq_some hf
    have hname : pr.name = name := by
      have := List.find?_some hf; simpa using this
    have hc := checkProc_nil_of_discTable h pr hmem
    unfold checkProc at hc
    rw [hname, hph] at hc
    simp only at hc
    split at hc
    · simp at hc
    · have := segS_of_checkPaths pr.paths 0 hc j hj
      simpa [List.getElem?_eq_getElem hj] using this

/-! ### programs assembled from the table obey the discipline -/

theorem item_seg {tbl : List Proc} (h : discTable tbl = true) {it : Item} (hw : it.wf tbl) :
    seg (true, []) (it.expand tbl) = some (true, []) := by
  cases it with
  | run => simp [Item.expand, seg, segStep]
  | touch => simp [Item.expand, seg, segStep]
  | call name i self peer =>
    obtain ⟨hne, hname, hi⟩ := hw
    have hph : phases name = some (true, true) := by
      rcases hname with e | e | e | e <;> subst e <;> decide
    have := seg_instPath hne _ _ _ (path_ok h hph hi)
    simpa [Item.expand, liftPh] using this

theorem items_seg {tbl : List Proc} (h : discTable tbl = true) : ∀ (items : List Item),
    (∀ it ∈ items, it.wf tbl) → seg (true, []) (items.flatMap (Item.expand tbl)) = some (true, []) := by
  intro items
  induction items with
  | nil => intro _; simp [seg]
  | cons it r ih =>
    intro hw
    simp only [List.flatMap_cons]
    rw [seg_append, item_seg h (hw it (by simp))]
    simpa using ih (fun x hx => hw x (by simp [hx]))

/-- the main goroutine's program -/
theorem table_main_disc {tbl : List Proc} (h : discTable tbl = true) (items : List Item)
    (hw : ∀ it ∈ items, it.wf tbl) : disc true (mainProg tbl items) = true := by
  simp [disc, mainProg, items_seg h items hw]

/-- a coroutine goroutine's program -/
theorem table_co_disc {tbl : List Proc} (h : discTable tbl = true) {t c : Nat} (htc : t ≠ c)
    {iGo iEnd : Nat} (hGo : iGo < (findProc tbl "Start.go").paths.length)
    (hEnd : iEnd < (findProc tbl "end").paths.length) (items : List Item)
    (hw : ∀ it ∈ items, it.wf tbl) : disc false (coProg tbl t c iGo iEnd items) = true := by
  have h1 := seg_instPath htc _ _ _ (path_ok h (name := "Start.go") (en := false) (ex := true) (by decide) hGo)
  have h2 := seg_instPath htc _ _ _ (path_ok h (name := "end") (en := true) (ex := false) (by decide) hEnd)
  simp only [liftPh, List.map_nil] at h1 h2
  simp [disc, coProg, seg_append, h1, items_seg h items hw, h2]

end GoluaVerif.Proofs.C09Table
