/-
  Proofs.C17QuoteGolua — golua's `%q` text of a string (`quoteString`) is read back by the Lua reader as the
  same bytes, for every byte string.
-/
import GoluaVerif.Proofs.C17Quote
import GoluaVerif.Model.Quote
namespace GoluaVerif.Model.Quote
open GoluaVerif GoluaVerif.Spec.Quote

theorem escName_spec (c e : UInt8) (h : escName c = some e) :
    (e = 97 ∧ c.toNat = 7) ∨ (e = 98 ∧ c.toNat = 8) ∨ (e = 102 ∧ c.toNat = 12) ∨ (e = 110 ∧ c.toNat = 10) ∨
    (e = 114 ∧ c.toNat = 13) ∨ (e = 116 ∧ c.toNat = 9) ∨ (e = 118 ∧ c.toNat = 11) := by
  unfold escName at h
  repeat' split at h
  all_goals first
    | (simp at h; done)
    | (rename_i hc; subst hc; simp at h; subst h; simp)

/-- the first byte of what follows a chunk is a digit only if the next source byte is one -/
theorem kheadG (rest : Bytes) : ∃ h t, quoteStrBody rest ++ [34] = h :: t ∧
    (isDigit h = true → ∃ d r, rest = d :: r ∧ isDigit d = true) := by
  cases rest with
  | nil => exact ⟨34, [], rfl, fun h => absurd h (by decide)⟩
  | cons d r =>
    simp only [quoteStrBody]
    by_cases h1 : d = 34 ∨ d = 92
    · simp only [h1, if_true]
      exact ⟨92, _, rfl, fun h => absurd h (by decide)⟩
    · simp only [h1, if_false]
      cases he : escName d with
      | some e => exact ⟨92, _, rfl, fun h => absurd h (by decide)⟩
      | none =>
        simp only
        by_cases h2 : 32 ≤ d.toNat ∧ d.toNat ≠ 127
        · rw [if_pos h2]
          exact ⟨d, _, rfl, fun hd => ⟨d, r, rfl, hd⟩⟩
        · rw [if_neg h2]
          cases r with
          | nil => exact ⟨92, _, rfl, fun h => absurd h (by decide)⟩
          | cons d' r' =>
            simp only
            split <;> exact ⟨92, _, rfl, fun h => absurd h (by decide)⟩

theorem unq_quoteStrBody (s : Bytes) : unq .normal (quoteStrBody s ++ [34]) = some s := by
  induction s with
  | nil =>
    conv => lhs; unfold unq
    simp [quoteStrBody]
  | cons c rest ih =>
    obtain ⟨h, t, hk, hdig⟩ := kheadG rest
    simp only [quoteStrBody, List.append_assoc]
    by_cases h1 : c = 34 ∨ c = 92
    · simp only [h1, if_true]
      rcases h1 with rfl | rfl
      · simp only [List.cons_append, List.nil_append]
        rw [unq_esc_quote, ih]; exact emit_some _ _ _ rfl
      · simp only [List.cons_append, List.nil_append]
        rw [unq_esc_backslash, ih]; exact emit_some _ _ _ rfl
    · simp only [h1, if_false]
      have hc34 : c ≠ 34 := fun e => h1 (.inl e)
      have hc92 : c ≠ 92 := fun e => h1 (.inr e)
      cases he : escName c with
      | some e =>
        simp only [List.cons_append, List.nil_append]
        have hs := escName_spec c e he
        have : ∃ v, v = c.toNat ∧ ((e = 97 ∧ v = 7) ∨ (e = 98 ∧ v = 8) ∨ (e = 102 ∧ v = 12) ∨ (e = 110 ∧ v = 10) ∨
            (e = 114 ∧ v = 13) ∨ (e = 116 ∧ v = 9) ∨ (e = 118 ∧ v = 11)) := ⟨c.toNat, rfl, hs⟩
        obtain ⟨v, hv, hl⟩ := this
        rw [unq_esc_letter e v _ hl, ih]
        exact emit_some _ _ _ hv
      | none =>
        simp only
        by_cases h2 : 32 ≤ c.toNat ∧ c.toNat ≠ 127
        · rw [if_pos h2]
          simp only [List.cons_append, List.nil_append]
          have hc10 : c ≠ 10 := by intro e; subst e; simp at h2
          have hc13 : c ≠ 13 := by intro e; subst e; simp at h2
          rw [unq_plain c _ hc34 hc10 hc13 hc92, ih]
          rfl
        · rw [if_neg h2]
          cases rest with
          | nil =>
            simp only [List.cons_append] at hk ⊢
            have hh : isDigit h = false := by
              cases hd : isDigit h with
              | false => rfl
              | true => obtain ⟨d, r, he', _⟩ := hdig hd; simp at he'
            rw [hk, unq_decShort c h t hh, ← hk, ih]; exact emit_some _ _ _ rfl
          | cons d r =>
            simp only
            by_cases hd : isDigit d = true
            · simp only [hd, if_true, List.cons_append]
              rw [unq_decPad, ih]; exact emit_some _ _ _ rfl
            · simp only [hd, Bool.false_eq_true, if_false, List.cons_append]
              have hh : isDigit h = false := by
                cases hd' : isDigit h with
                | false => rfl
                | true =>
                  obtain ⟨d', r', he', hd''⟩ := hdig hd'
                  injection he' with e1 e2
                  subst e1; exact absurd hd'' hd
              rw [hk, unq_decShort c h t hh, ← hk, ih]; exact emit_some _ _ _ rfl

/-- **golua's `%q` of a string reads back as the same bytes, for every byte string** -/
theorem unquote_quoteStr (s : Bytes) : unquote (quoteStr s) = some s := by
  simp [unquote, quoteStr, unq_quoteStrBody]

end GoluaVerif.Model.Quote
