/-
  Proofs.ForLoop — lemmas for Props.C16: the integer numeric-for of Model.For (mirror of
  prepfor/advfor) against Spec.For (forlimit + precomputed count).
-/
import GoluaVerif.Model.For
import GoluaVerif.Props.C02_Comp
import GoluaVerif.Proofs.F64Lemmas
namespace GoluaVerif.Proofs.ForLoop
open GoluaVerif GoluaVerif.Spec GoluaVerif.Spec.For GoluaVerif.Proofs
open GoluaVerif.Model.For (isLessThan isLessOrEqual isPositive isZero add advfor prepfor iter loopFrom)

/-! ### 64-bit addition -/

theorem bmod64 (x : Int) : x.bmod (2^64) =
    if x % 18446744073709551616 < 9223372036854775808 then x % 18446744073709551616
    else x % 18446744073709551616 - 18446744073709551616 := by
  rw [Int.bmod_def]; rfl

theorem toInt_range (a : I64) : -9223372036854775808 ≤ a.toInt ∧ a.toInt < 9223372036854775808 := by
  have h1 := BitVec.le_toInt (x := a); have h2 := BitVec.toInt_lt (x := a)
  constructor <;> omega

theorem add_toInt_inrange (a b : I64) (h1 : -9223372036854775808 ≤ a.toInt + b.toInt)
    (h2 : a.toInt + b.toInt < 9223372036854775808) : (a + b).toInt = a.toInt + b.toInt := by
  rw [BitVec.toInt_add, bmod64]; split <;> omega

theorem add_toInt_over (a b : I64) (h2 : 9223372036854775808 ≤ a.toInt + b.toInt) :
    (a + b).toInt = a.toInt + b.toInt - 18446744073709551616 := by
  have := toInt_range a; have := toInt_range b
  rw [BitVec.toInt_add, bmod64]; split <;> omega

theorem add_toInt_under (a b : I64) (h2 : a.toInt + b.toInt < -9223372036854775808) :
    (a + b).toInt = a.toInt + b.toInt + 18446744073709551616 := by
  have := toInt_range a; have := toInt_range b
  rw [BitVec.toInt_add, bmod64]; split <;> omega

/-! ### the comparison of the model is the exact comparison -/

theorem num_lt_int_int (x y : I64) : Num.lt (.int x) (.int y) = decide (x.toInt < y.toInt) := by
  simp only [Num.lt, Num.isNaN, Num.key, F64.intKey, Bool.not_false, Bool.true_and]
  exact decide_eq_decide.mpr mul_scale_lt

theorem isLessThan_exact (a b : Num) (ha : numWF a = true) (hb : numWF b = true) :
    isLessThan a b = Num.lt a b := by
  cases a with
  | int x => cases b with
    | int y => simp only [isLessThan, num_lt_int_int, BitVec.slt_eq_decide]
    | flt g => exact Props.C02.lt_int_float_exact x g hb
  | flt f => cases b with
    | int y => exact Props.C02.lt_float_int_exact y f ha
    | flt g => rfl

/-- `l < x` for an integer x is `⌊l⌋ < x` -/
theorem lt_lim_int (l : Num) (hn : l.isNaN = false) (x : I64) :
    Num.lt l (.int x) = decide (floorZ l < x.toInt) := by
  have hk : Num.lt l (.int x) = decide (l.key < x.toInt * (F64.scale : Int)) := by
    have : Num.lt l (.int x) = (!l.isNaN && !(Num.int x).isNaN && decide (l.key < (Num.int x).key)) := rfl
    rw [this, hn]; rfl
  rw [hk]
  exact decide_eq_decide.mpr (Int.ediv_lt_iff_lt_mul scale_pos_int).symm

/-- `x < l` for an integer x is `x < ⌈l⌉` -/
theorem lt_int_lim (l : Num) (hn : l.isNaN = false) (x : I64) :
    Num.lt (.int x) l = decide (x.toInt < ceilZ l) := by
  have hk : Num.lt (.int x) l = decide (x.toInt * (F64.scale : Int) < l.key) := by
    have : Num.lt (.int x) l = (!(Num.int x).isNaN && !l.isNaN && decide ((Num.int x).key < l.key)) := rfl
    rw [this, hn]; rfl
  rw [hk]
  apply decide_eq_decide.mpr
  unfold ceilZ
  have h := Int.ediv_lt_iff_lt_mul (a := -l.key) (b := -x.toInt) scale_pos_int
  constructor
  · intro h1
    have : -l.key / (F64.scale : Int) < -x.toInt := h.mpr (by rw [Int.neg_mul]; omega)
    omega
  · intro h1
    have h2 : -l.key / (F64.scale : Int) < -x.toInt := by omega
    have := h.mp h2
    rw [Int.neg_mul] at this; omega

theorem num_le_int_int (x y : I64) : Num.le (.int x) (.int y) = decide (x.toInt ≤ y.toInt) := by
  simp only [Num.le, Num.isNaN, Num.key, F64.intKey, Bool.not_false, Bool.true_and]
  exact decide_eq_decide.mpr mul_scale_le

theorem isLessOrEqual_exact (a b : Num) (ha : numWF a = true) (hb : numWF b = true) :
    isLessOrEqual a b = Num.le a b := by
  cases a with
  | int x => cases b with
    | int y => simp only [isLessOrEqual, num_le_int_int, BitVec.sle_eq_decide]
    | flt g => exact Props.C02.le_int_float_exact x g hb
  | flt f => cases b with
    | int y => exact Props.C02.le_float_int_exact y f ha
    | flt g => rfl

theorem le_nan_right (a l : Num) (hn : l.isNaN = true) : Num.le a l = false := by
  have : Num.le a l = (!a.isNaN && !l.isNaN && decide (a.key ≤ l.key)) := rfl
  rw [this, hn]; simp

theorem le_nan_left (a l : Num) (hn : l.isNaN = true) : Num.le l a = false := by
  have : Num.le l a = (!l.isNaN && !a.isNaN && decide (l.key ≤ a.key)) := rfl
  rw [this, hn]; simp

/-- `x <= l` for an integer x is `x <= ⌊l⌋` -/
theorem le_int_lim (l : Num) (hn : l.isNaN = false) (x : I64) :
    Num.le (.int x) l = decide (x.toInt ≤ floorZ l) := by
  have hk : Num.le (.int x) l = decide (x.toInt * (F64.scale : Int) ≤ l.key) := by
    have : Num.le (.int x) l = (!(Num.int x).isNaN && !l.isNaN && decide ((Num.int x).key ≤ l.key)) := rfl
    rw [this, hn]; rfl
  rw [hk]
  exact decide_eq_decide.mpr (Int.le_ediv_iff_mul_le scale_pos_int).symm

/-- `l <= x` for an integer x is `⌈l⌉ <= x` -/
theorem le_lim_int (l : Num) (hn : l.isNaN = false) (x : I64) :
    Num.le l (.int x) = decide (ceilZ l ≤ x.toInt) := by
  have hk : Num.le l (.int x) = decide (l.key ≤ x.toInt * (F64.scale : Int)) := by
    have : Num.le l (.int x) = (!l.isNaN && !(Num.int x).isNaN && decide (l.key ≤ (Num.int x).key)) := rfl
    rw [this, hn]; rfl
  rw [hk]
  apply decide_eq_decide.mpr
  unfold ceilZ
  have h := Int.le_ediv_iff_mul_le (a := -x.toInt) (b := -l.key) scale_pos_int
  constructor
  · intro h1
    have : -x.toInt ≤ -l.key / (F64.scale : Int) := h.mpr (by rw [Int.neg_mul]; omega)
    omega
  · intro h1
    have h2 : -x.toInt ≤ -l.key / (F64.scale : Int) := by omega
    have := h.mp h2
    rw [Int.neg_mul] at this; omega

theorem isPositive_int (d : I64) : isPositive (.int d) = decide (0 < d.toInt) := by
  simp only [isPositive, BitVec.slt_eq_decide]; rfl

/-! ### the clipped limit -/

theorem forlimit_pos {l : Num} (hn : l.isNaN = false) {lim : Int} (h : forlimit l true = some lim) :
    -9223372036854775808 ≤ lim ∧ lim ≤ 9223372036854775807 ∧ lim ≤ floorZ l ∧
      (lim = 9223372036854775807 ∨ lim = floorZ l) := by
  unfold forlimit at h
  rw [hn] at h
  simp only [Bool.false_eq_true, if_false, if_true] at h
  have hmin : minI = -9223372036854775808 := by decide
  have hmax : maxI = 9223372036854775807 := by decide
  by_cases hz : floorZ l < minI
  · rw [if_pos hz] at h; cases h
  · rw [if_neg hz] at h; injection h with h; subst h; split <;> omega

theorem forlimit_pos_none {l : Num} (hn : l.isNaN = false) (h : forlimit l true = none) :
    floorZ l < -9223372036854775808 := by
  unfold forlimit at h
  rw [hn] at h
  simp only [Bool.false_eq_true, if_false, if_true] at h
  have hmin : minI = -9223372036854775808 := by decide
  have hmax : maxI = 9223372036854775807 := by decide
  by_cases hz : floorZ l < minI
  · omega
  · rw [if_neg hz] at h; cases h

theorem forlimit_neg {l : Num} (hn : l.isNaN = false) {lim : Int} (h : forlimit l false = some lim) :
    -9223372036854775808 ≤ lim ∧ lim ≤ 9223372036854775807 ∧ ceilZ l ≤ lim ∧
      (lim = -9223372036854775808 ∨ lim = ceilZ l) := by
  unfold forlimit at h
  rw [hn] at h
  simp only [Bool.false_eq_true, if_false] at h
  have hmin : minI = -9223372036854775808 := by decide
  have hmax : maxI = 9223372036854775807 := by decide
  by_cases hz : maxI < ceilZ l
  · rw [if_pos hz] at h; cases h
  · rw [if_neg hz] at h; injection h with h; subst h; split <;> omega

theorem forlimit_neg_none {l : Num} (hn : l.isNaN = false) (h : forlimit l false = none) :
    9223372036854775807 < ceilZ l := by
  unfold forlimit at h
  rw [hn] at h
  simp only [Bool.false_eq_true, if_false] at h
  have hmin : minI = -9223372036854775808 := by decide
  have hmax : maxI = 9223372036854775807 := by decide
  by_cases hz : maxI < ceilZ l
  · omega
  · rw [if_neg hz] at h; cases h

theorem forlimit_bounds {l : Num} {b : Bool} {lim : Int} (h : forlimit l b = some lim) :
    -9223372036854775808 ≤ lim ∧ lim ≤ 9223372036854775807 := by
  cases hn : l.isNaN with
  | true => unfold forlimit at h; rw [hn] at h; simp at h
  | false =>
    cases b with
    | true => have := forlimit_pos hn h; omega
    | false => have := forlimit_neg hn h; omega

/-! ### one advfor step of an integer loop -/

section step
variable (l : Num) (hwf : numWF l = true) (hn : l.isNaN = false)
include hwf hn

theorem adv_pos_cont (cur d : I64) (hd : 0 < d.toInt) (lim : Int) (hlim : forlimit l true = some lim)
    (h : cur.toInt + d.toInt ≤ lim) :
    advfor (.int cur) l (.int d) = some (.int (cur + d)) ∧ (cur + d).toInt = cur.toInt + d.toInt := by
  have hc := toInt_range cur; have hdr := toInt_range d
  -- the clipped limit is at most maxint and at most ⌊l⌋
  have hl := forlimit_pos hn hlim
  have hadd := add_toInt_inrange cur d (by omega) (by omega)
  refine ⟨?_, hadd⟩
  simp only [advfor, add, isPositive_int, hd, decide_true, if_true]
  rw [isLessOrEqual_exact _ _ rfl hwf, isLessThan_exact _ _ rfl rfl, le_int_lim l hn, num_lt_int_int, hadd]
  have h1 : cur.toInt + d.toInt ≤ floorZ l := by omega
  have h2 : ¬ (cur.toInt + d.toInt < cur.toInt) := by omega
  simp [h1, h2]

theorem adv_pos_stop (cur d : I64) (hd : 0 < d.toInt) (lim : Int) (hlim : forlimit l true = some lim)
    (h : lim < cur.toInt + d.toInt) :
    advfor (.int cur) l (.int d) = none := by
  have hc := toInt_range cur; have hdr := toInt_range d
  have hl := forlimit_pos hn hlim
  simp only [advfor, add, isPositive_int, hd, decide_true, if_true]
  rw [isLessOrEqual_exact _ _ rfl hwf, isLessThan_exact _ _ rfl rfl, le_int_lim l hn, num_lt_int_int]
  obtain ⟨N, hN⟩ : ∃ N, (cur + d).toInt = N := ⟨_, rfl⟩
  rw [hN]
  by_cases hov : 9223372036854775808 ≤ cur.toInt + d.toInt
  · have := add_toInt_over cur d hov
    have h2 : N < cur.toInt := by omega
    simp [h2]
  · have hadd := add_toInt_inrange cur d (by omega) (by omega)
    have h1 : ¬ N ≤ floorZ l := by omega
    simp [h1]

theorem adv_neg_cont (cur d : I64) (hd : d.toInt < 0) (lim : Int) (hlim : forlimit l false = some lim)
    (h : lim ≤ cur.toInt + d.toInt) :
    advfor (.int cur) l (.int d) = some (.int (cur + d)) ∧ (cur + d).toInt = cur.toInt + d.toInt := by
  have hc := toInt_range cur; have hdr := toInt_range d
  have hl := forlimit_neg hn hlim
  have hadd := add_toInt_inrange cur d (by omega) (by omega)
  refine ⟨?_, hadd⟩
  have hnp : ¬ (0 < d.toInt) := by omega
  simp only [advfor, add, isPositive_int, hnp, decide_false, Bool.false_eq_true, if_false]
  rw [isLessOrEqual_exact _ _ hwf rfl, isLessThan_exact _ _ rfl rfl, le_lim_int l hn, num_lt_int_int, hadd]
  have h1 : ceilZ l ≤ cur.toInt + d.toInt := by omega
  have h2 : ¬ (cur.toInt < cur.toInt + d.toInt) := by omega
  simp [h1, h2]

theorem adv_neg_stop (cur d : I64) (hd : d.toInt < 0) (lim : Int) (hlim : forlimit l false = some lim)
    (h : cur.toInt + d.toInt < lim) :
    advfor (.int cur) l (.int d) = none := by
  have hc := toInt_range cur; have hdr := toInt_range d
  have hl := forlimit_neg hn hlim
  have hnp : ¬ (0 < d.toInt) := by omega
  simp only [advfor, add, isPositive_int, hnp, decide_false, Bool.false_eq_true, if_false]
  rw [isLessOrEqual_exact _ _ hwf rfl, isLessThan_exact _ _ rfl rfl, le_lim_int l hn, num_lt_int_int]
  obtain ⟨N, hN⟩ : ∃ N, (cur + d).toInt = N := ⟨_, rfl⟩
  rw [hN]
  by_cases hov : cur.toInt + d.toInt < -9223372036854775808
  · have := add_toInt_under cur d hov
    have h2 : cur.toInt < N := by omega
    simp [h2]
  · have hadd := add_toInt_inrange cur d (by omega) (by omega)
    have h1 : ¬ ceilZ l ≤ N := by omega
    simp [h1]

end step

/-! ### the whole loop -/

theorem loopFrom_none (cap : Nat) (stop step : Num) : loopFrom cap none stop step = [] := by
  cases cap <;> rfl

theorem iter_none (k : Nat) (stop step : Num) : iter k none stop step = none := by
  cases k <;> rfl

/-- number of further advances possible from `C` towards `lim` with step `D > 0` -/
theorem div_step {a D : Int} (hD : 0 < D) (h : D ≤ a) : a / D = (a - D) / D + 1 := by
  have := Int.add_mul_ediv_right (a - D) 1 (Int.ne_of_gt hD)
  rw [Int.one_mul] at this
  rw [← this]; congr 1; omega

theorem div_zero {a D : Int} (h0 : 0 ≤ a) (h : a < D) : a / D = 0 := Int.ediv_eq_zero_of_lt h0 h

theorem ofInt_shift (C D : Int) (i : Nat) :
    BitVec.ofInt 64 (C + ((i + 1 : Nat) : Int) * D) = BitVec.ofInt 64 (C + D + (i : Int) * D) := by
  congr 1
  rw [Int.natCast_succ, Int.add_mul, Int.one_mul]; omega

section loops
variable (l : Num) (hwf : numWF l = true) (hn : l.isNaN = false)
include hwf hn

theorem loop_pos (d : I64) (hd : 0 < d.toInt) (lim : Int) (hlim : forlimit l true = some lim) :
    ∀ (cap : Nat) (cur : I64), cur.toInt ≤ lim →
      loopFrom cap (some (.int cur)) l (.int d) =
        (List.range (min cap (((lim - cur.toInt) / d.toInt).toNat + 1))).map
          (fun (i : Nat) => Num.int (BitVec.ofInt 64 (cur.toInt + (i : Int) * d.toInt))) := by
  intro cap
  induction cap with
  | zero => intro cur _; simp [loopFrom]
  | succ cap ih =>
    intro cur hC
    rw [loopFrom]
    by_cases hstep : cur.toInt + d.toInt ≤ lim
    · obtain ⟨hadv, htoInt⟩ := adv_pos_cont l hwf hn cur d hd lim hlim hstep
      rw [hadv, ih (cur + d) (by omega), htoInt]
      have hdiv : (lim - cur.toInt) / d.toInt = (lim - (cur.toInt + d.toInt)) / d.toInt + 1 := by
        have := div_step hd (a := lim - cur.toInt) (by omega)
        rw [this]; congr 2; omega
      have hnn : 0 ≤ (lim - (cur.toInt + d.toInt)) / d.toInt := Int.ediv_nonneg (by omega) (by omega)
      have hnat : ((lim - cur.toInt) / d.toInt).toNat + 1
          = (((lim - (cur.toInt + d.toInt)) / d.toInt).toNat + 1) + 1 := by rw [hdiv]; omega
      rw [hnat, Nat.succ_min_succ, List.range_succ_eq_map, List.map_cons, List.map_map]
      congr 1
      · simp
      · apply List.map_congr_left
        intro i _
        simp only [Function.comp, Nat.succ_eq_add_one]
        rw [ofInt_shift]
    · have hstop := adv_pos_stop l hwf hn cur d hd lim hlim (by omega)
      rw [hstop, loopFrom_none]
      have hz : (lim - cur.toInt) / d.toInt = 0 := div_zero (by omega) (by omega)
      rw [hz]
      simp

theorem iter_pos (d : I64) (hd : 0 < d.toInt) (lim : Int) (hlim : forlimit l true = some lim) :
    ∀ (k : Nat) (cur : I64), cur.toInt ≤ lim →
      iter k (some (.int cur)) l (.int d) =
        if k < ((lim - cur.toInt) / d.toInt).toNat + 1
        then some (Num.int (BitVec.ofInt 64 (cur.toInt + (k : Int) * d.toInt))) else none := by
  intro k
  induction k with
  | zero => intro cur _; simp [iter]
  | succ k ih =>
    intro cur hC
    rw [iter]
    by_cases hstep : cur.toInt + d.toInt ≤ lim
    · obtain ⟨hadv, htoInt⟩ := adv_pos_cont l hwf hn cur d hd lim hlim hstep
      rw [hadv, ih (cur + d) (by omega), htoInt]
      have hdiv : (lim - cur.toInt) / d.toInt = (lim - (cur.toInt + d.toInt)) / d.toInt + 1 := by
        have := div_step hd (a := lim - cur.toInt) (by omega)
        rw [this]; congr 2; omega
      have hnn : 0 ≤ (lim - (cur.toInt + d.toInt)) / d.toInt := Int.ediv_nonneg (by omega) (by omega)
      have hnat : ((lim - cur.toInt) / d.toInt).toNat + 1
          = (((lim - (cur.toInt + d.toInt)) / d.toInt).toNat + 1) + 1 := by rw [hdiv]; omega
      rw [hnat, ofInt_shift]
      simp only [Nat.add_lt_add_iff_right]
    · have hstop := adv_pos_stop l hwf hn cur d hd lim hlim (by omega)
      rw [hstop, iter_none]
      have hz : (lim - cur.toInt) / d.toInt = 0 := div_zero (by omega) (by omega)
      rw [hz]
      simp

theorem loop_neg (d : I64) (hd : d.toInt < 0) (lim : Int) (hlim : forlimit l false = some lim) :
    ∀ (cap : Nat) (cur : I64), lim ≤ cur.toInt →
      loopFrom cap (some (.int cur)) l (.int d) =
        (List.range (min cap (((cur.toInt - lim) / (-d.toInt)).toNat + 1))).map
          (fun (i : Nat) => Num.int (BitVec.ofInt 64 (cur.toInt + (i : Int) * d.toInt))) := by
  intro cap
  induction cap with
  | zero => intro cur _; simp [loopFrom]
  | succ cap ih =>
    intro cur hC
    rw [loopFrom]
    by_cases hstep : lim ≤ cur.toInt + d.toInt
    · obtain ⟨hadv, htoInt⟩ := adv_neg_cont l hwf hn cur d hd lim hlim hstep
      rw [hadv, ih (cur + d) (by omega), htoInt]
      have hdiv : (cur.toInt - lim) / (-d.toInt) = ((cur.toInt + d.toInt) - lim) / (-d.toInt) + 1 := by
        have := div_step (D := -d.toInt) (by omega) (a := cur.toInt - lim) (by omega)
        rw [this]; congr 2; omega
      have hnn : 0 ≤ ((cur.toInt + d.toInt) - lim) / (-d.toInt) := Int.ediv_nonneg (by omega) (by omega)
      have hnat : ((cur.toInt - lim) / (-d.toInt)).toNat + 1
          = ((((cur.toInt + d.toInt) - lim) / (-d.toInt)).toNat + 1) + 1 := by rw [hdiv]; omega
      rw [hnat, Nat.succ_min_succ, List.range_succ_eq_map, List.map_cons, List.map_map]
      congr 1
      · simp
      · apply List.map_congr_left
        intro i _
        simp only [Function.comp, Nat.succ_eq_add_one]
        rw [ofInt_shift]
    · have hstop := adv_neg_stop l hwf hn cur d hd lim hlim (by omega)
      rw [hstop, loopFrom_none]
      have hz : (cur.toInt - lim) / (-d.toInt) = 0 := div_zero (by omega) (by omega)
      rw [hz]
      simp

theorem iter_neg (d : I64) (hd : d.toInt < 0) (lim : Int) (hlim : forlimit l false = some lim) :
    ∀ (k : Nat) (cur : I64), lim ≤ cur.toInt →
      iter k (some (.int cur)) l (.int d) =
        if k < ((cur.toInt - lim) / (-d.toInt)).toNat + 1
        then some (Num.int (BitVec.ofInt 64 (cur.toInt + (k : Int) * d.toInt))) else none := by
  intro k
  induction k with
  | zero => intro cur _; simp [iter]
  | succ k ih =>
    intro cur hC
    rw [iter]
    by_cases hstep : lim ≤ cur.toInt + d.toInt
    · obtain ⟨hadv, htoInt⟩ := adv_neg_cont l hwf hn cur d hd lim hlim hstep
      rw [hadv, ih (cur + d) (by omega), htoInt]
      have hdiv : (cur.toInt - lim) / (-d.toInt) = ((cur.toInt + d.toInt) - lim) / (-d.toInt) + 1 := by
        have := div_step (D := -d.toInt) (by omega) (a := cur.toInt - lim) (by omega)
        rw [this]; congr 2; omega
      have hnn : 0 ≤ ((cur.toInt + d.toInt) - lim) / (-d.toInt) := Int.ediv_nonneg (by omega) (by omega)
      have hnat : ((cur.toInt - lim) / (-d.toInt)).toNat + 1
          = ((((cur.toInt + d.toInt) - lim) / (-d.toInt)).toNat + 1) + 1 := by rw [hdiv]; omega
      rw [hnat, ofInt_shift]
      simp only [Nat.add_lt_add_iff_right]
    · have hstop := adv_neg_stop l hwf hn cur d hd lim hlim (by omega)
      rw [hstop, iter_none]
      have hz : (cur.toInt - lim) / (-d.toInt) = 0 := div_zero (by omega) (by omega)
      rw [hz]
      simp

end loops

/-! ### prepfor and the assembled statements -/

theorem toInt_ne_zero {d : I64} (hd : d ≠ 0#64) : d.toInt ≠ 0 := by
  intro h
  apply hd
  apply BitVec.eq_of_toInt_eq
  rw [h]; rfl

theorem beq_zero_false {d : I64} (hd : d ≠ 0#64) : (d == 0#64) = false := by
  simp [hd]

theorem count_nan (s d : I64) (l : Num) (hn : l.isNaN = true) : count s l d = 0 := by
  unfold count forlimit
  simp only [hn, if_true]

section whole
variable (s d : I64) (l : Num) (hd : d ≠ 0#64) (hwf : numWF l = true)
include hd hwf

/-- the start register after prepfor: nil exactly when the precomputed count is 0 (NaN limit included) -/
theorem prepfor_int :
    prepfor (.num (.int s)) (.num l) (.num (.int d)) =
      .ok (if count s l d = 0 then none else some (.int s)) l (.int d) := by
  have hdz := toInt_ne_zero hd
  simp only [prepfor, Val.toNum?, Model.For.unify, isZero, beq_zero_false hd, Bool.false_eq_true, if_false,
    isPositive_int]
  congr 1
  cases hn : l.isNaN with
  | true =>
    rw [count_nan s d l hn]
    rw [isLessOrEqual_exact _ _ rfl hwf, isLessOrEqual_exact _ _ hwf rfl, le_nan_right _ l hn, le_nan_left _ l hn]
    simp
  | false =>
  by_cases hpos : 0 < d.toInt
  · simp only [hpos, decide_true, if_true]
    rw [isLessOrEqual_exact _ _ rfl hwf, le_int_lim l hn]
    unfold count
    simp only [hpos, decide_true, if_true]
    cases hlim : forlimit l true with
    | none =>
      have := forlimit_pos_none hn hlim
      have := toInt_range s
      have h1 : ¬ s.toInt ≤ floorZ l := by omega
      simp [h1]
    | some lim =>
      have hl := forlimit_pos hn hlim
      have := toInt_range s
      by_cases h1 : s.toInt ≤ floorZ l
      · have h2 : ¬ lim < s.toInt := by omega
        simp [h1, h2]
      · have h2 : lim < s.toInt := by omega
        simp [h1, h2]
  · have hneg : d.toInt < 0 := by omega
    simp only [hpos, decide_false, Bool.false_eq_true, if_false]
    rw [isLessOrEqual_exact _ _ hwf rfl, le_lim_int l hn]
    unfold count
    simp only [hpos, decide_false, Bool.false_eq_true, if_false]
    cases hlim : forlimit l false with
    | none =>
      have := forlimit_neg_none hn hlim
      have := toInt_range s
      have h1 : ¬ ceilZ l ≤ s.toInt := by omega
      simp [h1]
    | some lim =>
      have hl := forlimit_neg hn hlim
      have := toInt_range s
      by_cases h1 : ceilZ l ≤ s.toInt
      · have h2 : ¬ s.toInt < lim := by omega
        simp [h1, h2]
      · have h2 : s.toInt < lim := by omega
        simp [h1, h2]

theorem loop_int (cap : Nat) :
    loopFrom cap (if count s l d = 0 then none else some (.int s)) l (.int d) = intValues cap s l d := by
  have hdz := toInt_ne_zero hd
  unfold intValues
  by_cases hc : count s l d = 0
  · rw [if_pos hc, loopFrom_none, hc]; simp
  · rw [if_neg hc]
    have hn : l.isNaN = false := by
      cases hh : l.isNaN with
      | false => rfl
      | true => exact absurd (count_nan s d l hh) hc
    by_cases hpos : 0 < d.toInt
    · unfold count at hc ⊢
      simp only [hpos, decide_true, if_true] at hc ⊢
      cases hlim : forlimit l true with
      | none => rw [hlim] at hc; simp at hc
      | some lim =>
        rw [hlim] at hc
        simp only at hc ⊢
        by_cases h2 : lim < s.toInt
        · simp [h2] at hc
        · simp only [h2, if_false]
          exact loop_pos l hwf hn d hpos lim hlim cap s (by omega)
    · have hneg : d.toInt < 0 := by omega
      unfold count at hc ⊢
      simp only [hpos, decide_false, Bool.false_eq_true, if_false] at hc ⊢
      cases hlim : forlimit l false with
      | none => rw [hlim] at hc; simp at hc
      | some lim =>
        rw [hlim] at hc
        simp only at hc ⊢
        by_cases h2 : s.toInt < lim
        · simp [h2] at hc
        · simp only [h2, if_false]
          exact loop_neg l hwf hn d hneg lim hlim cap s (by omega)

theorem iter_int (k : Nat) :
    iter k (if count s l d = 0 then none else some (.int s)) l (.int d) =
      if k < count s l d then some (.int (value s d k)) else none := by
  have hdz := toInt_ne_zero hd
  by_cases hc : count s l d = 0
  · rw [if_pos hc, iter_none, hc]; simp
  · rw [if_neg hc]
    have hn : l.isNaN = false := by
      cases hh : l.isNaN with
      | false => rfl
      | true => exact absurd (count_nan s d l hh) hc
    by_cases hpos : 0 < d.toInt
    · unfold count at hc ⊢
      simp only [hpos, decide_true, if_true] at hc ⊢
      cases hlim : forlimit l true with
      | none => rw [hlim] at hc; simp at hc
      | some lim =>
        rw [hlim] at hc
        simp only at hc ⊢
        by_cases h2 : lim < s.toInt
        · simp [h2] at hc
        · simp only [h2, if_false]
          exact iter_pos l hwf hn d hpos lim hlim k s (by omega)
    · have hneg : d.toInt < 0 := by omega
      unfold count at hc ⊢
      simp only [hpos, decide_false, Bool.false_eq_true, if_false] at hc ⊢
      cases hlim : forlimit l false with
      | none => rw [hlim] at hc; simp at hc
      | some lim =>
        rw [hlim] at hc
        simp only at hc ⊢
        by_cases h2 : s.toInt < lim
        · simp [h2] at hc
        · simp only [h2, if_false]
          exact iter_neg l hwf hn d hneg lim hlim k s (by omega)

end whole

end GoluaVerif.Proofs.ForLoop
