/-
  Proofs.F64Lemmas — facts about the exact binary64 model (`Base.F64`): rounding of
  naturals to 53 bits, representability, `float64(n)`, `int64(f)`, and the
  "float has an exact int64 value" test `float64(int64(f)) == f`.
  Core Lean only.
-/
import GoluaVerif.Base.F64
import GoluaVerif.Spec.Num
namespace GoluaVerif.Proofs
open GoluaVerif

/-! ### the unit -/

set_option exponentiation.threshold 4096 in
theorem scale_pos : 0 < F64.scale := by
  unfold F64.scale; exact Nat.two_pow_pos _

theorem scale_pos_int : (0 : Int) < (F64.scale : Int) := Int.natCast_pos.mpr scale_pos

theorem scale_eq : F64.scale = 2 ^ 1074 := by
  unfold F64.scale; exact Eq.refl _

/-! ### roundNat -/

theorem roundNat_of_lt {a : Nat} (h : a < 2 ^ 53) : F64.roundNat a = a := by
  unfold F64.roundNat
  rw [if_pos h]

/-- shape of the rounding above 2^53: exponent `k ≥ 1`, quotient in [2^52, 2^53) -/
theorem round_shape {a : Nat} (h : 2 ^ 53 ≤ a) :
    1 ≤ a.log2 - 52 ∧ 2 ^ 52 ≤ a / 2 ^ (a.log2 - 52) ∧ a / 2 ^ (a.log2 - 52) < 2 ^ 53 := by
  have ha : a ≠ 0 := by
    intro h0; subst h0; simp at h
  have hl : 53 ≤ a.log2 := (Nat.le_log2 ha).mpr h
  have h1 := Nat.log2_self_le ha
  have h2 := @Nat.lt_log2_self a
  have e1 : 2 ^ a.log2 = 2 ^ 52 * 2 ^ (a.log2 - 52) := by
    rw [← Nat.pow_add]; congr 1; omega
  have e2 : 2 ^ (a.log2 + 1) = 2 ^ 53 * 2 ^ (a.log2 - 52) := by
    rw [← Nat.pow_add]; congr 1; omega
  have hp : 0 < 2 ^ (a.log2 - 52) := Nat.two_pow_pos _
  refine ⟨by omega, ?_, ?_⟩
  · rw [Nat.le_div_iff_mul_le hp, ← e1]; exact h1
  · rw [Nat.div_lt_iff_lt_mul hp, ← e2]; exact h2

theorem roundNat_big {a : Nat} (h : 2 ^ 53 ≤ a) :
    F64.roundNat a =
      (if 2 ^ (a.log2 - 52 - 1) < a % 2 ^ (a.log2 - 52) ∨
          (a % 2 ^ (a.log2 - 52) = 2 ^ (a.log2 - 52 - 1) ∧ a / 2 ^ (a.log2 - 52) % 2 = 1)
        then a / 2 ^ (a.log2 - 52) + 1 else a / 2 ^ (a.log2 - 52)) * 2 ^ (a.log2 - 52) := by
  unfold F64.roundNat
  rw [if_neg (by omega)]

/-- above 2^53 a number is a fixed point of the rounding iff its low `log2 a - 52` bits are zero -/
theorem roundNat_eq_self_iff {a : Nat} (h : 2 ^ 53 ≤ a) :
    F64.roundNat a = a ↔ a % 2 ^ (a.log2 - 52) = 0 := by
  have hs := round_shape h
  rw [roundNat_big h]
  generalize hk : a.log2 - 52 = k at *
  have hp : 0 < 2 ^ k := Nat.two_pow_pos _
  have hhalf : 0 < 2 ^ (k - 1) := Nat.two_pow_pos _
  have hdm := Nat.div_add_mod a (2 ^ k)
  have hml := Nat.mod_lt a hp
  generalize a / 2 ^ k = q at *
  generalize a % 2 ^ k = r at *
  rw [Nat.mul_comm] at hdm
  constructor
  · intro he
    split at he
    · rw [Nat.add_mul] at he; omega
    · omega
  · intro hr
    subst hr
    rw [if_neg (by omega)]
    omega

theorem roundNat_ge_of_ge {a : Nat} (h : 2 ^ 53 ≤ a) : 2 ^ 53 ≤ F64.roundNat a := by
  have hs := round_shape h
  rw [roundNat_big h]
  generalize hk : a.log2 - 52 = k at *
  have h2 : 2 ^ 1 ≤ 2 ^ k := Nat.pow_le_pow_right (by decide) hs.1
  generalize a / 2 ^ k = q at *
  generalize a % 2 ^ k = r at *
  have : 2 ^ 52 * 2 ^ 1 ≤ q * 2 ^ k := Nat.mul_le_mul hs.2.1 h2
  split
  · rw [Nat.add_mul]; omega
  · omega

theorem log2_mul_two_pow {t : Nat} (h : t ≠ 0) (j : Nat) : (t * 2 ^ j).log2 = t.log2 + j := by
  have hp : 0 < 2 ^ j := Nat.two_pow_pos _
  have h1 := Nat.log2_self_le h
  have h2 := @Nat.lt_log2_self t
  rw [Nat.log2_eq_iff (Nat.mul_ne_zero h (by omega))]
  constructor
  · rw [Nat.pow_add]; exact Nat.mul_le_mul_right _ h1
  · rw [show t.log2 + j + 1 = (t.log2 + 1) + j by omega, Nat.pow_add]
    exact Nat.mul_lt_mul_of_pos_right h2 hp

/-- if `t·2^j` has at most 53 significant bits then so has `t` -/
theorem roundNat_fix_of_scaled {t j : Nat} (h : F64.roundNat (t * 2 ^ j) = t * 2 ^ j) :
    F64.roundNat t = t := by
  by_cases ht : t < 2 ^ 53
  · exact roundNat_of_lt ht
  · have ht' : 2 ^ 53 ≤ t := by omega
    have hp : 0 < 2 ^ j := Nat.two_pow_pos _
    have hb : 2 ^ 53 ≤ t * 2 ^ j := Nat.le_trans ht' (Nat.le_mul_of_pos_right _ hp)
    have ht0 : t ≠ 0 := by omega
    have hl : 53 ≤ t.log2 := (Nat.le_log2 ht0).mpr ht'
    rw [roundNat_eq_self_iff hb, log2_mul_two_pow ht0] at h
    rw [roundNat_eq_self_iff ht']
    rw [show t.log2 + j - 52 = (t.log2 - 52) + j by omega, Nat.pow_add] at h
    have hd : 2 ^ (t.log2 - 52) * 2 ^ j ∣ t * 2 ^ j := Nat.dvd_of_mod_eq_zero h
    exact Nat.mod_eq_zero_of_dvd (Nat.dvd_of_mul_dvd_mul_right hp hd)

/-- a number with at most 53 significant bits that is at least 2^(52+j) is a multiple of 2^j -/
theorem dvd_of_roundNat_fix_of_ge {m j : Nat} (h : F64.roundNat m = m) (hm : 2 ^ (52 + j) ≤ m) :
    2 ^ j ∣ m := by
  by_cases hj : j = 0
  · subst hj; exact Nat.one_dvd _
  have hm0 : m ≠ 0 := by
    intro h0; subst h0
    have := Nat.two_pow_pos (52 + j); omega
  have h53 : 2 ^ 53 ≤ m :=
    Nat.le_trans (Nat.pow_le_pow_right (by decide) (by omega)) hm
  have hl : 52 + j ≤ m.log2 := (Nat.le_log2 hm0).mpr hm
  rw [roundNat_eq_self_iff h53] at h
  have hd : 2 ^ (m.log2 - 52) ∣ m := Nat.dvd_of_mod_eq_zero h
  exact Nat.dvd_trans (Nat.pow_dvd_pow 2 (by omega)) hd

/-- numbers of the form `q·2^k` with `q < 2^53` are fixed points of the rounding -/
theorem roundNat_idem_of_repr {a q k : Nat} (ha : a = q * 2 ^ k) (hq : q < 2 ^ 53) :
    F64.roundNat a = a := by
  subst ha
  by_cases hlt : q * 2 ^ k < 2 ^ 53
  · exact roundNat_of_lt hlt
  · have hge : 2 ^ 53 ≤ q * 2 ^ k := by omega
    have hq0 : q ≠ 0 := by
      intro h0; subst h0; simp at hge
    have hl : q.log2 < 53 := (Nat.log2_lt hq0).mpr hq
    rw [roundNat_eq_self_iff hge, log2_mul_two_pow hq0]
    apply Nat.mod_eq_zero_of_dvd
    exact Nat.dvd_trans (Nat.pow_dvd_pow 2 (by omega)) (Nat.dvd_mul_left _ _)

/-- above 2^53 the result lies between the enclosing powers of two -/
theorem roundNat_bounds {a : Nat} (h : 2 ^ 53 ≤ a) :
    2 ^ a.log2 ≤ F64.roundNat a ∧ F64.roundNat a ≤ 2 ^ (a.log2 + 1) := by
  have hs := round_shape h
  have ha : a ≠ 0 := by
    intro h0; subst h0; simp at h
  have hl : 53 ≤ a.log2 := (Nat.le_log2 ha).mpr h
  have e1 : 2 ^ a.log2 = 2 ^ 52 * 2 ^ (a.log2 - 52) := by
    rw [← Nat.pow_add]; congr 1; omega
  have e2 : 2 ^ (a.log2 + 1) = 2 ^ 53 * 2 ^ (a.log2 - 52) := by
    rw [← Nat.pow_add]; congr 1; omega
  rw [roundNat_big h, e1, e2]
  generalize a.log2 - 52 = k at *
  generalize a / 2 ^ k = q at *
  generalize a % 2 ^ k = r at *
  constructor
  · apply Nat.mul_le_mul_right
    split <;> omega
  · apply Nat.mul_le_mul_right
    split <;> omega

/-- the rounding error is at most half a unit in the last place (`2^(log2 a - 53)`) -/
theorem roundNat_error {a : Nat} (h : 2 ^ 53 ≤ a) :
    a ≤ F64.roundNat a + 2 ^ (a.log2 - 52 - 1) ∧ F64.roundNat a ≤ a + 2 ^ (a.log2 - 52 - 1) := by
  have hs := round_shape h
  rw [roundNat_big h]
  generalize hk : a.log2 - 52 = k at *
  have hp : 0 < 2 ^ k := Nat.two_pow_pos _
  have h2 : 2 ^ k = 2 * 2 ^ (k - 1) := by
    rw [← Nat.pow_succ']; congr 1; omega
  have hdm := Nat.div_add_mod a (2 ^ k)
  have hml := Nat.mod_lt a hp
  generalize a / 2 ^ k = q at *
  generalize a % 2 ^ k = r at *
  rw [Nat.mul_comm] at hdm
  generalize 2 ^ (k - 1) = hf at *
  split
  · rw [Nat.add_mul]; omega
  · omega

theorem roundNat_mono {a b : Nat} (hab : a ≤ b) : F64.roundNat a ≤ F64.roundNat b := by
  by_cases hb : b < 2 ^ 53
  · rw [roundNat_of_lt hb, roundNat_of_lt (by omega)]; exact hab
  have hb' : 2 ^ 53 ≤ b := by omega
  by_cases ha : a < 2 ^ 53
  · rw [roundNat_of_lt ha]
    have := roundNat_ge_of_ge hb'
    omega
  have ha' : 2 ^ 53 ≤ a := by omega
  have ha0 : a ≠ 0 := by omega
  have hb0 : b ≠ 0 := by omega
  have hll : a.log2 ≤ b.log2 :=
    (Nat.le_log2 hb0).mpr (Nat.le_trans (Nat.log2_self_le ha0) hab)
  by_cases hlt : a.log2 < b.log2
  · have h1 := (roundNat_bounds ha').2
    have h2 := (roundNat_bounds hb').1
    have h3 : 2 ^ (a.log2 + 1) ≤ 2 ^ b.log2 := Nat.pow_le_pow_right (by decide) hlt
    omega
  · have heq : a.log2 = b.log2 := by omega
    rw [roundNat_big ha', roundNat_big hb', heq]
    generalize b.log2 - 52 = k
    have hp : 0 < 2 ^ k := Nat.two_pow_pos _
    have hda := Nat.div_add_mod a (2 ^ k)
    have hdb := Nat.div_add_mod b (2 ^ k)
    have hma := Nat.mod_lt a hp
    have hmb := Nat.mod_lt b hp
    have hq : a / 2 ^ k ≤ b / 2 ^ k := Nat.div_le_div_right hab
    generalize a / 2 ^ k = qa at *
    generalize b / 2 ^ k = qb at *
    generalize a % 2 ^ k = ra at *
    generalize b % 2 ^ k = rb at *
    apply Nat.mul_le_mul_right
    by_cases hqq : qa = qb
    · subst hqq
      have : ra ≤ rb := by omega
      split <;> split <;> omega
    · split <;> split <;> omega

theorem roundNat_idem (a : Nat) : F64.roundNat (F64.roundNat a) = F64.roundNat a := by
  by_cases ha : a < 2 ^ 53
  · rw [roundNat_of_lt ha, roundNat_of_lt ha]
  have ha' : 2 ^ 53 ≤ a := by omega
  have hs := round_shape ha'
  rw [roundNat_big ha']
  generalize a.log2 - 52 = k at *
  generalize a / 2 ^ k = q at *
  generalize a % 2 ^ k = r at *
  split
  · by_cases hq : q + 1 < 2 ^ 53
    · exact roundNat_idem_of_repr rfl hq
    · have : q + 1 = 2 ^ 53 := by omega
      rw [this, ← Nat.pow_add]
      exact roundNat_idem_of_repr (q := 1) (k := 53 + k) (by simp) (by decide)
  · exact roundNat_idem_of_repr rfl hs.2.2

/-! ### representability (`magOK`) -/

theorem magOK_round {m : Nat} (h : F64.magOK m = true) : F64.roundNat m = m := by
  unfold F64.magOK at h
  rw [Bool.and_eq_true] at h
  exact eq_of_beq h.1

set_option exponentiation.threshold 4096 in
/-- a representable double of magnitude ≥ 2^52 is an integer -/
theorem magOK_int_of_ge {m : Nat} (h : F64.magOK m = true) (hm : 2 ^ 52 * F64.scale ≤ m) :
    F64.scale ∣ m := by
  rw [scale_eq] at hm ⊢
  rw [← Nat.pow_add] at hm
  exact dvd_of_roundNat_fix_of_ge (magOK_round h) hm

/-- if a representable double is an integer `t` (in units: `t * scale`), `t` itself has ≤ 53 bits -/
theorem magOK_round_quot {t : Nat} (h : F64.magOK (t * F64.scale) = true) : F64.roundNat t = t := by
  have := magOK_round h
  rw [scale_eq] at this
  exact roundNat_fix_of_scaled this

/-! ### float64(n) -/

theorem ofInt_isNaN (z : Int) : (F64.ofInt z).isNaN = false := rfl

theorem ofI64_isNaN (n : I64) : (F64.ofI64 n).isNaN = false := rfl

theorem ofInt_key (z : Int) :
    (F64.ofInt z).key =
      if z < 0 then -((F64.roundNat z.natAbs * F64.scale : Nat) : Int)
      else ((F64.roundNat z.natAbs * F64.scale : Nat) : Int) := by
  unfold F64.ofInt
  by_cases hz : z < 0
  · simp only [hz, decide_true, F64.key, if_true]
  · simp only [hz, decide_false, F64.key, if_false]

/-- `float64(z)` is exact when `|z|` has at most 53 significant bits -/
theorem ofInt_key_of_fix {z : Int} (h : F64.roundNat z.natAbs = z.natAbs) :
    (F64.ofInt z).key = z * (F64.scale : Int) := by
  rw [ofInt_key, h, Int.natCast_mul]
  by_cases hz : z < 0
  · rw [if_pos hz, show (z.natAbs : Int) = -z by omega, Int.neg_mul, Int.neg_neg]
  · rw [if_neg hz, show (z.natAbs : Int) = z by omega]

theorem ofInt_key_of_small {z : Int} (h : z.natAbs < 2 ^ 53) :
    (F64.ofInt z).key = z * (F64.scale : Int) :=
  ofInt_key_of_fix (roundNat_of_lt h)

/-- the value of `float64(z)` is always an integer -/
theorem ofInt_key_dvd (z : Int) : (F64.scale : Int) ∣ (F64.ofInt z).key := by
  rw [ofInt_key, Int.natCast_mul]
  split
  · exact Int.dvd_neg.mpr (Int.dvd_mul_left _ _)
  · exact Int.dvd_mul_left _ _

theorem ofInt_key_ge {z : Int} (h : 2 ^ 53 ≤ z) :
    2 ^ 53 * (F64.scale : Int) ≤ (F64.ofInt z).key := by
  have h1 : 2 ^ 53 ≤ z.natAbs := by omega
  have h2 := roundNat_ge_of_ge h1
  have h3 : 2 ^ 53 * F64.scale ≤ F64.roundNat z.natAbs * F64.scale := Nat.mul_le_mul_right _ h2
  rw [ofInt_key, if_neg (by omega)]
  have h4 : ((2 ^ 53 * F64.scale : Nat) : Int) ≤ ((F64.roundNat z.natAbs * F64.scale : Nat) : Int) :=
    Int.ofNat_le.mpr h3
  rw [Int.natCast_mul] at h4
  simpa using h4

theorem ofInt_key_le {z : Int} (h : z ≤ -2 ^ 53) :
    (F64.ofInt z).key ≤ -(2 ^ 53 * (F64.scale : Int)) := by
  have h1 : 2 ^ 53 ≤ z.natAbs := by omega
  have h2 := roundNat_ge_of_ge h1
  have h3 : 2 ^ 53 * F64.scale ≤ F64.roundNat z.natAbs * F64.scale := Nat.mul_le_mul_right _ h2
  rw [ofInt_key, if_pos (by omega)]
  have h4 : ((2 ^ 53 * F64.scale : Nat) : Int) ≤ ((F64.roundNat z.natAbs * F64.scale : Nat) : Int) :=
    Int.ofNat_le.mpr h3
  rw [Int.natCast_mul] at h4
  have h5 : ((2 ^ 53 : Nat) : Int) = 2 ^ 53 := by simp
  rw [h5] at h4
  omega

/-- Comparing `float64(z)` with a value `x` of magnitude below 2^53 gives the same answer as
comparing `z` itself with `x`: either the conversion is exact, or `|z| ≥ 2^53` and rounding keeps
it at or beyond ±2^53. -/
theorem ofInt_key_cmp (z x : Int)
    (hlo : -(2 ^ 53 * (F64.scale : Int)) < x) (hhi : x < 2 ^ 53 * (F64.scale : Int)) :
    ((F64.ofInt z).key < x ↔ z * (F64.scale : Int) < x) ∧
    ((F64.ofInt z).key ≤ x ↔ z * (F64.scale : Int) ≤ x) ∧
    (x < (F64.ofInt z).key ↔ x < z * (F64.scale : Int)) ∧
    (x ≤ (F64.ofInt z).key ↔ x ≤ z * (F64.scale : Int)) ∧
    ((F64.ofInt z).key = x ↔ z * (F64.scale : Int) = x) := by
  have hS := scale_pos_int
  by_cases h1 : 2 ^ 53 ≤ z
  · have := ofInt_key_ge h1
    have h2 : 2 ^ 53 * (F64.scale : Int) ≤ z * (F64.scale : Int) :=
      Int.mul_le_mul_of_nonneg_right h1 (Int.le_of_lt hS)
    omega
  · by_cases h3 : z ≤ -2 ^ 53
    · have := ofInt_key_le h3
      have h2 : z * (F64.scale : Int) ≤ (-2 ^ 53) * (F64.scale : Int) :=
        Int.mul_le_mul_of_nonneg_right h3 (Int.le_of_lt hS)
      rw [Int.neg_mul] at h2
      omega
    · rw [ofInt_key_of_small (by omega)]
      simp

theorem roundNat_two63 : F64.roundNat (2 ^ 63) = 2 ^ 63 := by decide

theorem roundNat_le_two63 {a : Nat} (h : a ≤ 2 ^ 63) : F64.roundNat a ≤ 2 ^ 63 := by
  have := roundNat_mono h
  rw [roundNat_two63] at this
  exact this

theorem ofInt_two63_key : (F64.ofInt 9223372036854775808).key = 2 ^ 63 * (F64.scale : Int) :=
  ofInt_key_of_fix (z := 9223372036854775808) roundNat_two63

theorem ofInt_neg_two63_key :
    (F64.ofInt (-9223372036854775808)).key = -(2 ^ 63 * (F64.scale : Int)) := by
  have h : F64.roundNat (-9223372036854775808 : Int).natAbs = (-9223372036854775808 : Int).natAbs := by
    decide
  rw [ofInt_key_of_fix h, Int.neg_mul]
  omega

theorem minInt_toInt : I64.minInt.toInt = -2 ^ 63 := by decide

theorem ofI64_minInt_key : (F64.ofI64 I64.minInt).key = -(2 ^ 63 * (F64.scale : Int)) := by
  unfold F64.ofI64
  rw [minInt_toInt]
  exact ofInt_neg_two63_key

set_option exponentiation.threshold 4096 in
theorem two63_scale_lt_huge : 2 ^ 63 * (F64.scale : Int) < (F64.huge : Int) := by
  unfold F64.scale F64.huge
  decide

/-! ### IEEE comparisons at the level of keys -/

theorem blt_key {a b : F64} (ha : a.isNaN = false) (hb : b.isNaN = false) :
    F64.blt a b = decide (a.key < b.key) := by
  unfold F64.blt; rw [ha, hb]; rfl

theorem ble_key {a b : F64} (ha : a.isNaN = false) (hb : b.isNaN = false) :
    F64.ble a b = decide (a.key ≤ b.key) := by
  unfold F64.ble; rw [ha, hb]; rfl

theorem beq_key {a b : F64} (ha : a.isNaN = false) (hb : b.isNaN = false) :
    F64.beq a b = decide (a.key = b.key) := by
  unfold F64.beq; rw [ha, hb]; rfl

theorem blt_nan_right (a : F64) : F64.blt a .nan = false := by
  unfold F64.blt; simp [F64.isNaN]
theorem blt_nan_left (a : F64) : F64.blt .nan a = false := by
  unfold F64.blt; simp [F64.isNaN]
theorem ble_nan_right (a : F64) : F64.ble a .nan = false := by
  unfold F64.ble; simp [F64.isNaN]
theorem ble_nan_left (a : F64) : F64.ble .nan a = false := by
  unfold F64.ble; simp [F64.isNaN]
theorem beq_nan_right (a : F64) : F64.beq a .nan = false := by
  unfold F64.beq; simp [F64.isNaN]

/-! ### int64(f) and the exact-integer test -/

/-- The three kinds of well-formed doubles, as seen by the mixed comparison code:
* `exact`: `f` has an exact int64 value `z`: `int64(f) = z`, `float64(z) == f`;
* otherwise `float64(int64(f)) == f` is false, and `f` is NaN, or `f ≥ 2^63`, or `f < -2^63`,
  or `|f| < 2^52` and `f` is not an integer (every double of magnitude ≥ 2^52 is an integer). -/
theorem classify (f : F64) (hf : f.WF = true) :
    (∃ z : I64, Spec.Num.floatToInt? f = some z ∧ F64.toI64 f = z ∧ f.isNaN = false ∧
        f.key = z.toInt * (F64.scale : Int) ∧ F64.beq (F64.ofI64 (F64.toI64 f)) f = true) ∨
    (Spec.Num.floatToInt? f = none ∧ F64.beq (F64.ofI64 (F64.toI64 f)) f = false ∧
      (f.isNaN = true ∨ (f.isNaN = false ∧
        (2 ^ 63 * (F64.scale : Int) ≤ f.key ∨ f.key < -(2 ^ 63 * (F64.scale : Int)) ∨
          (-(2 ^ 52 * (F64.scale : Int)) < f.key ∧ f.key < 2 ^ 52 * (F64.scale : Int) ∧
            ¬ (F64.scale : Int) ∣ f.key))))) := by
  have hS := scale_pos_int
  have hH := two63_scale_lt_huge
  cases f with
  | nan =>
    right
    exact ⟨rfl, beq_nan_right _, Or.inl rfl⟩
  | inf b =>
    right
    refine ⟨rfl, ?_, Or.inr ⟨rfl, ?_⟩⟩
    · rw [beq_key (ofI64_isNaN _) (rfl : (F64.inf b).isNaN = false)]
      have hk : (F64.ofI64 (F64.toI64 (F64.inf b))).key = -(2 ^ 63 * (F64.scale : Int)) :=
        ofI64_minInt_key
      rw [hk, decide_eq_false_iff_not]
      cases b <;> simp only [F64.key] <;> omega
    · cases b <;> simp only [F64.key] <;> omega
  | fin neg m =>
    have hm : F64.magOK m = true := hf
    have hdm := Nat.div_add_mod m F64.scale
    have hml := Nat.mod_lt m scale_pos
    have hSn := scale_pos
    -- the truncated value
    generalize ht : m / F64.scale = t at hdm
    generalize hr : m % F64.scale = r at hdm hml
    have hmI : (m : Int) = (F64.scale : Int) * (t : Int) + (r : Int) := by
      rw [← hdm]; simp [Int.natCast_mul]
    have hnan : (F64.fin neg m).isNaN = false := rfl
    by_cases hrange : -(2 ^ 63 : Int) ≤ (if neg = true then -(t : Int) else (t : Int)) ∧
        (if neg = true then -(t : Int) else (t : Int)) < (2 ^ 63 : Int)
    · -- in range: int64(f) is the truncation
      have htoI : F64.toI64 (F64.fin neg m) =
          BitVec.ofInt 64 (if neg = true then -(t : Int) else (t : Int)) := by
        simp only [F64.toI64, ht]; rw [if_pos hrange]
      have htoInt : (F64.toI64 (F64.fin neg m)).toInt =
          (if neg = true then -(t : Int) else (t : Int)) := by
        rw [htoI]
        exact BitVec.toInt_ofInt_eq_self (by decide) (by simpa using hrange.1) (by simpa using hrange.2)
      by_cases hr0 : r = 0
      · left
        subst hr0
        have hmt : m = t * F64.scale := by rw [← hdm, Nat.add_zero, Nat.mul_comm]
        have hfix : F64.roundNat t = t := magOK_round_quot (by rw [← hmt]; exact hm)
        have hkey : (F64.fin neg m).key = (F64.toI64 (F64.fin neg m)).toInt * (F64.scale : Int) := by
          rw [htoInt, hmt]
          cases neg <;> simp [F64.key, Int.natCast_mul, Int.neg_mul]
        refine ⟨_, ?_, rfl, rfl, hkey, ?_⟩
        · simp only [Spec.Num.floatToInt?, hr, ht, if_true]; rw [if_pos hrange, htoI]
        · rw [beq_key (ofI64_isNaN _) hnan, hkey]
          unfold F64.ofI64
          rw [ofInt_key_of_fix]
          · simp
          · rw [htoInt]
            cases neg <;> simpa using hfix
      · right
        have hsmall : m < 2 ^ 52 * F64.scale := by
          apply Nat.lt_of_not_le
          intro hge
          have := Nat.mod_eq_zero_of_dvd (magOK_int_of_ge hm hge)
          omega
        have hsmallI : (m : Int) < 2 ^ 52 * (F64.scale : Int) := by
          have : ((m : Nat) : Int) < ((2 ^ 52 * F64.scale : Nat) : Int) := Int.ofNat_lt.mpr hsmall
          rw [Int.natCast_mul] at this
          simpa using this
        refine ⟨?_, ?_, Or.inr ⟨rfl, Or.inr (Or.inr ?_)⟩⟩
        · simp only [Spec.Num.floatToInt?, hr]; rw [if_neg hr0]
        · rw [beq_key (ofI64_isNaN _) hnan, decide_eq_false_iff_not]
          intro he
          have hd := ofInt_key_dvd (F64.toI64 (F64.fin neg m)).toInt
          unfold F64.ofI64 at he
          rw [he] at hd
          have hd' : (F64.scale : Int) ∣ (m : Int) := by
            cases neg
            · exact hd
            · exact Int.dvd_neg.mp hd
          have := Nat.mod_eq_zero_of_dvd (Int.natCast_dvd_natCast.mp hd')
          omega
        · have hnd : ¬ (F64.scale : Int) ∣ (m : Int) := by
            intro hd'
            have := Nat.mod_eq_zero_of_dvd (Int.natCast_dvd_natCast.mp hd')
            omega
          cases neg <;> simp only [F64.key]
          · exact ⟨by omega, by omega, hnd⟩
          · exact ⟨by omega, by omega, fun h => hnd (Int.dvd_neg.mp h)⟩
    · -- out of range: int64(f) = minInt
      right
      have htoI : F64.toI64 (F64.fin neg m) = I64.minInt := by
        simp only [F64.toI64, ht]; rw [if_neg hrange]
      have hbig : neg = false ∧ 2 ^ 63 * (F64.scale : Int) ≤ (m : Int) ∨
          neg = true ∧ 2 ^ 63 * (F64.scale : Int) < (m : Int) := by
        cases neg
        · left
          simp only [Bool.false_eq_true, if_false] at hrange
          have h1 : (2 ^ 63 : Int) ≤ (t : Int) := by omega
          have h2 := Int.mul_le_mul_of_nonneg_left h1 (Int.le_of_lt hS)
          rw [Int.mul_comm] at h2
          exact ⟨rfl, by omega⟩
        · right
          simp only [if_true] at hrange
          have h1 : (2 ^ 63 + 1 : Int) ≤ (t : Int) := by omega
          have h2 := Int.mul_le_mul_of_nonneg_left h1 (Int.le_of_lt hS)
          rw [Int.mul_add, Int.mul_one, Int.mul_comm] at h2
          exact ⟨rfl, by omega⟩
      refine ⟨?_, ?_, Or.inr ⟨rfl, ?_⟩⟩
      · simp only [Spec.Num.floatToInt?, hr, ht]
        split
        · first | rw [if_neg hrange] | rfl
        · rfl
      · rw [beq_key (ofI64_isNaN _) hnan, decide_eq_false_iff_not, htoI, ofI64_minInt_key]
        rcases hbig with ⟨hn, hb⟩ | ⟨hn, hb⟩ <;> subst hn <;> simp only [F64.key] <;> omega
      · rcases hbig with ⟨hn, hb⟩ | ⟨hn, hb⟩ <;> subst hn <;> simp only [F64.key] <;> omega

/-! ### pieces of the mixed comparison -/

theorem ble_two63 {f : F64} (h : f.isNaN = false) :
    F64.ble (F64.ofInt 9223372036854775808) f = decide (2 ^ 63 * (F64.scale : Int) ≤ f.key) := by
  rw [ble_key (ofInt_isNaN _) h, ofInt_two63_key]

theorem blt_neg_two63 {f : F64} (h : f.isNaN = false) :
    F64.blt f (F64.ofInt (-9223372036854775808)) =
      decide (f.key < -(2 ^ 63 * (F64.scale : Int))) := by
  rw [blt_key h (ofInt_isNaN _), ofInt_neg_two63_key]

/-- every int64, in units, lies in [-2^63·scale, 2^63·scale) -/
theorem int_key_bounds (n : I64) :
    -(2 ^ 63 * (F64.scale : Int)) ≤ n.toInt * (F64.scale : Int) ∧
      n.toInt * (F64.scale : Int) < 2 ^ 63 * (F64.scale : Int) := by
  have hS := scale_pos_int
  have h1 : -2 ^ 63 ≤ n.toInt := by have := @BitVec.le_toInt 64 n; omega
  have h2 : n.toInt < 2 ^ 63 := by have := @BitVec.toInt_lt 64 n; omega
  have h3 := Int.mul_le_mul_of_nonneg_right h1 (Int.le_of_lt hS)
  have h4 := Int.mul_lt_mul_of_pos_right h2 hS
  rw [Int.neg_mul] at h3
  exact ⟨h3, h4⟩

theorem mul_scale_lt {a b : Int} : a * (F64.scale : Int) < b * (F64.scale : Int) ↔ a < b :=
  Int.mul_lt_mul_right scale_pos_int

theorem mul_scale_le {a b : Int} : a * (F64.scale : Int) ≤ b * (F64.scale : Int) ↔ a ≤ b :=
  Int.mul_le_mul_right scale_pos_int

theorem mul_scale_eq {a b : Int} : a * (F64.scale : Int) = b * (F64.scale : Int) ↔ a = b :=
  ⟨fun h => Int.eq_of_mul_eq_mul_right (Int.ne_of_gt scale_pos_int) h, fun h => by rw [h]⟩

theorem num_lt_int_flt (n : I64) {f : F64} (h : f.isNaN = false) :
    Spec.Num.lt (.int n) (.flt f) = decide (n.toInt * (F64.scale : Int) < f.key) := by
  simp only [Spec.Num.lt, Spec.Num.isNaN, Spec.Num.key, F64.intKey, h, Bool.not_false, Bool.true_and]
  rfl
theorem num_lt_flt_int (n : I64) {f : F64} (h : f.isNaN = false) :
    Spec.Num.lt (.flt f) (.int n) = decide (f.key < n.toInt * (F64.scale : Int)) := by
  simp only [Spec.Num.lt, Spec.Num.isNaN, Spec.Num.key, F64.intKey, h, Bool.not_false, Bool.true_and]
  rfl
theorem num_le_int_flt (n : I64) {f : F64} (h : f.isNaN = false) :
    Spec.Num.le (.int n) (.flt f) = decide (n.toInt * (F64.scale : Int) ≤ f.key) := by
  simp only [Spec.Num.le, Spec.Num.isNaN, Spec.Num.key, F64.intKey, h, Bool.not_false, Bool.true_and]
  rfl
theorem num_le_flt_int (n : I64) {f : F64} (h : f.isNaN = false) :
    Spec.Num.le (.flt f) (.int n) = decide (f.key ≤ n.toInt * (F64.scale : Int)) := by
  simp only [Spec.Num.le, Spec.Num.isNaN, Spec.Num.key, F64.intKey, h, Bool.not_false, Bool.true_and]
  rfl
theorem num_eq_int_flt (n : I64) {f : F64} (h : f.isNaN = false) :
    Spec.Num.eq (.int n) (.flt f) = decide (n.toInt * (F64.scale : Int) = f.key) := by
  simp only [Spec.Num.eq, Spec.Num.isNaN, Spec.Num.key, F64.intKey, h, Bool.not_false, Bool.true_and]
  rfl

theorem isNaN_eq_true {f : F64} (h : f.isNaN = true) : f = .nan := by
  cases f <;> simp [F64.isNaN] at h ⊢

end GoluaVerif.Proofs
