/-
  Proofs.C17Malformed — a malformed format string makes string.pack and string.unpack raise an error.
-/
import GoluaVerif.Proofs.C17Loop
namespace GoluaVerif.Model.Pack
open GoluaVerif

theorem digit_cases (c : UInt8) (h : isDigit c = true) :
    c = 48 ∨ c = 49 ∨ c = 50 ∨ c = 51 ∨ c = 52 ∨ c = 53 ∨ c = 54 ∨ c = 55 ∨ c = 56 ∨ c = 57 := by
  simp only [isDigit, Bool.and_eq_true, decide_eq_true_eq] at h
  have hc : c.toNat = 48 ∨ c.toNat = 49 ∨ c.toNat = 50 ∨ c.toNat = 51 ∨ c.toNat = 52 ∨ c.toNat = 53 ∨ c.toNat = 54 ∨
      c.toNat = 55 ∨ c.toNat = 56 ∨ c.toNat = 57 := by omega
  rcases hc with h | h | h | h | h | h | h | h | h | h
  · exact .inl (UInt8.toNat_inj.mp h)
  · exact .inr (.inl (UInt8.toNat_inj.mp h))
  · exact .inr (.inr (.inl (UInt8.toNat_inj.mp h)))
  · exact .inr (.inr (.inr (.inl (UInt8.toNat_inj.mp h))))
  · exact .inr (.inr (.inr (.inr (.inl (UInt8.toNat_inj.mp h)))))
  · exact .inr (.inr (.inr (.inr (.inr (.inl (UInt8.toNat_inj.mp h))))))
  · exact .inr (.inr (.inr (.inr (.inr (.inr (.inl (UInt8.toNat_inj.mp h)))))))
  · exact .inr (.inr (.inr (.inr (.inr (.inr (.inr (.inl (UInt8.toNat_inj.mp h))))))))
  · exact .inr (.inr (.inr (.inr (.inr (.inr (.inr (.inr (.inl (UInt8.toNat_inj.mp h)))))))))
  · exact .inr (.inr (.inr (.inr (.inr (.inr (.inr (.inr (.inr (UInt8.toNat_inj.mp h)))))))))

/-- a digit is not an option letter -/
theorem optKind_digit (c : UInt8) (h : isDigit c = true) : optKind c = .bad := by
  rcases digit_cases c h with rfl | rfl | rfl | rfl | rfl | rfl | rfl | rfl | rfl | rfl <;> decide

theorem headNumber_eq (s : Bytes) :
    headNumber s = if (digitsOf s).isEmpty then none else some (valFrom 0 (digitsOf s)) := by
  simp [headNumber, digitsOf, valFrom]

/-- digits that an option owns are skipped by the scan -/
theorem mf_true_digits : ∀ s : Bytes, malformedFrom true s = malformedFrom false (afterDigits s) := by
  intro s
  induction s with
  | nil => simp [afterDigits, malformedFrom]
  | cons c cs ih =>
    by_cases hd : isDigit c = true
    · have : afterDigits (c :: cs) = afterDigits cs := by simp [afterDigits, List.dropWhile_cons, hd]
      rw [this, ← ih]
      simp [malformedFrom, hd]
    · have : afterDigits (c :: cs) = c :: cs := by simp [afterDigits, List.dropWhile_cons, hd]
      rw [this]
      simp [malformedFrom, hd]

theorem smallOptSize_spec (s : Bytes) (d n : Nat) (r : Bytes) (h : smallOptSize s d = .ok (n, r)) :
    r = afterDigits s ∧ (headNumber s = none ∨ (headNumber s = some n ∧ 1 ≤ n ∧ n ≤ 16)) := by
  unfold smallOptSize at h
  split at h
  · simp at h
  · rename_i m r' hg
    obtain ⟨g1, g2, g3⟩ := getOptSize_spec _ _ _ _ _ _ hg
    split at h
    · rename_i hr
      simp only [Except.ok.injEq, Prod.mk.injEq] at h
      refine ⟨by rw [← h.2, g3], .inr ⟨?_, by omega, by omega⟩⟩
      have hne : (digitsOf s).isEmpty = false := by simpa using g2.symm
      rw [headNumber_eq, hne, ← h.1, g1]; simp
    · simp at h
  · rename_i m r' hg
    obtain ⟨g1, g2, g3⟩ := getOptSize_spec _ _ _ _ _ _ hg
    split at h
    · simp only [Except.ok.injEq, Prod.mk.injEq] at h
      refine ⟨by rw [← h.2, g3], .inl ?_⟩
      have he : (digitsOf s).isEmpty = true := by simpa using g2
      rw [headNumber_eq, he]; simp
    · simp at h

theorem mustGetOptSize_spec (s : Bytes) (n : Nat) (r : Bytes) (h : mustGetOptSize s = .ok (n, r)) :
    r = afterDigits s ∧ (headNumber s).isNone = false := by
  unfold mustGetOptSize at h
  split at h
  · simp at h
  · rename_i m r' hg
    obtain ⟨g1, g2, g3⟩ := getOptSize_spec _ _ _ _ _ _ hg
    simp only [Except.ok.injEq, Prod.mk.injEq] at h
    refine ⟨by rw [← h.2, g3], ?_⟩
    have hne : (digitsOf s).isEmpty = false := by simpa using g2.symm
    rw [headNumber_eq, hne]; simp
  · simp at h

/-- one step of the packer on a malformed format: an error now, or the rest is still malformed -/
theorem step_pack (rd : Rd) (c : UInt8) (rest : Bytes) (hi : Inv rd.alignOnly (c :: rest))
    (hm : malformedFrom false (c :: rest) = true) :
    (∃ e, readOpt .pack rd c rest = .error e) ∨
    (∃ opt rd' rest', readOpt .pack rd c rest = .ok (opt, rd', rest') ∧ malformedFrom false rest' = true) := by
  unfold malformedFrom at hm
  by_cases hd : isDigit c = true
  · left; exact ⟨.badOption, by simp [readOpt, optKind_digit c hd]⟩
  simp only [hd, Bool.false_eq_true, if_false] at hm
  by_cases hb : optKind c = .bad
  · left; exact ⟨.badOption, by simp [readOpt, hb]⟩
  have hol : optionLetter c = true := by simp [optionLetter, hb]
  simp only [hol, Bool.not_true, Bool.false_eq_true, if_false] at hm
  have hao := inv_head _ _ _ hi
  unfold readOpt mkItem
  unfold alignable at hao
  unfold takesSize at hm
  cases hk : optKind c <;> simp only [hk] at hm hao ⊢
  case bad => exact absurd hk hb
  case bang =>
    cases hs : smallOptSize rest 1 with
    | error e => left; exact ⟨e, rfl⟩
    | ok p =>
      obtain ⟨n, r⟩ := p
      obtain ⟨s1, s2⟩ := smallOptSize_spec _ _ _ _ hs
      right; refine ⟨_, _, _, rfl, ?_⟩
      rw [s1, ← mf_true_digits]
      rcases s2 with s2 | ⟨s2, _, _⟩ <;> simp [s2] at hm <;> first | exact hm | omega | (rcases hm with hm | hm <;> first | omega | exact hm)
  case varInt =>
    cases hs : smallOptSize rest 8 with
    | error e => left; exact ⟨e, rfl⟩
    | ok p =>
      obtain ⟨n, r⟩ := p
      obtain ⟨s1, s2⟩ := smallOptSize_spec _ _ _ _ hs
      right; refine ⟨_, _, _, rfl, ?_⟩
      rw [s1, ← mf_true_digits]
      rcases s2 with s2 | ⟨s2, _, _⟩ <;> simp [s2] at hm <;> first | exact hm | omega | (rcases hm with hm | hm <;> first | omega | exact hm)
  case lstr =>
    cases hs : smallOptSize rest 8 with
    | error e => left; exact ⟨e, rfl⟩
    | ok p =>
      obtain ⟨n, r⟩ := p
      obtain ⟨s1, s2⟩ := smallOptSize_spec _ _ _ _ hs
      right; refine ⟨_, _, _, rfl, ?_⟩
      rw [s1, ← mf_true_digits]
      rcases s2 with s2 | ⟨s2, _, _⟩ <;> simp [s2] at hm <;> first | exact hm | omega | (rcases hm with hm | hm <;> first | omega | exact hm)
  case fixstr =>
    have hf : rd.alignOnly = false := by rcases hao with h | h <;> simp_all
    simp only [hf, Bool.false_eq_true, if_false]
    cases hs : mustGetOptSize rest with
    | error e => left; exact ⟨e, rfl⟩
    | ok p =>
      obtain ⟨n, r⟩ := p
      obtain ⟨s1, s2⟩ := mustGetOptSize_spec _ _ _ hs
      right; refine ⟨_, _, _, rfl, ?_⟩
      rw [s1, ← mf_true_digits]
      simpa [s2] using hm
  case alignNext =>
    cases rest with
    | nil => left; exact ⟨_, rfl⟩
    | cons d t =>
      by_cases hd : alignable d = true
      · right; simp only [hd, if_true]; exact ⟨_, _, _, rfl, by simpa [hd] using hm⟩
      · left; simp only [hd, Bool.false_eq_true, if_false]; exact ⟨_, rfl⟩
  all_goals (right; exact ⟨_, _, _, rfl, by simpa using hm⟩)

theorem afterDigits_length (s : Bytes) : (afterDigits s).length ≤ s.length := by
  unfold afterDigits
  induction s with
  | nil => simp
  | cons c cs ih =>
    simp only [List.dropWhile_cons]
    split
    · simp only [List.length_cons]; omega
    · exact Nat.le_refl _

theorem readOpt_rest_length (mode : Mode) (rd rd' : Rd) (c : UInt8) (rest rest' : Bytes) (opt : Opt)
    (h : readOpt mode rd c rest = .ok (opt, rd', rest')) : rest'.length ≤ rest.length := by
  rcases readOpt_rest mode rd rd' c rest rest' opt h with h1 | ⟨d, n, h1⟩ | ⟨n, h1⟩
  · rw [h1]; exact Nat.le_refl _
  · rw [(smallOptSize_spec _ _ _ _ h1).1]; exact afterDigits_length rest
  · rw [(mustGetOptSize_spec _ _ _ h1).1]; exact afterDigits_length rest

theorem consOut_error (w : Bytes) (e : Err) : consOut w (.error e) = .error e := rfl

/-- **a malformed format makes string.pack raise an error**, whatever the values -/
theorem packLoop_malformed : ∀ (fuel : Nat) (rd : Rd) (fmt : Bytes) (len : Nat) (vs : List Val),
    fmt.length < fuel → Inv rd.alignOnly fmt → malformedFrom false fmt = true →
    ∃ e, packLoop fuel rd fmt len vs = .error e := by
  intro fuel
  induction fuel with
  | zero => intro rd fmt len vs h; omega
  | succ fuel ih =>
    intro rd fmt len vs hf hi hm
    cases fmt with
    | nil => simp [malformedFrom] at hm
    | cons c rest =>
      simp only [List.length_cons] at hf
      unfold packLoop
      rcases step_pack rd c rest hi hm with ⟨e, he⟩ | ⟨opt, rd', rest', hr, hm'⟩
      · exact ⟨e, by simp [he]⟩
      · have hi' := inv_step rd rd' c rest rest' opt hi hr
        have hl := readOpt_rest_length _ _ _ _ _ _ _ hr
        simp only [hr]
        cases opt with
        | nop => exact ih rd' rest' len vs (by omega) hi' hm'
        | item al ao body =>
          simp only
          cases ha : alignPad rd true al len with
          | error e => exact ⟨e, rfl⟩
          | ok pad =>
            simp only
            cases ao with
            | true =>
              obtain ⟨e, he⟩ := ih rd' rest' (len + pad) vs (by omega) hi' hm'
              exact ⟨e, by simp [he, consOut_error]⟩
            | false =>
              simp only [Bool.false_eq_true, if_false]
              cases hb : packBody rd.endian body vs with
              | error e => exact ⟨e, rfl⟩
              | ok p =>
                obtain ⟨w, vs1⟩ := p
                obtain ⟨e, he⟩ := ih rd' rest' (len + pad + w.length) vs1 (by omega) hi' hm'
                exact ⟨e, by simp [he, consOut_error]⟩

/-- **a malformed format makes string.unpack raise an error**, whatever the data -/
theorem unpackLoop_malformed : ∀ (fuel : Nat) (rd : Rd) (fmt : Bytes) (j : Nat) (data : Bytes),
    fmt.length < fuel → Inv rd.alignOnly fmt → malformedFrom false fmt = true →
    ∃ e, unpackLoop fuel rd fmt j data = .error e := by
  intro fuel
  induction fuel with
  | zero => intro rd fmt j data h; omega
  | succ fuel ih =>
    intro rd fmt j data hf hi hm
    cases fmt with
    | nil => simp [malformedFrom] at hm
    | cons c rest =>
      simp only [List.length_cons] at hf
      unfold unpackLoop
      rw [readOpt_unpack_eq rd c rest]
      rcases step_pack rd c rest hi hm with ⟨e, he⟩ | ⟨opt, rd', rest', hr, hm'⟩
      · exact ⟨e, by simp [he]⟩
      · have hi' := inv_step rd rd' c rest rest' opt hi hr
        have hl := readOpt_rest_length _ _ _ _ _ _ _ hr
        simp only [hr]
        cases opt with
        | nop => exact ih rd' rest' j data (by omega) hi' hm'
        | item al ao body =>
          simp only
          cases ha : alignPad rd true al j with
          | error e => exact ⟨e, rfl⟩
          | ok pad =>
            simp only
            cases ht : takeN pad data with
            | error e => exact ⟨e, rfl⟩
            | ok p =>
              obtain ⟨_, d1⟩ := p
              simp only
              cases ao with
              | true => simpa using ih rd' rest' (j + pad) d1 (by omega) hi' hm'
              | false =>
                simp only [Bool.false_eq_true, if_false]
                cases hb : unpackBody rd.endian body d1 with
                | error e => exact ⟨e, rfl⟩
                | ok q =>
                  obtain ⟨ov, d2⟩ := q
                  obtain ⟨e, he⟩ := ih rd' rest' (j + pad + (d1.length - d2.length)) d2 (by omega) hi' hm'
                  exact ⟨e, by simp [he]⟩

end GoluaVerif.Model.Pack
