/-
  Proofs.C17QuoteGo — golua's `%q` (strconv.Quote) does read back for ASCII strings.
-/
import GoluaVerif.Proofs.C17Quote
import GoluaVerif.Model.Quote
namespace GoluaVerif.Model.Quote
open GoluaVerif GoluaVerif.Spec.Quote

theorem unq_esc_letter (e : UInt8) (v : Nat) (k : Bytes)
    (h : (e = 97 ∧ v = 7) ∨ (e = 98 ∧ v = 8) ∨ (e = 102 ∧ v = 12) ∨ (e = 110 ∧ v = 10) ∨ (e = 114 ∧ v = 13) ∨
         (e = 116 ∧ v = 9) ∨ (e = 118 ∧ v = 11)) :
    unq .normal (92 :: e :: k) = emit v (unq .normal k) := by
  conv => lhs; unfold unq
  rcases h with ⟨rfl, rfl⟩ | ⟨rfl, rfl⟩ | ⟨rfl, rfl⟩ | ⟨rfl, rfl⟩ | ⟨rfl, rfl⟩ | ⟨rfl, rfl⟩ | ⟨rfl, rfl⟩ <;> simp [isDigit]

theorem hexVal_hexDigit (n : Nat) : hexVal (hexDigit n) = some (n % 16) := by
  unfold hexDigit hexVal
  have h16 : n % 16 < 16 := Nat.mod_lt _ (by omega)
  by_cases h : n % 16 < 10
  · simp only [h, if_true]
    rw [UInt8.toNat_ofNat']
    have : (48 + n % 16) % 2 ^ 8 = 48 + n % 16 := by omega
    simp only [this]
    have h1 : 48 ≤ 48 + n % 16 ∧ 48 + n % 16 ≤ 57 := by omega
    simp [h1]
  · simp only [h, if_false]
    rw [UInt8.toNat_ofNat']
    have : (87 + n % 16) % 2 ^ 8 = 87 + n % 16 := by omega
    simp only [this]
    have h1 : ¬ (48 ≤ 87 + n % 16 ∧ 87 + n % 16 ≤ 57) := by omega
    have h2 : 97 ≤ 87 + n % 16 ∧ 87 + n % 16 ≤ 102 := by omega
    simp [h1, h2]

theorem unq_esc_hex (a b : Nat) (k : Bytes) :
    unq .normal (92 :: 120 :: hexDigit a :: hexDigit b :: k) = emit (a % 16 * 16 + b % 16) (unq .normal k) := by
  conv => lhs; unfold unq
  simp [isDigit, hexVal_hexDigit]

/-- one ASCII byte through strconv.Quote and back -/
theorem unq_goChunk (isPrint : Nat → Bool) (b : UInt8) (hb : b.toNat < 128) (k rest : Bytes)
    (ih : unq .normal k = some rest) :
    unq .normal ((if printsRaw isPrint b.toNat then [b] else escapeRune b.toNat) ++ k) = some (b :: rest) := by
  have hlt := b.toNat_lt
  unfold printsRaw
  by_cases h1 : b.toNat = 34 ∨ b.toNat = 92
  · simp only [h1, if_true, Bool.false_eq_true, if_false]
    rcases h1 with h | h
    · have : b = 34 := UInt8.toNat_inj.mp h
      subst this
      simp only [escapeRune, show (34 : UInt8).toNat = 34 from rfl, true_or, if_true, List.cons_append, List.nil_append]
      rw [show UInt8.ofNat 34 = 34 from rfl, unq_esc_quote, ih]; exact emit_some _ _ _ rfl
    · have : b = 92 := UInt8.toNat_inj.mp h
      subst this
      simp only [escapeRune, show (92 : UInt8).toNat = 92 from rfl, or_true, if_true, List.cons_append, List.nil_append]
      rw [show UInt8.ofNat 92 = 92 from rfl, unq_esc_backslash, ih]; exact emit_some _ _ _ rfl
  · simp only [h1, if_false, hb, if_true]
    by_cases h2 : 32 ≤ b.toNat ∧ b.toNat ≤ 126
    · have hd : decide (32 ≤ b.toNat ∧ b.toNat ≤ 126) = true := by simpa using h2
      rw [if_pos hd]
      simp only [List.cons_append, List.nil_append]
      have n34 : b ≠ 34 := by intro e; subst e; exact h1 (.inl rfl)
      have n92 : b ≠ 92 := by intro e; subst e; exact h1 (.inr rfl)
      have n10 : b ≠ 10 := by intro e; subst e; simp at h2
      have n13 : b ≠ 13 := by intro e; subst e; simp at h2
      rw [unq_plain b k n34 n10 n13 n92, ih]; rfl
    · have hd : ¬ (decide (32 ≤ b.toNat ∧ b.toNat ≤ 126) = true) := by simpa using h2
      rw [if_neg hd]
      unfold escapeRune
      simp only [h1, if_false]
      have hr : b.toNat < 32 ∨ b.toNat = 127 := by omega
      by_cases c7 : b.toNat = 7
      · simp only [c7, if_true, List.cons_append, List.nil_append]
        rw [unq_esc_letter 97 7 k (by simp), ih]; exact emit_some _ _ _ c7.symm
      by_cases c8 : b.toNat = 8
      · simp only [c8, show ¬ (8 = 7) by decide, if_false, if_true, List.cons_append, List.nil_append]
        rw [unq_esc_letter 98 8 k (by simp), ih]; exact emit_some _ _ _ c8.symm
      by_cases c12 : b.toNat = 12
      · simp only [c12, show ¬ (12 = 7) by decide, show ¬ (12 = 8) by decide, if_false, if_true, List.cons_append, List.nil_append]
        rw [unq_esc_letter 102 12 k (by simp), ih]; exact emit_some _ _ _ c12.symm
      by_cases c10 : b.toNat = 10
      · simp only [c10, show ¬ (10 = 7) by decide, show ¬ (10 = 8) by decide, show ¬ (10 = 12) by decide, if_false, if_true,
          List.cons_append, List.nil_append]
        rw [unq_esc_letter 110 10 k (by simp), ih]; exact emit_some _ _ _ c10.symm
      by_cases c13 : b.toNat = 13
      · simp only [c13, show ¬ (13 = 7) by decide, show ¬ (13 = 8) by decide, show ¬ (13 = 12) by decide,
          show ¬ (13 = 10) by decide, if_false, if_true, List.cons_append, List.nil_append]
        rw [unq_esc_letter 114 13 k (by simp), ih]; exact emit_some _ _ _ c13.symm
      by_cases c9 : b.toNat = 9
      · simp only [c9, show ¬ (9 = 7) by decide, show ¬ (9 = 8) by decide, show ¬ (9 = 12) by decide,
          show ¬ (9 = 10) by decide, show ¬ (9 = 13) by decide, if_false, if_true, List.cons_append, List.nil_append]
        rw [unq_esc_letter 116 9 k (by simp), ih]; exact emit_some _ _ _ c9.symm
      by_cases c11 : b.toNat = 11
      · simp only [c11, show ¬ (11 = 7) by decide, show ¬ (11 = 8) by decide, show ¬ (11 = 12) by decide,
          show ¬ (11 = 10) by decide, show ¬ (11 = 13) by decide, show ¬ (11 = 9) by decide, if_false, if_true,
          List.cons_append, List.nil_append]
        rw [unq_esc_letter 118 11 k (by simp), ih]; exact emit_some _ _ _ c11.symm
      simp only [c7, c8, c12, c10, c13, c9, c11, if_false, hr, if_true, lowerhex, List.cons_append, List.nil_append]
      rw [unq_esc_hex, ih]
      exact emit_some _ _ _ (by omega)

theorem decodeRune_ascii (b : UInt8) (t : Bytes) (hb : b.toNat < 128) : decodeRune (b :: t) = (b.toNat, 1) := by
  simp [decodeRune, hb]

/-- golua's `%q` text of an ASCII string is read back by the Lua reader, for any `IsPrint` table -/
theorem unq_quoteGoBody (isPrint : Nat → Bool) : ∀ (fuel : Nat) (s : Bytes), s.length ≤ fuel → (∀ b ∈ s, b.toNat < 128) →
    unq .normal (quoteGoBody isPrint fuel s ++ [34]) = some s := by
  intro fuel
  induction fuel with
  | zero =>
    intro s hl _
    have : s = [] := List.eq_nil_of_length_eq_zero (by omega)
    subst this
    conv => lhs; unfold unq
    simp [quoteGoBody]
  | succ fuel ih =>
    intro s hl ha
    cases s with
    | nil =>
      conv => lhs; unfold unq
      simp [quoteGoBody]
    | cons b t =>
      have hb := ha b (by simp)
      have iht := ih t (by simp at hl; omega) (fun x hx => ha x (by simp [hx]))
      unfold quoteGoBody
      rw [decodeRune_ascii b t hb]
      simp only []
      have hne : ¬ (True ∧ b.toNat = 0xFFFD) := by omega
      rw [if_neg hne]
      simp only [List.take, List.drop]
      have := unq_goChunk isPrint b hb _ t iht
      by_cases hp : printsRaw isPrint b.toNat = true
      · simp only [hp, if_true] at this ⊢
        simpa [List.append_assoc] using this
      · simp only [hp, Bool.false_eq_true, if_false] at this ⊢
        simpa [List.append_assoc] using this

theorem unquote_quoteGo_ascii (isPrint : Nat → Bool) (s : Bytes) (h : ∀ b ∈ s, b.toNat < 128) :
    unquote (quoteGo isPrint s) = some s := by
  simp [unquote, quoteGo, unq_quoteGoBody isPrint s.length s (Nat.le_refl _) h]

end GoluaVerif.Model.Quote
