/-
  Proofs.C17Int — integers of 1..16 bytes survive packInt / unpackInt.
-/
import GoluaVerif.Proofs.C17Bytes
namespace GoluaVerif.Model.Pack
open GoluaVerif

theorem toInt_cases (v : I64) :
    (v.toNat < 2 ^ 63 ∧ v.toInt = (v.toNat : Int)) ∨ (2 ^ 63 ≤ v.toNat ∧ v.toInt = (v.toNat : Int) - 2 ^ 64) := by
  have h := BitVec.toInt_eq_toNat_cond v
  have hl := v.isLt
  by_cases c : 2 * v.toNat < 2 ^ 64
  · left; simp [c] at h; omega
  · right; simp [c] at h; omega

/-- the signed small case, stated on numbers -/
theorem signExtend_small (n : Nat) (v : I64) (h1 : 1 ≤ n) (h8 : n ≤ 8)
    (hb : intInBounds true n v.toInt = true) : signExtend n (v.toNat % 256 ^ n) = v.toInt := by
  have hl := v.isLt
  rcases toInt_cases v with ⟨hc, ht⟩ | ⟨hc, ht⟩ <;>
  · have : n = 1 ∨ n = 2 ∨ n = 3 ∨ n = 4 ∨ n = 5 ∨ n = 6 ∨ n = 7 ∨ n = 8 := by omega
    rcases this with rfl | rfl | rfl | rfl | rfl | rfl | rfl | rfl <;>
    · simp [intInBounds, ht] at hb
      simp [signExtend, ht]
      omega

/-- the unsigned small case -/
theorem unsigned_small (n : Nat) (v : I64) (h1 : 1 ≤ n) (h8 : n ≤ 8)
    (hb : intInBounds false n v.toInt = true) : v.toNat % 256 ^ n = v.toNat := by
  have hl := v.isLt
  rcases toInt_cases v with ⟨hc, ht⟩ | ⟨hc, ht⟩ <;>
  · have : n = 1 ∨ n = 2 ∨ n = 3 ∨ n = 4 ∨ n = 5 ∨ n = 6 ∨ n = 7 ∨ n = 8 := by omega
    rcases this with rfl | rfl | rfl | rfl | rfl | rfl | rfl | rfl <;>
    · simp [intInBounds, ht] at hb
      try omega

theorem ofInt_toInt' (v : I64) : BitVec.ofInt 64 v.toInt = v := BitVec.ofInt_toInt

theorem ofNat_toNat' (v : I64) : BitVec.ofNat 64 v.toNat = v := by
  apply BitVec.eq_of_toNat_eq; simp

theorem all_replicate (k : Nat) (b : UInt8) : (List.replicate k b).all (· == b) = true := by
  induction k with
  | zero => rfl
  | succ k ih => simp [List.replicate_succ, ih]

theorem readSignExt_replicate (k : Nat) (b : UInt8) (post : Bytes) (hk : k ≠ 0) (hb : b = 0 ∨ b = 255) :
    readSignExt k (List.replicate k b ++ post) = .ok (b, post) := by
  unfold readSignExt
  rw [if_neg hk, takeN_append _ _ _ (by simp)]
  cases k with
  | zero => exact absurd rfl hk
  | succ k =>
    simp only [List.replicate_succ]
    have : ((b == 0 || b == 255) && (List.replicate k b).all (· == b)) = true := by
      rw [all_replicate]; rcases hb with rfl | rfl <;> decide
    rw [if_pos this]

theorem skip0_zeros (k : Nat) (post : Bytes) : skip0 k (List.replicate k 0 ++ post) = .ok post := by
  unfold skip0
  rw [takeN_append _ _ _ (by simp)]
  have := all_replicate k 0
  simp [this]

/-- an integer packed by `packInt` is read back by `unpackInt`, for every size 1..∞ and both byte orders -/
theorem unpackInt_packInt (e : Endian) (signed : Bool) (n : Nat) (v : I64) (w post : Bytes) (h1 : 1 ≤ n)
    (h : packInt e signed n v = .ok w) : unpackInt e signed n (w ++ post) = .ok (v, post) := by
  unfold packInt at h
  split at h
  · rename_i hb
    injection h with h
    subst h
    unfold unpackInt intBytes
    by_cases h8 : n ≤ 8
    · simp only [h8, if_true]
      rw [takeN_append _ _ _ (by simp [ord_length, leBytes_length])]
      simp only [ord_ord, ofLE_leBytes]
      cases signed with
      | true => simp only [if_true]; rw [signExtend_small n v h1 h8 hb, ofInt_toInt']
      | false => simp only [Bool.false_eq_true, if_false]; rw [unsigned_small n v h1 h8 hb, ofNat_toNat']
    · simp only [h8, if_false]
      have hk : n - 8 ≠ 0 := by omega
      have hx : ofLE (leBytes 8 v.toNat) = v.toNat := by
        rw [ofLE_leBytes]; have := v.isLt; omega
      cases signed with
      | true =>
        simp only [if_true, Bool.true_and]
        have hfill : ∀ b : UInt8, b = (if decide (v.toInt < 0) = true then (255 : UInt8) else 0) → (b = 0 ∨ b = 255) := by
          intro b hb'; split at hb' <;> simp [hb']
        cases e with
        | big =>
          simp only
          rw [List.append_assoc, readSignExt_replicate _ _ _ hk (hfill _ rfl)]
          simp only
          rw [takeN_append _ _ _ (by simp [leBytes_length])]
          simp only [List.reverse_reverse, hx]
          rcases toInt_cases v with ⟨hc, ht⟩ | ⟨hc, ht⟩
          · have : ¬ (v.toInt < 0) := by omega
            simp [this, hc]
          · have : v.toInt < 0 := by have := v.isLt; omega
            simp [this, hc]
        | little =>
          simp only
          rw [List.append_assoc, takeN_append _ _ _ (by simp [leBytes_length])]
          simp only
          rw [readSignExt_replicate _ _ _ hk (hfill _ rfl)]
          simp only [hx]
          rcases toInt_cases v with ⟨hc, ht⟩ | ⟨hc, ht⟩
          · have : ¬ (v.toInt < 0) := by omega
            simp [this, hc]
          · have : v.toInt < 0 := by have := v.isLt; omega
            simp [this, hc]
      | false =>
        simp only [Bool.false_and, Bool.false_eq_true, if_false]
        cases e with
        | big =>
          simp only
          rw [List.append_assoc, skip0_zeros]
          simp only
          rw [takeN_append _ _ _ (by simp [leBytes_length])]
          simp [hx]
        | little =>
          simp only
          rw [List.append_assoc, takeN_append _ _ _ (by simp [leBytes_length])]
          simp only
          rw [skip0_zeros]
          simp [hx]
  · exact absurd h (by simp)

end GoluaVerif.Model.Pack
