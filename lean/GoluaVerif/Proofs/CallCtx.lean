/-
  Proofs.CallCtx — the bracketed form keeps the invariant, keeps the stack aligned and reports
  statuses truthfully.  One mutual structural induction over bodies and items.
-/
import GoluaVerif.Proofs.Ctx
import GoluaVerif.Model.CallCtx
namespace GoluaVerif.Proofs.CallCtx
open GoluaVerif.Generated.Resources GoluaVerif.Model.Ctx GoluaVerif.Spec.Quota GoluaVerif.Proofs.Ctx
open GoluaVerif.Model.CallCtx

/-- what one run (of an item or a body) guarantees -/
structure Good (a a' : Acc) (ex : Exit) : Prop where
  inv : Inv a'.st
  parents : LowerL a'.st.parents a.st.parents
  hard : a'.st.cur.hard = a.st.cur.hard
  inh : a'.st.cur.inhCpu = a.st.cur.inhCpu ∧ a'.st.cur.inhMem = a.st.cur.inhMem
  live : (∀ r, ex ≠ .killed r) → a'.st.cur.live = true
  killed : ∀ r, ex = .killed r → a'.st.cur.status = StatusKilled
  truthful : (∀ r ∈ a.results, Truthful r) → ∀ r ∈ a'.results, Truthful r

theorem Good.trans {a b c : Acc} {e1 : Exit} {e2 : Exit} (h1 : Good a b e1) (h2 : Good b c e2) : Good a c e2 :=
  ⟨h2.inv, h2.parents.trans h1.parents, h2.hard.trans h1.hard,
   ⟨h2.inh.1.trans h1.inh.1, h2.inh.2.trans h1.inh.2⟩, h2.live, h2.killed,
   fun h => h2.truthful (h1.truthful h)⟩

theorem live_of_status {f : Frame} (h : f.status = StatusLive) : f.live = true := by
  unfold Frame.live; rw [h]; rfl

theorem status_of_live {f : Frame} (h : f.live = true) : f.status = StatusLive := by
  unfold Frame.live at h; simpa using h

/-- a local operation on a live frame: `ok`/`crash` leave it live, `terminated` leaves it killed -/
theorem local_step {s : St} (o : Op) (ho : localOp o = true) (hl : s.cur.live = true) :
    LowerL (step s o).1.parents s.parents ∧
    ((step s o).2 ≠ .terminated → (step s o).1.cur.live = true) ∧
    ((step s o).2 = .terminated → (step s o).1.cur.status = StatusKilled) := by
  cases o with
  | push d => cases ho
  | pop => cases ho
  | reqCpu n =>
    show _ ∧ ((s.cur.requireCPU n).2 ≠ .terminated → (s.cur.requireCPU n).1.live = true) ∧
      ((s.cur.requireCPU n).2 = .terminated → (s.cur.requireCPU n).1.status = StatusKilled)
    refine ⟨LowerL.refl _, ?_⟩
    rcases requireCPU_live s.cur n hl with ⟨_, e⟩ | ⟨_, _, e⟩ | ⟨_, _, _, e⟩ <;> rw [e]
    · exact ⟨fun _ => hl, (fun h => nomatch h)⟩
    · exact ⟨fun h => absurd rfl h, fun _ => rfl⟩
    · exact ⟨fun _ => hl, (fun h => nomatch h)⟩
  | reqMem n =>
    show _ ∧ ((s.cur.requireMem n).2 ≠ .terminated → (s.cur.requireMem n).1.live = true) ∧
      ((s.cur.requireMem n).2 = .terminated → (s.cur.requireMem n).1.status = StatusKilled)
    refine ⟨LowerL.refl _, ?_⟩
    rcases requireMem_live s.cur n hl with ⟨_, e⟩ | ⟨_, _, e⟩ | ⟨_, _, _, e⟩ <;> rw [e]
    · exact ⟨fun _ => hl, (fun h => nomatch h)⟩
    · exact ⟨fun h => absurd rfl h, fun _ => rfl⟩
    · exact ⟨fun _ => hl, (fun h => nomatch h)⟩
  | relMem n =>
    have hlow := releaseStack_lower s.cur s.parents n
    have hnt := releaseStack_not_terminated s.cur s.parents n
    refine ⟨hlow.2, fun _ => ?_, fun h => absurd h hnt⟩
    show (releaseStack s.cur s.parents n).1.1.live = true
    rw [hlow.1.live]; exact hl
  | stop l =>
    show _ ∧ ((s.cur.setStop l).2 ≠ .terminated → (s.cur.setStop l).1.live = true) ∧
      ((s.cur.setStop l).2 = .terminated → (s.cur.setStop l).1.status = StatusKilled)
    refine ⟨LowerL.refl _, ?_⟩
    unfold Frame.setStop
    simp only
    split
    · exact ⟨fun h => absurd rfl h, fun _ => rfl⟩
    · exact ⟨fun _ => hl, (fun h => nomatch h)⟩
  | due => exact ⟨LowerL.refl _, fun _ => hl, (fun h => nomatch h)⟩

theorem local_hard {s : St} (o : Op) (ho : localOp o = true) : (step s o).1.cur.hard = s.cur.hard := by
  cases o with
  | push d => cases ho
  | pop => cases ho
  | reqCpu n => exact (requireCPU_same s.cur n).1
  | reqMem n => exact (requireMem_same s.cur n).1
  | relMem n => exact (releaseStack_lower s.cur s.parents n).1.same.1
  | stop l => exact (setStop_same s.cur l).1
  | due => rfl

theorem local_inh {s : St} (o : Op) (ho : localOp o = true) :
    (step s o).1.cur.inhCpu = s.cur.inhCpu ∧ (step s o).1.cur.inhMem = s.cur.inhMem := by
  cases o with
  | push d => cases ho
  | pop => cases ho
  | reqCpu n => exact requireCPU_inh s.cur n
  | reqMem n => exact requireMem_inh s.cur n
  | relMem n => exact (releaseStack_lower s.cur s.parents n).1.inh
  | stop l => exact setStop_inh s.cur l
  | due => exact ⟨rfl, rfl⟩

theorem inv_setError {s : St} (h : Inv s) : Inv (setError s) := by
  obtain ⟨hc, hch⟩ := h
  refine ⟨⟨hc.cpu, hc.mem, hc.millis, hc.soft, ?_, hc.tcpu, hc.tmem⟩,
    chainInv_congr (c := s.cur) (c' := (setError s).cur) (ps := s.parents) rfl rfl hch⟩
  intro hl
  have : (setError s).cur.status = StatusError := rfl
  unfold Frame.live at hl; rw [this] at hl; cases hl

theorem inv_afterBody {s : St} (ex : Exit) (h : Inv s) : Inv (afterBody ex s) := by
  unfold afterBody; split
  · exact inv_setError h
  · exact h

theorem afterBody_same (ex : Exit) (s : St) :
    (afterBody ex s).parents = s.parents ∧ (afterBody ex s).cur.hard = s.cur.hard ∧
    (afterBody ex s).cur.used = s.cur.used ∧ (afterBody ex s).cur.flags = s.cur.flags ∧
    (ex ≠ .error → afterBody ex s = s) := by
  unfold afterBody; split
  · rename_i h; exact ⟨rfl, rfl, rfl, rfl, fun c => absurd h c⟩
  · exact ⟨rfl, rfl, rfl, rfl, fun _ => rfl⟩

/-- propagateTermination either leaves the parent alone or kills it (only a live parent, only for a
recorded resource) -/
theorem propagate_cases (m child : Frame) (res : TermRes) :
    m.propagate child res = (m, .ok) ∨
    (m.propagate child res = (m.kill, .terminated) ∧ m.live = true ∧ res ≠ .none) := by
  cases res with
  | none => exact Or.inl rfl
  | cpu =>
    simp only [Frame.propagate]; split
    · rename_i h; simp only [Bool.and_eq_true] at h; exact Or.inr ⟨rfl, h.2, (fun c => nomatch c)⟩
    · exact Or.inl rfl
  | mem =>
    simp only [Frame.propagate]; split
    · rename_i h; simp only [Bool.and_eq_true] at h; exact Or.inr ⟨rfl, h.2, (fun c => nomatch c)⟩
    · exact Or.inl rfl

/-- the call, with its deferred PopContext resolved: under the invariant the pop always succeeds and
restores the parent — the frame `p'` that is below the child when the body ends: the caller's
frame, possibly with a lower memory counter if the body released memory of the caller (8007e69) —
charged with what the child used -/
theorem runItem_call (a : Acc) (d : CtxDef) (body hs : List Item) :
    runItem a (.call d body hs) =
      (match pop (afterBody (runCall a d body hs).2 (runCall a d body hs).1.st) with
       | (s3, .ok) => afterPop (runCall a d body hs).1 (runCall a d body hs).2
           (afterBody (runCall a d body hs).2 (runCall a d body hs).1.st) s3.cur s3.parents
       | (s3, .terminated) => ({ (runCall a d body hs).1 with st := s3 },
           .killed (popCause (afterBody (runCall a d body hs).2 (runCall a d body hs).1.st).parents.head!
             (afterBody (runCall a d body hs).2 (runCall a d body hs).1.st).cur))
       | (s3, .crash) => ({ (runCall a d body hs).1 with st := s3 }, .crashed)) := by
  conv => lhs; unfold runItem
  unfold runCall
  cases runBody { a with st := push a.st d } body with
  | mk a1 e =>
    cases e <;> simp only <;>
      (first
        | (cases hp : pop (afterBody _ _) with
           | mk s3 po => cases po <;> rfl))

theorem call_unfold (a : Acc) (d : CtxDef) (body hs : List Item) (a1 : Acc) (ex : Exit)
    (hr : runCall a d body hs = (a1, ex))
    (gb : Good { a with st := push a.st d } a1 ex) (hl : a.st.cur.live = true) :
    ∃ p' ps', a1.st.parents = p' :: ps' ∧ Lower p' a.st.cur ∧ LowerL ps' a.st.parents ∧
      FrameOk (afterBody ex a1.st).cur ∧ Chain (afterBody ex a1.st).cur p' ∧ FrameOk p' ∧ p'.live = true ∧
      ChainInv p' ps' ∧
      runItem a (.call d body hs) =
        afterPop a1 ex (afterBody ex a1.st) (charged p' (afterBody ex a1.st).cur) ps' := by
  have hpar : LowerL a1.st.parents (a.st.cur :: a.st.parents) := gb.parents
  cases hps : a1.st.parents with
  | nil => rw [hps] at hpar; cases hpar
  | cons p' ps' =>
    rw [hps] at hpar
    cases hpar with
    | cons hlp hlps =>
      have hi2 := inv_afterBody ex gb.inv
      have hpar2 : (afterBody ex a1.st).parents = p' :: ps' := (afterBody_same ex a1.st).1.trans hps
      obtain ⟨hc2, hch2⟩ := hi2
      rw [hpar2] at hch2
      obtain ⟨hcp, hp, hpl, hrest⟩ := hch2
      have hpop : pop (afterBody ex a1.st) = (⟨charged p' (afterBody ex a1.st).cur, ps'⟩, .ok) := by
        have := pop_ok (ps := ps') hc2 hp hpl hcp
        rw [← hpar2] at this
        exact this
      refine ⟨p', ps', rfl, hlp, hlps, hc2, hcp, hp, hpl, hrest, ?_⟩
      rw [runItem_call, hr]
      simp only [hpop]

/-- the body and its pending handlers together, given what is known of each -/
theorem good_call_of {a : Acc} {d : CtxDef} {body hs : List Item}
    (gb : Good { a with st := push a.st d } (runBody { a with st := push a.st d } body).1
      (runBody { a with st := push a.st d } body).2)
    (gh : ∀ (a1 : Acc) (e : Exit), Inv a1.st → a1.st.cur.live = true → (e = .done ∨ e = .error) →
      Good a1 (runHandlers a1 e hs).1 (runHandlers a1 e hs).2) :
    Good { a with st := push a.st d } (runCall a d body hs).1 (runCall a d body hs).2 := by
  unfold runCall
  cases hr : runBody { a with st := push a.st d } body with
  | mk a1 e =>
    rw [hr] at gb
    cases e with
    | done => exact gb.trans (gh a1 .done gb.inv (gb.live (fun _ h => nomatch h)) (Or.inl rfl))
    | error => exact gb.trans (gh a1 .error gb.inv (gb.live (fun _ h => nomatch h)) (Or.inr rfl))
    | killed r => exact gb
    | crashed => exact gb

mutual
  theorem good_body (a : Acc) (body : List Item) (hw : wfBody body = true) (hi : Inv a.st)
      (hl : a.st.cur.live = true) : Good a (runBody a body).1 (runBody a body).2 := by
    match body with
    | [] => exact ⟨hi, LowerL.refl _, rfl, ⟨rfl, rfl⟩, fun _ => hl, (fun _ h => nomatch h), fun h => h⟩
    | it :: rest =>
      have hw' : it.wf = true ∧ wfBody rest = true := by
        have := hw; unfold wfBody at this; simpa using this
      have g1 := good_item a it hw'.1 hi hl
      unfold runBody
      cases hr : runItem a it with
      | mk a1 e1 =>
        rw [hr] at g1
        cases e1 with
        | done =>
          have g2 := good_body a1 rest hw'.2 g1.inv (g1.live (fun _ h => nomatch h))
          exact g1.trans g2
        | error => exact g1
        | killed r => exact g1
        | crashed => exact g1

  theorem good_handlers (a : Acc) (e : Exit) (hs : List Item) (hw : wfBody hs = true) (hi : Inv a.st)
      (hl : a.st.cur.live = true) (he : e = .done ∨ e = .error) :
      Good a (runHandlers a e hs).1 (runHandlers a e hs).2 := by
    match hs with
    | [] =>
      unfold runHandlers
      refine ⟨hi, LowerL.refl _, rfl, ⟨rfl, rfl⟩, fun _ => hl, (fun r h => ?_), fun h => h⟩
      rcases he with rfl | rfl <;> cases h
    | h :: rest =>
      have hw' : h.wf = true ∧ wfBody rest = true := by
        have := hw; unfold wfBody at this; simpa using this
      have g1 := good_item a h hw'.1 hi hl
      unfold runHandlers
      cases hr : runItem a h with
      | mk a1 e1 =>
        rw [hr] at g1
        cases e1 with
        | done => exact g1.trans (good_handlers a1 e rest hw'.2 g1.inv (g1.live (fun _ h => nomatch h)) he)
        | error => exact g1.trans (good_handlers a1 .error rest hw'.2 g1.inv (g1.live (fun _ h => nomatch h)) (Or.inr rfl))
        | killed r => exact g1
        | crashed => exact g1

  theorem good_item (a : Acc) (it : Item) (hw : it.wf = true) (hi : Inv a.st)
      (hl : a.st.cur.live = true) : Good a (runItem a it).1 (runItem a it).2 := by
    match it with
    | .err => exact ⟨hi, LowerL.refl _, rfl, ⟨rfl, rfl⟩, fun _ => hl, (fun _ h => nomatch h), fun h => h⟩
    | .op o =>
      have ho : localOp o = true := by unfold Item.wf at hw; exact hw
      have hs := local_step (s := a.st) o ho hl
      have hinv := inv_step o hi (by cases o <;> first | exact hl | rfl)
      have hh := local_hard (s := a.st) o ho
      have hin := local_inh (s := a.st) o ho
      unfold runItem
      simp only
      cases hout : (step a.st o).2 with
      | ok =>
        exact ⟨hinv, hs.1, hh, hin, fun _ => hs.2.1 (by rw [hout]; decide), (fun _ h => nomatch h), fun h => h⟩
      | terminated =>
        exact ⟨hinv, hs.1, hh, hin, fun h => absurd rfl (h _), fun _ _ => hs.2.2 hout, fun h => h⟩
      | crash =>
        exact ⟨hinv, hs.1, hh, hin, fun _ => hs.2.1 (by rw [hout]; decide), (fun _ h => nomatch h), fun h => h⟩
    | .call d body hs =>
      have hw' : wfBody body = true ∧ wfBody hs = true := by
        have := hw; unfold Item.wf at this; simpa using this
      have hi0 : Inv (push a.st d) := inv_step (.push d) hi hl
      have gb0 := good_body { a with st := push a.st d } body hw'.1 hi0 rfl
      have gb := good_call_of (hs := hs) gb0 (fun a1 e hi1 hl1 he => good_handlers a1 e hs hw'.2 hi1 hl1 he)
      cases hr : runCall a d body hs with
      | mk a1 ex =>
        rw [hr] at gb
        obtain ⟨p', ps', _, hlp, hlps, hc2, hcp, hp, hpl, hrest, hrun⟩ := call_unfold a d body hs a1 ex hr gb hl
        rw [hrun]
        have hs := charged_same p' (afterBody ex a1.st).cur
        have hh3 : (charged p' (afterBody ex a1.st).cur).hard = a.st.cur.hard := hs.1.trans hlp.same.1
        have hin3 : (charged p' (afterBody ex a1.st).cur).inhCpu = a.st.cur.inhCpu ∧
            (charged p' (afterBody ex a1.st).cur).inhMem = a.st.cur.inhMem :=
          ⟨(charged_inh _ _).1.trans hlp.inh.1, (charged_inh _ _).2.trans hlp.inh.2⟩
        have hinv3 : Inv ⟨charged p' (afterBody ex a1.st).cur, ps'⟩ :=
          ⟨charged_frameOk hc2 hp hcp, chainInv_congr hs.1 hs.2.2.1 hrest⟩
        have hlive3 : (charged p' (afterBody ex a1.st).cur).live = true := by
          unfold Frame.live; rw [hs.2.2.2.1]; exact hpl
        have hpoppedK : ∀ r, ex = .killed r → (afterBody ex a1.st).cur.popped.status = StatusKilled := by
          intro r hr'
          have hk := gb.killed r hr'
          rw [(afterBody_same ex a1.st).2.2.2.2 (by rw [hr']; exact fun c => nomatch c)]
          unfold Frame.popped Frame.live; rw [hk]; simp [StatusKilled, StatusLive]; exact hk
        unfold afterPop
        cases ex with
        | crashed => exact ⟨hinv3, hlps, hh3, hin3, fun _ => hlive3, (fun _ h => nomatch h), gb.truthful⟩
        | done =>
          refine ⟨hinv3, hlps, hh3, hin3, fun _ => hlive3, (fun _ h => nomatch h), fun h r hr => ?_⟩
          rcases List.mem_cons.mp hr with rfl | hr
          · have hlv := gb.live (fun _ h => nomatch h)
            refine ⟨fun _ => ?_, (fun h => nomatch h), (fun h => by obtain ⟨_, h⟩ := h; cases h), (fun h => nomatch h)⟩
            show (afterBody Exit.done a1.st).cur.popped.status = StatusDone
            rw [(afterBody_same Exit.done a1.st).2.2.2.2 (fun c => nomatch c)]
            unfold Frame.popped; rw [if_pos hlv]
          · exact gb.truthful h r hr
        | error =>
          refine ⟨hinv3, hlps, hh3, hin3, fun _ => hlive3, (fun _ h => nomatch h), fun h r hr => ?_⟩
          rcases List.mem_cons.mp hr with rfl | hr
          · refine ⟨(fun h => nomatch h), fun _ => ?_, (fun h => by obtain ⟨_, h⟩ := h; cases h), (fun h => nomatch h)⟩
            show (afterBody Exit.error a1.st).cur.popped.status = StatusError
            unfold afterBody; rw [if_pos rfl]
            unfold Frame.popped Frame.live setError; simp [StatusError, StatusLive]
          · exact gb.truthful h r hr
        | killed res =>
          simp only
          rcases propagate_cases (charged p' (afterBody (Exit.killed res) a1.st).cur)
              (afterBody (Exit.killed res) a1.st).cur.popped res with e | ⟨e, _, _⟩
          · rw [e]
            simp only
            refine ⟨hinv3, hlps, hh3, hin3, fun _ => hlive3, (fun _ h => nomatch h), fun h r hr => ?_⟩
            rcases List.mem_cons.mp hr with rfl | hr
            · exact ⟨(fun h => nomatch h), (fun h => nomatch h), fun _ => hpoppedK res rfl, (fun h => nomatch h)⟩
            · exact gb.truthful h r hr
          · rw [e]
            simp only
            have hk : Inv ⟨(charged p' (afterBody (Exit.killed res) a1.st).cur).kill, ps'⟩ :=
              ⟨frameOk_kill hinv3.1, chainInv_congr (c := charged p' (afterBody (Exit.killed res) a1.st).cur)
                (ps := ps') rfl rfl hinv3.2⟩
            exact ⟨hk, hlps, hh3, hin3, fun h => absurd rfl (h res), fun _ _ => rfl, gb.truthful⟩
end

/-- the body of a call together with its pending close handlers -/
theorem good_call (a : Acc) (d : CtxDef) (body hs : List Item) (hwb : wfBody body = true) (hwh : wfBody hs = true)
    (hi : Inv a.st) (hl : a.st.cur.live = true) :
    Good { a with st := push a.st d } (runCall a d body hs).1 (runCall a d body hs).2 :=
  good_call_of (good_body { a with st := push a.st d } body hwb (inv_step (.push d) hi hl) rfl)
    (fun a1 e hi1 hl1 he => good_handlers a1 e hs hwh hi1 hl1 he)

/-- without pending handlers the call runs just its body -/
theorem runCall_nil (a : Acc) (d : CtxDef) (body : List Item) :
    runCall a d body [] = runBody { a with st := push a.st d } body := by
  unfold runCall
  cases runBody { a with st := push a.st d } body with
  | mk a1 e => cases e <;> rfl

end GoluaVerif.Proofs.CallCtx
