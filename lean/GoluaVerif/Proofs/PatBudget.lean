/-
  Proofs.PatBudget — what the machine charges to the budget is exactly the number of bytes it consumed
  (`matchNext` / `getNext` successes), at every point of every run.
-/
import GoluaVerif.Model.PatMatch
namespace GoluaVerif.Model.PatMatch
open GoluaVerif.Model

/-- everything the machine is charged for: bytes consumed, steps, bytes compared by back-references -/
def total (m : M) : Nat := m.consumed + m.steps + m.compared

/-- the budget invariant for an initial budget `B` (`0` = unlimited) -/
def Bal (B : Nat) (m : M) : Prop :=
  (B = 0 → m.budget = 0) ∧ (0 < B → 0 < m.budget ∧ m.budget + total m = B)

theorem Bal.same {B : Nat} {m m' : M} (h : Bal B m) (hb : m'.budget = m.budget) (hc : total m' = total m) :
    Bal B m' := by
  unfold Bal at *; rw [hb, hc]; exact h

/-- one unit charged together with one more unit of work -/
theorem consume_gen {B : Nat} {m0 m m' : M} (h : Bal B m0) (hb : m.budget = m0.budget) (ht : total m = total m0 + 1)
    (hr : consumeBudget m = .ok m') : Bal B m' := by
  unfold consumeBudget at hr
  by_cases h0 : m.budget = 0
  · simp only [h0, if_true] at hr
    injection hr with hr; subst hr
    refine ⟨fun _ => h0, fun hB => ?_⟩
    have := (h.2 hB).1; omega
  · simp only [h0, if_false] at hr
    by_cases h1 : m.budget - 1 = 0
    · simp [h1] at hr
    · simp only [h1, if_false] at hr
      injection hr with hr; subst hr
      refine ⟨fun hB => ?_, fun hB => ?_⟩
      · have := h.1 hB; omega
      · have := h.2 hB
        have e : total { m with budget := m.budget - 1 } = total m := rfl
        simp only [e]; omega

theorem consume_bal {B : Nat} {m m' : M} (h : Bal B m)
    (hr : consumeBudget { m with si := m.si + 1, consumed := m.consumed + 1 } = .ok m') : Bal B m' :=
  consume_gen (m := { m with si := m.si + 1, consumed := m.consumed + 1 }) h rfl (by unfold total; simp only; omega) hr

theorem matchNext_bal {B : Nat} {s : Subject} {set : ByteSet} {m m' : M} {b : Bool} (h : Bal B m)
    (hr : matchNext s set m = .ok (b, m')) : Bal B m' := by
  unfold matchNext at hr
  split at hr
  · cases hb : byteAt s m.si with
    | error e => rw [hb] at hr; simp [bind, Except.bind] at hr
    | ok x =>
      rw [hb] at hr
      simp only [bind, Except.bind] at hr
      split at hr
      · cases hc : consumeBudget { m with si := m.si + 1, consumed := m.consumed + 1 } with
        | error e => rw [hc] at hr; simp at hr
        | ok m1 =>
          rw [hc] at hr
          simp only [pure, Except.pure] at hr
          injection hr with hr; injection hr with _ hr; subst hr
          exact consume_bal h hc
      · simp only [pure, Except.pure] at hr
        injection hr with hr; injection hr with _ hr; subst hr; exact h
  · simp only [pure, Except.pure] at hr
    injection hr with hr; injection hr with _ hr; subst hr; exact h

theorem getNext_bal {B : Nat} {s : Subject} {m m' : M} {b : Option UInt8} (h : Bal B m)
    (hr : getNext s m = .ok (b, m')) : Bal B m' := by
  unfold getNext at hr
  split at hr
  · cases hb : byteAt s m.si with
    | error e => rw [hb] at hr; simp [bind, Except.bind] at hr
    | ok x =>
      rw [hb] at hr
      simp only [bind, Except.bind] at hr
      cases hc : consumeBudget { m with si := m.si + 1, consumed := m.consumed + 1 } with
      | error e => rw [hc] at hr; simp at hr
      | ok m1 =>
        rw [hc] at hr
        simp only [pure, Except.pure] at hr
        injection hr with hr; injection hr with _ hr; subst hr
        exact consume_bal h hc
  · simp only [pure, Except.pure] at hr
    injection hr with hr; injection hr with _ hr; subst hr; exact h

theorem greedyLoop_bal {B : Nat} {s : Subject} {set : ByteSet} : ∀ (fuel : Nat) {m m' : M}, Bal B m →
    greedyLoop s set fuel m = .ok m' → Bal B m' := by
  intro fuel
  induction fuel with
  | zero => intro m m' _ hr; simp [greedyLoop] at hr
  | succ f ih =>
    intro m m' h hr
    rw [greedyLoop] at hr
    cases hm : matchNext s set m with
    | error e => rw [hm] at hr; simp [bind, Except.bind] at hr
    | ok v =>
      obtain ⟨b, m1⟩ := v
      rw [hm] at hr
      simp only [bind, Except.bind] at hr
      have h1 := matchNext_bal h hm
      cases b with
      | true => exact ih h1 hr
      | false =>
        simp only [Bool.false_eq_true, if_false, pure, Except.pure] at hr
        injection hr with hr; subst hr; exact h1

theorem trackback_bal {B n : Nat} {m : M} (h : Bal B m) : Bal B (trackback n m) := by
  unfold trackback
  split
  · exact h.same rfl rfl
  · split <;> exact h.same rfl rfl

theorem balLoop_bal {B n : Nat} {s : Subject} {op cl : UInt8} : ∀ (fuel d : Nat) {m m' : M}, Bal B m →
    balLoop n s op cl fuel d m = .ok m' → Bal B m' := by
  intro fuel
  induction fuel with
  | zero => intro d m m' _ hr; simp [balLoop] at hr
  | succ f ih =>
    intro d m m' h hr
    rw [balLoop] at hr
    cases hm : getNext s m with
    | error e => rw [hm] at hr; simp [bind, Except.bind] at hr
    | ok v =>
      obtain ⟨b, m1⟩ := v
      rw [hm] at hr
      simp only [bind, Except.bind] at hr
      have h1 := getNext_bal h hm
      cases b with
      | none =>
        simp only [pure, Except.pure] at hr
        injection hr with hr; subst hr; exact trackback_bal h1
      | some x =>
        simp only at hr
        split at hr
        · split at hr
          · simp only [pure, Except.pure] at hr
            injection hr with hr; subst hr; exact h1.same rfl rfl
          · exact ih _ h1 hr
        · split at hr
          · exact ih _ h1 hr
          · exact ih _ h1 hr

theorem matchStep_bal {B n : Nat} {s : Subject} {item : PItem} {m m' : M} (h : Bal B m)
    (hr : matchStep n s item m = .ok m') : Bal B m' := by
  unfold matchStep at hr
  simp only at hr
  split at hr
  · -- once
    cases hm : matchNext s item.bytes m with
    | error e => rw [hm] at hr; simp [bind, Except.bind] at hr
    | ok v =>
      obtain ⟨b, m1⟩ := v
      rw [hm] at hr
      have h1 := matchNext_bal h hm
      cases b <;> simp [bind, Except.bind, pure, Except.pure] at hr <;> subst hr
      · exact trackback_bal h1
      · exact h1.same rfl rfl
  · -- greedyRepeat
    cases hg : greedyLoop s item.bytes (s.size + 2) m with
    | error e => rw [hg] at hr; simp [bind, Except.bind] at hr
    | ok m1 =>
      rw [hg] at hr
      have h1 := greedyLoop_bal _ h hg
      simp only [bind, Except.bind, pure, Except.pure] at hr
      split at hr <;> (injection hr with hr; subst hr; exact h1.same rfl rfl)
  · -- greedyRepeatOnce
    cases hm : matchNext s item.bytes m with
    | error e => rw [hm] at hr; simp [bind, Except.bind] at hr
    | ok v =>
      obtain ⟨b, m1⟩ := v
      rw [hm] at hr
      have h1 := matchNext_bal h hm
      cases b with
      | false =>
        simp [bind, Except.bind, pure, Except.pure] at hr; subst hr; exact trackback_bal h1
      | true =>
        simp only [bind, Except.bind, Bool.not_true, Bool.false_eq_true, if_false] at hr
        cases hg : greedyLoop s item.bytes (s.size + 2) m1 with
        | error e => rw [hg] at hr; simp at hr
        | ok m2 =>
          rw [hg] at hr
          have h2 := greedyLoop_bal _ h1 hg
          simp only [pure, Except.pure] at hr
          split at hr <;> (injection hr with hr; subst hr; exact h2.same rfl rfl)
  · -- repeat_
    cases hm : matchNext s item.bytes m with
    | error e => rw [hm] at hr; simp [bind, Except.bind] at hr
    | ok v =>
      obtain ⟨b, m1⟩ := v
      rw [hm] at hr
      have h1 := matchNext_bal h hm
      simp only [bind, Except.bind, pure, Except.pure] at hr
      injection hr with hr; subst hr
      cases b <;> exact h1.same rfl rfl
  · -- optional
    cases hm : matchNext s item.bytes { m with pi := m.pi + 1 } with
    | error e => rw [hm] at hr; simp [bind, Except.bind] at hr
    | ok v =>
      obtain ⟨b, m1⟩ := v
      rw [hm] at hr
      have h1 := matchNext_bal (m := { m with pi := m.pi + 1 }) (h.same rfl rfl) hm
      simp only [bind, Except.bind, pure, Except.pure] at hr
      cases b <;> simp at hr <;> subst hr
      · exact h1
      · exact h1.same rfl rfl
  · -- capture
    cases hc : capAt m.caps item.bytes.w0.toNat with
    | error e => rw [hc] at hr; simp [bind, Except.bind] at hr
    | ok c =>
      rw [hc] at hr
      simp only [bind, Except.bind] at hr
      split at hr
      · cases hcb : consumeBudgetN m (c.stop - c.start).toNat with
        | error e => rw [hcb] at hr; simp at hr
        | ok m1 =>
          rw [hcb] at hr
          simp only at hr
          -- the state after charging `n` units and recording `n` compared bytes
          have hbal : ∀ mf : M, mf.budget = m1.budget → total mf = total m1 + (c.stop - c.start).toNat → Bal B mf := by
            intro mf hb ht
            unfold consumeBudgetN at hcb
            by_cases h0 : m.budget = 0
            · simp only [h0, if_true] at hcb
              injection hcb with hcb; subst hcb
              refine ⟨fun _ => by rw [hb]; exact h0, fun hB => ?_⟩
              have := (h.2 hB).1; omega
            · simp only [h0, if_false] at hcb
              split at hcb
              · cases hcb
              · injection hcb with hcb; subst hcb
                refine ⟨fun hB => ?_, fun hB => ?_⟩
                · have := h.1 hB; omega
                · have := h.2 hB
                  have e : total { m with budget := m.budget - (c.stop - c.start).toNat } = total m := rfl
                  rw [hb, ht, e]; simp only; omega
          cases h1 : sliceChecked s c.start c.stop with
          | error e => rw [h1] at hr; simp at hr
          | ok a =>
            rw [h1] at hr
            simp only at hr
            cases h2 : sliceChecked s m1.si (m.si + c.stop - c.start) with
            | error e => rw [h2] at hr; simp at hr
            | ok b =>
              rw [h2] at hr
              simp only [pure, Except.pure] at hr
              split at hr <;> (injection hr with hr; subst hr)
              · exact hbal _ rfl (by simp [total]; omega)
              · exact trackback_bal (hbal _ rfl (by simp [total]; omega))
      · simp only [pure, Except.pure] at hr
        injection hr with hr; subst hr; exact trackback_bal h
  · -- balanced
    cases hm : getNext s m with
    | error e => rw [hm] at hr; simp [bind, Except.bind] at hr
    | ok v =>
      obtain ⟨b, m1⟩ := v
      rw [hm] at hr
      have h1 := getNext_bal h hm
      simp only [bind, Except.bind, pure, Except.pure] at hr
      split at hr
      · injection hr with hr; subst hr; exact trackback_bal h1
      · exact balLoop_bal _ _ h1 hr
  · -- frontier
    simp only [bind, Except.bind] at hr
    split at hr
    · simp at hr
    · split at hr
      · simp at hr
      · simp only [pure, Except.pure] at hr
        split at hr <;> (injection hr with hr; subst hr)
        · exact trackback_bal h
        · exact h.same rfl rfl
  · -- startCapture
    cases hc : capSet m.caps item.bytes.w0.toNat ⟨m.si, -1⟩ with
    | error e => rw [hc] at hr; simp [bind, Except.bind] at hr
    | ok caps =>
      rw [hc] at hr
      simp only [bind, Except.bind, pure, Except.pure] at hr
      injection hr with hr; subst hr; exact h.same rfl rfl
  · -- endCapture
    cases hc : capAt m.caps item.bytes.w0.toNat with
    | error e => rw [hc] at hr; simp [bind, Except.bind] at hr
    | ok c =>
      rw [hc] at hr
      simp only [bind, Except.bind] at hr
      cases hc2 : capSet m.caps item.bytes.w0.toNat { c with stop := m.si } with
      | error e => rw [hc2] at hr; simp at hr
      | ok caps =>
        rw [hc2] at hr
        simp only [pure, Except.pure] at hr
        injection hr with hr; subst hr; exact h.same rfl rfl

theorem step_bal' {B : Nat} {P : Pattern} {s : Subject} {m m' : M} {st : Status} (h : Bal B m)
    (hr : step P s m = .ok (st, m')) : Bal B m' := by
  unfold step at hr
  cases hc : consumeBudget { m with steps := m.steps + 1 } with
  | error e => simp [hc, bind, Except.bind] at hr
  | ok m0 =>
    simp only [hc, bind, Except.bind] at hr
    have h0 : Bal B m0 :=
      consume_gen (m := { m with steps := m.steps + 1 }) h rfl (by unfold total; simp only; omega) hc
    split at hr
    · rename_i hlt
      cases hm : matchStep P.items.size s P.items[m0.pi] m0 with
      | error e => rw [hm] at hr; simp at hr
      | ok m1 =>
        rw [hm] at hr
        simp only [pure, Except.pure] at hr
        injection hr with hr; injection hr with _ hr; subst hr
        exact matchStep_bal h0 hm
    · split at hr
      · simp only [pure, Except.pure] at hr
        injection hr with hr; injection hr with _ hr; subst hr; exact h0
      · split at hr
        · cases hc1 : capAt m0.caps 0 with
          | error e => simp [hc1] at hr
          | ok c =>
            simp only [hc1] at hr
            cases hc2 : capSet m0.caps 0 { c with stop := m0.si } with
            | error e => simp [hc2] at hr
            | ok caps =>
              simp only [hc2, pure, Except.pure] at hr
              injection hr with hr; injection hr with _ hr; subst hr; exact h0.same rfl rfl
        · simp only [pure, Except.pure] at hr
          injection hr with hr; injection hr with _ hr; subst hr; exact trackback_bal h0

theorem run_bal {B : Nat} {P : Pattern} {s : Subject} : ∀ (fuel : Nat) {m m' : M} {b : Bool}, Bal B m →
    run P s fuel m = .ok (b, m') → Bal B m' := by
  intro fuel
  induction fuel with
  | zero => intro m m' b _ hr; simp [run] at hr
  | succ f ih =>
    intro m m' b h hr
    rw [run] at hr
    cases hs : step P s m with
    | error e => rw [hs] at hr; simp [bind, Except.bind] at hr
    | ok v =>
      obtain ⟨st, m1⟩ := v
      rw [hs] at hr
      have h1 := step_bal' h hs
      simp only [bind, Except.bind] at hr
      cases st with
      | running => exact ih h1 hr
      | matched => simp only [pure, Except.pure] at hr; injection hr with hr; injection hr with _ hr; subst hr; exact h1
      | failed => simp only [pure, Except.pure] at hr; injection hr with hr; injection hr with _ hr; subst hr; exact h1

theorem matchToEnd_bal {B : Nat} {P : Pattern} {s : Subject} {fuel : Nat} {m m' : M} {o : Option (List Capture)}
    (h : Bal B m) (hr : matchToEnd P s fuel m = .ok (o, m')) : Bal B m' := by
  unfold matchToEnd at hr
  cases hc : capAt m.caps 0 with
  | error e => simp [hc, bind, Except.bind] at hr
  | ok c =>
    simp only [hc, bind, Except.bind] at hr
    cases hc2 : capSet m.caps 0 { c with start := m.si } with
    | error e => simp [hc2] at hr
    | ok caps =>
      simp only [hc2] at hr
      cases hrun : run P s fuel { m with caps := caps } with
      | error e => simp [hrun] at hr
      | ok v =>
        obtain ⟨b, m1⟩ := v
        simp only [hrun] at hr
        have h1 : Bal B m1 := run_bal fuel (m := { m with caps := caps }) (h.same rfl rfl) hrun
        split at hr
        · split at hr
          · simp only [pure, Except.pure] at hr
            injection hr with hr; injection hr with _ hr; subst hr; exact h1
          · simp [throw, throwThe, MonadExceptOf.throw] at hr
        · simp only [pure, Except.pure] at hr
          injection hr with hr; injection hr with _ hr; subst hr; exact h1

theorem findLoop_bal {B : Nat} {P : Pattern} {s : Subject} {fuel : Nat} : ∀ (cnt : Nat) {si : Int} {m m' : M}
    {o : Option (List Capture)}, Bal B m → findLoop P s fuel cnt si m = .ok (o, m') → Bal B m' := by
  intro cnt
  induction cnt with
  | zero =>
    intro si m m' o h hr
    simp only [findLoop, pure, Except.pure] at hr
    injection hr with hr; injection hr with _ hr; subst hr; exact h
  | succ c ih =>
    intro si m m' o h hr
    rw [findLoop] at hr
    split at hr
    · cases hm : matchToEnd P s fuel (reset m si) with
      | error e => simp [hm, bind, Except.bind] at hr
      | ok v =>
        obtain ⟨r, m1⟩ := v
        simp only [hm, bind, Except.bind] at hr
        have h1 : Bal B m1 := matchToEnd_bal (m := reset m si) (h.same rfl rfl) hm
        cases r with
        | some caps =>
          simp only [pure, Except.pure] at hr
          injection hr with hr; injection hr with _ hr; subst hr; exact h1
        | none => exact ih h1 hr
    · simp only [pure, Except.pure] at hr
      injection hr with hr; injection hr with _ hr; subst hr; exact h

theorem initM_bal (init : Int) (B : Nat) : Bal B (initM init B) := by
  unfold Bal initM total; simp

/-- BUDGET = WORK: whenever `MatchFromStart` returns normally under a budget `B > 0`, the amount it reports as used is
    exactly the number of machine steps plus the bytes consumed plus the bytes compared by back-references, and it
    is below `B`; the only other outcomes are the `budgetConsumed` panic (reported as `B + 1`), an index panic
    (re-raised) and the model's fuel artefact -/
theorem matchFromStart_charged (P : Pattern) (s : Subject) (fuel : Nat) (init : Int) (B : Nat) (hB : 0 < B) :
    let r := matchFromStart P s fuel init B
    (r.used = r.steps + r.consumed + r.compared ∧ r.used < B) ∨ (r.used = B + 1 ∧ r.captures = none) ∨
      r.escapedPanic.isSome ∨ r.outOfFuel = true := by
  simp only
  unfold matchFromStart
  cases hr : findFromStart P s fuel (initM init B) with
  | error e =>
    cases e with
    | budgetConsumed => right; left; exact ⟨rfl, rfl⟩
    | goPanic w => right; right; left; rfl
    | outOfFuel => right; right; right; rfl
  | ok v =>
    obtain ⟨o, m⟩ := v
    left
    have hbal : Bal B m := by
      unfold findFromStart at hr
      split at hr
      · exact matchToEnd_bal (initM_bal init B) hr
      · unfold find at hr; exact findLoop_bal _ (initM_bal init B) hr
    have := hbal.2 hB
    unfold total at this
    simp only [recoverWrap]
    omega

end GoluaVerif.Model.PatMatch
