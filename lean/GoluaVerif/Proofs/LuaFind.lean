/-
  Proofs.LuaFind — the Lua-level `string.find` / `string.match` of matching.go (Model.Gsub.luaFind / luaMatch)
  against the Spec's `strFind` / `strMatch`, on top of the machine refinement.
-/
import GoluaVerif.Proofs.ParseWF
import GoluaVerif.Model.Gsub
namespace GoluaVerif.Model.PatMatch
open GoluaVerif.Model GoluaVerif.Spec
open GoluaVerif.Spec.LuaPattern (Cap LVal)

/-- a capture of a finished match: a closed capture inside the subject, or a position -/
def CapOK (size : Nat) : Cap → Prop
  | .closed a b => a ≤ b ∧ b ≤ size
  | .position _ => True
  | _ => False

theorem maxExpand_some {α} (K : Nat → Option α) (p : Nat) : ∀ (n : Nat) (r : α), LuaPattern.maxExpand K p n = some r →
    ∃ j, j ≤ n ∧ K (p + j) = some r := by
  intro n
  induction n with
  | zero => intro r h; exact ⟨0, Nat.le_refl _, by simpa [LuaPattern.maxExpand] using h⟩
  | succ n ih =>
    intro r h
    unfold LuaPattern.maxExpand at h
    cases hk : K (p + n + 1) with
    | some v =>
      rw [hk] at h; simp only [Option.orElse] at h
      injection h with h; subst h
      exact ⟨n + 1, Nat.le_refl _, by rw [← Nat.add_assoc]; exact hk⟩
    | none =>
      rw [hk] at h; simp only [Option.orElse] at h
      obtain ⟨j, hj, hkj⟩ := ih r h
      exact ⟨j, by omega, hkj⟩

theorem minExpand_some {α} (K : Nat → Option α) (s : Subject) (c : LuaPattern.Cls) : ∀ (fuel p : Nat) (r : α),
    LuaPattern.minExpand K s c p fuel = some r → ∃ j, K (p + j) = some r := by
  intro fuel
  induction fuel with
  | zero => intro p r h; exact ⟨0, by simpa [LuaPattern.minExpand] using h⟩
  | succ f ih =>
    intro p r h
    unfold LuaPattern.minExpand at h
    cases hk : K p with
    | some v =>
      rw [hk] at h; simp only [Option.orElse] at h
      injection h with h; subst h
      exact ⟨0, hk⟩
    | none =>
      rw [hk] at h; simp only [Option.orElse] at h
      split at h
      · obtain ⟨j, hj⟩ := ih (p + 1) r h
        exact ⟨j + 1, by rw [← Nat.add_assoc, Nat.add_right_comm]; exact hj⟩
      · cases h

theorem balance_ge (s : Subject) (x y : UInt8) : ∀ (fuel p d q : Nat), LuaPattern.balance s x y p d fuel = some q → p < q := by
  intro fuel
  induction fuel with
  | zero => intro p d q h; simp [LuaPattern.balance] at h
  | succ f ih =>
    intro p d q h
    unfold LuaPattern.balance at h
    cases hs : s[p]? with
    | none => rw [hs] at h; cases h
    | some b =>
      rw [hs] at h
      simp only at h
      split at h
      · split at h
        · injection h with h; omega
        · have := ih _ _ _ h; omega
      · split at h
        · have := ih _ _ _ h; omega
        · have := ih _ _ _ h; omega

/-- a Spec match never ends before it starts -/
theorem matchItems_ge (s : Subject) (ae : Bool) : ∀ (items : List LuaPattern.Item) (p : Nat) (caps : LuaPattern.Caps)
    (e : Nat) (c : LuaPattern.Caps), LuaPattern.matchItems s ae items p caps = some (e, c) → p ≤ e := by
  intro items
  induction items with
  | nil =>
    intro p caps e c h
    unfold LuaPattern.matchItems at h
    split at h
    · cases h
    · injection h with h; injection h with h1 _; omega
  | cons it rest ih =>
    intro p caps e c h
    cases it with
    | char cl q =>
      cases q with
      | one =>
        unfold LuaPattern.matchItems at h
        split at h
        · have := ih _ _ _ _ h; omega
        · cases h
      | star =>
        unfold LuaPattern.matchItems at h
        obtain ⟨j, _, hk⟩ := maxExpand_some _ _ _ _ h
        have := ih _ _ _ _ hk; omega
      | plus =>
        unfold LuaPattern.matchItems at h
        split at h
        · obtain ⟨j, _, hk⟩ := maxExpand_some _ _ _ _ h
          have := ih _ _ _ _ hk; omega
        · cases h
      | lazy =>
        unfold LuaPattern.matchItems at h
        obtain ⟨j, hk⟩ := minExpand_some _ _ _ _ _ _ h
        have := ih _ _ _ _ hk; omega
      | opt =>
        unfold LuaPattern.matchItems at h
        split at h
        · cases hk : LuaPattern.matchItems s ae rest (p + 1) caps with
          | some v =>
            rw [hk] at h; simp only [Option.orElse] at h
            injection h with h; subst h
            have := ih _ _ _ _ hk; omega
          | none =>
            rw [hk] at h; simp only [Option.orElse] at h
            exact ih _ _ _ _ h
        · exact ih _ _ _ _ h
    | «open» n => unfold LuaPattern.matchItems at h; exact ih _ _ _ _ h
    | close n =>
      unfold LuaPattern.matchItems at h
      split at h
      · exact ih _ _ _ _ h
      · cases h
    | pos n => unfold LuaPattern.matchItems at h; exact ih _ _ _ _ h
    | backref n =>
      unfold LuaPattern.matchItems at h
      split at h
      · simp only at h
        split at h
        · have := ih _ _ _ _ h; omega
        · cases h
      · cases h
    | bal x y =>
      unfold LuaPattern.matchItems at h
      split at h
      · split at h
        · rename_i q hq
          have h1 := balance_ge s x y _ _ _ _ hq
          have := ih _ _ _ _ h; omega
        · cases h
      · cases h
    | frontier cl =>
      unfold LuaPattern.matchItems at h
      simp only at h
      split at h
      · split at h
        · exact ih _ _ _ _ h
        · cases h
      · split at h
        · exact ih _ _ _ _ h
        · cases h

/-- the captures of every Spec match of a well-formed pattern are closed (inside the subject) or positions -/
theorem matchAt_caps_ok (P : Pattern) (s : Subject) (pat : LuaPattern.Pat) (hp : PatRel P pat) (q : Nat)
    (hq : q ≤ s.size) (r : LuaPattern.MatchRes) (hr : LuaPattern.matchAt pat s q = some r) :
    r.start = q ∧ q ≤ r.stop ∧ r.stop ≤ s.size ∧ ∀ c ∈ r.caps, CapOK s.size c := by
  let m := withStart (initM q 0)
  have hsz1 : m.caps.size = 10 := by simp [m, withStart, initM]
  have hA0 : Agree s (fun _ => Shape.unset) (q : Int) q m.caps LuaPattern.Caps.init := by
    refine ⟨hsz1, by simp [LuaPattern.Caps.init, LuaPattern.maxCaptures], ?_, fun n _ _ => trivial⟩
    exact ⟨⟨q, 0⟩, by simp [m, withStart, initM], rfl⟩
  have ho : Outcome P s _ _ m m.tbs (LuaPattern.matchItems s P.endAnchor pat.items q LuaPattern.Caps.init) :=
    sim P s (q : Int) pat.items 0 (fun _ => Shape.unset) hp.rel hp.wf LuaPattern.Caps.init q m q rfl rfl
      (Nat.le_refl q) hq rfl hA0
  unfold LuaPattern.matchAt at hr
  rw [hp.anchorEnd] at hr
  cases hm : LuaPattern.matchItems s P.endAnchor pat.items q LuaPattern.Caps.init with
  | none => rw [hm] at hr; cases hr
  | some v =>
    obtain ⟨e, caps'⟩ := v
    rw [hm] at hr ho
    simp only at hr
    injection hr with hr; subst hr
    obtain ⟨m', hreach, hfin, lo', hz⟩ := ho
    refine ⟨rfl, ?_, hfin.2.2.1, ?_⟩
    · exact matchItems_ge s P.endAnchor pat.items q _ e caps' hm
    · intro c hc
      obtain ⟨h1, h2, h3, h4⟩ := hz
      simp only at hc
      obtain ⟨k, hk, hget⟩ := List.getElem_of_mem hc
      have hklt : k < pat.ncap := by
        have := hk; simp at this; omega
      have hidx : caps'[k + 1]? = some c := by
        have : ((caps'.drop 1).take pat.ncap)[k]? = some c := by rw [List.getElem?_eq_getElem hk, hget]
        rw [List.getElem?_take] at this
        simp only [hklt, if_true, List.getElem?_drop] at this
        rw [Nat.add_comm] at this; exact this
      have hn9 := hp.ncap_le
      have := h4 (k + 1) (by omega) (by omega)
      rcases hp.allClosed (k + 1) (by omega) (by omega) with hs | hs
      · rw [hs] at this
        obtain ⟨a, b, x1, x2, x3, x4⟩ := this
        rw [x1] at hidx; injection hidx with hidx; subst hidx
        exact ⟨x3, x4⟩
      · rw [hs] at this
        obtain ⟨a, x1, x2⟩ := this
        rw [x1] at hidx; injection hidx with hidx; subst hidx
        trivial

theorem startIndex_eq (len : Nat) (init : Int) : Gsub.startIndex len init = (LuaPattern.normInit len init : Int) := by
  unfold Gsub.startIndex LuaPattern.normInit
  by_cases h1 : init > 0
  · have : ¬ (init < 0) := by omega
    simp only [this, if_false, h1, if_true]
    have : ¬ (init - 1 < 0) := by omega
    simp only [this, if_false]
    omega
  · by_cases h2 : init = 0
    · subst h2; simp
    · have h3 : init < 0 := by omega
      simp only [h3, if_true, h1, if_false, h2]
      by_cases h4 : -init > (len : Int)
      · have : (len : Int) + 1 + init - 1 < 0 := by omega
        simp [this, h4]
      · have : ¬ ((len : Int) + 1 + init - 1 < 0) := by omega
        simp only [this, if_false, h4]
        omega

theorem scan_some (pat : LuaPattern.Pat) (s : Subject) : ∀ (k q : Nat) (r : LuaPattern.MatchRes),
    LuaPattern.scan pat s q k = some r → ∃ q', q ≤ q' ∧ q' ≤ q + k ∧ LuaPattern.matchAt pat s q' = some r := by
  intro k
  induction k with
  | zero => intro q r h; exact ⟨q, Nat.le_refl _, Nat.le_refl _, by simpa [LuaPattern.scan] using h⟩
  | succ k ih =>
    intro q r h
    unfold LuaPattern.scan at h
    cases hm : LuaPattern.matchAt pat s q with
    | some v =>
      rw [hm] at h; simp only [Option.orElse] at h
      injection h with h; subst h
      exact ⟨q, Nat.le_refl _, by omega, hm⟩
    | none =>
      rw [hm] at h; simp only [Option.orElse] at h
      obtain ⟨q', h1, h2, h3⟩ := ih (q + 1) r h
      exact ⟨q', by omega, by omega, h3⟩

/-- every result of the Spec's `findParsed` (start inside the subject) is a match at some position, with good captures -/
theorem findParsed_ok (P : Pattern) (s : Subject) (pat : LuaPattern.Pat) (hp : PatRel P pat) (i : Nat) (hi : i ≤ s.size)
    (r : LuaPattern.MatchRes) (hr : LuaPattern.findParsed pat s i = some r) :
    i ≤ r.start ∧ r.start ≤ r.stop ∧ r.stop ≤ s.size ∧ ∀ c ∈ r.caps, CapOK s.size c := by
  unfold LuaPattern.findParsed at hr
  have : ¬ (i > s.size) := by omega
  simp only [this, if_false] at hr
  split at hr
  · obtain ⟨h1, h2, h3, h4⟩ := matchAt_caps_ok P s pat hp i hi r hr
    exact ⟨by omega, by omega, h3, h4⟩
  · obtain ⟨q', g1, g2, g3⟩ := scan_some pat s _ _ r hr
    obtain ⟨h1, h2, h3, h4⟩ := matchAt_caps_ok P s pat hp q' (by omega) r g3
    exact ⟨by omega, by omega, h3, h4⟩

/-- `captureValue` of matching.go on the machine form of a good Spec capture is the Spec's `capValue` -/
theorem captureValue_capOf (s : Subject) (c : Cap) (hc : CapOK s.size c) :
    Gsub.captureValue s (capOf c) = .ok (LuaPattern.capValue s c) := by
  cases c with
  | unset => exact hc.elim
  | opened a => exact hc.elim
  | closed a b =>
    obtain ⟨h1, h2⟩ := hc
    unfold Gsub.captureValue capOf
    have : ¬ ((b : Int) = -1) := by omega
    simp only [this, if_false]
    unfold Gsub.sliceE
    have h3 : (0 : Int) ≤ a ∧ (a : Int) ≤ b ∧ (b : Int) ≤ (s.size : Int) := by omega
    simp only [h3, and_self, if_true, Except.map, Int.toNat_natCast]
    rfl
  | position p =>
    unfold Gsub.captureValue capOf
    simp [LuaPattern.capValue]

theorem mapM_captureValue (s : Subject) : ∀ (caps : List Cap), (∀ c ∈ caps, CapOK s.size c) →
    (caps.map capOf).mapM (Gsub.captureValue s) = .ok (caps.map (LuaPattern.capValue s)) := by
  intro caps
  induction caps with
  | nil => intro _; rfl
  | cons c r ih =>
    intro h
    have h1 := captureValue_capOf s c (h c List.mem_cons_self)
    have h2 := ih (fun x hx => h x (List.mem_cons_of_mem _ hx))
    simp only [List.map_cons, List.mapM_cons, h1, h2, bind, Except.bind, pure, Except.pure]

/-- LUA-LEVEL `string.find(s, p, init)` (pattern mode): the mirror of matching.go's `find` returns what the Spec's
    `strFind` prescribes — for every subject and every `init` (negative, zero, beyond the end), under the hypotheses
    of `machine_refines_spec_partial` -/
theorem luaFind_refines (p : Array UInt8) (s : Subject) (init : Int) (pat : LuaPattern.Pat)
    (hparse : LuaPattern.parse p.toList = .ok pat)
    (hsize : p.size ≤ Generated.ByteSetTable.maxPatternSize) (hne : p.size ≠ 0) :
    ∃ vs, LuaPattern.strFind s p.toList init false = .vals vs ∧
      ∃ N, ∀ fuel, N ≤ fuel → Gsub.luaFind fuel s p init false = .vals vs := by
  obtain ⟨P, hb, hp⟩ := patRel_of_build p pat hparse (parse_wf p.toList pat hparse) hsize
  unfold LuaPattern.strFind Gsub.luaFind
  simp only [Bool.false_eq_true, if_false, Bool.false_or, hne, decide_false, startIndex_eq]
  by_cases hi : LuaPattern.normInit s.size init > s.size
  · have : ((LuaPattern.normInit s.size init : Nat) : Int) > (s.size : Int) := by omega
    simp only [hi, this, if_true, LuaPattern.beyondEnd, hparse]
    exact ⟨_, rfl, 0, fun _ _ => rfl⟩
  · have hi' : LuaPattern.normInit s.size init ≤ s.size := by omega
    have : ¬ (((LuaPattern.normInit s.size init : Nat) : Int) > (s.size : Int)) := by omega
    simp only [hi, this, if_false, LuaPattern.withPat, hparse, hb]
    obtain ⟨N, hN⟩ := matchFromStart_refines P s pat hp _ hi'
    cases hf : LuaPattern.findParsed pat s (LuaPattern.normInit s.size init) with
    | none =>
      refine ⟨_, rfl, N, fun fuel hle => ?_⟩
      obtain ⟨h1, h2, h3⟩ := hN fuel hle
      rw [hf] at h1
      simp only [h3, h2, Bool.false_eq_true, if_false, h1, Option.map]
    | some m =>
      obtain ⟨g1, g2, g3, g4⟩ := findParsed_ok P s pat hp _ hi' m hf
      refine ⟨_, rfl, N, fun fuel hle => ?_⟩
      obtain ⟨h1, h2, h3⟩ := hN fuel hle
      rw [hf] at h1
      simp only [h3, h2, Bool.false_eq_true, if_false, h1, Option.map, toCaptures, Gsub.extraCaptures, List.drop_succ_cons,
        List.drop_zero, mapM_captureValue s m.caps g4]

/-- LUA-LEVEL `string.match(s, p, init)`, for every `init` -/
theorem luaMatch_refines (p : Array UInt8) (s : Subject) (init : Int) (pat : LuaPattern.Pat)
    (hparse : LuaPattern.parse p.toList = .ok pat)
    (hsize : p.size ≤ Generated.ByteSetTable.maxPatternSize) :
    ∃ vs, LuaPattern.strMatch s p.toList init = .vals vs ∧
      ∃ N, ∀ fuel, N ≤ fuel → Gsub.luaMatch fuel s p init = .vals vs := by
  obtain ⟨P, hb, hp⟩ := patRel_of_build p pat hparse (parse_wf p.toList pat hparse) hsize
  unfold LuaPattern.strMatch Gsub.luaMatch
  simp only [startIndex_eq]
  by_cases hi : LuaPattern.normInit s.size init > s.size
  · have : ((LuaPattern.normInit s.size init : Nat) : Int) > (s.size : Int) := by omega
    simp only [hi, this, if_true, LuaPattern.beyondEnd, hparse]
    exact ⟨_, rfl, 0, fun _ _ => rfl⟩
  have hin : LuaPattern.normInit s.size init ≤ s.size := by omega
  have hi2 : ¬ (((LuaPattern.normInit s.size init : Nat) : Int) > (s.size : Int)) := by omega
  simp only [hi, hi2, if_false, LuaPattern.withPat, hparse, hb]
  obtain ⟨N, hN⟩ := matchFromStart_refines P s pat hp _ hin
  cases hf : LuaPattern.findParsed pat s (LuaPattern.normInit s.size init) with
  | none =>
    refine ⟨_, rfl, N, fun fuel hle => ?_⟩
    obtain ⟨h1, h2, h3⟩ := hN fuel hle
    rw [hf] at h1
    simp only [h3, h2, Bool.false_eq_true, if_false, h1, Option.map, Gsub.pushCaptures, Gsub.ofExcept]
  | some m =>
    obtain ⟨g1, g2, g3, g4⟩ := findParsed_ok P s pat hp _ hin m hf
    refine ⟨_, rfl, N, fun fuel hle => ?_⟩
    obtain ⟨h1, h2, h3⟩ := hN fuel hle
    rw [hf] at h1
    simp only [h3, h2, Bool.false_eq_true, if_false, h1, Option.map, toCaptures, LuaPattern.capValues]
    cases hc : m.caps with
    | nil =>
      simp only [List.map_nil, Gsub.pushCaptures, List.isEmpty_nil, if_true]
      unfold Gsub.sliceE
      have h3' : (0 : Int) ≤ (m.start : Int) ∧ (m.start : Int) ≤ (m.stop : Int) ∧ (m.stop : Int) ≤ (s.size : Int) := by omega
      simp only [h3', and_self, if_true, Except.map, Int.toNat_natCast, Gsub.ofExcept]
      rfl
    | cons c cs =>
      have hm := mapM_captureValue s m.caps g4
      rw [hc] at hm
      simp only [List.map_cons, Gsub.pushCaptures, Gsub.extraCaptures, List.drop_succ_cons, List.drop_zero,
        List.isEmpty_cons, Bool.false_eq_true, if_false] at hm ⊢
      rw [hm]
      rfl

end GoluaVerif.Model.PatMatch
