/-
  Proofs.C08 — helper lemmas about bit sets for Props/C08.lean (core Lean only).
-/
namespace GoluaVerif.Proofs.C08

theorem ffff_testBit : ∀ i, i < 16 → Nat.testBit 0xFFFF i = true := by decide

theorem testBit_lt16 (required : Nat) (hr : required < 2 ^ 16) (i : Nat) (hi : required.testBit i = true) : i < 16 := by
  apply Classical.byContradiction; intro hge
  have : required < 2 ^ i := Nat.lt_of_lt_of_le hr (Nat.pow_le_pow_right (by decide) (by omega))
  rw [Nat.testBit_lt_two_pow this] at hi; exact Bool.noConfusion hi

/-- bit-level fact used by the bridge: `S &&& sinks = 0` separates the two sets -/
theorem and_eq_zero_disjoint (S sinks v : Nat) (h : S &&& sinks = 0) (hS : S.testBit v = true) :
    sinks.testBit v = false := by
  have := congrArg (fun n => n.testBit v) h
  simp only [Nat.testBit_and, Nat.zero_testBit, hS, Bool.true_and] at this
  exact this

end GoluaVerif.Proofs.C08
