/-
  Proofs.ParseExp — `parse (render e ps) = some e`.

  Layer 2 (no tokens, no fuel): the stack algorithm `reduce`/`finish` of Model.ParseExp, run over
  the flattened operand/operator sequence of an unparenthesised rendering, rebuilds the tree
  (`climb_flat`).  Layer 1: the token-level functions with fuel follow that abstract run
  (`Claim`), by induction over expressions with explicit parenthesis nodes (`PExp`).
-/
import GoluaVerif.Model.ParseExp
namespace GoluaVerif.Proofs.ParseExp
open GoluaVerif.Spec.Grammar GoluaVerif.Model.ParseExp

/-- expressions with explicit (redundant) parenthesis nodes -/
inductive PExp where
  | atom (n : Nat)
  | un (op : UnOp) (e : PExp)
  | bin (op : BinOp) (l r : PExp)
  | paren (e : PExp)

namespace PExp

def erase : PExp → Exp
  | atom n => .atom n
  | un u e => .un u e.erase
  | bin o l r => .bin o l.erase r.erase
  | paren e => e.erase

/-- tokens of `p` where an expression of level ≥ `need` may stand -/
def toks : PExp → Nat → List Token
  | atom n, _ => [.atom n]
  | paren e, _ => .lp :: (toks e 0 ++ [.rp])
  | un u e, need =>
    if 10 < need then .lp :: ((.sym u.sym :: toks e 10) ++ [.rp]) else .sym u.sym :: toks e 10
  | bin o l r, need =>
    if o.prec < need then .lp :: ((toks l o.needL ++ .sym o.sym :: toks r o.needR) ++ [.rp])
    else toks l o.needL ++ .sym o.sym :: toks r o.needR

/-- operand/operator sequence of the rendering at `need`: parenthesised or tight (level ≥ 10)
    sub-expressions are operands -/
def flat : PExp → Nat → PExp × List (BinOp × PExp)
  | bin o l r, n =>
    if o.prec < n ∨ o = .pow then (bin o l r, [])
    else ((flat l o.needL).1, (flat l o.needL).2 ++ (o, (flat r o.needR).1) :: (flat r o.needR).2)
  | p, _ => (p, [])

end PExp
open PExp

/-! ## Layer 2 -/

/-- the loop of `Exp` over already-parsed operands -/
def climb : List Item → Item → List (BinOp × Exp) → Exp
  | st, last, [] => finish st last
  | st, last, (op, e) :: xs => climb ((reduce op st last).2 :: (reduce op st last).1) { exp := e, op := op } xs

def eraseOps (xs : List (BinOp × PExp)) : List (BinOp × Exp) := xs.map fun x => (x.1, x.2.erase)

/-- the operator that follows closes every pending operator of level ≥ n -/
def closes (z : BinOp) (n : Nat) : Prop := z.prec < n ∨ (z.prec = n ∧ z ≠ .concat)
/-- operators of level ≥ n stay above a pending `o` -/
def opens (o : BinOp) (n : Nat) : Prop := o.prec < n ∨ (o.prec = n ∧ o = .concat)

def followOK : List (BinOp × Exp) → Nat → Prop
  | [], _ => True
  | (z, _) :: _, n => closes z n

theorem prec7 (o : BinOp) (h : o.prec = 7) : o = .concat := by cases o <;> simp [BinOp.prec] at h ⊢
theorem needL_ge (o : BinOp) : o.prec ≤ o.needL := by cases o <;> simp [BinOp.prec, BinOp.needL]
theorem needR_ge (o : BinOp) (h : o ≠ .pow) : o.prec ≤ o.needR := by
  cases o <;> simp [BinOp.prec, BinOp.needR] at h ⊢
theorem needL_le10 (o : BinOp) (h : o ≠ .pow) : o.needL ≤ 10 := by
  cases o <;> simp [BinOp.needL, BinOp.prec] at h ⊢
theorem needR_le10 (o : BinOp) : o.needR ≤ 10 := by cases o <;> simp [BinOp.needR, BinOp.prec]

theorem closes_mono {z : BinOp} {n m : Nat} (h : closes z n) (hnm : n ≤ m) : closes z m := by
  unfold closes at *
  rcases h with h | ⟨h, hc⟩
  · left; omega
  · rcases Nat.lt_or_ge n m with h' | h'
    · left; omega
    · right; exact ⟨by omega, hc⟩

theorem opens_mono {o : BinOp} {n m : Nat} (h : opens o n) (hnm : n ≤ m) : opens o m := by
  unfold opens at *
  rcases h with h | ⟨h, hc⟩
  · left; omega
  · rcases Nat.lt_or_ge n m with h' | h'
    · left; omega
    · right; exact ⟨by omega, hc⟩

theorem followOK_mono {zs : List (BinOp × Exp)} {n m : Nat} (h : followOK zs n) (hnm : n ≤ m) : followOK zs m := by
  cases zs with
  | nil => trivial
  | cons z t => exact closes_mono h hnm

theorem closes_self_needL (o : BinOp) (h : o ≠ .pow) : closes o o.needL := by
  cases o <;> simp [closes, BinOp.needL, BinOp.prec] at h ⊢

theorem opens_self_needR (o : BinOp) (h : o ≠ .pow) : opens o o.needR := by
  cases o <;> simp [opens, BinOp.needR, BinOp.prec] at h ⊢

theorem breaks_of_opens {q o : BinOp} {n : Nat} (h : opens o n) (hq : n ≤ q.prec) : breaks q o = true := by
  unfold breaks
  rcases h with h | ⟨h, hc⟩
  · simp; left; omega
  · subst hc
    rcases Nat.lt_or_ge BinOp.concat.prec q.prec with h' | h'
    · simp; left; exact h'
    · have hc7 : BinOp.concat.prec = 7 := rfl
      have : q.prec = 7 := by rw [hc7] at h h'; omega
      have := prec7 q this
      subst this
      simp

theorem not_breaks_of_closes {z q : BinOp} {n : Nat} (h : closes z n) (hq : n ≤ q.prec) : breaks z q = false := by
  unfold breaks
  rcases h with h | ⟨h, hc⟩
  · simp; constructor
    · omega
    · intro he; omega
  · simp; constructor
    · omega
    · intro _; exact hc

theorem climb_append_step (st : List Item) (last : Item) (q : BinOp) (e : Exp) (xs : List (BinOp × Exp)) :
    climb st last ((q, e) :: xs) = climb ((reduce q st last).2 :: (reduce q st last).1) { exp := e, op := q } xs := rfl

/-- the heart: running the stack algorithm over the flattened rendering of `p` (as the right
    operand of a pending `o`) has the same effect as meeting `p` as ONE operand -/
theorem climb_flat (p : PExp) : ∀ (n : Nat) (st : List Item) (o : BinOp) (zs : List (BinOp × Exp)),
    (st = [] ∨ opens o n) → followOK zs n →
    climb st { exp := (flat p n).1.erase, op := o } (eraseOps (flat p n).2 ++ zs)
      = climb st { exp := p.erase, op := o } zs := by
  induction p with
  | atom k => intro n st o zs _ _; simp [flat, eraseOps]
  | un u e _ => intro n st o zs _ _; simp [flat, eraseOps]
  | paren e _ => intro n st o zs _ _; simp [flat, eraseOps]
  | bin q l r ihl ihr =>
    intro n st o zs hst hzs
    by_cases hc : q.prec < n ∨ q = .pow
    · simp [flat, hc, eraseOps]
    · have hq : n ≤ q.prec := by omega
      have hpow : q ≠ .pow := fun h => hc (Or.inr h)
      simp only [flat, hc, if_false, eraseOps, List.map_append, List.map_cons, List.append_assoc, List.cons_append]
      -- left operand, followed by q
      have h1 := ihl q.needL st o ((q, (flat r q.needR).1.erase) :: (eraseOps (flat r q.needR).2 ++ zs))
        (hst.imp id (fun h => opens_mono h (Nat.le_trans hq (needL_ge q)))) (closes_self_needL q hpow)
      simp only [eraseOps] at h1
      rw [h1, climb_append_step]
      -- q does not reduce past the pending o
      have hred : reduce q st { exp := l.erase, op := o } = (st, { exp := l.erase, op := o }) := by
        cases st with
        | nil => rfl
        | cons top rest =>
          have hop : opens o n := by
            rcases hst with h | h
            · cases h
            · exact h
          simp [reduce, breaks_of_opens hop hq]
      rw [hred]
      -- right operand
      have h2 := ihr q.needR ({ exp := l.erase, op := o } :: st) q zs
        (Or.inr (opens_self_needR q hpow)) (followOK_mono hzs (Nat.le_trans hq (needR_ge q hpow)))
      simp only [eraseOps] at h2
      rw [h2]
      -- what follows closes q
      cases zs with
      | nil => simp [climb, finish, merge, erase]
      | cons z zt =>
        obtain ⟨z1, z2⟩ := z
        simp only [climb_append_step]
        have hnb : breaks z1 q = false := not_breaks_of_closes hzs hq
        simp [reduce, hnb, merge, erase]

/-! ## Layer 1: tokens and fuel -/

def notHat : List Token → Prop
  | .sym .hat :: _ => False
  | _ => True

def endsExp : List Token → Prop
  | .sym s :: _ => binop? s = none
  | _ => True

theorem binop_sym (o : BinOp) : binop? o.sym = some o := by cases o <;> rfl
theorem unop_sym (u : UnOp) : unop? u.sym = some u := by cases u <;> rfl
theorem sym_hat (o : BinOp) (h : o ≠ .pow) : o.sym ≠ .hat := by cases o <;> simp [BinOp.sym] at h ⊢

theorem notHat_of_endsExp {rest : List Token} (h : endsExp rest) : notHat rest := by
  unfold notHat
  split
  · simp [endsExp, binop?] at h
  · trivial

theorem powTail_notHat (f : Nat) (e : Exp) (rest : List Token) (h : notHat rest) :
    powTail f e rest = some (e, rest) := by
  unfold powTail
  split
  · simp [notHat] at h
  · rfl

def opToks (xs : List (BinOp × PExp)) : List Token := xs.flatMap fun x => .sym x.1.sym :: x.2.toks 10

theorem opToks_append (a b : List (BinOp × PExp)) : opToks (a ++ b) = opToks a ++ opToks b := by
  simp [opToks, List.flatMap_append]

theorem opToks_cons (o : BinOp) (s : PExp) (xs : List (BinOp × PExp)) :
    opToks ((o, s) :: xs) = .sym o.sym :: (s.toks 10 ++ opToks xs) := by
  simp [opToks, List.flatMap_cons]

def Parses (s : PExp) : Prop :=
  ∀ f rest, 2 * (s.toks 10).length < f → notHat rest → shortExp f (s.toks 10 ++ rest) = some (s.erase, rest)

def Prim (p : PExp) : Prop :=
  ∀ f rest, 2 * (p.toks 12).length ≤ f → shortExp (f + 1) (p.toks 12 ++ rest) = powTail f p.erase rest

def B (p : PExp) : Prop :=
  ∀ f rest, 2 * (p.toks 0).length + 1 < f → endsExp rest → exp f (p.toks 0 ++ rest) = some (p.erase, rest)

def NoPow (xs : List (BinOp × PExp)) : Prop := ∀ x ∈ xs, x.1 ≠ .pow

theorem notHat_ops (xs : List (BinOp × PExp)) (rest : List Token) (hx : NoPow xs) (hr : endsExp rest) :
    notHat (opToks xs ++ rest) := by
  cases xs with
  | nil => simpa [opToks] using notHat_of_endsExp hr
  | cons x t =>
    obtain ⟨o, s⟩ := x
    rw [opToks_cons]
    have := sym_hat o (hx (o, s) (List.mem_cons_self ..))
    simp only [List.cons_append, notHat]
    split
    · rename_i heq; simp at heq; exact this heq.1
    · trivial

theorem loop_toks (xs : List (BinOp × PExp)) (hp : ∀ x ∈ xs, Parses x.2) (hn : NoPow xs) :
    ∀ f st last rest, 2 * (opToks xs).length < f → endsExp rest →
      expLoop f st last (opToks xs ++ rest) = some (climb st last (eraseOps xs), rest) := by
  induction xs with
  | nil =>
    intro f st last rest hf hr
    cases f with
    | zero => simp at hf
    | succ f =>
      simp only [opToks, List.flatMap_nil, List.nil_append, eraseOps, List.map_nil, climb]
      unfold expLoop
      split
      · rename_i s r
        simp only [endsExp] at hr
        simp [hr]
      · rfl
  | cons x t ih =>
    intro f st last rest hf hr
    obtain ⟨o, s⟩ := x
    cases f with
    | zero => simp at hf
    | succ f =>
      rw [opToks_cons] at hf ⊢
      simp only [List.length_cons, List.length_append] at hf
      have hs : Parses s := hp (o, s) (List.mem_cons_self ..)
      have hnt : NoPow t := fun x hx => hn x (List.mem_cons_of_mem _ hx)
      have hsh := hs f (opToks t ++ rest) (by omega) (notHat_ops t rest hnt hr)
      unfold expLoop
      simp only [List.cons_append, binop_sym, List.append_assoc, hsh]
      rw [ih (fun x hx => hp x (List.mem_cons_of_mem _ hx)) hnt f _ _ rest (by omega) hr]
      simp [eraseOps, climb]

theorem flat_noPow (p : PExp) : ∀ n, NoPow (flat p n).2 := by
  induction p with
  | atom k => intro n x hx; simp [flat] at hx
  | un u e _ => intro n x hx; simp [flat] at hx
  | paren e _ => intro n x hx; simp [flat] at hx
  | bin q l r ihl ihr =>
    intro n x hx
    by_cases hc : q.prec < n ∨ q = .pow
    · simp [flat, hc] at hx
    · simp only [flat, hc, if_false, List.mem_append, List.mem_cons] at hx
      rcases hx with hx | rfl | hx
      · exact ihl _ x hx
      · exact fun h => hc (Or.inr h)
      · exact ihr _ x hx

theorem flat_toks (p : PExp) : ∀ n, n ≤ 10 → p.toks n = (flat p n).1.toks 10 ++ opToks (flat p n).2 := by
  induction p with
  | atom k => intro n _; simp [flat, toks, opToks]
  | paren e _ => intro n _; simp [flat, toks, opToks]
  | un u e _ =>
    intro n hn
    have h1 : ¬ 10 < n := by omega
    simp [flat, toks, opToks, h1]
  | bin q l r ihl ihr =>
    intro n hn
    by_cases hc : q.prec < n ∨ q = .pow
    · simp only [flat, hc, if_true, opToks, List.flatMap_nil, List.append_nil]
      rcases hc with hc | hc
      · have : q.prec < 10 := by omega
        simp [toks, hc, this]
      · subst hc
        have h1 : ¬ BinOp.pow.prec < n := by simp [BinOp.prec]; omega
        have h2 : ¬ BinOp.pow.prec < 10 := by simp [BinOp.prec]
        simp [toks, h1, h2]
    · have hpow : q ≠ .pow := fun h => hc (Or.inr h)
      have hq : ¬ q.prec < n := fun h => hc (Or.inl h)
      simp only [flat, toks]
      simp only [if_neg hc, if_neg hq]
      rw [ihl _ (needL_le10 q hpow), ihr _ (needR_le10 q), opToks_append, opToks_cons]
      simp [List.append_assoc]

/-- `exp` on the rendering at need 0, given that all operands of its flattening parse -/
theorem B_of_flat (p : PExp) (h0 : Parses (flat p 0).1) (hx : ∀ x ∈ (flat p 0).2, Parses x.2) : B p := by
  intro f rest hf hr
  cases f with
  | zero => simp at hf
  | succ f =>
    rw [flat_toks p 0 (by omega)] at hf ⊢
    simp only [List.length_append] at hf
    unfold exp
    have hnp := flat_noPow p 0
    rw [List.append_assoc, h0 f _ (by omega) (notHat_ops _ rest hnp hr)]
    simp only
    rw [loop_toks _ hx hnp f _ _ rest (by omega) hr]
    have := climb_flat p 0 [] .or [] (Or.inl rfl) trivial
    simp only [List.append_nil] at this
    rw [this]
    simp [climb, finish]

theorem Parses_of_Prim (p : PExp) (h : Prim p) (h12 : p.toks 10 = p.toks 12) : Parses p := by
  intro f rest hf hr
  cases f with
  | zero => simp at hf
  | succ f =>
    rw [h12] at hf ⊢
    rw [h f rest (by omega), powTail_notHat f _ rest hr]

/-- a parenthesised form `( body )` whose body parses with `exp` -/
theorem Prim_of_B (p q : PExp) (hB : B q) (he : q.erase = p.erase)
    (ht : p.toks 12 = .lp :: (q.toks 0 ++ [.rp])) : Prim p := by
  intro f rest hf
  rw [ht] at hf ⊢
  simp only [List.length_cons, List.length_append, List.length_nil] at hf
  unfold shortExp
  simp only [List.cons_append, List.append_assoc, List.nil_append]
  have hr : endsExp (Token.rp :: rest) := by simp [endsExp]
  rw [hB f (Token.rp :: rest) (by omega) hr, he]

structure Claim (p : PExp) : Prop where
  b : B p
  parses : Parses p
  prim : Prim p
  flatP : ∀ n, n ≤ 10 → Parses (flat p n).1 ∧ ∀ x ∈ (flat p n).2, Parses x.2

theorem claim (p : PExp) : Claim p := by
  induction p with
  | atom k =>
    have hprim : Prim (.atom k) := by
      intro f rest _
      simp [toks, erase, shortExp]
    have hpar : Parses (.atom k) := Parses_of_Prim _ hprim rfl
    have hfl : ∀ n, n ≤ 10 → Parses (flat (.atom k) n).1 ∧ ∀ x ∈ (flat (.atom k) n).2, Parses x.2 := by
      intro n _; simp [flat]; exact hpar
    exact ⟨B_of_flat _ (hfl 0 (by omega)).1 (hfl 0 (by omega)).2, hpar, hprim, hfl⟩
  | paren e ih =>
    have hprim : Prim (.paren e) := Prim_of_B (.paren e) e ih.b rfl (by simp [toks])
    have hpar : Parses (.paren e) := Parses_of_Prim _ hprim (by simp [toks])
    have hfl : ∀ n, n ≤ 10 → Parses (flat (.paren e) n).1 ∧ ∀ x ∈ (flat (.paren e) n).2, Parses x.2 := by
      intro n _; simp [flat]; exact hpar
    exact ⟨B_of_flat _ (hfl 0 (by omega)).1 (hfl 0 (by omega)).2, hpar, hprim, hfl⟩
  | un u e ih =>
    have hpar : Parses (.un u e) := by
      intro f rest hf hr
      cases f with
      | zero => simp at hf
      | succ f =>
        simp only [toks, show ¬ 10 < 10 by omega, if_false, List.length_cons] at hf ⊢
        unfold shortExp
        simp only [List.cons_append, unop_sym]
        rw [ih.parses f rest (by omega) hr]
        simp only
        rw [powTail_notHat f _ rest hr]
        rfl
    have hfl : ∀ n, n ≤ 10 → Parses (flat (.un u e) n).1 ∧ ∀ x ∈ (flat (.un u e) n).2, Parses x.2 := by
      intro n _; simp [flat]; exact hpar
    have hb := B_of_flat _ (hfl 0 (by omega)).1 (hfl 0 (by omega)).2
    have hprim : Prim (.un u e) := Prim_of_B (.un u e) (.un u e) hb rfl (by simp [toks])
    exact ⟨hb, hpar, hprim, hfl⟩
  | bin q l r ihl ihr =>
    by_cases hpow : q = .pow
    · subst hpow
      have hpar : Parses (.bin .pow l r) := by
        intro f rest hf hr
        cases f with
        | zero => simp at hf
        | succ f =>
          have h1 : ¬ BinOp.pow.prec < 10 := by simp [BinOp.prec]
          simp only [toks, h1, if_false, BinOp.needL, BinOp.needR, BinOp.sym, List.length_append,
            List.length_cons] at hf ⊢
          rw [List.append_assoc, ihl.prim f _ (by omega)]
          unfold powTail
          simp only [List.cons_append]
          rw [ihr.parses f rest (by omega) hr]
          rfl
      have hfl : ∀ n, n ≤ 10 → Parses (flat (.bin .pow l r) n).1 ∧ ∀ x ∈ (flat (.bin .pow l r) n).2, Parses x.2 := by
        intro n _; simp [flat]; exact hpar
      have hb := B_of_flat _ (hfl 0 (by omega)).1 (hfl 0 (by omega)).2
      have hprim : Prim (.bin .pow l r) :=
        Prim_of_B _ (.bin .pow l r) hb rfl (by simp [toks, BinOp.prec])
      exact ⟨hb, hpar, hprim, hfl⟩
    · -- flattening at a need that does not parenthesise this node: operands come from the children
      have hfl1 : ∀ n, ¬ q.prec < n → Parses (flat (.bin q l r) n).1 ∧ ∀ x ∈ (flat (.bin q l r) n).2, Parses x.2 := by
        intro n hn
        have hc : ¬ (q.prec < n ∨ q = .pow) := fun h => h.elim hn hpow
        have hl := ihl.flatP q.needL (needL_le10 q hpow)
        have hr := ihr.flatP q.needR (needR_le10 q)
        simp only [flat, hc, if_false]
        refine ⟨hl.1, ?_⟩
        intro x hx
        simp only [List.mem_append, List.mem_cons] at hx
        rcases hx with hx | rfl | hx
        · exact hl.2 x hx
        · exact hr.1
        · exact hr.2 x hx
      have hb := B_of_flat _ (hfl1 0 (by omega)).1 (hfl1 0 (by omega)).2
      have hlt : q.prec < 12 := by cases q <;> simp [BinOp.prec]
      have hlt10 : q.prec < 10 := by cases q <;> simp [BinOp.prec] at hpow ⊢
      have hprim : Prim (.bin q l r) := Prim_of_B _ (.bin q l r) hb rfl (by simp [toks, hlt])
      have hpar : Parses (.bin q l r) := Parses_of_Prim _ hprim (by simp [toks, hlt, hlt10])
      have hfl : ∀ n, n ≤ 10 → Parses (flat (.bin q l r) n).1 ∧ ∀ x ∈ (flat (.bin q l r) n).2, Parses x.2 := by
        intro n _
        by_cases hn : q.prec < n
        · simp [flat, hn]; exact hpar
        · exact hfl1 n hn
      exact ⟨hb, hpar, hprim, hfl⟩

/-- Model.ParseExp.parse inverts the printer on explicit-parenthesis trees -/
theorem parse_toks (p : PExp) : parse (p.toks 0) = some p.erase := by
  unfold parse
  have := (claim p).b (2 * (p.toks 0).length + 2) [] (by omega) (by simp [endsExp])
  simp only [List.append_nil] at this
  rw [this]

/-! ## from `render e ps` to explicit-parenthesis trees -/

def wrapP : Nat → PExp → PExp
  | 0, p => p
  | k + 1, p => .paren (wrapP k p)

def annot : Exp → Parens → PExp
  | .atom n, ps => wrapP (ps []) (.atom n)
  | .un u e, ps => wrapP (ps []) (.un u (annot e (ps.child 0)))
  | .bin o l r, ps => wrapP (ps []) (.bin o (annot l (ps.child 0)) (annot r (ps.child 1)))

theorem erase_wrapP (k : Nat) (p : PExp) : (wrapP k p).erase = p.erase := by
  induction k with
  | zero => rfl
  | succ k ih => simpa [wrapP, erase] using ih

theorem erase_annot (e : Exp) : ∀ ps, (annot e ps).erase = e := by
  induction e with
  | atom n => intro ps; simp [annot, erase_wrapP, erase]
  | un u e ih => intro ps; simp [annot, erase_wrapP, erase, ih]
  | bin o l r ihl ihr => intro ps; simp [annot, erase_wrapP, erase, ihl, ihr]

theorem toks_wrapP0 (k : Nat) (p : PExp) : (wrapP k p).toks 0 = wrap k (p.toks 0) := by
  induction k with
  | zero => rfl
  | succ k ih => simp [wrapP, toks, wrap, ih]

theorem toks_wrapP_succ (k : Nat) (p : PExp) (need : Nat) :
    (wrapP (k + 1) p).toks need = wrap (k + 1) (p.toks 0) := by
  simp [wrapP, toks, wrap, toks_wrapP0]

theorem toks_annot (e : Exp) : ∀ ps need, (annot e ps).toks need = renderAt e ps need := by
  induction e with
  | atom n =>
    intro ps need
    simp only [annot, renderAt]
    cases h : ps [] with
    | zero => simp [wrapP, toks, wrap]
    | succ k => rw [toks_wrapP_succ]; simp [toks]
  | un u e ih =>
    intro ps need
    simp only [annot, renderAt]
    cases h : ps [] with
    | zero => simp [wrapP, toks, wrap, ih]
    | succ k => rw [toks_wrapP_succ]; simp [toks, ih]
  | bin o l r ihl ihr =>
    intro ps need
    simp only [annot, renderAt]
    cases h : ps [] with
    | zero => simp [wrapP, toks, wrap, ihl, ihr]
    | succ k => rw [toks_wrapP_succ]; simp [toks, ihl, ihr]

theorem parse_render (e : Exp) (ps : Parens) : parse (render e ps) = some e := by
  unfold render
  rw [← toks_annot, parse_toks, erase_annot]

/-! ## the viable-prefix automaton (`Spec.Grammar.firstBad`) -/

/-- `ts` takes the automaton from "operand due" to "operand ended" at the same depth, in any context -/
def Passes (ts : List Token) : Prop :=
  ∀ (d i : Nat) (rest : List Token),
    scan { expecting := true, depth := d } (ts ++ rest) i = scan { expecting := false, depth := d } rest (i + ts.length)

theorem passes_wrap (ts : List Token) (h : Passes ts) : ∀ k, Passes (wrap k ts) := by
  intro k
  induction k with
  | zero => exact h
  | succ k ih =>
    intro d i rest
    simp only [wrap, List.cons_append, List.append_assoc, List.nil_append, scan, stepTok, if_true]
    rw [ih (d + 1) (i + 1) (Token.rp :: rest)]
    simp only [scan, stepTok]
    simp only [Bool.not_false, Bool.true_and, Nat.zero_lt_succ, decide_true, if_true, Nat.add_sub_cancel,
      List.length_cons, List.length_append, List.length_nil]
    congr 1
    omega

theorem passes_un (u : UnOp) (ts : List Token) (h : Passes ts) : Passes (.sym u.sym :: ts) := by
  intro d i rest
  have hu : u.sym.isUnary = true := by cases u <;> rfl
  simp only [List.cons_append, scan, stepTok, if_true, hu]
  rw [h d (i + 1) rest]
  simp only [List.length_cons]
  congr 1
  omega

theorem passes_bin (o : BinOp) (a b : List Token) (ha : Passes a) (hb : Passes b) :
    Passes (a ++ .sym o.sym :: b) := by
  intro d i rest
  have ho : o.sym.isBinary = true := by cases o <;> rfl
  rw [List.append_assoc, ha d i]
  simp only [List.cons_append, scan, stepTok, ho, if_true, Bool.false_eq_true, if_false]
  rw [hb d (i + a.length + 1) rest]
  simp only [List.length_append, List.length_cons]
  congr 1
  omega

theorem passes_render (e : Exp) : ∀ ps need, Passes (renderAt e ps need) := by
  induction e with
  | atom n =>
    intro ps need
    simp only [renderAt]
    apply passes_wrap
    intro d i rest
    simp [scan, stepTok]
  | un u e ih =>
    intro ps need
    simp only [renderAt]
    have hb := passes_un u _ (ih (ps.child 0) 10)
    split
    · split
      · exact passes_wrap _ hb 1
      · exact hb
    · exact passes_wrap _ hb _
  | bin o l r ihl ihr =>
    intro ps need
    simp only [renderAt]
    have hb := passes_bin o _ _ (ihl (ps.child 0) o.needL) (ihr (ps.child 1) o.needR)
    split
    · split
      · exact passes_wrap _ hb 1
      · exact hb
    · exact passes_wrap _ hb _

/-- every rendering is a complete expression for the automaton -/
theorem firstBad_render (e : Exp) (ps : Parens) : firstBad (render e ps) = none := by
  have h := passes_render e ps 0 0 0 []
  simp only [List.append_nil] at h
  unfold firstBad render PState.start
  rw [h]
  simp [scan, PState.final]

theorem scan_append (a b : List Token) : ∀ (st : PState) (i : Nat),
    scan st (a ++ b) i = match scan st a i with
      | .ok st' => scan st' b (i + a.length)
      | .error j => .error j := by
  induction a with
  | nil => intro st i; simp [scan]
  | cons t r ih =>
    intro st i
    simp only [List.cons_append, scan]
    cases hs : stepTok st t with
    | none => simp
    | some st' =>
      simp only [ih st' (i + 1), List.length_cons]
      cases scan st' r (i + 1) with
      | error j => rfl
      | ok st'' => simp only; congr 1; omega

/-- closing everything that is open: an atom if an operand is due, then the open parentheses -/
def completion (st : PState) : List Token :=
  (if st.expecting then [Token.atom 0] else []) ++ List.replicate st.depth Token.rp

theorem scan_closers (d : Nat) : ∀ i, ∃ j, scan { expecting := false, depth := d } (List.replicate d Token.rp) i
    = .ok { expecting := false, depth := 0 } ∧ j = i + d := by
  induction d with
  | zero => intro i; exact ⟨i, rfl, rfl⟩
  | succ k ih =>
    intro i
    obtain ⟨j, h, _⟩ := ih (i + 1)
    refine ⟨i + (k + 1), ?_, rfl⟩
    simp only [List.replicate_succ, scan, stepTok]
    simpa using h

/-- a prefix the automaton has not rejected CAN be continued to a complete expression … -/
theorem accepted_prefix_viable (p : List Token) (st : PState) (h : scan .start p 0 = .ok st) :
    firstBad (p ++ completion st) = none := by
  unfold firstBad
  rw [scan_append, h]
  simp only [Nat.zero_add]
  obtain ⟨e, d⟩ := st
  obtain ⟨_, hc, _⟩ := scan_closers d (p.length + (if e then 1 else 0))
  cases e with
  | true =>
    simp only [completion, if_true, List.cons_append, List.nil_append, scan, stepTok]
    simp only [if_true] at hc
    rw [hc]; simp [PState.final]
  | false =>
    simp only [completion, Bool.false_eq_true, if_false, List.nil_append]
    simp only [Bool.false_eq_true, if_false, Nat.add_zero] at hc
    rw [hc]; simp [PState.final]

/-- … and one that it has rejected cannot: the rejected token is the first that no expression continues with -/
theorem rejected_prefix_dead (p suffix : List Token) (i : Nat) (h : scan .start p 0 = .error i) :
    firstBad (p ++ suffix) = some i := by
  unfold firstBad
  rw [scan_append, h]

end GoluaVerif.Proofs.ParseExp
