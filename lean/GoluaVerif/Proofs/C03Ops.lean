/-
  Proofs.C03Ops — get / remove / reset of Model.Table refine Spec.Map and preserve Inv.
-/
import GoluaVerif.Proofs.C03Array
import GoluaVerif.Proofs.C03SetVal
namespace GoluaVerif.Model.Table
open GoluaVerif.Spec (Key Val Map)

/-- the value the hash part holds for `k` -/
def hashAbs (h : Option HashTable) (k : Key) : Option Val :=
  match h with
  | none => none
  | some h => hashLookup h.slots k

/-- the invariant of an optional hash part -/
def HashInvO (hash : Key → Nat) (h : Option HashTable) (asize : Nat) : Prop :=
  ∀ x, h = some x → HashInv hash x asize

theorem abs_int_in (t : Mixed) (z : Int) (h : inArr t.arr z) : abs t (.int z) = arrAt t.arr z := by
  unfold abs
  simp only [inArr] at h
  simp only [h, and_self, if_true, arrAt]
  cases t.arr <;> rfl

theorem abs_int_out (t : Mixed) (z : Int) (h : ¬ inArr t.arr z) : abs t (.int z) = hashAbs t.hash (.int z) := by
  unfold abs
  simp only [inArr] at h
  simp only [h, if_false, hashAbs]
  cases t.hash <;> rfl

theorem abs_nonint (t : Mixed) (k : Key) (h : ∀ z, k ≠ .int z) : abs t k = hashAbs t.hash k := by
  unfold abs
  cases k with
  | int z => exact absurd rfl (h z)
  | _ => rfl

theorem norm_of_toInt_some (k : Key) (i : Int) (h : toInt k = some i) : k.norm = .int i := by
  simp [Key.norm, toInt] at *; simp [h]

theorem norm_of_toInt_none (k : Key) (h : toInt k = none) : k.norm = k ∧ ∀ z, k ≠ .int z := by
  constructor
  · simp [Key.norm, toInt] at *; simp [h]
  · intro z e; subst e; simp [toInt, Key.toInt?] at h

section
variable (hash : Key → Nat)

/-! ### hash part -/

theorem hFind_eq (h : Option HashTable) (asize : Nat) (inv : HashInvO hash h asize) (k : Key) :
    hFind hash h k = some (hashAbs h k) := by
  cases h with
  | none => rfl
  | some t =>
    have inv' := inv t rfl
    obtain ⟨r, hr, h1, h2⟩ := findSlot_spec hash t asize inv' k
    simp only [hFind, hr, hashAbs, Option.bind_eq_bind, Option.bind_some]
    cases r with
    | none => simp [hashLookup_absent _ _ (h2 rfl)]
    | some i =>
      obtain ⟨hi, hk⟩ := h1 i rfl
      simp [List.getElem?_eq_getElem hi, hashLookup_found _ inv'.nodup i hi k hk]

/-- the positions (keys of the slots) of an optional hash part -/
def hashKeys (h : Option HashTable) : List (Option Key) :=
  match h with
  | none => []
  | some h => h.slots.map (·.key)

theorem setVal_keys (slots : List Slot) (i : Nat) (hi : i < slots.length) (v : Option Val) :
    (setVal slots i hi v).map (·.key) = slots.map (·.key) := by
  have := setVal_shape slots i hi v
  have e : ∀ l : List Slot, l.map (·.key) = (l.map Slot.shape).map (·.1) := by
    intro l; simp [Slot.shape]
  rw [e, e, this]

theorem hRemoveKey_spec (h : Option HashTable) (asize : Nat) (inv : HashInvO hash h asize) (k : Key) :
    ∃ h', hRemoveKey hash h k = some (h', (hashAbs h k).isSome) ∧ HashInvO hash h' asize ∧
      (∀ k', hashAbs h' k' = if k' = k then none else hashAbs h k') ∧ hashKeys h' = hashKeys h ∧
      (h'.isSome = h.isSome) := by
  cases h with
  | none => exact ⟨none, rfl, inv, fun k' => by simp [hashAbs], rfl, rfl⟩
  | some t =>
    have inv' := inv t rfl
    obtain ⟨r, hr, h1, h2⟩ := findSlot_spec hash t asize inv' k
    cases r with
    | none =>
      have habs := hashLookup_absent _ _ (h2 rfl)
      refine ⟨some t, ?_, inv, ?_, rfl, rfl⟩
      · simp [hRemoveKey, removeKeySlots, hr, hashAbs, habs]
      · intro k'
        by_cases e : k' = k
        · subst e; simp [hashAbs, habs]
        · simp [e]
    | some i =>
      obtain ⟨hi, hk⟩ := h1 i rfl
      refine ⟨some { t with slots := setVal t.slots i hi none }, ?_, ?_, ?_, ?_, rfl⟩
      · simp [hRemoveKey, removeKeySlots, hr, hashAbs, setAt, hi, setVal,
          hashLookup_found _ inv'.nodup i hi k hk]
      · intro x hx
        cases hx
        exact hashInv_setVal hash t asize inv' i hi (by simp [hk]) none
      · intro k'
        simp only [hashAbs]
        exact hashLookup_setVal t.slots inv'.nodup i hi k hk none k'
      · simp only [hashKeys]
        exact setVal_keys _ _ _ _

theorem hReset_spec (h : Option HashTable) (asize : Nat) (inv : HashInvO hash h asize) (k : Key) (v : Val) :
    ∃ h', hReset hash h k v = some (h', (hashAbs h k).isSome) ∧ HashInvO hash h' asize ∧
      (∀ k', hashAbs h' k' = if k' = k ∧ (hashAbs h k).isSome then some v else hashAbs h k') ∧
      hashKeys h' = hashKeys h ∧ (h'.isSome = h.isSome) := by
  cases h with
  | none => exact ⟨none, rfl, inv, fun k' => by simp [hashAbs], rfl, rfl⟩
  | some t =>
    have inv' := inv t rfl
    obtain ⟨r, hr, h1, h2⟩ := findSlot_spec hash t asize inv' k
    cases r with
    | none =>
      have habs := hashLookup_absent _ _ (h2 rfl)
      refine ⟨some t, ?_, inv, ?_, rfl, rfl⟩
      · simp [hReset, resetKeyValue, hr, hashAbs, habs]
      · intro k'; simp [hashAbs, habs]
    | some i =>
      obtain ⟨hi, hk⟩ := h1 i rfl
      have hf := hashLookup_found _ inv'.nodup i hi k hk
      by_cases hv : t.slots[i].val.isSome = true
      · refine ⟨some { t with slots := setVal t.slots i hi (some v) }, ?_, ?_, ?_, ?_, rfl⟩
        · simp [hReset, resetKeyValue, hr, hashAbs, setAt, hi, setVal, hf, hv]
        · intro x hx
          cases hx
          exact hashInv_setVal hash t asize inv' i hi (by simp [hk]) (some v)
        · intro k'
          simp only [hashAbs, hf, hv, and_true]
          exact hashLookup_setVal t.slots inv'.nodup i hi k hk (some v) k'
        · simp only [hashKeys]
          exact setVal_keys _ _ _ _
      · refine ⟨some t, ?_, inv, ?_, rfl, rfl⟩
        · simp [hReset, resetKeyValue, hr, hashAbs, List.getElem?_eq_getElem hi, hf, hv]
        · intro k'; simp [hashAbs, hf, hv]

end
end GoluaVerif.Model.Table
